(* C24 -- EM monotonicity for SEVERAL independent tunable blocks (over R).

   Abstract model.  Examples e (weight m e > 0), latent worlds z in zs e.  Blocks b in bs (a
   tunable fact = block with the two outcomes {true,false} and avail = 1; the tunable heads of one
   annotated disjunction, together with its "no head" outcome, = block with avail = 1 - constant
   heads).  In world z of example e block b either selects outcome k (kap b e z = Some k) and
   contributes the factor th b k, or is switched off (body false / block irrelevant for e:
   kap b e z = None) and contributes 1.  Everything that does not depend on the parameters
   (constant heads, probabilistic facts, consistency with the evidence) is the factor a e z >= 0:

       f th e z = a e z * prod_{b in bs} (match kap b e z with Some k => th b k | None => 1 end)

   Proved here:
     Q_decompose   Q(th'|th) - Q(th|th) = sum_b sum_{k in ks b} counts b k * (ln th' b k - ln th b k)
     block_opt     the normalised expected-count update maximises every block's summand
     mstep_maximises_Q   hence Q(.|th) over all admissible parameter vectors
     em_monotone_blocks  hence (with the Gibbs bound em_lower_bound) LL th <= LL (update th).      *)
From Coq Require Import Reals Lra List Arith Lia.
From PL.C24 Require Import ProofsEM.
Import ListNotations.
Open Scope R_scope.

(* ------------------------------------------------------------------ finite products *)
Fixpoint prodR {A} (f : A -> R) (l : list A) : R :=
  match l with [] => 1 | x :: t => f x * prodR f t end.

Lemma prodR_nonneg : forall A (f : A -> R) l, (forall x, In x l -> 0 <= f x) -> 0 <= prodR f l.
Proof.
  induction l as [|x t IH]; simpl; intros H; [lra|].
  apply Rmult_le_pos; auto.
Qed.

Lemma prodR_pos : forall A (f : A -> R) l, (forall x, In x l -> 0 < f x) -> 0 < prodR f l.
Proof.
  induction l as [|x t IH]; simpl; intros H; [lra|].
  apply Rmult_lt_0_compat; auto.
Qed.

Lemma prodR_zero : forall A (f : A -> R) l x, In x l -> f x = 0 -> prodR f l = 0.
Proof.
  induction l as [|y t IH]; simpl; intros x Hin Hx; [tauto|].
  destruct Hin as [->|Hin]; [rewrite Hx; ring|]. rewrite (IH x); auto. ring.
Qed.

Lemma prodR_pos_inv : forall A (f : A -> R) l, (forall x, In x l -> 0 <= f x) -> 0 < prodR f l ->
  forall x, In x l -> 0 < f x.
Proof.
  intros A f l Hn Hp x Hx. destruct (Hn x Hx) as [P|Z0]; auto.
  rewrite (prodR_zero A f l x Hx) in Hp; auto. lra.
Qed.

Lemma ln_prodR : forall A (f : A -> R) l, (forall x, In x l -> 0 < f x) ->
  ln (prodR f l) = sumR (fun x => ln (f x)) l.
Proof.
  induction l as [|x t IH]; simpl; intros H; [apply ln_1|].
  rewrite ln_mult; auto. - rewrite IH; auto. - apply prodR_pos; auto.
Qed.

Lemma prodR_ext : forall A (f g : A -> R) l, (forall x, In x l -> f x = g x) -> prodR f l = prodR g l.
Proof.
  induction l as [|x t IH]; simpl; intros H; auto. rewrite (H x) by auto. rewrite IH; auto.
Qed.

(* ------------------------------------------------------------------ regrouping a block's terms by outcome *)
Lemma regroup : forall (E Z : Type) (exs : list E) (m : E -> R) (zs : E -> list Z)
  (pst : E -> Z -> R) (kp : E -> Z -> option nat) (ks : list nat) (g : nat -> R),
  NoDup ks -> (forall e z k, In e exs -> In z (zs e) -> kp e z = Some k -> In k ks) ->
  sumR (fun e => m e * sumR (fun z => pst e z * match kp e z with Some k => g k | None => 0 end) (zs e)) exs
  = sumR (fun k => sumR (fun e => m e * sumR (fun z =>
                      match kp e z with Some k' => if Nat.eqb k' k then pst e z else 0 | None => 0 end) (zs e)) exs
                   * g k) ks.
Proof.
  intros E Z exs m zs pst kp ks g ND KI.
  rewrite (sumR_ext _ _ (fun k => sumR (fun e => m e * sumR (fun z =>
             match kp e z with
             | Some k' => if Nat.eqb k' k then pst e z * g k else 0
             | None => 0 end) (zs e)) exs) ks).
  - rewrite sumR_swap. apply sumR_ext. intros e He. rewrite sumR_scal_l. f_equal.
    rewrite sumR_swap. apply sumR_ext. intros z Hz.
    destruct (kp e z) as [k0|] eqn:K.
    + rewrite (sumR_delta (fun k => pst e z * g k) ks k0 ND (KI e z k0 He Hz K)). reflexivity.
    + rewrite sumR_zero. ring.
  - intros k Hk. rewrite <- sumR_scal_r. apply sumR_ext. intros e He.
    rewrite Rmult_assoc. f_equal. rewrite <- sumR_scal_r. apply sumR_ext. intros z Hz.
    destruct (kp e z); [|lra]. destruct (Nat.eqb n k); lra.
Qed.

(* ------------------------------------------------------------------ several blocks *)
Section Blocks.
  Variables (E Z : Type) (exs : list E) (m : E -> R) (zs : E -> list Z).
  Variable a : E -> Z -> R.
  Variable bs : list nat.
  Variable ks : nat -> list nat.
  Variable avail : nat -> R.
  Variable kap : nat -> E -> Z -> option nat.
  Hypothesis ks_nodup : forall b, In b bs -> NoDup (ks b).
  Hypothesis kap_in : forall b e z k, In b bs -> In e exs -> In z (zs e) -> kap b e z = Some k -> In k (ks b).
  Hypothesis m_pos : forall e, In e exs -> 0 < m e.
  Hypothesis a_nonneg : forall e z, 0 <= a e z.
  Hypothesis avail_pos : forall b, In b bs -> 0 < avail b.

  Definition bfactor (th : nat -> nat -> R) (b : nat) (e : E) (z : Z) : R :=
    match kap b e z with Some k => th b k | None => 1 end.

  Definition fmulti (th : nat -> nat -> R) (e : E) (z : Z) : R :=
    a e z * prodR (fun b => bfactor th b e z) bs.

  (* expected number of times block b selects outcome k *)
  Definition bcounts (th : nat -> nat -> R) (b k : nat) : R :=
    sumR (fun e => m e * sumR (fun z => match kap b e z with
                                        | Some k' => if Nat.eqb k' k then post zs fmulti th e z else 0
                                        | None => 0 end) (zs e)) exs.

  Definition btotal (th : nat -> nat -> R) (b : nat) : R := sumR (bcounts th b) (ks b).

  (* LFI's normalised expected-count update, block by block; a block that is never active keeps its value *)
  Definition em_update_blocks (th : nat -> nat -> R) (b k : nat) : R :=
    if Req_EM_T (btotal th b) 0 then th b k else avail b * bcounts th b k / btotal th b.

  (* one block's summand of the Q-function difference *)
  Definition bterm (th th' : nat -> nat -> R) (b : nat) : R :=
    sumR (fun k => bcounts th b k * (ln (th' b k) - ln (th b k))) (ks b).

  (* th' is admissible: non-negative, every block within its available mass *)
  Definition admissible_theta (t : nat -> nat -> R) : Prop :=
    (forall b k, In b bs -> 0 <= t b k) /\ (forall b, In b bs -> sumR (t b) (ks b) <= avail b).

  (* th' keeps the support of the data: a selected outcome in a world of positive weight stays positive *)
  Definition keeps_support (th t : nat -> nat -> R) : Prop :=
    forall b e z k, In b bs -> In e exs -> In z (zs e) -> 0 < fmulti th e z -> kap b e z = Some k -> 0 < t b k.

  Lemma bfactor_nonneg : forall t, (forall b k, In b bs -> 0 <= t b k) ->
    forall b e z, In b bs -> 0 <= bfactor t b e z.
  Proof. intros t Ht b e z Hb. unfold bfactor. destruct (kap b e z); auto. lra. Qed.

  Lemma fmulti_nonneg : forall t, (forall b k, In b bs -> 0 <= t b k) -> forall e z, 0 <= fmulti t e z.
  Proof.
    intros t Ht e z. unfold fmulti. apply Rmult_le_pos; auto.
    apply prodR_nonneg. intros b Hb. apply bfactor_nonneg; auto.
  Qed.

  Lemma fmulti_pos_parts : forall t, (forall b k, In b bs -> 0 <= t b k) -> forall e z,
    0 < fmulti t e z -> 0 < a e z /\ forall b, In b bs -> 0 < bfactor t b e z.
  Proof.
    intros t Ht e z F. unfold fmulti in F.
    assert (P0 : 0 <= prodR (fun b => bfactor t b e z) bs).
    { apply prodR_nonneg. intros b Hb. apply bfactor_nonneg; auto. }
    assert (A : 0 < a e z).
    { destruct (a_nonneg e z) as [A|A]; auto. rewrite <- A in F. lra. }
    assert (P : 0 < prodR (fun b => bfactor t b e z) bs).
    { destruct P0 as [P|P]; auto. rewrite <- P in F. lra. }
    split; auto. intros b Hb.
    apply (prodR_pos_inv _ (fun b => bfactor t b e z) bs); auto.
    intros b' Hb'. apply bfactor_nonneg; auto.
  Qed.

  Lemma fmulti_pos_sel : forall t, (forall b k, In b bs -> 0 <= t b k) -> forall e z b k,
    0 < fmulti t e z -> In b bs -> kap b e z = Some k -> 0 < t b k.
  Proof.
    intros t Ht e z b k F Hb K. destruct (fmulti_pos_parts t Ht e z F) as [_ P].
    specialize (P b Hb). unfold bfactor in P. rewrite K in P. auto.
  Qed.

  Lemma fmulti_pos_intro : forall t e z, 0 < a e z ->
    (forall b k, In b bs -> kap b e z = Some k -> 0 < t b k) -> 0 < fmulti t e z.
  Proof.
    intros t e z A H. unfold fmulti. apply Rmult_lt_0_compat; auto. apply prodR_pos.
    intros b Hb. unfold bfactor. destruct (kap b e z) eqn:K; [eapply H; eauto|lra].
  Qed.

  Variable th : nat -> nat -> R.
  Hypothesis th_nonneg : forall b k, In b bs -> 0 <= th b k.
  Hypothesis th_sum : forall b, In b bs -> sumR (th b) (ks b) <= avail b.
  Hypothesis lik_pos : forall e, In e exs -> 0 < lik zs fmulti th e.

  Lemma post_nonneg_b : forall e z, In e exs -> 0 <= post zs fmulti th e z.
  Proof.
    intros e z He. unfold post. apply Rmult_le_pos; [apply fmulti_nonneg; auto|].
    left. apply Rinv_0_lt_compat. auto.
  Qed.

  Lemma post_pos_f : forall e z, In e exs -> 0 < post zs fmulti th e z -> 0 < fmulti th e z.
  Proof.
    intros e z He Pz. unfold post, Rdiv in Pz. destruct (fmulti_nonneg th th_nonneg e z) as [F|F]; auto.
    rewrite <- F in Pz. lra.
  Qed.

  Lemma f_pos_post : forall e z, In e exs -> 0 < fmulti th e z -> 0 < post zs fmulti th e z.
  Proof. intros e z He F. unfold post. apply Rdiv_lt_0_compat; auto. Qed.

  Lemma bcounts_inner_nonneg : forall b k e z, In e exs ->
    0 <= match kap b e z with Some k' => if Nat.eqb k' k then post zs fmulti th e z else 0 | None => 0 end.
  Proof.
    intros b k e z He. destruct (kap b e z); [|lra].
    destruct (Nat.eqb n k); [apply post_nonneg_b; auto|lra].
  Qed.

  Lemma bcounts_nonneg : forall b k, 0 <= bcounts th b k.
  Proof.
    intros b k. unfold bcounts. apply sumR_nonneg. intros e He.
    apply Rmult_le_pos; [left; auto|]. apply sumR_nonneg. intros z Hz. apply bcounts_inner_nonneg; auto.
  Qed.

  (* a world of positive weight contributes a positive count to every outcome it selects *)
  Lemma bcounts_pos : forall b k e z, In e exs -> In z (zs e) -> 0 < fmulti th e z ->
    kap b e z = Some k -> 0 < bcounts th b k.
  Proof.
    intros b k e z He Hz F K. unfold bcounts.
    apply sumR_pos_in with (x := e); auto.
    - intros e' He'. apply Rmult_le_pos; [left; auto|]. apply sumR_nonneg. intros z' Hz'.
      apply bcounts_inner_nonneg; auto.
    - apply Rmult_lt_0_compat; auto.
      apply sumR_pos_in with (x := z); auto.
      + intros z' Hz'. apply bcounts_inner_nonneg; auto.
      + rewrite K, Nat.eqb_refl. apply f_pos_post; auto.
  Qed.

  (* ... and a positive count comes from such a world *)
  Lemma bcounts_witness : forall b k, 0 < bcounts th b k ->
    exists e z, In e exs /\ In z (zs e) /\ kap b e z = Some k /\ 0 < fmulti th e z.
  Proof.
    intros b k P. unfold bcounts in P.
    destruct (sumR_pos_ex _ _ _ P) as [e [He Pe]].
    assert (Pi : 0 < sumR (fun z => match kap b e z with
                 | Some k' => if Nat.eqb k' k then post zs fmulti th e z else 0 | None => 0 end) (zs e)).
    { pose proof (m_pos e He) as Me.
      destruct (Rle_or_lt (sumR (fun z => match kap b e z with
                 | Some k' => if Nat.eqb k' k then post zs fmulti th e z else 0 | None => 0 end) (zs e)) 0) as [L|G]; auto.
      assert (m e * sumR (fun z => match kap b e z with
                 | Some k' => if Nat.eqb k' k then post zs fmulti th e z else 0 | None => 0 end) (zs e) <= m e * 0)
        by (apply Rmult_le_compat_l; lra). lra. }
    destruct (sumR_pos_ex _ _ _ Pi) as [z [Hz Pz]].
    exists e, z. destruct (kap b e z) as [k'|] eqn:K; [|lra].
    destruct (Nat.eqb_spec k' k) as [->|_]; [|lra].
    repeat split; auto. apply post_pos_f; auto.
  Qed.

  Lemma bcounts_support : forall b k, In b bs -> 0 < bcounts th b k -> 0 < th b k.
  Proof.
    intros b k Hb P. destruct (bcounts_witness b k P) as [e [z [He [Hz [K F]]]]].
    eapply fmulti_pos_sel; eauto.
  Qed.

  Lemma btotal_nonneg : forall b, 0 <= btotal th b.
  Proof. intros b. unfold btotal. apply sumR_nonneg. intros k _. apply bcounts_nonneg. Qed.

  Lemma btotal_zero_counts : forall b k, In k (ks b) -> btotal th b = 0 -> bcounts th b k = 0.
  Proof.
    intros b k Hk Z0. destruct (bcounts_nonneg b k) as [P|Q0]; auto.
    assert (0 < btotal th b).
    { unfold btotal. apply sumR_pos_in with (x := k); auto. intros k' _. apply bcounts_nonneg. }
    lra.
  Qed.

  Lemma update_nonneg_b : forall b k, In b bs -> 0 <= em_update_blocks th b k.
  Proof.
    intros b k Hb. unfold em_update_blocks. destruct (Req_EM_T (btotal th b) 0) as [Z0|NZ]; auto.
    pose proof (btotal_nonneg b). pose proof (bcounts_nonneg b k). pose proof (avail_pos b Hb).
    apply Rmult_le_pos; [apply Rmult_le_pos; lra|]. left. apply Rinv_0_lt_compat. lra.
  Qed.

  Lemma update_keeps_support : keeps_support th (em_update_blocks th).
  Proof.
    intros b e z k Hb He Hz F K.
    pose proof (bcounts_pos b k e z He Hz F K) as C.
    assert (T : 0 < btotal th b).
    { unfold btotal. apply sumR_pos_in with (x := k); auto.
      - intros k' _. apply bcounts_nonneg.
      - eapply kap_in; eauto. }
    unfold em_update_blocks. destruct (Req_EM_T (btotal th b) 0) as [Z0|NZ]; [lra|].
    apply Rdiv_lt_0_compat; auto. apply Rmult_lt_0_compat; auto.
  Qed.

  Lemma update_sum : forall b, In b bs -> sumR (em_update_blocks th b) (ks b) <= avail b.
  Proof.
    intros b Hb. unfold em_update_blocks. destruct (Req_EM_T (btotal th b) 0) as [Z0|NZ]; auto.
    unfold Rdiv. rewrite sumR_scal_r. rewrite (sumR_scal_l _ (bcounts th b) (avail b)).
    fold (btotal th b). right. field. auto.
  Qed.

  Lemma update_admissible : admissible_theta (em_update_blocks th).
  Proof. split; [intros; apply update_nonneg_b; auto|apply update_sum]. Qed.

  Lemma th_keeps_support : keeps_support th th.
  Proof. intros b e z k Hb He Hz F K. eapply fmulti_pos_sel; eauto. Qed.

  (* -------------------------------------------------------------- Q decomposes as a sum over blocks *)
  Lemma Q_decompose : forall th', keeps_support th th' ->
    Qf exs m zs fmulti th th' - Qf exs m zs fmulti th th = sumR (fun b => bterm th th' b) bs.
  Proof.
    intros th' KS. unfold Qf. rewrite <- sumR_minus.
    set (D := fun b e z => match kap b e z with Some k => ln (th' b k) - ln (th b k) | None => 0 end).
    (* step 1: per world, the log ratio splits over the blocks *)
    assert (S1 : sumR (fun e => m e * sumR (fun z => post zs fmulti th e z * ln (fmulti th' e z)) (zs e) -
                               m e * sumR (fun z => post zs fmulti th e z * ln (fmulti th e z)) (zs e)) exs =
                 sumR (fun e => m e * sumR (fun z => sumR (fun b => post zs fmulti th e z * D b e z) bs) (zs e)) exs).
    { apply sumR_ext. intros e He. rewrite <- Rmult_minus_distr_l. f_equal.
      rewrite <- sumR_minus. apply sumR_ext. intros z Hz.
      rewrite sumR_scal_l.
      destruct (post_nonneg_b e z He) as [Pz|Zz]; [|rewrite <- Zz; ring].
      pose proof (post_pos_f e z He Pz) as Fz.
      destruct (fmulti_pos_parts th th_nonneg e z Fz) as [Az Bz].
      assert (Bz' : forall b, In b bs -> 0 < bfactor th' b e z).
      { intros b Hb. unfold bfactor. destruct (kap b e z) as [k|] eqn:K; [|lra].
        eapply KS; eauto. }
      unfold fmulti. rewrite !ln_mult by (auto; apply prodR_pos; auto).
      rewrite !ln_prodR by auto.
      assert (X : sumR (fun b => D b e z) bs =
                  sumR (fun b => ln (bfactor th' b e z)) bs - sumR (fun b => ln (bfactor th b e z)) bs).
      { rewrite <- sumR_minus. apply sumR_ext. intros b Hb. unfold D, bfactor.
        destruct (kap b e z); [reflexivity|rewrite ln_1; ring]. }
      rewrite X. ring. }
    rewrite S1. clear S1.
    (* step 2: pull the block sum outside *)
    assert (S2 : sumR (fun e => m e * sumR (fun z => sumR (fun b => post zs fmulti th e z * D b e z) bs) (zs e)) exs =
                 sumR (fun b => sumR (fun e => m e * sumR (fun z => post zs fmulti th e z * D b e z) (zs e)) exs) bs).
    { rewrite (sumR_swap _ _ (fun b e => m e * sumR (fun z => post zs fmulti th e z * D b e z) (zs e)) bs exs).
      apply sumR_ext. intros e He. rewrite sumR_scal_l. f_equal. apply sumR_swap. }
    rewrite S2. clear S2.
    (* step 3: regroup every block by outcome *)
    apply sumR_ext. intros b Hb. unfold bterm, bcounts, D.
    apply (regroup E Z exs m zs (post zs fmulti th) (kap b) (ks b) (fun k => ln (th' b k) - ln (th b k))).
    - apply ks_nodup; auto.
    - intros e z k He Hz K. eapply kap_in; eauto.
  Qed.

  (* -------------------------------------------------------------- the update maximises every block's summand *)
  Lemma block_opt : forall th'' b, In b bs -> admissible_theta th'' -> keeps_support th th'' ->
    bterm th th'' b <= bterm th (em_update_blocks th) b.
  Proof.
    intros th'' b Hb [N'' S''] KS. unfold bterm, em_update_blocks.
    destruct (Req_EM_T (btotal th b) 0) as [Z0|NZ].
    - (* block never active: all counts are 0 *)
      rewrite (sumR_ext _ _ (fun _ => 0)), (sumR_ext _ (fun k => bcounts th b k * (ln (th b k) - ln (th b k))) (fun _ => 0)).
      + lra.
      + intros k Hk. ring.
      + intros k Hk. rewrite (btotal_zero_counts b k Hk Z0). ring.
    - assert (T : 0 < btotal th b) by (pose proof (btotal_nonneg b); lra).
      pose proof (mstep_categorical (ks b) (bcounts th b) (th'' b) (avail b) (avail_pos b Hb)
                    (fun k _ => bcounts_nonneg b k) (fun k _ => N'' b k Hb)) as MS.
      assert (SUP : forall k, In k (ks b) -> 0 < bcounts th b k -> 0 < th'' b k).
      { intros k Hk P. destruct (bcounts_witness b k P) as [e [z [He [Hz [K F]]]]]. eapply KS; eauto. }
      specialize (MS SUP (S'' b Hb) T). fold (btotal th b) in MS.
      rewrite (sumR_ext _ (fun k => bcounts th b k * (ln (th'' b k) - ln (th b k)))
                 (fun k => bcounts th b k * ln (th'' b k) - bcounts th b k * ln (th b k))) by (intros; ring).
      rewrite (sumR_ext _ (fun k => bcounts th b k * (ln (avail b * bcounts th b k / btotal th b) - ln (th b k)))
                 (fun k => bcounts th b k * ln (avail b * bcounts th b k / btotal th b) - bcounts th b k * ln (th b k)))
        by (intros; ring).
      rewrite !sumR_minus. lra.
  Qed.

  (* -------------------------------------------------------------- ... hence the whole Q-function *)
  Theorem mstep_maximises_Q : forall th'', admissible_theta th'' -> keeps_support th th'' ->
    Qf exs m zs fmulti th th'' <= Qf exs m zs fmulti th (em_update_blocks th).
  Proof.
    intros th'' AD KS.
    pose proof (Q_decompose th'' KS) as D1.
    pose proof (Q_decompose (em_update_blocks th) update_keeps_support) as D2.
    assert (sumR (fun b => bterm th th'' b) bs <= sumR (fun b => bterm th (em_update_blocks th) b) bs).
    { apply sumR_le. intros b Hb. apply block_opt; auto. }
    lra.
  Qed.

  (* -------------------------------------------------------------- one full EM step does not decrease the log-likelihood *)
  Theorem em_monotone_blocks :
    LL exs m zs fmulti th <= LL exs m zs fmulti (em_update_blocks th).
  Proof.
    assert (LB : Qf exs m zs fmulti th (em_update_blocks th) - Qf exs m zs fmulti th th <=
                 LL exs m zs fmulti (em_update_blocks th) - LL exs m zs fmulti th).
    { apply em_lower_bound.
      - intros e He. left. auto.
      - apply fmulti_nonneg. auto.
      - apply fmulti_nonneg. intros; apply update_nonneg_b; auto.
      - auto.
      - intros e z He Hz F.
        destruct (fmulti_pos_parts th th_nonneg e z F) as [Az _].
        apply fmulti_pos_intro; auto. intros b k Hb K. eapply update_keeps_support; eauto. }
    pose proof (mstep_maximises_Q th (conj th_nonneg th_sum) th_keeps_support). lra.
  Qed.

  (* the likelihood of every example stays positive, so the step can be iterated *)
  Lemma lik_pos_after : forall e, In e exs -> 0 < lik zs fmulti (em_update_blocks th) e.
  Proof.
    intros e He. destruct (sumR_pos_ex _ _ _ (lik_pos e He)) as [z [Hz F]].
    unfold lik. apply sumR_pos_in with (x := z); auto.
    - intros z' _. apply fmulti_nonneg. intros; apply update_nonneg_b; auto.
    - destruct (fmulti_pos_parts th th_nonneg e z F) as [Az _].
      apply fmulti_pos_intro; auto. intros b k Hb K. eapply update_keeps_support; eauto.
  Qed.
  (* the step can be iterated: the new parameters are admissible and every example keeps positive likelihood *)
  Theorem em_step_valid :
    admissible_theta (em_update_blocks th) /\ (forall e, In e exs -> 0 < lik zs fmulti (em_update_blocks th) e).
  Proof. split; [apply update_admissible|apply lik_pos_after]. Qed.

  (* Shape of LFI's _normalize_weights.  An AD block carries its "no head" outcome k0 as one more outcome
     (weight avail - sum of the tunable heads).  LFI normalises over the tunable heads only, i.e. it
     computes  avail * counts k / sum_{k <> k0} counts  and leaves no mass to k0.  This IS the EM update
     exactly when the expected count of k0 is 0 (e.g. because th b k0 = 0: the heads already sum to avail) *)
  Lemma sumR_remove_zero : forall (f : nat -> R) k0 l, f k0 = 0 -> sumR f (remove Nat.eq_dec k0 l) = sumR f l.
  Proof.
    intros f k0 l Z0. induction l as [|x t IH]; simpl; auto.
    destruct (Nat.eq_dec k0 x) as [->|NE]; simpl; rewrite IH; lra.
  Qed.

  Theorem update_without_none : forall b k0, bcounts th b k0 = 0 ->
    btotal th b = sumR (bcounts th b) (remove Nat.eq_dec k0 (ks b)) /\
    (btotal th b <> 0 -> em_update_blocks th b k0 = 0) /\
    (forall k, btotal th b <> 0 ->
       em_update_blocks th b k = avail b * bcounts th b k / sumR (bcounts th b) (remove Nat.eq_dec k0 (ks b))).
  Proof.
    intros b k0 Z0. assert (T : btotal th b = sumR (bcounts th b) (remove Nat.eq_dec k0 (ks b))).
    { unfold btotal. symmetry. apply sumR_remove_zero. auto. }
    split; auto. split.
    - intros NZ. unfold em_update_blocks. destruct (Req_EM_T (btotal th b) 0); [contradiction|].
      rewrite Z0. unfold Rdiv. ring.
    - intros k NZ. unfold em_update_blocks. destruct (Req_EM_T (btotal th b) 0); [contradiction|].
      rewrite <- T. reflexivity.
  Qed.

  Lemma th_zero_count_zero : forall b k, In b bs -> th b k = 0 -> bcounts th b k = 0.
  Proof.
    intros b k Hb Z0. destruct (bcounts_nonneg b k) as [P|Q0]; auto.
    pose proof (bcounts_support b k Hb P). lra.
  Qed.
End Blocks.
Arguments bfactor {E Z}.
Arguments fmulti {E Z}.
Arguments bcounts {E Z}.
Arguments btotal {E Z}.
Arguments em_update_blocks {E Z}.
Arguments bterm {E Z}.
Arguments admissible_theta : clear implicits.
Arguments keeps_support {E Z}.
