(* C24 -- transport of the executable model's Q-valued sums and products (ModelLFIUpdate.v)
   to the real-valued sumR / prodR of the abstract EM development. *)
From Coq Require Import QArith Qreals Reals List Bool Arith Lia Lra.
From PL.C24 Require Import ModelLFIUpdate ProofsBasic ProofsEM ProofsEMBlocks ProofsInstDefs.
Import ListNotations.

Lemma Q2R_0 : Q2R 0 = 0%R.
Proof. unfold Q2R; simpl; lra. Qed.

Lemma Q2R_1 : Q2R 1 = 1%R.
Proof. unfold Q2R; simpl; lra. Qed.

Lemma Q2R_psum : forall A (f : A -> Q) l, Q2R (psum f l) = sumR (fun x => Q2R (f x)) l.
Proof.
  induction l as [|x t IH]; cbn [psum sumR]; [apply Q2R_0|].
  rewrite Q2R_plus, IH. reflexivity.
Qed.

Lemma Q2R_qsum : forall A (f : A -> Q) l, Q2R (qsum f l) = sumR (fun x => Q2R (f x)) l.
Proof.
  intros A f l. rewrite (Qeq_eqR _ _ (qsum_psum A f l)). apply Q2R_psum.
Qed.

Lemma Q2R_qprod : forall l, Q2R (qprod l) = prodR Q2R l.
Proof.
  induction l as [|x t IH]; cbn [qprod prodR]; [apply Q2R_1|].
  rewrite (Qeq_eqR _ _ (Qred_correct _)), Q2R_mult, IH. reflexivity.
Qed.

(* ------------------------------------------------------------------ generic list lemmas *)
Lemma prodR_map : forall A B (g : B -> R) (h : A -> B) l,
  prodR g (map h l) = prodR (fun x => g (h x)) l.
Proof. induction l as [|x t IH]; cbn [map prodR]; [reflexivity|]. rewrite IH. reflexivity. Qed.

Lemma sumR_map : forall A B (g : B -> R) (h : A -> B) l,
  sumR g (map h l) = sumR (fun x => g (h x)) l.
Proof. induction l as [|x t IH]; cbn [map sumR]; [reflexivity|]. rewrite IH. reflexivity. Qed.

Lemma sumR_filter : forall A (g : A -> R) (f : A -> bool) l,
  sumR g (filter f l) = sumR (fun x => if f x then g x else 0%R) l.
Proof.
  induction l as [|x t IH]; cbn [filter sumR]; [reflexivity|].
  destruct (f x); cbn [sumR]; rewrite IH; lra.
Qed.

Lemma prodR_combine_seq : forall A B (f : A * B -> R) (d1 : A) (d2 : B) p z s,
  length z = length p ->
  prodR f (combine p z) =
  prodR (fun b => f (nth (b - s) p d1, nth (b - s) z d2)) (seq s (length p)).
Proof.
  induction p as [|c t IH]; intros z s H.
  - reflexivity.
  - destruct z as [|k z']; [discriminate H|].
    cbn [combine length seq prodR]. rewrite Nat.sub_diag. cbn [nth].
    f_equal. rewrite (IH z' (S s)) by (simpl in H; lia).
    apply prodR_ext. intros b Hb. apply in_seq in Hb.
    replace (b - s)%nat with (S (b - S s)) by lia. reflexivity.
Qed.

(* ------------------------------------------------------------------ worlds *)
Lemma worlds_length : forall p z, In z (worlds p) -> length z = length p.
Proof.
  induction p as [|c t IH]; intros z H; cbn [worlds] in H.
  - destruct H as [<-|[]]. reflexivity.
  - apply in_flat_map in H. destruct H as [k [_ H]]. apply in_map_iff in H.
    destruct H as [z' [<- H]]. cbn [length]. f_equal. apply IH; auto.
Qed.

Lemma worlds_nth : forall p z b, In z (worlds p) -> (b < length p)%nat ->
  In (nth b z 0%nat) (options (nth b p dcl)).
Proof.
  induction p as [|c t IH]; intros z b H Hb; cbn [length] in Hb; [lia|].
  cbn [worlds] in H. apply in_flat_map in H. destruct H as [k [Hk H]]. apply in_map_iff in H.
  destruct H as [z' [<- H]]. destruct b as [|b]; cbn [nth]; [exact Hk|].
  apply IH; auto. lia.
Qed.

Lemma Q2R_wweight : forall th p z, length z = length p ->
  Q2R (wweight th p z) =
  prodR (fun b => Q2R (sel_weight th (nth b p dcl) (nth b z 0%nat))) (seq 0 (length p)).
Proof.
  intros th p z H. unfold wweight. rewrite Q2R_qprod, prodR_map.
  rewrite (prodR_combine_seq _ _ (fun ck => Q2R (sel_weight th (fst ck) (snd ck))) dcl 0%nat p z 0%nat H).
  apply prodR_ext. intros b _. rewrite Nat.sub_0_r. reflexivity.
Qed.

Lemma Q2R_wsum_ev : forall th p e (pred : wentry -> bool),
  Q2R (wsum (ev_worlds (wtable th p) e) pred) =
  sumR (fun z => if ev_true (world_vals p z) e && pred (z, world_vals p z, wweight th p z)
                 then Q2R (wweight th p z) else 0%R) (worlds p).
Proof.
  intros th p e pred. unfold wsum, ev_worlds, wtable.
  rewrite Q2R_qsum, sumR_filter, sumR_filter, sumR_map.
  apply sumR_ext. intros z _. unfold ev_pred. cbn [fst snd].
  destruct (ev_true (world_vals p z) e); cbn [andb]; [|reflexivity].
  destruct (pred (z, world_vals p z, wweight th p z)); reflexivity.
Qed.

Lemma Q2R_pevidence : forall th p e,
  Q2R (pevidence th p e) =
  sumR (fun z => if ev_true (world_vals p z) e then Q2R (wweight th p z) else 0%R) (worlds p).
Proof.
  intros th p e. unfold pevidence. rewrite Q2R_wsum_ev.
  apply sumR_ext. intros z _. unfold all_pred. rewrite andb_true_r. reflexivity.
Qed.

(* ------------------------------------------------------------------ outcome weights sum to one *)
Lemma psum_app : forall A (f : A -> Q) l1 l2, (psum f (l1 ++ l2) == psum f l1 + psum f l2)%Q.
Proof.
  induction l1 as [|x t IH]; intros l2; cbn [app psum].
  - ring.
  - rewrite IH. ring.
Qed.

Lemma psum_nth_error_seq : forall A (g : A -> Q) (d : Q) hs s,
  (psum (fun k => match nth_error hs (k - s) with Some h => g h | None => d end)
        (seq s (length hs)) == psum g hs)%Q.
Proof.
  induction hs as [|h t IH]; intros s; cbn [length seq psum].
  - reflexivity.
  - rewrite Nat.sub_diag. cbn [nth_error]. rewrite <- (IH (S s)).
    apply Qplus_comp; [reflexivity|].
    apply psum_ext. intros b Hb. apply in_seq in Hb.
    replace (b - s)%nat with (S (b - S s)) by lia. reflexivity.
Qed.

Lemma sel_weight_options_sum : forall th c, (psum (sel_weight th c) (options c) == 1)%Q.
Proof.
  intros th c. unfold options. destruct (is_det c) eqn:D.
  - unfold is_det in D. cbn [psum]. unfold sel_weight.
    destruct (heads c) as [|[a k] [|h2 t]]; try discriminate D;
      destruct k; try discriminate D. cbn [nth_error snd hweight]. ring.
  - rewrite seq_S, psum_app. cbn [plus psum].
    assert (E : (psum (sel_weight th c) (seq 0 (length (heads c))) == heads_sum th c)%Q).
    { unfold heads_sum. rewrite qsum_psum.
      rewrite <- (psum_nth_error_seq _ (fun h => hweight th (snd h)) (1 - heads_sum th c)%Q (heads c) 0%nat).
      apply psum_ext. intros b _. unfold sel_weight. rewrite Nat.sub_0_r. reflexivity. }
    rewrite E. unfold sel_weight at 1.
    assert (N : nth_error (heads c) (length (heads c)) = None) by (apply nth_error_None; lia).
    rewrite N. ring.
Qed.

Lemma sel_weight_options_sumR : forall th c,
  sumR (fun k => Q2R (sel_weight th c k)) (options c) = 1%R.
Proof.
  intros th c. rewrite <- Q2R_psum. rewrite (Qeq_eqR _ _ (sel_weight_options_sum th c)).
  apply Q2R_1.
Qed.
