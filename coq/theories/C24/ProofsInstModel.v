(* C24 -- the abstract k-block EM of ProofsEMBlocks.v instantiated by the LFI model:
   definitions of the instance and the links L1 (latent space) and L2 (E-step).

   Instance (th0 = the parameters at the start of the iteration, fixed):
     examples  = the (multiplicity, interpretation) pairs, m = multiplicity
     latent    = ALL worlds of the program (one outcome per clause)
     blocks    = clause numbers; outcomes of block b = options of clause b; avail = 1
     kap b e z = Some (outcome of clause b in z)  if clause b has a tunable head and its body is true in z
                 None                              otherwise
     a e z     = [z consistent with e] * product over the clauses that are switched off in z of the
                 weight of their outcome UNDER th0
   so fmulti th e z = [consistent] * prod_b (if on then weight under th else weight under th0).  By the mixing
   lemma (ProofsInstLatent.v) its sum over z is P_th(e) for EVERY th (L1), and at th = th0 it is, world by
   world, the row weight of the world table, so the posterior is the E-step's (L2). *)
From Coq Require Import QArith Qreals Reals List Bool Arith Lia Lra.
From PL.C24 Require Import ModelLFIUpdate ProofsBasic ProofsEM ProofsEMBlocks ProofsInstDefs
  ProofsInstTransport ProofsInstLatent.
Import ListNotations.
Open Scope R_scope.

Definition Tb (p : program) (b : nat) : bool := has_tun (nth b p dcl).
Definition swR (th : list Q) (p : program) (b k : nat) : R := Q2R (sel_weight th (nth b p dcl) k).
Definition ind (b : bool) : R := if b then 1 else 0.

Definition m_m (me : Q * example) : R := Q2R (fst me).
Definition m_zs (p : program) (me : Q * example) : list world := worlds p.
Definition m_bs (p : program) : list nat := seq 0 (length p).
Definition m_ks (p : program) (b : nat) : list nat := options (nth b p dcl).
Definition m_avail (b : nat) : R := 1.
Definition m_kap (p : program) (b : nat) (me : Q * example) (z : world) : option nat :=
  if act p (Tb p) b z then Some (nth b z 0%nat) else None.
Definition m_a (th0 : list Q) (p : program) (me : Q * example) (z : world) : R :=
  ind (ev_true (world_vals p z) (snd me)) *
  prodR (fun b => if act p (Tb p) b z then 1 else swR th0 p b (nth b z 0%nat)) (seq 0 (length p)).
(* the parameter function of the abstract model read off a parameter list *)
Definition m_th (th : list Q) (p : program) (b k : nat) : R := if Tb p b then swR th p b k else 0.

(* the model-level log-likelihood of the data *)
Definition LLm (p : program) (exs : list (Q * example)) (th : list Q) : R :=
  sumR (fun me => Q2R (fst me) * ln (Q2R (pevidence th p (snd me)))) exs.

Definition m_f (th0 : list Q) (p : program) := fmulti (m_a th0 p) (m_bs p) (m_kap p).

(* ------------------------------------------------------------------ shape of fmulti *)
Lemma prodR_mult : forall A (f g : A -> R) l, prodR f l * prodR g l = prodR (fun x => f x * g x) l.
Proof. induction l as [|x t IH]; simpl; [ring|]. rewrite <- IH. ring. Qed.

Lemma act_Tb : forall p b z, act p (Tb p) b z = true -> Tb p b = true.
Proof. intros p b z H. unfold act in H. apply andb_true_iff in H. tauto. Qed.

Lemma fmulti_form : forall th0 th p me z,
  m_f th0 p (m_th th p) me z =
  ind (ev_true (world_vals p z) (snd me)) *
  prodR (fun b => if act p (Tb p) b z then swR th p b (nth b z 0%nat) else swR th0 p b (nth b z 0%nat))
        (seq 0 (length p)).
Proof.
  intros. unfold m_f, fmulti, m_a, m_bs. rewrite Rmult_assoc. f_equal. rewrite prodR_mult.
  apply prodR_ext. intros b _. unfold bfactor, m_kap, m_th.
  destruct (act p (Tb p) b z) eqn:A; cbv iota; [|ring]. rewrite (act_Tb _ _ _ A). ring.
Qed.

(* a clause without tunable head has the same outcome weights under all parameter vectors *)
Lemma qsum_ext_eq : forall A (f g : A -> Q) l, (forall x, In x l -> f x = g x) -> qsum f l = qsum g l.
Proof.
  induction l as [|x t IH]; intros H; simpl; auto.
  rewrite (H x) by (simpl; auto). rewrite IH; auto. intros; apply H; simpl; auto.
Qed.

Lemma hweight_no_tun : forall th th0 h, is_tun h = false -> hweight th h = hweight th0 h.
Proof. intros th th0 [| |i] H; simpl in *; auto. discriminate. Qed.

Lemma sel_weight_no_tun : forall th th0 c k, has_tun c = false -> sel_weight th c k = sel_weight th0 c k.
Proof.
  intros th th0 c k H. unfold has_tun in H.
  assert (N : forall h, In h (heads c) -> is_tun (snd h) = false).
  { intros h Hh. destruct (is_tun (snd h)) eqn:E; auto.
    assert (existsb (fun h => is_tun (snd h)) (heads c) = true) by (apply existsb_exists; eauto). congruence. }
  unfold sel_weight. destruct (nth_error (heads c) k) as [h|] eqn:E.
  - apply hweight_no_tun. apply N. eapply nth_error_In; eauto.
  - unfold heads_sum. f_equal. apply qsum_ext_eq. intros h Hh. apply hweight_no_tun. auto.
Qed.

(* ------------------------------------------------------------------ L1: the latent space sums to the evidence *)
Theorem latent_space_sums_to_evidence : forall p th0 th me,
  wf_prog p = true ->
  lik (m_zs p) (m_f th0 p) (m_th th p) me = Q2R (pevidence th p (snd me)).
Proof.
  intros p th0 th me W. unfold lik, m_zs.
  rewrite (sumR_ext _ _ (fun z => ind (ev_true (world_vals p z) (snd me)) *
     prodR (fun b => if act p (Tb p) b z then swR th p b (nth b z 0%nat) else swR th0 p b (nth b z 0%nat))
           (seq 0 (length p)))) by (intros; apply fmulti_form).
  rewrite (mixing p (swR th p) (swR th0 p) (Tb p) (fun v => ind (ev_true v (snd me))) W).
  - rewrite Q2R_pevidence. apply sumR_ext. intros z Hz.
    rewrite Q2R_wweight by (apply worlds_length; auto). unfold ind, swR.
    destruct (ev_true (world_vals p z) (snd me)); ring.
  - intros b _ _. unfold swR. rewrite !sel_weight_options_sumR. reflexivity.
  - intros b k Hb. unfold swR. f_equal. apply sel_weight_no_tun. exact Hb.
Qed.

(* at th0 itself the complete-data likelihood is the row weight of the world table, world by world *)
Lemma fmulti_at_th0 : forall p th0 me z, In z (worlds p) ->
  m_f th0 p (m_th th0 p) me z = ind (ev_true (world_vals p z) (snd me)) * Q2R (wweight th0 p z).
Proof.
  intros p th0 me z Hz. rewrite fmulti_form. f_equal.
  rewrite Q2R_wweight by (apply worlds_length; auto).
  apply prodR_ext. intros b _. destruct (act p (Tb p) b z); reflexivity.
Qed.

(* ------------------------------------------------------------------ L2: the E-step computes the posterior of that space *)
(* posterior of a latent world = normalised row weight of the world table restricted to the example *)
Theorem posterior_is_table_row : forall p th0 me z, wf_prog p = true -> In z (worlds p) ->
  post (m_zs p) (m_f th0 p) (m_th th0 p) me z =
  ind (ev_true (world_vals p z) (snd me)) * Q2R (wweight th0 p z) / Q2R (pevidence th0 p (snd me)).
Proof.
  intros p th0 me z W Hz. unfold post. rewrite latent_space_sums_to_evidence by auto.
  rewrite fmulti_at_th0 by auto. reflexivity.
Qed.

Lemma Q2R_div' : forall x y : Q, ~ (y == 0)%Q -> Q2R (x / y) = Q2R x / Q2R y.
Proof. intros. unfold Qdiv, Rdiv. rewrite Q2R_mult, Q2R_inv; auto. Qed.

(* posterior mass of a set S of worlds, as the E-step computes it *)
Lemma posterior_mass : forall p th0 me (S : wentry -> bool), wf_prog p = true ->
  ~ (pevidence th0 p (snd me) == 0)%Q ->
  sumR (fun z => if S (z, world_vals p z, wweight th0 p z)
                 then post (m_zs p) (m_f th0 p) (m_th th0 p) me z else 0) (worlds p) =
  Q2R (wsum (ev_worlds (wtable th0 p) (snd me)) S / pevidence th0 p (snd me)).
Proof.
  intros p th0 me S W NZ. rewrite Q2R_div' by auto. rewrite Q2R_wsum_ev.
  unfold Rdiv. rewrite <- sumR_scal_r. apply sumR_ext. intros z Hz.
  rewrite posterior_is_table_row by auto. unfold ind, Rdiv.
  destruct (ev_true (world_vals p z) (snd me)); destruct (S (z, world_vals p z, wweight th0 p z)); cbn [andb]; ring.
Qed.
