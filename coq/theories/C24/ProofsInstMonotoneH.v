(* C24 -- model-level EM monotonicity, version that also admits constant heads inside tunable annotated disjunctions
   (instance of ProofsInstModelH.v): relevant-only counting, never-active blocks, avail = 1 - constants. *)
From Coq Require Import QArith Qreals Reals List Bool Arith Lia Lra.
From PL.C24 Require Import ModelLFIUpdate ProofsBasic ProofsRange ProofsEM ProofsEMBlocks ProofsInstDefs ProofsInstDefsG
  ProofsInstDefsH ProofsInstTransport ProofsInstLatent ProofsInstModel ProofsInstCounts ProofsInstQ ProofsInstQH
  ProofsInstMstep ProofsInstMstepQ ProofsInstModelG ProofsInstCountsG ProofsInstModelH ProofsInstCountsH
  ProofsInstMonotone ProofsEMBlocksZero.
Import ListNotations.
Open Scope R_scope.

Section StepH.
  Variables (p : program) (th0 : list Q) (exs : list (Q * example)).
  Hypothesis W : wf_prog p = true.
  Hypothesis WP : wf_params p (length th0) = true.
  Hypothesis WT : wf_theta p th0 = true.
  Hypothesis MP : mult_pos exs = true.
  Hypothesis EP : ev_pos th0 p exs = true.
  Hypothesis CI : clamp_inactive_q th0 p exs (length th0) = true.
  Hypothesis FI : floor_inactive_q th0 p exs (length th0) = true.
  Hypothesis CK : forallb clause_ok p = true.
  Hypothesis AF : ads_full th0 p = true.

  Let th' := step true p exs th0.
  Let bc := bcounts exs m_m (m_zs p) (h_a th0 p) (m_bs p) (h_kap p) (h_th th0 p).
  Let bt := btotal exs m_m (m_zs p) (h_a th0 p) (m_bs p) (m_ks p) (h_kap p) (h_th th0 p).
  Let em := em_update_blocks exs m_m (m_zs p) (h_a th0 p) (m_bs p) (m_ks p) (h_avail p) (h_kap p) (h_th th0 p).

  Lemma clause_facts_h : forall b, (b < length p)%nat -> Tb p b = true ->
    In (nth b p dcl) p /\ wf_clause (nth b p dcl) = true /\ is_det (nth b p dcl) = false /\
    (all_tun (nth b p dcl) = true \/ (2 <= length (tun_of (nth b p dcl)))%nat) /\
    (0 < 1 - fixed_sum (nth b p dcl))%Q.
  Proof.
    intros b Hb T. assert (Hc : In (nth b p dcl) p) by (apply nth_In; auto). split; auto.
    assert (Wc : wf_clause (nth b p dcl) = true) by (unfold wf_prog in W; rewrite forallb_forall in W; auto).
    split; auto. split; [apply has_tun_not_det; auto|].
    rewrite forallb_forall in CK. destruct (clause_ok_spec _ (CK _ Hc) T) as [A B]. split; auto.
  Qed.

  Lemma h_avail_pos : forall b, In b (m_bs p) -> 0 < h_avail p b.
  Proof.
    intros b Hb. unfold m_bs in Hb. apply in_seq in Hb. unfold h_avail. destruct (Tb p b) eqn:T; [|lra].
    destruct (clause_facts_h b ltac:(lia) T) as [_ [_ [_ [_ AV]]]]. rewrite <- Q2R_0. apply Qlt_Rlt. exact AV.
  Qed.

  Lemma abs_kap_in_h : forall b (me : Q * example) z k, In b (m_bs p) -> In me exs -> In z (m_zs p me) ->
    h_kap p b me z = Some k -> In k (m_ks p b).
  Proof. intros. eapply h_kap_in; eauto. Qed.

  Lemma abs_th_sum_h : forall b, In b (m_bs p) -> sumR (h_th th0 p b) (m_ks p b) <= h_avail p b.
  Proof. intros b Hb. apply h_th_sum; auto. unfold m_bs in Hb. apply in_seq in Hb. lia. Qed.

  Lemma bt_zero_em_h : forall b k, (forall k', bc b k' = 0) -> em b k = h_th th0 p b k.
  Proof.
    intros b k Z. unfold em, em_update_blocks.
    assert (Z0 : btotal exs m_m (m_zs p) (h_a th0 p) (m_bs p) (m_ks p) (h_kap p) (h_th th0 p) b = 0).
    { unfold btotal. rewrite (sumR_ext _ _ (fun _ => 0)); [apply sumR_zero|]. intros k' _. apply Z. }
    destruct (Req_EM_T _ 0) as [_|NZ]; [reflexivity|contradiction].
  Qed.

  Lemma em_off_h : forall b k, Tb p b = false -> em b k = h_th th' p b k.
  Proof.
    intros b k T. rewrite bt_zero_em_h.
    - unfold h_th. rewrite T. reflexivity.
    - intros k'. apply bcounts_off_h. intros me _. unfold Tq. rewrite T. reflexivity.
  Qed.

  Lemma bt_nonneg_h : forall b, 0 <= bt b.
  Proof.
    intros b. unfold bt.
    apply (btotal_nonneg (Q * example) world exs m_m (m_zs p) (h_a th0 p) (m_bs p) (m_ks p) (h_kap p)
             (fun me Hme => ProofsInstCounts.mult_pos_spec exs me MP Hme)
             (fun me z => h_a_nonneg p th0 me z W WT)
             (h_th th0 p)
             (fun b k Hb => h_th_nonneg p th0 b k W WT Hb)
             (fun me Hme => h_lik_pos p (length th0) th0 exs me W WP EP Hme)).
  Qed.

  Lemma head_counts_h : forall b k a i, (b < length p)%nat ->
    nth_error (heads (nth b p dcl)) k = Some (a, HTun i) ->
    bc b k = Q2R (FBq th0 p exs i) /\ In i (tun_of (nth b p dcl)).
  Proof.
    intros b k a i Hb E. split.
    - apply (bcounts_FBq_h p (length th0) th0 exs W WP EP b k a i Hb E).
    - unfold tun_of. apply in_flat_map. exists (a, HTun i). split; [eapply nth_error_In; eauto|simpl; auto].
  Qed.

  Lemma sum_bc_heads_h : forall b, (b < length p)%nat ->
    sumR (bc b) (seq 0 (length (heads (nth b p dcl)))) = Q2R (psum (FBq th0 p exs) (tun_of (nth b p dcl))).
  Proof.
    intros b Hb. rewrite tun_sum_tun_of.
    rewrite <- (sumR_seq_nth _ (fun h => match snd h with HTun i => Q2R (FBq th0 p exs i) | _ => 0 end)
                  (0%nat, HDet) (heads (nth b p dcl))).
    apply sumR_ext. intros k Hk. apply in_seq in Hk.
    assert (E : nth_error (heads (nth b p dcl)) k = Some (nth k (heads (nth b p dcl)) (0%nat, HDet)))
      by (apply nth_error_nth'; lia).
    destruct (nth k (heads (nth b p dcl)) (0%nat, HDet)) as [a [|q|i]]; cbn [snd].
    - apply (bcounts_const_h p th0 exs b k). unfold tunsel. rewrite E. reflexivity.
    - apply (bcounts_const_h p th0 exs b k). unfold tunsel. rewrite E. reflexivity.
    - destruct (head_counts_h b k a i Hb E) as [A _]. exact A.
  Qed.

  Lemma bt_split_h : forall b, (b < length p)%nat -> is_det (nth b p dcl) = false ->
    bt b = sumR (bc b) (seq 0 (length (heads (nth b p dcl)))) + bc b (length (heads (nth b p dcl))).
  Proof.
    intros b Hb ND. unfold bt, btotal, m_ks, options. rewrite ND.
    rewrite seq_S, sumR_appL. cbn [sumR plus]. unfold bc. ring.
  Qed.

  (* a block that no example queries keeps its parameters, in the model as in the EM *)
  Lemma unseen_block_h : forall b k k0 a0 i0, (b < length p)%nat -> Tb p b = true ->
    nth_error (heads (nth b p dcl)) k0 = Some (a0, HTun i0) -> seen_by p exs i0 = false ->
    em b k = h_th th' p b k.
  Proof.
    intros b k k0 a0 i0 Hb T E0 US. destruct (clause_facts_h b Hb T) as [Hc [Wc [ND _]]].
    destruct (head_counts_h b k0 a0 i0 Hb E0) as [_ Hi0].
    set (c := nth b p dcl) in *.
    assert (USall : forall i, In i (tun_of c) -> seen_by p exs i = false).
    { intros i Hi. rewrite (seen_same_clause p (length th0) exs c i i0 WP Hc Hi Hi0). exact US. }
    assert (KEEP : forall i, In i (tun_of c) -> (nth i th' 0 == nth i th0 0)%Q).
    { intros i Hi. apply (mstep_q_unseen p exs th0 c i W WP WT EP AF Hc Hi (USall i Hi)). }
    rewrite bt_zero_em_h.
    - unfold h_th. rewrite T. cbn [andb]. fold c. destruct (tunsel c k) eqn:S; [|reflexivity].
      unfold swR. fold c. apply Qeq_eqR.
      destruct (nth_error (heads c) k) as [[a [|q|i]]|] eqn:E;
        try (unfold tunsel in S; rewrite E in S; discriminate).
      + destruct (head_counts_h b k a i Hb E) as [_ Hi]. fold c in Hi.
        rewrite !(sel_weight_tun_head _ c k a i E). symmetry. apply KEEP. exact Hi.
      + rewrite !(sel_weight_none _ c k E). rewrite (heads_sum_keep th0 th' c Wc T KEEP). reflexivity.
    - intros k'. apply bcounts_off_h. intros me Hme.
      rewrite (Tq_head p (length th0) WP me b k0 a0 i0 Hb E0).
      destruct (qd p me i0) eqn:Q; auto.
      assert (seen_by p exs i0 = true) by (unfold seen_by; apply existsb_exists; eauto). congruence.
  Qed.

  (* L3 *)
  Theorem mstep_is_block_update_h : forall b k, (b < length p)%nat -> In k (m_ks p b) -> bt b <> 0 ->
    em b k = h_th th' p b k.
  Proof.
    intros b k Hb Hk NZb. destruct (Tb p b) eqn:T; [|apply em_off_h; auto].
    destruct (clause_facts_h b Hb T) as [Hc [Wc [ND [SH AV]]]].
    set (c := nth b p dcl) in *.
    assert (Hk' : (k <= length (heads c))%nat).
    { unfold m_ks, options in Hk. fold c in Hk. rewrite ND in Hk. apply in_seq in Hk. lia. }
    assert (EX : exists k0 a0 i0, nth_error (heads c) k0 = Some (a0, HTun i0)).
    { unfold Tb in T. fold c in T. unfold has_tun in T. apply existsb_exists in T.
      destruct T as [[a0 h0] [Hin Ht]]. destruct h0 as [|q|i0]; try discriminate.
      destruct (In_nth_error _ _ Hin) as [k0 E0]. eauto. }
    destruct EX as [k0 [a0 [i0 E0]]].
    destruct (head_counts_h b k0 a0 i0 Hb E0) as [C0 Hi0]. fold c in Hi0.
    destruct (seen_by p exs i0) eqn:SEEN; [|apply (unseen_block_h b k k0 a0 i0 Hb T E0 SEEN)].
    assert (BTpos : 0 < bt b) by (pose proof (bt_nonneg_h b); lra).
    unfold em, em_update_blocks. fold (bt b).
    destruct (Req_EM_T (bt b) 0) as [Z0|NZ]; [lra|]. unfold h_avail. rewrite T. fold c. fold (bc b k).
    unfold h_th. rewrite T. cbn [andb]. fold c. unfold swR. fold c.
    pose proof (bt_split_h b Hb ND) as SPL. fold c in SPL.
    set (n := length (heads c)) in *.
    destruct (le_lt_dec 2 (length (tun_of c))) as [Ln|L1].
    - (* ---------------- at least two tunable heads, constants allowed *)
      assert (Cn : bc b n = 0).
      { unfold bc. apply (th_zero_count_zero (Q * example) world exs m_m (m_zs p) (h_a th0 p) (m_bs p) (h_kap p)).
        - intros me Hme. eapply ProofsInstCounts.mult_pos_spec; eauto.
        - intros me z. apply h_a_nonneg; auto.
        - intros b' k' Hb'. apply h_th_nonneg; auto.
        - intros me Hme. apply (h_lik_pos p (length th0) th0 exs me W WP EP Hme).
        - unfold m_bs. apply in_seq. lia.
        - unfold h_th. rewrite T. cbn [andb]. fold c.
          assert (EN : nth_error (heads c) n = None) by (apply nth_error_None; unfold n; lia).
          rewrite (tunsel_none c n EN). unfold swR. fold c. rewrite (sel_weight_none th0 c n EN).
          rewrite <- Q2R_0. apply Qeq_eqR. apply (none_zero_before_h th0 p c Wc T AF Hc Ln). }
      pose proof (sum_bc_heads_h b Hb) as SB. fold c in SB. fold n in SB.
      rewrite Cn, SB in SPL.
      set (S := psum (FBq th0 p exs) (tun_of c)) in *.
      assert (SposR : 0 < Q2R S) by lra.
      assert (Spos : (0 < S)%Q) by (apply Rlt_Qlt; rewrite Q2R_0; exact SposR).
      assert (NZQ : ~ (S == 0)%Q) by (intro K; rewrite K in Spos; apply (Qlt_irrefl 0); exact Spos).
      assert (CF : forall i, In i (tun_of c) ->
                 (nth i th' 0 == (1 - fixed_sum c) * FBq th0 p exs i / S)%Q).
      { intros i Hi. apply (mstep_q_multi p exs th0 c i W WP WT MP EP CI FI Hc Hi Ln); auto.
        rewrite (seen_same_clause p (length th0) exs c i i0 WP Hc Hi Hi0). exact SEEN. }
      destruct (nth_error (heads c) k) as [[a [|q|i]]|] eqn:E.
      + assert (TS : tunsel c k = false) by (unfold tunsel; rewrite E; reflexivity).
        rewrite TS. assert (Zk : bc b k = 0) by (apply (bcounts_const_h p th0 exs b k TS)). rewrite Zk. unfold Rdiv. ring.
      + assert (TS : tunsel c k = false) by (unfold tunsel; rewrite E; reflexivity).
        rewrite TS. assert (Zk : bc b k = 0) by (apply (bcounts_const_h p th0 exs b k TS)). rewrite Zk. unfold Rdiv. ring.
      + rewrite (tunsel_head c k a i E).
        destruct (head_counts_h b k a i Hb E) as [Ck Hik]. fold c in Hik.
        rewrite (sel_weight_tun_head th' c k a i E).
        rewrite (Qeq_eqR _ _ (CF i Hik)).
        rewrite Q2R_div' by exact NZQ. rewrite Q2R_mult.
        fold (bc b k). rewrite Ck, SPL. field. lra.
      + rewrite (tunsel_none c k E). rewrite (sel_weight_none th' c k E).
        assert (k = n) by (apply nth_error_None in E; unfold n; lia). subst k.
        rewrite Cn.
        rewrite (Qeq_eqR _ _ (none_zero_after_h th' (FBq th0 p exs) c Wc T Spos CF)). rewrite Q2R_0.
        unfold Rdiv. ring.
    - (* ---------------- exactly one tunable head: the clause is purely tunable *)
      destruct SH as [AT|L2]; [|lia].
      assert (LH : n = 1%nat).
      { unfold n. rewrite (all_tun_tun_of _ AT), map_length in L1.
        destruct (heads c) as [|h hs]; [destruct k0; discriminate|]. simpl in *. lia. }
      destruct (heads c) as [|h0 [|h1 hs]] eqn:EH; try (unfold n in LH; simpl in LH; lia).
      assert (E00 : nth_error (heads c) 0 = Some h0) by (rewrite EH; reflexivity).
      pose proof (all_tun_head c 0 h0 AT E00) as Eh0.
      assert (E0' : nth_error (heads c) 0 = Some (fst h0, HTun (hidx h0))) by (rewrite <- Eh0; exact E00).
      destruct (head_counts_h b 0 (fst h0) (hidx h0) Hb E0') as [C00 Hi00]. fold c in Hi00.
      pose proof (btotal_FPq_h p (length th0) th0 exs W WP EP b 0 (fst h0) (hidx h0) Hb AT E0') as BT0.
      fold (bt b) in BT0.
      assert (SEEN0 : seen_by p exs (hidx h0) = true).
      { rewrite (seen_same_clause p (length th0) exs c (hidx h0) i0 WP Hc Hi00 Hi0). exact SEEN. }
      assert (TO : tun_of c = [hidx h0]) by (rewrite (all_tun_tun_of _ AT), EH; reflexivity).
      pose proof (mstep_q_single p exs th0 c (hidx h0) WP MP EP CI FI Hc TO SEEN0) as CF. fold th' in CF.
      assert (FP0R : 0 < Q2R (FPq th0 p exs (hidx h0))) by (rewrite <- BT0; exact BTpos).
      assert (NZQ : ~ (FPq th0 p exs (hidx h0) == 0)%Q).
      { intro K. rewrite (Qeq_eqR _ _ K), Q2R_0 in FP0R. lra. }
      assert (V : Q2R (nth (hidx h0) th' 0%Q) = Q2R (FBq th0 p exs (hidx h0)) / Q2R (FPq th0 p exs (hidx h0))).
      { rewrite (Qeq_eqR _ _ CF). apply Q2R_div'. exact NZQ. }
      assert (AV1 : Q2R (1 - fixed_sum c) = 1).
      { rewrite <- Q2R_1. apply Qeq_eqR. rewrite (all_tun_fixed_sum c AT). ring. }
      rewrite AV1. unfold n in SPL. try rewrite EH in SPL. cbn [length seq sumR] in SPL.
      assert (k = 0 \/ k = 1)%nat as [-> | ->] by (unfold n in Hk'; try rewrite EH in Hk'; simpl in Hk'; lia).
      + rewrite (tunsel_head c 0 (fst h0) (hidx h0) E0').
        rewrite (sel_weight_tun_head th' c 0 (fst h0) (hidx h0) E0'). rewrite V, C00, BT0. field. lra.
      + assert (EN : nth_error (heads c) 1 = None) by (rewrite EH; reflexivity).
        rewrite (tunsel_none c 1 EN). rewrite (sel_weight_none th' c 1 EN).
        assert (HS : Q2R (1 - heads_sum th' c) = 1 - Q2R (nth (hidx h0) th' 0%Q)).
        { rewrite <- Q2R_1, <- Q2R_minus. apply Qeq_eqR. rewrite (single_heads_sum th' c h0 EH).
          rewrite Eh0. reflexivity. }
        rewrite HS, V. rewrite BT0, C00 in SPL. rewrite BT0.
        replace (bc b 1%nat) with (Q2R (FPq th0 p exs (hidx h0)) - Q2R (FBq th0 p exs (hidx h0))) by lra.
        field. lra.
  Qed.

  (* ------------------------------------------------------------------ the abstract hypotheses *)
  Lemma LL_is_LLm_h : forall th, LL exs m_m (m_zs p) (h_f th0 p) (h_th th p) = LLm p exs th.
  Proof.
    intros th. unfold LL, LLm. apply sumR_ext. intros me _.
    rewrite (latent_space_sums_to_evidence_h p (length th0)) by auto. reflexivity.
  Qed.

  Lemma ok_ad_ok : forallb ad_ok p = true.
  Proof.
    apply forallb_forall. intros c Hc. rewrite forallb_forall in CK. specialize (CK c Hc).
    unfold ad_ok. destruct (has_tun c) eqn:T.
    - destruct (clause_ok_spec c CK T) as [[AT|L2] _].
      + pose proof (all_tun_fixed_sum c AT) as F. apply Qeq_bool_iff in F. rewrite F. rewrite orb_true_r. reflexivity.
      + destruct (Nat.eqb_spec (length (tun_of c)) 1); [lia|]. cbn [negb]. rewrite orb_true_r. reflexivity.
    - assert (E : tun_of c = []).
      { unfold has_tun in T. unfold tun_of. induction (heads c) as [|[a h] t IH]; [reflexivity|].
        cbn [existsb] in T. apply orb_false_iff in T. destruct T as [T1 T2]. cbn [flat_map].
        rewrite IH by auto. destruct h; simpl in *; try discriminate; reflexivity. }
      rewrite E. cbn [length Nat.eqb negb]. rewrite orb_true_r. reflexivity.
  Qed.

  Lemma wf_theta_after_h : wf_theta p th' = true.
  Proof.
    apply wf_theta_step; auto.
    - intros me Hme. pose proof (ProofsInstCounts.mult_pos_spec exs me MP Hme) as M. unfold m_m in M.
      rewrite <- Q2R_0 in M. apply Rlt_Qlt in M. apply Qlt_le_weak. exact M.
    - apply ok_ad_ok.
  Qed.

  Lemma same_live_h : forall b k, In b (m_bs p) -> In k (m_ks p b) -> bt b <> 0 -> em b k = h_th th' p b k.
  Proof.
    intros b k Hb Hk NZb. apply mstep_is_block_update_h; auto. unfold m_bs in Hb. apply in_seq in Hb. lia.
  Qed.

  Theorem em_monotone_model_h_sec : LLm p exs th0 <= LLm p exs th'.
  Proof.
    rewrite <- !LL_is_LLm_h.
    pose proof (em_monotone_blocks (Q * example) world exs m_m (m_zs p) (h_a th0 p) (m_bs p) (m_ks p) (h_avail p) (h_kap p)
                  (m_ks_nodup p) abs_kap_in_h
                  (fun me Hme => ProofsInstCounts.mult_pos_spec exs me MP Hme)
                  (fun me z => h_a_nonneg p th0 me z W WT)
                  h_avail_pos
                  (h_th th0 p)
                  (fun b k Hb => h_th_nonneg p th0 b k W WT Hb)
                  abs_th_sum_h
                  (fun me Hme => h_lik_pos p (length th0) th0 exs me W WP EP Hme)) as M.
    pose proof (LL_dominated (Q * example) world exs m_m (m_zs p) (h_a th0 p) (m_bs p) (m_ks p) (h_avail p) (h_kap p)
                  abs_kap_in_h
                  (fun me Hme => ProofsInstCounts.mult_pos_spec exs me MP Hme)
                  (fun me z => h_a_nonneg p th0 me z W WT)
                  h_avail_pos
                  (h_th th0 p)
                  (fun b k Hb => h_th_nonneg p th0 b k W WT Hb)
                  (fun me Hme => h_lik_pos p (length th0) th0 exs me W WP EP Hme)
                  (h_th th' p)
                  (fun b k Hb => h_th_nonneg p th' b k W wf_theta_after_h Hb)
                  same_live_h) as D.
    unfold h_f. eapply Rle_trans; [exact M|exact D].
  Qed.

  Theorem ev_pos_after_h_sec : forall me, In me exs -> (0 < pevidence th' p (snd me))%Q.
  Proof.
    intros me Hme.
    pose proof (lik2_pos (Q * example) world exs m_m (m_zs p) (h_a th0 p) (m_bs p) (m_ks p) (h_avail p) (h_kap p)
                  abs_kap_in_h
                  (fun me Hme => ProofsInstCounts.mult_pos_spec exs me MP Hme)
                  (fun me z => h_a_nonneg p th0 me z W WT)
                  h_avail_pos
                  (h_th th0 p)
                  (fun b k Hb => h_th_nonneg p th0 b k W WT Hb)
                  (fun me Hme => h_lik_pos p (length th0) th0 exs me W WP EP Hme)
                  (h_th th' p)
                  (fun b k Hb => h_th_nonneg p th' b k W wf_theta_after_h Hb)
                  same_live_h me Hme) as L.
    fold (h_f th0 p) in L.
    rewrite (latent_space_sums_to_evidence_h p (length th0)) in L by auto.
    apply Rlt_Qlt. rewrite Q2R_0. exact L.
  Qed.
End StepH.

(* ------------------------------------------------------------------ closed statements *)
Definition em_side_h (p : program) (exs : list (Q * example)) (th : list Q) : bool :=
  wf_prog p && wf_params p (length th) && wf_theta p th &&
  mult_pos exs && ev_pos th p exs &&
  clamp_inactive_q th p exs (length th) && floor_inactive_q th p exs (length th) &&
  forallb clause_ok p && ads_full th p.

Lemma em_side_h_parts : forall p exs th, em_side_h p exs th = true ->
  wf_prog p = true /\ wf_params p (length th) = true /\ wf_theta p th = true /\
  mult_pos exs = true /\ ev_pos th p exs = true /\
  clamp_inactive_q th p exs (length th) = true /\ floor_inactive_q th p exs (length th) = true /\
  forallb clause_ok p = true /\ ads_full th p = true.
Proof.
  intros p exs th H. unfold em_side_h in H. repeat (apply andb_true_iff in H; destruct H as [H ?]).
  repeat split; assumption.
Qed.

Theorem em_monotone_model_h : forall p exs th, em_side_h p exs th = true ->
  LLm p exs th <= LLm p exs (step true p exs th).
Proof.
  intros p exs th H. destruct (em_side_h_parts p exs th H) as [W [WP [WT [MP [EP [CI [FI [CK AF]]]]]]]].
  apply em_monotone_model_h_sec; auto.
Qed.

Theorem em_model_step_keeps_evidence_h : forall p exs th, em_side_h p exs th = true ->
  forall me, In me exs -> (0 < pevidence (step true p exs th) p (snd me))%Q.
Proof.
  intros p exs th H me Hme.
  destruct (em_side_h_parts p exs th H) as [W [WP [WT [MP [EP [CI [FI [CK AF]]]]]]]].
  apply ev_pos_after_h_sec; auto.
Qed.

Theorem mstep_is_block_update_h_side : forall p exs th, em_side_h p exs th = true ->
  forall b k, (b < length p)%nat -> In k (m_ks p b) ->
  btotal exs m_m (m_zs p) (h_a th p) (m_bs p) (m_ks p) (h_kap p) (h_th th p) b <> 0 ->
  em_update_blocks exs m_m (m_zs p) (h_a th p) (m_bs p) (m_ks p) (h_avail p) (h_kap p) (h_th th p) b k =
  h_th (step true p exs th) p b k.
Proof.
  intros p exs th H b k Hb Hk NZ.
  destruct (em_side_h_parts p exs th H) as [W [WP [WT [MP [EP [CI [FI [CK AF]]]]]]]].
  apply mstep_is_block_update_h; auto.
Qed.

Theorem estep_counts_h : forall p exs th b k a i,
  wf_prog p = true -> wf_params p (length th) = true -> ev_pos th p exs = true ->
  (b < length p)%nat -> nth_error (heads (nth b p dcl)) k = Some (a, HTun i) ->
  bcounts exs m_m (m_zs p) (h_a th p) (m_bs p) (h_kap p) (h_th th p) b k = Q2R (FBq th p exs i).
Proof. intros. eapply bcounts_FBq_h; eauto. Qed.
