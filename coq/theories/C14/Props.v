(* C14 — Unification is sound and complete syntactic unification.
   Statements only; every proof is `exact <lemma>`.

   Reading guide.  `inst th t` applies a parallel substitution th : N -> term;
   `apply sg t` applies a computed unifier (a list of bindings); `unifies th s t`
   is `inst th s = inst th t`; `unifiable s t` is `exists th, unifies th s t`.
   `mgu` is Robinson's algorithm with occurs check, fuel-driven; the fuel that
   `mgu` computes for itself is proved sufficient (C14_mgu_fuel_sufficient), so
   `None` really means "no unifier" and never "gave up". *)
From Coq Require Import NArith ZArith List Bool.
From PL.C14 Require Import ModelUnify ProofsUnify ProofsApi.
Import ListNotations.

Theorem C14_mgu_sound : forall s t sg, mgu s t = Some sg -> apply sg s = apply sg t.
Proof. exact mgu_sound. Qed.
Print Assumptions C14_mgu_sound.

Theorem C14_mgu_most_general : forall s t sg, mgu s t = Some sg ->
  forall th, unifies th s t -> exists de, forall u, inst th u = inst de (apply sg u).
Proof. exact mgu_most_general. Qed.
Print Assumptions C14_mgu_most_general.

(* the stronger, idempotent form: every unifier absorbs the mgu *)
Theorem C14_mgu_absorbed_by_every_unifier : forall s t sg, mgu s t = Some sg ->
  forall th, unifies th s t -> forall u, inst th (apply sg u) = inst th u.
Proof. exact mgu_absorbs. Qed.
Print Assumptions C14_mgu_absorbed_by_every_unifier.

Theorem C14_mgu_complete : forall s t, unifiable s t -> exists sg, mgu s t = Some sg.
Proof. exact mgu_complete. Qed.
Print Assumptions C14_mgu_complete.

Theorem C14_mgu_none_iff : forall s t, mgu s t = None <-> ~ unifiable s t.
Proof. exact mgu_none_iff. Qed.
Print Assumptions C14_mgu_none_iff.

(* the algorithm never runs out of the fuel it gives itself (for equation lists
   of any size), so the `None` above is never a fuel artefact *)
Theorem C14_mgu_fuel_sufficient : forall l, unify_eqns l <> OutOfFuel.
Proof. exact unify_eqns_fuel. Qed.
Print Assumptions C14_mgu_fuel_sufficient.

Theorem C14_mgu_idempotent : forall s t sg, mgu s t = Some sg ->
  forall u, apply sg (apply sg u) = apply sg u.
Proof. exact mgu_idempotent. Qed.
Print Assumptions C14_mgu_idempotent.

(* no cyclic binding: a variable moved by the unifier occurs in no image of the
   unifier, in particular not in its own image (no X |-> f(..X..)) *)
Theorem C14_no_cyclic : forall s t sg, mgu s t = Some sg ->
  forall x y, apply sg (TVar x) <> TVar x -> occurs x (apply sg (TVar y)) = false.
Proof. exact mgu_no_cyclic. Qed.
Print Assumptions C14_no_cyclic.

(* occurs check: X against a proper superterm of X has no (finite) unifier,
   whichever side X is on, and mgu reports failure *)
Theorem C14_occurs_check : forall x t, occurs x t = true -> t <> TVar x ->
  ~ unifiable (TVar x) t /\ mgu (TVar x) t = None /\ mgu t (TVar x) = None.
Proof.
  exact (fun x t Ho Hne => conj (occurs_check_not_unifiable x t Ho Hne) (occurs_check_mgu_none x t Ho Hne)).
Qed.
Print Assumptions C14_occurs_check.

(* `S \= T` succeeds exactly when `S = T` fails, exactly when there is no unifier *)
Theorem C14_neq_iff : forall s t,
  (neq_builtin s t = true <-> mgu s t = None) /\
  (neq_builtin s t = true <-> eq_builtin s t = None) /\
  (neq_builtin s t = true <-> ~ unifiable s t).
Proof. exact (fun s t => conj (neq_builtin_mgu s t) (conj (eq_builtin_neq s t) (neq_builtin_iff s t))). Qed.
Print Assumptions C14_neq_iff.

(* `S = T` on success: the answer is one common instance of S and T, and every
   instance th S = th T is an instance of it (via th itself) *)
Theorem C14_eq_answer : forall s t a, eq_builtin s t = Some a ->
  (exists sg, a = inst sg s /\ a = inst sg t) /\
  (forall th, inst th s = inst th t -> inst th a = inst th s).
Proof. exact eq_builtin_some. Qed.
Print Assumptions C14_eq_answer.

(* bindings handed back to a caller (`w(Vars) :- S = T`): the instance of the
   caller's term u; every unifier of S and T factors through it *)
Theorem C14_bindings_returned : forall s t u a, mgu_inst s t u = Some a ->
  (exists sg, unifies sg s t /\ a = inst sg u) /\
  (forall th, unifies th s t -> inst th a = inst th u).
Proof. exact mgu_inst_some. Qed.
Print Assumptions C14_bindings_returned.

Theorem C14_bindings_none_iff : forall s t u, mgu_inst s t u = None <-> ~ unifiable s t.
Proof. exact mgu_inst_none_iff. Qed.
Print Assumptions C14_bindings_none_iff.

(* calling a fact `head.` with goal `call` (clause renamed apart): the answer is
   a common instance of goal and head and the most general one; no answer iff
   goal and head have no common instance *)
Theorem C14_call_head_answer : forall call head a, call_fact call head = Some a ->
  (exists r1 r2, a = inst r1 call /\ a = inst r2 head) /\
  (forall th1 th2, inst th1 call = inst th2 head -> exists de, inst de a = inst th1 call).
Proof. exact call_fact_some. Qed.
Print Assumptions C14_call_head_answer.

Theorem C14_call_head_fails_iff : forall call head,
  call_fact call head = None <-> ~ exists th1 th2, inst th1 call = inst th2 head.
Proof. exact call_fact_none_iff. Qed.
Print Assumptions C14_call_head_fails_iff.

(* ---- non-vacuity ---- *)
Definition a_ := TApp (SAtom 0) [].
Definition f_ x := TApp (SAtom 1) [x].
Definition g_ x y := TApp (SAtom 2) [x; y].
(* g(X, g(Y,Z)) = g(g(Y,Z), g(a,Y))  has mgu with instance g(g(a,a),g(a,a)) *)
Example C14_ex_success :
  eq_builtin (g_ (TVar 0) (g_ (TVar 1) (TVar 2))) (g_ (g_ (TVar 1) (TVar 2)) (g_ a_ (TVar 1)))
  = Some (g_ (g_ a_ a_) (g_ a_ a_)).
Proof. vm_compute. reflexivity. Qed.
(* f(X,Y,X) = f(Y,g(Z),Z): indirect occurs check (Z = g(Z)) *)
Example C14_ex_occurs_indirect :
  mgu (TApp (SAtom 1) [TVar 0; TVar 1; TVar 0]) (TApp (SAtom 1) [TVar 1; f_ (TVar 2); TVar 2]) = None.
Proof. vm_compute. reflexivity. Qed.
Example C14_ex_clash : neq_builtin (g_ a_ (TVar 0)) (g_ (f_ (TVar 1)) (TVar 1)) = true.
Proof. vm_compute. reflexivity. Qed.
(* p(X,f(X)) called as p(Y,Y): must fail *)
Example C14_ex_head_occurs :
  call_fact (g_ (TVar 0) (TVar 0)) (g_ (TVar 0) (f_ (TVar 0))) = None.
Proof. vm_compute. reflexivity. Qed.
Example C14_ex_head :
  call_fact (g_ (f_ (TVar 0)) (TVar 1)) (g_ (TVar 0) (TVar 0)) = Some (g_ (f_ (TVar 0)) (f_ (TVar 0))).
Proof. vm_compute. reflexivity. Qed.
