(* C14 — prelude for the translated model of problog/engine_unify.py.

   Executable definitions only (no proofs in this file).  `GenUnify.v` (written
   on every run by gen/c14_unify.py from the Python source) contains the
   functions themselves; this file gives the meaning of the Python values and
   primitives they use, and the decidable reading of a final bindings
   dictionary as a substitution (`sigma`, `solved`).

   Python value                       model
   -----------------------------------------------------------------------
   None                               PNone   (anonymous variable / "no binding")
   int v  (engine variable)           PVar n  with n = 2*(-v-1) for v < 0  (variables of the calling context)
                                                   n = 2*v+1    for v >= 0 (clause-head variables = slots of the context)
   Term / Constant                    PTerm f args   (f : ModelUnify.sym; two functors get the same f iff their
                                                      `signature` strings "functor-without-quotes/arity" agree on the functor part)
   dict source_values                 store = association list, NEWEST FIRST, never erased: `d[k] = v` conses,
                                      `d.get(k)` returns the newest entry.  The list is therefore also the history of
                                      every binding ever recorded (used by `solved`).
   exception UnifyError / OccursCheck Raise UnifyError / Raise OccursCheck
   RecursionError (unbounded depth)   OutOfFuel  (fuel = bound on the recursion depth)

   Domain of the model (checked by the tie in harness/props/C14.py): values are None, ints and Terms built from them
   (no Var objects, no probabilities); context indices are in range; and NO INTEGER CONSTANT HAS THE NUMBER OF AN ENGINE
   VARIABLE OF THE SAME CALL: Python's `Constant.__eq__` compares str(), so `-2 == Constant(-2)` is True and the
   `if value2 != value` of unify_value's variable/variable branch then skips a binding; `pval_eqb` keeps PVar and
   PTerm apart (finding `int-constant-equals-variable-number`, notes/C14.md).                                         *)
From Coq Require Import NArith ZArith List Bool.
From PL.C14 Require Import ModelUnify.
Import ListNotations.

Inductive pval : Type :=
| PNone
| PVar (v : N)
| PTerm (f : sym) (args : list pval).

Fixpoint pval_eqb (a b : pval) : bool :=
  match a, b with
  | PNone, PNone => true
  | PVar x, PVar y => N.eqb x y
  | PTerm f xs, PTerm g ys =>
      sym_eqb f g &&
      (fix go (l1 l2 : list pval) : bool :=
         match l1, l2 with
         | [], [] => true
         | x :: l1', y :: l2' => pval_eqb x y && go l1' l2'
         | _, _ => false
         end) xs ys
  | _, _ => false
  end.

(* ---- Python primitives ------------------------------------------------ *)
Definition is_variable (v : pval) : bool := match v with PTerm _ _ => false | _ => true end.
Definition is_none (v : pval) : bool := match v with PNone => true | _ => false end.
Definition is_int (v : pval) : bool := match v with PVar _ => true | _ => false end.

(* the Python integer a variable code stands for *)
Definition var_int (n : N) : Z :=
  if N.even n then (- Z.of_N (N.div2 n) - 1)%Z else Z.of_N (N.div2 n).
Definition int_ge0 (v : pval) : bool := match v with PVar n => Z.leb 0 (var_int n) | _ => false end.
Definition int_lt0 (v : pval) : bool := match v with PVar n => Z.ltb (var_int n) 0 | _ => false end.

(* max(a, b) on two engine variables *)
Definition py_max (a b : pval) : pval :=
  match a, b with
  | PVar x, PVar y => if Z.ltb (var_int x) (var_int y) then b else a
  | _, _ => a
  end.

Definition py_min (a b : pval) : pval :=
  match a, b with
  | PVar x, PVar y => if Z.ltb (var_int y) (var_int x) then b else a
  | _, _ => a
  end.

(* t.variables(): the None / int leaves of a Term *)
Fixpoint leaves (t : pval) : list pval :=
  match t with
  | PTerm _ args => flat_map leaves args
  | v => [v]
  end.
Definition in_variables (v t : pval) : bool := existsb (pval_eqb v) (leaves t).

(* t1.signature == t2.signature *)
Definition signature_eqb (a b : pval) : bool :=
  match a, b with
  | PTerm f xs, PTerm g ys => sym_eqb f g && Nat.eqb (length xs) (length ys)
  | _, _ => false
  end.
Definition args_of (t : pval) : list pval := match t with PTerm _ args => args | _ => [] end.
Definition with_args (t : pval) (l : list pval) : pval := match t with PTerm f _ => PTerm f l | v => v end.
Definition zip (l1 l2 : list pval) : list (pval * pval) := combine l1 l2.

(* ---- dictionaries ------------------------------------------------------ *)
Definition store := list (pval * pval).

Fixpoint sv_find (sv : store) (k : pval) : option pval :=
  match sv with
  | [] => None
  | (k', u) :: sv' => if pval_eqb k k' then Some u else sv_find sv' k
  end.
(* d.get(k): None when absent *)
Definition sv_get (sv : store) (k : pval) : pval := match sv_find sv k with Some u => u | None => PNone end.
Definition sv_set (sv : store) (k u : pval) : store := (k, u) :: sv.
Definition sv_has (sv : store) (k : pval) : bool := match sv_find sv k with Some _ => true | None => false end.
(* the dictionary as Python shows it: newest entry of every key *)
Fixpoint sv_visible (sv : store) : store :=
  match sv with
  | [] => []
  | (k, u) :: sv' => (k, u) :: filter (fun p => negb (pval_eqb k (fst p))) (sv_visible sv')
  end.

(* ---- the clause context (a Python list indexed by head-variable number) -- *)
Definition ctx_index (k : pval) : nat := match k with PVar n => N.to_nat (N.div2 n) | _ => 0 end.
Definition ctx_get (tc : list pval) (k : pval) : pval := nth (ctx_index k) tc PNone.
Fixpoint list_set (l : list pval) (i : nat) (u : pval) : list pval :=
  match l, i with
  | [], _ => []
  | _ :: l', O => u :: l'
  | a :: l', S i' => a :: list_set l' i' u
  end.
Definition ctx_set (tc : list pval) (k u : pval) : list pval := list_set tc (ctx_index k) u.

(* substitute_all(terms, subst): ONE pass of the dictionary over every leaf (no re-resolution) *)
Fixpoint subst_once (sv : store) (t : pval) : pval :=
  match t with
  | PTerm f args => PTerm f (map (subst_once sv) args)
  | v => match sv_find sv v with Some u => u | None => v end
  end.
Definition substitute_all (terms : list pval) (sv : store) : list pval := map (subst_once sv) terms.

(* ---- results: state + exceptions + recursion depth ----------------------- *)
Inductive exn : Type := UnifyError | OccursCheck | AssertionError.
Inductive res (St A : Type) : Type :=
| Ret (a : A) (s : St)
| Raise (e : exn)
| OutOfFuel.
Arguments Ret {St A} a s.
Arguments Raise {St A} e.
Arguments OutOfFuel {St A}.

Definition bind {St A B : Type} (m : res St A) (k : A -> St -> res St B) : res St B :=
  match m with
  | Ret a s => k a s
  | Raise e => Raise e
  | OutOfFuel => OutOfFuel
  end.

(* [f(a, b) for a, b in pairs] with f reading and writing the state; left to right *)
Fixpoint mapM2 {St : Type} (f : pval -> pval -> St -> res St pval) (l : list (pval * pval)) (s : St) : res St (list pval) :=
  match l with
  | [] => Ret [] s
  | (a, b) :: l' => bind (f a b s) (fun r s1 => bind (mapM2 f l' s1) (fun rs s2 => Ret (r :: rs) s2))
  end.
(* for a, b in pairs: f(a, b) *)
Fixpoint iterM2 {St : Type} (f : pval -> pval -> St -> res St unit) (l : list (pval * pval)) (s : St) : res St unit :=
  match l with
  | [] => Ret tt s
  | (a, b) :: l' => bind (f a b s) (fun _ s1 => iterM2 f l' s1)
  end.

(* ---- reading values as first-order terms -------------------------------- *)
(* PNone has no first-order reading (every occurrence is a fresh variable); theorems are stated for
   values without it (`nonone`), the image of PNone is junk. *)
Fixpoint E (v : pval) : term :=
  match v with
  | PNone => TVar 0
  | PVar n => TVar n
  | PTerm f args => TApp f (map E args)
  end.
Fixpoint nonone (v : pval) : bool :=
  match v with
  | PNone => false
  | PVar _ => true
  | PTerm _ args => forallb nonone args
  end.
Fixpoint pground (v : pval) : bool :=
  match v with
  | PTerm _ args => forallb pground args
  | _ => false
  end.

Fixpoint term_eqb (a b : term) : bool :=
  match a, b with
  | TVar x, TVar y => N.eqb x y
  | TApp f xs, TApp g ys =>
      sym_eqb f g &&
      (fix go (l1 l2 : list term) : bool :=
         match l1, l2 with
         | [], [] => true
         | x :: l1', y :: l2' => term_eqb x y && go l1' l2'
         | _, _ => false
         end) xs ys
  | _, _ => false
  end.

(* ---- a final dictionary read as a substitution --------------------------- *)
(* one parallel application of the visible bindings *)
Definition tau (H : store) : N -> term :=
  fun n => match sv_find H (PVar n) with Some u => E u | None => TVar n end.
(* k-fold application *)
Fixpoint sigma_n (k : nat) (H : store) : N -> term :=
  match k with
  | O => TVar
  | S k' => fun n => inst (tau H) (sigma_n k' H n)
  end.
Definition sigma (H : store) : N -> term := sigma_n (length H) H.

(* cycle test on the visible bindings (cheap; keeps `solved` from unfolding a cyclic dictionary) *)
Definition bound_vars (H : store) : list N :=
  flat_map (fun p : pval * pval => match fst p with PVar n => [n] | _ => [] end) (sv_visible H).
Definition memN (n : N) (l : list N) : bool := existsb (N.eqb n) l.
Definition step_safe (H : store) (safe : list N) : list N :=
  filter (fun n => forallb (fun m => memN m safe || negb (sv_has H (PVar m))) (tvars (tau H n))) (bound_vars H).
Fixpoint iter_safe (k : nat) (H : store) (safe : list N) : list N :=
  match k with O => safe | S k' => iter_safe k' H (step_safe H safe) end.
Definition acyclic (H : store) : bool :=
  let safe := iter_safe (length H) H [] in forallb (fun n => memN n safe) (bound_vars H).

(* The dictionary is in solved form: it is acyclic and its full resolution satisfies EVERY binding that was
   ever recorded (also the overwritten ones). *)
Definition solved (H : store) : bool :=
  acyclic H &&
  forallb (fun p : pval * pval => term_eqb (inst (sigma H) (E (fst p))) (inst (sigma H) (E (snd p)))) H.

(* the fully resolved value *)
Definition resolve (H : store) (v : pval) : term := inst (sigma H) (E v).
