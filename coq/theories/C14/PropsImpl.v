(* C14 — theorems about the IMPLEMENTATION's unifier: `unify_value` of problog/engine_unify.py as translated into
   GenUnify.v on every run (gen/c14_unify.py).  Statements only; every proof is `exact <lemma>`.

   Reading guide.  Values: PNone (Python None), PVar n (engine variable), PTerm f args.  `E` reads a value as a
   first-order term of ModelUnify; `nonone v` = no anonymous variable inside v.  `unify_value fuel s t []` runs the
   translated function with an empty bindings dictionary and recursion depth at most `fuel`:
   `Ret r H` (returned value, final dictionary = history of all bindings, newest first), `Raise e`, or `OutOfFuel`
   (Python: RecursionError).  `sigma H` is the full resolution of the dictionary H; `solved H` (decidable) says that H
   is acyclic and that its resolution satisfies every recorded binding.  The guard `solved H` is exactly where the code
   is right: by C14_impl_dictionary_exact the solutions of H are the unifiers of s and t in EVERY run, so an unsolved H
   after `Ret` means the pair was reported unifiable on the strength of a cyclic dictionary (Findings.v). *)
From Coq Require Import NArith ZArith List Bool.
From PL.C14 Require Import ModelUnify ProofsUnify ModelImplUnify GenUnify ProofsImplUnify.
Import ListNotations.

(* In every successful run, the final dictionary has exactly the unifiers of s and t as its solutions. *)
Theorem C14_impl_dictionary_exact : forall fuel s t r H, nonone s = true -> nonone t = true ->
  unify_value fuel s t [] = Ret r H ->
  forall th, unifies th (E s) (E t) <-> sat th H.
Proof. exact unify_value_dictionary_exact. Qed.
Print Assumptions C14_impl_dictionary_exact.

(* Success with a solved dictionary: the resolved dictionary unifies s and t, the resolved result is the common
   instance, and every unifier factors through it (most general). *)
Theorem C14_impl_solved_is_mgu : forall fuel s t r H, nonone s = true -> nonone t = true ->
  unify_value fuel s t [] = Ret r H -> solved H = true ->
  unifies (sigma H) (E s) (E t) /\
  resolve H r = resolve H s /\
  (forall th, unifies th (E s) (E t) -> forall u, inst th (inst (sigma H) u) = inst th u).
Proof. exact unify_value_solved_mgu. Qed.
Print Assumptions C14_impl_solved_is_mgu.

(* ... and agrees with the reference: mgu succeeds, and the two substitutions absorb each other
   (so they are equal up to a renaming of variables). *)
Theorem C14_impl_agrees_with_mgu : forall fuel s t r H, nonone s = true -> nonone t = true ->
  unify_value fuel s t [] = Ret r H -> solved H = true ->
  exists mu, mgu (E s) (E t) = Some mu /\
    (forall u, inst (sigma H) (apply mu u) = inst (sigma H) u) /\
    (forall u, apply mu (inst (sigma H) u) = apply mu u).
Proof. exact unify_value_agrees_mgu. Qed.
Print Assumptions C14_impl_agrees_with_mgu.

(* UnifyError / OccursCheck are raised only for pairs without a unifier (no guard needed),
   and an AssertionError never escapes. *)
Theorem C14_impl_raise_sound : forall fuel s t e, nonone s = true -> nonone t = true ->
  unify_value fuel s t [] = Raise e -> mgu (E s) (E t) = None /\ e <> AssertionError.
Proof. exact unify_value_raise_sound. Qed.
Print Assumptions C14_impl_raise_sound.

(* Under the guard (the run ended, and if it succeeded its dictionary is solved):
   the code fails exactly when the reference has no mgu. *)
Theorem C14_impl_fails_iff : forall fuel s t, nonone s = true -> nonone t = true ->
  guard_ok (unify_value fuel s t []) = true ->
  (is_raise (unify_value fuel s t []) = true <-> mgu (E s) (E t) = None).
Proof. exact unify_value_fails_iff. Qed.
Print Assumptions C14_impl_fails_iff.

(* ---- non-vacuity ---- *)
Definition X := PVar 0.   (* Python -1 *)
Definition Y := PVar 2.   (* Python -2 *)
Definition Z := PVar 4.   (* Python -3 *)
Definition a_ := PTerm (SAtom 0) [].
Definition b_ := PTerm (SAtom 3) [].
Definition f2 u v := PTerm (SAtom 1) [u; v].
Definition g1 u := PTerm (SAtom 2) [u].
(* f(X,Y) = f(Y,a): returned value f(X,a) is NOT resolved, the dictionary is solved and resolves it to f(a,a) *)
Example C14_impl_ex_success :
  match unify_value 20 (f2 X Y) (f2 Y a_) [] with
  | Ret r H => (r, solved H, resolve H r)
  | _ => (PNone, false, TVar 0)
  end = (f2 X a_, true, TApp (SAtom 1) [TApp (SAtom 0) []; TApp (SAtom 0) []]).
Proof. vm_compute. reflexivity. Qed.
Example C14_impl_ex_guard : guard_ok (unify_value 20 (f2 (g1 X) Y) (f2 Y (g1 a_)) []) = true.
Proof. vm_compute. reflexivity. Qed.
Example C14_impl_ex_direct_occurs : unify_value 20 X (g1 X) [] = Raise OccursCheck.
Proof. vm_compute. reflexivity. Qed.
Example C14_impl_ex_clash : unify_value 20 (f2 X X) (f2 a_ b_) [] = Raise UnifyError.
Proof. vm_compute. reflexivity. Qed.

(* ---- an a-priori class inside the guard: ONE SIDE GROUND ----
   (every binding is then ground and a variable is only ever rebound to the value it already has) *)
Theorem C14_impl_one_side_ground_solved : forall fuel s t r H, nonone s = true -> nonone t = true ->
  pground s = true \/ pground t = true ->
  unify_value fuel s t [] = Ret r H -> solved H = true.
Proof. exact unify_value_one_side_ground_solved. Qed.
Print Assumptions C14_impl_one_side_ground_solved.

(* hence, for such pairs, whenever the run ends: failure iff no mgu, and on success the resolved dictionary is an mgu *)
Theorem C14_impl_one_side_ground_correct : forall fuel s t, nonone s = true -> nonone t = true ->
  pground s = true \/ pground t = true ->
  unify_value fuel s t [] <> OutOfFuel ->
  (is_raise (unify_value fuel s t []) = true <-> mgu (E s) (E t) = None) /\
  (forall r H, unify_value fuel s t [] = Ret r H ->
     unifies (sigma H) (E s) (E t) /\ resolve H r = resolve H s /\
     (forall th, unifies th (E s) (E t) -> forall u, inst th (inst (sigma H) u) = inst th u)).
Proof. exact unify_value_one_side_ground_correct. Qed.
Print Assumptions C14_impl_one_side_ground_correct.

Example C14_impl_ex_ground :
  match unify_value 20 (f2 X (g1 Y)) (f2 a_ (g1 b_)) [] with
  | Ret r H => (solved H, resolve H r)
  | _ => (false, TVar 0)
  end = (true, E (f2 a_ (g1 b_))).
Proof. vm_compute. reflexivity. Qed.
