(* C14 — proofs about the TRANSLATED unify_value (GenUnify.v, regenerated from
   problog/engine_unify.py on every run).

   Reading.  The bindings dictionary is kept as a history H (newest first).  `sat th H` says that the substitution
   th satisfies every equation `variable = value` ever recorded.  The main lemma `uv_spec` shows, for every recursion
   depth (fuel), that a run of unify_value
     - only adds equations (H' = D ++ H),
     - makes the equations of H' imply  v1 = v2 = result                     (soundness of what was recorded),
     - records only consequences of H and v1 = v2                             (nothing is lost: every unifier survives),
     - raises UnifyError / OccursCheck only when H and v1 = v2 have no common solution.
   So the unifiers of s and t are exactly the solutions of the final dictionary; when that dictionary is in solved
   form (`solved`, decidable: acyclic and its resolution satisfies all recorded bindings) its resolution `sigma H`
   is a most general unifier, equivalent to ModelUnify.mgu.  A successful run whose dictionary is NOT solved is the
   defect family "indirect occurs check missed" (Findings.v).  No axioms. *)
From Coq Require Import NArith ZArith List Bool Lia.
From PL.C14 Require Import ModelUnify ProofsUnify ModelImplUnify GenUnify.
Import ListNotations.

(* ------------------------------------------------------------------ *)
Section PvalInd.
  Variable P : pval -> Prop.
  Hypothesis Hnone : P PNone.
  Hypothesis Hvar : forall v, P (PVar v).
  Hypothesis Happ : forall f args, Forall P args -> P (PTerm f args).
  Fixpoint pval_ind' (t : pval) : P t :=
    match t with
    | PNone => Hnone
    | PVar v => Hvar v
    | PTerm f args =>
        Happ f args
          ((fix go (l : list pval) : Forall P l :=
              match l with
              | [] => Forall_nil P
              | a :: l' => Forall_cons a (pval_ind' a) (go l')
              end) args)
    end.
End PvalInd.

Lemma term_eqb_eq : forall a b, term_eqb a b = true -> a = b.
Proof.
  induction a as [x|f xs IH] using term_ind'; intros [y|g ys]; simpl; intros Hb; try discriminate.
  - apply N.eqb_eq in Hb. congruence.
  - apply andb_true_iff in Hb. destruct Hb as [Hf Hl]. apply sym_eqb_eq in Hf. subst g. f_equal.
    revert ys Hl. induction xs as [|x xs IHxs]; intros [|y ys] Hl; try discriminate; auto.
    apply andb_true_iff in Hl. destruct Hl as [H1 H2].
    inversion IH as [|? ? Hx Hxs]; subst. f_equal; auto.
Qed.

Lemma pval_eqb_var : forall x v, pval_eqb (PVar x) v = true -> v = PVar x.
Proof. intros x [|y|f l]; simpl; intros Hb; try discriminate. apply N.eqb_eq in Hb. congruence. Qed.

(* ------------------------------------------------------------------ *)
(* well-formed values and dictionaries, satisfaction *)
Definition wfv (v : pval) : Prop := v = PNone \/ nonone v = true.
Definition wfH (H : store) : Prop :=
  forall k u, In (k, u) H -> (exists x, k = PVar x) /\ nonone u = true.
Definition sat (th : N -> term) (H : store) : Prop :=
  forall k u, In (k, u) H -> inst th (E k) = inst th (E u).

Lemma wfH_nil : wfH []. Proof. intros k u []. Qed.
Lemma sat_nil : forall th, sat th []. Proof. intros th k u []. Qed.
Lemma wfH_cons : forall x u H, nonone u = true -> wfH H -> wfH ((PVar x, u) :: H).
Proof. intros x u H Hu HH k u' [Heq|Hin]; [inversion Heq; subst; eauto | auto]. Qed.
Lemma sat_cons : forall th k u H, inst th (E k) = inst th (E u) -> sat th H -> sat th ((k, u) :: H).
Proof. intros th k u H He Hs k' u' [Heq|Hin]; [inversion Heq; subst; auto | auto]. Qed.
Lemma sat_app_r : forall th D H, sat th (D ++ H) -> sat th H.
Proof. intros th D H Hs k u Hin. apply Hs. apply in_or_app. auto. Qed.
Lemma sat_tail : forall th p H, sat th (p :: H) -> sat th H.
Proof. intros th p H Hs k u Hin. apply Hs. right. auto. Qed.
Lemma sat_head : forall th k u H, sat th ((k, u) :: H) -> inst th (E k) = inst th (E u).
Proof. intros th k u H Hs. apply Hs. left. auto. Qed.

Lemma nonone_wfv : forall v, nonone v = true -> wfv v. Proof. right. auto. Qed.
Lemma nonone_not_none : forall v, nonone v = true -> v <> PNone.
Proof. intros v Hn He. subst. discriminate. Qed.
Lemma wfv_nonone : forall v, wfv v -> v <> PNone -> nonone v = true.
Proof. intros v [H|H] Hne; congruence. Qed.

Lemma sv_find_var : forall H x u, wfH H -> sv_find H (PVar x) = Some u -> In (PVar x, u) H.
Proof.
  induction H as [|[k' u'] H IH]; intros x u Hw Hf; simpl in Hf; try discriminate.
  destruct (Hw k' u' (or_introl eq_refl)) as [[x' Hk] _]. subst k'. simpl in Hf.
  destruct (N.eqb x x') eqn:Ex.
  - apply N.eqb_eq in Ex. inversion Hf. subst. left. auto.
  - right. apply IH; auto. intros k u0 Hin. apply Hw. right. auto.
Qed.

Lemma sv_get_cases : forall H x, wfH H ->
  sv_get H (PVar x) = PNone \/ (In (PVar x, sv_get H (PVar x)) H /\ nonone (sv_get H (PVar x)) = true).
Proof.
  intros H x Hw. unfold sv_get. destruct (sv_find H (PVar x)) as [u|] eqn:Ef; auto.
  right. pose proof (sv_find_var H x u Hw Ef) as Hin. split; auto. apply (Hw _ _ Hin).
Qed.

Lemma sv_get_wfv : forall H x, wfH H -> wfv (sv_get H (PVar x)).
Proof. intros H x Hw. destruct (sv_get_cases H x Hw) as [Hn|[_ Hn]]; [left|right]; auto. Qed.

Lemma sv_get_sat : forall th H x, wfH H -> sat th H -> sv_get H (PVar x) <> PNone ->
  th x = inst th (E (sv_get H (PVar x))).
Proof.
  intros th H x Hw Hs Hne. destruct (sv_get_cases H x Hw) as [Hn|[Hin _]]; [congruence|].
  apply (Hs _ _ Hin).
Qed.

(* ------------------------------------------------------------------ *)
(* the occurs check of the code is a real occurs check *)
Lemma in_variables_occurs : forall x t, nonone t = true ->
  existsb (pval_eqb (PVar x)) (leaves t) = true -> occurs x (E t) = true.
Proof.
  intros x. induction t as [|y|f args IH] using pval_ind'; simpl; intros Hn Hb; try discriminate.
  - rewrite orb_false_r in Hb. exact Hb.
  - rewrite existsb_exists in Hb. destruct Hb as [l [Hl Hb]]. apply in_flat_map in Hl.
    destruct Hl as [a [Ha Hl]]. rewrite existsb_exists. exists (E a). split; [apply in_map; auto|].
    rewrite Forall_forall in IH. apply IH; auto.
    + rewrite forallb_forall in Hn. auto.
    + rewrite existsb_exists. eauto.
Qed.

Lemma py_max_cases : forall x y, py_max (PVar x) (PVar y) = PVar x \/ py_max (PVar x) (PVar y) = PVar y.
Proof. intros x y. simpl. destruct (Z.ltb _ _); auto. Qed.

(* ------------------------------------------------------------------ *)
(* specification of one call *)
Definition post (v1 v2 : pval) (H : store) (r : pval) (H' : store) : Prop :=
  wfH H' /\ wfv r /\ (r = PNone <-> (v1 = PNone /\ v2 = PNone)) /\ (exists D, H' = D ++ H) /\
  (forall th, sat th H' ->
     (v1 <> PNone -> inst th (E r) = inst th (E v1)) /\ (v2 <> PNone -> inst th (E r) = inst th (E v2))) /\
  (forall th, sat th H -> (v1 <> PNone -> v2 <> PNone -> inst th (E v1) = inst th (E v2)) -> sat th H').

Definition postfail (v1 v2 : pval) (H : store) : Prop :=
  v1 <> PNone /\ v2 <> PNone /\ forall th, sat th H -> inst th (E v1) <> inst th (E v2).

Definition fspec (f : pval -> pval -> store -> res store pval) : Prop :=
  forall v1 v2 H, wfH H -> wfv v1 -> wfv v2 ->
  match f v1 v2 H with
  | Ret r H' => post v1 v2 H r H'
  | Raise e => postfail v1 v2 H /\ e <> AssertionError
  | OutOfFuel => True
  end.

Definition pairs_eq (th : N -> term) (l : list (pval * pval)) : Prop :=
  forall a b, In (a, b) l -> inst th (E a) = inst th (E b).

Lemma mapM2_spec : forall f, fspec f -> forall l H, wfH H ->
  (forall a b, In (a, b) l -> nonone a = true /\ nonone b = true) ->
  match mapM2 f l H with
  | Ret rs H' =>
      wfH H' /\ forallb nonone rs = true /\ (exists D, H' = D ++ H) /\
      (forall th, sat th H' -> map (fun r => inst th (E r)) rs = map (fun p => inst th (E (fst p))) l /\
                               map (fun r => inst th (E r)) rs = map (fun p => inst th (E (snd p))) l) /\
      (forall th, sat th H -> pairs_eq th l -> sat th H')
  | Raise e => (forall th, sat th H -> ~ pairs_eq th l) /\ e <> AssertionError
  | OutOfFuel => True
  end.
Proof.
  intros f Hf. induction l as [|[a b] l IH]; intros H Hw Hn; simpl.
  - split; auto. split; auto. split; [exists []; auto|]. split; [intros; split; auto | intros; auto].
  - destruct (Hn a b (or_introl eq_refl)) as [Hna Hnb].
    pose proof (Hf a b H Hw (nonone_wfv _ Hna) (nonone_wfv _ Hnb)) as Hc.
    destruct (f a b H) as [r H1|e|]; simpl; auto.
    + destruct Hc as (Hw1 & Hwr & Hiff & [D1 HD1] & Hsound & Hcompl).
      assert (Hn' : forall a0 b0, In (a0, b0) l -> nonone a0 = true /\ nonone b0 = true)
        by (intros; apply Hn; right; auto).
      specialize (IH H1 Hw1 Hn').
      destruct (mapM2 f l H1) as [rs H2|e|]; simpl; auto.
      * destruct IH as (Hw2 & Hnrs & [D2 HD2] & Hsound2 & Hcompl2).
        assert (Hrn : nonone r = true).
        { apply wfv_nonone; auto. intros Hr. apply Hiff in Hr. destruct Hr. subst. discriminate. }
        split; auto. split; [simpl; rewrite Hrn; auto|].
        split; [exists (D2 ++ D1); subst; rewrite app_assoc; auto|]. split.
        -- intros th Hs. destruct (Hsound2 th Hs) as [E1 E2].
           assert (Hs1 : sat th H1) by (subst H2; eapply sat_app_r; eauto).
           destruct (Hsound th Hs1) as [Ea Eb].
           simpl. split; f_equal; auto; [apply Ea | apply Eb]; apply nonone_not_none; auto.
        -- intros th Hs Hp. apply Hcompl2.
           ++ apply Hcompl; auto. intros _ _. apply Hp. left. auto.
           ++ intros a0 b0 Hin. apply Hp. right. auto.
      * destruct IH as [IH Hne]. split; auto. intros th Hs Hp. apply (IH th).
        -- apply Hcompl; auto. intros _ _. apply Hp. left. auto.
        -- intros a0 b0 Hin. apply Hp. right. auto.
    + destruct Hc as [(Ha & Hb & Hc) Hne]. split; auto. intros th Hs Hp. apply (Hc th Hs). apply Hp. left. auto.
Qed.

(* ------------------------------------------------------------------ *)
(* small facts used in the main induction *)
Lemma post_left_none : forall v H, wfH H -> wfv v -> post PNone v H v H.
Proof.
  intros v H Hw Hv. split; auto. split; auto. split.
  { split; [intros ->; auto | intros [_ ?]; auto]. }
  split; [exists []; auto|]. split; [|auto].
  intros th _. split; [congruence | auto].
Qed.
Lemma post_right_none : forall v H, wfH H -> wfv v -> post v PNone H v H.
Proof.
  intros v H Hw Hv. split; auto. split; auto. split.
  { split; [intros ->; auto | intros [? _]; auto]. }
  split; [exists []; auto|]. split; [|auto].
  intros th _. split; [auto | congruence].
Qed.

Lemma inst_app_neq : forall th f g xs ys,
  sym_eqb f g && Nat.eqb (length xs) (length ys) = false ->
  inst th (TApp f (map E xs)) <> inst th (TApp g (map E ys)).
Proof.
  intros th f g xs ys Hb He. simpl in He. inversion He as [[Hf Hm]].
  assert (sym_eqb f g = true) by (apply sym_eqb_eq; auto).
  assert (Nat.eqb (length xs) (length ys) = true).
  { apply Nat.eqb_eq. apply (f_equal (@length term)) in Hm. repeat rewrite map_length in Hm. auto. }
  rewrite H, H0 in Hb. discriminate.
Qed.

Lemma combine_fst : forall (xs ys : list pval) (F : pval -> term), length xs = length ys ->
  map (fun p => F (fst p)) (combine xs ys) = map F xs.
Proof. induction xs; intros [|y ys] F Hl; simpl in *; try discriminate; auto. f_equal. auto. Qed.
Lemma combine_snd : forall (xs ys : list pval) (F : pval -> term), length xs = length ys ->
  map (fun p => F (snd p)) (combine xs ys) = map F ys.
Proof. induction xs; intros [|y ys] F Hl; simpl in *; try discriminate; auto. f_equal. auto. Qed.
Lemma combine_in_forallb : forall (xs ys : list pval) a b, forallb nonone xs = true -> forallb nonone ys = true ->
  In (a, b) (combine xs ys) -> nonone a = true /\ nonone b = true.
Proof.
  intros xs ys a b Hx Hy Hin. rewrite forallb_forall in Hx, Hy.
  split; [apply Hx; eapply in_combine_l; eauto | apply Hy; eapply in_combine_r; eauto].
Qed.
Lemma maps_eq_pairs : forall th (xs ys : list pval),
  map (inst th) (map E xs) = map (inst th) (map E ys) -> pairs_eq th (combine xs ys).
Proof.
  intros th. induction xs as [|x xs IH]; intros [|y ys] Hm a b Hin; simpl in *; try contradiction.
  inversion Hm. destruct Hin as [Heq|Hin]; [inversion Heq; subst; auto | eapply IH; eauto].
Qed.

(* the variable / value branches share this step: x already carries gx (or nothing); the recursive call on
   (gx, t) returned `value` in dictionary H1; the code then records x := value *)
Lemma var_value_step : forall x t H value H1,
  wfH H -> nonone t = true ->
  post (sv_get H (PVar x)) t H value H1 ->
  post (PVar x) t H value (sv_set H1 (PVar x) value) /\ post t (PVar x) H value (sv_set H1 (PVar x) value).
Proof.
  intros x t H value H1 Hw Ht (Hw1 & Hwv & Hiff & [D HD] & Hsound & Hcompl).
  assert (Htn : t <> PNone) by (apply nonone_not_none; auto).
  assert (Hvn : value <> PNone) by (intros Hv; apply Hiff in Hv; destruct Hv; auto).
  assert (Hvno : nonone value = true) by (apply wfv_nonone; auto).
  assert (Hcommon : forall th, sat th (sv_set H1 (PVar x) value) ->
            inst th (E value) = th x /\ inst th (E value) = inst th (E t)).
  { intros th Hs. split.
    - symmetry. apply (sat_head _ _ _ _ Hs).
    - apply (Hsound th (sat_tail _ _ _ Hs)). auto. }
  assert (Hcommon2 : forall th, sat th H -> th x = inst th (E t) -> sat th (sv_set H1 (PVar x) value)).
  { intros th Hs Hxt.
    assert (Hs1 : sat th H1).
    { apply Hcompl; auto. intros Hg _. rewrite <- (sv_get_sat th H x Hw Hs Hg). auto. }
    apply sat_cons; auto. simpl. rewrite Hxt. symmetry. apply (Hsound th Hs1). auto. }
  split.
  - split; [apply wfH_cons; auto|]. split; auto. split; [split; [intros; contradiction | intros [? _]; discriminate]|].
    split; [exists ((PVar x, value) :: D); subst; auto|]. split.
    + intros th Hs. destruct (Hcommon th Hs). split; auto.
    + intros th Hs Hxt. apply Hcommon2; auto. apply Hxt; auto. discriminate.
  - split; [apply wfH_cons; auto|]. split; auto. split; [split; [intros; contradiction | intros [_ ?]; discriminate]|].
    split; [exists ((PVar x, value) :: D); subst; auto|]. split.
    + intros th Hs. destruct (Hcommon th Hs). split; auto.
    + intros th Hs Hxt. apply Hcommon2; auto. symmetry. apply Hxt; auto. discriminate.
Qed.

Lemma var_value_fail : forall x t H, wfH H -> nonone t = true ->
  postfail (sv_get H (PVar x)) t H -> postfail (PVar x) t H /\ postfail t (PVar x) H.
Proof.
  intros x t H Hw Ht (Hg & Htn & Hf).
  split; (split; [discriminate || auto|]; split; [discriminate || auto|]); intros th Hs He; apply (Hf th Hs);
    rewrite <- (sv_get_sat th H x Hw Hs Hg); simpl in He; auto.
Qed.

Lemma occurs_fail : forall x f args H, nonone (PTerm f args) = true ->
  in_variables (PVar x) (PTerm f args) = true ->
  postfail (PVar x) (PTerm f args) H /\ postfail (PTerm f args) (PVar x) H.
Proof.
  intros x f args H Hn Hb. pose proof (in_variables_occurs x (PTerm f args) Hn Hb) as Ho.
  split; (split; [discriminate|]; split; [discriminate|]); intros th _ He;
    apply (occurs_app_no_unifier th x f (map E args) Ho); simpl in *; auto.
Qed.

Lemma cond_set_spec : forall x v H, nonone v = true -> wfH H ->
  let H' := if negb (pval_eqb (PVar x) v) then sv_set H (PVar x) v else H in
  wfH H' /\ (exists D, H' = D ++ H) /\ (forall th, sat th H' -> th x = inst th (E v)) /\
  (forall th, sat th H -> th x = inst th (E v) -> sat th H').
Proof.
  intros x v H Hv Hw. cbv zeta. destruct (pval_eqb (PVar x) v) eqn:Eb; cbn [negb].
  - apply pval_eqb_var in Eb. subst v. split; auto. split; [exists []; auto|]. split; auto.
  - split; [apply wfH_cons; auto|]. split; [exists [(PVar x, v)]; auto|]. split.
    + intros th Hs. apply (sat_head _ _ _ _ Hs).
    + intros th Hs He. apply sat_cons; auto.
Qed.

Lemma var_var_step : forall x y H value H1, wfH H ->
  post (sv_get H (PVar x)) (sv_get H (PVar y)) H value H1 ->
  let value' := if is_none value then py_max (PVar x) (PVar y) else value in
  let H2 := if negb (pval_eqb (PVar x) value') then sv_set H1 (PVar x) value' else H1 in
  let H3 := if negb (pval_eqb (PVar y) value') then sv_set H2 (PVar y) value' else H2 in
  post (PVar x) (PVar y) H value' H3.
Proof.
  intros x y H value H1 Hw (Hw1 & Hwv & Hiff & [D HD] & Hsound & Hcompl) value' H2 H3.
  assert (Hv' : nonone value' = true /\
                (value = PNone -> value' = PVar x \/ value' = PVar y) /\ (value <> PNone -> value' = value)).
  { unfold value'. destruct value as [|z|f l]; simpl is_none; cbv iota.
    - destruct (py_max_cases x y) as [-> | ->]; (split; [auto|]; split; [auto | intros Hc; contradiction]).
    - split; [auto|]. split; [discriminate | auto].
    - split; [apply wfv_nonone; auto; discriminate|]. split; [discriminate | auto]. }
  destruct Hv' as (Hvn & Hvnone & Hvsome).
  destruct (cond_set_spec x value' H1 Hvn Hw1) as (Hw2 & [D2 HD2] & Hs2 & Hc2). fold H2 in Hw2, HD2, Hs2, Hc2.
  destruct (cond_set_spec y value' H2 Hvn Hw2) as (Hw3 & [D3 HD3] & Hs3 & Hc3). fold H3 in Hw3, HD3, Hs3, Hc3.
  split; auto. split; [right; auto|]. split.
  { split; [intros Hn; rewrite Hn in Hvn; discriminate | intros [? _]; discriminate]. }
  split; [exists (D3 ++ D2 ++ D); rewrite HD3, HD2, HD; repeat rewrite app_assoc; auto|]. split.
  - intros th Hs. split; intros _; simpl; symmetry.
    + apply Hs2. rewrite HD3 in Hs. eapply sat_app_r; eauto.
    + apply Hs3. auto.
  - intros th Hs Hxy. assert (Exy : th x = th y) by (apply Hxy; discriminate).
    assert (Hs1 : sat th H1).
    { apply Hcompl; auto. intros Hgx Hgy.
      rewrite <- (sv_get_sat th H x Hw Hs Hgx), <- (sv_get_sat th H y Hw Hs Hgy). auto. }
    assert (Ev : th x = inst th (E value')).
    { destruct value as [|z|f l] eqn:Eval.
      - destruct (Hvnone eq_refl) as [-> | ->]; simpl; auto.
      - rewrite Hvsome by discriminate.
        destruct (sv_get H (PVar x)) eqn:Egx.
        + destruct (sv_get H (PVar y)) eqn:Egy.
          * assert (PVar z = PNone) by (apply Hiff; auto). discriminate.
          * rewrite Exy. rewrite (sv_get_sat th H y Hw Hs) by (rewrite Egy; discriminate). rewrite Egy.
            symmetry. apply (Hsound th Hs1). discriminate.
          * rewrite Exy. rewrite (sv_get_sat th H y Hw Hs) by (rewrite Egy; discriminate). rewrite Egy.
            symmetry. apply (Hsound th Hs1). discriminate.
        + rewrite (sv_get_sat th H x Hw Hs) by (rewrite Egx; discriminate). rewrite Egx.
          symmetry. apply (Hsound th Hs1). discriminate.
        + rewrite (sv_get_sat th H x Hw Hs) by (rewrite Egx; discriminate). rewrite Egx.
          symmetry. apply (Hsound th Hs1). discriminate.
      - rewrite Hvsome by discriminate.
        destruct (sv_get H (PVar x)) eqn:Egx.
        + destruct (sv_get H (PVar y)) eqn:Egy.
          * assert (PTerm f l = PNone) by (apply Hiff; auto). discriminate.
          * rewrite Exy. rewrite (sv_get_sat th H y Hw Hs) by (rewrite Egy; discriminate). rewrite Egy.
            symmetry. apply (Hsound th Hs1). discriminate.
          * rewrite Exy. rewrite (sv_get_sat th H y Hw Hs) by (rewrite Egy; discriminate). rewrite Egy.
            symmetry. apply (Hsound th Hs1). discriminate.
        + rewrite (sv_get_sat th H x Hw Hs) by (rewrite Egx; discriminate). rewrite Egx.
          symmetry. apply (Hsound th Hs1). discriminate.
        + rewrite (sv_get_sat th H x Hw Hs) by (rewrite Egx; discriminate). rewrite Egx.
          symmetry. apply (Hsound th Hs1). discriminate. }
    apply Hc3; [apply Hc2; auto | rewrite <- Exy; auto].
Qed.

Lemma var_var_fail : forall x y H, wfH H ->
  postfail (sv_get H (PVar x)) (sv_get H (PVar y)) H -> postfail (PVar x) (PVar y) H.
Proof.
  intros x y H Hw (Hgx & Hgy & Hf). split; [discriminate|]. split; [discriminate|].
  intros th Hs He. apply (Hf th Hs).
  rewrite <- (sv_get_sat th H x Hw Hs Hgx), <- (sv_get_sat th H y Hw Hs Hgy). auto.
Qed.

(* ------------------------------------------------------------------ *)
(* the main induction: every recursion depth of the translated function *)
Theorem uv_spec : forall fuel, fspec (unify_value fuel).
Proof.
  induction fuel as [|fuel IH]; intros v1 v2 H Hw Hv1 Hv2; [exact I|].
  destruct v1 as [|x|f xs]; destruct v2 as [|y|g ys]; cbn -[sv_get sv_set in_variables signature_eqb py_max pval_eqb].
  - apply post_left_none; auto.
  - apply post_left_none; auto.
  - apply post_left_none; auto.
  - apply post_right_none; auto.
  - (* variable / variable *)
    cbn [pval_eqb]. destruct (N.eqb x y) eqn:Exy.
    + apply N.eqb_eq in Exy. subst y.
      split; auto. split; auto. split; [split; [discriminate | intros [? _]; discriminate]|].
      split; [exists []; auto|]. split; auto.
    + specialize (IH (sv_get H (PVar x)) (sv_get H (PVar y)) H Hw (sv_get_wfv H x Hw) (sv_get_wfv H y Hw)).
      destruct (unify_value fuel (sv_get H (PVar x)) (sv_get H (PVar y)) H) as [value H1|e|]; auto.
      * exact (var_var_step x y H value H1 Hw IH).
      * destruct IH as [IH Hne]. split; auto. apply var_var_fail; auto.
  - (* variable / term *)
    assert (Hn : nonone (PTerm g ys) = true) by (apply wfv_nonone; auto; discriminate).
    destruct (in_variables (PVar x) (PTerm g ys)) eqn:Eo.
    + split; [apply (occurs_fail x g ys H Hn Eo) | discriminate].
    + specialize (IH (sv_get H (PVar x)) (PTerm g ys) H Hw (sv_get_wfv H x Hw) Hv2).
      destruct (unify_value fuel (sv_get H (PVar x)) (PTerm g ys) H) as [value H1|e|]; auto.
      * apply (var_value_step x (PTerm g ys) H value H1 Hw Hn IH).
      * destruct IH as [IH Hne]. split; auto. apply (var_value_fail x (PTerm g ys) H Hw Hn IH).
  - apply post_right_none; auto.
  - (* term / variable *)
    assert (Hn : nonone (PTerm f xs) = true) by (apply wfv_nonone; auto; discriminate).
    destruct (in_variables (PVar y) (PTerm f xs)) eqn:Eo.
    + split; [apply (occurs_fail y f xs H Hn Eo) | discriminate].
    + specialize (IH (sv_get H (PVar y)) (PTerm f xs) H Hw (sv_get_wfv H y Hw) Hv1).
      destruct (unify_value fuel (sv_get H (PVar y)) (PTerm f xs) H) as [value H1|e|]; auto.
      * apply (var_value_step y (PTerm f xs) H value H1 Hw Hn IH).
      * destruct IH as [IH Hne]. split; auto. apply (var_value_fail y (PTerm f xs) H Hw Hn IH).
  - (* term / term *)
    assert (Hn1 : nonone (PTerm f xs) = true) by (apply wfv_nonone; auto; discriminate).
    assert (Hn2 : nonone (PTerm g ys) = true) by (apply wfv_nonone; auto; discriminate).
    simpl in Hn1, Hn2.
    cbn [signature_eqb]. destruct (sym_eqb f g && Nat.eqb (length xs) (length ys)) eqn:Es.
    + apply andb_true_iff in Es. destruct Es as [Ef El]. apply sym_eqb_eq in Ef. apply Nat.eqb_eq in El. subst g.
      pose proof (mapM2_spec (unify_value fuel) IH (combine xs ys) H Hw
                    (fun a b => combine_in_forallb xs ys a b Hn1 Hn2)) as Hm.
      unfold zip.
      change (fun a1 a2 source_values => unify_value fuel a1 a2 source_values) with (unify_value fuel).
      destruct (mapM2 (unify_value fuel) (combine xs ys) H) as [rs H1|e|]; auto.
      * destruct Hm as (Hw1 & Hnrs & HD & Hsound & Hcompl).
        split; auto. split; [right; simpl; auto|].
        split; [split; [discriminate | intros [? _]; discriminate]|]. split; auto. split.
        -- intros th Hs. destruct (Hsound th Hs) as [E1 E2].
           rewrite (combine_fst xs ys (fun v => inst th (E v)) El) in E1.
           rewrite (combine_snd xs ys (fun v => inst th (E v)) El) in E2.
           simpl. repeat rewrite map_map. split; intros _; f_equal; auto.
        -- intros th Hs He. apply Hcompl; auto. apply maps_eq_pairs.
           assert (He' := He ltac:(discriminate) ltac:(discriminate)). simpl in He'. inversion He'. auto.
      * destruct Hm as [Hm Hne]. split; auto. split; [discriminate|]. split; [discriminate|].
        intros th Hs He. apply (Hm th Hs). apply maps_eq_pairs. simpl in He. inversion He. auto.
    + split; [|discriminate]. split; [discriminate|]. split; [discriminate|].
      intros th _. apply inst_app_neq. auto.
Qed.

(* ------------------------------------------------------------------ *)
(* the final dictionary read as a substitution *)
Lemma sat_tau : forall th H, wfH H -> sat th H -> forall n, inst th (tau H n) = th n.
Proof.
  intros th H Hw Hs n. unfold tau. destruct (sv_find H (PVar n)) as [u|] eqn:Ef; auto.
  symmetry. apply (Hs _ _ (sv_find_var H n u Hw Ef)).
Qed.

Lemma sat_sigma_n : forall th H k, wfH H -> sat th H -> forall n, inst th (sigma_n k H n) = th n.
Proof.
  intros th H k Hw Hs. induction k as [|k IH]; intros n; simpl; auto.
  rewrite inst_comp. rewrite (inst_ext _ _ th (sat_tau th H Hw Hs)). apply IH.
Qed.

Lemma sat_absorbs_sigma : forall th H, wfH H -> sat th H -> forall u, inst th (inst (sigma H) u) = inst th u.
Proof. intros th H Hw Hs u. rewrite inst_comp. apply inst_ext. apply sat_sigma_n; auto. Qed.

Lemma solved_sat : forall H, solved H = true -> sat (sigma H) H.
Proof.
  intros H Hs k u Hin. unfold solved in Hs. apply andb_true_iff in Hs. destruct Hs as [_ Hs].
  rewrite forallb_forall in Hs. apply term_eqb_eq. apply (Hs (k, u) Hin).
Qed.

Lemma run_facts : forall fuel s t r H, nonone s = true -> nonone t = true ->
  unify_value fuel s t [] = Ret r H ->
  wfH H /\
  (forall th, sat th H -> inst th (E r) = inst th (E s) /\ inst th (E r) = inst th (E t)) /\
  (forall th, unifies th (E s) (E t) -> sat th H).
Proof.
  intros fuel s t r H Hs Ht Hrun.
  pose proof (uv_spec fuel s t [] wfH_nil (nonone_wfv _ Hs) (nonone_wfv _ Ht)) as Hsp. rewrite Hrun in Hsp.
  destruct Hsp as (Hw & _ & _ & _ & Hsound & Hcompl). split; auto. split.
  - intros th Hsat. destruct (Hsound th Hsat) as [A B]. split; [apply A | apply B]; apply nonone_not_none; auto.
  - intros th Hu. apply Hcompl; [apply sat_nil | auto].
Qed.

(* success with a solved dictionary: its resolution is a most general unifier *)
Theorem unify_value_solved_mgu : forall fuel s t r H, nonone s = true -> nonone t = true ->
  unify_value fuel s t [] = Ret r H -> solved H = true ->
  unifies (sigma H) (E s) (E t) /\
  resolve H r = resolve H s /\
  (forall th, unifies th (E s) (E t) -> forall u, inst th (inst (sigma H) u) = inst th u).
Proof.
  intros fuel s t r H Hs Ht Hrun Hsol. destruct (run_facts fuel s t r H Hs Ht Hrun) as (Hw & Hsound & Hcompl).
  destruct (Hsound _ (solved_sat H Hsol)) as [A B]. split; [unfold unifies; congruence|]. split; [exact A|].
  intros th Hu u. apply sat_absorbs_sigma; auto.
Qed.

(* ... and it agrees with the reference mgu: each of the two absorbs the other (equal up to renaming) *)
Theorem unify_value_agrees_mgu : forall fuel s t r H, nonone s = true -> nonone t = true ->
  unify_value fuel s t [] = Ret r H -> solved H = true ->
  exists mu, mgu (E s) (E t) = Some mu /\
    (forall u, inst (sigma H) (apply mu u) = inst (sigma H) u) /\
    (forall u, apply mu (inst (sigma H) u) = apply mu u).
Proof.
  intros fuel s t r H Hs Ht Hrun Hsol.
  destruct (unify_value_solved_mgu fuel s t r H Hs Ht Hrun Hsol) as (Hu & _ & Hmg).
  assert (Hex : unifiable (E s) (E t)) by (exists (sigma H); exact Hu).
  destruct (mgu_complete (E s) (E t) Hex) as [mu Hmu]. exists mu. split; auto. split.
  - intros u. apply (mgu_absorbs _ _ _ Hmu _ Hu).
  - intros u. repeat rewrite apply_inst. apply Hmg. unfold unifies. repeat rewrite <- apply_inst.
    apply (mgu_sound _ _ _ Hmu).
Qed.

(* an exception is raised only when there is no unifier *)
Theorem unify_value_raise_sound : forall fuel s t e, nonone s = true -> nonone t = true ->
  unify_value fuel s t [] = Raise e -> mgu (E s) (E t) = None /\ e <> AssertionError.
Proof.
  intros fuel s t e Hs Ht Hrun.
  pose proof (uv_spec fuel s t [] wfH_nil (nonone_wfv _ Hs) (nonone_wfv _ Ht)) as Hsp. rewrite Hrun in Hsp.
  destruct Hsp as [(_ & _ & Hf) Hne]. split; auto. apply mgu_none_iff. intros [th Hu]. apply (Hf th (sat_nil th) Hu).
Qed.

(* whatever the run did: every unifier of s and t satisfies the final dictionary and vice versa *)
Theorem unify_value_dictionary_exact : forall fuel s t r H, nonone s = true -> nonone t = true ->
  unify_value fuel s t [] = Ret r H ->
  forall th, unifies th (E s) (E t) <-> sat th H.
Proof.
  intros fuel s t r H Hs Ht Hrun th. destruct (run_facts fuel s t r H Hs Ht Hrun) as (Hw & Hsound & Hcompl).
  split; auto. intros Hsat. destruct (Hsound th Hsat). unfold unifies. congruence.
Qed.

(* a cyclic / unsolved success can only be a WRONG success when ... it is wrong: if the pair has no unifier the
   dictionary cannot be solved (contrapositive of the first theorem) *)
Definition guard_ok (o : res store pval) : bool :=
  match o with Ret _ H => solved H | Raise _ => true | OutOfFuel => false end.
Definition is_raise (o : res store pval) : bool := match o with Raise _ => true | _ => false end.

Theorem unify_value_fails_iff : forall fuel s t, nonone s = true -> nonone t = true ->
  guard_ok (unify_value fuel s t []) = true ->
  (is_raise (unify_value fuel s t []) = true <-> mgu (E s) (E t) = None).
Proof.
  intros fuel s t Hs Ht Hg. destruct (unify_value fuel s t []) as [r H|e|] eqn:Hrun; simpl in *; try discriminate.
  - split; [discriminate|]. intros Hn.
    destruct (unify_value_agrees_mgu fuel s t r H Hs Ht Hrun Hg) as [mu [Hmu _]]. congruence.
  - split; auto. intros _. apply (unify_value_raise_sound fuel s t e Hs Ht Hrun).
Qed.

(* ------------------------------------------------------------------ *)
(* An a-priori class inside the guard: ONE SIDE GROUND.  Then every binding is ground, a variable is always rebound
   to the value it already has, and the final dictionary is solved. *)
Definition gn (v : pval) : Prop := v = PNone \/ pground v = true.
Definition gstore (H : store) : Prop := forall k u, In (k, u) H -> pground u = true.
Definition functional (H : store) : Prop := forall k u u', In (k, u) H -> In (k, u') H -> u = u'.

Lemma pground_nonone : forall v, pground v = true -> nonone v = true.
Proof.
  induction v as [| |f args IH] using pval_ind'; simpl; intros Hg; try discriminate.
  rewrite forallb_forall in *. rewrite Forall_forall in IH. auto.
Qed.

Lemma pground_tvars : forall v, pground v = true -> tvars (E v) = [].
Proof.
  induction v as [| |f args IH] using pval_ind'; simpl; intros Hg; try discriminate.
  induction args as [|a args IHa]; simpl in *; auto.
  apply andb_true_iff in Hg. destruct Hg as [Ha Hl]. inversion IH as [|? ? Hia Hil]; subst.
  rewrite (Hia Ha). simpl. apply IHa; auto.
Qed.

Lemma sv_find_none_notin : forall H x u, wfH H -> sv_find H (PVar x) = None -> ~ In (PVar x, u) H.
Proof.
  induction H as [|[k' u'] H IH]; intros x u Hw Hf Hin; simpl in *; auto.
  destruct (Hw k' u' (or_introl eq_refl)) as [[x' Hk] _]. subst k'. simpl in Hf.
  destruct (N.eqb x x') eqn:Ex; [discriminate|].
  destruct Hin as [Heq|Hin].
  - inversion Heq. subst. rewrite N.eqb_refl in Ex. discriminate.
  - eapply IH; eauto. intros k u0 Hi. apply Hw. right. auto.
Qed.

Lemma sv_get_none_notin : forall H x u, wfH H -> sv_get H (PVar x) = PNone -> ~ In (PVar x, u) H.
Proof.
  intros H x u Hw Hg. unfold sv_get in Hg. destruct (sv_find H (PVar x)) as [u0|] eqn:Ef.
  - subst u0. pose proof (sv_find_var H x PNone Hw Ef) as Hin. destruct (Hw _ _ Hin) as [_ Hn]. discriminate.
  - apply sv_find_none_notin; auto.
Qed.

Definition gpost (v1 v2 : pval) (H : store) (r : pval) (H' : store) : Prop :=
  gstore H' /\ functional H' /\
  (pground v1 = true -> r = v1) /\ (pground v2 = true -> r = v2) /\
  (gn v1 -> gn v2 -> H' = H).

Definition gspec (f : pval -> pval -> store -> res store pval) : Prop :=
  forall v1 v2 H r H', wfH H -> gstore H -> functional H -> wfv v1 -> wfv v2 -> (gn v1 \/ gn v2) ->
  f v1 v2 H = Ret r H' -> gpost v1 v2 H r H'.

Lemma gn_var : forall x, ~ gn (PVar x).
Proof. intros x [Hc|Hc]; discriminate. Qed.

Lemma mapM2_gspec : forall f, fspec f -> gspec f -> forall l H rs H', wfH H -> gstore H -> functional H ->
  (forall a b, In (a, b) l -> nonone a = true /\ nonone b = true) ->
  (forallb pground (map fst l) = true \/ forallb pground (map snd l) = true) ->
  mapM2 f l H = Ret rs H' ->
  gstore H' /\ functional H' /\
  (forallb pground (map fst l) = true -> rs = map fst l) /\
  (forallb pground (map snd l) = true -> rs = map snd l) /\
  (forallb pground (map fst l) = true -> forallb pground (map snd l) = true -> H' = H).
Proof.
  intros f Hf Hg. induction l as [|[a b] l IH]; intros H rs H' Hw Hgs Hfun Hn Hside Hrun; simpl in Hrun.
  - inversion Hrun. subst. repeat split; auto.
  - destruct (Hn a b (or_introl eq_refl)) as [Hna Hnb].
    pose proof (Hf a b H Hw (nonone_wfv _ Hna) (nonone_wfv _ Hnb)) as Hsp.
    destruct (f a b H) as [r H1|e|] eqn:Ef; simpl in Hrun; try discriminate.
    destruct Hsp as (Hw1 & _).
    assert (Hside1 : gn a \/ gn b).
    { simpl in Hside. destruct Hside as [Hs|Hs]; apply andb_true_iff in Hs; destruct Hs; [left|right]; right; auto. }
    destruct (Hg a b H r H1 Hw Hgs Hfun (nonone_wfv _ Hna) (nonone_wfv _ Hnb) Hside1 Ef) as (Hgs1 & Hfun1 & Hr1 & Hr2 & Hsame).
    destruct (mapM2 f l H1) as [rs' H2|e|] eqn:Em; simpl in Hrun; try discriminate. inversion Hrun. subst rs H'.
    assert (Hside' : forallb pground (map fst l) = true \/ forallb pground (map snd l) = true).
    { simpl in Hside. destruct Hside as [Hs|Hs]; apply andb_true_iff in Hs; destruct Hs; auto. }
    destruct (IH H1 rs' H2 Hw1 Hgs1 Hfun1 (fun a0 b0 Hi => Hn a0 b0 (or_intror Hi)) Hside' Em) as (Hgs2 & Hfun2 & Hl1 & Hl2 & Hsame2).
    split; auto. split; auto. simpl. split; [|split].
    + intros Hs. apply andb_true_iff in Hs. destruct Hs as [Ha Hl]. rewrite Hr1, Hl1; auto.
    + intros Hs. apply andb_true_iff in Hs. destruct Hs as [Hb Hl]. rewrite Hr2, Hl2; auto.
    + intros Hs1 Hs2. apply andb_true_iff in Hs1. apply andb_true_iff in Hs2. destruct Hs1, Hs2.
      rewrite Hsame2; auto. apply Hsame; right; auto.
Qed.

Lemma gpost_left_none : forall v H, gstore H -> functional H -> gpost PNone v H v H.
Proof. intros v H Hg Hf. split; auto. split; auto. split; [discriminate|]. split; auto. Qed.
Lemma gpost_right_none : forall v H, gstore H -> functional H -> gpost v PNone H v H.
Proof. intros v H Hg Hf. split; auto. split; auto. split; auto. split; [discriminate|auto]. Qed.

Lemma ground_var_step : forall x t H value H1, wfH H -> gstore H -> functional H -> pground t = true ->
  gpost (sv_get H (PVar x)) t H value H1 ->
  gstore (sv_set H1 (PVar x) value) /\ functional (sv_set H1 (PVar x) value) /\ value = t.
Proof.
  intros x t H value H1 Hw Hgs Hfun Ht (Hgs1 & Hfun1 & Hr1 & Hr2 & Hsame).
  assert (Hv : value = t) by auto. subst value.
  assert (Hgx : gn (sv_get H (PVar x))).
  { destruct (sv_get_cases H x Hw) as [Hn|[Hin _]]; [left; auto | right; apply (Hgs _ _ Hin)]. }
  assert (HH : H1 = H) by (apply Hsame; auto; right; auto). subst H1.
  split; [|split; auto].
  - intros k u [Heq|Hin]; [inversion Heq; subst; auto | eauto].
  - assert (Hx : forall u, In (PVar x, u) H -> u = t).
    { intros u Hin. destruct (sv_get_cases H x Hw) as [Hn|[Hin' Hnn]].
      - exfalso. eapply sv_get_none_notin; eauto.
      - rewrite (Hfun _ _ _ Hin Hin'). symmetry. apply Hr1. apply (Hgs _ _ Hin'). }
    intros k u u' [Heq|Hin] [Heq'|Hin'].
    + inversion Heq; inversion Heq'; subst; auto.
    + inversion Heq; subst. symmetry. auto.
    + inversion Heq'; subst. auto.
    + eauto.
Qed.

Theorem uv_gspec : forall fuel, gspec (unify_value fuel).
Proof.
  induction fuel as [|fuel IH]; intros v1 v2 H r H' Hw Hgs Hfun Hv1 Hv2 Hside Hrun; [discriminate|].
  destruct v1 as [|x|f xs]; destruct v2 as [|y|g ys];
    cbn -[sv_get sv_set in_variables signature_eqb py_max pval_eqb] in Hrun.
  - inversion Hrun; subst. apply gpost_left_none; auto.
  - inversion Hrun; subst. apply gpost_left_none; auto.
  - inversion Hrun; subst. apply gpost_left_none; auto.
  - inversion Hrun; subst. apply gpost_right_none; auto.
  - exfalso. destruct Hside as [Hc|Hc]; eapply gn_var; eauto.
  - (* variable / ground term *)
    assert (Ht : pground (PTerm g ys) = true).
    { destruct Hside as [Hc|[Hc|Hc]]; [exfalso; eapply gn_var; eauto | discriminate | auto]. }
    destruct (in_variables (PVar x) (PTerm g ys)); [discriminate|].
    destruct (unify_value fuel (sv_get H (PVar x)) (PTerm g ys) H) as [value H1|e|] eqn:Erec; try discriminate.
    inversion Hrun; subst r H'.
    pose proof (IH _ _ _ _ _ Hw Hgs Hfun (sv_get_wfv H x Hw) Hv2 (or_intror (or_intror Ht)) Erec) as Hp.
    destruct (ground_var_step x _ H value H1 Hw Hgs Hfun Ht Hp) as (A & B & Cq).
    split; auto. split; auto. split; [discriminate|]. split; auto.
    intros Hc. exfalso. eapply gn_var; eauto.
  - inversion Hrun; subst. apply gpost_right_none; auto.
  - (* ground term / variable *)
    assert (Ht : pground (PTerm f xs) = true).
    { destruct Hside as [[Hc|Hc]|Hc]; [discriminate | auto | exfalso; eapply gn_var; eauto]. }
    destruct (in_variables (PVar y) (PTerm f xs)); [discriminate|].
    destruct (unify_value fuel (sv_get H (PVar y)) (PTerm f xs) H) as [value H1|e|] eqn:Erec; try discriminate.
    inversion Hrun; subst r H'.
    pose proof (IH _ _ _ _ _ Hw Hgs Hfun (sv_get_wfv H y Hw) Hv1 (or_intror (or_intror Ht)) Erec) as Hp.
    destruct (ground_var_step y _ H value H1 Hw Hgs Hfun Ht Hp) as (A & B & Cq).
    split; auto. split; auto. split; auto. split; [discriminate|].
    intros _ Hc. exfalso. eapply gn_var; eauto.
  - (* term / term *)
    assert (Hn1 : nonone (PTerm f xs) = true) by (apply wfv_nonone; auto; discriminate).
    assert (Hn2 : nonone (PTerm g ys) = true) by (apply wfv_nonone; auto; discriminate).
    simpl in Hn1, Hn2. cbn [signature_eqb] in Hrun.
    destruct (sym_eqb f g && Nat.eqb (length xs) (length ys)) eqn:Es; [|discriminate].
    apply andb_true_iff in Es. destruct Es as [Ef El]. apply sym_eqb_eq in Ef. apply Nat.eqb_eq in El. subst g.
    unfold zip in Hrun.
    change (fun a1 a2 source_values => unify_value fuel a1 a2 source_values) with (unify_value fuel) in Hrun.
    destruct (mapM2 (unify_value fuel) (combine xs ys) H) as [rs H1|e|] eqn:Em; try discriminate.
    inversion Hrun; subst r H'.
    assert (Hfst : map fst (combine xs ys) = xs).
    { clear - El. revert ys El. induction xs; intros [|y ys] El; simpl in *; try discriminate; auto. f_equal; auto. }
    assert (Hsnd : map snd (combine xs ys) = ys).
    { clear - El. revert ys El. induction xs; intros [|y ys] El; simpl in *; try discriminate; auto. f_equal; auto. }
    assert (Hside' : forallb pground (map fst (combine xs ys)) = true \/ forallb pground (map snd (combine xs ys)) = true).
    { rewrite Hfst, Hsnd. destruct Hside as [[Hc|Hc]|[Hc|Hc]]; try discriminate; simpl in Hc; auto. }
    destruct (mapM2_gspec (unify_value fuel) (uv_spec fuel) IH (combine xs ys) H rs H1 Hw Hgs Hfun
                (fun a b => combine_in_forallb xs ys a b Hn1 Hn2) Hside' Em) as (A & B & C1 & C2 & C3).
    rewrite Hfst in C1, C3. rewrite Hsnd in C2, C3.
    split; auto. split; auto. simpl. split; [|split].
    + intros Hc. rewrite C1; auto.
    + intros Hc. rewrite C2; auto.
    + intros [Hc|Hc] [Hd|Hd]; try discriminate. apply C3; auto.
Qed.

(* a ground, functional dictionary is solved *)
Lemma term_eqb_refl : forall a, term_eqb a a = true.
Proof.
  induction a as [x|f xs IH] using term_ind'; simpl; [apply N.eqb_refl|].
  apply andb_true_iff. split; [apply sym_eqb_eq; auto|].
  induction xs as [|x xs IHx]; auto. inversion IH; subst. apply andb_true_iff. split; auto.
Qed.

Lemma inst_ground : forall th v, pground v = true -> inst th (E v) = E v.
Proof. intros th v Hg. apply inst_id_on. rewrite (pground_tvars v Hg). intros ? []. Qed.

Lemma tau_ground : forall H x u, wfH H -> functional H -> In (PVar x, u) H -> tau H x = E u.
Proof.
  intros H x u Hw Hfun Hin. unfold tau. destruct (sv_find H (PVar x)) as [u'|] eqn:Ef.
  - rewrite (Hfun _ _ _ (sv_find_var H x u' Hw Ef) Hin). auto.
  - exfalso. eapply sv_find_none_notin; eauto.
Qed.

Lemma sigma_ground : forall H x u n, wfH H -> gstore H -> functional H -> In (PVar x, u) H ->
  sigma_n (S n) H x = E u.
Proof.
  intros H x u n Hw Hgs Hfun Hin. induction n as [|n IH].
  - simpl. apply tau_ground; auto.
  - change (sigma_n (S (S n)) H x) with (inst (tau H) (sigma_n (S n) H x)). rewrite IH.
    apply inst_ground. apply (Hgs _ _ Hin).
Qed.

Lemma sv_visible_incl : forall H p, In p (sv_visible H) -> In p H.
Proof.
  induction H as [|[k u] H IH]; intros p Hin; simpl in *; auto.
  destruct Hin as [Heq|Hin]; auto. apply filter_In in Hin. destruct Hin. auto.
Qed.

Lemma bound_vars_in : forall H n, In n (bound_vars H) -> exists u, In (PVar n, u) H.
Proof.
  intros H n Hin. unfold bound_vars in Hin. apply in_flat_map in Hin. destruct Hin as [[k u] [Hp Hn]].
  simpl in Hn. destruct k as [|m|]; try contradiction. destruct Hn as [Hn|[]]. subst m.
  exists u. apply sv_visible_incl. auto.
Qed.

Lemma filter_all : forall (A : Type) (f : A -> bool) l, (forall a, In a l -> f a = true) -> filter f l = l.
Proof.
  induction l as [|a l IH]; intros Hf; simpl; auto. rewrite (Hf a) by (left; auto). f_equal. apply IH.
  intros; apply Hf; right; auto.
Qed.

Lemma step_safe_ground : forall H safe, wfH H -> gstore H -> functional H -> step_safe H safe = bound_vars H.
Proof.
  intros H safe Hw Hgs Hfun. unfold step_safe. apply filter_all. intros n Hn.
  destruct (bound_vars_in H n Hn) as [u Hin]. rewrite (tau_ground H n u Hw Hfun Hin).
  rewrite (pground_tvars u (Hgs _ _ Hin)). auto.
Qed.

Lemma ground_solved : forall H, wfH H -> gstore H -> functional H -> solved H = true.
Proof.
  intros H Hw Hgs Hfun. unfold solved. apply andb_true_iff. split.
  - unfold acyclic. destruct H as [|p H]; [reflexivity|].
    set (H0 := p :: H) in *. change (length H0) with (S (length H)). simpl iter_safe.
    rewrite (step_safe_ground H0 [] Hw Hgs Hfun).
    assert (Hit : forall k, iter_safe k H0 (bound_vars H0) = bound_vars H0).
    { induction k; simpl; auto. rewrite (step_safe_ground H0 _ Hw Hgs Hfun). auto. }
    rewrite Hit. apply forallb_forall. intros n Hn. unfold memN. apply existsb_exists. exists n. split; auto.
    apply N.eqb_refl.
  - apply forallb_forall. intros [k u] Hin. simpl.
    destruct (Hw _ _ Hin) as [[x Hk] _]. subst k. unfold sigma.
    destruct H as [|p H]; [contradiction|].
    pose proof (sigma_ground (p :: H) x u (length H) Hw Hgs Hfun Hin) as Hsg.
    change (inst (sigma_n (length (p :: H)) (p :: H)) (E (PVar x))) with (sigma_n (S (length H)) (p :: H) x).
    rewrite Hsg. rewrite (inst_ground _ u (Hgs _ _ Hin)). apply term_eqb_refl.
Qed.

(* a-priori class inside the guard: if one of the two terms is ground, a successful run always ends with a
   solved dictionary, so the correctness theorems apply without looking at the result *)
Theorem unify_value_one_side_ground_solved : forall fuel s t r H, nonone s = true -> nonone t = true ->
  pground s = true \/ pground t = true ->
  unify_value fuel s t [] = Ret r H -> solved H = true.
Proof.
  intros fuel s t r H Hs Ht Hg Hrun.
  assert (Hside : gn s \/ gn t) by (destruct Hg; [left | right]; right; auto).
  assert (G0 : gstore []) by (intros k u []).
  assert (F0 : functional []) by (intros k u u' []).
  destruct (uv_gspec fuel s t [] r H wfH_nil G0 F0 (nonone_wfv _ Hs) (nonone_wfv _ Ht) Hside Hrun) as (A & B & _).
  destruct (run_facts fuel s t r H Hs Ht Hrun) as (Hw & _).
  apply ground_solved; auto.
Qed.

Theorem unify_value_one_side_ground_correct : forall fuel s t, nonone s = true -> nonone t = true ->
  pground s = true \/ pground t = true ->
  unify_value fuel s t [] <> OutOfFuel ->
  (is_raise (unify_value fuel s t []) = true <-> mgu (E s) (E t) = None) /\
  (forall r H, unify_value fuel s t [] = Ret r H ->
     unifies (sigma H) (E s) (E t) /\ resolve H r = resolve H s /\
     (forall th, unifies th (E s) (E t) -> forall u, inst th (inst (sigma H) u) = inst th u)).
Proof.
  intros fuel s t Hs Ht Hg Hfuel. split.
  - apply unify_value_fails_iff; auto.
    destruct (unify_value fuel s t []) as [r H|e|] eqn:Hrun; simpl; auto.
    apply (unify_value_one_side_ground_solved fuel s t r H Hs Ht Hg Hrun).
  - intros r H Hrun. apply (unify_value_solved_mgu fuel s t r H Hs Ht Hrun).
    apply (unify_value_one_side_ground_solved fuel s t r H Hs Ht Hg Hrun).
Qed.
