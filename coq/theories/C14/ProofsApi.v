(* C14 — what =/2, \=/2 and a clause-head call return, in terms of mgu. *)
From Coq Require Import NArith ZArith List Bool Lia.
From PL.C14 Require Import ModelUnify ProofsUnify.
Import ListNotations.

Lemma neq_builtin_iff : forall s t, neq_builtin s t = true <-> ~ unifiable s t.
Proof.
  intros s t. unfold neq_builtin. rewrite <- mgu_none_iff.
  destruct (mgu s t); split; congruence.
Qed.

Lemma neq_builtin_mgu : forall s t, neq_builtin s t = true <-> mgu s t = None.
Proof. intros s t. unfold neq_builtin. destruct (mgu s t); split; congruence. Qed.

Lemma eq_builtin_none_iff : forall s t, eq_builtin s t = None <-> ~ unifiable s t.
Proof.
  intros s t. unfold eq_builtin. rewrite <- mgu_none_iff.
  destruct (mgu s t); split; congruence.
Qed.

Lemma eq_builtin_neq : forall s t, neq_builtin s t = true <-> eq_builtin s t = None.
Proof. intros. rewrite neq_builtin_iff, eq_builtin_none_iff. tauto. Qed.

(* on success the answer is a common instance of both sides, and every common
   instance obtained from one substitution is an instance of the answer *)
Lemma eq_builtin_some : forall s t a, eq_builtin s t = Some a ->
  (exists sg, a = inst sg s /\ a = inst sg t) /\
  (forall th, inst th s = inst th t -> inst th a = inst th s).
Proof.
  intros s t a H. unfold eq_builtin in H. destruct (mgu s t) as [sg|] eqn:E; [|discriminate].
  inversion H; subst. split.
  - exists (as_fun sg). rewrite <- !apply_inst. split; auto. eapply mgu_sound; eauto.
  - intros th U. eapply mgu_absorbs; eauto.
Qed.

(* ---------------- clause-head call ----------------- *)
Lemma max_var_ge : forall t v, In v (tvars t) -> (v <= max_var t)%N.
Proof.
  intros t v. unfold max_var. induction (tvars t) as [|a l IH]; simpl; intros H; [destruct H|].
  destruct H as [->|H]; [lia|]. specialize (IH H). lia.
Qed.

Definition glue (k : N) (th1 th2 : N -> term) : N -> term :=
  fun v => if (v <=? k)%N then th1 v else th2 (v - N.succ k)%N.

Lemma glue_call : forall t th1 th2, inst (glue (max_var t) th1 th2) t = inst th1 t.
Proof.
  intros. apply inst_ext_in. intros v Hv. unfold glue.
  apply max_var_ge in Hv. destruct (N.leb_spec v (max_var t)); auto. lia.
Qed.

Lemma glue_head : forall call head th1 th2,
  inst (glue (max_var call) th1 th2) (rename_apart call head) = inst th2 head.
Proof.
  intros. unfold rename_apart. rewrite inst_comp. apply inst_ext. intros v. simpl.
  unfold glue. destruct (N.leb_spec (v + N.succ (max_var call)) (max_var call)); [lia|].
  f_equal. lia.
Qed.

Lemma call_fact_some : forall call head a, call_fact call head = Some a ->
  (exists r1 r2, a = inst r1 call /\ a = inst r2 head) /\
  (forall th1 th2, inst th1 call = inst th2 head -> exists de, inst de a = inst th1 call).
Proof.
  intros call head a H. unfold call_fact in H.
  destruct (mgu call (rename_apart call head)) as [sg|] eqn:E; [|discriminate].
  inversion H; subst. split.
  - exists (as_fun sg). exists (fun v => inst (as_fun sg) (TVar (v + N.succ (max_var call))%N)).
    split; [apply apply_inst|]. rewrite (mgu_sound _ _ _ E). rewrite apply_inst.
    unfold rename_apart. rewrite inst_comp. reflexivity.
  - intros th1 th2 U. exists (glue (max_var call) th1 th2).
    rewrite (mgu_absorbs _ _ _ E).
    + apply glue_call.
    + unfold unifies. rewrite glue_call, glue_head. auto.
Qed.

Lemma call_fact_none_iff : forall call head,
  call_fact call head = None <-> ~ exists th1 th2, inst th1 call = inst th2 head.
Proof.
  intros call head. unfold call_fact.
  destruct (mgu call (rename_apart call head)) as [sg|] eqn:E; split; intros H; try discriminate; auto.
  - exfalso. apply H. exists (as_fun sg).
    exists (fun v => inst (as_fun sg) (TVar (v + N.succ (max_var call))%N)).
    rewrite <- apply_inst. rewrite (mgu_sound _ _ _ E). rewrite apply_inst.
    unfold rename_apart. rewrite inst_comp. reflexivity.
  - intros [th1 [th2 U]]. apply mgu_none_iff in E. apply E.
    exists (glue (max_var call) th1 th2). unfold unifies. rewrite glue_call, glue_head. auto.
Qed.

Lemma mgu_inst_eq : forall s t, mgu_inst s t s = eq_builtin s t.
Proof. reflexivity. Qed.

(* bindings returned to a caller: the instance of any term u of the caller
   under the unifier; it is fixed by every unifier of s and t *)
Lemma mgu_inst_some : forall s t u a, mgu_inst s t u = Some a ->
  (exists sg, unifies sg s t /\ a = inst sg u) /\
  (forall th, unifies th s t -> inst th a = inst th u).
Proof.
  intros s t u a H. unfold mgu_inst in H. destruct (mgu s t) as [sg|] eqn:E; [|discriminate].
  inversion H; subst. split.
  - exists (as_fun sg). split; [|apply apply_inst].
    unfold unifies. rewrite <- !apply_inst. eapply mgu_sound; eauto.
  - intros th U. eapply mgu_absorbs; eauto.
Qed.

Lemma mgu_inst_none_iff : forall s t u, mgu_inst s t u = None <-> ~ unifiable s t.
Proof.
  intros s t u. unfold mgu_inst. rewrite <- mgu_none_iff. destruct (mgu s t); split; congruence.
Qed.
