(* C14 — defects of problog/engine_unify.py reproduced on the TRANSLATED code (GenUnify.v) by computation.
   Not imported by Props.v / PropsImpl.v.  Each `..._refuted` shows that the statement one would like to prove
   without the `solved` guard (or for unify_call_head at all) is false for the code as it is. *)
From Coq Require Import NArith ZArith List Bool.
From PL.C14 Require Import ModelUnify ModelImplUnify GenUnify.
Import ListNotations.

Definition X := PVar 0.   (* Python -1 *)
Definition Y := PVar 2.   (* Python -2 *)
Definition Z := PVar 4.   (* Python -3 *)
Definition a_ := PTerm (SAtom 0) [].
Definition b_ := PTerm (SAtom 3) [].
Definition f1 u := PTerm (SAtom 2) [u].
Definition g2 u v := PTerm (SAtom 1) [u; v].
Definition f3 u v w := PTerm (SAtom 1) [u; v; w].
Definition h3 u v w := PTerm (SAtom 5) [u; v; w].
Definition is_ret {St A} (o : res St A) : bool := match o with Ret _ _ => true | _ => false end.

(* eq-/neq-indirect-occurs-check-missed:  f(X,Y,X) = f(Y,g(Z),Z)  has no unifier, the code succeeds
   (so `=` succeeds and `\=` fails) with the unresolved answer f(X,g(Z),g(Z)); the dictionary is cyclic. *)
Theorem unify_value_success_implies_unifiable_refuted :
  exists s t r H, nonone s = true /\ nonone t = true /\
    unify_value 50 s t [] = Ret r H /\ mgu (E s) (E t) = None /\ solved H = false /\
    r = f3 X (f1 Z) (f1 Z).
Proof. exists (f3 X Y X), (f3 Y (f1 Z) Z). eexists. eexists. vm_compute. repeat split; reflexivity. Qed.

(* the second minimal witness:  g(X,X) = g(Y,f(Y)) *)
Theorem unify_value_no_indirect_occurs_check_refuted :
  exists s t, is_ret (unify_value 50 s t []) = true /\ mgu (E s) (E t) = None.
Proof. exists (g2 X X), (g2 Y (f1 Y)). vm_compute. split; reflexivity. Qed.

(* the variable/variable branch has no occurs check at all:  f(Y,X) = f(g(X),Y)  records X := g(X) *)
Theorem unify_value_var_var_branch_no_occurs_check_refuted :
  exists s t r H, unify_value 50 s t [] = Ret r H /\ sv_get H X = f1 X /\ mgu (E s) (E t) = None.
Proof. exists (g2 Y X), (g2 (f1 X) Y). eexists. eexists. vm_compute. repeat split; reflexivity. Qed.

(* indirect-occurs-check-unbounded-recursion:  h(g(g(Y,Y),f(X)),f(Y),X) = h(g(g(Y,Y),Y),X,Y)  (Y = f(X), X = f(Y)):
   the recursion follows the cyclic bindings for ever -- whatever depth is allowed, it is exhausted *)
Theorem unify_value_terminates_refuted :
  exists s t, unify_value 2000 s t [] = OutOfFuel /\ mgu (E s) (E t) = None.
Proof.
  exists (h3 (g2 (g2 Y Y) (f1 X)) (f1 Y) X), (h3 (g2 (g2 Y Y) Y) X Y). vm_compute. split; reflexivity.
Qed.

(* eq-bindings-not-propagated:  f(X,Y) = f(Y,a)  returns f(X,a) although X is bound to a in the dictionary
   (the builtins =/2 and \=/2 throw the dictionary away) *)
Theorem unify_value_result_is_resolved_refuted :
  exists s t r H, unify_value 50 s t [] = Ret r H /\ solved H = true /\ E r <> resolve H r /\
    r = g2 X a_ /\ resolve H r = E (g2 a_ a_).
Proof.
  exists (g2 X Y), (g2 Y a_). eexists. eexists. vm_compute. repeat split; try reflexivity. discriminate.
Qed.

(* head-repeated-variable-clash-missed:  clause head p(f(Z),f(b),Z) called as p(Y,Y,a).
   Head variable Z is slot 0 of the clause context (PVar 1), the call variable Y is Python -1 (PVar 0).
   The code answers Z = a (context [a]) although Y = f(Z), Y = f(b) force Z = b: the binding Z := b was recorded in
   source_values under the HEAD variable's number and never looked at again. *)
Theorem unify_call_head_clash_detected_refuted :
  exists call head ctx res tc sv,
    unify_call_head 50 call head ctx = Ret res (tc, sv) /\
    res = [a_] /\ sv_get sv (PVar 1) = b_ /\
    (* reference: call and head (renamed apart: Z -> variable 7) have no common instance *)
    mgu (TApp (SAtom 9) (map E call)) (TApp (SAtom 9) [TApp (SAtom 2) [TVar 7]; TApp (SAtom 2) [E b_]; TVar 7]) = None.
Proof.
  exists [PVar 0; PVar 0; a_], [f1 (PVar 1); f1 b_; PVar 1], [PNone]. eexists. eexists. eexists.
  vm_compute. repeat split; reflexivity.
Qed.

(* head-indirect-occurs-check-missed:  head p(X,f(X)) called as p(Y,Y): succeeds, context X := Y (one-pass substitution) *)
Theorem unify_call_head_occurs_check_refuted :
  exists call head ctx, is_ret (unify_call_head 50 call head ctx) = true /\
    mgu (TApp (SAtom 9) (map E call)) (TApp (SAtom 9) [TVar 7; TApp (SAtom 2) [TVar 7]]) = None.
Proof. exists [PVar 0; PVar 0], [PVar 1; f1 (PVar 1)], [PNone]. vm_compute. split; reflexivity. Qed.

(* bindings not propagated in the returned context (substitute_all is ONE pass over the dictionary):
   head p(Z,Z,1,W) called as p(X,Y,X,Y): W comes back as X although X := 1 is in the dictionary *)
Theorem unify_call_head_result_is_resolved_refuted :
  exists call head ctx res tc sv,
    unify_call_head 50 call head ctx = Ret res (tc, sv) /\
    res = [PTerm (SInt 1) []; PVar 0] /\ sv_get sv (PVar 0) = PTerm (SInt 1) [].
Proof.
  exists [PVar 0; PVar 2; PVar 0; PVar 2], [PVar 1; PVar 1; PTerm (SInt 1) []; PVar 3], [PNone; PNone].
  eexists. eexists. eexists. vm_compute. repeat split; reflexivity.
Qed.
