(* C14 — proofs about ModelUnify: soundness, generality, completeness,
   fuel sufficiency, idempotence.  No axioms. *)
From Coq Require Import NArith ZArith List Bool Lia.
From PL.C14 Require Import ModelUnify.
Import ListNotations.

(* ------------------------------------------------------------------ *)
(* nested induction principle *)
Section TermInd.
  Variable P : term -> Prop.
  Hypothesis Hvar : forall v, P (TVar v).
  Hypothesis Happ : forall f args, Forall P args -> P (TApp f args).
  Fixpoint term_ind' (t : term) : P t :=
    match t with
    | TVar v => Hvar v
    | TApp f args =>
        Happ f args
          ((fix go (l : list term) : Forall P l :=
              match l with
              | [] => Forall_nil P
              | a :: l' => Forall_cons a (term_ind' a) (go l')
              end) args)
    end.
End TermInd.

Lemma sym_eqb_eq : forall a b, sym_eqb a b = true <-> a = b.
Proof.
  intros [x|x|x|x] [y|y|y|y]; simpl; split; intros H; try discriminate; try congruence.
  - apply N.eqb_eq in H; congruence.
  - inversion H; apply N.eqb_refl.
  - apply Z.eqb_eq in H; congruence.
  - inversion H; apply Z.eqb_refl.
  - apply N.eqb_eq in H; congruence.
  - inversion H; apply N.eqb_refl.
  - apply N.eqb_eq in H; congruence.
  - inversion H; apply N.eqb_refl.
Qed.

(* ------------------------------------------------------------------ *)
(* inst *)
Lemma inst_ext_in : forall t th th',
  (forall v, In v (tvars t) -> th v = th' v) -> inst th t = inst th' t.
Proof.
  induction t as [v|f args IH] using term_ind'; intros th th' H; simpl.
  - apply H. simpl. auto.
  - f_equal. apply map_ext_in. intros a Ha.
    rewrite Forall_forall in IH. apply IH; auto.
    intros v Hv. apply H. simpl. apply in_flat_map. exists a; auto.
Qed.

Lemma inst_ext : forall t th th', (forall v, th v = th' v) -> inst th t = inst th' t.
Proof. intros. apply inst_ext_in. auto. Qed.

Lemma inst_comp : forall t th rho,
  inst th (inst rho t) = inst (fun v => inst th (rho v)) t.
Proof.
  induction t as [v|f args IH] using term_ind'; intros; simpl; auto.
  f_equal. rewrite map_map. apply map_ext_in. intros a Ha.
  rewrite Forall_forall in IH. apply IH; auto.
Qed.

Lemma inst_TVar : forall t, inst TVar t = t.
Proof.
  induction t as [v|f args IH] using term_ind'; simpl; auto.
  f_equal. rewrite <- (map_id args) at 2. apply map_ext_in.
  intros a Ha. rewrite Forall_forall in IH. auto.
Qed.

Lemma inst_id_on : forall t th, (forall v, In v (tvars t) -> th v = TVar v) -> inst th t = t.
Proof.
  intros. rewrite <- (inst_TVar t) at 2. apply inst_ext_in. auto.
Qed.

Lemma inst_fixed_vars : forall t th, inst th t = t -> forall v, In v (tvars t) -> th v = TVar v.
Proof.
  induction t as [x|f args IH] using term_ind'; intros th H v Hv; simpl in *.
  - destruct Hv as [->|[]]. auto.
  - apply in_flat_map in Hv. destruct Hv as [a [Ha Hv]].
    rewrite Forall_forall in IH. apply (IH a Ha th); auto.
    injection H as H1.
    assert (G : forall l, map (inst th) l = l -> forall a, In a l -> inst th a = a).
    { induction l as [|b l IHl]; simpl; intros E c Hc; [destruct Hc|].
      inversion E as [[E1 E2]]. destruct Hc as [<-|Hc]; [exact E1|]. apply IHl; auto. }
    apply (G args H1 a Ha).
Qed.

Lemma occurs_In : forall x t, occurs x t = true <-> In x (tvars t).
Proof.
  intros x. induction t as [v|f args IH] using term_ind'; simpl.
  - rewrite N.eqb_eq. split; [intros ->; auto | intros [->|[]]; auto].
  - rewrite existsb_exists, in_flat_map. rewrite Forall_forall in IH.
    split; intros [a [Ha H]]; exists a; split; auto; apply IH; auto.
Qed.

Lemma occurs_false_notin : forall x t, occurs x t = false -> ~ In x (tvars t).
Proof. intros x t H Hin. apply occurs_In in Hin. congruence. Qed.

Lemma subst1_notin : forall x u t, occurs x t = false -> subst1 x u t = t.
Proof.
  intros x u t H. unfold subst1. apply inst_id_on. intros v Hv.
  unfold bind1. destruct (N.eqb_spec v x); auto. subst.
  exfalso. eapply occurs_false_notin; eauto.
Qed.

Lemma inst_subst1 : forall th x u t,
  th x = inst th u -> inst th (subst1 x u t) = inst th t.
Proof.
  intros th x u t H. unfold subst1. rewrite inst_comp. apply inst_ext.
  intros v. unfold bind1. destruct (N.eqb_spec v x); subst; auto.
Qed.

Lemma tvars_subst1 : forall x u t v,
  In v (tvars (subst1 x u t)) -> (In v (tvars t) /\ v <> x) \/ In v (tvars u).
Proof.
  intros x u. induction t as [y|f args IH] using term_ind'; intros v Hv.
  - unfold subst1, bind1 in Hv. simpl in Hv. destruct (N.eqb_spec y x).
    + right; auto.
    + simpl in Hv. destruct Hv as [->|[]]. left. simpl. auto.
  - unfold subst1 in Hv. simpl in Hv. apply in_flat_map in Hv.
    destruct Hv as [a' [Ha' Hv]]. apply in_map_iff in Ha'.
    destruct Ha' as [a [<- Ha]]. rewrite Forall_forall in IH.
    destruct (IH a Ha v Hv) as [[H1 H2]|H1]; auto.
    left. split; auto. simpl. apply in_flat_map. exists a; auto.
Qed.

(* ------------------------------------------------------------------ *)
(* sizes and the occurs check *)
Lemma list_sum_in : forall (A : Type) (f : A -> nat) l a, In a l -> f a <= list_sum (map f l).
Proof.
  induction l as [|b l IH]; simpl; intros a H; [destruct H|].
  destruct H as [->|H]; [lia|]. specialize (IH a H). lia.
Qed.

Lemma occurs_size : forall th x t, occurs x t = true -> tsize (th x) <= tsize (inst th t).
Proof.
  intros th x. induction t as [v|f args IH] using term_ind'; simpl; intros H.
  - apply N.eqb_eq in H. subst. lia.
  - apply existsb_exists in H. destruct H as [a [Ha H]].
    rewrite Forall_forall in IH. specialize (IH a Ha H).
    rewrite map_map.
    pose proof (list_sum_in _ (fun t => tsize (inst th t)) args a Ha). simpl in H0. lia.
Qed.

Lemma occurs_app_no_unifier : forall th x f args,
  occurs x (TApp f args) = true -> th x <> inst th (TApp f args).
Proof.
  intros th x f args H E. simpl in H. apply existsb_exists in H.
  destruct H as [a [Ha H]]. pose proof (occurs_size th x a H) as H1.
  rewrite E in H1. simpl in H1. rewrite map_map in H1.
  pose proof (list_sum_in _ (fun t => tsize (inst th t)) args a Ha). simpl in H0. lia.
Qed.

(* ------------------------------------------------------------------ *)
(* apply *)
Lemma apply_app : forall s f args, apply s (TApp f args) = TApp f (map (apply s) args).
Proof.
  induction s as [|[x u] s IH]; intros; simpl.
  - rewrite map_id. auto.
  - unfold subst1 at 1. simpl. rewrite IH, map_map. auto.
Qed.

Lemma apply_inst : forall s t, apply s t = inst (as_fun s) t.
Proof.
  induction s as [|[x u] s IH]; intros t.
  - simpl. symmetry. apply inst_TVar.
  - simpl. rewrite IH. unfold subst1. rewrite inst_comp. apply inst_ext.
    intros v. unfold as_fun. simpl. rewrite IH. reflexivity.
Qed.

(* ------------------------------------------------------------------ *)
(* unifiers *)
Definition unifies (th : N -> term) (s t : term) : Prop := inst th s = inst th t.
Definition unifies_all (th : N -> term) (l : list eqn) : Prop :=
  forall s t, In (s, t) l -> inst th s = inst th t.
Definition unifiable (s t : term) : Prop := exists th, unifies th s t.

Lemma map_eq_combine : forall (A B : Type) (F : A -> B) (l1 l2 : list A),
  length l1 = length l2 ->
  (map F l1 = map F l2 <-> forall a b, In (a, b) (combine l1 l2) -> F a = F b).
Proof.
  induction l1 as [|a l1 IH]; destruct l2 as [|b l2]; simpl; intros L; try discriminate.
  - split; auto. intros _ ? ? [].
  - injection L as L. specialize (IH l2 L). split.
    + intros E. inversion E. intros a' b' [P|P]; [inversion P; subst; auto|]. apply IH; auto.
    + intros H. f_equal; auto. apply IH. auto.
Qed.

Definition Spec (l : list eqn) (r : result) : Prop :=
  match r with
  | Unifier sg =>
      (forall s t, In (s, t) l -> apply sg s = apply sg t) /\
      (forall th, unifies_all th l -> forall u, inst th (apply sg u) = inst th u)
  | NotUnifiable => forall th, ~ unifies_all th l
  | OutOfFuel => True
  end.

Lemma Spec_drop_trivial : forall t l r, Spec l r -> Spec ((t, t) :: l) r.
Proof.
  intros t l [sg| |]; simpl; auto.
  - intros [H1 H2]. split.
    + intros s t' [E|H]; [inversion E; subst; auto | auto].
    + intros th H. apply H2. intros s t' Hin. apply H. simpl. auto.
  - intros H th H'. apply (H th). intros s t' Hin. apply H'. simpl. auto.
Qed.

Lemma Spec_swap : forall s t l r, Spec ((s, t) :: l) r -> Spec ((t, s) :: l) r.
Proof.
  intros s t l [sg| |]; simpl; auto.
  - intros [H1 H2]. split.
    + intros a b [E|H]; [inversion E; subst; symmetry; apply H1; auto | apply H1; auto].
    + intros th H. apply H2. intros a b [E|Hin].
      * inversion E; subst. symmetry. apply H. simpl. auto.
      * apply H. simpl. auto.
  - intros H th H'. apply (H th). intros a b [E|Hin].
    + inversion E; subst. symmetry. apply H'. simpl. auto.
    + apply H'. simpl. auto.
Qed.

Lemma Spec_decompose : forall f ss ts l r,
  length ss = length ts ->
  Spec (combine ss ts ++ l) r -> Spec ((TApp f ss, TApp f ts) :: l) r.
Proof.
  intros f ss ts l r L. destruct r as [sg| |]; simpl; auto.
  - intros [H1 H2]. split.
    + intros a b [E|H].
      * inversion E; subst. rewrite !apply_app. f_equal.
        apply map_eq_combine; auto. intros. apply H1. apply in_or_app. auto.
      * apply H1. apply in_or_app. auto.
    + intros th H. apply H2. intros a b Hin. apply in_app_or in Hin. destruct Hin as [Hin|Hin].
      * assert (E : inst th (TApp f ss) = inst th (TApp f ts)) by (apply H; simpl; auto).
        simpl in E. inversion E as [E']. eapply map_eq_combine in E'; eauto.
      * apply H. simpl. auto.
  - intros H th H'. apply (H th). intros a b Hin. apply in_app_or in Hin. destruct Hin as [Hin|Hin].
    + assert (E : inst th (TApp f ss) = inst th (TApp f ts)) by (apply H'; simpl; auto).
      simpl in E. inversion E as [E']. eapply map_eq_combine in E'; eauto.
    + apply H'. simpl. auto.
Qed.

Lemma in_esubst : forall x u l a b,
  In (a, b) l -> In (subst1 x u a, subst1 x u b) (esubst x u l).
Proof.
  intros. unfold esubst. apply in_map_iff. exists (a, b). auto.
Qed.

Lemma unifies_all_esubst : forall th x u l,
  th x = inst th u -> unifies_all th l -> unifies_all th (esubst x u l).
Proof.
  intros th x u l E H a b Hin. unfold esubst in Hin. apply in_map_iff in Hin.
  destruct Hin as [[a0 b0] [P Hin]]. simpl in P. inversion P; subst.
  rewrite !inst_subst1; auto.
Qed.

Lemma elim_spec : forall rec x t l,
  (forall l0, Spec l0 (rec l0)) -> t <> TVar x ->
  Spec ((TVar x, t) :: l) (elim rec x t l).
Proof.
  intros rec x t l Hrec Hne. unfold elim. destruct (occurs x t) eqn:Ho.
  - (* occurs check fails: no unifier at all *)
    simpl. intros th H. assert (E : inst th (TVar x) = inst th t) by (apply H; simpl; auto).
    destruct t as [y|f args].
    + simpl in Ho. apply N.eqb_eq in Ho. subst. congruence.
    + simpl in E. eapply occurs_app_no_unifier; eauto.
  - specialize (Hrec (esubst x t l)). destruct (rec (esubst x t l)) as [sg| |]; simpl in *; auto.
    + destruct Hrec as [H1 H2]. split.
      * intros a b [E|Hin].
        -- inversion E; subst. f_equal. rewrite (subst1_notin x b b Ho).
           unfold subst1, bind1. simpl. rewrite N.eqb_refl. auto.
        -- apply H1. apply in_esubst. auto.
      * intros th H u.
        assert (E : th x = inst th t) by (apply (H (TVar x) t); simpl; auto).
        rewrite H2.
        -- apply inst_subst1. auto.
        -- apply unifies_all_esubst; auto. intros a b Hin. apply H. simpl. auto.
    + intros th H. apply (Hrec th).
      assert (E : th x = inst th t) by (apply (H (TVar x) t); simpl; auto).
      apply unifies_all_esubst; auto. intros a b Hin. apply H. simpl. auto.
Qed.

Lemma inner_spec : forall rec, (forall l, Spec l (rec l)) ->
  forall n l, Spec l (inner rec n l).
Proof.
  intros rec Hrec. induction n as [|n IH]; intros l; [exact I|].
  destruct l as [|[s t] l']; [simpl; split; [intros ? ? []|auto]|].
  destruct s as [x|f ss], t as [y|g ts]; cbn [inner].
  - destruct (N.eqb_spec x y).
    + subst. apply Spec_drop_trivial. apply IH.
    + apply elim_spec; auto. congruence.
  - apply elim_spec; auto. congruence.
  - apply Spec_swap. apply elim_spec; auto. congruence.
  - destruct (sym_eqb f g && Nat.eqb (length ss) (length ts)) eqn:E.
    + apply andb_true_iff in E. destruct E as [E1 E2].
      apply sym_eqb_eq in E1. apply Nat.eqb_eq in E2. subst.
      apply Spec_decompose; auto.
    + simpl. intros th H.
      assert (E' : inst th (TApp f ss) = inst th (TApp g ts)) by (apply H; simpl; auto).
      simpl in E'. inversion E' as [[E1 E2]].
      apply (f_equal (@length term)) in E2. rewrite !map_length in E2.
      apply andb_false_iff in E. destruct E as [E|E].
      * assert (sym_eqb g g = true) by (apply sym_eqb_eq; auto). congruence.
      * rewrite E2, Nat.eqb_refl in E. discriminate.
Qed.

Lemma outer_eq : forall n l,
  outer n l = inner (match n with O => fun _ => OutOfFuel | S n' => outer n' end) (S (esize l)) l.
Proof. destruct n; reflexivity. Qed.

Lemma outer_spec : forall n l, Spec l (outer n l).
Proof.
  induction n as [|n IH]; intros l; rewrite outer_eq; apply inner_spec; auto.
  intros; exact I.
Qed.

(* ------------------------------------------------------------------ *)
(* fuel *)
Lemma esize_app : forall l1 l2, esize (l1 ++ l2) = esize l1 + esize l2.
Proof. intros. unfold esize. rewrite map_app, list_sum_app. auto. Qed.

Lemma esize_combine : forall ss ts,
  esize (combine ss ts) <= list_sum (map tsize ss) + list_sum (map tsize ts).
Proof.
  unfold esize. induction ss as [|a ss IH]; destruct ts as [|b ts]; simpl; try lia.
  specialize (IH ts). lia.
Qed.

Lemma tsize_pos : forall t, 1 <= tsize t.
Proof. destruct t; simpl; lia. Qed.

Lemma evars_app : forall l1 l2, evars (l1 ++ l2) = evars l1 ++ evars l2.
Proof. intros. unfold evars. apply flat_map_app. Qed.

Lemma evars_combine : forall ss ts v,
  In v (evars (combine ss ts)) -> In v (flat_map tvars ss) \/ In v (flat_map tvars ts).
Proof.
  induction ss as [|a ss IH]; destruct ts as [|b ts]; simpl; intros v H; auto.
  unfold evars in H. simpl in H. rewrite !in_app_iff in H. rewrite !in_app_iff.
  destruct H as [[H|H]|H]; auto. destruct (IH ts v H); auto.
Qed.

Lemma evars_esubst : forall x u l v,
  In v (evars (esubst x u l)) -> (In v (evars l) /\ v <> x) \/ In v (tvars u).
Proof.
  intros x u l v H. unfold evars, esubst in H. apply in_flat_map in H.
  destruct H as [e [He H]]. apply in_map_iff in He. destruct He as [[a b] [<- He]].
  simpl in H. apply in_app_or in H.
  assert (G : forall w, In w (tvars a) \/ In w (tvars b) -> In w (evars l)).
  { intros w Hw. unfold evars. apply in_flat_map. exists (a, b). split; auto.
    simpl. apply in_or_app. auto. }
  destruct H as [H|H]; apply tvars_subst1 in H; destruct H as [[H1 H2]|H1]; auto.
Qed.

Lemma remove_length_lt : forall (x : N) vs, In x vs -> length (remove N.eq_dec x vs) < length vs.
Proof.
  intros x vs H. apply remove_length_lt. auto.
Qed.

Definition has_fuel (r : result) : Prop := r <> OutOfFuel.

Lemma elim_fuel : forall rec vs x t l,
  (forall l2 y, In y vs -> incl (evars l2) (remove N.eq_dec y vs) -> has_fuel (rec l2)) ->
  incl (evars ((TVar x, t) :: l)) vs ->
  has_fuel (elim rec x t l).
Proof.
  intros rec vs x t l Hrec Hincl. unfold elim, has_fuel.
  destruct (occurs x t) eqn:Ho; [discriminate|].
  assert (F : has_fuel (rec (esubst x t l))).
  { apply (Hrec _ x).
    - apply Hincl. unfold evars. simpl. auto.
    - intros v Hv. apply evars_esubst in Hv. apply in_in_remove.
      + destruct Hv as [[_ H]|H]; auto. intros ->. eapply occurs_false_notin; eauto.
      + apply Hincl. unfold evars in *. simpl. destruct Hv as [[H _]|H].
        * right. apply in_or_app. right. exact H.
        * right. apply in_or_app. left. exact H. }
  unfold has_fuel in F. destruct (rec (esubst x t l)); congruence.
Qed.

Lemma inner_fuel : forall rec vs,
  (forall l2 y, In y vs -> incl (evars l2) (remove N.eq_dec y vs) -> has_fuel (rec l2)) ->
  forall n l, esize l < n -> incl (evars l) vs -> has_fuel (inner rec n l).
Proof.
  intros rec vs Hrec. induction n as [|n IH]; intros l Hs Hi; [lia|].
  destruct l as [|[s t] l']; [simpl; unfold has_fuel; discriminate|].
  assert (Hi' : incl (evars l') vs).
  { intros v Hv. apply Hi. unfold evars in *. simpl. apply in_or_app. auto. }
  assert (Hs' : esize l' + tsize s + tsize t < S n).
  { unfold esize in *. simpl in Hs. lia. }
  clear Hs. rename Hs' into Hs.
  destruct s as [x|f ss], t as [y|g ts]; cbn [inner].
  - destruct (N.eqb_spec x y).
    + apply IH; auto. simpl in Hs. lia.
    + eapply elim_fuel; eauto.
  - eapply elim_fuel; eauto.
  - eapply elim_fuel; eauto.
    intros v Hv. apply Hi. unfold evars in *. simpl in *.
    rewrite !in_app_iff in *. simpl. tauto.
  - destruct (sym_eqb f g && Nat.eqb (length ss) (length ts)); [|unfold has_fuel; discriminate].
    apply IH.
    + rewrite esize_app. pose proof (esize_combine ss ts). simpl in Hs. lia.
    + intros v Hv. rewrite evars_app in Hv. apply in_app_or in Hv. destruct Hv as [Hv|Hv]; auto.
      apply Hi. unfold evars. simpl. apply evars_combine in Hv.
      rewrite !in_app_iff. tauto.
Qed.

Lemma outer_fuel : forall n l vs, incl (evars l) vs -> length vs < n -> has_fuel (outer n l).
Proof.
  induction n as [|n IH]; intros l vs Hi Hl; [lia|].
  rewrite outer_eq. apply (inner_fuel _ vs); auto.
  intros l2 y Hy Hi2. apply (IH l2 (remove N.eq_dec y vs)); auto.
  pose proof (remove_length_lt y vs Hy). lia.
Qed.

Lemma unify_eqns_fuel : forall l, unify_eqns l <> OutOfFuel.
Proof.
  intros l. unfold unify_eqns. apply (outer_fuel _ l (evars l)); auto. apply incl_refl.
Qed.

Lemma unify_eqns_spec : forall l, Spec l (unify_eqns l).
Proof. intros. apply outer_spec. Qed.

(* ------------------------------------------------------------------ *)
(* the theorems about mgu *)
Lemma unifies_all_single : forall th s t, unifies_all th [(s, t)] <-> unifies th s t.
Proof.
  intros. unfold unifies_all, unifies. split.
  - intros H. apply H. simpl. auto.
  - intros H a b [E|[]]. inversion E; subst; auto.
Qed.

Theorem mgu_sound : forall s t sg, mgu s t = Some sg -> apply sg s = apply sg t.
Proof.
  intros s t sg H. unfold mgu in H. pose proof (unify_eqns_spec [(s, t)]) as S.
  destruct (unify_eqns [(s, t)]); try discriminate. inversion H; subst.
  destruct S as [S _]. apply S. simpl. auto.
Qed.

(* strong form of generality: every unifier th factors through sg as th = th o sg *)
Theorem mgu_absorbs : forall s t sg, mgu s t = Some sg ->
  forall th, unifies th s t -> forall u, inst th (apply sg u) = inst th u.
Proof.
  intros s t sg H th U u. unfold mgu in H. pose proof (unify_eqns_spec [(s, t)]) as S.
  destruct (unify_eqns [(s, t)]); try discriminate. inversion H; subst.
  destruct S as [_ S]. apply S. apply unifies_all_single. auto.
Qed.

Theorem mgu_most_general : forall s t sg, mgu s t = Some sg ->
  forall th, unifies th s t -> exists de, forall u, inst th u = inst de (apply sg u).
Proof.
  intros s t sg H th U. exists th. intros u. symmetry. eapply mgu_absorbs; eauto.
Qed.

Theorem mgu_none_not_unifiable : forall s t, mgu s t = None -> ~ unifiable s t.
Proof.
  intros s t H [th U]. unfold mgu in H. pose proof (unify_eqns_spec [(s, t)]) as S.
  pose proof (unify_eqns_fuel [(s, t)]) as F.
  destruct (unify_eqns [(s, t)]); try discriminate; try congruence.
  simpl in S. apply (S th). apply unifies_all_single. auto.
Qed.

Theorem mgu_complete : forall s t, unifiable s t -> exists sg, mgu s t = Some sg.
Proof.
  intros s t U. destruct (mgu s t) as [sg|] eqn:E; eauto.
  exfalso. eapply mgu_none_not_unifiable; eauto.
Qed.

Theorem mgu_some_unifiable : forall s t sg, mgu s t = Some sg -> unifiable s t.
Proof.
  intros s t sg H. exists (as_fun sg). unfold unifies. rewrite <- !apply_inst.
  eapply mgu_sound; eauto.
Qed.

Theorem mgu_none_iff : forall s t, mgu s t = None <-> ~ unifiable s t.
Proof.
  intros s t. split; [apply mgu_none_not_unifiable|].
  intros H. destruct (mgu s t) as [sg|] eqn:E; auto.
  exfalso. apply H. eapply mgu_some_unifiable; eauto.
Qed.

Theorem mgu_idempotent : forall s t sg, mgu s t = Some sg ->
  forall u, apply sg (apply sg u) = apply sg u.
Proof.
  intros s t sg H u.
  transitivity (inst (as_fun sg) (apply sg u)); [apply apply_inst|].
  transitivity (inst (as_fun sg) u); [|symmetry; apply apply_inst].
  eapply mgu_absorbs; eauto. unfold unifies. rewrite <- !apply_inst. eapply mgu_sound; eauto.
Qed.

(* no cyclic binding: a variable that the unifier moves does not occur in any
   image of the unifier (in particular not in its own). *)
Theorem mgu_no_cyclic : forall s t sg, mgu s t = Some sg ->
  forall x y, apply sg (TVar x) <> TVar x -> occurs x (apply sg (TVar y)) = false.
Proof.
  intros s t sg H x y Hx. destruct (occurs x (apply sg (TVar y))) eqn:Ho; auto.
  exfalso. apply Hx. apply occurs_In in Ho.
  pose proof (mgu_idempotent s t sg H (TVar y)) as I.
  rewrite (apply_inst sg (apply sg (TVar y))) in I.
  pose proof (inst_fixed_vars _ _ I x Ho) as Fx. exact Fx.
Qed.

(* the occurs-check clause of the property, at the specification level *)
Theorem occurs_check_not_unifiable : forall x t,
  occurs x t = true -> t <> TVar x -> ~ unifiable (TVar x) t.
Proof.
  intros x t Ho Hne [th U]. unfold unifies in U. destruct t as [y|f args].
  - simpl in Ho. apply N.eqb_eq in Ho. congruence.
  - simpl in U. eapply occurs_app_no_unifier; eauto.
Qed.

Theorem occurs_check_mgu_none : forall x t,
  occurs x t = true -> t <> TVar x -> mgu (TVar x) t = None /\ mgu t (TVar x) = None.
Proof.
  intros x t Ho Hne. split; apply mgu_none_iff; intros [th U].
  - eapply occurs_check_not_unifiable; eauto. exists th; auto.
  - eapply occurs_check_not_unifiable; eauto. exists th. unfold unifies in *. auto.
Qed.
