(* C14 — first-order terms, substitutions and Robinson unification with occurs
   check.  Executable definitions only (no proofs in this file).

   Symbols: an atom, an integer, a float and a string are all *constants*
   (nullary function symbols) of different kinds; a compound term is a symbol
   applied to a non-empty argument list.  Two applications can only unify when
   symbol AND number of arguments agree (ProbLog: `signature` = functor/arity). *)
From Coq Require Import NArith ZArith List Bool.
Import ListNotations.

Inductive sym : Type :=
| SAtom (id : N)      (* atom / functor name, interned by the harness: a and 'a' are the same atom *)
| SInt  (z : Z)       (* integer constant *)
| SFlt  (id : N)      (* float constant, interned by value *)
| SStr  (id : N).     (* string constant "..." *)

Definition sym_eqb (a b : sym) : bool :=
  match a, b with
  | SAtom x, SAtom y => N.eqb x y
  | SInt x, SInt y => Z.eqb x y
  | SFlt x, SFlt y => N.eqb x y
  | SStr x, SStr y => N.eqb x y
  | _, _ => false
  end.

Inductive term : Type :=
| TVar (v : N)
| TApp (f : sym) (args : list term).

(* parallel substitution given as a function *)
Fixpoint inst (th : N -> term) (t : term) : term :=
  match t with
  | TVar v => th v
  | TApp f args => TApp f (map (inst th) args)
  end.

Definition bind1 (x : N) (u : term) : N -> term :=
  fun y => if N.eqb y x then u else TVar y.

Definition subst1 (x : N) (u : term) (t : term) : term := inst (bind1 x u) t.

(* A computed substitution is a list of bindings applied one after the other
   (head first).  `as_fun` turns it into a parallel substitution. *)
Definition subst := list (N * term).

Fixpoint apply (s : subst) (t : term) : term :=
  match s with
  | [] => t
  | (x, u) :: s' => apply s' (subst1 x u t)
  end.

Definition as_fun (s : subst) : N -> term := fun v => apply s (TVar v).

Fixpoint occurs (x : N) (t : term) : bool :=
  match t with
  | TVar y => N.eqb x y
  | TApp _ args => existsb (occurs x) args
  end.

Fixpoint tsize (t : term) : nat :=
  match t with
  | TVar _ => 1
  | TApp _ args => S (list_sum (map tsize args))
  end.

Fixpoint tvars (t : term) : list N :=
  match t with
  | TVar v => [v]
  | TApp _ args => flat_map tvars args
  end.

Definition eqn := (term * term)%type.

Definition esize (l : list eqn) : nat :=
  list_sum (map (fun e : eqn => tsize (fst e) + tsize (snd e)) l).

Definition evars (l : list eqn) : list N :=
  flat_map (fun e : eqn => tvars (fst e) ++ tvars (snd e)) l.

Definition esubst (x : N) (u : term) (l : list eqn) : list eqn :=
  map (fun e : eqn => (subst1 x u (fst e), subst1 x u (snd e))) l.

Inductive result : Type :=
| Unifier (s : subst)
| NotUnifiable
| OutOfFuel.

(* variable elimination: x := t, continue with `rec` on the substituted rest *)
Definition elim (rec : list eqn -> result) (x : N) (t : term) (l : list eqn) : result :=
  if occurs x t then NotUnifiable
  else match rec (esubst x t l) with
       | Unifier s => Unifier ((x, t) :: s)
       | r => r
       end.

(* steps that do not eliminate a variable; fuel n bounds their number *)
Fixpoint inner (rec : list eqn -> result) (n : nat) (l : list eqn) : result :=
  match n with
  | O => OutOfFuel
  | S n' =>
    match l with
    | [] => Unifier []
    | (s, t) :: l' =>
      match s, t with
      | TVar x, TVar y => if N.eqb x y then inner rec n' l' else elim rec x t l'
      | TVar x, TApp _ _ => elim rec x t l'
      | TApp _ _, TVar y => elim rec y s l'
      | TApp f ss, TApp g ts =>
          if sym_eqb f g && Nat.eqb (length ss) (length ts)
          then inner rec n' (combine ss ts ++ l')
          else NotUnifiable
      end
    end
  end.

(* n1 bounds the number of variable eliminations; the inner fuel is recomputed
   from the size of the current equation list after every elimination. *)
Fixpoint outer (n1 : nat) (l : list eqn) : result :=
  inner (match n1 with O => fun _ => OutOfFuel | S n1' => outer n1' end) (S (esize l)) l.

Definition unify_eqns (l : list eqn) : result := outer (S (length (evars l))) l.

Definition mgu (s t : term) : option subst :=
  match unify_eqns [(s, t)] with
  | Unifier sg => Some sg
  | _ => None
  end.

(* the instance of an arbitrary third term under the mgu of s and t *)
Definition mgu_inst (s t u : term) : option term :=
  match mgu s t with Some sg => Some (apply sg u) | None => None end.

(* ---- how the engine uses a unifier (API-level model) ------------------- *)

(* `S = T`: on success both sides are the same instance, which is what the
   answer tuple of the builtin shows. *)
Definition eq_builtin (s t : term) : option term :=
  match mgu s t with Some sg => Some (apply sg s) | None => None end.

(* `S \= T` *)
Definition neq_builtin (s t : term) : bool :=
  match mgu s t with Some _ => false | None => true end.

(* Calling a fact `head.` with goal `call`: clause variables are renamed apart
   from the goal's first; the answer is the instantiated goal. *)
Definition max_var (t : term) : N := fold_right N.max 0%N (tvars t).
Definition rename_apart (call head : term) : term :=
  inst (fun v => TVar (v + N.succ (max_var call))%N) head.
Definition call_fact (call head : term) : option term :=
  match mgu call (rename_apart call head) with
  | Some sg => Some (apply sg call)
  | None => None
  end.

