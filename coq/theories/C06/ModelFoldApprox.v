(* C06 — approximate weight folding (definitions only).
   LogicFormula.add_atom (formula.py:653) with a semiring replaces an atom by FALSE when
   `semiring.is_zero(semiring.value(p))` and by TRUE when `semiring.is_one(semiring.value(p))`.
   evaluator.py: SemiringProbability.is_zero = -1e-12 < v < 1e-12, is_one = 1-1e-12 < v < 1+1e-12
   (value() accepts -1e-9 <= v <= 1+1e-9);  SemiringLogProbability.value maps -1e-9 <= v < 1e-9 to
   -inf (is_zero: <= -1e100), is_one = -1e-12 < log v < 1e-12. *)
From Coq Require Import QArith Qabs ZArith NArith List Bool.
From PL.C09 Require Import BoolGraph.
From PL.C06 Require Import ModelPropagate ModelWMC.
Import ListNotations.

(* several atoms folded: (identifier, constant it is replaced by) *)
Fixpoint fold_atoms (fs : list (N * bool)) (g : graph) : graph :=
  match fs with
  | [] => g
  | (id, b) :: r => fold_atom id b (fold_atoms r g)
  end.

Fixpoint upds (fs : list (N * bool)) (a : N -> bool) : N -> bool :=
  match fs with
  | [] => a
  | (id, b) :: r => upds r (upd a id b)
  end.

(* every listed atom carries a probability: weight pair (w x, 1 - w x) with 0 <= w x <= 1 *)
Definition w01 (w : N -> Q) (ids : list N) : Prop := forall x, In x ids -> 0 <= w x /\ w x <= 1.

(* the weight p is within d of the weight of the constant b (1 for TRUE, 0 for FALSE) *)
Definition near (p : Q) (b : bool) (d : Q) : Prop := Qabs (p - (if b then 1 else 0)) <= d.

Definition qnat (n : nat) : Q := inject_Z (Z.of_nat n).

(* the folding thresholds of evaluator.py *)
Definition thr_prob : Q := 1 # 1000000000000.        (* 1e-12: SemiringProbability.is_zero / is_one *)
Definition thr_log_zero : Q := 1 # 1000000000.       (* 1e-9 : SemiringLogProbability.value -> -inf *)
