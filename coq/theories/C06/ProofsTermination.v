(* C06 — termination of the model of LogicFormula.propagate, for every graph, every evidence
   list, every initial `current`, every pop order of the queue, with an explicit fuel bound.

   Why the loop terminates (formula.py:968-1075): `current` only grows; an element popped from the
   queue whose node has no value yet gives it one (at most |g| such pops); an element whose node
   already has a value is only removed -- the elements added while processing it belong to
   nodes WITHOUT a value (`if abs(c) not in current: queue.add(..)`), and parents are re-queued
   only by a pop of the first kind.  So between two pops of the first kind the number of queue
   elements whose node has a value strictly decreases, and it is at most the size of the queue,
   which is a set of literals over a finite universe.

   measure   mu(st) = #{k in 1..|g| : k not in current} * (M+1) + #{x in queue : |x| in current}
   with M = |universe| = |ev| + 2*#children + 2*|g| >= |queue|; every iteration decreases mu.
   fuel_bound g ev = (|g|+1) * (M+1). *)
From Coq Require Import ZArith NArith List Bool Lia Arith PeanoNat.
From PL.C09 Require Import BoolGraph.
From PL.C06 Require Import ModelPropagate ProofsPropagate.
Import ListNotations.

(* ------------------------------------------------------------------ the bound *)
Definition lit_universe (g : graph) (ev : list Z) : list Z :=
  ev ++ flat_map (fun nd => flat_map (fun c => [c; (- c)%Z]) (children nd)) g
     ++ flat_map (fun k => [Z.of_nat k; (- Z.of_nat k)%Z]) (seq 1 (length g)).

Definition fuel_bound (g : graph) (ev : list Z) : nat :=
  S (length g) * S (length (lit_universe g ev)).

Lemma flat_map_pair_length : forall (A : Type) (f h : A -> Z) l,
    length (flat_map (fun x => [f x; h x]) l) = 2 * length l.
Proof. induction l; simpl; auto. lia. Qed.

Lemma flat_map_length_sum : forall (A B : Type) (f : A -> list B) l,
    length (flat_map f l) = fold_right (fun x n => length (f x) + n) 0 l.
Proof. induction l; simpl; auto. rewrite app_length. lia. Qed.

(* number of child occurrences *)
Definition nchildren (g : graph) : nat := fold_right (fun nd n => length (children nd) + n) 0 g.

Lemma lit_universe_length : forall g ev,
    length (lit_universe g ev) = length ev + 2 * nchildren g + 2 * length g.
Proof.
  intros g ev. unfold lit_universe. rewrite !app_length.
  rewrite (flat_map_pair_length nat). rewrite seq_length.
  assert (E : length (flat_map (fun nd => flat_map (fun c => [c; (- c)%Z]) (children nd)) g) = 2 * nchildren g).
  { unfold nchildren. induction g as [|nd g IH]; simpl; auto.
    rewrite app_length, IH, (flat_map_pair_length Z). lia. }
  rewrite E. lia.
Qed.

(* ------------------------------------------------------------------ queue = duplicate-free list *)
Lemma NoDup_snoc : forall (x : Z) q, NoDup q -> ~ In x q -> NoDup (q ++ [x]).
Proof.
  induction q as [|y q IH]; simpl; intros N NI.
  - constructor. intros []. constructor.
  - inversion N; subst. constructor.
    + rewrite in_app_iff. simpl. intros [H|[H|[]]]; auto.
    + apply IH; auto.
Qed.

Lemma qadd_NoDup : forall q x, NoDup q -> NoDup (qadd q x).
Proof.
  intros q x N. unfold qadd. destruct (zmem x q) eqn:E; auto.
  apply NoDup_snoc; auto. intros I. apply zmem_In in I. congruence.
Qed.

Lemma qadd_In : forall q x y, In y (qadd q x) -> In y q \/ y = x.
Proof.
  intros q x y. unfold qadd. destruct (zmem x q); auto.
  rewrite in_app_iff. simpl. intros [H|[H|[]]]; auto.
Qed.

Lemma qremove_NoDup : forall x q, NoDup q -> NoDup (qremove x q).
Proof.
  induction q as [|y q IH]; simpl; intros N; auto.
  inversion N; subst. destruct (Z.eqb x y); auto.
  constructor; auto. intros I. apply qremove_In in I. auto.
Qed.

Lemma fold_qadd_NoDup : forall xs q, NoDup q -> NoDup (fold_left qadd xs q).
Proof. induction xs; simpl; intros; auto. apply IHxs. apply qadd_NoDup; auto. Qed.

Lemma fold_qadd_In : forall xs q y, In y (fold_left qadd xs q) -> In y q \/ In y xs.
Proof.
  induction xs as [|x xs IH]; simpl; intros q y H; auto.
  apply IH in H. destruct H as [H|H]; auto. apply qadd_In in H. destruct H; auto.
Qed.

(* counting queue elements with a property *)
Definition cntz (P : Z -> bool) (l : list Z) : nat := length (filter P l).

Lemma cntz_le_length : forall P l, cntz P l <= length l.
Proof. unfold cntz. induction l; simpl; auto. destruct (P a); simpl; lia. Qed.

Lemma cntz_ext : forall P P' l, (forall x, P x = P' x) -> cntz P l = cntz P' l.
Proof. intros P P' l H. unfold cntz. now rewrite (filter_ext _ _ H). Qed.

Lemma cntz_qadd_false : forall P q x, P x = false -> cntz P (qadd q x) = cntz P q.
Proof.
  intros P q x H. unfold qadd, cntz. destruct (zmem x q); auto.
  rewrite filter_app, app_length. simpl. rewrite H. simpl. lia.
Qed.

Lemma cntz_fold_false : forall P xs q, (forall x, In x xs -> P x = false) -> cntz P (fold_left qadd xs q) = cntz P q.
Proof.
  induction xs as [|x xs IH]; simpl; intros q H; auto.
  rewrite IH by auto. apply cntz_qadd_false. auto.
Qed.

Lemma cntz_qremove_le : forall P x q, cntz P (qremove x q) <= cntz P q.
Proof.
  unfold cntz. induction q as [|y q IH]; simpl; auto.
  destruct (Z.eqb x y); simpl; destruct (P y); simpl; lia.
Qed.

Lemma cntz_qremove_lt : forall P x q, In x q -> P x = true -> cntz P (qremove x q) < cntz P q.
Proof.
  unfold cntz. induction q as [|y q IH]; simpl; intros I H. tauto.
  destruct (Z.eqb x y) eqn:E.
  - apply Z.eqb_eq in E. subst y. rewrite H. simpl.
    pose proof (cntz_qremove_le P x q). unfold cntz in *. lia.
  - destruct I as [->|I]. rewrite Z.eqb_refl in E. discriminate.
    specialize (IH I H). simpl. destruct (P y); simpl; lia.
Qed.

(* ------------------------------------------------------------------ requeue and the conditional folds as folds of qadd *)
Definition requeue_list (c : cur) (ps : list nat) : list Z :=
  flat_map (fun p => match cget c p with Some b => [lit_of p b] | None => [] end) ps.

Lemma requeue_fold : forall c ps q, requeue c ps q = fold_left qadd (requeue_list c ps) q.
Proof.
  intros c ps. unfold requeue, requeue_list. induction ps as [|p ps IH]; simpl; intros q; auto.
  rewrite IH. destruct (cget c p); simpl; auto.
Qed.

Definition unset_child (c1 : cur) (c : Z) : bool := match cget c1 (key_of c) with None => true | Some _ => false end.

Lemma fold_cond_qadd : forall c1 (f : Z -> Z) lits q,
    fold_left (fun q c => match cget c1 (key_of c) with None => qadd q (f c) | Some _ => q end) lits q
    = fold_left qadd (map f (filter (unset_child c1) lits)) q.
Proof.
  intros c1 f. induction lits as [|c lits IH]; simpl; intros q; auto.
  unfold unset_child at 1. destruct (cget c1 (key_of c)); simpl; apply IH.
Qed.

Lemma key_of_opp : forall c, key_of (- c)%Z = key_of c.
Proof. intros [|p|p]; reflexivity. Qed.

Lemma key_of_lit_of : forall p b, key_of (lit_of p b) = p.
Proof. intros p [|]; unfold lit_of, key_of. apply Nat2Z.id || lia. lia. Qed.

(* ------------------------------------------------------------------ atoms_in_rules *)
Lemma pdiscard_In : forall l c p e, In e (pdiscard l c p) -> In e l.
Proof. intros l c p e. unfold pdiscard. rewrite filter_In. tauto. Qed.

Lemma fold_pdiscard_In : forall (k : nat) lits l e, In e (fold_left (fun p c => pdiscard p (key_of c) k) lits l) -> In e l.
Proof.
  intros k. induction lits as [|c lits IH]; simpl; intros l e H; auto.
  apply IH in H. eapply pdiscard_In; eauto.
Qed.

Lemma padd_In : forall l c p e, In e (padd l c p) -> In e l \/ e = (c, p).
Proof.
  intros l c p e. unfold padd. destruct (pmem c p l); auto.
  rewrite in_app_iff. simpl. intros [H|[H|[]]]; auto.
Qed.

Lemma fold_padd_In : forall (k : nat) lits l e,
    In e (fold_left (fun p c => padd p (key_of c) k) lits l) -> In e l \/ snd e = k.
Proof.
  intros k. induction lits as [|c lits IH]; simpl; intros l e H; auto.
  apply IH in H. destruct H as [H|H]; auto. apply padd_In in H. destruct H as [H|H]; auto. subst e. auto.
Qed.

Lemma pget_In : forall l c p, In p (pget l c) -> In (c, p) l.
Proof.
  intros l c p. unfold pget. rewrite in_map_iff. intros [[c' p'] [E I]]. simpl in E. subst p'.
  apply filter_In in I. destruct I as [I Q]. simpl in Q. apply Nat.eqb_eq in Q. subst c'. exact I.
Qed.

(* ------------------------------------------------------------------ one iteration: its shape *)
Definition q1_of (st : pstate) (k : nat) : list Z :=
  match cget (p_cur st) k with
  | None => requeue (p_cur st) (pget (p_par st) k) (p_queue st)
  | Some _ => p_queue st
  end.

Definition added_ok (c1 : cur) (nd : node) (x : Z) : Prop :=
  cget c1 (key_of x) = None /\ x <> 0%Z /\ (In x (children nd) \/ In (- x)%Z (children nd)).

Lemma lits_added_id : forall c1 cs c, In c (lits_of (map (child_val c1) cs)) ->
    forall nd, children nd = cs -> added_ok c1 nd c.
Proof.
  intros c1 cs c H nd E. apply in_lits_of in H. destruct H as [I [NZ G]].
  split; auto. split; auto. left. now rewrite E.
Qed.

Lemma lits_added_opp : forall c1 cs c, In c (lits_of (map (child_val c1) cs)) ->
    forall nd, children nd = cs -> added_ok c1 nd (- c)%Z.
Proof.
  intros c1 cs c H nd E. apply in_lits_of in H. destruct H as [I [NZ G]].
  split. now rewrite key_of_opp. split. lia. right. rewrite Z.opp_involutive. now rewrite E.
Qed.

Lemma process_shape : forall g st nid st',
    process g st nid = SOk st' ->
    exists nd xs,
      node_at g (key_of nid) = Some nd /\
      p_cur st' = cset (p_cur st) (key_of nid) (0 <? nid)%Z /\
      p_queue st' = fold_left qadd xs (q1_of st (key_of nid)) /\
      (forall x, In x xs -> added_ok (p_cur st') nd x) /\
      (forall e, In e (p_par st') -> In e (p_par st) \/ snd e = key_of nid).
Proof.
  intros g st nid st' H. unfold process in H. cbv zeta in H. fold (q1_of st (key_of nid)) in H.
  destruct (node_at g (key_of nid)) as [nd|] eqn:ND; [|discriminate].
  exists nd.
  set (k := key_of nid) in *. set (pos := (0 <? nid)%Z) in *.
  remember (cset (p_cur st) k pos) as c1 eqn:EC1. remember (q1_of st k) as q1 eqn:EQ1.
  assert (BASE : forall st'', SOk (mkP c1 q1 (p_par st)) = SOk st'' ->
                              exists xs, p_cur st'' = c1 /\ p_queue st'' = fold_left qadd xs q1 /\
                                         (forall x, In x xs -> added_ok (p_cur st'') nd x) /\
                                         (forall e, In e (p_par st'') -> In e (p_par st) \/ snd e = k)).
  { intros st'' X. inversion X; subst st''. exists []. simpl. split; auto. split; auto. split; auto. intros x []. }
  assert (GOAL : exists xs, p_cur st' = c1 /\ p_queue st' = fold_left qadd xs q1 /\
                            (forall x, In x xs -> added_ok (p_cur st') nd x) /\
                            (forall e, In e (p_par st') -> In e (p_par st) \/ snd e = k)).
  2: { destruct GOAL as [xs [A [B [C D]]]]. exists xs. auto. }
  destruct nd as [id|cs|cs].
  - apply BASE; auto.
  - (* conjunction *)
    cbn [children andb negb] in H.
    destruct (existsb (is_const false) (map (child_val c1) cs)) eqn:HF.
    + destruct pos; cbn [andb negb] in H; [discriminate|]. apply BASE; auto.
    + cbn [andb negb] in H.
      destruct (lits_of (map (child_val c1) cs)) as [|c [|c' rest]] eqn:L.
      * destruct pos; cbn [andb negb] in H; apply BASE; auto.
      * destruct (cget c1 (key_of c)) eqn:G; [apply BASE; auto|].
        inversion H; subst st'. clear H. cbn [p_cur p_queue p_par].
        exists [if pos then c else (- c)%Z]. split; auto. split; auto. split.
        { intros x [<-|[]]. destruct pos.
          - apply (lits_added_id c1 cs c); auto. rewrite L. left; auto.
          - apply (lits_added_opp c1 cs c); auto. rewrite L. left; auto. }
        { intros e I. left. eapply pdiscard_In; eauto. }
      * destruct pos; cbn [andb negb] in H.
        { rewrite (fold_cond_qadd c1 (fun c => c)), map_id in H.
          remember (filter (unset_child c1) (c :: c' :: rest)) as xs eqn:EX.
          remember (fold_left (fun p c0 => pdiscard p (key_of c0) k) (c :: c' :: rest) (p_par st)) as par' eqn:EP.
          inversion H; subst st'. clear H. cbn [p_cur p_queue p_par].
          exists xs. split; auto. split; auto. split.
          - intros x I. rewrite EX in I. apply filter_In in I. destruct I as [I _].
            apply (lits_added_id c1 cs x); auto. rewrite L. exact I.
          - intros e I. left. rewrite EP in I. eapply fold_pdiscard_In; eauto. }
        { remember (fold_left (fun p c0 => padd p (key_of c0) k) (c :: c' :: rest) (p_par st)) as par' eqn:EP.
          inversion H; subst st'. clear H. cbn [p_cur p_queue p_par].
          exists []. split; auto. split; auto. split. intros x [].
          intros e I. rewrite EP in I. apply fold_padd_In in I. exact I. }
  - (* disjunction *)
    cbn [children andb negb] in H.
    destruct (existsb (is_const true) (map (child_val c1) cs)) eqn:HT.
    + destruct pos; cbn [andb negb] in H; [|discriminate]. apply BASE; auto.
    + cbn [andb negb] in H.
      destruct (lits_of (map (child_val c1) cs)) as [|c [|c' rest]] eqn:L.
      * destruct pos; cbn [andb negb] in H; apply BASE; auto.
      * destruct (cget c1 (key_of c)) eqn:G; [apply BASE; auto|].
        inversion H; subst st'. clear H. cbn [p_cur p_queue p_par].
        exists [if pos then c else (- c)%Z]. split; auto. split; auto. split.
        { intros x [<-|[]]. destruct pos.
          - apply (lits_added_id c1 cs c); auto. rewrite L. left; auto.
          - apply (lits_added_opp c1 cs c); auto. rewrite L. left; auto. }
        { intros e I. left. eapply pdiscard_In; eauto. }
      * destruct pos; cbn [andb negb] in H.
        { remember (fold_left (fun p c0 => padd p (key_of c0) k) (c :: c' :: rest) (p_par st)) as par' eqn:EP.
          inversion H; subst st'. clear H. cbn [p_cur p_queue p_par].
          exists []. split; auto. split; auto. split. intros x [].
          intros e I. rewrite EP in I. apply fold_padd_In in I. exact I. }
        { rewrite (fold_cond_qadd c1 (fun c => (- c)%Z)) in H.
          remember (map (fun c => (- c)%Z) (filter (unset_child c1) (c :: c' :: rest))) as xs eqn:EX.
          remember (fold_left (fun p c0 => pdiscard p (key_of c0) k) (c :: c' :: rest) (p_par st)) as par' eqn:EP.
          inversion H; subst st'. clear H. cbn [p_cur p_queue p_par].
          exists xs. split; auto. split; auto. split.
          - intros x I. rewrite EX in I. apply in_map_iff in I. destruct I as [c0 [<- I]]. apply filter_In in I. destruct I as [I _].
            apply (lits_added_opp c1 cs c0); auto. rewrite L. exact I.
          - intros e I. left. rewrite EP in I. eapply fold_pdiscard_In; eauto. }
Qed.

(* ------------------------------------------------------------------ invariant and measure *)
Section Term.
Variable g : graph.
Variable ev : list Z.

Notation U := (lit_universe g ev).
Notation M := (length (lit_universe g ev)).

Definition inv (st : pstate) : Prop :=
  NoDup (p_queue st) /\ incl (p_queue st) U /\ (forall e, In e (p_par st) -> node_at g (snd e) <> None).

Definition is_unset (c : cur) (k : nat) : bool := match cget c k with None => true | Some _ => false end.
Definition has_val (c : cur) (x : Z) : bool := match cget c (key_of x) with None => false | Some _ => true end.

Definition unset (st : pstate) : nat := cnt (is_unset (p_cur st)) (seq 1 (length g)).
Definition pending (st : pstate) : nat := cntz (has_val (p_cur st)) (p_queue st).
Definition mu (st : pstate) : nat := unset st * S M + pending st.

Lemma in_universe_node : forall p b, node_at g p <> None -> In (lit_of p b) U.
Proof.
  intros p b H. unfold lit_universe. rewrite !in_app_iff. right. right.
  apply in_flat_map. exists p. split.
  - apply in_seq. destruct (node_at g p) eqn:E; [|congruence]. apply node_at_Some in E. lia.
  - unfold lit_of. destruct b; simpl; auto.
Qed.

Lemma in_universe_child : forall k nd x, node_at g k = Some nd ->
    (In x (children nd) \/ In (- x)%Z (children nd)) -> In x U.
Proof.
  intros k nd x E H. unfold lit_universe. rewrite !in_app_iff. right. left.
  apply in_flat_map. exists nd. split. apply node_at_Some in E. tauto.
  apply in_flat_map. destruct H as [H|H].
  - exists x. split; auto. left; auto.
  - exists (- x)%Z. split; auto. right. left. apply Z.opp_involutive.
Qed.

Lemma queue_bound : forall st, inv st -> length (p_queue st) <= M.
Proof. intros st [N [I _]]. apply NoDup_incl_length; auto. Qed.

Lemma q1_inv : forall st k, inv st ->
    NoDup (q1_of st k) /\ incl (q1_of st k) U.
Proof.
  intros st k [N [I P]]. unfold q1_of. destruct (cget (p_cur st) k); auto.
  rewrite requeue_fold. split. apply fold_qadd_NoDup; auto.
  intros y Hy. apply fold_qadd_In in Hy. destruct Hy as [Hy|Hy]; auto.
  unfold requeue_list in Hy. apply in_flat_map in Hy. destruct Hy as [p [Ip Hy]].
  destruct (cget (p_cur st) p) as [b|]; [|destruct Hy]. destruct Hy as [<-|[]].
  apply in_universe_node. apply pget_In in Ip. apply (P _ Ip).
Qed.

(* the body of the loop keeps the invariant and decreases the measure *)
Lemma step_decreases : forall st nid st',
    inv st -> In nid (p_queue st) ->
    process g (mkP (p_cur st) (qremove nid (p_queue st)) (p_par st)) nid = SOk st' ->
    inv st' /\ mu st' < mu st.
Proof.
  intros st nid st' IV IN H.
  set (st0 := mkP (p_cur st) (qremove nid (p_queue st)) (p_par st)) in *.
  assert (IV0 : inv st0).
  { destruct IV as [N [I P]]. split; [|split]; cbn [st0 p_queue p_par]; auto.
    apply qremove_NoDup; auto. intros y Hy. apply I. eapply qremove_In; eauto. }
  destruct (process_shape g st0 nid st' H) as [nd [xs [ND [CU [QU [AD PA]]]]]].
  set (k := key_of nid) in *.
  assert (KR : In k (seq 1 (length g))). { apply in_seq. apply node_at_Some in ND. lia. }
  destruct (q1_inv st0 k IV0) as [N1 I1].
  assert (IV' : inv st').
  { split; [|split].
    - rewrite QU. apply fold_qadd_NoDup; auto.
    - rewrite QU. intros y Hy. apply fold_qadd_In in Hy. destruct Hy as [Hy|Hy]; auto.
      destruct (AD y Hy) as [_ [_ C]]. eapply in_universe_child; eauto.
    - intros e Ie. destruct (PA e Ie) as [Q|Q]. apply (proj2 (proj2 IV0)); auto. rewrite Q. fold k. congruence. }
  split; auto.
  assert (PEND : pending st' = cntz (has_val (p_cur st')) (q1_of st0 k)).
  { unfold pending. rewrite QU. apply cntz_fold_false. intros x Hx. destruct (AD x Hx) as [G _].
    unfold has_val. now rewrite G. }
  unfold mu.
  destruct (cget (p_cur st) k) as [b|] eqn:CK.
  - (* the node already has a value: only the queue shrinks *)
    assert (SAME : forall j, cget (p_cur st') j = None <-> cget (p_cur st) j = None).
    { intros j. rewrite CU. cbn [st0 p_cur]. unfold cset. simpl. fold k.
      destruct (Nat.eqb k j) eqn:E; [|tauto]. apply Nat.eqb_eq in E. subst j. rewrite CK. split; discriminate. }
    assert (UN : unset st' = unset st).
    { unfold unset, cnt. f_equal. apply filter_ext. intros j. unfold is_unset.
      destruct (cget (p_cur st') j) eqn:A; destruct (cget (p_cur st) j) eqn:B; auto.
      - apply SAME in B. congruence.
      - apply SAME in A. congruence. }
    assert (Q1 : q1_of st0 k = qremove nid (p_queue st)).
    { unfold q1_of. cbn [st0 p_cur p_queue]. now rewrite CK. }
    assert (HV : forall x, has_val (p_cur st') x = has_val (p_cur st) x).
    { intros x. unfold has_val. destruct (cget (p_cur st') (key_of x)) eqn:A; destruct (cget (p_cur st) (key_of x)) eqn:B; auto.
      - apply SAME in B. congruence.
      - apply SAME in A. congruence. }
    rewrite UN, PEND, Q1, (cntz_ext _ _ _ HV).
    assert (cntz (has_val (p_cur st)) (qremove nid (p_queue st)) < cntz (has_val (p_cur st)) (p_queue st)).
    { apply cntz_qremove_lt; auto. unfold has_val. fold k. now rewrite CK. }
    unfold pending. lia.
  - (* first value of the node: one more node is set; the queue is bounded *)
    assert (UN : unset st' < unset st).
    { unfold unset. apply (cnt_lt _ _ _ k); auto.
      - intros j _. unfold is_unset. rewrite CU. cbn [st0 p_cur]. unfold cset. simpl. fold k.
        destruct (Nat.eqb k j); [discriminate|auto].
      - unfold is_unset. rewrite CU. cbn [st0 p_cur]. unfold cset. simpl. fold k. now rewrite Nat.eqb_refl.
      - unfold is_unset. now rewrite CK. }
    assert (PB : pending st' <= M).
    { unfold pending. eapply Nat.le_trans. apply cntz_le_length. apply queue_bound; auto. }
    nia.
Qed.

Lemma run_terminates : forall fuel sched st,
    inv st -> mu st < fuel -> run g sched fuel st <> OutOfFuel.
Proof.
  induction fuel as [|f IH]; intros sched st IV LT. lia.
  simpl. destruct (p_queue st) as [|x r] eqn:Q. discriminate.
  set (pick := match sched with [] => Some x | y :: _ => if zmem y (x :: r) then Some y else None end).
  assert (PK : forall nid, pick = Some nid -> In nid (p_queue st)).
  { intros nid. unfold pick. rewrite Q. destruct sched as [|y t].
    - intros X; inversion X; left; auto.
    - destruct (zmem y (x :: r)) eqn:Z; [|discriminate]. intros X; inversion X; subst.
      apply zmem_In; auto. }
  destruct pick as [nid|]; [|discriminate].
  specialize (PK nid eq_refl).
  destruct (process g (mkP (p_cur st) (qremove nid (x :: r)) (p_par st)) nid) as [st'| |] eqn:P; try discriminate.
  rewrite <- Q in P. destruct (step_decreases st nid st' IV PK P) as [IV' D].
  apply IH; auto. lia.
Qed.

Lemma init_inv : forall cur0, inv (mkP cur0 (fold_left qadd ev []) []).
Proof.
  intros cur0. split; [|split]; cbn [p_queue p_par].
  - apply fold_qadd_NoDup. constructor.
  - intros y Hy. apply fold_qadd_In in Hy. destruct Hy as [[]|Hy].
    unfold lit_universe. apply in_app_iff. auto.
  - intros e [].
Qed.

Lemma init_mu : forall cur0, mu (mkP cur0 (fold_left qadd ev []) []) < fuel_bound g ev.
Proof.
  intros cur0. unfold mu, fuel_bound.
  assert (A : unset (mkP cur0 (fold_left qadd ev []) []) <= length g).
  { unfold unset. eapply Nat.le_trans. apply cnt_bound. now rewrite seq_length. }
  assert (B : pending (mkP cur0 (fold_left qadd ev []) []) <= M).
  { unfold pending. eapply Nat.le_trans. apply cntz_le_length. apply (queue_bound _ (init_inv cur0)). }
  nia.
Qed.

End Term.

(* ------------------------------------------------------------------ the loop terminates *)
Theorem propagate_terminates : forall g ev cur0 sched fuel,
    fuel_bound g ev <= fuel -> propagate_m g ev cur0 sched fuel <> OutOfFuel.
Proof.
  intros g ev cur0 sched fuel H. unfold propagate_m.
  apply (run_terminates g ev); [apply init_inv|]. pose proof (init_mu g ev cur0). lia.
Qed.

(* ------------------------------------------------------------------ no BadNode on well-formed input *)
Definition ev_in_range (g : graph) (ev : list Z) : Prop := forall x, In x ev -> node_at g (key_of x) <> None.

Section Range.
Variable g : graph.
Hypothesis CL : closed_graph g.

Definition in_range (st : pstate) : Prop :=
  (forall x, In x (p_queue st) -> node_at g (key_of x) <> None) /\
  (forall e, In e (p_par st) -> node_at g (snd e) <> None).

Lemma child_in_range : forall k nd x, node_at g k = Some nd -> x <> 0%Z ->
    (In x (children nd) \/ In (- x)%Z (children nd)) -> node_at g (key_of x) <> None.
Proof.
  intros k nd x E NZ H.
  assert (K : key_of x <= length g).
  { apply node_at_Some in E. destruct E as [_ I]. destruct H as [H|H].
    - apply (CL nd x I H).
    - rewrite <- key_of_opp. apply (CL nd _ I H). }
  intros X. apply node_at_None in X. unfold key_of in *. lia.
Qed.

Lemma step_in_range : forall st nid st',
    in_range st ->
    process g (mkP (p_cur st) (qremove nid (p_queue st)) (p_par st)) nid = SOk st' -> in_range st'.
Proof.
  intros st nid st' [RQ RP] H.
  destruct (process_shape g _ nid st' H) as [nd [xs [ND [CU [QU [AD PA]]]]]].
  cbn [p_cur p_queue p_par] in *.
  split.
  - intros y Hy. rewrite QU in Hy. apply fold_qadd_In in Hy. destruct Hy as [Hy|Hy].
    + unfold q1_of in Hy. cbn [p_cur p_queue p_par] in Hy.
      destruct (cget (p_cur st) (key_of nid)).
      * apply RQ. eapply qremove_In; eauto.
      * rewrite requeue_fold in Hy. apply fold_qadd_In in Hy. destruct Hy as [Hy|Hy].
        { apply RQ. eapply qremove_In; eauto. }
        unfold requeue_list in Hy. apply in_flat_map in Hy. destruct Hy as [p [Ip Hy]].
        destruct (cget (p_cur st) p) as [b|]; [|destruct Hy]. destruct Hy as [<-|[]].
        rewrite key_of_lit_of. apply pget_In in Ip. apply (RP _ Ip).
    + destruct (AD y Hy) as [_ [NZ C]]. eapply child_in_range; eauto.
  - intros e Ie. destruct (PA e Ie) as [Q|Q]; auto. rewrite Q. congruence.
Qed.

Lemma run_no_badnode : forall fuel sched st, in_range st -> run g sched fuel st <> BadNode.
Proof.
  induction fuel as [|f IH]; intros sched st IR. discriminate.
  simpl. destruct (p_queue st) as [|x r] eqn:Q. discriminate.
  set (pick := match sched with [] => Some x | y :: _ => if zmem y (x :: r) then Some y else None end).
  assert (PK : forall nid, pick = Some nid -> In nid (p_queue st)).
  { intros nid. unfold pick. rewrite Q. destruct sched as [|y t].
    - intros X; inversion X; left; auto.
    - destruct (zmem y (x :: r)) eqn:Z; [|discriminate]. intros X; inversion X; subst.
      apply zmem_In; auto. }
  destruct pick as [nid|]; [|discriminate].
  specialize (PK nid eq_refl).
  destruct (process g (mkP (p_cur st) (qremove nid (x :: r)) (p_par st)) nid) as [st'| |] eqn:P; try discriminate.
  - rewrite <- Q in P. apply IH. eapply step_in_range; eauto.
  - exfalso. unfold process in P. cbv zeta in P.
    destruct (node_at g (key_of nid)) as [nd|] eqn:ND.
    + destruct nd; cbn [children andb negb] in P;
        repeat match type of P with
               | context [if ?b then _ else _] => destruct b; cbn [andb negb] in P; try discriminate
               | context [match ?l with [] => _ | _ :: _ => _ end] => destruct l; try discriminate
               | context [match cget ?c ?k with _ => _ end] => destruct (cget c k); try discriminate
               end.
    + apply (proj1 IR nid PK). exact ND.
Qed.

End Range.

Theorem propagate_no_badnode : forall g ev cur0 sched fuel,
    closed_graph g -> ev_in_range g ev -> propagate_m g ev cur0 sched fuel <> BadNode.
Proof.
  intros g ev cur0 sched fuel CL ER. unfold propagate_m. apply run_no_badnode; auto.
  split; cbn [p_queue p_par].
  - intros x Hx. apply fold_qadd_In in Hx. destruct Hx as [[]|Hx]. apply ER; auto.
  - intros e [].
Qed.

(* the deterministic pop order (always the head of the queue) never asks for an absent element *)
Lemma run_head_no_badsched : forall g fuel st, run g [] fuel st <> BadSched.
Proof.
  intros g. induction fuel as [|f IH]; intros st. discriminate.
  simpl. destruct (p_queue st) as [|x r]. discriminate.
  destruct (process g (mkP (p_cur st) (qremove x (x :: r)) (p_par st)) x); try discriminate. apply IH.
Qed.

Theorem propagate_head_no_badsched : forall g ev cur0 fuel, propagate_m g ev cur0 [] fuel <> BadSched.
Proof. intros. unfold propagate_m. apply run_head_no_badsched. Qed.

(* ------------------------------------------------------------------ total versions of the soundness theorems *)
(* every run with enough fuel on a well-formed input ends in one of three ways: a sound table,
   a justified InconsistentEvidenceError, or (only for an impossible pop order) BadSched *)
Theorem propagate_total : forall g ev sched fuel,
    closed_graph g -> ev_in_range g ev -> fuel_bound g ev <= fuel ->
    match propagate_m g ev [] sched fuel with
    | Done m => forall a s, is_model g a s -> sat_lits s ev -> holds_in s m
    | Inconsistent => forall a s, is_model g a s -> ~ sat_lits s ev
    | BadSched => sched <> []
    | OutOfFuel => False
    | BadNode => False
    end.
Proof.
  intros g ev sched fuel CL ER FB.
  pose proof (propagate_terminates g ev [] sched fuel FB) as T.
  pose proof (propagate_no_badnode g ev [] sched fuel CL ER) as B.
  destruct (propagate_m g ev [] sched fuel) as [m| | | |] eqn:R; try congruence.
  - intros a s MD SAT. eapply propagate_sound; eauto.
  - intros a s MD. eapply propagate_inconsistent; eauto.
  - intros ->. apply (propagate_head_no_badsched g ev [] fuel). exact R.
Qed.

Theorem propagate_sound_total : forall g a s ev sched fuel,
    is_model g a s -> sat_lits s ev ->
    closed_graph g -> ev_in_range g ev -> fuel_bound g ev <= fuel ->
    (exists m, propagate_m g ev [] sched fuel = Done m /\ holds_in s m) \/
    propagate_m g ev [] sched fuel = BadSched.
Proof.
  intros g a s ev sched fuel MD SAT CL ER FB.
  pose proof (propagate_total g ev sched fuel CL ER FB) as T.
  destruct (propagate_m g ev [] sched fuel) as [m| | | |]; try contradiction; auto.
  - left. exists m. split; auto. eapply T; eauto.
  - exfalso. apply (T a s MD SAT).
Qed.

Theorem propagate_sound_total_head : forall g a s ev fuel,
    is_model g a s -> sat_lits s ev ->
    closed_graph g -> ev_in_range g ev -> fuel_bound g ev <= fuel ->
    exists m, propagate_m g ev [] [] fuel = Done m /\ holds_in s m.
Proof.
  intros g a s ev fuel MD SAT CL ER FB.
  destruct (propagate_sound_total g a s ev [] fuel MD SAT CL ER FB) as [H|H]; auto.
  exfalso. eapply propagate_head_no_badsched; eauto.
Qed.

(* when no model satisfies the evidence ... nothing forces Inconsistent (propagation is incomplete);
   the total form of the inconsistency theorem: with enough fuel the outcome is Inconsistent only
   if no model satisfies the evidence, and otherwise a table that holds in all of them *)
Theorem propagate_inconsistent_total : forall g ev sched fuel,
    closed_graph g -> ev_in_range g ev -> fuel_bound g ev <= fuel ->
    propagate_m g ev [] sched fuel <> BadSched ->
    (exists m, propagate_m g ev [] sched fuel = Done m /\
               forall a s, is_model g a s -> sat_lits s ev -> holds_in s m) \/
    (propagate_m g ev [] sched fuel = Inconsistent /\ forall a s, is_model g a s -> ~ sat_lits s ev).
Proof.
  intros g ev sched fuel CL ER FB NB.
  pose proof (propagate_total g ev sched fuel CL ER FB) as T.
  destruct (propagate_m g ev [] sched fuel) as [m| | | |]; try contradiction; try congruence.
  - left. exists m. auto.
  - right. auto.
Qed.

(* the same for any supported valuation and a non-empty initial `current` (sample.py, repeated calls) *)
Theorem propagate_sound_supported_total : forall g a s ev cur0 sched fuel,
    supported g a s -> sat_lits s ev -> holds_in s cur0 ->
    closed_graph g -> ev_in_range g ev -> fuel_bound g ev <= fuel ->
    (exists m, propagate_m g ev cur0 sched fuel = Done m /\ holds_in s m) \/
    propagate_m g ev cur0 sched fuel = BadSched.
Proof.
  intros g a s ev cur0 sched fuel SUP SAT C0 CL ER FB.
  pose proof (propagate_terminates g ev cur0 sched fuel FB) as T.
  pose proof (propagate_no_badnode g ev cur0 sched fuel CL ER) as B.
  destruct (propagate_m g ev cur0 sched fuel) as [m| | | |] eqn:R; try congruence; auto.
  - left. exists m. split; auto. eapply propagate_sound_supported; eauto.
  - exfalso. eapply propagate_inconsistent_supported; eauto.
Qed.
