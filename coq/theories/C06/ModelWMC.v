(* C06 — weighted model counting over Q on DAG formulas (definitions only). *)
From Coq Require Import QArith ZArith NArith List Bool.
From PL.C09 Require Import BoolGraph.
From PL.C06 Require Import ModelPropagate.
Import ListNotations.

(* weight of an assignment of the listed atom identifiers *)
Fixpoint wt (w : N -> Q) (ids : list N) (a : N -> bool) : Q :=
  match ids with
  | [] => 1
  | x :: r => (if a x then w x else 1 - w x) * wt w r a
  end.

Definition qsum (l : list Q) : Q := fold_right Qplus 0 l.

(* sum over all assignments (subsets of ids set true) of the weight of those satisfying phi *)
Definition wmc (w : N -> Q) (ids : list N) (phi : (N -> bool) -> bool) : Q :=
  qsum (map (fun t => if phi (asg_of t) then wt w ids (asg_of t) else 0) (sublists ids)).

(* truth of a literal (signed key) of a DAG formula under an assignment *)
Definition key_true (g : graph) (c : Z) (a : N -> bool) : bool := lit_val (vget (dag_val a g)) c.
(* ... when the nodes listed in m are replaced by their constants *)
Definition key_true_c (m : cur) (g : graph) (c : Z) (a : N -> bool) : bool := lit_val (vget (dag_val_c m a g)) c.
Definition ev_true (g : graph) (ev : list Z) (a : N -> bool) : bool := forallb (fun c => key_true g c a) ev.

Definition cond_prob (w : N -> Q) (ids : list N) (q e : (N -> bool) -> bool) : Q :=
  wmc w ids (fun a => q a && e a) / wmc w ids e.

(* the evidence literal list denoted by evidence statements, given the key of every atom *)
Definition ev_lits (keyof : N -> Z) (es : list evstmt) : list Z :=
  map (fun e => let (x, b) := ev_denote e in if b then keyof x else (- keyof x)%Z) es.
