(* C06 — inference options do not change the answer.  Statements only.
   Model: ModelPropagate.v (LogicFormula.propagate, formula.py:964; weight folding of add_atom,
   formula.py:653; the four evidence spellings of engine.ground_evidence), ModelWMC.v (WMC over Q).
   Graph semantics: PL.C09.BoolGraph (is_model = stable/least model of a possibly cyclic and-or
   graph; dag_val = one-pass value of an acyclic one).

   The popped element of the Python set `queue` is unspecified: every statement quantifies over
   ALL schedules `sched` and all amounts of fuel. *)
From Coq Require Import QArith ZArith NArith List Bool Lia.
From PL.C09 Require Import BoolGraph.
From PL.C06 Require Import ModelPropagate ProofsPropagate ModelWMC ProofsWMC ModelReplace ProofsReplace ProofsTermination.
Import ListNotations.

(* ------------------------------------------------------------------ evidence propagation is sound *)
(* every value propagate derives holds in every model (of the ground program under any atom
   assignment) that satisfies the evidence literals *)
Theorem C06_propagate_sound : forall g a s ev sched fuel m,
    is_model g a s -> sat_lits s ev ->
    propagate_m g ev [] sched fuel = Done m ->
    forall k b, cget m k = Some b -> s k = b.
Proof. exact propagate_sound. Qed.
Print Assumptions C06_propagate_sound.

(* when it raises InconsistentEvidenceError no model satisfies the evidence *)
Theorem C06_propagate_inconsistent : forall g a s ev sched fuel,
    is_model g a s -> propagate_m g ev [] sched fuel = Inconsistent -> ~ sat_lits s ev.
Proof. exact propagate_inconsistent. Qed.
Print Assumptions C06_propagate_inconsistent.

(* the same for the weaker notion "fixpoint of the one-step operator" and with a non-empty
   initial `current` whose entries hold (sample.py / repeated calls) *)
Theorem C06_propagate_sound_supported : forall g a s ev cur0 sched fuel m,
    supported g a s -> sat_lits s ev -> holds_in s cur0 ->
    propagate_m g ev cur0 sched fuel = Done m -> holds_in s m.
Proof. exact propagate_sound_supported. Qed.
Print Assumptions C06_propagate_sound_supported.

Theorem C06_propagate_inconsistent_supported : forall g a s ev cur0 sched fuel,
    supported g a s -> holds_in s cur0 ->
    propagate_m g ev cur0 sched fuel = Inconsistent -> ~ sat_lits s ev.
Proof. exact propagate_inconsistent_supported. Qed.
Print Assumptions C06_propagate_inconsistent_supported.

(* acyclic formulas (LogicDAG): the one-pass value *)
Theorem C06_propagate_sound_dag : forall g a ev sched fuel m,
    topo g -> sat_lits (vget (dag_val a g)) ev ->
    propagate_m g ev [] sched fuel = Done m -> holds_in (vget (dag_val a g)) m.
Proof. exact propagate_sound_dag. Qed.
Print Assumptions C06_propagate_sound_dag.

(* ------------------------------------------------------------------ the propagate loop terminates *)
(* fuel_bound g ev = (|g|+1) * (M+1) with M = |ev| + 2 * #child occurrences + 2 * |g| (the number of
   literals that can ever be in the queue).  For EVERY graph (cyclic, ill-formed), evidence list,
   initial `current` and pop order the loop ends within that many iterations: each node's value is
   set for the first time at most once, and between two such events the number of queued
   literals whose node already has a value strictly decreases. *)
Theorem C06_propagate_terminates : forall g ev cur0 sched fuel,
    (fuel_bound g ev <= fuel)%nat -> propagate_m g ev cur0 sched fuel <> OutOfFuel.
Proof. exact propagate_terminates. Qed.
Print Assumptions C06_propagate_terminates.

Theorem C06_fuel_bound_explicit : forall g ev,
    fuel_bound g ev = (S (length g) * S (length ev + 2 * nchildren g + 2 * length g))%nat.
Proof. intros g ev. unfold fuel_bound. now rewrite lit_universe_length. Qed.
Print Assumptions C06_fuel_bound_explicit.

(* the other error values: BadNode only on ill-formed input (a child or evidence key outside the
   formula), BadSched only for a pop order naming an element that is not in the queue (never for
   the deterministic "head of the queue" order) *)
Theorem C06_propagate_no_badnode : forall g ev cur0 sched fuel,
    closed_graph g -> ev_in_range g ev -> propagate_m g ev cur0 sched fuel <> BadNode.
Proof. exact propagate_no_badnode. Qed.
Print Assumptions C06_propagate_no_badnode.

(* total forms: no `= Done m` hypothesis, fuel >= the bound.  Every run on a well-formed input ends
   with a table that holds in every model satisfying the evidence, or with a justified
   InconsistentEvidenceError, or -- only for an impossible pop order -- BadSched *)
Theorem C06_propagate_total : forall g ev sched fuel,
    closed_graph g -> ev_in_range g ev -> (fuel_bound g ev <= fuel)%nat ->
    match propagate_m g ev [] sched fuel with
    | Done m => forall a s, is_model g a s -> sat_lits s ev -> holds_in s m
    | Inconsistent => forall a s, is_model g a s -> ~ sat_lits s ev
    | BadSched => sched <> []
    | OutOfFuel => False
    | BadNode => False
    end.
Proof. exact propagate_total. Qed.
Print Assumptions C06_propagate_total.

Theorem C06_propagate_sound_total : forall g a s ev sched fuel,
    is_model g a s -> sat_lits s ev ->
    closed_graph g -> ev_in_range g ev -> (fuel_bound g ev <= fuel)%nat ->
    (exists m, propagate_m g ev [] sched fuel = Done m /\ forall k b, cget m k = Some b -> s k = b) \/
    propagate_m g ev [] sched fuel = BadSched.
Proof. exact propagate_sound_total. Qed.
Print Assumptions C06_propagate_sound_total.

(* with the deterministic pop order there is always a result *)
Theorem C06_propagate_sound_total_head : forall g a s ev fuel,
    is_model g a s -> sat_lits s ev ->
    closed_graph g -> ev_in_range g ev -> (fuel_bound g ev <= fuel)%nat ->
    exists m, propagate_m g ev [] [] fuel = Done m /\ forall k b, cget m k = Some b -> s k = b.
Proof. exact propagate_sound_total_head. Qed.
Print Assumptions C06_propagate_sound_total_head.

(* ... and for any supported valuation with a non-empty initial `current` whose entries hold *)
Theorem C06_propagate_sound_supported_total : forall g a s ev cur0 sched fuel,
    supported g a s -> sat_lits s ev -> holds_in s cur0 ->
    closed_graph g -> ev_in_range g ev -> (fuel_bound g ev <= fuel)%nat ->
    (exists m, propagate_m g ev cur0 sched fuel = Done m /\ holds_in s m) \/
    propagate_m g ev cur0 sched fuel = BadSched.
Proof. exact propagate_sound_supported_total. Qed.
Print Assumptions C06_propagate_sound_supported_total.

Theorem C06_propagate_inconsistent_total : forall g ev sched fuel,
    closed_graph g -> ev_in_range g ev -> (fuel_bound g ev <= fuel)%nat ->
    propagate_m g ev [] sched fuel <> BadSched ->
    (exists m, propagate_m g ev [] sched fuel = Done m /\
               forall a s, is_model g a s -> sat_lits s ev -> holds_in s m) \/
    (propagate_m g ev [] sched fuel = Inconsistent /\ forall a s, is_model g a s -> ~ sat_lits s ev).
Proof. exact propagate_inconsistent_total. Qed.
Print Assumptions C06_propagate_inconsistent_total.

(* ------------------------------------------------------------------ conditioning is invariant *)
(* replacing the propagated nodes by their constants changes no node value in any world that
   satisfies them *)
Theorem C06_replace_constants : forall m a g,
    holds_in (vget (dag_val a g)) m -> dag_val_c m a g = dag_val a g.
Proof. exact dag_val_c_eq. Qed.
Print Assumptions C06_replace_constants.

(* possibly cyclic ground programs (LogicFormula before cycle breaking), stable-model semantics: a model that
   satisfies the evidence is still a model after the propagated nodes were replaced by constants ... *)
Theorem C06_replace_constants_cyclic : forall g a s ev sched fuel m,
    is_model g a s -> sat_lits s ev -> propagate_m g ev [] sched fuel = Done m ->
    is_model (replace_consts m g) a s.
Proof. exact propagate_replace_model. Qed.
Print Assumptions C06_replace_constants_cyclic.

(* ... and when the replaced program is stratified it is its only model: in every world satisfying the
   evidence every node (hence every query) has the same value before and after the replacement *)
Theorem C06_condition_invariant_cyclic : forall g a s s' ev sched fuel m,
    is_model g a s -> sat_lits s ev -> propagate_m g ev [] sched fuel = Done m ->
    stratified (replace_consts m g) -> is_model (replace_consts m g) a s' ->
    forall k, s' k = s k.
Proof. exact propagate_replace_unique. Qed.
Print Assumptions C06_condition_invariant_cyclic.

(* P(q | e) on the formula with the propagated nodes replaced by constants = P(q | e) on the
   original, for every weight function, every atom list, every query literal *)
Theorem C06_condition_invariant : forall w ids g ev sched fuel m q,
    topo g -> propagate_m g ev [] sched fuel = Done m ->
    cond_prob w ids (key_true_c m g q) (ev_true g ev) = cond_prob w ids (key_true g q) (ev_true g ev).
Proof. exact propagate_condition_invariant. Qed.
Print Assumptions C06_condition_invariant.

(* an inconsistency found by propagation is an evidence of probability zero *)
Theorem C06_inconsistent_zero : forall w ids g ev sched fuel,
    topo g -> propagate_m g ev [] sched fuel = Inconsistent -> wmc w ids (ev_true g ev) == 0.
Proof. exact propagate_inconsistent_wmc. Qed.
Print Assumptions C06_inconsistent_zero.

(* ------------------------------------------------------------------ weight folding *)
(* an atom of weight 1 (b = true) / 0 (b = false) can be replaced by TRUE / FALSE: no weighted
   model count of any literal changes ... *)
Theorem C06_fold_weights : forall w ids g c id (b : bool),
    In id ids -> w id == (if b then 1 else 0) ->
    wmc w ids (key_true g c) == wmc w ids (key_true (fold_atom id b g) c).
Proof. exact fold_weight_graph. Qed.
Print Assumptions C06_fold_weights.

(* ... and no conditional probability *)
Theorem C06_fold_weights_cond : forall w ids g q ev id (b : bool),
    In id ids -> w id == (if b then 1 else 0) ->
    cond_prob w ids (key_true g q) (ev_true g ev)
    == cond_prob w ids (key_true (fold_atom id b g) q) (ev_true (fold_atom id b g) ev).
Proof. exact fold_weight_cond. Qed.
Print Assumptions C06_fold_weights_cond.

(* ------------------------------------------------------------------ evidence spellings *)
Theorem C06_evidence_syntax : forall w ids g keyof q es,
    (forall x, ev_denote (Ev1 x) = ev_denote (Ev2true x) /\ ev_denote (Ev1neg x) = ev_denote (Ev2false x)) /\
    cond_prob w ids (key_true g q) (ev_true g (ev_lits keyof (map ev_respell es)))
    = cond_prob w ids (key_true g q) (ev_true g (ev_lits keyof es)).
Proof.
  intros w ids g keyof q es. split. exact evidence_syntax_denote.
  exact (evidence_syntax_cond w ids g keyof q (map ev_respell es) es (respell_denote es)).
Qed.
Print Assumptions C06_evidence_syntax.

(* ------------------------------------------------------------------ non-vacuity *)
(* 1: atom a, 2: atom b, 3: and(1,2), 4: or(3,-1);  evidence {3, 4}: propagation derives a, b *)
Definition ex_g : graph := [NAtom 1%N; NAtom 2%N; NAnd [1; 2]%Z; NOr [3; -1]%Z].

Example C06_ex_run : propagate_m ex_g [3%Z] [] [] 10%nat = Done [(2%nat, true); (1%nat, true); (3%nat, true)].
Proof. vm_compute. reflexivity. Qed.

Example C06_ex_topo : topo ex_g.
Proof. apply topob_sound. vm_compute. reflexivity. Qed.

Example C06_ex_satisfiable :
  sat_lits (vget (dag_val (fun _ => true) ex_g)) [3%Z].
Proof. intros x [<-|[]]. vm_compute. reflexivity. Qed.

(* evidence "3 true, 1 false" is reported inconsistent *)
Example C06_ex_inconsistent : propagate_m ex_g [(-1)%Z; 3%Z] [] [] 10%nat = Inconsistent.
Proof. vm_compute. reflexivity. Qed.

(* a one-child disjunction: 2: or(1); evidence -2 derives atom 1 false (single-child rule) *)
Example C06_ex_single : propagate_m [NAtom 1%N; NOr [1%Z]] [(-2)%Z] [] [] 10%nat = Done [(1%nat, false); (2%nat, false)].
Proof. vm_compute. reflexivity. Qed.

(* weights: an atom of weight 1 *)
Example C06_ex_fold :
  wmc (fun i => if N.eqb i 1 then 1 else 1 # 2) [1%N; 2%N] (key_true ex_g 3%Z) == 1 # 2 /\
  wmc (fun i => if N.eqb i 1 then 1 else 1 # 2) [1%N; 2%N] (key_true (fold_atom 1%N true ex_g) 3%Z) == 1 # 2.
Proof. split; vm_compute; reflexivity. Qed.

(* the bound on the example: 5 * 18 = 90 iterations; the hypotheses of the total theorems hold *)
Example C06_ex_bound : fuel_bound ex_g [3%Z] = 90%nat /\ closed_graph ex_g /\ ev_in_range ex_g [3%Z] /\
                       propagate_m ex_g [3%Z] [] [] (fuel_bound ex_g [3%Z]) = Done [(2%nat, true); (1%nat, true); (3%nat, true)].
Proof.
  split. reflexivity. split. apply closedb_sound. reflexivity. split.
  - intros x [<-|[]]. discriminate.
  - vm_compute. reflexivity.
Qed.
