(* C06 — approximate weight folding.  Statements only (proofs: ProofsFoldApprox.v).

   Props.v (`C06_fold_weights`, `C06_fold_weights_cond`) covers weights EXACTLY 1 / 0.  The code
   (LogicFormula.add_atom, formula.py:653, when the formula was built with
   `propagate_weights=<semiring>`) folds approximately:
     SemiringProbability    is_zero(v) = -1e-12 < v < 1e-12      is_one(v) = 1-1e-12 < v < 1+1e-12
                            (value() lets -1e-9 <= v <= 1+1e-9 through)
     SemiringLogProbability value(v) = -inf for -1e-9 <= v < 1e-9 (is_zero: <= -1e100),
                            is_one(log v) = -1e-12 < log v < 1e-12,  i.e. exp(-1e-12) < v < exp(1e-12),
                            which lies inside |v - 1| < 1e-12 + 1e-24 (enclosure of exp NOT proved
                            here; the theorems below hold for EVERY threshold d).
   So the folded formula is not equivalent to the original one; these theorems bound the error of
   the weighted model count of ModelWMC.v (exact arithmetic over Q; float rounding of the evaluator
   is out of scope):
     one atom   : |WMC(q) - WMC'(q)| <= d
     k atoms    : |WMC(q) - WMC'(q)| <= k d
     conditional: |P(q|e) - P'(q|e)| <= 2 k d / (P(e) - k d)   when P(e) > k d.
   `wmc w ids` keeps the folded atom in `ids` on the folded graph: the folded graph no longer
   mentions it, so its two weights sum out to 1 (as in `C06_fold_weights`). *)
From Coq Require Import QArith Qabs ZArith NArith List Bool Lia.
From PL.C09 Require Import BoolGraph.
From PL.C06 Require Import ModelPropagate ModelWMC ProofsWMC ModelFoldApprox ProofsFoldApprox.
Import ListNotations.

(* ------------------------------------------------------------------ one folded atom *)
(* weight pair (p, 1-p) of atom `id` with |p - 1| <= d replaced by TRUE (b = true), or |p| <= d
   replaced by FALSE (b = false); every OTHER listed atom has a probability in [0,1]; p itself may
   lie outside [0,1] (value() accepts 1+1e-9).  Every graph, every query literal. *)
Theorem C06_fold_approx_wmc : forall (w : N -> Q) ids g c id (b : bool) (d : Q),
    NoDup ids -> In id ids ->
    (forall x, In x ids -> x <> id -> 0 <= w x /\ w x <= 1) ->
    Qabs (w id - (if b then 1 else 0)) <= d ->
    Qabs (wmc w ids (key_true g c) - wmc w ids (key_true (fold_atom id b g) c)) <= d.
Proof. exact fold_approx_wmc_single. Qed.
Print Assumptions C06_fold_approx_wmc.

(* the same for any counted formula that only looks at the assignment pointwise (query /\ evidence, ...) *)
Theorem C06_fold_approx_formula : forall (w : N -> Q) id (b : bool) (d : Q) ids,
    NoDup ids -> In id ids ->
    (forall x, In x ids -> x <> id -> 0 <= w x /\ w x <= 1) ->
    Qabs (w id - (if b then 1 else 0)) <= d ->
    forall phi, extensional phi ->
    Qabs (wmc w ids phi - wmc w ids (fun a => phi (upd a id b))) <= d.
Proof. exact fold_approx_single. Qed.
Print Assumptions C06_fold_approx_formula.

(* ------------------------------------------------------------------ k folded atoms *)
(* fs = the folded atoms with the constant each one is replaced by; all listed weights in [0,1] *)
Theorem C06_fold_approx_wmc_k : forall (w : N -> Q) ids g c (fs : list (N * bool)) (d : Q),
    NoDup ids -> (forall x, In x ids -> 0 <= w x /\ w x <= 1) ->
    (forall id (b : bool), In (id, b) fs -> In id ids /\ Qabs (w id - (if b then 1 else 0)) <= d) ->
    Qabs (wmc w ids (key_true g c) - wmc w ids (key_true (fold_atoms fs g) c))
    <= inject_Z (Z.of_nat (length fs)) * d.
Proof. exact fold_approx_wmc_k. Qed.
Print Assumptions C06_fold_approx_wmc_k.

(* ------------------------------------------------------------------ conditional probabilities *)
(* P(q|e) moves by at most 2 k d / (P(e) - k d) as long as P(e) > k d   (k = length fs) *)
Theorem C06_fold_approx_cond : forall (w : N -> Q) ids g q ev (fs : list (N * bool)) (d : Q),
    NoDup ids -> (forall x, In x ids -> 0 <= w x /\ w x <= 1) ->
    (forall id (b : bool), In (id, b) fs -> In id ids /\ Qabs (w id - (if b then 1 else 0)) <= d) ->
    inject_Z (Z.of_nat (length fs)) * d < wmc w ids (ev_true g ev) ->
    Qabs (cond_prob w ids (key_true g q) (ev_true g ev)
          - cond_prob w ids (key_true (fold_atoms fs g) q) (ev_true (fold_atoms fs g) ev))
    <= 2 * (inject_Z (Z.of_nat (length fs)) * d)
       / (wmc w ids (ev_true g ev) - inject_Z (Z.of_nat (length fs)) * d).
Proof. exact fold_approx_cond_k. Qed.
Print Assumptions C06_fold_approx_cond.

Theorem C06_fold_approx_cond_single : forall (w : N -> Q) ids g q ev id (b : bool) (d : Q),
    NoDup ids -> (forall x, In x ids -> 0 <= w x /\ w x <= 1) -> In id ids ->
    Qabs (w id - (if b then 1 else 0)) <= d ->
    d < wmc w ids (ev_true g ev) ->
    Qabs (cond_prob w ids (key_true g q) (ev_true g ev)
          - cond_prob w ids (key_true (fold_atom id b g) q) (ev_true (fold_atom id b g) ev))
    <= 2 * d / (wmc w ids (ev_true g ev) - d).
Proof. exact fold_approx_cond_single. Qed.
Print Assumptions C06_fold_approx_cond_single.

(* ------------------------------------------------------------------ the thresholds of evaluator.py *)
Theorem C06_fold_thresholds :
  (* SemiringProbability.is_one / is_zero: strict 1e-12 window around 1 / 0 *)
  (forall (w : N -> Q) ids g c id (b : bool),
      NoDup ids -> In id ids -> (forall x, In x ids -> x <> id -> 0 <= w x /\ w x <= 1) ->
      Qabs (w id - (if b then 1 else 0)) < 1 # 1000000000000 ->
      Qabs (wmc w ids (key_true g c) - wmc w ids (key_true (fold_atom id b g) c)) <= 1 # 1000000000000) /\
  (* SemiringLogProbability.value: -1e-9 <= v < 1e-9 becomes -inf, folded to FALSE *)
  (forall (w : N -> Q) ids g c id,
      NoDup ids -> In id ids -> (forall x, In x ids -> x <> id -> 0 <= w x /\ w x <= 1) ->
      - (1 # 1000000000) <= w id -> w id < 1 # 1000000000 ->
      Qabs (wmc w ids (key_true g c) - wmc w ids (key_true (fold_atom id false g) c)) <= 1 # 1000000000) /\
  (* k atoms folded by SemiringProbability: unconditional and conditional *)
  (forall (w : N -> Q) ids g q ev (fs : list (N * bool)),
      NoDup ids -> (forall x, In x ids -> 0 <= w x /\ w x <= 1) ->
      (forall id (b : bool), In (id, b) fs ->
                             In id ids /\ Qabs (w id - (if b then 1 else 0)) < 1 # 1000000000000) ->
      Qabs (wmc w ids (key_true g q) - wmc w ids (key_true (fold_atoms fs g) q))
      <= inject_Z (Z.of_nat (length fs)) * (1 # 1000000000000) /\
      (inject_Z (Z.of_nat (length fs)) * (1 # 1000000000000) < wmc w ids (ev_true g ev) ->
       Qabs (cond_prob w ids (key_true g q) (ev_true g ev)
             - cond_prob w ids (key_true (fold_atoms fs g) q) (ev_true (fold_atoms fs g) ev))
       <= 2 * (inject_Z (Z.of_nat (length fs)) * (1 # 1000000000000))
          / (wmc w ids (ev_true g ev) - inject_Z (Z.of_nat (length fs)) * (1 # 1000000000000)))).
Proof. exact fold_thresholds. Qed.
Print Assumptions C06_fold_thresholds.

(* consequence used to read the differential check: at most 4 folded atoms and P(evidence) >= 1/100
   keep every conditional probability within the check's tolerance 1e-9 *)
Theorem C06_fold_tolerance : forall (w : N -> Q) ids g q ev (fs : list (N * bool)),
    NoDup ids -> (forall x, In x ids -> 0 <= w x /\ w x <= 1) ->
    (forall id (b : bool), In (id, b) fs ->
                           In id ids /\ Qabs (w id - (if b then 1 else 0)) < 1 # 1000000000000) ->
    (length fs <= 4)%nat -> 1 # 100 <= wmc w ids (ev_true g ev) ->
    Qabs (cond_prob w ids (key_true g q) (ev_true g ev)
          - cond_prob w ids (key_true (fold_atoms fs g) q) (ev_true (fold_atoms fs g) ev))
    <= 1 # 1000000000.
Proof. exact fold_tolerance. Qed.
Print Assumptions C06_fold_tolerance.

(* ------------------------------------------------------------------ non-vacuity *)
(* 1: atom a (p = 1 - 5e-13, inside the is_one window), 2: atom b (1/2), 3: and(1,2), 4: or(3,-1) *)
Definition exa_g : graph := [NAtom 1%N; NAtom 2%N; NAnd [1; 2]%Z; NOr [3; -1]%Z].
Definition exa_w : N -> Q := fun i => if N.eqb i 1 then 1999999999999 # 2000000000000 else 1 # 2.
Definition exa_ids : list N := [1%N; 2%N].

(* hypotheses hold; the folding really changes the count (by 2.5e-13 <> 0), within the bound *)
Example C06_ex_fold_approx :
  NoDup exa_ids /\ In 1%N exa_ids /\
  (forall x, In x exa_ids -> 0 <= exa_w x /\ exa_w x <= 1) /\
  Qabs (exa_w 1%N - 1) < 1 # 1000000000000 /\
  ~ exa_w 1%N == 1 /\
  wmc exa_w exa_ids (key_true exa_g 3%Z) == 1999999999999 # 4000000000000 /\
  wmc exa_w exa_ids (key_true (fold_atom 1%N true exa_g) 3%Z) == 1 # 2 /\
  Qabs (wmc exa_w exa_ids (key_true exa_g 3%Z) - wmc exa_w exa_ids (key_true (fold_atom 1%N true exa_g) 3%Z))
  == 1 # 4000000000000.
Proof.
  split. { repeat constructor; simpl; intuition discriminate. }
  split. { left; reflexivity. }
  split. { intros x [<-|[<-|[]]]; split; apply Qle_bool_iff; vm_compute; reflexivity. }
  split. { apply Qlt_alt. vm_compute. reflexivity. }
  split. { intros H. vm_compute in H. discriminate. }
  repeat split; vm_compute; reflexivity.
Qed.

(* conditional: P(b | node 4) = (1/2) / (1 - p/2) before, 1 after folding; the difference is
   non-zero and below 2d/(P(e)-d) with d = 1e-12 *)
Example C06_ex_fold_approx_cond :
  (1 # 1000000000000) < wmc exa_w exa_ids (ev_true exa_g [4%Z]) /\
  cond_prob exa_w exa_ids (key_true exa_g 2%Z) (ev_true exa_g [4%Z]) == 2000000000000 # 2000000000001 /\
  cond_prob exa_w exa_ids (key_true (fold_atom 1%N true exa_g) 2%Z) (ev_true (fold_atom 1%N true exa_g) [4%Z]) == 1 /\
  Qabs (cond_prob exa_w exa_ids (key_true exa_g 2%Z) (ev_true exa_g [4%Z])
        - cond_prob exa_w exa_ids (key_true (fold_atom 1%N true exa_g) 2%Z) (ev_true (fold_atom 1%N true exa_g) [4%Z]))
  <= 2 * (1 # 1000000000000) / (wmc exa_w exa_ids (ev_true exa_g [4%Z]) - (1 # 1000000000000)).
Proof.
  split. { apply Qlt_alt. vm_compute. reflexivity. }
  split. { vm_compute. reflexivity. }
  split. { vm_compute. reflexivity. }
  apply Qle_bool_iff. vm_compute. reflexivity.
Qed.

(* two folded atoms at once (a to TRUE, b' = atom 5 with p = 3e-13 to FALSE) *)
Definition exb_g : graph := [NAtom 1%N; NAtom 2%N; NAnd [1; 2]%Z; NOr [3; -1]%Z; NAtom 5%N; NOr [3; 5]%Z].
Definition exb_w : N -> Q :=
  fun i => if N.eqb i 1 then 1999999999999 # 2000000000000
           else if N.eqb i 5 then 3 # 10000000000000 else 1 # 2.
Example C06_ex_fold_approx_k :
  let ids := [1%N; 2%N; 5%N] in
  let fs := [(1%N, true); (5%N, false)] in
  (forall id (b : bool), In (id, b) fs -> In id ids /\ Qabs (exb_w id - (if b then 1 else 0)) < 1 # 1000000000000) /\
  ~ wmc exb_w ids (key_true exb_g 6%Z) == wmc exb_w ids (key_true (fold_atoms fs exb_g) 6%Z) /\
  Qabs (wmc exb_w ids (key_true exb_g 6%Z) - wmc exb_w ids (key_true (fold_atoms fs exb_g) 6%Z))
  <= inject_Z (Z.of_nat (length fs)) * (1 # 1000000000000).
Proof.
  cbv zeta. split.
  { intros id b [H|[H|[]]]; inversion H; subst; split;
      try (simpl; tauto); apply Qlt_alt; vm_compute; reflexivity. }
  split. { intros H. vm_compute in H. discriminate. }
  apply Qle_bool_iff. vm_compute. reflexivity.
Qed.
