(* C06 — conditioning invariance, weight folding, evidence spellings. *)
From Coq Require Import QArith ZArith NArith List Bool Lia Arith PeanoNat Setoid.
From PL.C09 Require Import BoolGraph.
From PL.C06 Require Import ModelPropagate ProofsPropagate ModelWMC.
Import ListNotations.

(* ------------------------------------------------------------------ replacing propagated nodes by constants *)
Lemma vget_snoc_new : forall acc (e : bool) t, vget ((acc ++ [e]) ++ t) (S (length acc)) = e.
Proof.
  intros. simpl. rewrite <- app_assoc. rewrite app_nth2 by lia. now rewrite Nat.sub_diag.
Qed.

Lemma dag_eval_c_eq : forall m a g acc,
    (forall k b, cget m k = Some b -> vget (dag_eval a g acc) k = b) ->
    dag_eval_c m a g acc = dag_eval a g acc.
Proof.
  intros m a g. induction g as [|nd r IH]; intros acc H; simpl; auto.
  simpl in H.
  assert (E : match cget m (S (length acc)) with
              | Some b => b
              | None => eval_node a (lit_val (vget acc)) nd
              end = eval_node a (lit_val (vget acc)) nd).
  { destruct (cget m (S (length acc))) eqn:C; auto.
    apply H in C.
    destruct (dag_eval_prefix a r (acc ++ [eval_node a (lit_val (vget acc)) nd])) as [t Ht].
    rewrite Ht in C. rewrite vget_snoc_new in C. auto. }
  rewrite E. apply IH. exact H.
Qed.

Theorem dag_val_c_eq : forall m a g,
    holds_in (vget (dag_val a g)) m -> dag_val_c m a g = dag_val a g.
Proof. intros m a g H. unfold dag_val_c, dag_val. apply dag_eval_c_eq. exact H. Qed.

Lemma ev_true_sat : forall g ev a, ev_true g ev a = true -> sat_lits (vget (dag_val a g)) ev.
Proof.
  intros g ev a H x Hx. unfold ev_true in H. rewrite forallb_forall in H. apply H in Hx. exact Hx.
Qed.

(* numerators agree term by term, for every weight function and every list of atoms *)
Theorem condition_invariant_wmc : forall w ids g ev m q,
    (forall a, ev_true g ev a = true -> holds_in (vget (dag_val a g)) m) ->
    wmc w ids (fun a => key_true_c m g q a && ev_true g ev a)
    = wmc w ids (fun a => key_true g q a && ev_true g ev a).
Proof.
  intros w ids g ev m q H. unfold wmc. f_equal. apply map_ext. intros t.
  destruct (ev_true g ev (asg_of t)) eqn:E.
  - unfold key_true_c. rewrite dag_val_c_eq by (apply H; auto). reflexivity.
  - now rewrite !andb_false_r.
Qed.

Theorem propagate_condition_invariant : forall w ids g ev sched fuel m q,
    topo g -> propagate_m g ev [] sched fuel = Done m ->
    cond_prob w ids (key_true_c m g q) (ev_true g ev) = cond_prob w ids (key_true g q) (ev_true g ev).
Proof.
  intros w ids g ev sched fuel m q T H. unfold cond_prob. f_equal.
  apply condition_invariant_wmc. intros a E.
  eapply propagate_sound_dag; eauto. apply ev_true_sat; auto.
Qed.

Lemma qsum_zero : forall (A : Type) (l : list A), qsum (map (fun _ => 0) l) == 0.
Proof. induction l; simpl. reflexivity. rewrite IHl. reflexivity. Qed.

(* an inconsistency reported by propagation means P(evidence) = 0 *)
Theorem propagate_inconsistent_wmc : forall w ids g ev sched fuel,
    topo g -> propagate_m g ev [] sched fuel = Inconsistent -> wmc w ids (ev_true g ev) == 0.
Proof.
  intros w ids g ev sched fuel T H. unfold wmc.
  rewrite (map_ext _ (fun _ => 0)). apply qsum_zero.
  intros t. destruct (ev_true g ev (asg_of t)) eqn:E; auto.
  exfalso. eapply propagate_inconsistent_dag; eauto. apply ev_true_sat; eauto.
Qed.

(* ------------------------------------------------------------------ weight folding *)
Lemma eval_node_fold : forall a lv id b nd,
    eval_node (upd a id b) lv nd =
    eval_node a lv (match nd with
                    | NAtom j => if N.eqb j id then (if b then NAnd [] else NOr []) else nd
                    | _ => nd
                    end).
Proof.
  intros a lv id b [j|cs|cs]; simpl; auto. unfold upd.
  destruct (N.eqb j id); auto. destruct b; reflexivity.
Qed.

Lemma dag_eval_fold : forall a id b g acc,
    dag_eval (upd a id b) g acc = dag_eval a (fold_atom id b g) acc.
Proof.
  intros a id b. induction g as [|nd r IH]; intros acc; simpl; auto.
  rewrite eval_node_fold. apply IH.
Qed.

(* replacing the atom by the constant = evaluating under the updated assignment *)
Theorem fold_atom_val : forall a id b g, dag_val a (fold_atom id b g) = dag_val (upd a id b) g.
Proof. intros. unfold dag_val. symmetry. apply dag_eval_fold. Qed.

Lemma wt_zero_true : forall w ids a id, In id ids -> w id == 1 -> a id = false -> wt w ids a == 0.
Proof.
  intros w ids a id. induction ids as [|x r IH]; simpl; intros H W A. tauto.
  destruct H as [->|H].
  - rewrite A. rewrite W. ring.
  - rewrite IH by auto. ring.
Qed.

Lemma wt_zero_false : forall w ids a id, In id ids -> w id == 0 -> a id = true -> wt w ids a == 0.
Proof.
  intros w ids a id. induction ids as [|x r IH]; simpl; intros H W A. tauto.
  destruct H as [->|H].
  - rewrite A. rewrite W. ring.
  - rewrite IH by auto. ring.
Qed.

Lemma qsum_ext : forall (A : Type) (f h : A -> Q) l,
    (forall x, In x l -> f x == h x) -> qsum (map f l) == qsum (map h l).
Proof.
  induction l as [|x l IH]; simpl; intros H. reflexivity.
  rewrite H by (left; auto). rewrite IH. reflexivity. intros; apply H; right; auto.
Qed.

Definition extensional (phi : (N -> bool) -> bool) : Prop :=
  forall a a', (forall x, a x = a' x) -> phi a = phi a'.

Lemma upd_same : forall a id b x, a id = b -> upd a id b x = a x.
Proof.
  intros a id b x H. unfold upd. destruct (N.eqb x id) eqn:E; auto. apply N.eqb_eq in E. subst. auto.
Qed.

(* an atom of weight b (1 for true, 0 for false) can be fixed to b in the counted formula *)
Theorem fold_weight_wmc : forall w ids phi id (b : bool),
    extensional phi -> In id ids -> w id == (if b then 1 else 0) ->
    wmc w ids phi == wmc w ids (fun a => phi (upd a id b)).
Proof.
  intros w ids phi id b EXT IN W. unfold wmc. apply qsum_ext. intros t _.
  destruct (Bool.eqb (asg_of t id) b) eqn:E.
  - apply eqb_prop in E. rewrite (EXT (upd (asg_of t) id b) (asg_of t)). reflexivity.
    intros x. apply upd_same; auto.
  - assert (Z0 : wt w ids (asg_of t) == 0).
    { destruct b.
      - apply wt_zero_true with (id := id); auto. destruct (asg_of t id); auto; discriminate.
      - apply wt_zero_false with (id := id); auto. destruct (asg_of t id); auto; discriminate. }
    destruct (phi (asg_of t)); destruct (phi (upd (asg_of t) id b)); rewrite ?Z0; reflexivity.
Qed.

Lemma key_true_ext : forall g c, extensional (key_true g c).
Proof.
  intros g c a a' H. unfold key_true. rewrite (dag_val_ext_a a a' g); auto.
Qed.

(* graph level: WMC of any literal is unchanged when a weight-1 atom becomes TRUE / weight-0 atom FALSE *)
Theorem fold_weight_graph : forall w ids g c id (b : bool),
    In id ids -> w id == (if b then 1 else 0) ->
    wmc w ids (key_true g c) == wmc w ids (key_true (fold_atom id b g) c).
Proof.
  intros w ids g c id b IN W.
  rewrite (fold_weight_wmc w ids (key_true g c) id b (key_true_ext g c) IN W).
  unfold wmc. apply qsum_ext. intros t _. unfold key_true. rewrite fold_atom_val. reflexivity.
Qed.

Lemma andb_ext : forall p q, extensional p -> extensional q -> extensional (fun a => p a && q a).
Proof. intros p q P Q a a' H. rewrite (P a a' H), (Q a a' H). reflexivity. Qed.

Lemma ev_true_ext : forall g ev, extensional (ev_true g ev).
Proof.
  intros g ev a a' H. unfold ev_true. induction ev as [|c ev IH]; simpl; auto.
  rewrite IH. rewrite (key_true_ext g c a a' H). reflexivity.
Qed.

(* ... and therefore every conditional probability *)
Theorem fold_weight_cond : forall w ids g q ev id (b : bool),
    In id ids -> w id == (if b then 1 else 0) ->
    cond_prob w ids (key_true g q) (ev_true g ev)
    == cond_prob w ids (key_true (fold_atom id b g) q) (ev_true (fold_atom id b g) ev).
Proof.
  intros w ids g q ev id b IN W. unfold cond_prob.
  assert (N : wmc w ids (fun a => key_true g q a && ev_true g ev a)
              == wmc w ids (fun a => key_true (fold_atom id b g) q a && ev_true (fold_atom id b g) ev a)).
  { rewrite (fold_weight_wmc w ids _ id b (andb_ext _ _ (key_true_ext g q) (ev_true_ext g ev)) IN W).
    unfold wmc. apply qsum_ext. intros t _. unfold key_true, ev_true, key_true. rewrite fold_atom_val.
    reflexivity. }
  assert (D : wmc w ids (ev_true g ev) == wmc w ids (ev_true (fold_atom id b g) ev)).
  { rewrite (fold_weight_wmc w ids _ id b (ev_true_ext g ev) IN W).
    unfold wmc. apply qsum_ext. intros t _. unfold ev_true, key_true. rewrite fold_atom_val. reflexivity. }
  rewrite N, D. reflexivity.
Qed.

(* ------------------------------------------------------------------ evidence spellings *)
Theorem evidence_syntax_denote : forall x,
    ev_denote (Ev1 x) = ev_denote (Ev2true x) /\ ev_denote (Ev1neg x) = ev_denote (Ev2false x).
Proof. intros; split; reflexivity. Qed.

Definition ev_respell (e : evstmt) : evstmt :=
  match e with Ev1 x => Ev2true x | Ev2true x => Ev1 x | Ev1neg x => Ev2false x | Ev2false x => Ev1neg x end.

Theorem evidence_syntax_cond : forall w ids g keyof q es es',
    map ev_denote es = map ev_denote es' ->
    cond_prob w ids (key_true g q) (ev_true g (ev_lits keyof es))
    = cond_prob w ids (key_true g q) (ev_true g (ev_lits keyof es')).
Proof.
  intros w ids g keyof q es es' H.
  assert (E : ev_lits keyof es = ev_lits keyof es').
  { unfold ev_lits.
    rewrite <- (map_map ev_denote (fun p => let (x, b) := p in if b then keyof x else (- keyof x)%Z) es).
    rewrite <- (map_map ev_denote (fun p => let (x, b) := p in if b then keyof x else (- keyof x)%Z) es').
    now rewrite H. }
  now rewrite E.
Qed.

Lemma respell_denote : forall es, map ev_denote (map ev_respell es) = map ev_denote es.
Proof. induction es as [|e es IH]; simpl; auto. rewrite IH. destruct e; reflexivity. Qed.
