(* C06 — hand model of LogicFormula.propagate (problog/formula.py:964) and of the weight
   folding of LogicFormula.add_atom (formula.py:653).  Executable definitions only.

   Graphs, children, valuations: PL.C09.BoolGraph (and-or graphs with signed children;
   key k >= 1 is the (k-1)-th node; child 0 = TRUE).

   propagate(nodeids, current):
     queue   = set(nodeids)                      -> duplicate-free list of Z
     current = dict  abs(node) -> TRUE | FALSE   -> association list nat -> bool (newest first)
     atoms_in_rules = defaultdict(set)           -> duplicate-free list of (child, parent)
     queue.pop()  takes an ARBITRARY element of a Python set: the model takes the popped
     element from a schedule (list of Z); every theorem quantifies over all schedules, the
     check feeds the schedule observed on the real run.  With an empty schedule the head
     of the queue is taken.  A schedule entry that is not in the queue is an error value. *)
From Coq Require Import ZArith NArith List Bool Lia Arith PeanoNat.
From PL.C09 Require Import BoolGraph.
Import ListNotations.

(* ------------------------------------------------------------------ current *)
Definition cur := list (nat * bool).

Fixpoint cget (c : cur) (k : nat) : option bool :=
  match c with
  | [] => None
  | (j, b) :: r => if Nat.eqb j k then Some b else cget r k
  end.

Definition cset (c : cur) (k : nat) (b : bool) : cur := (k, b) :: c.

(* ------------------------------------------------------------------ queue (a set of nonzero ints) *)
Definition zmem (x : Z) (q : list Z) : bool := existsb (Z.eqb x) q.
Definition qadd (q : list Z) (x : Z) : list Z := if zmem x q then q else q ++ [x].
Fixpoint qremove (x : Z) (q : list Z) : list Z :=
  match q with
  | [] => []
  | y :: r => if Z.eqb x y then qremove x r else y :: qremove x r
  end.

(* ------------------------------------------------------------------ atoms_in_rules *)
Definition par := list (nat * nat).   (* (child key, parent key) *)
Definition pmem (c p : nat) (l : par) : bool := existsb (fun e => Nat.eqb (fst e) c && Nat.eqb (snd e) p) l.
Definition padd (l : par) (c p : nat) : par := if pmem c p l then l else l ++ [(c, p)].
Definition pdiscard (l : par) (c p : nat) : par := filter (fun e => negb (Nat.eqb (fst e) c && Nat.eqb (snd e) p)) l.
Definition pget (l : par) (c : nat) : list nat := map snd (filter (fun e => Nat.eqb (fst e) c) l).

(* the literal  "node k has value b" *)
Definition lit_of (k : nat) (b : bool) : Z := if b then Z.of_nat k else (- Z.of_nat k)%Z.

(* value of a child under current: a constant or the (unchanged) literal *)
Inductive cval := CConst (b : bool) | CLit (c : Z).

Definition child_val (c : cur) (ch : Z) : cval :=
  match ch with
  | Z0 => CConst true
  | _ => match cget c (key_of ch) with
         | Some b => CConst (if (ch <? 0)%Z then negb b else b)
         | None => CLit ch
         end
  end.

Definition is_const (b : bool) (v : cval) : bool :=
  match v with CConst b' => Bool.eqb b b' | CLit _ => false end.

Definition lits_of (vs : list cval) : list Z :=
  flat_map (fun v => match v with CLit c => [c] | CConst _ => [] end) vs.

Record pstate := mkP { p_cur : cur; p_queue : list Z; p_par : par }.

Inductive sres := SOk (st : pstate) | SIncons | SBad.

(* "for at in atoms_in_rules[abs(nid)]: if at in current: queue.add(+-at)" *)
Definition requeue (c : cur) (parents : list nat) (q : list Z) : list Z :=
  fold_left (fun q at' => match cget c at' with
                          | Some b => qadd q (lit_of at' b)
                          | None => q
                          end) parents q.

(* body of the while loop for the popped element nid (already removed from the queue) *)
Definition process (g : graph) (st : pstate) (nid : Z) : sres :=
  let k := key_of nid in
  let pos := (0 <? nid)%Z in
  match node_at g k with
  | None => SBad
  | Some nd =>
    let q1 := match cget (p_cur st) k with
              | None => requeue (p_cur st) (pget (p_par st) k) (p_queue st)
              | Some _ => p_queue st
              end in
    let c1 := cset (p_cur st) k pos in
    match nd with
    | NAtom _ => SOk (mkP c1 q1 (p_par st))
    | _ =>
      let isand := match nd with NAnd _ => true | _ => false end in
      let vals := map (child_val c1) (children nd) in
      let has_false := existsb (is_const false) vals in
      let has_true := existsb (is_const true) vals in
      if isand && has_false && pos then SIncons
      else if negb isand && has_true && negb pos then SIncons
      else if isand && has_false && negb pos then SOk (mkP c1 q1 (p_par st))
      else if negb isand && has_true && pos then SOk (mkP c1 q1 (p_par st))
      else
        let lits := lits_of vals in
        match lits with
        | [c] =>
          match cget c1 (key_of c) with
          | None => SOk (mkP c1 (qadd q1 (if pos then c else (- c)%Z)) (pdiscard (p_par st) (key_of c) k))
          | Some _ => SOk (mkP c1 q1 (p_par st))
          end
        | _ =>
          if pos && isand then
            SOk (mkP c1
                     (fold_left (fun q c => match cget c1 (key_of c) with None => qadd q c | Some _ => q end) lits q1)
                     (fold_left (fun p c => pdiscard p (key_of c) k) lits (p_par st)))
          else if negb pos && negb isand then
            SOk (mkP c1
                     (fold_left (fun q c => match cget c1 (key_of c) with None => qadd q (- c)%Z | Some _ => q end) lits q1)
                     (fold_left (fun p c => pdiscard p (key_of c) k) lits (p_par st)))
          else
            SOk (mkP c1 q1 (fold_left (fun p c => padd p (key_of c) k) lits (p_par st)))
        end
    end
  end.

Inductive outcome := Done (c : cur) | Inconsistent | OutOfFuel | BadNode | BadSched.

Fixpoint run (g : graph) (sched : list Z) (fuel : nat) (st : pstate) : outcome :=
  match fuel with
  | O => OutOfFuel
  | S f =>
    match p_queue st with
    | [] => Done (p_cur st)
    | x :: _ =>
      let pick := match sched with
                  | [] => Some x
                  | y :: _ => if zmem y (p_queue st) then Some y else None
                  end in
      match pick with
      | None => BadSched
      | Some nid =>
        match process g (mkP (p_cur st) (qremove nid (p_queue st)) (p_par st)) nid with
        | SOk st' => run g (tl sched) f st'
        | SIncons => Inconsistent
        | SBad => BadNode
        end
      end
    end
  end.

(* target.propagate(ev_nodes, current) *)
Definition propagate_m (g : graph) (ev : list Z) (current : cur) (sched : list Z) (fuel : nat) : outcome :=
  run g sched fuel (mkP current (fold_left qadd ev []) []).

(* observation used by the check: value table of keys 1..n  (0 = absent, 1 = TRUE, 2 = FALSE) *)
Definition cur_table (c : cur) (n : nat) : list nat :=
  map (fun k => match cget c k with None => 0 | Some true => 1 | Some false => 2 end) (seq 1 n).

(* ------------------------------------------------------------------ use of the result *)
(* get_evidence_value: the key of a literal after propagation (None = FALSE, Some 0 = TRUE) *)
Definition evidence_value (m : cur) (c : Z) : option Z :=
  match c with
  | Z0 => Some 0%Z
  | _ => match cget m (key_of c) with
         | Some b => if (if (c <? 0)%Z then negb b else b) then Some 0%Z else None
         | None => Some c
         end
  end.

(* one-pass evaluation of a DAG in which every node listed in m is replaced by its constant
   (what the engine / break_cycles do with lookup_evidence when they meet such a node) *)
Fixpoint dag_eval_c (m : cur) (a : N -> bool) (g : list node) (acc : list bool) : list bool :=
  match g with
  | [] => acc
  | nd :: r =>
    let v := match cget m (S (length acc)) with
             | Some b => b
             | None => eval_node a (lit_val (vget acc)) nd
             end in
    dag_eval_c m a r (acc ++ [v])
  end.

Definition dag_val_c (m : cur) (a : N -> bool) (g : graph) : list bool := dag_eval_c m a g [].

(* ------------------------------------------------------------------ weight folding (add_atom with a semiring) *)
(* an atom of weight one becomes TRUE (= empty conjunction), of weight zero FALSE (= empty disjunction) *)
Definition fold_atom (id : N) (b : bool) (g : graph) : graph :=
  map (fun nd => match nd with
                 | NAtom j => if N.eqb j id then (if b then NAnd [] else NOr []) else nd
                 | _ => nd
                 end) g.

Definition upd (a : N -> bool) (id : N) (b : bool) : N -> bool :=
  fun j => if N.eqb j id then b else a j.

(* ------------------------------------------------------------------ evidence statements *)
(* evidence(a) | evidence(a,true) | evidence(\+a) | evidence(a,false); engine.ground_evidence
   labels the grounded atom LABEL_EVIDENCE_POS / LABEL_EVIDENCE_NEG *)
Inductive evstmt := Ev1 (atom : N) | Ev2true (atom : N) | Ev1neg (atom : N) | Ev2false (atom : N).

Definition ev_denote (e : evstmt) : N * bool :=
  match e with
  | Ev1 x => (x, true)
  | Ev2true x => (x, true)
  | Ev1neg x => (x, false)
  | Ev2false x => (x, false)
  end.
