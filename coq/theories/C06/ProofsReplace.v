(* C06 — conditioning invariance on possibly cyclic ground programs: a stable model in which the
   propagated values hold is still a stable model after the propagated nodes became constants. *)
From Coq Require Import ZArith NArith List Bool Lia Arith PeanoNat.
From PL.C09 Require Import BoolGraph.
From PL.C06 Require Import ModelPropagate ProofsPropagate ModelReplace.
Import ListNotations.

Lemma nth_error_map_combine_seq : forall (A B : Type) (f : nat * A -> B) (g : list A) (st i : nat),
    nth_error (map f (combine (seq st (length g)) g)) i =
    match nth_error g i with Some x => Some (f (st + i, x)) | None => None end.
Proof.
  intros A B f g. induction g as [|x g IH]; intros st i; simpl.
  - destruct i; reflexivity.
  - destruct i; simpl. now rewrite Nat.add_0_r.
    rewrite IH. replace (S st + i) with (st + S i) by lia. reflexivity.
Qed.

Lemma replace_length : forall m g, length (replace_consts m g) = length g.
Proof.
  intros. unfold replace_consts. rewrite map_length, combine_length, seq_length. lia.
Qed.

Lemma node_at_replace : forall m g k,
    node_at (replace_consts m g) k =
    match node_at g k with Some nd => Some (const_node m k nd) | None => None end.
Proof.
  intros m g [|i]; simpl; auto. unfold replace_consts.
  rewrite nth_error_map_combine_seq. destruct (nth_error g i); reflexivity.
Qed.

Section Replace.
  Variable g : graph.
  Variable a : N -> bool.
  Variable s : nat -> bool.
  Variable m : cur.
  Hypothesis M : is_model g a s.
  Hypothesis H : holds_in s m.

  Let g' := replace_consts m g.

  Lemma s_supported : supported g a s.
  Proof. apply model_supported; exact M. Qed.

  Lemma s_prefix_g : vle (fstep g a s noblk s) s.
  Proof.
    intros k E. unfold fstep in E. rewrite (s_supported k).
    destruct (node_at g k) as [nd|]; [|discriminate]. unfold noblk in E.
    rewrite <- E. apply eval_node_ext. intros c _. symmetry. apply rlit_val_self.
  Qed.

  Lemma s_prefix_g' : vle (fstep g' a s noblk s) s.
  Proof.
    intros k E. unfold fstep, g' in E. rewrite node_at_replace in E.
    destruct (node_at g k) as [nd|] eqn:ND; [|discriminate]. unfold noblk in E.
    unfold const_node in E. destruct (cget m k) as [[|]|] eqn:C.
    - apply H in C. exact C.
    - simpl in E. discriminate.
    - rewrite (s_supported k), ND. rewrite <- E. apply eval_node_ext. intros c _. symmetry. apply rlit_val_self.
  Qed.

  Lemma iter_le : forall n, vle (fiter g a s noblk n) (fiter g' a s noblk n).
  Proof.
    induction n as [|n IH]. apply vle_refl.
    intros k E.
    assert (SK : s k = true).
    { apply (fiter_least g a s noblk s s_prefix_g (S n)). exact E. }
    simpl in *. unfold fstep in *. unfold g'. rewrite node_at_replace.
    destruct (node_at g k) as [nd|] eqn:ND; [|discriminate]. unfold noblk in *.
    unfold const_node. destruct (cget m k) as [[|]|] eqn:C.
    - reflexivity.
    - apply H in C. congruence.
    - revert E. apply eval_node_mono. intros c _. apply rlit_val_mono. exact IH.
  Qed.

  Theorem replace_is_model : is_model (replace_consts m g) a s.
  Proof.
    intros k. fold g'.
    assert (A1 : vle (lfpf g' a s noblk) s) by (apply lfp_least; exact s_prefix_g').
    assert (A2 : vle s (lfpf g' a s noblk)).
    { intros j E. rewrite (M j) in E. unfold lfpf in *. unfold g' at 2. rewrite replace_length.
      apply iter_le. exact E. }
    destruct (s k) eqn:E1; destruct (lfpf g' a s noblk k) eqn:E2; auto.
    - apply A2 in E1. congruence.
    - apply A1 in E2. congruence.
  Qed.
End Replace.

(* together with propagation: every stable model of the ground program that satisfies the evidence is a
   stable model of the program with the propagated nodes replaced by constants; for stratified programs
   it is THE model, so every query literal has the same value in every world that satisfies the evidence *)
Theorem propagate_replace_model : forall g a s ev sched fuel m,
    is_model g a s -> sat_lits s ev -> propagate_m g ev [] sched fuel = Done m ->
    is_model (replace_consts m g) a s.
Proof.
  intros g a s ev sched fuel m M EV P. apply replace_is_model; auto.
  eapply propagate_sound; eauto.
Qed.

Theorem propagate_replace_unique : forall g a s s' ev sched fuel m,
    is_model g a s -> sat_lits s ev -> propagate_m g ev [] sched fuel = Done m ->
    stratified (replace_consts m g) -> is_model (replace_consts m g) a s' ->
    forall k, s' k = s k.
Proof.
  intros g a s s' ev sched fuel m M EV P ST M' k.
  apply (stratified_model_unique (replace_consts m g) a s' s ST M').
  eapply propagate_replace_model; eauto.
Qed.
