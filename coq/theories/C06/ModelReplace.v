(* C06 — the ground program in which the nodes fixed by evidence propagation are replaced by
   constants (TRUE = empty conjunction, FALSE = empty disjunction); possibly cyclic graphs. *)
From Coq Require Import ZArith NArith List Bool Arith.
From PL.C09 Require Import BoolGraph.
From PL.C06 Require Import ModelPropagate.
Import ListNotations.

Definition const_node (m : cur) (k : nat) (nd : node) : node :=
  match cget m k with
  | Some true => NAnd []
  | Some false => NOr []
  | None => nd
  end.

Definition replace_consts (m : cur) (g : graph) : graph :=
  map (fun kn => const_node m (fst kn) (snd kn)) (combine (seq 1 (length g)) g).
