(* C06 — perturbation bounds for approximate weight folding. *)
From Coq Require Import QArith Qabs ZArith NArith List Bool Lia Lqa Setoid.
From PL.C09 Require Import BoolGraph.
From PL.C06 Require Import ModelPropagate ModelWMC ProofsWMC ModelFoldApprox.
Import ListNotations.

(* ------------------------------------------------------------------ sums *)
Lemma qsum_app : forall l1 l2, qsum (l1 ++ l2) == qsum l1 + qsum l2.
Proof. induction l1 as [|x l1 IH]; intros l2; simpl. ring. rewrite IH. ring. Qed.

Lemma qsum_scale : forall (A : Type) (f : A -> Q) c l,
    qsum (map (fun t => c * f t) l) == c * qsum (map f l).
Proof. induction l as [|x l IH]; simpl. ring. rewrite IH. ring. Qed.

Lemma qsum_le : forall (A : Type) (f h : A -> Q) l,
    (forall x, In x l -> f x <= h x) -> qsum (map f l) <= qsum (map h l).
Proof.
  induction l as [|x l IH]; simpl; intros H. apply Qle_refl.
  apply Qplus_le_compat. apply H; auto. apply IH. intros; apply H; auto.
Qed.

Lemma sublists_incl : forall ids t, In t (sublists ids) -> forall y, In y t -> In y ids.
Proof.
  induction ids as [|x r IH]; simpl; intros t H y Hy.
  - destruct H as [<-|[]]. destruct Hy.
  - apply in_app_or in H. destruct H as [H|H].
    + apply in_map_iff in H. destruct H as [s [<- Hs]]. destruct Hy as [<-|Hy]; auto.
      right. eapply IH; eauto.
    + right. eapply IH; eauto.
Qed.

Lemma wt_ext : forall w ids a a', (forall y, In y ids -> a y = a' y) -> wt w ids a = wt w ids a'.
Proof.
  induction ids as [|x r IH]; simpl; intros a a' H; auto.
  rewrite (H x) by auto. rewrite (IH a a') by auto. reflexivity.
Qed.

Lemma asg_of_cons : forall x t y, asg_of (x :: t) y = upd (asg_of t) x true y.
Proof. intros. unfold asg_of, upd. simpl. destruct (N.eqb y x); reflexivity. Qed.

Lemma asg_of_notin : forall t x, ~ In x t -> asg_of t x = false.
Proof.
  unfold asg_of. induction t as [|y t IH]; simpl; intros x H; auto.
  apply orb_false_iff. split. apply N.eqb_neq. intuition. apply IH. intuition.
Qed.

Lemma wmc_pw : forall w ids phi psi, (forall a, phi a = psi a) -> wmc w ids phi = wmc w ids psi.
Proof. intros w ids phi psi H. unfold wmc. f_equal. apply map_ext. intros t. rewrite H. reflexivity. Qed.

(* ------------------------------------------------------------------ Shannon expansion *)
Lemma wmc_cons : forall w x r phi, extensional phi -> ~ In x r ->
    wmc w (x :: r) phi ==
    w x * wmc w r (fun a => phi (upd a x true)) + (1 - w x) * wmc w r (fun a => phi (upd a x false)).
Proof.
  intros w x r phi E NI. unfold wmc. cbn [sublists]. rewrite map_app, qsum_app, map_map.
  rewrite <- (qsum_scale _ (fun t => if phi (upd (asg_of t) x true) then wt w r (asg_of t) else 0) (w x)).
  rewrite <- (qsum_scale _ (fun t => if phi (upd (asg_of t) x false) then wt w r (asg_of t) else 0) (1 - w x)).
  apply Qplus_comp; apply qsum_ext; intros t Ht.
  - assert (E1 : phi (asg_of (x :: t)) = phi (upd (asg_of t) x true)).
    { apply E. intros y. apply asg_of_cons. }
    rewrite E1. destruct (phi (upd (asg_of t) x true)); [|ring].
    cbn [wt]. rewrite asg_of_cons. unfold upd at 1. rewrite N.eqb_refl.
    rewrite (wt_ext w r (asg_of (x :: t)) (asg_of t)). reflexivity.
    intros y Hy. rewrite asg_of_cons. unfold upd. destruct (N.eqb y x) eqn:Eq; auto.
    apply N.eqb_eq in Eq. subst. tauto.
  - assert (NT : asg_of t x = false).
    { apply asg_of_notin. intros Hx. apply NI. eapply sublists_incl; eauto. }
    assert (E1 : phi (asg_of t) = phi (upd (asg_of t) x false)).
    { apply E. intros y. unfold upd. destruct (N.eqb y x) eqn:Eq; auto.
      apply N.eqb_eq in Eq. subst. auto. }
    rewrite <- E1. destruct (phi (asg_of t)); [|ring].
    cbn [wt]. rewrite NT. reflexivity.
Qed.

Lemma ext_upd : forall phi x v, extensional phi -> extensional (fun a => phi (upd a x v)).
Proof.
  intros phi x v E a a' H. apply E. intros y. unfold upd. destruct (N.eqb y x); auto.
Qed.

Lemma w01_tail : forall w x r, w01 w (x :: r) -> w01 w r.
Proof. intros w x r H y Hy. apply H. right. auto. Qed.

(* ------------------------------------------------------------------ bounds *)
Lemma wt_nonneg : forall w ids a, w01 w ids -> 0 <= wt w ids a.
Proof.
  induction ids as [|x r IH]; simpl; intros a W. discriminate.
  destruct (W x (or_introl eq_refl)) as [W0 W1].
  apply Qmult_le_0_compat. destruct (a x); lra. apply IH. eapply w01_tail; eauto.
Qed.

Lemma wmc_mono : forall w ids phi psi, w01 w ids ->
    (forall a, phi a = true -> psi a = true) -> wmc w ids phi <= wmc w ids psi.
Proof.
  intros w ids phi psi W H. unfold wmc. apply qsum_le. intros t _.
  destruct (phi (asg_of t)) eqn:P.
  - rewrite (H _ P). apply Qle_refl.
  - destruct (psi (asg_of t)). apply wt_nonneg; auto. apply Qle_refl.
Qed.

Lemma wmc_nonneg : forall w ids phi, w01 w ids -> 0 <= wmc w ids phi.
Proof.
  intros w ids phi W.
  assert (Z0 : wmc w ids (fun _ => false) == 0) by (unfold wmc; apply qsum_zero).
  rewrite <- Z0. apply wmc_mono; auto. discriminate.
Qed.

Lemma wmc_bounds : forall w ids, NoDup ids -> w01 w ids ->
    forall phi, extensional phi -> 0 <= wmc w ids phi /\ wmc w ids phi <= 1.
Proof.
  induction ids as [|x r IH]; intros ND W phi E.
  - unfold wmc. simpl. destruct (phi (asg_of [])); simpl; split; lra.
  - inversion ND as [|x' r' NI ND']; subst.
    destruct (W x (or_introl eq_refl)) as [W0 W1].
    destruct (IH ND' (w01_tail _ _ _ W) _ (ext_upd phi x true E)) as [A0 A1].
    destruct (IH ND' (w01_tail _ _ _ W) _ (ext_upd phi x false E)) as [B0 B1].
    rewrite (wmc_cons w x r phi E NI). split; nra.
Qed.

Lemma mul_bound : forall d u v : Q, - d <= u -> u <= d -> -(1) <= v -> v <= 1 -> - d <= u * v /\ u * v <= d.
Proof. intros. split; nra. Qed.

Lemma upd_upd_same : forall a id v b y, upd (upd a id v) id b y = upd a id b y.
Proof. intros. unfold upd. destruct (N.eqb y id); reflexivity. Qed.

Lemma upd_comm : forall a x v id b y, x <> id -> upd (upd a x v) id b y = upd (upd a id b) x v y.
Proof.
  intros a x v id b y NE. unfold upd.
  destruct (N.eqb y id) eqn:E1; destruct (N.eqb y x) eqn:E2; auto.
  apply N.eqb_eq in E1. apply N.eqb_eq in E2. congruence.
Qed.

(* ------------------------------------------------------------------ one folded atom *)
(* the folded atom's own weight is NOT required to lie in [0,1] (value() accepts 1+1e-9) *)
Theorem fold_approx_single : forall w id (b : bool) d ids,
    NoDup ids -> In id ids ->
    (forall x, In x ids -> x <> id -> 0 <= w x /\ w x <= 1) ->
    near (w id) b d ->
    forall phi, extensional phi ->
    Qabs (wmc w ids phi - wmc w ids (fun a => phi (upd a id b))) <= d.
Proof.
  intros w id b d. induction ids as [|x r IH]; intros ND IN W NR phi E. destruct IN.
  inversion ND as [|x' r' NI ND']; subst.
  apply Qabs_Qle_condition.
  rewrite (wmc_cons w x r phi E NI).
  rewrite (wmc_cons w x r _ (ext_upd phi id b E) NI).
  destruct (N.eq_dec x id) as [->|NE].
  - (* the folded atom is the head: every other weight is a probability *)
    assert (W' : w01 w r).
    { intros y Hy. apply W. right; auto. intros ->. tauto. }
    destruct (wmc_bounds w r ND' W' _ (ext_upd phi id true E)) as [A0 A1].
    destruct (wmc_bounds w r ND' W' _ (ext_upd phi id false E)) as [B0 B1].
    rewrite (wmc_pw w r (fun a => phi (upd (upd a id true) id b)) (fun a => phi (upd a id b)))
      by (intros a; apply E; intros y; apply upd_upd_same).
    rewrite (wmc_pw w r (fun a => phi (upd (upd a id false) id b)) (fun a => phi (upd a id b)))
      by (intros a; apply E; intros y; apply upd_upd_same).
    set (A := wmc w r (fun a => phi (upd a id true))) in *.
    set (B := wmc w r (fun a => phi (upd a id false))) in *.
    unfold near in NR. apply Qabs_Qle_condition in NR. destruct NR as [N1 N2].
    destruct b.
    + fold A.
      assert (M : - d <= (w id - 1) * (A - B) /\ (w id - 1) * (A - B) <= d) by (apply mul_bound; lra).
      destruct M as [M1 M2]. split; lra.
    + fold B.
      assert (M : - d <= (w id - 0) * (A - B) /\ (w id - 0) * (A - B) <= d) by (apply mul_bound; lra).
      destruct M as [M1 M2]. split; lra.
  - destruct IN as [->|IN]. congruence.
    destruct (W x (or_introl eq_refl) NE) as [W0 W1].
    assert (W' : forall y, In y r -> y <> id -> 0 <= w y /\ w y <= 1) by (intros; apply W; auto; right; auto).
    pose proof (IH ND' IN W' NR _ (ext_upd phi x true E)) as HA.
    pose proof (IH ND' IN W' NR _ (ext_upd phi x false E)) as HB.
    apply Qabs_Qle_condition in HA. apply Qabs_Qle_condition in HB.
    rewrite (wmc_pw w r (fun a => phi (upd (upd a x true) id b)) (fun a => phi (upd (upd a id b) x true)))
      by (intros a; apply E; intros y; apply upd_comm; auto).
    rewrite (wmc_pw w r (fun a => phi (upd (upd a x false) id b)) (fun a => phi (upd (upd a id b) x false)))
      by (intros a; apply E; intros y; apply upd_comm; auto).
    destruct HA as [HA1 HA2]. destruct HB as [HB1 HB2].
    set (A := wmc w r (fun a => phi (upd a x true))) in *.
    set (A' := wmc w r (fun a => phi (upd (upd a id b) x true))) in *.
    set (B := wmc w r (fun a => phi (upd a x false))) in *.
    set (B' := wmc w r (fun a => phi (upd (upd a id b) x false))) in *.
    split; nra.
Qed.

(* ------------------------------------------------------------------ k folded atoms *)
Lemma upds_ext : forall fs a a', (forall y, a y = a' y) -> forall y, upds fs a y = upds fs a' y.
Proof.
  induction fs as [|[id b] r IH]; simpl; intros a a' H y; auto.
  apply IH. intros z. unfold upd. destruct (N.eqb z id); auto.
Qed.

Lemma ext_upds : forall phi fs, extensional phi -> extensional (fun a => phi (upds fs a)).
Proof. intros phi fs E a a' H. apply E. apply upds_ext. exact H. Qed.

Lemma qnat_S : forall n, qnat (S n) == qnat n + 1.
Proof. intros n. unfold qnat. rewrite Nat2Z.inj_succ. unfold Z.succ. rewrite inject_Z_plus. reflexivity. Qed.

Definition folds_ok (w : N -> Q) (ids : list N) (fs : list (N * bool)) (d : Q) : Prop :=
  forall id b, In (id, b) fs -> In id ids /\ near (w id) b d.

Theorem fold_approx_k : forall w ids d, NoDup ids -> w01 w ids ->
    forall fs, folds_ok w ids fs d ->
    forall phi, extensional phi ->
    Qabs (wmc w ids phi - wmc w ids (fun a => phi (upds fs a))) <= qnat (length fs) * d.
Proof.
  intros w ids d ND W. induction fs as [|[id b] r IH]; intros OK phi E.
  - cbn [upds length]. apply Qabs_Qle_condition.
    assert (Z0 : qnat 0 == 0) by reflexivity. rewrite Z0.
    assert (X : forall y z : Q, y = z -> - (0 * d) <= y - z /\ y - z <= 0 * d) by (intros; subst; split; lra).
    apply X. reflexivity.
  - cbn [upds length]. rewrite qnat_S.
    assert (OK' : folds_ok w ids r d) by (intros i c Hi; apply OK; right; auto).
    destruct (OK id b (or_introl eq_refl)) as [IN NR].
    pose proof (IH OK' phi E) as H1.
    pose proof (fold_approx_single w id b d ids ND IN (fun x Hx _ => W x Hx) NR _ (ext_upds phi r E)) as H2.
    cbv beta in H2.
    apply Qabs_Qle_condition in H1. apply Qabs_Qle_condition in H2. apply Qabs_Qle_condition.
    destruct H1, H2. split; lra.
Qed.

(* ------------------------------------------------------------------ graph level *)
Lemma fold_atoms_val : forall fs a g, dag_val a (fold_atoms fs g) = dag_val (upds fs a) g.
Proof.
  induction fs as [|[id b] r IH]; intros a g; simpl; auto.
  rewrite fold_atom_val. apply IH.
Qed.

Lemma key_true_folds : forall fs g c a, key_true (fold_atoms fs g) c a = key_true g c (upds fs a).
Proof. intros. unfold key_true. rewrite fold_atoms_val. reflexivity. Qed.

Lemma ev_true_folds : forall fs g ev a, ev_true (fold_atoms fs g) ev a = ev_true g ev (upds fs a).
Proof.
  intros. unfold ev_true. induction ev as [|c ev IH]; simpl; auto.
  rewrite IH, key_true_folds. reflexivity.
Qed.

Theorem fold_approx_wmc_single : forall w ids g c id (b : bool) d,
    NoDup ids -> In id ids ->
    (forall x, In x ids -> x <> id -> 0 <= w x /\ w x <= 1) ->
    near (w id) b d ->
    Qabs (wmc w ids (key_true g c) - wmc w ids (key_true (fold_atom id b g) c)) <= d.
Proof.
  intros w ids g c id b d ND IN W NR.
  rewrite (wmc_pw w ids (key_true (fold_atom id b g) c) (fun a => key_true g c (upd a id b))).
  - apply fold_approx_single; auto. apply key_true_ext.
  - intros a. unfold key_true. rewrite fold_atom_val. reflexivity.
Qed.

Theorem fold_approx_wmc_k : forall w ids g c fs d,
    NoDup ids -> w01 w ids -> folds_ok w ids fs d ->
    Qabs (wmc w ids (key_true g c) - wmc w ids (key_true (fold_atoms fs g) c)) <= qnat (length fs) * d.
Proof.
  intros w ids g c fs d ND W OK.
  rewrite (wmc_pw w ids (key_true (fold_atoms fs g) c) (fun a => key_true g c (upds fs a)))
    by (intros a; apply key_true_folds).
  apply fold_approx_k; auto. apply key_true_ext.
Qed.

(* ------------------------------------------------------------------ conditional probabilities *)
Lemma Qdiv_le_cross : forall a b c d : Q, 0 < b -> 0 < d -> a * d <= c * b -> a / b <= c / d.
Proof.
  intros a b c d Hb Hd H.
  apply Qle_shift_div_l; auto.
  assert (E : a / b * d == (a * d) / b) by (field; lra).
  rewrite E. apply Qle_shift_div_r; auto.
Qed.

(* N/D against N'/D' when numerator and denominator move by at most e < D *)
Lemma ratio_bound : forall N D N' D' e : Q,
    0 <= N -> N <= D -> - e <= N - N' -> N - N' <= e -> - e <= D - D' -> D - D' <= e -> e < D ->
    Qabs (N / D - N' / D') <= 2 * e / (D - e).
Proof.
  intros N D N' D' e N0 ND n1 n2 d1 d2 eD.
  assert (e0 : 0 <= e) by lra.
  assert (D0 : 0 < D) by lra.
  assert (D'0 : 0 < D') by lra.
  assert (De : 0 < D - e) by lra.
  assert (X : N / D - N' / D' == (N * D' - N' * D) / (D * D')) by (field; lra).
  rewrite X.
  assert (DD : 0 < D * D') by nra.
  (* |N D' - N' D| = |N (D' - D) + D (N - N')| <= N e + D e <= 2 D e *)
  assert (U1 : N * D' - N' * D <= 2 * (D * e)) by nra.
  assert (U2 : - (2 * (D * e)) <= N * D' - N' * D) by nra.
  assert (L : 2 * (D * e) * (D - e) <= 2 * e * (D * D')) by nra.
  apply Qabs_Qle_condition. split.
  - assert (Y : - (2 * e / (D - e)) == (- (2 * e)) / (D - e)) by (field; lra).
    rewrite Y. apply Qdiv_le_cross; auto.
    assert (P : (N * D' - N' * D) * (D - e) >= - (2 * (D * e)) * (D - e)) by nra.
    nra.
  - apply Qdiv_le_cross; auto.
    assert (P : (N * D' - N' * D) * (D - e) <= 2 * (D * e) * (D - e)) by nra.
    nra.
Qed.

Lemma andb_ext' : forall p q, extensional p -> extensional q -> extensional (fun a => p a && q a).
Proof. intros p q P Q a a' H. rewrite (P a a' H), (Q a a' H). reflexivity. Qed.

Theorem fold_approx_cond_k : forall w ids g q ev fs d,
    NoDup ids -> w01 w ids -> folds_ok w ids fs d ->
    qnat (length fs) * d < wmc w ids (ev_true g ev) ->
    Qabs (cond_prob w ids (key_true g q) (ev_true g ev)
          - cond_prob w ids (key_true (fold_atoms fs g) q) (ev_true (fold_atoms fs g) ev))
    <= 2 * (qnat (length fs) * d) / (wmc w ids (ev_true g ev) - qnat (length fs) * d).
Proof.
  intros w ids g q ev fs d ND W OK PE. unfold cond_prob.
  set (e := qnat (length fs) * d) in *.
  pose proof (fold_approx_k w ids d ND W fs OK (fun a => key_true g q a && ev_true g ev a)
                (andb_ext' _ _ (key_true_ext g q) (ev_true_ext g ev))) as HN.
  pose proof (fold_approx_k w ids d ND W fs OK (ev_true g ev) (ev_true_ext g ev)) as HD.
  cbv beta in HN, HD. fold e in HN, HD.
  rewrite (wmc_pw w ids (fun a => key_true (fold_atoms fs g) q a && ev_true (fold_atoms fs g) ev a)
                  (fun a => key_true g q (upds fs a) && ev_true g ev (upds fs a)))
    by (intros a; rewrite key_true_folds, ev_true_folds; reflexivity).
  rewrite (wmc_pw w ids (ev_true (fold_atoms fs g) ev) (fun a => ev_true g ev (upds fs a)))
    by (intros a; apply ev_true_folds).
  apply Qabs_Qle_condition in HN. apply Qabs_Qle_condition in HD.
  destruct HN as [HN1 HN2]. destruct HD as [HD1 HD2].
  apply ratio_bound; auto.
  - apply wmc_nonneg; auto.
  - apply wmc_mono; auto. intros a H. apply andb_true_iff in H. tauto.
Qed.

(* one folded atom, as an instance *)
Theorem fold_approx_cond_single : forall w ids g q ev id (b : bool) d,
    NoDup ids -> w01 w ids -> In id ids -> near (w id) b d ->
    d < wmc w ids (ev_true g ev) ->
    Qabs (cond_prob w ids (key_true g q) (ev_true g ev)
          - cond_prob w ids (key_true (fold_atom id b g) q) (ev_true (fold_atom id b g) ev))
    <= 2 * d / (wmc w ids (ev_true g ev) - d).
Proof.
  intros w ids g q ev id b d ND W IN NR PE.
  assert (OK : folds_ok w ids [(id, b)] d).
  { intros i c [H|[]]. inversion H; subst. auto. }
  assert (K : qnat (length [(id, b)]) * d == d) by (unfold qnat; simpl; ring).
  pose proof (fold_approx_cond_k w ids g q ev [(id, b)] d ND W OK) as H.
  rewrite K in H. simpl fold_atoms in H. apply H. exact PE.
Qed.

(* ------------------------------------------------------------------ the thresholds of evaluator.py *)
Lemma folds_ok_lt : forall w ids fs d,
    (forall id (b : bool), In (id, b) fs -> In id ids /\ Qabs (w id - (if b then 1 else 0)) < d) ->
    folds_ok w ids fs d.
Proof. intros w ids fs d H id b Hi. destruct (H id b Hi) as [H1 H2]. split; auto. unfold near. apply Qlt_le_weak. exact H2. Qed.

Theorem fold_thresholds :
  (* SemiringProbability: is_one / is_zero, 1e-12 *)
  (forall w ids g c id (b : bool),
      NoDup ids -> In id ids -> (forall x, In x ids -> x <> id -> 0 <= w x /\ w x <= 1) ->
      Qabs (w id - (if b then 1 else 0)) < thr_prob ->
      Qabs (wmc w ids (key_true g c) - wmc w ids (key_true (fold_atom id b g) c)) <= thr_prob) /\
  (* SemiringLogProbability: value() maps -1e-9 <= v < 1e-9 to -inf, which is_zero *)
  (forall w ids g c id,
      NoDup ids -> In id ids -> (forall x, In x ids -> x <> id -> 0 <= w x /\ w x <= 1) ->
      - thr_log_zero <= w id -> w id < thr_log_zero ->
      Qabs (wmc w ids (key_true g c) - wmc w ids (key_true (fold_atom id false g) c)) <= thr_log_zero) /\
  (* k atoms folded under SemiringProbability, unconditional and conditional *)
  (forall w ids g q ev fs,
      NoDup ids -> w01 w ids ->
      (forall id (b : bool), In (id, b) fs -> In id ids /\ Qabs (w id - (if b then 1 else 0)) < thr_prob) ->
      Qabs (wmc w ids (key_true g q) - wmc w ids (key_true (fold_atoms fs g) q)) <= qnat (length fs) * thr_prob /\
      (qnat (length fs) * thr_prob < wmc w ids (ev_true g ev) ->
       Qabs (cond_prob w ids (key_true g q) (ev_true g ev)
             - cond_prob w ids (key_true (fold_atoms fs g) q) (ev_true (fold_atoms fs g) ev))
       <= 2 * (qnat (length fs) * thr_prob) / (wmc w ids (ev_true g ev) - qnat (length fs) * thr_prob))).
Proof.
  split; [|split].
  - intros w ids g c id b ND IN W NR. apply fold_approx_wmc_single; auto.
    unfold near. apply Qlt_le_weak. exact NR.
  - intros w ids g c id ND IN W L U. apply fold_approx_wmc_single; auto.
    unfold near. apply Qabs_Qle_condition. split; lra.
  - intros w ids g q ev fs ND W OK. apply folds_ok_lt in OK. split.
    + apply fold_approx_wmc_k; auto.
    + intros PE. apply fold_approx_cond_k; auto.
Qed.

(* a usable consequence: with at most 4 folded atoms and P(evidence) >= 1/100 every conditional
   probability moves by less than 1e-9 (the tolerance of the differential check) *)
Theorem fold_tolerance : forall w ids g q ev fs,
    NoDup ids -> w01 w ids ->
    (forall id (b : bool), In (id, b) fs -> In id ids /\ Qabs (w id - (if b then 1 else 0)) < thr_prob) ->
    (length fs <= 4)%nat -> 1 # 100 <= wmc w ids (ev_true g ev) ->
    Qabs (cond_prob w ids (key_true g q) (ev_true g ev)
          - cond_prob w ids (key_true (fold_atoms fs g) q) (ev_true (fold_atoms fs g) ev))
    <= 1 # 1000000000.
Proof.
  intros w ids g q ev fs ND W OK K PE.
  assert (K4 : qnat (length fs) <= 4).
  { unfold qnat. change 4 with (inject_Z 4). rewrite <- Zle_Qle. lia. }
  assert (K0 : 0 <= qnat (length fs)).
  { unfold qnat. change 0 with (inject_Z 0). rewrite <- Zle_Qle. lia. }
  set (k := qnat (length fs)) in *.
  assert (T : thr_prob == 1 # 1000000000000) by reflexivity.
  assert (KT : k * thr_prob <= 4 # 1000000000000) by (rewrite T; lra).
  assert (KT0 : 0 <= k * thr_prob) by (rewrite T; lra).
  destruct (fold_thresholds) as [_ [_ H]].
  destruct (H w ids g q ev fs ND W OK) as [_ HC]. fold k in HC.
  eapply Qle_trans. apply HC. lra.
  apply Qle_shift_div_r. lra. lra.
Qed.
