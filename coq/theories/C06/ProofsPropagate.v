(* C06 — soundness of the model of LogicFormula.propagate, w.r.t. every supported valuation
   (fixpoint of the one-step operator) of the and-or graph; stable / least / DAG models are
   supported (BoolGraph.model_supported, dag_val_supported). *)
From Coq Require Import ZArith NArith List Bool Lia Arith PeanoNat.
From PL.C09 Require Import BoolGraph.
From PL.C06 Require Import ModelPropagate.
Import ListNotations.

Lemma zmem_In : forall x q, zmem x q = true <-> In x q.
Proof.
  intros x q. unfold zmem. rewrite existsb_exists. split.
  - intros [y [H E]]. apply Z.eqb_eq in E. subst. auto.
  - intros H. exists x. split; auto. apply Z.eqb_refl.
Qed.

Lemma qremove_In : forall x y q, In y (qremove x q) -> In y q.
Proof.
  induction q as [|z q IH]; simpl; auto.
  destruct (Z.eqb x z); simpl; intros H; auto. destruct H; auto.
Qed.

Lemma lit_val_of_nat : forall s k, (1 <= k)%nat -> lit_val s (Z.of_nat k) = s k.
Proof.
  intros s [|n] H. lia. simpl. now rewrite SuccNat2Pos.id_succ.
Qed.

Lemma lit_val_opp : forall s c, c <> 0%Z -> lit_val s (- c)%Z = negb (lit_val s c).
Proof.
  intros s [|p|p] H; simpl; auto. congruence. now rewrite negb_involutive.
Qed.

Lemma lit_of_true : forall s k b, s k = b -> lit_val s (lit_of k b) = true.
Proof.
  intros s [|n] b H; unfold lit_of.
  - destruct b; reflexivity.
  - destruct b.
    + rewrite lit_val_of_nat by lia. auto.
    + rewrite lit_val_opp by lia. rewrite lit_val_of_nat by lia. now rewrite H.
Qed.

Lemma nid_value : forall s nid, nid <> 0%Z -> lit_val s nid = true -> s (key_of nid) = (0 <? nid)%Z.
Proof.
  intros s [|p|p] H E; unfold key_of; simpl in *. congruence.
  - auto.
  - destruct (s (Pos.to_nat p)); auto.
Qed.

Lemma child_val_lit : forall c ch x, child_val c ch = CLit x -> x = ch /\ ch <> 0%Z /\ cget c (key_of ch) = None.
Proof.
  intros c ch x. unfold child_val. destruct ch; try discriminate;
    (destruct (cget c (key_of _)) eqn:E; [discriminate|]); intros H; inversion H; subst; repeat split; auto; discriminate.
Qed.

Lemma in_lits_of : forall c1 cs c, In c (lits_of (map (child_val c1) cs)) ->
    In c cs /\ c <> 0%Z /\ cget c1 (key_of c) = None.
Proof.
  intros c1 cs c. unfold lits_of. rewrite in_flat_map. intros [v [Hv Hc]].
  apply in_map_iff in Hv. destruct Hv as [ch [E Hch]]. subst v.
  destruct (child_val c1 ch) eqn:E; simpl in Hc; [tauto|].
  destruct Hc as [<-|[]]. apply child_val_lit in E. destruct E as [-> [H1 H2]]. auto.
Qed.

Lemma classified : forall c1 cs ch, In ch cs ->
    (exists b, child_val c1 ch = CConst b) \/ In ch (lits_of (map (child_val c1) cs)).
Proof.
  intros c1 cs ch H. destruct (child_val c1 ch) eqn:E.
  - left; eauto.
  - right. unfold lits_of. rewrite in_flat_map. exists (CLit c). split.
    + apply in_map_iff. eauto.
    + apply child_val_lit in E. destruct E as [-> _]. left; auto.
Qed.

Lemma has_const_spec : forall c1 cs b,
    existsb (is_const b) (map (child_val c1) cs) = true <-> exists ch, In ch cs /\ child_val c1 ch = CConst b.
Proof.
  intros c1 cs b. rewrite existsb_exists. split.
  - intros [v [Hv E]]. apply in_map_iff in Hv. destruct Hv as [ch [E' Hch]]. subst v.
    exists ch. split; auto. destruct (child_val c1 ch); simpl in E; [|discriminate].
    apply eqb_prop in E. now subst.
  - intros [ch [H E]]. exists (CConst b). split. apply in_map_iff. exists ch; auto.
    simpl. apply eqb_reflx.
Qed.

Section Sound.
  Variable g : graph.
  Variable a : N -> bool.
  Variable s : nat -> bool.
  Hypothesis SUP : supported g a s.

  Definition cur_ok (c : cur) : Prop := forall k b, cget c k = Some b -> s k = b.
  Definition q_ok (q : list Z) : Prop := forall x, In x q -> lit_val s x = true.
  Definition st_ok (st : pstate) : Prop := cur_ok (p_cur st) /\ q_ok (p_queue st).

  Lemma qadd_ok : forall q x, q_ok q -> lit_val s x = true -> q_ok (qadd q x).
  Proof.
    intros q x H E y Hy. unfold qadd in Hy. destruct (zmem x q); auto.
    apply in_app_or in Hy. destruct Hy as [Hy|[<-|[]]]; auto.
  Qed.

  Lemma qremove_ok : forall q x, q_ok q -> q_ok (qremove x q).
  Proof. intros q x H y Hy. apply H. eapply qremove_In; eauto. Qed.

  Lemma fold_qadd_ok : forall ev q, q_ok q -> q_ok ev -> q_ok (fold_left qadd ev q).
  Proof.
    induction ev as [|x ev IH]; simpl; intros q Hq He; auto.
    apply IH. apply qadd_ok; auto. apply He; left; auto. intros y Hy. apply He; right; auto.
  Qed.

  Lemma requeue_ok : forall c ps q, cur_ok c -> q_ok q -> q_ok (requeue c ps q).
  Proof.
    intros c ps. unfold requeue. induction ps as [|p ps IH]; simpl; intros q Hc Hq; auto.
    apply IH; auto. destruct (cget c p) eqn:E; auto.
    apply qadd_ok; auto. apply lit_of_true. apply Hc; auto.
  Qed.

  Lemma cset_ok : forall c k b, cur_ok c -> s k = b -> cur_ok (cset c k b).
  Proof.
    intros c k b H E j v. unfold cset. simpl. destruct (Nat.eqb k j) eqn:Ek.
    - apply Nat.eqb_eq in Ek. subst. intros X. inversion X. subst. auto.
    - apply H.
  Qed.

  Lemma child_val_const : forall c ch b, cur_ok c -> child_val c ch = CConst b -> lit_val s ch = b.
  Proof.
    intros c ch b H. unfold child_val. destruct ch as [|p|p].
    - intros X; inversion X; reflexivity.
    - destruct (cget c (key_of (Z.pos p))) eqn:E; [|discriminate].
      intros X; inversion X; subst. simpl. apply H in E. rewrite key_of_pos in E. auto.
    - destruct (cget c (key_of (Z.neg p))) eqn:E; [|discriminate].
      intros X; inversion X; subst. simpl. apply H in E. rewrite key_of_neg in E. now rewrite E.
  Qed.

  Lemma fold_cond_qadd_ok : forall c1 (f : Z -> Z) lits q,
      q_ok q -> (forall c, In c lits -> lit_val s (f c) = true) ->
      q_ok (fold_left (fun q c => match cget c1 (key_of c) with None => qadd q (f c) | Some _ => q end) lits q).
  Proof.
    intros c1 f. induction lits as [|c lits IH]; simpl; intros q Hq H; auto.
    apply IH. destruct (cget c1 (key_of c)); auto. apply qadd_ok; auto.
    intros; apply H; auto.
  Qed.

  (* ---- the semantic content of each rule ---- *)
  Section Rules.
    Variable c1 : cur.
    Variable cs : list Z.
    Hypothesis C1 : cur_ok c1.
    Let vals := map (child_val c1) cs.

    Lemma and_has_false : existsb (is_const false) vals = true -> forallb (lit_val s) cs = false.
    Proof.
      intros H. apply has_const_spec in H. destruct H as [ch [Hin E]].
      apply child_val_const in E; auto.
      destruct (forallb (lit_val s) cs) eqn:F; auto.
      rewrite forallb_forall in F. apply F in Hin. congruence.
    Qed.

    Lemma or_has_true : existsb (is_const true) vals = true -> existsb (lit_val s) cs = true.
    Proof.
      intros H. apply has_const_spec in H. destruct H as [ch [Hin E]].
      apply child_val_const in E; auto. apply existsb_exists. eauto.
    Qed.

    Lemma and_true_lits : forallb (lit_val s) cs = true ->
        forall c, In c (lits_of vals) -> lit_val s c = true.
    Proof.
      intros F c Hc. apply in_lits_of in Hc. destruct Hc as [Hc _].
      rewrite forallb_forall in F. auto.
    Qed.

    Lemma or_false_lits : existsb (lit_val s) cs = false ->
        forall c, In c (lits_of vals) -> lit_val s (- c)%Z = true.
    Proof.
      intros F c Hc. apply in_lits_of in Hc. destruct Hc as [Hc [Hz _]].
      rewrite lit_val_opp by auto.
      destruct (lit_val s c) eqn:E; auto.
      assert (existsb (lit_val s) cs = true) by (apply existsb_exists; eauto). congruence.
    Qed.

    Lemma and_false_single : forall c, forallb (lit_val s) cs = false ->
        existsb (is_const false) vals = false -> lits_of vals = [c] -> lit_val s (- c)%Z = true.
    Proof.
      intros c F HF L.
      assert (exists ch, In ch cs /\ lit_val s ch = false).
      { clear - F. induction cs as [|x l IH]; simpl in F. discriminate.
        destruct (lit_val s x) eqn:E; simpl in F.
        - destruct (IH F) as [ch [H1 H2]]. exists ch; split; auto. right; auto.
        - exists x; split; auto. left; auto. }
      destruct H as [ch [Hin E]].
      destruct (classified c1 cs ch Hin) as [[b Hb]|Hl].
      - assert (b = false) by (apply child_val_const in Hb; auto; congruence). subst b.
        assert (existsb (is_const false) vals = true) by (apply has_const_spec; eauto). congruence.
      - fold vals in Hl. rewrite L in Hl. destruct Hl as [<-|[]].
        assert (Hc : In c (lits_of vals)) by (rewrite L; left; auto).
        apply in_lits_of in Hc. destruct Hc as [_ [Hz _]].
        rewrite lit_val_opp by auto. now rewrite E.
    Qed.

    Lemma or_true_single : forall c, existsb (lit_val s) cs = true ->
        existsb (is_const true) vals = false -> lits_of vals = [c] -> lit_val s c = true.
    Proof.
      intros c F HF L. apply existsb_exists in F. destruct F as [ch [Hin E]].
      destruct (classified c1 cs ch Hin) as [[b Hb]|Hl].
      - assert (b = true) by (apply child_val_const in Hb; auto; congruence). subst b.
        assert (existsb (is_const true) vals = true) by (apply has_const_spec; eauto). congruence.
      - fold vals in Hl. rewrite L in Hl. destruct Hl as [<-|[]]. auto.
    Qed.
  End Rules.

  (* ---- one iteration of the loop ---- *)
  Lemma process_sound : forall st nid,
      st_ok st -> lit_val s nid = true ->
      match process g st nid with
      | SOk st' => st_ok st'
      | SIncons => False
      | SBad => True
      end.
  Proof.
    intros st nid [HC HQ] HN. unfold process.
    destruct (node_at g (key_of nid)) as [nd|] eqn:ND; [|exact I].
    assert (NZ : nid <> 0%Z).
    { intros ->. simpl in ND. discriminate. }
    assert (SK : s (key_of nid) = (0 <? nid)%Z) by (apply nid_value; auto).
    set (k := key_of nid) in *.
    remember (0 <? nid)%Z as pos eqn:EP.
    set (q1 := match cget (p_cur st) k with
               | None => requeue (p_cur st) (pget (p_par st) k) (p_queue st)
               | Some _ => p_queue st end).
    assert (HQ1 : q_ok q1).
    { unfold q1. destruct (cget (p_cur st) k); auto. apply requeue_ok; auto. }
    set (c1 := cset (p_cur st) k pos).
    assert (HC1 : cur_ok c1) by (apply cset_ok; auto).
    assert (SV := SUP k). rewrite ND in SV.
    destruct nd as [id|cs|cs].
    - split; auto.
    - (* conjunction *)
      simpl in SV. cbn [children andb negb].
      assert (VAL : forallb (lit_val s) cs = pos) by congruence.
      clearbody c1 q1. clear SV SK EP.
      destruct (existsb (is_const false) (map (child_val c1) cs)) eqn:HF.
      + assert (F := and_has_false c1 cs HC1 HF).
        destruct pos; cbn [andb negb].
        * congruence.
        * split; auto.
      + cbn [andb negb].
        destruct (lits_of (map (child_val c1) cs)) as [|c [|c' rest]] eqn:L.
        * destruct pos; cbn [andb negb]; split; auto.
        * destruct (cget c1 (key_of c)) eqn:G; [split; auto|].
          split; auto. cbn [p_queue]. apply qadd_ok; auto.
          destruct pos.
          -- apply (and_true_lits c1 cs VAL). rewrite L. left; auto.
          -- apply (and_false_single c1 cs HC1 c VAL HF L).
        * destruct pos; cbn [andb negb]; (split; [exact HC1|]); cbn [p_queue]; auto.
          apply fold_cond_qadd_ok with (f := fun c => c); auto.
          intros x Hx. apply (and_true_lits c1 cs VAL). rewrite L. exact Hx.
    - (* disjunction *)
      simpl in SV. cbn [children andb negb].
      assert (VAL : existsb (lit_val s) cs = pos) by congruence.
      clearbody c1 q1. clear SV SK EP.
      destruct (existsb (is_const true) (map (child_val c1) cs)) eqn:HT.
      + assert (F := or_has_true c1 cs HC1 HT).
        destruct pos; cbn [andb negb].
        * split; auto.
        * congruence.
      + cbn [andb negb].
        destruct (lits_of (map (child_val c1) cs)) as [|c [|c' rest]] eqn:L.
        * destruct pos; cbn [andb negb]; split; auto.
        * destruct (cget c1 (key_of c)) eqn:G; [split; auto|].
          split; auto. cbn [p_queue]. apply qadd_ok; auto.
          destruct pos.
          -- apply (or_true_single c1 cs HC1 c VAL HT L).
          -- apply (or_false_lits c1 cs VAL). rewrite L. left; auto.
        * destruct pos; cbn [andb negb]; (split; [exact HC1|]); cbn [p_queue]; auto.
          apply fold_cond_qadd_ok with (f := fun c => (- c)%Z); auto.
          intros x Hx. apply (or_false_lits c1 cs VAL). rewrite L. exact Hx.
  Qed.

  Lemma run_sound : forall sched fuel st,
      st_ok st ->
      match run g sched fuel st with
      | Done c => cur_ok c
      | Inconsistent => False
      | _ => True
      end.
  Proof.
    intros sched fuel. revert sched. induction fuel as [|f IH]; intros sched st OK; simpl; auto.
    destruct (p_queue st) as [|x r] eqn:Q. exact (proj1 OK).
    set (pick := match sched with [] => Some x | y :: _ => if zmem y (x :: r) then Some y else None end).
    assert (PK : forall nid, pick = Some nid -> In nid (p_queue st)).
    { intros nid. unfold pick. rewrite Q. destruct sched as [|y t].
      - intros X; inversion X; left; auto.
      - destruct (zmem y (x :: r)) eqn:Z; [|discriminate]. intros X; inversion X; subst.
        apply zmem_In; auto. }
    destruct pick as [nid|]; auto.
    specialize (PK nid eq_refl).
    assert (HN : lit_val s nid = true) by (apply (proj2 OK); auto).
    assert (OK' : st_ok (mkP (p_cur st) (qremove nid (x :: r)) (p_par st))).
    { split; cbn [p_cur p_queue]. exact (proj1 OK).
      intros y Hy. apply (proj2 OK). rewrite Q. eapply qremove_In; eauto. }
    assert (P := process_sound _ nid OK' HN).
    destruct (process g (mkP (p_cur st) (qremove nid (x :: r)) (p_par st)) nid); auto.
    apply IH; auto.
  Qed.
End Sound.

(* ------------------------------------------------------------------ top level *)
Definition sat_lits (s : nat -> bool) (ev : list Z) : Prop := forall x, In x ev -> lit_val s x = true.
Definition holds_in (s : nat -> bool) (m : cur) : Prop := forall k b, cget m k = Some b -> s k = b.

Theorem propagate_sound_supported : forall g a s ev cur0 sched fuel m,
    supported g a s -> sat_lits s ev -> holds_in s cur0 ->
    propagate_m g ev cur0 sched fuel = Done m -> holds_in s m.
Proof.
  intros g a s ev cur0 sched fuel m SUP EV C0 H.
  unfold propagate_m in H.
  assert (R := run_sound g a s SUP sched fuel (mkP cur0 (fold_left qadd ev []) [])).
  rewrite H in R. apply R. split; simpl; auto.
  apply fold_qadd_ok; auto. intros x [].
Qed.

Theorem propagate_inconsistent_supported : forall g a s ev cur0 sched fuel,
    supported g a s -> holds_in s cur0 ->
    propagate_m g ev cur0 sched fuel = Inconsistent -> ~ sat_lits s ev.
Proof.
  intros g a s ev cur0 sched fuel SUP C0 H EV.
  unfold propagate_m in H.
  assert (R := run_sound g a s SUP sched fuel (mkP cur0 (fold_left qadd ev []) [])).
  rewrite H in R. apply R. split; simpl; auto.
  apply fold_qadd_ok; auto. intros x [].
Qed.

Lemma holds_in_nil : forall s, holds_in s [].
Proof. intros s k b X; discriminate. Qed.

(* least-fixpoint / stable-model semantics of (possibly cyclic) ground programs *)
Theorem propagate_sound : forall g a s ev sched fuel m,
    is_model g a s -> sat_lits s ev ->
    propagate_m g ev [] sched fuel = Done m -> holds_in s m.
Proof.
  intros g a s ev sched fuel m M EV H.
  exact (propagate_sound_supported g a s ev [] sched fuel m (model_supported g a s M) EV (holds_in_nil s) H).
Qed.

Theorem propagate_inconsistent : forall g a s ev sched fuel,
    is_model g a s -> propagate_m g ev [] sched fuel = Inconsistent -> ~ sat_lits s ev.
Proof.
  intros g a s ev sched fuel M H.
  exact (propagate_inconsistent_supported g a s ev [] sched fuel (model_supported g a s M) (holds_in_nil s) H).
Qed.

(* acyclic formulas: the one-pass value *)
Theorem propagate_sound_dag : forall g a ev sched fuel m,
    topo g -> sat_lits (vget (dag_val a g)) ev ->
    propagate_m g ev [] sched fuel = Done m -> holds_in (vget (dag_val a g)) m.
Proof.
  intros g a ev sched fuel m T EV H.
  exact (propagate_sound_supported g a _ ev [] sched fuel m (dag_val_supported g a T) EV (holds_in_nil _) H).
Qed.

Theorem propagate_inconsistent_dag : forall g a ev sched fuel,
    topo g -> propagate_m g ev [] sched fuel = Inconsistent -> ~ sat_lits (vget (dag_val a g)) ev.
Proof.
  intros g a ev sched fuel T H.
  exact (propagate_inconsistent_supported g a _ ev [] sched fuel (dag_val_supported g a T) (holds_in_nil _) H).
Qed.
