(* Proofs about the abstract tabling machine of ModelTabling.v. *)
From Coq Require Import List Arith Bool QArith Lia.
From PL.C03 Require Import ModelTabling.
Import ListNotations.
Local Close Scope Q_scope.
Local Open Scope nat_scope.

(* ------------------------------------------------------------------ lists *)
Lemma mem_In : forall a l, mem a l = true <-> In a l.
Proof.
  intros a l. unfold mem. rewrite existsb_exists. split.
  - intros [x [Hx He]]. apply Nat.eqb_eq in He. subst. exact Hx.
  - intros H. exists a. split; [exact H | apply Nat.eqb_refl].
Qed.

Lemma mem_false : forall a l, mem a l = false <-> ~ In a l.
Proof.
  intros a l. rewrite <- mem_In. destruct (mem a l); split; intros H.
  - discriminate.
  - exfalso. apply H. reflexivity.
  - intros H'. discriminate.
  - reflexivity.
Qed.

Lemma pick_spec : forall k l x rest, pick k l = Some (x, rest) ->
  forall y, In y l <-> y = x \/ In y rest.
Proof.
  induction k as [|k IH]; intros l x rest H y; destruct l as [|z t]; simpl in H; try discriminate.
  - inversion H; subst. simpl. split; intros [A|A]; auto.
  - destruct (pick k t) as [[y' r]|] eqn:E; try discriminate.
    inversion H; subst. specialize (IH t x r E y). simpl. rewrite IH. tauto.
Qed.

Lemma choose_spec : forall k l x rest, choose k l = Some (x, rest) ->
  forall y, In y l <-> y = x \/ In y rest.
Proof. unfold choose. intros. eapply pick_spec; eauto. Qed.

Lemma pick_some : forall l k, k < length l -> exists x rest, pick k l = Some (x, rest).
Proof.
  induction l as [|z t IH]; intros k Hk; simpl in Hk; [lia|].
  destruct k as [|k]; simpl.
  - eauto.
  - destruct (IH k) as [x [r E]]; [lia|]. rewrite E. eauto.
Qed.

Lemma choose_some : forall l k, l <> [] -> exists x rest, choose k l = Some (x, rest).
Proof.
  intros l k Hl. unfold choose. apply pick_some.
  apply Nat.mod_upper_bound. destruct l; [congruence | simpl; lia].
Qed.

Lemma clauses_of_In : forall P a c, In c (clauses_of P a) <-> In c P /\ head c = a.
Proof.
  intros. unfold clauses_of. rewrite filter_In. rewrite Nat.eqb_eq. tauto.
Qed.

(* ------------------------------------------------------------------ discover *)
Lemma discover_spec : forall ls gs acc gs' acc',
  discover ls gs acc = (gs', acc') ->
  (forall a, In a gs' <-> In a gs \/ exists l, In l ls /\ lit_atom l = a) /\
  (forall y, In y acc -> In y acc') /\
  (forall y, In y acc' -> In y acc \/ exists a, y = Call a /\ In a gs' /\ ~ In a gs) /\
  (forall a, In a gs' -> In a gs \/ In (Call a) acc').
Proof.
  induction ls as [|l t IH]; intros gs acc gs' acc' H; simpl in H.
  - inversion H; subst. repeat split; auto.
    + intros [A|[l [[] _]]]; auto.
  - destruct (mem (lit_atom l) gs) eqn:M.
    + apply mem_In in M. destruct (IH _ _ _ _ H) as [A [B [C D]]].
      repeat split.
      * intros G. apply A in G. destruct G as [G|[l' [G1 G2]]]; [auto|].
        right. exists l'. simpl. auto.
      * intros [G|[l' [[G1|G1] G2]]].
        -- apply A. auto.
        -- subst. apply A. auto.
        -- apply A. right. eauto.
      * exact B.
      * exact C.
      * exact D.
    + apply mem_false in M. destruct (IH _ _ _ _ H) as [A [B [C D]]].
      repeat split.
      * intros G. apply A in G. destruct G as [[G|G]|[l' [G1 G2]]].
        -- right. exists l. simpl. auto.
        -- auto.
        -- right. exists l'. simpl. auto.
      * intros [G|[l' [[G1|G1] G2]]].
        -- apply A. left. right. exact G.
        -- subst. apply A. left. left. reflexivity.
        -- apply A. right. eauto.
      * intros y Hy. apply B. right. exact Hy.
      * intros y Hy. apply C in Hy. destruct Hy as [[Hy|Hy]|[a [E1 [E2 E3]]]].
        -- right. exists (lit_atom l). split; [auto|]. split; [|exact M].
           apply A. left. left. reflexivity.
        -- auto.
        -- right. exists a. split; [auto|]. split; [auto|]. intro G. apply E3. right. exact G.
      * intros a Ha. destruct (D a Ha) as [[G|G]|G].
        -- subst. right. apply B. left. reflexivity.
        -- auto.
        -- auto.
Qed.

(* ------------------------------------------------------------------ invariant *)
Record Inv (P : program) (Q : list atom) (st : state) : Prop := {
  inv_goals_reach : forall a, In a (goals st) -> reach P Q a;
  inv_edges : forall c, In c (edges st) -> In c P /\ In (head c) (goals st);
  inv_wl : forall x, In x (wl st) ->
           match x with
           | Call a => In a (goals st)
           | Cl c => In c P /\ In (head c) (goals st)
           | Res c => In c P /\ In (head c) (goals st)
           end;
  inv_queries : forall a, In a Q -> In a (goals st);
  inv_pending_call : forall a, In a (goals st) -> In (Call a) (wl st) \/ In a (completed st);
  inv_pending_clause : forall a c, In a (completed st) -> In c P -> head c = a ->
                       In (Cl c) (wl st) \/ In c (opened st);
  inv_pending_result : forall c, In c (opened st) ->
                       (In (Res c) (wl st) \/ In c (edges st)) /\
                       (forall l, In l (body c) -> In (lit_atom l) (goals st))
}.

Lemma inv_init : forall P Q, Inv P Q (init Q).
Proof.
  intros P Q. unfold init.
  destruct (discover (map Pos Q) [] []) as [gs calls] eqn:E.
  destruct (discover_spec _ _ _ _ _ E) as [A [B [C D]]].
  constructor; simpl.
  - intros a Ha. apply A in Ha. destruct Ha as [[]|[l [H1 H2]]].
    apply in_map_iff in H1. destruct H1 as [q [H1 H3]]. subst. simpl. apply reach_q. exact H3.
  - intros c [].
  - intros x Hx. apply C in Hx. destruct Hx as [[]|[a [H1 [H2 H3]]]]. subst. exact H2.
  - intros a Ha. apply A. right. exists (Pos a). split; [apply in_map; exact Ha | reflexivity].
  - intros a Ha. destruct (D a Ha) as [[]|G]. left. exact G.
  - intros a c [].
  - intros c [].
Qed.

Lemma inv_process : forall P Q st x rest,
  Inv P Q st ->
  (forall y, In y (wl st) <-> y = x \/ In y rest) ->
  Inv P Q (process P x st rest).
Proof.
  intros P Q st x rest I W.
  assert (Wx : In x (wl st)) by (apply W; auto).
  assert (Wr : forall y, In y rest -> In y (wl st)) by (intros; apply W; auto).
  destruct I as [I1 I2 I3 I4 I5 I6 I7].
  destruct x as [a | c | c]; simpl.
  - (* Call a *)
    pose proof (I3 _ Wx) as Ga. simpl in Ga.
    destruct (mem a (completed st)) eqn:M.
    + apply mem_In in M. constructor; simpl.
      * exact I1.
      * exact I2.
      * intros x Hx. apply I3. auto.
      * exact I4.
      * intros b Hb. destruct (I5 b Hb) as [G|G]; [|auto].
        apply W in G. destruct G as [G|G]; [inversion G; subst; auto | auto].
      * intros b c Hb Hc Hh. destruct (I6 b c Hb Hc Hh) as [G|G]; [|auto].
        apply W in G. destruct G as [G|G]; [discriminate | auto].
      * intros c Hc. destruct (I7 c Hc) as [[G|G] H2]; split; auto.
        apply W in G. destruct G as [G|G]; [discriminate | auto].
    + constructor; simpl.
      * exact I1.
      * exact I2.
      * intros x Hx. apply in_app_or in Hx. destruct Hx as [Hx|Hx].
        -- apply in_map_iff in Hx. destruct Hx as [c [E Hc]]. subst.
           apply clauses_of_In in Hc. destruct Hc as [Hc Hh]. subst. auto.
        -- apply I3. auto.
      * exact I4.
      * intros b Hb. destruct (I5 b Hb) as [G|G]; [|auto].
        apply W in G. destruct G as [G|G].
        -- inversion G; subst. auto.
        -- left. apply in_or_app. auto.
      * intros b c [Hb|Hb] Hc Hh.
        -- subst. left. apply in_or_app. left. apply in_map. apply clauses_of_In. auto.
        -- destruct (I6 b c Hb Hc Hh) as [G|G]; [|auto].
           apply W in G. destruct G as [G|G]; [discriminate|].
           left. apply in_or_app. auto.
      * intros c Hc. destruct (I7 c Hc) as [[G|G] H2]; split; auto.
        apply W in G. destruct G as [G|G]; [discriminate|].
        left. apply in_or_app. auto.
  - (* Cl c *)
    pose proof (I3 _ Wx) as PG. simpl in PG. destruct PG as [Pc Gc].
    destruct (discover (body c) (goals st) []) as [gs calls] eqn:E.
    destruct (discover_spec _ _ _ _ _ E) as [A [B [C D]]].
    assert (Mono : forall a, In a (goals st) -> In a gs) by (intros; apply A; auto).
    constructor; simpl.
    + intros a Ha. apply A in Ha. destruct Ha as [Ha|[l [H1 H2]]]; [auto|].
      subst. eapply reach_step; eauto.
    + intros c' Hc'. destruct (I2 c' Hc'). auto.
    + intros x [Hx|Hx].
      * subst. auto.
      * apply in_app_or in Hx. destruct Hx as [Hx|Hx].
        -- apply C in Hx. destruct Hx as [[]|[a [H1 [H2 H3]]]]. subst. exact H2.
        -- specialize (I3 x (Wr _ Hx)). destruct x; intuition.
    + intros a Ha. auto.
    + intros a Ha. destruct (D a Ha) as [G|G].
      * destruct (I5 a G) as [G'|G']; [|auto].
        apply W in G'. destruct G' as [G'|G']; [discriminate|].
        left. right. apply in_or_app. auto.
      * left. right. apply in_or_app. auto.
    + intros a c' Ha Hc' Hh. destruct (I6 a c' Ha Hc' Hh) as [G|G]; [|auto].
      apply W in G. destruct G as [G|G].
      * inversion G; subst. auto.
      * left. right. apply in_or_app. auto.
    + intros c' [Hc'|Hc'].
      * subst. split; [auto|]. intros l Hl. apply A. right. eauto.
      * destruct (I7 c' Hc') as [[G|G] H2]; split; auto.
        apply W in G. destruct G as [G|G]; [discriminate|].
        left. right. apply in_or_app. auto.
  - (* Res c *)
    pose proof (I3 _ Wx) as PG. simpl in PG. destruct PG as [Pc Gc].
    constructor; simpl.
    + exact I1.
    + intros c' [Hc'|Hc']; [subst; auto | auto].
    + intros x Hx. apply I3. auto.
    + exact I4.
    + intros b Hb. destruct (I5 b Hb) as [G|G]; [|auto].
      apply W in G. destruct G as [G|G]; [discriminate | auto].
    + intros b c' Hb Hc' Hh. destruct (I6 b c' Hb Hc' Hh) as [G|G]; [|auto].
      apply W in G. destruct G as [G|G]; [discriminate | auto].
    + intros c' Hc'. destruct (I7 c' Hc') as [[G|G] H2]; split; auto.
      apply W in G. destruct G as [G|G]; [inversion G; subst; auto | auto].
Qed.

Lemma inv_step : forall P Q k st, Inv P Q st -> Inv P Q (step P k st).
Proof.
  intros P Q k st I. unfold step.
  destruct (choose k (wl st)) as [[x rest]|] eqn:E; [|exact I].
  apply inv_process; [exact I|]. intros y. eapply choose_spec; eauto.
Qed.

Lemma inv_run : forall P Q sched st, Inv P Q st -> Inv P Q (run P sched st).
Proof.
  intros P Q sched. induction sched as [|k s IH]; intros st I; simpl; [exact I|].
  apply IH. apply inv_step. exact I.
Qed.

(* empty worklist => closed, hence the discovered sets are exactly the
   least closed ones *)
Lemma terminated_goals : forall P Q st, Inv P Q st -> terminated st ->
  forall a, In a (goals st) <-> reach P Q a.
Proof.
  intros P Q st I T a. unfold terminated in T. destruct I as [I1 I2 I3 I4 I5 I6 I7].
  split; [apply I1|].
  intros R. induction R as [a Ha | a c l R IH Hc Hh Hl].
  - apply I4. exact Ha.
  - destruct (I5 a IH) as [G|G]; [rewrite T in G; destruct G|].
    destruct (I6 a c G Hc Hh) as [G'|G']; [rewrite T in G'; destruct G'|].
    destruct (I7 c G') as [_ H2]. apply H2. exact Hl.
Qed.

Lemma terminated_edges : forall P Q st, Inv P Q st -> terminated st ->
  forall c, In c (edges st) <-> relevant P Q c.
Proof.
  intros P Q st I T c. pose proof (terminated_goals P Q st I T) as G.
  unfold terminated in T. destruct I as [I1 I2 I3 I4 I5 I6 I7]. unfold relevant.
  split.
  - intros Hc. destruct (I2 c Hc) as [A B]. split; [exact A | apply I1; exact B].
  - intros [Hc R]. apply G in R.
    destruct (I5 _ R) as [X|X]; [rewrite T in X; destruct X|].
    destruct (I6 _ c X Hc eq_refl) as [Y|Y]; [rewrite T in Y; destruct Y|].
    destruct (I7 c Y) as [[Z|Z] _]; [rewrite T in Z; destruct Z | exact Z].
Qed.

Lemma terminated_all_completed : forall P Q st, Inv P Q st -> terminated st ->
  forall a, In a (goals st) -> In a (completed st).
Proof.
  intros P Q st I T a Ha. unfold terminated in T.
  destruct (inv_pending_call P Q st I a Ha) as [G|G]; [rewrite T in G; destruct G | exact G].
Qed.

Definition same_set {A} (l1 l2 : list A) : Prop := forall x, In x l1 <-> In x l2.

Theorem schedule_independent : forall P Q s1 s2,
  terminated (run P s1 (init Q)) -> terminated (run P s2 (init Q)) ->
  same_set (goals (run P s1 (init Q))) (goals (run P s2 (init Q))) /\
  same_set (edges (run P s1 (init Q))) (edges (run P s2 (init Q))).
Proof.
  intros P Q s1 s2 T1 T2.
  pose proof (inv_run P Q s1 _ (inv_init P Q)) as I1.
  pose proof (inv_run P Q s2 _ (inv_init P Q)) as I2.
  split; intros x.
  - rewrite (terminated_goals _ _ _ I1 T1), (terminated_goals _ _ _ I2 T2). tauto.
  - rewrite (terminated_edges _ _ _ I1 T1), (terminated_edges _ _ _ I2 T2). tauto.
Qed.

Theorem result_is_relevant_subprogram : forall P Q s,
  terminated (run P s (init Q)) ->
  (forall a, In a (goals (run P s (init Q))) <-> reach P Q a) /\
  (forall c, In c (edges (run P s (init Q))) <-> relevant P Q c).
Proof.
  intros P Q s T. pose proof (inv_run P Q s _ (inv_init P Q)) as I.
  split; [apply terminated_goals | apply terminated_edges]; assumption.
Qed.

(* ------------------------------------------------------------------ meaning depends on the edge SET only *)
Definition ieq (I J : interp) : Prop := forall a, I a = J a.

Lemma existsb_same_set : forall (f : clause -> bool) l1 l2, same_set l1 l2 -> existsb f l1 = existsb f l2.
Proof.
  intros f l1 l2 S.
  destruct (existsb f l1) eqn:E1; destruct (existsb f l2) eqn:E2; try reflexivity.
  - apply existsb_exists in E1. destruct E1 as [x [Hx Fx]].
    assert (existsb f l2 = true) by (apply existsb_exists; exists x; split; [apply S; exact Hx | exact Fx]).
    congruence.
  - apply existsb_exists in E2. destruct E2 as [x [Hx Fx]].
    assert (existsb f l1 = true) by (apply existsb_exists; exists x; split; [apply S; exact Hx | exact Fx]).
    congruence.
Qed.

Lemma existsb_ext' : forall (f g : clause -> bool) l, (forall x, f x = g x) -> existsb f l = existsb g l.
Proof. intros f g l H. induction l as [|x t IH]; simpl; [reflexivity|]. rewrite H, IH. reflexivity. Qed.

Lemma forallb_ext' : forall (f g : lit -> bool) l, (forall x, f x = g x) -> forallb f l = forallb g l.
Proof. intros f g l H. induction l as [|x t IH]; simpl; [reflexivity|]. rewrite H, IH. reflexivity. Qed.

Lemma tp_ext : forall E1 E2 w J1 J2 I1 I2, same_set E1 E2 -> ieq J1 J2 -> ieq I1 I2 ->
  ieq (tp E1 w J1 I1) (tp E2 w J2 I2).
Proof.
  intros E1 E2 w J1 J2 I1 I2 S HJ HI a. unfold tp. f_equal.
  rewrite (existsb_same_set _ E1 E2 S). apply existsb_ext'. intros c. f_equal.
  apply forallb_ext'. intros [b|b]; simpl; [apply HI | rewrite HJ; reflexivity].
Qed.

Lemma memo_ext : forall U I J, ieq I J -> ieq (memo U I) (memo U J).
Proof.
  intros U I J H a. unfold memo. f_equal. apply filter_ext. exact H.
Qed.

Lemma gamma_ext : forall U n E1 E2 w J1 J2, same_set E1 E2 -> ieq J1 J2 ->
  ieq (gamma U n E1 w J1) (gamma U n E2 w J2).
Proof.
  intros U n E1 E2 w J1 J2 S HJ. unfold gamma. induction n as [|n IH]; simpl.
  - intros a. reflexivity.
  - apply memo_ext. apply tp_ext; assumption.
Qed.

Lemma wf_under_ext : forall U n m E1 E2 w, same_set E1 E2 -> ieq (wf_under U n m E1 w) (wf_under U n m E2 w).
Proof.
  intros U n m E1 E2 w S. induction m as [|m IH]; simpl.
  - intros a. reflexivity.
  - apply gamma_ext; [exact S|]. apply gamma_ext; assumption.
Qed.

Lemma wf_value_ext : forall U n m E1 E2 w a, same_set E1 E2 -> wf_value U n m E1 w a = wf_value U n m E2 w a.
Proof.
  intros U n m E1 E2 w a S. unfold wf_value, wf_over.
  rewrite (wf_under_ext U n m E1 E2 w S a).
  rewrite (gamma_ext U n E1 E2 w _ _ S (wf_under_ext U n m E1 E2 w S) a). reflexivity.
Qed.

Lemma prob_ext : forall U n m E1 E2 W q, same_set E1 E2 -> prob U n m E1 W q = prob U n m E2 W q.
Proof.
  intros U n m E1 E2 W q S. unfold prob. induction W as [|[w p] t IH]; simpl; [reflexivity|].
  rewrite IH. rewrite (wf_under_ext U n m E1 E2 w S q). reflexivity.
Qed.

Theorem same_values : forall P Q s1 s2,
  terminated (run P s1 (init Q)) -> terminated (run P s2 (init Q)) ->
  forall U n m w a, wf_value U n m (edges (run P s1 (init Q))) w a = wf_value U n m (edges (run P s2 (init Q))) w a.
Proof.
  intros P Q s1 s2 T1 T2 U n m w a. apply wf_value_ext.
  apply (schedule_independent P Q s1 s2 T1 T2).
Qed.

Theorem same_probabilities : forall P Q s1 s2,
  terminated (run P s1 (init Q)) -> terminated (run P s2 (init Q)) ->
  forall U n m W q, prob U n m (edges (run P s1 (init Q))) W q = prob U n m (edges (run P s2 (init Q))) W q.
Proof.
  intros P Q s1 s2 T1 T2 U n m W q. apply prob_ext.
  apply (schedule_independent P Q s1 s2 T1 T2).
Qed.

(* ------------------------------------------------------------------ must-reject verdict *)
Lemma dep_ext : forall (E1 E2 : clause -> Prop), (forall c, E1 c <-> E2 c) ->
  forall a b, dep E1 a b -> dep E2 a b.
Proof. intros E1 E2 H a b [c [l [H1 H2]]]. exists c, l. split; [apply H; exact H1 | exact H2]. Qed.

Lemma path_ext : forall (E1 E2 : clause -> Prop), (forall c, E1 c <-> E2 c) ->
  forall a b, path E1 a b -> path E2 a b.
Proof.
  intros E1 E2 H a b p. induction p as [a | a b c D p IH].
  - apply path_refl.
  - eapply path_step; [eapply dep_ext; eauto | exact IH].
Qed.

Lemma has_neg_cycle_ext : forall (E1 E2 : clause -> Prop), (forall c, E1 c <-> E2 c) ->
  has_neg_cycle E1 -> has_neg_cycle E2.
Proof.
  intros E1 E2 H [a [b [[c [H1 H2]] p]]]. exists a, b. split.
  - exists c. split; [apply H; exact H1 | exact H2].
  - eapply path_ext; eauto.
Qed.

Theorem must_reject_is_program_property : forall P Q s,
  terminated (run P s (init Q)) ->
  (has_neg_cycle (in_list (edges (run P s (init Q)))) <-> has_neg_cycle (relevant P Q)).
Proof.
  intros P Q s T. destruct (result_is_relevant_subprogram P Q s T) as [_ E].
  split; apply has_neg_cycle_ext; intros c; unfold in_list; rewrite E; tauto.
Qed.

Theorem error_schedule_free : forall P Q s1 s2,
  terminated (run P s1 (init Q)) -> terminated (run P s2 (init Q)) ->
  (has_neg_cycle (in_list (edges (run P s1 (init Q)))) <-> has_neg_cycle (in_list (edges (run P s2 (init Q))))).
Proof.
  intros P Q s1 s2 T1 T2.
  rewrite (must_reject_is_program_property P Q s1 T1), (must_reject_is_program_property P Q s2 T2). tauto.
Qed.

(* ------------------------------------------------------------------ strategies are schedules (C04) *)
Lemma run_app : forall P s1 s2 st, run P (s1 ++ s2) st = run P s2 (run P s1 st).
Proof. intros P s1. induction s1 as [|k s IH]; intros; simpl; [reflexivity | apply IH]. Qed.

Theorem strategy_is_schedule : forall P (f : strategy) fuel st,
  exists sched, length sched <= fuel /\ run P sched st = run_strategy P f fuel st.
Proof.
  intros P f fuel. induction fuel as [|n IH]; intros st; simpl.
  - exists []. split; [simpl; lia | reflexivity].
  - destruct (wl st) eqn:E.
    + exists []. split; [simpl; lia | reflexivity].
    + destruct (IH (step P (f st) st)) as [s [L R]].
      exists (f st :: s). split; [simpl; lia | simpl; exact R].
Qed.

Theorem strategies_agree : forall P Q (f1 f2 : strategy) n1 n2,
  terminated (run_strategy P f1 n1 (init Q)) -> terminated (run_strategy P f2 n2 (init Q)) ->
  same_set (goals (run_strategy P f1 n1 (init Q))) (goals (run_strategy P f2 n2 (init Q))) /\
  same_set (edges (run_strategy P f1 n1 (init Q))) (edges (run_strategy P f2 n2 (init Q))).
Proof.
  intros P Q f1 f2 n1 n2 T1 T2.
  destruct (strategy_is_schedule P f1 n1 (init Q)) as [s1 [_ E1]].
  destruct (strategy_is_schedule P f2 n2 (init Q)) as [s2 [_ E2]].
  rewrite <- E1, <- E2 in *. apply schedule_independent; assumption.
Qed.

(* a step on a non-empty worklist always consumes one pending item: the
   machine never blocks, whatever the schedule says *)
Theorem step_progress : forall P k st, wl st <> [] ->
  exists x rest, choose k (wl st) = Some (x, rest) /\ step P k st = process P x st rest.
Proof.
  intros P k st H. destruct (choose_some (wl st) k H) as [x [rest E]].
  exists x, rest. split; [exact E|]. unfold step. rewrite E. reflexivity.
Qed.

(* ------------------------------------------------------------------ C04 corollary *)
Theorem modes_agree_with_depth_first :
  forall (P : program) (Q : list atom) (rnd : state -> nat) (f : strategy) (n1 n2 : nat),
  f = depth_first \/ f = rc_first \/ f = random_order rnd ->
  terminated (run_strategy P depth_first n1 (init Q)) -> terminated (run_strategy P f n2 (init Q)) ->
  (forall a, In a (goals (run_strategy P depth_first n1 (init Q))) <-> In a (goals (run_strategy P f n2 (init Q)))) /\
  (forall c, In c (edges (run_strategy P depth_first n1 (init Q))) <-> In c (edges (run_strategy P f n2 (init Q)))) /\
  (forall U n m w a, wf_value U n m (edges (run_strategy P depth_first n1 (init Q))) w a
                     = wf_value U n m (edges (run_strategy P f n2 (init Q))) w a) /\
  (forall U n m W q, prob U n m (edges (run_strategy P depth_first n1 (init Q))) W q
                     = prob U n m (edges (run_strategy P f n2 (init Q))) W q) /\
  (has_neg_cycle (in_list (edges (run_strategy P depth_first n1 (init Q)))) <->
   has_neg_cycle (in_list (edges (run_strategy P f n2 (init Q))))).
Proof.
  intros P Q rnd f n1 n2 _ T1 T2.
  destruct (strategies_agree P Q depth_first f n1 n2 T1 T2) as [G E].
  split; [exact G|]. split; [exact E|]. split; [|split].
  - intros. apply wf_value_ext. exact E.
  - intros. apply prob_ext. exact E.
  - split; apply has_neg_cycle_ext; intros c; unfold in_list; [apply E | symmetry; apply E].
Qed.
