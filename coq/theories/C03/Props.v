(* placeholder while the machine proofs are being written *)
