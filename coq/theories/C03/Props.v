(* C03 — the grounding result is independent of the order in which sibling
   goals are explored.  Only statements, closed by `exact`.
   Subject: the abstract tabling / worklist machine of ModelTabling.v over a
   ground normal program.  The real engine's cycle_root / buffer / sibling /
   answer-propagation mechanics are NOT modelled; that they refine this machine
   is tied only by sampled schedules (harness/props/C03.py). *)
From Coq Require Import List Arith Bool QArith.
From PL.C03 Require Import ModelTabling ProofsTabling ProofsTermination.
Import ListNotations.
Local Close Scope Q_scope.
Local Open Scope nat_scope.

(* Any two schedules that terminate discover the same goals and the same
   clause-instance edges (as sets): no bound on program, queries or schedules. *)
Theorem C03_schedule_independent : forall (P : program) (Q : list atom) (s1 s2 : schedule),
  terminated (run P s1 (init Q)) -> terminated (run P s2 (init Q)) ->
  (forall a, In a (goals (run P s1 (init Q))) <-> In a (goals (run P s2 (init Q)))) /\
  (forall c, In c (edges (run P s1 (init Q))) <-> In c (edges (run P s2 (init Q)))).
Proof. exact schedule_independent. Qed.
Print Assumptions C03_schedule_independent.

(* What every terminating schedule computes: exactly the goals reachable from
   the queries and exactly the clauses of the program whose head is reachable
   (the relevant ground program); "discovered ⊆ least closed set" and
   "empty worklist ⇒ closed" are the two halves of each equivalence. *)
Theorem C03_result_is_relevant_subprogram : forall (P : program) (Q : list atom) (s : schedule),
  terminated (run P s (init Q)) ->
  (forall a, In a (goals (run P s (init Q))) <-> reach P Q a) /\
  (forall c, In c (edges (run P s (init Q))) <-> (In c P /\ reach P Q (head c))).
Proof. exact result_is_relevant_subprogram. Qed.
Print Assumptions C03_result_is_relevant_subprogram.

(* at termination every discovered goal has been completed *)
Theorem C03_terminated_all_completed : forall (P : program) (Q : list atom) (s : schedule),
  terminated (run P s (init Q)) ->
  forall a, In a (goals (run P s (init Q))) -> In a (completed (run P s (init Q))).
Proof.
  exact (fun P Q s T => terminated_all_completed P Q _ (inv_run P Q s _ (inv_init P Q)) T).
Qed.
Print Assumptions C03_terminated_all_completed.

(* Hence the same ground graph meaning: the three-valued well-founded value of
   every atom in every world, for every universe/iteration bound ... *)
Theorem C03_same_values : forall (P : program) (Q : list atom) (s1 s2 : schedule),
  terminated (run P s1 (init Q)) -> terminated (run P s2 (init Q)) ->
  forall U n m (w : interp) (a : atom),
    wf_value U n m (edges (run P s1 (init Q))) w a = wf_value U n m (edges (run P s2 (init Q))) w a.
Proof. exact same_values. Qed.
Print Assumptions C03_same_values.

(* ... and the same probability of every query over every weighted set of worlds. *)
Theorem C03_same_probabilities : forall (P : program) (Q : list atom) (s1 s2 : schedule),
  terminated (run P s1 (init Q)) -> terminated (run P s2 (init Q)) ->
  forall U n m (W : list (interp * QArith_base.Q)) (q : atom),
    prob U n m (edges (run P s1 (init Q))) W q = prob U n m (edges (run P s2 (init Q))) W q.
Proof. exact same_probabilities. Qed.
Print Assumptions C03_same_probabilities.

(* Errors: whether the discovered graph has a cycle through negation (the
   must-reject class of C02) is a property of program + queries, not of the schedule. *)
Theorem C03_must_reject_is_program_property : forall (P : program) (Q : list atom) (s : schedule),
  terminated (run P s (init Q)) ->
  (has_neg_cycle (in_list (edges (run P s (init Q)))) <-> has_neg_cycle (relevant P Q)).
Proof. exact must_reject_is_program_property. Qed.
Print Assumptions C03_must_reject_is_program_property.

Theorem C03_error_schedule_free : forall (P : program) (Q : list atom) (s1 s2 : schedule),
  terminated (run P s1 (init Q)) -> terminated (run P s2 (init Q)) ->
  (has_neg_cycle (in_list (edges (run P s1 (init Q)))) <-> has_neg_cycle (in_list (edges (run P s2 (init Q))))).
Proof. exact error_schedule_free. Qed.
Print Assumptions C03_error_schedule_free.

(* the machine never blocks: whatever number the schedule supplies, a pending item is consumed *)
Theorem C03_machine_never_blocks : forall (P : program) (k : nat) (st : state), wl st <> [] ->
  exists x rest, choose k (wl st) = Some (x, rest) /\ step P k st = process P x st rest.
Proof. exact step_progress. Qed.
Print Assumptions C03_machine_never_blocks.

(* ---- Termination under EVERY schedule (ProofsTermination.v).
   measure P st = (sum over the pending items of: Call 1, Res 1, Cl c 2+|body c|)
                + (sum of 2+|body c| over the clause occurrences of P whose head is not completed);
   bound P Q    = |Q| + sum over c in P of (2+|body c|)  =  |Q| + 2|P| + number of body literals.
   Call a is created once per goal, Cl c / Res c once per OCCURRENCE of c in the
   program list (a repeated clause is scheduled twice: Example C03_ex_duplicate_clause),
   which is why the measure sums over occurrences and needs no NoDup hypothesis. *)

(* one step on a non-empty worklist strictly decreases the measure, whatever
   item the schedule picks and from any state whatsoever *)
Theorem C03_step_decreases : forall (P : program) (k : nat) (st : state), wl st <> [] ->
  measure P (step P k st) + 1 <= measure P st.
Proof. exact step_decreases. Qed.
Print Assumptions C03_step_decreases.

Theorem C03_bound_explicit : forall (P : program) (Q : list atom),
  bound P Q = length Q + (2 * length P + list_sum (map (fun c => length (body c)) P)).
Proof. exact (fun P Q => f_equal (Nat.add (length Q)) (program_size_explicit P)). Qed.
Print Assumptions C03_bound_explicit.

(* from any state: a schedule at least as long as the measure empties the worklist *)
Theorem C03_termination_from_any_state : forall (P : program) (s : schedule) (st : state),
  measure P st <= length s -> terminated (run P s st).
Proof. exact run_terminates_from. Qed.
Print Assumptions C03_termination_from_any_state.

(* every schedule of length >= bound P Q terminates from the initial state *)
Theorem C03_termination_bound : forall (P : program) (Q : list atom) (s : schedule),
  bound P Q <= length s -> terminated (run P s (init Q)).
Proof. exact run_terminates. Qed.
Print Assumptions C03_termination_bound.

(* the statement that used to be listed here as not proved *)
Theorem C03_termination : forall (P : program) (Q : list atom),
  exists N, forall s : schedule, N <= length s -> terminated (run P s (init Q)).
Proof. exact termination. Qed.
Print Assumptions C03_termination.

(* beyond the bound the schedule no longer matters at all *)
Theorem C03_run_stable_beyond_bound : forall (P : program) (Q : list atom) (s1 s2 : schedule),
  bound P Q <= length s1 -> run P (s1 ++ s2) (init Q) = run P s1 (init Q).
Proof. exact run_stable_beyond_bound. Qed.
Print Assumptions C03_run_stable_beyond_bound.

(* ---- the theorems above without termination hypotheses: ANY two schedules
   that are long enough (the conditional versions are kept above) *)
Theorem C03_schedule_independent_total : forall (P : program) (Q : list atom) (s1 s2 : schedule),
  bound P Q <= length s1 -> bound P Q <= length s2 ->
  (forall a, In a (goals (run P s1 (init Q))) <-> In a (goals (run P s2 (init Q)))) /\
  (forall c, In c (edges (run P s1 (init Q))) <-> In c (edges (run P s2 (init Q)))).
Proof. exact schedule_independent_total. Qed.
Print Assumptions C03_schedule_independent_total.

Theorem C03_result_is_relevant_subprogram_total : forall (P : program) (Q : list atom) (s : schedule),
  bound P Q <= length s ->
  (forall a, In a (goals (run P s (init Q))) <-> reach P Q a) /\
  (forall c, In c (edges (run P s (init Q))) <-> (In c P /\ reach P Q (head c))).
Proof. exact result_is_relevant_subprogram_total. Qed.
Print Assumptions C03_result_is_relevant_subprogram_total.

Theorem C03_same_values_total : forall (P : program) (Q : list atom) (s1 s2 : schedule),
  bound P Q <= length s1 -> bound P Q <= length s2 ->
  forall U n m (w : interp) (a : atom),
    wf_value U n m (edges (run P s1 (init Q))) w a = wf_value U n m (edges (run P s2 (init Q))) w a.
Proof. exact same_values_total. Qed.
Print Assumptions C03_same_values_total.

Theorem C03_same_probabilities_total : forall (P : program) (Q : list atom) (s1 s2 : schedule),
  bound P Q <= length s1 -> bound P Q <= length s2 ->
  forall U n m (W : list (interp * QArith_base.Q)) (q : atom),
    prob U n m (edges (run P s1 (init Q))) W q = prob U n m (edges (run P s2 (init Q))) W q.
Proof. exact same_probabilities_total. Qed.
Print Assumptions C03_same_probabilities_total.

Theorem C03_error_schedule_free_total : forall (P : program) (Q : list atom) (s1 s2 : schedule),
  bound P Q <= length s1 -> bound P Q <= length s2 ->
  (has_neg_cycle (in_list (edges (run P s1 (init Q)))) <-> has_neg_cycle (in_list (edges (run P s2 (init Q))))).
Proof. exact error_schedule_free_total. Qed.
Print Assumptions C03_error_schedule_free_total.

(* ---- non-vacuity: recursion (1 <-> 2), negation (0 :- 1, not 4), an irrelevant clause (5) *)
Definition exP : program :=
  [ mkClause 0 [Pos 1; Neg 4]; mkClause 1 [Pos 2]; mkClause 1 [Pos 3]; mkClause 2 [Pos 1];
    mkClause 4 [Pos 3; Pos 2]; mkClause 5 [Pos 0] ].
Definition exQ : list atom := [0].
Definition ex_s1 : schedule := repeat 0 40.
Definition ex_s2 : schedule :=
  [3;1;4;1;5;9;2;6;5;3;5;8;9;7;9;3;2;3;8;4;6;2;6;4;3;3;8;3;2;7;9;5;0;2;8;8;4;1;9;7].

Example C03_ex_both_terminate :
  terminatedb (run exP ex_s1 (init exQ)) = true /\ terminatedb (run exP ex_s2 (init exQ)) = true.
Proof. vm_compute. split; reflexivity. Qed.

(* the two schedules really explore in different orders ... *)
Example C03_ex_different_orders :
  map head (edges (run exP ex_s1 (init exQ))) = [1; 1; 2; 4; 0] /\
  map head (edges (run exP ex_s2 (init exQ))) = [2; 4; 1; 1; 0] /\
  goals (run exP ex_s1 (init exQ)) = [2; 3; 4; 1; 0] /\
  goals (run exP ex_s2 (init exQ)) = [3; 2; 4; 1; 0].
Proof. vm_compute. repeat split; reflexivity. Qed.

(* ... a too short schedule does not terminate (the hypothesis is not trivially true) ... *)
Example C03_ex_short_schedule : terminatedb (run exP (repeat 0 10) (init exQ)) = false.
Proof. vm_compute. reflexivity. Qed.

(* ... and the meaning agrees: in the world where fact 3 holds, 1,2,3,4 are true and 0 is false *)
Example C03_ex_values :
  map (wf_value [0;1;2;3;4;5] 6 6 (edges (run exP ex_s2 (init exQ))) (fun a => Nat.eqb a 3)) [0;1;2;3;4]
  = [Some false; Some true; Some true; Some true; Some true].
Proof. vm_compute. reflexivity. Qed.

(* a loop through negation is three-valued (undefined) and is a negative cycle *)
Example C03_ex_negative_loop :
  map (wf_value [0;1] 4 4 (edges (run [mkClause 0 [Neg 1]; mkClause 1 [Neg 0]] ex_s1 (init [0]))) (fun _ => false)) [0;1]
  = [None; None].
Proof. vm_compute. reflexivity. Qed.

(* ---- termination: the bound of the example program, attained exactly by a
   chain program, and a repeated clause being scheduled once per occurrence *)
Example C03_ex_bound : bound exP exQ = 21 /\ length ex_s1 = 40 /\ length ex_s2 = 40.
Proof. vm_compute. repeat split; reflexivity. Qed.

Example C03_ex_bound_tight :
  let P := [mkClause 0 [Pos 1]; mkClause 1 []] in
  bound P [0] = 6 /\
  terminatedb (run P (repeat 0 5) (init [0])) = false /\
  terminatedb (run P (repeat 0 6) (init [0])) = true.
Proof. exact bound_is_tight. Qed.

Example C03_ex_duplicate_clause :
  let c := mkClause 0 [] in
  edges (run [c; c] (repeat 0 5) (init [0])) = [c; c] /\
  terminated (run [c; c] (repeat 0 5) (init [0])) /\ bound [c; c] [0] = 5.
Proof. exact dup_clause_twice. Qed.
