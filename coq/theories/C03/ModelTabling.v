(* C03/C04 — abstract tabling / worklist machine over a ground (instantiated)
   normal program.  Executable definitions only; the proofs are in
   ProofsTabling.v.

   What is abstracted.  The real engine (problog/engine_stack.py,
   StackBasedEngine.execute) keeps a stack of messages: 'e' (evaluate a call /
   a clause body), 'r' (a result travels to its parent), 'c' (complete).  Here
     Call a  = the 'e' message that evaluates the call to goal a (EvalDefine):
               processing it pushes one item per clause instance of a — exactly
               the batch of sibling 'e' messages the C03 hook permutes;
     Cl c    = the 'e' message for clause instance c (its body conjunction):
               processing it discovers the body goals and pushes their calls,
               plus the pending result of c;
     Res c   = the 'r'/'c' traffic of c: processing it records the clause
               instance as an edge of the ground and-or graph.
   A schedule is a list of numbers; at every step the number selects which
   pending item is processed next (index modulo the length of the worklist).
   No cycle_root, no buffers, no siblings, no answer substitutions: that the
   engine's mechanics refine this machine is NOT proved, only sampled
   (harness/props/C03.py, C04.py). *)
From Coq Require Import List Arith Bool QArith.
Import ListNotations.
Local Close Scope Q_scope.
Local Open Scope nat_scope.

Definition atom := nat.
Inductive lit := Pos (a : atom) | Neg (a : atom).
Definition lit_atom (l : lit) : atom := match l with Pos a => a | Neg a => a end.
Record clause := mkClause { head : atom; body : list lit }.
Definition program := list clause.

Inductive item := Call (a : atom) | Cl (c : clause) | Res (c : clause).

Record state := mkState {
  goals : list atom;       (* discovered goals (tabled calls) *)
  edges : list clause;     (* discovered clause-instance edges of the ground graph *)
  completed : list atom;   (* goals whose call has been consumed (all clause instances scheduled) *)
  opened : list clause;    (* clause instances whose body goals have been scheduled *)
  wl : list item           (* pending messages *)
}.

Definition mem (a : atom) (l : list atom) : bool := existsb (Nat.eqb a) l.

Definition clauses_of (P : program) (a : atom) : list clause :=
  filter (fun c => Nat.eqb (head c) a) P.

(* remove the k-th pending item *)
Fixpoint pick (k : nat) (l : list item) : option (item * list item) :=
  match l with
  | [] => None
  | x :: t =>
      match k with
      | 0 => Some (x, t)
      | S k' => match pick k' t with
                | Some (y, r) => Some (y, x :: r)
                | None => None
                end
      end
  end.

Definition choose (k : nat) (l : list item) : option (item * list item) :=
  pick (k mod length l) l.

(* goals of a body that were not known yet, with their call messages *)
Fixpoint discover (ls : list lit) (gs : list atom) (acc : list item) : list atom * list item :=
  match ls with
  | [] => (gs, acc)
  | l :: t =>
      let a := lit_atom l in
      if mem a gs then discover t gs acc
      else discover t (a :: gs) (Call a :: acc)
  end.

Definition process (P : program) (x : item) (st : state) (rest : list item) : state :=
  match x with
  | Call a =>
      if mem a (completed st)
      then mkState (goals st) (edges st) (completed st) (opened st) rest
      else mkState (goals st) (edges st) (a :: completed st) (opened st)
                   (map Cl (clauses_of P a) ++ rest)
  | Cl c =>
      let (gs, calls) := discover (body c) (goals st) [] in
      mkState gs (edges st) (completed st) (c :: opened st) (Res c :: calls ++ rest)
  | Res c =>
      mkState (goals st) (c :: edges st) (completed st) (opened st) rest
  end.

Definition step (P : program) (k : nat) (st : state) : state :=
  match choose k (wl st) with
  | None => st
  | Some (x, rest) => process P x st rest
  end.

Definition schedule := list nat.

Fixpoint run (P : program) (sched : schedule) (st : state) : state :=
  match sched with
  | [] => st
  | k :: s => run P s (step P k st)
  end.

Definition init (Q : list atom) : state :=
  let (gs, calls) := discover (map Pos Q) [] [] in
  mkState gs [] [] [] calls.

Definition terminated (st : state) : Prop := wl st = [].
Definition terminatedb (st : state) : bool := match wl st with [] => true | _ => false end.

(* ---- specification: goals reachable from the queries, relevant subprogram *)
Inductive reach (P : program) (Q : list atom) : atom -> Prop :=
| reach_q : forall a, In a Q -> reach P Q a
| reach_step : forall a c l, reach P Q a -> In c P -> head c = a -> In l (body c) ->
                             reach P Q (lit_atom l).

Definition relevant (P : program) (Q : list atom) (c : clause) : Prop :=
  In c P /\ reach P Q (head c).

(* ---- meaning of a discovered ground graph: well-founded (alternating
   fixpoint) value of every atom in a world w (truth of the probabilistic
   choices), computed with explicit iteration counts n (inner Kleene
   iteration) and m (outer alternation) over a universe U of atoms.  Everything is built from [tp],
   which looks at the clause list only through [existsb]. *)
Definition interp := atom -> bool.

Definition lit_val (I J : interp) (l : lit) : bool :=
  match l with Pos a => I a | Neg a => negb (J a) end.

Definition tp (E : list clause) (w J I : interp) : interp :=
  fun a => w a || existsb (fun c => Nat.eqb (head c) a && forallb (lit_val I J) (body c)) E.

(* interpretations are tabulated over a finite universe U of atoms after every
   round (a function closure would be re-evaluated exponentially often) *)
Definition memo (U : list atom) (I : interp) : interp :=
  let l := filter I U in fun a => mem a l.

Fixpoint iter (U : list atom) (n : nat) (f : interp -> interp) (I : interp) : interp :=
  match n with 0 => I | S n' => memo U (f (iter U n' f I)) end.

Definition gamma (U : list atom) (n : nat) (E : list clause) (w J : interp) : interp :=
  iter U n (tp E w J) (fun _ => false).

Fixpoint wf_under (U : list atom) (n m : nat) (E : list clause) (w : interp) : interp :=
  match m with
  | 0 => fun _ => false
  | S m' => gamma U n E w (gamma U n E w (wf_under U n m' E w))
  end.

Definition wf_over (U : list atom) (n m : nat) (E : list clause) (w : interp) : interp :=
  gamma U n E w (wf_under U n m E w).

(* three-valued answer: Some true / Some false / None (undefined: the atom
   sits on a cycle through negation in world w).  Meaningful when U contains
   every atom of E and n, m are at least the number of atoms. *)
Definition wf_value (U : list atom) (n m : nat) (E : list clause) (w : interp) (a : atom) : option bool :=
  if wf_under U n m E w a then Some true
  else if wf_over U n m E w a then None else Some false.

(* probability of a query atom over an explicit list of weighted worlds *)
Definition prob (U : list atom) (n m : nat) (E : list clause) (W : list (interp * Q)) (q : atom) : Q :=
  fold_right (fun wp acc => if wf_under U n m E (fst wp) q then (snd wp + acc)%Q else acc) 0%Q W.

(* ---- must-reject class: a cycle through negation inside the graph *)
Definition dep (E : clause -> Prop) (a b : atom) : Prop :=
  exists c l, E c /\ head c = a /\ In l (body c) /\ lit_atom l = b.
Definition negdep (E : clause -> Prop) (a b : atom) : Prop :=
  exists c, E c /\ head c = a /\ In (Neg b) (body c).
Inductive path (E : clause -> Prop) : atom -> atom -> Prop :=
| path_refl : forall a, path E a a
| path_step : forall a b c, dep E a b -> path E b c -> path E a c.
Definition has_neg_cycle (E : clause -> Prop) : Prop :=
  exists a b, negdep E a b /\ path E b a.
Definition in_list (l : list clause) : clause -> Prop := fun c => In c l.

(* ---- strategies (C04): a strategy looks at the state and names the item to process *)
Definition strategy := state -> nat.

Fixpoint run_strategy (P : program) (f : strategy) (fuel : nat) (st : state) : state :=
  match fuel with
  | 0 => st
  | S n => match wl st with
           | [] => st
           | _ => run_strategy P f n (step P (f st) st)
           end
  end.

Definition is_rc (x : item) : bool := match x with Res _ => true | _ => false end.

Fixpoint find_idx (p : item -> bool) (l : list item) : option nat :=
  match l with
  | [] => None
  | x :: t => if p x then Some 0 else option_map S (find_idx p t)
  end.

(* MessageOrderD: plain LIFO over all messages (new items are pushed in front) *)
Definition depth_first : strategy := fun _ => 0.
(* MessageOrderDrc: pending r/c messages first, otherwise the newest e message *)
Definition rc_first : strategy :=
  fun st => match find_idx is_rc (wl st) with Some i => i | None => 0 end.
(* MessageOrder1 (docs/source/engine.rst): r/c first, otherwise an arbitrary
   ("random") e message; the source of randomness is any function of the state *)
Definition random_order (rnd : state -> nat) : strategy :=
  fun st => match find_idx is_rc (wl st) with Some i => i | None => rnd st end.
(* the C03 hook: the default LIFO engine where the choice among the newest
   pending items is perturbed by an arbitrary function *)
Definition permuted_lifo (perm : state -> nat) : strategy := fun st => perm st.
