(* C03 — executable glue used only by the correspondence run of
   harness/props/C03.py (no proofs here): enumerate the worlds of a list of
   independent probabilistic facts and compare the probabilities the abstract
   machine yields under two different schedules with the numbers observed from
   the real engine. *)
From Coq Require Import List Arith Bool QArith Qabs.
From PL.C03 Require Import ModelTabling.
Import ListNotations.
Local Close Scope Q_scope.
Local Open Scope nat_scope.

(* (atoms true in the world, weight of the world) *)
Fixpoint worlds (fs : list (atom * Q)) : list (list atom * Q) :=
  match fs with
  | [] => [([], 1%Q)]
  | (a, p) :: t =>
      let r := worlds t in
      map (fun sq => (a :: fst sq, (p * snd sq)%Q)) r ++
      map (fun sq => (fst sq, ((1 - p) * snd sq)%Q)) r
  end.

Definition world_interp (s : list atom) : interp := fun a => mem a s.

Definition weighted_worlds (fs : list (atom * Q)) : list (interp * Q) :=
  map (fun sq => (world_interp (fst sq), snd sq)) (worlds fs).

Definition close (x y : Q) : bool := Qle_bool (Qabs (x - y)) (1 # 1000000000)%Q.

(* facts are atoms without clauses; U = all atoms; n, m iteration bounds *)
Definition tie_case (P : program) (Q : list atom) (s1 s2 : schedule) (U : list atom) (n m : nat)
           (fs : list (atom * QArith_base.Q)) (obs : list (atom * QArith_base.Q)) : bool :=
  let st1 := run P s1 (init Q) in
  let st2 := run P s2 (init Q) in
  let W := weighted_worlds fs in
  terminatedb st1 && terminatedb st2 &&
  forallb (fun qo => close (prob U n m (edges st1) W (fst qo)) (snd qo) &&
                     close (prob U n m (edges st2) W (fst qo)) (snd qo)) obs.

(* the two schedules of a case really differ in the order of discovery *)
Fixpoint nat_list_eqb (l1 l2 : list nat) : bool :=
  match l1, l2 with
  | [], [] => true
  | x :: t1, y :: t2 => Nat.eqb x y && nat_list_eqb t1 t2
  | _, _ => false
  end.

Definition orders_differ (P : program) (Q : list atom) (s1 s2 : schedule) : bool :=
  negb (nat_list_eqb (map head (edges (run P s1 (init Q)))) (map head (edges (run P s2 (init Q))))).
