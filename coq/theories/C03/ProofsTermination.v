(* C03/C04 — termination of the abstract tabling / worklist machine of
   ModelTabling.v under EVERY schedule, with an explicit bound.

   Measure.  Give every pending item a weight
       Call a : 1        Res c : 1        Cl c : 2 + |body c|
   (a Cl item pays for its own Res item and for one Call per body literal), and
   give every clause OCCURRENCE of the program list whose head has not been
   completed yet the weight of the Cl item it will turn into:
       measure P st = sum of the weights of (wl st)
                    + sum of (2 + |body c|) over the c in P with head c not in completed st.
   Every step on a non-empty worklist decreases the measure by at least one,
   from ANY state (no invariant is needed):
     Call a, a completed      : the item (1) disappears;
     Call a, a not completed  : the item (1) disappears, the clause occurrences
                                with head a move from the "not completed" sum
                                into the worklist as Cl items of the same weight;
     Cl c                     : 2 + |body c| is replaced by Res c (1) and at most
                                |body c| new Call items (1 each);
     Res c                    : the item (1) disappears.
   At the initial state the worklist holds at most |Q| Call items, hence
       bound P Q = |Q| + sum over c in P of (2 + |body c|) = |Q| + 2|P| + #body literals.

   On "every item is created at most once".  Call a is created only by
   [discover], which tests [mem a goals] and adds a to the goals: once per goal.
   Cl c is created when the (unique effective) Call (head c) is processed: once
   per OCCURRENCE of c in the program list — a program list with a repeated
   clause creates Cl c (and then Res c, and the edge c) once per occurrence, see
   [dup_clause_twice] below; the measure therefore sums over occurrences and the
   bound needs no NoDup hypothesis on P or Q. *)
From Coq Require Import List Arith Bool QArith Lia.
From PL.C03 Require Import ModelTabling ProofsTabling.
Import ListNotations.
Local Close Scope Q_scope.
Local Open Scope nat_scope.

Definition cl_weight (c : clause) : nat := 2 + length (body c).

Definition item_weight (x : item) : nat :=
  match x with Call _ => 1 | Cl c => cl_weight c | Res _ => 1 end.

Definition wl_weight (l : list item) : nat := list_sum (map item_weight l).

Definition uncompleted (P : program) (done : list atom) : list clause :=
  filter (fun c => negb (mem (head c) done)) P.

Definition pending_weight (P : program) (done : list atom) : nat :=
  list_sum (map cl_weight (uncompleted P done)).

Definition measure (P : program) (st : state) : nat :=
  wl_weight (wl st) + pending_weight P (completed st).

Definition program_size (P : program) : nat := list_sum (map cl_weight P).

Definition bound (P : program) (Q : list atom) : nat := length Q + program_size P.

(* ------------------------------------------------------------------ weights *)
Lemma lsum_cons : forall x l, list_sum (x :: l) = x + list_sum l.
Proof. reflexivity. Qed.

Lemma wl_weight_app : forall l1 l2, wl_weight (l1 ++ l2) = wl_weight l1 + wl_weight l2.
Proof. intros. unfold wl_weight. rewrite map_app, list_sum_app. reflexivity. Qed.

Lemma wl_weight_cons : forall x l, wl_weight (x :: l) = item_weight x + wl_weight l.
Proof. reflexivity. Qed.

Lemma item_weight_pos : forall x, 1 <= item_weight x.
Proof. destruct x; unfold item_weight, cl_weight; lia. Qed.

Lemma wl_weight_zero : forall l, wl_weight l = 0 -> l = [].
Proof.
  destruct l as [|x t]; [reflexivity|]. rewrite wl_weight_cons.
  pose proof (item_weight_pos x). lia.
Qed.

Lemma pick_weight : forall k l x rest, pick k l = Some (x, rest) ->
  wl_weight l = item_weight x + wl_weight rest.
Proof.
  induction k as [|k IH]; intros l x rest H; destruct l as [|z t]; simpl in H; try discriminate.
  - inversion H; subst. reflexivity.
  - destruct (pick k t) as [[y r]|] eqn:E; try discriminate.
    inversion H; subst. rewrite !wl_weight_cons. rewrite (IH _ _ _ E). lia.
Qed.

Lemma choose_weight : forall k l x rest, choose k l = Some (x, rest) ->
  wl_weight l = item_weight x + wl_weight rest.
Proof. unfold choose. intros. eapply pick_weight; eauto. Qed.

Lemma discover_weight : forall ls gs acc gs' acc',
  discover ls gs acc = (gs', acc') -> wl_weight acc' <= wl_weight acc + length ls.
Proof.
  induction ls as [|l t IH]; intros gs acc gs' acc' H; simpl in H.
  - inversion H; subst. simpl. lia.
  - destruct (mem (lit_atom l) gs).
    + apply IH in H. simpl. lia.
    + apply IH in H. rewrite wl_weight_cons in H. simpl in *. lia.
Qed.

Lemma wl_weight_map_Cl : forall l, wl_weight (map Cl l) = list_sum (map cl_weight l).
Proof.
  induction l as [|c t IH]; [reflexivity|].
  simpl map. rewrite wl_weight_cons, IH. reflexivity.
Qed.

(* completing a moves exactly the clause occurrences with head a out of the
   "not completed" sum *)
Lemma pending_weight_complete : forall P a done, mem a done = false ->
  pending_weight P done = pending_weight P (a :: done) + list_sum (map cl_weight (clauses_of P a)).
Proof.
  intros P a done M. unfold pending_weight, uncompleted, clauses_of.
  induction P as [|c t IH]; [reflexivity|].
  cbn [filter]. change (mem (head c) (a :: done)) with (Nat.eqb (head c) a || mem (head c) done).
  destruct (Nat.eqb (head c) a) eqn:E.
  - apply Nat.eqb_eq in E. rewrite E, M. cbn [negb orb map]. rewrite !lsum_cons, IH. lia.
  - cbn [orb]. destruct (mem (head c) done); cbn [negb map]; rewrite ?lsum_cons, IH; lia.
Qed.

Lemma pending_weight_le : forall P done, pending_weight P done <= program_size P.
Proof.
  intros P done. unfold pending_weight, uncompleted, program_size.
  induction P as [|c t IH]; [simpl; lia|].
  cbn [filter]. destruct (negb (mem (head c) done)); cbn [map]; rewrite ?lsum_cons; lia.
Qed.

Lemma program_size_explicit : forall P,
  program_size P = 2 * length P + list_sum (map (fun c => length (body c)) P).
Proof.
  unfold program_size. induction P as [|c t IH]; [reflexivity|].
  cbn [map length]. rewrite !lsum_cons, IH. unfold cl_weight. lia.
Qed.

(* ------------------------------------------------------------------ one step *)
Lemma process_decreases : forall P x st rest,
  wl_weight (wl st) = item_weight x + wl_weight rest ->
  measure P (process P x st rest) + 1 <= measure P st.
Proof.
  intros P x st rest W. unfold measure. rewrite W. destruct x as [a|c|c]; cbn [process].
  - destruct (mem a (completed st)) eqn:M; cbn [wl completed item_weight].
    + lia.
    + rewrite wl_weight_app, wl_weight_map_Cl.
      rewrite (pending_weight_complete P a (completed st) M). lia.
  - destruct (discover (body c) (goals st) []) as [gs calls] eqn:D.
    cbn [wl completed item_weight].
    apply discover_weight in D. rewrite wl_weight_cons, wl_weight_app.
    unfold cl_weight. cbn [item_weight]. change (wl_weight []) with 0 in D. lia.
  - cbn [wl completed item_weight]. lia.
Qed.

Theorem step_decreases : forall P k st, wl st <> [] ->
  measure P (step P k st) + 1 <= measure P st.
Proof.
  intros P k st H. destruct (choose_some (wl st) k H) as [x [rest E]].
  unfold step. rewrite E. apply process_decreases. eapply choose_weight; eauto.
Qed.

Lemma step_terminated : forall P k st, terminated st -> step P k st = st.
Proof.
  intros P k st T. unfold step, terminated, choose in *. rewrite T.
  destruct (k mod length (@nil item)); reflexivity.
Qed.

Lemma run_terminated : forall P s st, terminated st -> run P s st = st.
Proof.
  intros P s. induction s as [|k s IH]; intros st T; simpl; [reflexivity|].
  rewrite (step_terminated P k st T). apply IH. exact T.
Qed.

(* ------------------------------------------------------------------ runs *)
(* from ANY state, every schedule at least as long as the measure empties the worklist *)
Theorem run_terminates_from : forall P s st, measure P st <= length s -> terminated (run P s st).
Proof.
  intros P s. induction s as [|k s IH]; intros st L.
  - simpl in *. unfold terminated. apply wl_weight_zero. unfold measure in L. lia.
  - cbn [run]. destruct (wl st) eqn:E.
    + rewrite (step_terminated P k st E). rewrite run_terminated; exact E.
    + apply IH. assert (H : wl st <> []) by (rewrite E; discriminate).
      pose proof (step_decreases P k st H). simpl in L. lia.
Qed.

Lemma measure_init : forall P Q, measure P (init Q) <= bound P Q.
Proof.
  intros P Q. unfold init, bound.
  destruct (discover (map Pos Q) [] []) as [gs calls] eqn:D.
  unfold measure. cbn [wl completed].
  apply discover_weight in D. rewrite map_length in D. change (wl_weight []) with 0 in D.
  pose proof (pending_weight_le P []). lia.
Qed.

Theorem run_terminates : forall P Q s, bound P Q <= length s -> terminated (run P s (init Q)).
Proof.
  intros P Q s L. apply run_terminates_from. pose proof (measure_init P Q). lia.
Qed.

(* the statement that was left open in Props.v *)
Theorem termination : forall P Q, exists N, forall s, N <= length s -> terminated (run P s (init Q)).
Proof. intros P Q. exists (bound P Q). intros s L. apply run_terminates. exact L. Qed.

(* a schedule can be cut or extended beyond the bound without changing the result *)
Theorem run_stable_beyond_bound : forall P Q s1 s2, bound P Q <= length s1 ->
  run P (s1 ++ s2) (init Q) = run P s1 (init Q).
Proof.
  intros P Q s1 s2 L. rewrite run_app. apply run_terminated. apply run_terminates. exact L.
Qed.

(* strategies (C04): any choice function, fuel at least the measure *)
Theorem run_strategy_terminates_from : forall P (f : strategy) n st,
  measure P st <= n -> terminated (run_strategy P f n st).
Proof.
  intros P f n. induction n as [|n IH]; intros st L.
  - simpl. unfold terminated. apply wl_weight_zero. unfold measure in L. lia.
  - cbn [run_strategy]. destruct (wl st) eqn:E; [exact E|].
    apply IH. assert (H : wl st <> []) by (rewrite E; discriminate).
    pose proof (step_decreases P (f st) st H). lia.
Qed.

Theorem run_strategy_terminates : forall P Q (f : strategy) n,
  bound P Q <= n -> terminated (run_strategy P f n (init Q)).
Proof.
  intros P Q f n L. apply run_strategy_terminates_from. pose proof (measure_init P Q). lia.
Qed.

(* ------------------------------------------------------------------ unconditional corollaries *)
Theorem schedule_independent_total : forall P Q s1 s2,
  bound P Q <= length s1 -> bound P Q <= length s2 ->
  same_set (goals (run P s1 (init Q))) (goals (run P s2 (init Q))) /\
  same_set (edges (run P s1 (init Q))) (edges (run P s2 (init Q))).
Proof. intros. apply schedule_independent; apply run_terminates; assumption. Qed.

Theorem result_is_relevant_subprogram_total : forall P Q s, bound P Q <= length s ->
  (forall a, In a (goals (run P s (init Q))) <-> reach P Q a) /\
  (forall c, In c (edges (run P s (init Q))) <-> (In c P /\ reach P Q (head c))).
Proof. intros. apply result_is_relevant_subprogram. apply run_terminates. assumption. Qed.

Theorem same_values_total : forall P Q s1 s2,
  bound P Q <= length s1 -> bound P Q <= length s2 ->
  forall U n m w a,
    wf_value U n m (edges (run P s1 (init Q))) w a = wf_value U n m (edges (run P s2 (init Q))) w a.
Proof. intros. apply same_values; apply run_terminates; assumption. Qed.

Theorem same_probabilities_total : forall P Q s1 s2,
  bound P Q <= length s1 -> bound P Q <= length s2 ->
  forall U n m W q,
    prob U n m (edges (run P s1 (init Q))) W q = prob U n m (edges (run P s2 (init Q))) W q.
Proof. intros. apply same_probabilities; apply run_terminates; assumption. Qed.

Theorem error_schedule_free_total : forall P Q s1 s2,
  bound P Q <= length s1 -> bound P Q <= length s2 ->
  (has_neg_cycle (in_list (edges (run P s1 (init Q)))) <-> has_neg_cycle (in_list (edges (run P s2 (init Q))))).
Proof. intros. apply error_schedule_free; apply run_terminates; assumption. Qed.

Theorem strategies_agree_total : forall P Q (f1 f2 : strategy) n1 n2,
  bound P Q <= n1 -> bound P Q <= n2 ->
  same_set (goals (run_strategy P f1 n1 (init Q))) (goals (run_strategy P f2 n2 (init Q))) /\
  same_set (edges (run_strategy P f1 n1 (init Q))) (edges (run_strategy P f2 n2 (init Q))).
Proof. intros. apply strategies_agree; apply run_strategy_terminates; assumption. Qed.

(* a strategy run with enough fuel computes the relevant subprogram *)
Theorem strategy_result_is_relevant_subprogram : forall P Q (f : strategy) n, bound P Q <= n ->
  (forall a, In a (goals (run_strategy P f n (init Q))) <-> reach P Q a) /\
  (forall c, In c (edges (run_strategy P f n (init Q))) <-> (In c P /\ reach P Q (head c))).
Proof.
  intros P Q f n L. pose proof (run_strategy_terminates P Q f n L) as T.
  destruct (strategy_is_schedule P f n (init Q)) as [s [_ E]]. rewrite <- E in *.
  apply result_is_relevant_subprogram. exact T.
Qed.

Theorem modes_agree_with_depth_first_total :
  forall (P : program) (Q : list atom) (f : strategy) (n1 n2 : nat),
  bound P Q <= n1 -> bound P Q <= n2 ->
  (forall a, In a (goals (run_strategy P depth_first n1 (init Q))) <-> In a (goals (run_strategy P f n2 (init Q)))) /\
  (forall c, In c (edges (run_strategy P depth_first n1 (init Q))) <-> In c (edges (run_strategy P f n2 (init Q)))) /\
  (forall U n m w a, wf_value U n m (edges (run_strategy P depth_first n1 (init Q))) w a
                     = wf_value U n m (edges (run_strategy P f n2 (init Q))) w a) /\
  (forall U n m W q, prob U n m (edges (run_strategy P depth_first n1 (init Q))) W q
                     = prob U n m (edges (run_strategy P f n2 (init Q))) W q) /\
  (has_neg_cycle (in_list (edges (run_strategy P depth_first n1 (init Q)))) <->
   has_neg_cycle (in_list (edges (run_strategy P f n2 (init Q))))).
Proof.
  intros P Q f n1 n2 L1 L2.
  destruct (strategies_agree_total P Q depth_first f n1 n2 L1 L2) as [G E].
  split; [exact G|]. split; [exact E|]. split; [|split].
  - intros. apply wf_value_ext. exact E.
  - intros. apply prob_ext. exact E.
  - split; apply has_neg_cycle_ext; intros c; unfold in_list; [apply E | symmetry; apply E].
Qed.

(* ------------------------------------------------------------------ remarks made precise *)
(* a clause that occurs twice in the program list is scheduled (Cl), answered
   (Res) and recorded (edge) twice: "at most once" holds per OCCURRENCE *)
Example dup_clause_twice :
  let c := mkClause 0 [] in
  edges (run [c; c] (repeat 0 5) (init [0])) = [c; c] /\
  terminated (run [c; c] (repeat 0 5) (init [0])) /\ bound [c; c] [0] = 5.
Proof. vm_compute. repeat split; reflexivity. Qed.

(* the bound is attained: a fact program needs exactly [bound] steps *)
Example bound_is_tight :
  let P := [mkClause 0 [Pos 1]; mkClause 1 []] in
  bound P [0] = 6 /\
  terminatedb (run P (repeat 0 5) (init [0])) = false /\
  terminatedb (run P (repeat 0 6) (init [0])) = true.
Proof. vm_compute. repeat split; reflexivity. Qed.
