(* C05 — evaluation commutes with semiring homomorphisms; extensionally equal semirings give equal
   values; NSP evaluation (smoothing on the fly) equals plain evaluation on smooth circuits. *)
From Coq Require Import List Bool Arith Lia Ring_theory Ring.
From PL.C10 Require Import ModelCircuit SpecDDNNF ProofsTree ProofsDag ProofsWMC.
From PL.C05 Require Import ModelNSP.
Import ListNotations.

(* ------------------------------------------------------------------ homomorphisms *)
Section Hom.
  Variables S1 S2 : sr_ops.
  Variable h : S1 -> S2.
  Hypothesis H : sr_hom S1 S2 h.

  Lemma hom_ssum l : h (ssum l) = ssum (map h l).
  Proof. induction l as [|x r IH]; simpl; [apply (hom_0 _ _ _ H) | rewrite (hom_add _ _ _ H), IH; reflexivity]. Qed.
  Lemma hom_sprod l : h (sprod l) = sprod (map h l).
  Proof. induction l as [|x r IH]; simpl; [apply (hom_1 _ _ _ H) | rewrite (hom_mul _ _ _ H), IH; reflexivity]. Qed.

  Theorem eval_hom_tree w : forall t, h (eval S1 w t) = eval S2 (fun v b => h (w v b)) t.
  Proof.
    induction t as [ | | v b | l IH | l IH] using nnf_ind'.
    - apply (hom_1 _ _ _ H).
    - apply (hom_0 _ _ _ H).
    - reflexivity.
    - rewrite !eval_and, hom_sprod, map_map. f_equal. apply map_ext_in. rewrite Forall_forall in IH. exact IH.
    - rewrite !eval_or, hom_ssum, map_map. f_equal. apply map_ext_in. rewrite Forall_forall in IH. exact IH.
  Qed.

  Theorem eval_hom w C : h (c_eval S1 w C) = c_eval S2 (fun v b => h (w v b)) C.
  Proof. rewrite !c_eval_tree. apply eval_hom_tree. Qed.
End Hom.

(* a user-defined semiring whose operations are extensionally those of S computes the same values *)
Theorem eval_custom (S : sr_ops) (z o : S) (p t : S -> S -> S) :
  z = s0 S -> o = s1 S -> (forall x y, p x y = sadd S x y) -> (forall x y, t x y = smul S x y) ->
  forall w C, c_eval {| car := S; s0 := z; s1 := o; sadd := p; smul := t |} w C = c_eval S w C.
Proof.
  intros Hz Ho Hp Ht w C.
  symmetry.
  apply (eval_hom S {| car := S; s0 := z; s1 := o; sadd := p; smul := t |} (fun x => x)).
  constructor; simpl; intros; congruence.
Qed.

(* ------------------------------------------------------------------ NSP *)
Section NSPProofs.
  Variable S : sr_ops.
  Hypothesis laws : sr_laws S.
  Variable w : nat -> bool -> S.
  Let laws' : semi_ring_theory (s0 S) (s1 S) (sadd S) (smul S) (@eq (car S)) := laws.
  Add Ring Sring5 : laws'.

  Notation nsp := (eval_nsp S w).

  Lemma nsp_and l : nsp (NAnd l) = (sprod (map (fun t => fst (nsp t)) l), flat_map (fun t => snd (nsp t)) l).
  Proof. unfold eval_nsp. simpl. rewrite !map_map, <- flat_map_concat_map. reflexivity. Qed.
  Lemma nsp_or l : nsp (NOr l) =
    (ssum (map (fun t => pad S w (flat_map (fun t => snd (nsp t)) l) (nsp t)) l), flat_map (fun t => snd (nsp t)) l).
  Proof. unfold eval_nsp. simpl. rewrite !map_map, <- flat_map_concat_map. reflexivity. Qed.

  Lemma nsp_vars : forall t v, In v (snd (nsp t)) <-> In v (tvars t).
  Proof.
    induction t as [ | | v' b | l IH | l IH] using nnf_ind'; intros v; try (simpl; tauto).
    - rewrite nsp_and, tvars_and. simpl. rewrite !in_flat_map. rewrite Forall_forall in IH.
      split; intros [x [Hx Hv]]; exists x; split; auto; apply (IH x Hx); assumption.
    - rewrite nsp_or, tvars_or. simpl. rewrite !in_flat_map. rewrite Forall_forall in IH.
      split; intros [x [Hx Hv]]; exists x; split; auto; apply (IH x Hx); assumption.
  Qed.

  Lemma pad_nothing_missing all_used c :
    (forall v, In v all_used -> In v (snd c)) -> pad S w all_used c = fst c.
  Proof.
    intros Hc. unfold pad, missing. rewrite filter_none.
    - simpl. ring.
    - intros v Hv. apply negb_false_iff, memb_spec, Hc, Hv.
  Qed.

  Theorem nsp_smooth : forall t, Smooth t -> fst (nsp t) = eval S w t.
  Proof.
    induction t as [ | | v b | l IH | l IH] using nnf_ind'; intros Hs; try reflexivity.
    - inversion Hs as [| | |? HsF|]; subst. rewrite nsp_and, eval_and. simpl. f_equal.
      apply map_ext_in. intros x Hx. rewrite Forall_forall in *. apply IH; auto.
    - inversion Hs as [| | | |? HsF HsS]; subst. rewrite nsp_or, eval_or. simpl. f_equal.
      apply map_ext_in. intros x Hx. rewrite Forall_forall in *.
      rewrite pad_nothing_missing; [apply IH; auto|].
      intros v Hv. apply in_flat_map in Hv. destruct Hv as [y [Hy Hv]].
      apply nsp_vars. apply (HsS y x Hy Hx v). apply nsp_vars. exact Hv.
  Qed.

  (* the top-level `evaluate` as well: nothing is padded when the root mentions every weighted variable *)
  Theorem nsp_top_smooth U t : Smooth t -> (forall v, In v U -> In v (tvars t)) ->
    eval_nsp_top S w U t = eval S w t.
  Proof.
    intros Hs Hc. unfold eval_nsp_top. rewrite pad_nothing_missing; [apply nsp_smooth, Hs|].
    intros v Hv. apply nsp_vars, Hc, Hv.
  Qed.

  Theorem c_nsp_smooth U C : smooth C -> (forall v, In v U -> In v (tvars (root_tree C))) ->
    c_eval_nsp S w U C = c_eval S w C.
  Proof.
    intros Hs Hc. unfold c_eval_nsp. rewrite (root_val_fold (alg_nsp S w)), c_eval_tree.
    apply nsp_top_smooth; assumption.
  Qed.
End NSPProofs.

Theorem nsp_checked : forall (S : sr_ops), sr_laws S -> forall (w : nat -> bool -> S) n C f,
  check_ddnnf n C f = true -> c_eval_nsp S w (var_list n) C = wmc_cnf S w n f.
Proof.
  intros S laws w n C f H.
  destruct (check_ddnnf_sound n C f H) as [_ [_ [_ [Hs [Hcov _]]]]].
  rewrite (c_nsp_smooth S laws w (var_list n) C Hs).
  - apply checked_eval_is_wmc_cnf; assumption.
  - intros v Hv. apply Hcov. unfold var_list in Hv. apply in_seq in Hv. lia.
Qed.
