(* C05 — the standard stratified expression grammar on TOKEN lists, with values (specification; definitions only):
   parentheses > left-associative `*` and `/` > left-associative `+` and `-`.  This is the token-level
   counterpart of the string-level relational grammar `den_atom/den_prod/den_sum` of C12/ProofsSym.v. *)
From Coq Require Import List String Reals.
From PL.C05 Require Import ModelSym.
Import ListNotations.
Local Open Scope R_scope.

Section Grammar.
  Variable aval : string -> R.
  Inductive g_atom : list tok -> R -> Prop :=
  | GA_atom x : g_atom [TAtom x] (aval x)
  | GA_paren ts v : g_sum ts v -> g_atom (TLP :: ts ++ [TRP]) v
  with g_prod : list tok -> R -> Prop :=
  | GP_atom ts v : g_atom ts v -> g_prod ts v
  | GP_mul ts us v w : g_prod ts v -> g_atom us w -> g_prod (ts ++ TStar :: us) (v * w)
  | GP_div ts us v w : g_prod ts v -> g_atom us w -> g_prod (ts ++ TSlash :: us) (v / w)
  with g_sum : list tok -> R -> Prop :=
  | GS_prod ts v : g_prod ts v -> g_sum ts v
  | GS_add ts us v w : g_sum ts v -> g_prod us w -> g_sum (ts ++ TPlus :: us) (v + w)
  | GS_sub ts us v w : g_sum ts v -> g_prod us w -> g_sum (ts ++ TMinus :: us) (v - w).
End Grammar.
