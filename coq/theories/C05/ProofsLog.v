(* C05 — the log-probability semiring is the image of the probability semiring under ln:
   exp is a semiring homomorphism from (R with -inf, logsumexp, plus) to (R, plus, times).
   Uses the standard library's real numbers (its axioms are listed by Print Assumptions). *)
From Coq Require Import Reals Lra.
From PL.C10 Require Import ModelCircuit.
From PL.C05 Require Import ModelNSP.
Local Open Scope R_scope.

(* SemiringLogProbability: zero = -inf (None), one = 0.0, times = +,
   plus a b = b + log1p(exp(a-b)) = ln (exp a + exp b) *)
Definition LogOps : sr_ops :=
  {| car := option R; s0 := None; s1 := Some 0;
     sadd := fun x y => match x, y with
                        | None, _ => y | _, None => x
                        | Some a, Some b => Some (ln (exp a + exp b)) end;
     smul := fun x y => match x, y with
                        | Some a, Some b => Some (a + b) | _, _ => None end |}.
Definition ProbROps : sr_ops := {| car := R; s0 := 0; s1 := 1; sadd := Rplus; smul := Rmult |}.
(* SemiringLogProbability.result = math.exp *)
Definition expo (x : option R) : R := match x with None => 0 | Some a => exp a end.

Lemma exp_is_hom : sr_hom LogOps ProbROps expo.
Proof.
  constructor; simpl.
  - reflexivity.
  - apply exp_0.
  - intros [a|] [b|]; simpl; try lra.
    apply exp_ln. pose proof (exp_pos a). pose proof (exp_pos b). lra.
  - intros [a|] [b|]; simpl; try lra. apply exp_plus.
Qed.
