(* C05 — SemiringSymbolic: the expression the evaluator builds, read back as a number, is the
   probability-semiring evaluation with the numeric weights.
     1. `denote` is an operation-preserving map from the expression "semiring" to the reals
        (so C05_eval_hom applies; the expression algebra itself is NOT a semiring: "(a + b)" and
        "(b + a)" are different strings);
     2. the same for the left-fold evaluation order of SimpleDDNNFEvaluator (generic lemma: a
        homomorphism into a commutative semiring does not see the fold direction);
     3. the reader `read` (ModelSym.v) maps the tokens of every expression to its `denote`;
     4. `print` is the spelling of the tokens, and the translator-generated definitions of
        SemiringSymbolic's methods (C12/GenSemirings.v, regenerated from problog/evaluator.py on every run)
        compute exactly `print` of the expression-level operations -- the checked tie to the source. *)
From Coq Require Import List Bool Arith Lia String Ascii Reals Lra Ring_theory Ring.
From PL.C10 Require Import ModelCircuit SpecDDNNF ProofsTree ProofsDag ProofsWMC.
From PL.C05 Require Import ModelNSP Proofs ProofsLog ModelSym.
From PL.C12 Require Import ModelPy GenSemirings.
Import ListNotations.
Local Open Scope string_scope.

Lemma ProbR_laws : sr_laws ProbROps.
Proof.
  constructor; simpl; intros; try ring.
Qed.

(* ------------------------------------------------------------------ homomorphisms and fold direction *)
Section HomLeft.
  Variables S1 S2 : sr_ops.
  Variable h : S1 -> S2.
  Hypothesis H : sr_hom S1 S2 h.
  Hypothesis laws2 : sr_laws S2.
  Let laws2' : semi_ring_theory (s0 S2) (s1 S2) (sadd S2) (smul S2) (@eq (car S2)) := laws2.
  Add Ring SringHL : laws2'.

  Lemma hom_sprod_l l : h (sprod_l l) = sprod (map h l).
  Proof.
    unfold sprod_l.
    assert (G : forall acc, h (fold_left (smul S1) l acc) = smul S2 (h acc) (sprod (map h l))).
    { induction l as [|x r IH]; intros acc; simpl; [ring|]. rewrite IH, (hom_mul _ _ _ H). ring. }
    rewrite G, (hom_1 _ _ _ H). ring.
  Qed.
  Lemma hom_ssum_l l : h (ssum_l l) = ssum (map h l).
  Proof.
    unfold ssum_l.
    assert (G : forall acc, h (fold_left (sadd S1) l acc) = sadd S2 (h acc) (ssum (map h l))).
    { induction l as [|x r IH]; intros acc; simpl; [ring|]. rewrite IH, (hom_add _ _ _ H). ring. }
    rewrite G, (hom_0 _ _ _ H). ring.
  Qed.

  Theorem eval_l_hom_tree w : forall t, h (fold (alg_sr_l S1 w) t) = eval S2 (fun v b => h (w v b)) t.
  Proof.
    induction t as [ | | v b | l IH | l IH] using nnf_ind'.
    - apply (hom_1 _ _ _ H).
    - apply (hom_0 _ _ _ H).
    - reflexivity.
    - rewrite eval_and. cbn [fold alg_sr_l fA]. rewrite hom_sprod_l, map_map. f_equal.
      apply map_ext_in. rewrite Forall_forall in IH. exact IH.
    - rewrite eval_or. cbn [fold alg_sr_l fO]. rewrite hom_ssum_l, map_map. f_equal.
      apply map_ext_in. rewrite Forall_forall in IH. exact IH.
  Qed.

  Theorem eval_l_hom w C : h (c_eval_l S1 w C) = c_eval S2 (fun v b => h (w v b)) C.
  Proof. unfold c_eval_l. rewrite (root_val_fold (alg_sr_l S1 w)), c_eval_tree. apply eval_l_hom_tree. Qed.
End HomLeft.

(* ------------------------------------------------------------------ denote is a homomorphism *)
Ltac rr := simpl; unfold Rdiv; ring.

Lemma is_lit_spec c e : is_lit c e = true -> e = SAtom c.
Proof. destruct e; simpl; try discriminate. intros E. apply String.eqb_eq in E. congruence. Qed.

Section Den.
  Variable aval : string -> R.
  Hypothesis aval_0 : aval "0" = 0%R.
  Hypothesis aval_1 : aval "1" = 1%R.
  Notation den := (denote R 1%R Rplus Rminus Rmult Rdiv aval).

  Lemma den_lit0 e : is_lit "0" e = true -> den e = 0%R.
  Proof. intros E. apply is_lit_spec in E. subst. exact aval_0. Qed.
  Lemma den_lit1 e : is_lit "1" e = true -> den e = 1%R.
  Proof. intros E. apply is_lit_spec in E. subst. exact aval_1. Qed.

  Lemma den_plus a b : den (sx_plus a b) = (den a + den b)%R.
  Proof.
    unfold sx_plus. destruct (is_lit "0" a) eqn:Ea; [rewrite (den_lit0 a Ea); rr|].
    destruct (is_lit "0" b) eqn:Eb; [rewrite (den_lit0 b Eb); rr|]. reflexivity.
  Qed.
  Lemma den_times a b : den (sx_times a b) = (den a * den b)%R.
  Proof.
    unfold sx_times. destruct (is_lit "0" a) eqn:Ea; simpl orb; cbv iota.
    { rewrite (den_lit0 a Ea). simpl. rewrite aval_0. rr. }
    destruct (is_lit "0" b) eqn:Eb.
    { rewrite (den_lit0 b Eb). simpl. rewrite aval_0. rr. }
    destruct (is_lit "1" a) eqn:Ea1; [rewrite (den_lit1 a Ea1); rr|].
    destruct (is_lit "1" b) eqn:Eb1; [rewrite (den_lit1 b Eb1); rr|]. reflexivity.
  Qed.
  Lemma den_negate a : den (sx_negate a) = (1 - den a)%R.
  Proof.
    unfold sx_negate. destruct (is_lit "0" a) eqn:Ea.
    { rewrite (den_lit0 a Ea). simpl. rewrite aval_1. rr. }
    destruct (is_lit "1" a) eqn:Ea1.
    { rewrite (den_lit1 a Ea1). simpl. rewrite aval_0. rr. }
    reflexivity.
  Qed.
  Lemma den_normalize a z : den (sx_normalize a z) = (den a / den z)%R.
  Proof.
    unfold sx_normalize. destruct (is_lit "1" z) eqn:Ez; [|reflexivity].
    rewrite (den_lit1 z Ez). unfold Rdiv. rewrite Rinv_1. ring.
  Qed.

  Lemma den_hom : sr_hom SymOps ProbROps den.
  Proof.
    constructor; simpl.
    - exact aval_0.
    - exact aval_1.
    - exact den_plus.
    - exact den_times.
  Qed.

  (* ---------------------------------------------------------------- the reader reads every expression as its meaning *)
  Notation runR := (run R 0%R 1%R Rplus Rminus Rmult Rdiv aval).

  (* while an operand is expected after `*` (or at the start of a product), the tokens of ANY expression
     are consumed as one factor: the product read so far is multiplied by the expression's value.
     (This is false after `/` -- "a / x*y" is (a/x)*y -- which is why normalize must parenthesise.) *)
  Lemma run_tokens e : forall s so p k r,
    runR (WantOperand s so p OMul :: k) (tokens e ++ r) = runR (WantOperator s so (p * den e)%R :: k) r.
  Proof.
    induction e as [x | a IHa b IHb | a IHa b IHb | a IHa | a IHa z IHz]; intros s so p k r; cbn [tokens].
    - reflexivity.
    - repeat (cbn [app]; rewrite <- app_assoc). cbn [app run]. unfold fresh.
      rewrite IHa. cbn [run]. rewrite IHb. cbn [run].
      match goal with |- runR (?f :: _) _ = runR (?g :: _) _ => replace f with g; [reflexivity|] end.
      f_equal. rr.
    - rewrite <- app_assoc. cbn [app]. rewrite IHa. cbn [run]. rewrite IHb.
      match goal with |- runR (?f :: _) _ = runR (?g :: _) _ => replace f with g; [reflexivity|] end.
      f_equal. rr.
    - repeat (cbn [app]; rewrite <- app_assoc). cbn [app run]. unfold fresh. cbn [run].
      rewrite IHa. cbn [run].
      match goal with |- runR (?f :: _) _ = runR (?g :: _) _ => replace f with g; [reflexivity|] end.
      f_equal. simpl. rewrite aval_1. rr.
    - repeat (rewrite <- app_assoc; cbn [app]). rewrite IHa. cbn [run]. unfold fresh.
      rewrite IHz. cbn [run].
      match goal with |- runR (?f :: _) _ = runR (?g :: _) _ => replace f with g; [reflexivity|] end.
      f_equal. simpl. replace (0 + 1 * den z)%R with (den z) by ring. unfold Rdiv. ring.
  Qed.

  Theorem read_tokens e : readR aval (tokens e) = Some (denoteR aval e).
  Proof.
    unfold readR, denoteR, read, fresh. rewrite <- (app_nil_r (tokens e)). rewrite run_tokens. cbn [run].
    f_equal. rr.
  Qed.

  (* ---------------------------------------------------------------- evaluation *)
  Theorem sym_eval_den w C :
    denoteR aval (c_eval SymOps w C) = c_eval ProbROps (fun v b => denoteR aval (w v b)) C.
  Proof. exact (eval_hom SymOps ProbROps den den_hom w C). Qed.

  Theorem sym_eval_l_den w C :
    denoteR aval (c_eval_l SymOps w C) = c_eval ProbROps (fun v b => denoteR aval (w v b)) C.
  Proof. exact (eval_l_hom SymOps ProbROps den den_hom ProbR_laws w C). Qed.
End Den.

(* ------------------------------------------------------------------ print = spelling of the tokens *)
Lemma str_app_assoc (s t u : string) : (s ++ t) ++ u = s ++ (t ++ u).
Proof. induction s; cbn; congruence. Qed.
Lemma str_app_nil_r (s : string) : s ++ "" = s.
Proof. induction s; cbn; congruence. Qed.
Lemma str_length_app (s t : string) : String.length (s ++ t) = String.length s + String.length t.
Proof. induction s; cbn; auto. Qed.

Lemma spell_all_app ts us : spell_all (ts ++ us) = spell_all ts ++ spell_all us.
Proof.
  induction ts as [|t r IH]; simpl; [reflexivity|]. rewrite IH, str_app_assoc. reflexivity.
Qed.

Theorem print_spell e : print e = spell_all (tokens e).
Proof.
  induction e as [x | a IHa b IHb | a IHa b IHb | a IHa | a IHa z IHz]; cbn [print tokens].
  - simpl. symmetry. apply str_app_nil_r.
  - cbn [spell_all fold_right spell]. fold (spell_all (tokens a ++ TPlus :: tokens b ++ [TRP])).
    rewrite spell_all_app. cbn [spell_all fold_right spell]. fold (spell_all (tokens b ++ [TRP])).
    rewrite spell_all_app. simpl spell_all at 3. rewrite <- IHa, <- IHb. reflexivity.
  - rewrite spell_all_app. cbn [spell_all fold_right spell]. fold (spell_all (tokens b)).
    rewrite <- IHa, <- IHb. reflexivity.
  - cbn [spell_all fold_right spell]. fold (spell_all (tokens a ++ [TRP])).
    rewrite spell_all_app. simpl spell_all at 2. rewrite <- IHa. reflexivity.
  - rewrite spell_all_app. cbn [spell_all fold_right spell]. fold (spell_all (tokens z ++ [TRP])).
    rewrite spell_all_app. simpl spell_all at 3. rewrite <- IHa, <- IHz. reflexivity.
Qed.

(* ------------------------------------------------------------------ tie to the translated source *)
(* Python compares the operand strings with "0" / "1"; the model compares expressions with the atoms.
   The two coincide: a one-character string that is not "*" is printed only by an atom. *)
Lemma print_is_lit (c : ascii) e : c <> "*"%char ->
  String.eqb (print e) (String c "") = is_lit (String c "") e.
Proof.
  intros Hc. destruct e as [x | a b | a b | a | a z]; cbn [print is_lit]; try reflexivity;
    (destruct (String.eqb _ _) eqn:E; [exfalso | reflexivity]); apply String.eqb_eq in E;
    pose proof (f_equal String.length E) as L; cbn in L; rewrite ?str_length_app in L; cbn in L;
    rewrite ?str_length_app in L; cbn in L; try lia.
  (* a*b: only "" * "" has length one, and that is "*" *)
  destruct (print a); [|cbn in L; lia]. destruct (print b); [|cbn in L; lia].
  cbn in E. congruence.
Qed.
Lemma print_is_lit0 e : String.eqb (print e) "0" = is_lit "0" e.
Proof. apply (print_is_lit "0"%char). discriminate. Qed.
Lemma print_is_lit1 e : String.eqb (print e) "1" = is_lit "1" e.
Proof. apply (print_is_lit "1"%char). discriminate. Qed.

Section Gen.
  Variable N : NumOps.
  Theorem gen_zero : sym_zero N = Ok (print sx_zero).
  Proof. reflexivity. Qed.
  Theorem gen_one : sym_one N = Ok (print sx_one).
  Proof. reflexivity. Qed.
  Theorem gen_value s : sym_value N s = Ok (print (sx_value s)).
  Proof. reflexivity. Qed.
  Theorem gen_plus a b : sym_plus N (print a) (print b) = Ok (print (sx_plus a b)).
  Proof.
    unfold sym_plus, sx_plus. cbn [py_eqb]. rewrite !print_is_lit0.
    destruct (is_lit "0" a); [reflexivity|]. destruct (is_lit "0" b); reflexivity.
  Qed.
  Theorem gen_times a b : sym_times N (print a) (print b) = Ok (print (sx_times a b)).
  Proof.
    unfold sym_times, sx_times. cbn [py_eqb]. rewrite !print_is_lit0, !print_is_lit1.
    destruct (is_lit "0" a || is_lit "0" b); [reflexivity|].
    destruct (is_lit "1" a); [reflexivity|]. destruct (is_lit "1" b); reflexivity.
  Qed.
  Theorem gen_negate a : sym_negate N (print a) = Ok (print (sx_negate a)).
  Proof.
    unfold sym_negate, sx_negate. cbn [py_eqb]. rewrite print_is_lit0, print_is_lit1.
    destruct (is_lit "0" a); [reflexivity|]. destruct (is_lit "1" a); reflexivity.
  Qed.
  Theorem gen_normalize a z : sym_normalize N (print a) (print z) = Ok (print (sx_normalize a z)).
  Proof.
    unfold sym_normalize, sx_normalize. cbn [py_eqb]. rewrite print_is_lit1.
    destruct (is_lit "1" z); reflexivity.
  Qed.
End Gen.

(* ------------------------------------------------------------------ the statements of Props.v *)
Theorem symbolic_evaluates : forall (aval : string -> R), aval "0" = 0%R -> aval "1" = 1%R ->
  forall (w : nat -> bool -> sx) C,
    let e := c_eval_l SymOps w C in
    let p := c_eval ProbROps (fun v b => denoteR aval (w v b)) C in
    denoteR aval e = p /\ readR aval (tokens e) = Some p /\ print e = spell_all (tokens e).
Proof.
  intros aval A0 A1 w C e p. split; [|split].
  - apply sym_eval_l_den; assumption.
  - rewrite (read_tokens aval A1). apply (f_equal Some). apply sym_eval_l_den; assumption.
  - apply print_spell.
Qed.

Theorem symbolic_evaluates_foldr : forall (aval : string -> R), aval "0" = 0%R -> aval "1" = 1%R ->
  forall (w : nat -> bool -> sx) C,
    let e := c_eval SymOps w C in
    let p := c_eval ProbROps (fun v b => denoteR aval (w v b)) C in
    denoteR aval e = p /\ readR aval (tokens e) = Some p /\ print e = spell_all (tokens e).
Proof.
  intros aval A0 A1 w C e p. split; [|split].
  - apply sym_eval_den; assumption.
  - rewrite (read_tokens aval A1). apply (f_equal Some). apply sym_eval_den; assumption.
  - apply print_spell.
Qed.

Theorem symbolic_normalize : forall (aval : string -> R), aval "0" = 0%R -> aval "1" = 1%R ->
  forall (w wz : nat -> bool -> sx) C Cz,
    let e := sx_normalize (c_eval_l SymOps w C) (c_eval_l SymOps wz Cz) in
    let p := (c_eval ProbROps (fun v b => denoteR aval (w v b)) C /
              c_eval ProbROps (fun v b => denoteR aval (wz v b)) Cz)%R in
    denoteR aval e = p /\ readR aval (tokens e) = Some p /\ print e = spell_all (tokens e).
Proof.
  intros aval A0 A1 w wz C Cz e p.
  assert (E : denoteR aval e = p).
  { unfold e, p, denoteR. rewrite (den_normalize aval A1).
    fold (denoteR aval). rewrite !(sym_eval_l_den aval A0 A1). reflexivity. }
  split; [exact E|split].
  - rewrite (read_tokens aval A1). apply (f_equal Some). exact E.
  - apply print_spell.
Qed.

(* the weights a probabilistic fact with annotation string q gets: value(q) and negate(value(q)) *)
Definition fact_weights (q : nat -> string) : nat -> bool -> sx :=
  fun v b => if b then sx_value (q v) else sx_negate (sx_value (q v)).

Theorem symbolic_facts : forall (aval : string -> R), aval "0" = 0%R -> aval "1" = 1%R ->
  forall (q : nat -> string) C,
    readR aval (tokens (c_eval_l SymOps (fact_weights q) C)) =
    Some (c_eval ProbROps (fun v b => if b then aval (q v) else (1 - aval (q v))%R) C).
Proof.
  intros aval A0 A1 q C.
  destruct (symbolic_evaluates aval A0 A1 (fact_weights q) C) as [_ [Hr _]]. cbv zeta in Hr. rewrite Hr.
  apply (f_equal Some). rewrite !c_eval_tree.
  clear Hr. generalize (root_tree C). intros t.
  induction t as [ | | v b | l IH | l IH] using nnf_ind'; try reflexivity.
  - unfold fact_weights. destruct b.
    + reflexivity.
    + unfold eval. cbn [fold alg_sr fL]. unfold denoteR. rewrite (den_negate aval A0 A1). reflexivity.
  - rewrite !eval_and. f_equal. apply map_ext_in. rewrite Forall_forall in IH. exact IH.
  - rewrite !eval_or. f_equal. apply map_ext_in. rewrite Forall_forall in IH. exact IH.
Qed.

Theorem symbolic_is_source : forall (N : NumOps) (a b : sx) (s : string),
  sym_zero N = Ok (print sx_zero) /\ sym_one N = Ok (print sx_one) /\
  sym_value N s = Ok (print (sx_value s)) /\
  sym_plus N (print a) (print b) = Ok (print (sx_plus a b)) /\
  sym_times N (print a) (print b) = Ok (print (sx_times a b)) /\
  sym_negate N (print a) = Ok (print (sx_negate a)) /\
  sym_normalize N (print a) (print b) = Ok (print (sx_normalize a b)).
Proof.
  intros N a b s. repeat split.
  - apply gen_plus.
  - apply gen_times.
  - apply gen_negate.
  - apply gen_normalize.
Qed.
