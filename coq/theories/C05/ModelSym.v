(* C05 — executable model of SemiringSymbolic (problog/evaluator.py:296) at the expression level, and
   of a reader for the expressions it prints.  Definitions only.

   * `sx`: the expressions the class builds, one constructor per string template:
        SAtom s -> s                  (value(a) = str(a); also the constants "0" and "1")
        SAdd a b -> "(a + b)"         (plus)
        SMul a b -> "a*b"             (times)
        SNeg a   -> "(1-a)"           (negate)
        SDiv a z -> "a / (z)"         (normalize, with the divisor parenthesised)
     `sx_plus`, `sx_times`, `sx_negate`, `sx_normalize` repeat the class's shortcuts: the Python code
     compares the operand STRINGS with "0" / "1"; here an operand is compared with the atom "0" / "1"
     (the two agree because only an atom can print as a one-character digit: ProofsSymbolic.print_is_lit).
   * `print` is the string the Python code returns; `tokens` is the same text cut into tokens
     (`spell` gives the characters of each token, including the blanks of " + " and " / ").
   * `read`: a precedence-respecting reader of token lists, ONE structural pass over the tokens with an
     explicit stack (no fuel, hence total and deterministic): parentheses > `*`, `/` (left associative)
     > `+`, `-` (left associative).  It is generic in the number type so that it can be run (on Q) as
     well as reasoned about (on R).
   * `alg_sr_l`: the evaluation algebra with the products/sums folded from the LEFT starting from
     one()/zero(), which is literally the loop of SimpleDDNNFEvaluator._calculate_weight
     (ModelCircuit.alg_sr folds from the right; in a commutative semiring that is the same value, but
     the symbolic strings differ: "((a + b) + c)" against "(a + (b + c))"). *)
From Coq Require Import List Bool Arith String Ascii Reals QArith.
From PL.C10 Require Import ModelCircuit.
Import ListNotations.
Local Open Scope nat_scope.
Local Open Scope string_scope.

(* ------------------------------------------------------------------ expressions *)
Inductive sx : Type :=
| SAtom (s : string)
| SAdd (a b : sx)
| SMul (a b : sx)
| SNeg (a : sx)
| SDiv (a z : sx).

Definition is_lit (c : string) (e : sx) : bool :=
  match e with SAtom s => String.eqb s c | _ => false end.

Definition sx_zero : sx := SAtom "0".
Definition sx_one : sx := SAtom "1".
Definition sx_plus (a b : sx) : sx :=
  if is_lit "0" a then b else if is_lit "0" b then a else SAdd a b.
Definition sx_times (a b : sx) : sx :=
  if is_lit "0" a || is_lit "0" b then sx_zero
  else if is_lit "1" a then b else if is_lit "1" b then a else SMul a b.
Definition sx_negate (a : sx) : sx :=
  if is_lit "0" a then sx_one else if is_lit "1" a then sx_zero else SNeg a.
Definition sx_normalize (a z : sx) : sx :=
  if is_lit "1" z then a else SDiv a z.
Definition sx_value (s : string) : sx := SAtom s.

Definition SymOps : sr_ops :=
  {| car := sx; s0 := sx_zero; s1 := sx_one; sadd := sx_plus; smul := sx_times |}.

(* the string SemiringSymbolic returns *)
Fixpoint print (e : sx) : string :=
  match e with
  | SAtom s => s
  | SAdd a b => "(" ++ print a ++ " + " ++ print b ++ ")"
  | SMul a b => print a ++ "*" ++ print b
  | SNeg a => "(1-" ++ print a ++ ")"
  | SDiv a z => print a ++ " / (" ++ print z ++ ")"
  end.

(* ------------------------------------------------------------------ tokens *)
Inductive tok : Type := TAtom (s : string) | TLP | TRP | TPlus | TMinus | TStar | TSlash.

Fixpoint tokens (e : sx) : list tok :=
  match e with
  | SAtom s => [TAtom s]
  | SAdd a b => TLP :: tokens a ++ TPlus :: tokens b ++ [TRP]
  | SMul a b => tokens a ++ TStar :: tokens b
  | SNeg a => TLP :: TAtom "1" :: TMinus :: tokens a ++ [TRP]
  | SDiv a z => tokens a ++ TSlash :: TLP :: tokens z ++ [TRP]
  end.

Definition spell (t : tok) : string :=
  match t with
  | TAtom s => s
  | TLP => "("
  | TRP => ")"
  | TPlus => " + "
  | TMinus => "-"
  | TStar => "*"
  | TSlash => " / "
  end.
Definition spell_all (ts : list tok) : string := fold_right (fun t acc => spell t ++ acc) "" ts.

(* ------------------------------------------------------------------ meaning and reader, generic in the number type *)
Inductive addop := OAdd | OSub.
Inductive mulop := OMul | ODiv.

Section Denote.
  Variable K : Type.
  Variables k0 k1 : K.
  Variables kadd ksub kmul kdiv : K -> K -> K.
  Variable aval : string -> K.

  (* direct meaning of an expression, given the values of the atoms *)
  Fixpoint denote (e : sx) : K :=
    match e with
    | SAtom s => aval s
    | SAdd a b => kadd (denote a) (denote b)
    | SMul a b => kmul (denote a) (denote b)
    | SNeg a => ksub k1 (denote a)
    | SDiv a z => kdiv (denote a) (denote z)
    end.

  (* ---------------------------------------------------------------- the reader *)
  Definition apply_add (o : addop) (s p : K) : K := match o with OAdd => kadd s p | OSub => ksub s p end.
  Definition apply_mul (o : mulop) (p v : K) : K := match o with OMul => kmul p v | ODiv => kdiv p v end.

  (* one frame per open parenthesis: the sum read so far `s`, the pending additive operator, the
     product read so far `p` and (when an operand is expected) the pending multiplicative operator *)
  Inductive frame : Type :=
  | WantOperand (s : K) (so : addop) (p : K) (po : mulop)
  | WantOperator (s : K) (so : addop) (p : K).
  Definition fresh : frame := WantOperand k0 OAdd k1 OMul.

  Fixpoint run (stk : list frame) (ts : list tok) : option K :=
    match ts with
    | [] => match stk with
            | [WantOperator s so p] => Some (apply_add so s p)
            | _ => None
            end
    | t :: r =>
      match t, stk with
      | TAtom x, WantOperand s so p po :: k => run (WantOperator s so (apply_mul po p (aval x)) :: k) r
      | TLP, WantOperand _ _ _ _ :: _ => run (fresh :: stk) r
      | TRP, WantOperator s so p :: WantOperand s' so' p' po' :: k =>
          run (WantOperator s' so' (apply_mul po' p' (apply_add so s p)) :: k) r
      | TStar, WantOperator s so p :: k => run (WantOperand s so p OMul :: k) r
      | TSlash, WantOperator s so p :: k => run (WantOperand s so p ODiv :: k) r
      | TPlus, WantOperator s so p :: k => run (WantOperand (apply_add so s p) OAdd k1 OMul :: k) r
      | TMinus, WantOperator s so p :: k => run (WantOperand (apply_add so s p) OSub k1 OMul :: k) r
      | _, _ => None
      end
    end.
  Definition read (ts : list tok) : option K := run [fresh] ts.
End Denote.
Arguments WantOperand {K}. Arguments WantOperator {K}.

(* over the reals (what the theorems are about) and over Q (what can be run) *)
Definition denoteR (aval : string -> R) : sx -> R := denote R 1%R Rplus Rminus Rmult Rdiv aval.
Definition readR (aval : string -> R) : list tok -> option R := read R 0%R 1%R Rplus Rminus Rmult Rdiv aval.
Definition denoteQ (aval : string -> Q) : sx -> Q := denote Q 1%Q Qplus Qminus Qmult Qdiv aval.
Definition readQ (aval : string -> Q) : list tok -> option Q := read Q 0%Q 1%Q Qplus Qminus Qmult Qdiv aval.

(* ------------------------------------------------------------------ evaluation with left folds *)
Definition ssum_l {S : sr_ops} (l : list S) : S := fold_left (sadd S) l (s0 S).
Definition sprod_l {S : sr_ops} (l : list S) : S := fold_left (smul S) l (s1 S).
Definition alg_sr_l (S : sr_ops) (w : nat -> bool -> S) : alg S :=
  {| fT := s1 S; fF := s0 S; fL := w; fA := sprod_l; fO := ssum_l |}.
Definition c_eval_l (S : sr_ops) (w : nat -> bool -> S) (C : circuit) : S := root_val (alg_sr_l S w) C.
