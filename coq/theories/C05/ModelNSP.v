(* C05 — executable model of FormulaEvaluatorNSP (problog/evaluator.py:616): every node value is a
   pair (weight, variables used); at a disjunction each child is first multiplied by
   (w v true + w v false) for every variable used by a sibling but not by the child
   ("smoothing on the fly"); `evaluate` finally multiplies the root by the same factor for every
   weighted variable the root does not use.  Definitions only. *)
From Coq Require Import List Bool Arith.
From PL.C10 Require Import ModelCircuit.
Import ListNotations.

Section NSP.
  Variable S : sr_ops.
  Variable w : nat -> bool -> S.
  Definition both (v : nat) : S := sadd S (w v true) (w v false).
  (* `all_used - cu` on Python sets: the distinct members of all_used that are not in cu *)
  Definition missing (all_used cu : list nat) : list nat :=
    nodup Nat.eq_dec (filter (fun v => negb (memb cu v)) all_used).
  Definition pad (all_used : list nat) (c : S * list nat) : S :=
    smul S (fst c) (sprod (map both (missing all_used (snd c)))).
  Definition alg_nsp : alg (S * list nat) :=
    {| fT := (s1 S, []); fF := (s0 S, []); fL := fun v b => (w v b, [v]);
       fA := fun l => (sprod (map fst l), concat (map snd l));
       fO := fun l => let all_used := concat (map snd l) in
                      (ssum (map (pad all_used) l), all_used) |}.
  Definition eval_nsp (t : nnf) : S * list nat := fold alg_nsp t.
  (* FormulaEvaluatorNSP.evaluate: U = the variables that carry a weight *)
  Definition eval_nsp_top (U : list nat) (t : nnf) : S := pad U (eval_nsp t).
  Definition c_eval_nsp (U : list nat) (C : circuit) : S := pad U (root_val alg_nsp C).
End NSP.

(* a map h between two semirings that preserves the operations *)
Record sr_hom (S1 S2 : sr_ops) (h : S1 -> S2) : Prop := {
  hom_0 : h (s0 S1) = s0 S2;
  hom_1 : h (s1 S1) = s1 S2;
  hom_add : forall a b, h (sadd S1 a b) = sadd S2 (h a) (h b);
  hom_mul : forall a b, h (smul S1 a b) = smul S2 (h a) (h b) }.
