(* C05 — FormulaEvaluatorNSP on circuits that are NOT smooth: for a decomposable and deterministic
   circuit the on-the-fly smoothing (multiply a disjunct by (w v true + w v false) for every variable
   its siblings use and it does not; the same at the root for every weighted variable the root does
   not use) makes the evaluator return the weighted model count over ALL weighted variables,
   in any commutative semiring. *)
From Coq Require Import List Bool Arith Lia Ring_theory Ring Permutation.
From PL.C10 Require Import ModelCircuit SpecDDNNF ProofsTree ProofsDag ProofsWMC.
From PL.C05 Require Import ModelNSP Proofs.
Import ListNotations.

Section NSPGeneral.
  Variable S : sr_ops.
  Hypothesis laws : sr_laws S.
  Variable w : nat -> bool -> S.
  Let laws' : semi_ring_theory (s0 S) (s1 S) (sadd S) (smul S) (@eq (car S)) := laws.
  Add Ring SringNSP : laws'.

  Notation nsp := (eval_nsp S w).
  Notation wmc := (wmc S w).
  Notation both := (both S w).

  (* ---------------------------------------------------------------- products of paddings *)
  Lemma sprod_perm (l l' : list S) : Permutation l l' -> sprod l = sprod l'.
  Proof.
    induction 1 as [|x l l' HP IH|x y l|l l' l'' H1 IH1 H2 IH2]; simpl.
    - reflexivity.
    - rewrite IH. reflexivity.
    - ring.
    - congruence.
  Qed.

  (* the count of the constant TRUE over a variable list is the product of (w+ + w-) *)
  Lemma wmc_true vs : forall a, wmc vs (fun _ => true) a = sprod (map both vs).
  Proof.
    induction vs as [|v r IH]; intros a; simpl; [reflexivity|].
    rewrite !IH. unfold ModelNSP.both. ring.
  Qed.

  (* counting over more variables than the formula depends on multiplies by their paddings *)
  Lemma wmc_pad (p q : nat -> bool) phi U : dep_only p phi -> (forall v, p v = true -> q v = true) ->
    forall a, wmc (filter q U) phi a =
              smul S (wmc (filter p U) phi a) (sprod (map both (filter (fun v => q v && negb (p v)) U))).
  Proof.
    intros Hd Hpq a.
    rewrite (filter_ext q (fun v => p v || (q v && negb (p v)))).
    2:{ intros v. destruct (p v) eqn:E; simpl; [apply Hpq, E | rewrite andb_true_r; reflexivity]. }
    rewrite (wmc_ext S w _ phi (fun a => phi a && true)) by (intros; rewrite andb_true_r; reflexivity).
    rewrite (wmc_product S laws w p (fun v => q v && negb (p v)) phi (fun _ => true)).
    - rewrite wmc_true. reflexivity.
    - intros v H1 H2. rewrite H1 in H2. rewrite andb_false_r in H2. discriminate.
    - exact Hd.
    - intros a1 a2 _. reflexivity.
  Qed.

  (* Python's `all_used - cu` against the canonical variable order U *)
  Lemma missing_perm U all_used cu : NoDup U -> incl all_used U ->
    Permutation (missing all_used cu) (filter (fun v => memb all_used v && negb (memb cu v)) U).
  Proof.
    intros ND Hincl. unfold missing. apply NoDup_Permutation.
    - apply NoDup_nodup.
    - apply NoDup_filter, ND.
    - intros v. rewrite nodup_In, !filter_In, andb_true_iff, memb_spec. split.
      + intros [Hin Hn]. split; [apply Hincl, Hin | split; assumption].
      + intros [_ [Hin Hn]]. split; assumption.
  Qed.

  Lemma pad_is_wmc U all_used c phi (p : nat -> bool) : NoDup U -> incl all_used U ->
    dep_only p phi -> (forall v, p v = memb (snd c) v) -> (forall v, p v = true -> memb all_used v = true) ->
    forall a, fst c = wmc (filter p U) phi a ->
              pad S w all_used c = wmc (filter (memb all_used) U) phi a.
  Proof.
    intros ND Hincl Hd Hp Hsub a Hc. unfold pad.
    rewrite (wmc_pad p (memb all_used) phi U Hd Hsub a). rewrite <- Hc. f_equal.
    rewrite (sprod_perm _ _ (Permutation_map both (missing_perm U all_used (snd c) ND Hincl))).
    f_equal. f_equal. apply filter_ext. intros v. rewrite Hp. reflexivity.
  Qed.

  (* ---------------------------------------------------------------- generic AND / OR cases *)
  Lemma or_case_gen V (e : nnf -> S) : forall l,
    Forall (fun t => forall a, e t = wmc V (fun a => evalb a t) a) l ->
    ForallOrdPairs exclusive l ->
    forall a, ssum (map e l) = wmc V (fun a => existsb (evalb a) l) a.
  Proof.
    induction l as [|x r IH]; intros Hall Hex a.
    - simpl. symmetry. apply wmc_false, laws.
    - inversion Hall as [|? ? Hx Hr]; subst. inversion Hex as [|? ? Hxr Hrr]; subst.
      simpl. rewrite (wmc_or_excl S laws w V (fun a => evalb a x) (fun a => existsb (evalb a) r)).
      + rewrite <- (Hx a), <- (IH Hr Hrr a). reflexivity.
      + intros a0 H1 H2. apply existsb_exists in H2. destruct H2 as [y [Hy Hyt]].
        rewrite Forall_forall in Hxr. exact (Hxr y Hy a0 H1 Hyt).
  Qed.

  Lemma dep_only_forallb r : dep_only (memb (flat_map tvars r)) (fun a => forallb (evalb a) r).
  Proof.
    intros a1 a2 H. induction r as [|y r IHr]; simpl; [reflexivity|]. f_equal.
    - apply evalb_dep. intros v Hv. apply H, memb_spec. simpl. apply in_or_app. left. exact Hv.
    - apply IHr. intros v Hv. apply H. apply memb_spec. apply memb_spec in Hv. simpl. apply in_or_app. right. exact Hv.
  Qed.

  Lemma and_case_gen U (e : nnf -> S) : forall l,
    Forall (fun t => forall a, e t = wmc (filter (memb (tvars t)) U) (fun a => evalb a t) a) l ->
    ForallOrdPairs disjoint_vars l ->
    forall a, sprod (map e l) = wmc (filter (memb (flat_map tvars l)) U) (fun a => forallb (evalb a) l) a.
  Proof.
    induction l as [|x r IH]; intros Hall Hdis a.
    - simpl. rewrite filter_none by reflexivity. reflexivity.
    - inversion Hall as [|? ? Hx Hr]; subst. inversion Hdis as [|? ? Hxr Hrr]; subst.
      simpl map. simpl sprod. simpl flat_map.
      rewrite (filter_ext _ (fun v => memb (tvars x) v || memb (flat_map tvars r) v)) by (intros v; apply memb_app).
      simpl forallb.
      rewrite (wmc_product S laws w (memb (tvars x)) (memb (flat_map tvars r))
                 (fun a => evalb a x) (fun a => forallb (evalb a) r)).
      + rewrite <- (Hx a), <- (IH Hr Hrr a). reflexivity.
      + intros v H1 H2. apply memb_spec in H1. apply memb_spec, in_flat_map in H2.
        destruct H2 as [y [Hy Hv]]. rewrite Forall_forall in Hxr. exact (Hxr y Hy v H1 Hv).
      + apply dep_only_evalb.
      + apply dep_only_forallb.
  Qed.

  Lemma nsp_used_flat l v : In v (flat_map (fun t => snd (nsp t)) l) <-> In v (flat_map tvars l).
  Proof.
    rewrite !in_flat_map. split; intros [x [Hx Hv]]; exists x; (split; [exact Hx|]);
      apply (nsp_vars S w x v); exact Hv.
  Qed.

  (* ---------------------------------------------------------------- main theorem on trees *)
  (* the first component of a node's NSP value is the weighted model count over the node's own variables *)
  Theorem nsp_general_node U : NoDup U -> forall t,
    incl (tvars t) U -> Decomposable t -> Deterministic t ->
    forall a, fst (nsp t) = wmc (filter (memb (tvars t)) U) (fun a => evalb a t) a.
  Proof.
    intros ND. induction t as [ | | v b | l IH | l IH] using nnf_ind'; intros Hincl Hdec Hdet a.
    - simpl. rewrite filter_none by reflexivity. reflexivity.
    - simpl. rewrite filter_none by reflexivity. reflexivity.
    - change (tvars (NLit v b)) with [v].
      rewrite (filter_ext _ (fun x => Nat.eqb x v)) by (intros x; unfold memb; simpl; apply orb_false_r).
      rewrite (filter_single U v ND) by (apply Hincl; left; reflexivity).
      cbn [ModelCircuit.wmc]. rewrite !evalb_lit. unfold upd. rewrite !Nat.eqb_refl. simpl. destruct b; simpl; ring.
    - inversion Hdec as [| | |? HdF HdP|]; subst. inversion Hdet as [| | |? HtF|]; subst.
      rewrite nsp_and. cbn [fst]. rewrite tvars_and in *.
      rewrite (wmc_ext S w _ (fun a => evalb a (NAnd l)) (fun a => forallb (evalb a) l)) by (intros; apply evalb_and).
      apply (and_case_gen U (fun t => fst (nsp t))); [|exact HdP].
      rewrite Forall_forall in *. intros x Hx a0. apply IH; auto.
      intros v Hv. apply Hincl, in_flat_map. exists x. split; assumption.
    - inversion Hdec as [| | | |? HdF]; subst. inversion Hdet as [| | | |? HtF HtP]; subst.
      rewrite nsp_or. cbn [fst]. rewrite tvars_or in *.
      rewrite (wmc_ext S w _ (fun a => evalb a (NOr l)) (fun a => existsb (evalb a) l)) by (intros; apply evalb_or).
      set (used := flat_map (fun t => snd (nsp t)) l).
      assert (Hused : forall v, memb used v = memb (flat_map tvars l) v).
      { intros v. apply memb_iff. apply nsp_used_flat. }
      rewrite (filter_ext (memb (flat_map tvars l)) (memb used)) by (intros v; symmetry; apply Hused).
      apply (or_case_gen (filter (memb used) U) (fun t => pad S w used (nsp t))); [|exact HtP].
      rewrite Forall_forall in *. intros x Hx a0.
      apply (pad_is_wmc U used (nsp x) (fun a => evalb a x) (memb (tvars x))); auto.
      + intros v Hv. apply Hincl. apply nsp_used_flat. exact Hv.
      + apply dep_only_evalb.
      + intros v. apply memb_iff. symmetry. apply nsp_vars.
      + intros v Hv. rewrite Hused. apply memb_spec, in_flat_map. exists x. split; [exact Hx | apply memb_spec, Hv].
      + apply IH; auto. intros v Hv. apply Hincl, in_flat_map. exists x. split; assumption.
  Qed.

  (* FormulaEvaluatorNSP.evaluate: after the padding at the root, the count is over ALL of U *)
  Theorem nsp_general_tree U t : NoDup U -> incl (tvars t) U -> Decomposable t -> Deterministic t ->
    forall a, eval_nsp_top S w U t = wmc U (fun a => evalb a t) a.
  Proof.
    intros ND Hincl Hdec Hdet a. unfold eval_nsp_top.
    rewrite (pad_is_wmc U U (nsp t) (fun a => evalb a t) (memb (tvars t)) ND (incl_refl U)) with (a := a).
    - rewrite filter_all; [reflexivity|]. intros v Hv. apply memb_spec, Hv.
    - apply dep_only_evalb.
    - intros v. apply memb_iff. symmetry. apply nsp_vars.
    - intros v Hv. apply memb_spec, Hincl, memb_spec, Hv.
    - apply nsp_general_node; assumption.
  Qed.

  Theorem c_nsp_general U C : NoDup U -> incl (tvars (root_tree C)) U -> decomposable C -> deterministic C ->
    forall a, c_eval_nsp S w U C = wmc U (fun a => c_evalb a C) a.
  Proof.
    intros ND Hincl Hd Ht a. unfold c_eval_nsp. rewrite (root_val_fold (alg_nsp S w)).
    rewrite (wmc_ext S w _ (fun a => c_evalb a C) (fun a => evalb a (root_tree C))) by (intros; apply c_evalb_tree).
    apply nsp_general_tree; assumption.
  Qed.
End NSPGeneral.

(* explicit-sum form: Σ over all assignments bs to U of [C true] * Π literal weights *)
Theorem c_nsp_general_sum : forall (S : sr_ops), sr_laws S -> forall (w : nat -> bool -> S) U C,
  NoDup U -> incl (tvars (root_tree C)) U -> decomposable C -> deterministic C ->
  forall a, c_eval_nsp S w U C = wmc_sum S w U (fun a => c_evalb a C) a.
Proof.
  intros S laws w U C ND Hincl Hd Ht a. rewrite <- (wmc_is_sum S laws w). apply c_nsp_general; assumption.
Qed.

(* against a CNF: a decomposable, deterministic circuit over variables 1..n with the models of f,
   smooth or not, is evaluated by the NSP evaluator to the weighted model count of f *)
Theorem nsp_general_cnf : forall (S : sr_ops), sr_laws S -> forall (w : nat -> bool -> S) n C f,
  decomposable C -> deterministic C -> vars_in_range n C -> (forall a, c_evalb a C = sat a f) ->
  c_eval_nsp S w (var_list n) C = wmc_cnf S w n f.
Proof.
  intros S laws w n C f Hd Ht Hr Heq. unfold wmc_cnf.
  rewrite (c_nsp_general S laws w (var_list n) C) with (a := asg0); auto.
  - apply wmc_ext; assumption.
  - apply seq_NoDup.
  - intros v Hv. unfold var_list. apply in_seq. specialize (Hr v Hv). lia.
Qed.
