(* C05 — All exact compilation backends and semirings agree.
   Only statements; every proof is `exact <lemma>`. *)
From Coq Require Import List Bool Arith ZArith Reals.
From PL.C10 Require Import ModelCircuit SpecDDNNF ModelOracle ProofsWMC ProofsInstances.
From PL.C05 Require Import ModelNSP Proofs ProofsLog.
Import ListNotations.
Local Open Scope nat_scope.

(* Evaluation commutes with semiring homomorphisms: two semirings related by an operation-preserving
   map give corresponding results on EVERY circuit (no d-DNNF assumption), for every weighting. *)
Theorem C05_eval_hom : forall (S1 S2 : sr_ops) (h : S1 -> S2), sr_hom S1 S2 h ->
  forall w C, h (c_eval S1 w C) = c_eval S2 (fun v b => h (w v b)) C.
Proof. exact eval_hom. Qed.
Print Assumptions C05_eval_hom.

(* Log-probability: exp of the value computed in log space (zero = -inf, plus = logsumexp,
   times = +) is the value computed with probabilities exp(w). *)
Theorem C05_log_is_prob : forall (w : nat -> bool -> option R) C,
  expo (c_eval LogOps w C) = c_eval ProbROps (fun v b => expo (w v b)) C.
Proof. exact (eval_hom LogOps ProbROps expo exp_is_hom). Qed.
Print Assumptions C05_log_is_prob.

(* A user-defined semiring whose zero/one/plus/times are extensionally those of S (for instance a
   hand-written copy of SemiringProbability passed through evaluate(semiring=...)) gives the same value. *)
Theorem C05_custom_semiring : forall (S : sr_ops) (z o : S) (p t : S -> S -> S),
  z = s0 S -> o = s1 S -> (forall x y, p x y = sadd S x y) -> (forall x y, t x y = smul S x y) ->
  forall w C, c_eval {| car := S; s0 := z; s1 := o; sadd := p; smul := t |} w C = c_eval S w C.
Proof. exact eval_custom. Qed.
Print Assumptions C05_custom_semiring.

(* NSP: FormulaEvaluatorNSP's smoothing on the fly changes nothing on a smooth circuit whose root
   mentions every weighted variable (U): it returns exactly the plain evaluation ... *)
Theorem C05_nsp_smooth : forall (S : sr_ops), sr_laws S -> forall (w : nat -> bool -> S) U C,
  smooth C -> (forall v, In v U -> In v (tvars (root_tree C))) ->
  c_eval_nsp S w U C = c_eval S w C.
Proof. exact c_nsp_smooth. Qed.
Print Assumptions C05_nsp_smooth.

(* ... and therefore, on a circuit accepted by the C10 checker, the weighted model count of the CNF,
   in every commutative semiring -- the common value all backends x semirings must report. *)
Theorem C05_nsp_checked : forall (S : sr_ops), sr_laws S -> forall (w : nat -> bool -> S) n C f,
  check_ddnnf n C f = true -> c_eval_nsp S w (var_list n) C = wmc_cnf S w n f.
Proof. exact nsp_checked. Qed.
Print Assumptions C05_nsp_checked.

(* non-vacuity.  On a NON-smooth circuit (x1 \/ x2, x2 with neutral weights (1,1)) NSP evaluation and plain
   evaluation differ (2 vs 3/2), so the smoothness hypothesis of C05_nsp_smooth is doing work ... *)
Definition ex_ns : circuit := [Atom 1; Atom 2; Disj [RPos 0; RPos 1]].
Definition ex_w : wlist := [(mkq 1%Z 2%positive, mkq 1%Z 2%positive); (mkq 1%Z 1%positive, mkq 1%Z 1%positive)].
Example C05_nsp_differs_when_not_smooth :
  c_eval_nsp QcOps (w_of ex_w) (var_list 2) ex_ns = mkq 2%Z 1%positive /\ c_eval QcOps (w_of ex_w) ex_ns = mkq 3%Z 2%positive.
Proof. split; apply Qcanon.Qc_is_canon; vm_compute; reflexivity. Qed.
(* ... and on the smooth d-DNNF for the same formula, (x1 /\ (x2 \/ -x2)) \/ (-x1 /\ x2), they agree (3/2),
   which is also the weighted model count of the clause x1 \/ x2 *)
Definition ex_sm : circuit :=
  [Atom 1; Atom 2; Disj [RPos 1; RNeg 1]; Conj [RPos 0; RPos 2]; Conj [RNeg 0; RPos 1]; Disj [RPos 3; RPos 4]].
Example C05_nsp_agrees_when_smooth :
  check_ddnnf 2 ex_sm [[(1, true); (2, true)]] = true /\
  c_eval_nsp QcOps (w_of ex_w) (var_list 2) ex_sm = mkq 3%Z 2%positive /\ c_eval QcOps (w_of ex_w) ex_sm = mkq 3%Z 2%positive /\
  wmc_cnf QcOps (w_of ex_w) 2 [[(1, true); (2, true)]] = mkq 3%Z 2%positive.
Proof. split; [vm_compute; reflexivity|]. repeat split; apply Qcanon.Qc_is_canon; vm_compute; reflexivity. Qed.
