(* C05 — All exact compilation backends and semirings agree.
   Only statements; every proof is `exact <lemma>`. *)
From Coq Require Import List Bool Arith ZArith Reals QArith String.
From PL.C10 Require Import ModelCircuit SpecDDNNF ModelOracle ProofsWMC ProofsInstances.
From PL.C12 Require Import ModelPy GenSemirings.
From PL.C05 Require Import ModelNSP Proofs ProofsLog ProofsNSP ModelSym ProofsSymbolic SpecReader ProofsReader.
Import ListNotations.
Local Open Scope nat_scope.

(* Evaluation commutes with semiring homomorphisms: two semirings related by an operation-preserving
   map give corresponding results on EVERY circuit (no d-DNNF assumption), for every weighting. *)
Theorem C05_eval_hom : forall (S1 S2 : sr_ops) (h : S1 -> S2), sr_hom S1 S2 h ->
  forall w C, h (c_eval S1 w C) = c_eval S2 (fun v b => h (w v b)) C.
Proof. exact eval_hom. Qed.
Print Assumptions C05_eval_hom.

(* Log-probability: exp of the value computed in log space (zero = -inf, plus = logsumexp,
   times = +) is the value computed with probabilities exp(w). *)
Theorem C05_log_is_prob : forall (w : nat -> bool -> option R) C,
  expo (c_eval LogOps w C) = c_eval ProbROps (fun v b => expo (w v b)) C.
Proof. exact (eval_hom LogOps ProbROps expo exp_is_hom). Qed.
Print Assumptions C05_log_is_prob.

(* A user-defined semiring whose zero/one/plus/times are extensionally those of S (for instance a
   hand-written copy of SemiringProbability passed through evaluate(semiring=...)) gives the same value. *)
Theorem C05_custom_semiring : forall (S : sr_ops) (z o : S) (p t : S -> S -> S),
  z = s0 S -> o = s1 S -> (forall x y, p x y = sadd S x y) -> (forall x y, t x y = smul S x y) ->
  forall w C, c_eval {| car := S; s0 := z; s1 := o; sadd := p; smul := t |} w C = c_eval S w C.
Proof. exact eval_custom. Qed.
Print Assumptions C05_custom_semiring.

(* NSP: FormulaEvaluatorNSP's smoothing on the fly changes nothing on a smooth circuit whose root
   mentions every weighted variable (U): it returns exactly the plain evaluation ... *)
Theorem C05_nsp_smooth : forall (S : sr_ops), sr_laws S -> forall (w : nat -> bool -> S) U C,
  smooth C -> (forall v, In v U -> In v (tvars (root_tree C))) ->
  c_eval_nsp S w U C = c_eval S w C.
Proof. exact c_nsp_smooth. Qed.
Print Assumptions C05_nsp_smooth.

(* ... and therefore, on a circuit accepted by the C10 checker, the weighted model count of the CNF,
   in every commutative semiring -- the common value all backends x semirings must report. *)
Theorem C05_nsp_checked : forall (S : sr_ops), sr_laws S -> forall (w : nat -> bool -> S) n C f,
  check_ddnnf n C f = true -> c_eval_nsp S w (var_list n) C = wmc_cnf S w n f.
Proof. exact nsp_checked. Qed.
Print Assumptions C05_nsp_checked.

(* NSP in general: on a decomposable and deterministic circuit that need NOT be smooth, the model of
   FormulaEvaluatorNSP (pad every disjunct with (w v true + w v false) for the variables its siblings
   use and it does not; pad the root the same way for every weighted variable in U it does not use)
   returns the weighted model count over ALL of U: the sum, over all assignments bs to U, of
   [C true under bs] * product of the literal weights -- in every commutative semiring.
   C05_nsp_smooth is the special case in which nothing is padded. *)
Theorem C05_nsp_general : forall (S : sr_ops), sr_laws S -> forall (w : nat -> bool -> S) U C,
  NoDup U -> incl (tvars (root_tree C)) U -> decomposable C -> deterministic C ->
  forall a, c_eval_nsp S w U C = wmc_sum S w U (fun a => c_evalb a C) a.
Proof. exact c_nsp_general_sum. Qed.
Print Assumptions C05_nsp_general.

(* ... hence against a CNF: any decomposable, deterministic circuit over variables 1..n with the models
   of f is evaluated by the NSP evaluator to the weighted model count of f (C05_nsp_checked without
   the smoothness and coverage the C10 checker insists on). *)
Theorem C05_nsp_general_cnf : forall (S : sr_ops), sr_laws S -> forall (w : nat -> bool -> S) n C f,
  decomposable C -> deterministic C -> vars_in_range n C -> (forall a, c_evalb a C = sat a f) ->
  c_eval_nsp S w (var_list n) C = wmc_cnf S w n f.
Proof. exact nsp_general_cnf. Qed.
Print Assumptions C05_nsp_general_cnf.

(* SemiringSymbolic.  `sx` (ModelSym.v) are the expressions the class builds, `SymOps` its
   zero/one/plus/times with the "0"/"1" shortcuts, `c_eval_l` the evaluator's own loop (fold from the
   left starting at one()/zero()), `print` the string returned, `tokens` that string cut into tokens
   (`print e = spell_all (tokens e)`), `readR` a one-pass precedence-respecting reader of token lists
   (parentheses > left-associative * and / > left-associative + and -), `aval` the numeric value of
   each atom string.  For EVERY circuit and every symbolic weighting w: reading the symbolic result
   numerically gives exactly the probability-semiring evaluation with the numeric weights
   (`denoteR` is the direct recursive meaning of an expression; both are given). *)
Theorem C05_symbolic_evaluates : forall (aval : string -> R), aval "0"%string = 0%R -> aval "1"%string = 1%R ->
  forall (w : nat -> bool -> sx) C,
    let e := c_eval_l SymOps w C in
    let p := c_eval ProbROps (fun v b => denoteR aval (w v b)) C in
    denoteR aval e = p /\ readR aval (tokens e) = Some p /\ print e = spell_all (tokens e).
Proof. exact symbolic_evaluates. Qed.
Print Assumptions C05_symbolic_evaluates.

(* the same for the right-fold evaluation `c_eval` used by every other theorem of C05/C10 (the strings
   differ in the nesting of sums, the numbers read from them do not) *)
Theorem C05_symbolic_evaluates_foldr : forall (aval : string -> R), aval "0"%string = 0%R -> aval "1"%string = 1%R ->
  forall (w : nat -> bool -> sx) C,
    let e := c_eval SymOps w C in
    let p := c_eval ProbROps (fun v b => denoteR aval (w v b)) C in
    denoteR aval e = p /\ readR aval (tokens e) = Some p /\ print e = spell_all (tokens e).
Proof. exact symbolic_evaluates_foldr. Qed.
Print Assumptions C05_symbolic_evaluates_foldr.

(* ... including `normalize` (conditional probabilities): "a / (z)" is read as the quotient of the two
   probability-semiring evaluations (whatever circuits / weightings produced a and z; x/0 is Coq's
   totalised division on both sides, the Python code raises ZeroDivisionError only when the string is
   evaluated) *)
Theorem C05_symbolic_normalize : forall (aval : string -> R), aval "0"%string = 0%R -> aval "1"%string = 1%R ->
  forall (w wz : nat -> bool -> sx) C Cz,
    let e := sx_normalize (c_eval_l SymOps w C) (c_eval_l SymOps wz Cz) in
    let p := (c_eval ProbROps (fun v b => denoteR aval (w v b)) C /
              c_eval ProbROps (fun v b => denoteR aval (wz v b)) Cz)%R in
    denoteR aval e = p /\ readR aval (tokens e) = Some p /\ print e = spell_all (tokens e).
Proof. exact symbolic_normalize. Qed.
Print Assumptions C05_symbolic_normalize.

(* ... and with the weights a probabilistic fact gets, value(q) and negate(value(q)) = "(1-q)":
   denote (c_eval Sym (quote o w)) = c_eval Prob w *)
Theorem C05_symbolic_facts : forall (aval : string -> R), aval "0"%string = 0%R -> aval "1"%string = 1%R ->
  forall (q : nat -> string) C,
    readR aval (tokens (c_eval_l SymOps (fact_weights q) C)) =
    Some (c_eval ProbROps (fun v b => if b then aval (q v) else (1 - aval (q v))%R) C).
Proof. exact symbolic_facts. Qed.
Print Assumptions C05_symbolic_facts.

(* `readR` is not an ad-hoc reader: it computes the value of the standard stratified expression grammar on
   token lists (SpecReader.v: parentheses > left-associative * / > left-associative + -; the token-level
   counterpart of C12's string-level `den_prod`).  Whenever the grammar derives (ts, v) the reader returns v ... *)
Theorem C05_reader_is_grammar : forall (aval : string -> R) ts v, g_sum aval ts v -> readR aval ts = Some v.
Proof. exact reader_complete. Qed.
Print Assumptions C05_reader_is_grammar.

(* ... so a token list has at most one value under the grammar (the reading is unambiguous; this is the
   uniqueness that C12_symbolic_*_partial leave open, at the level of tokens) ... *)
Theorem C05_grammar_unambiguous : forall (aval : string -> R) ts v v',
  g_sum aval ts v -> g_sum aval ts v' -> v = v'.
Proof. exact grammar_unambiguous. Qed.
Print Assumptions C05_grammar_unambiguous.

(* ... and the tokens of every expression SemiringSymbolic can build are a product of that grammar whose
   value is the expression's direct meaning. *)
Theorem C05_symbolic_in_grammar : forall (aval : string -> R), aval "1"%string = 1%R ->
  forall e, g_prod aval (tokens e) (denoteR aval e).
Proof. exact tokens_in_grammar. Qed.
Print Assumptions C05_symbolic_in_grammar.

(* The expression-level model IS the source: the definitions the C12 translator regenerates from
   problog/evaluator.py on every run (class SemiringSymbolic) compute, on printed expressions, exactly
   the print of the expression-level operations -- in particular Python's string comparisons with
   "0"/"1" coincide with the model's comparisons with the atoms.  (Breaks when the class changes.) *)
Theorem C05_symbolic_is_source : forall (N : NumOps) (a b : sx) (s : string),
  sym_zero N = Ok (print sx_zero) /\ sym_one N = Ok (print sx_one) /\
  sym_value N s = Ok (print (sx_value s)) /\
  sym_plus N (print a) (print b) = Ok (print (sx_plus a b)) /\
  sym_times N (print a) (print b) = Ok (print (sx_times a b)) /\
  sym_negate N (print a) = Ok (print (sx_negate a)) /\
  sym_normalize N (print a) (print b) = Ok (print (sx_normalize a b)).
Proof. exact symbolic_is_source. Qed.
Print Assumptions C05_symbolic_is_source.

(* non-vacuity.  On a NON-smooth circuit (x1 \/ x2, x2 with neutral weights (1,1)) NSP evaluation and plain
   evaluation differ (2 vs 3/2), so the smoothness hypothesis of C05_nsp_smooth is doing work ... *)
Definition ex_ns : circuit := [Atom 1; Atom 2; Disj [RPos 0; RPos 1]].
Definition ex_w : wlist := [(mkq 1%Z 2%positive, mkq 1%Z 2%positive); (mkq 1%Z 1%positive, mkq 1%Z 1%positive)].
Example C05_nsp_differs_when_not_smooth :
  c_eval_nsp QcOps (w_of ex_w) (var_list 2) ex_ns = mkq 2%Z 1%positive /\ c_eval QcOps (w_of ex_w) ex_ns = mkq 3%Z 2%positive.
Proof. split; apply Qcanon.Qc_is_canon; vm_compute; reflexivity. Qed.
(* ... and on the smooth d-DNNF for the same formula, (x1 /\ (x2 \/ -x2)) \/ (-x1 /\ x2), they agree (3/2),
   which is also the weighted model count of the clause x1 \/ x2 *)
Definition ex_sm : circuit :=
  [Atom 1; Atom 2; Disj [RPos 1; RNeg 1]; Conj [RPos 0; RPos 2]; Conj [RNeg 0; RPos 1]; Disj [RPos 3; RPos 4]].
Example C05_nsp_agrees_when_smooth :
  check_ddnnf 2 ex_sm [[(1, true); (2, true)]] = true /\
  c_eval_nsp QcOps (w_of ex_w) (var_list 2) ex_sm = mkq 3%Z 2%positive /\ c_eval QcOps (w_of ex_w) ex_sm = mkq 3%Z 2%positive /\
  wmc_cnf QcOps (w_of ex_w) 2 [[(1, true); (2, true)]] = mkq 3%Z 2%positive.
Proof. split; [vm_compute; reflexivity|]. repeat split; apply Qcanon.Qc_is_canon; vm_compute; reflexivity. Qed.

(* non-vacuity of C05_nsp_general: x1 \/ (-x1 /\ x2) is decomposable and deterministic but NOT smooth; with
   x2 weighted (1,1) plain evaluation gives 1, the NSP evaluator 3/2 = the weighted model count of x1 \/ x2 *)
Definition ex_dd : circuit := [Atom 1; Atom 2; Conj [RNeg 0; RPos 1]; Disj [RPos 0; RPos 2]].
Example C05_nsp_general_example :
  decomposable ex_dd /\ deterministic ex_dd /\ ~ smooth ex_dd /\
  c_eval QcOps (w_of ex_w) ex_dd = mkq 1%Z 1%positive /\
  c_eval_nsp QcOps (w_of ex_w) (var_list 2) ex_dd = mkq 3%Z 2%positive /\
  wmc_cnf QcOps (w_of ex_w) 2 [[(1, true); (2, true)]] = mkq 3%Z 2%positive.
Proof.
  unfold decomposable, deterministic, smooth.
  change (root_tree ex_dd) with (NOr [NLit 1 true; NAnd [NLit 1 false; NLit 2 true]]).
  split; [|split; [|split]].
  - constructor. repeat constructor. intros v [<-|[]] [E|[]]. discriminate.
  - constructor; [repeat constructor|]. repeat constructor.
    intros a H1 H2. unfold evalb in H1, H2. simpl in H1, H2. destruct (a 1); discriminate.
  - intros H. inversion H as [| | | |? _ HS]; subst.
    assert (E : In 2 (tvars (NLit 1 true))).
    { apply (HS (NAnd [NLit 1 false; NLit 2 true]) (NLit 1 true)); simpl; auto. }
    simpl in E. destruct E as [E|[]]. discriminate.
  - repeat split; apply Qcanon.Qc_is_canon; vm_compute; reflexivity.
Qed.

(* non-vacuity of the symbolic theorems, run on Q: the smooth d-DNNF of x1 \/ x2 with annotations "0.5" and
   "0.25" gives, with the evaluator's left folds, the string below; the reader turns its tokens into 5/8;
   the conditional P(x1 | x1 \/ x2) is printed with the divisor parenthesised and read as 4/5 *)
Local Open Scope string_scope.
Definition ex_aval (s : string) : Q :=
  if String.eqb s "1" then 1%Q else if String.eqb s "0.5" then (1#2)%Q else if String.eqb s "0.25" then (1#4)%Q else 0%Q.
Definition ex_q (v : nat) : string := match v with 1 => "0.5" | _ => "0.25" end.
Definition ex_sym : sx := c_eval_l SymOps (fact_weights ex_q) ex_sm.
Definition ex_sym_ev : sx :=
  c_eval_l SymOps (fun v b => if Nat.eqb v 1 then (if b then sx_value "0.5" else sx_zero) else fact_weights ex_q v b) ex_sm.
Example C05_symbolic_example :
  print ex_sym = "(0.5*(0.25 + (1-0.25)) + (1-0.5)*0.25)" /\
  option_map Qred (readQ ex_aval (tokens ex_sym)) = Some (5#8)%Q /\
  print (sx_normalize ex_sym_ev ex_sym) = "0.5*(0.25 + (1-0.25)) / ((0.5*(0.25 + (1-0.25)) + (1-0.5)*0.25))" /\
  option_map Qred (readQ ex_aval (tokens (sx_normalize ex_sym_ev ex_sym))) = Some (4#5)%Q.
Proof. vm_compute. repeat split. Qed.
(* the reader respects precedence and associativity, and it does not guess: without the parentheses the
   divisor "x*y" is NOT read as a unit (the defect repaired in SemiringSymbolic.normalize, 7576302) *)
Example C05_reader_is_strict :
  option_map Qred (readQ ex_aval [TAtom "1"; TPlus; TAtom "0.5"; TStar; TAtom "0.5"]) = Some (5#4)%Q /\
  option_map Qred (readQ ex_aval [TAtom "1"; TMinus; TAtom "0.5"; TMinus; TAtom "0.25"]) = Some (1#4)%Q /\
  option_map Qred (readQ ex_aval [TAtom "1"; TSlash; TAtom "0.5"; TStar; TAtom "0.5"]) = Some 1%Q /\
  option_map Qred (readQ ex_aval [TAtom "1"; TSlash; TLP; TAtom "0.5"; TStar; TAtom "0.5"; TRP]) = Some 4%Q /\
  readQ ex_aval [TAtom "1"; TPlus] = None /\ readQ ex_aval [TLP; TAtom "1"] = None /\
  readQ ex_aval [TAtom "1"; TAtom "1"] = None.
Proof. vm_compute. repeat split. Qed.
