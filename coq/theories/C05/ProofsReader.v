(* C05 — the one-pass reader `readR` (ModelSym.v) computes the value the standard expression grammar
   (SpecReader.v) assigns to a token list: whenever the grammar derives (ts, v), `readR ts = Some v`.
   Since the reader is a function, a token list has AT MOST ONE value under the grammar (the reading
   is unambiguous) -- the fact C12's relational string-level denotation leaves open -- and the printed
   tokens of every expression are in the grammar with the expression's direct meaning. *)
From Coq Require Import List Bool String Reals Lra.
From PL.C05 Require Import ModelSym SpecReader.
Import ListNotations.
Local Open Scope R_scope.

Scheme g_atom_ind' := Induction for g_atom Sort Prop
  with g_prod_ind' := Induction for g_prod Sort Prop
  with g_sum_ind' := Induction for g_sum Sort Prop.
Combined Scheme g_mutind from g_atom_ind', g_prod_ind', g_sum_ind'.

Section Reader.
  Variable aval : string -> R.
  Notation runR := (run R 0 1 Rplus Rminus Rmult Rdiv aval).
  Notation frameR := (frame R).
  Notation addR := (apply_add R Rplus Rminus).
  Notation mulR := (apply_mul R Rmult Rdiv).

  (* what reading a complete atom / product / sum does to the state of the reader *)
  Definition atom_effect (ts : list tok) (v : R) : Prop :=
    forall s so p po (k : list frameR) r,
      runR (WantOperand s so p po :: k) (ts ++ r) = runR (WantOperator s so (mulR po p v) :: k) r.
  Definition prod_effect (ts : list tok) (v : R) : Prop :=
    forall s so (k : list frameR) r,
      runR (WantOperand s so 1 OMul :: k) (ts ++ r) = runR (WantOperator s so v :: k) r.
  Definition sum_effect (ts : list tok) (v : R) : Prop :=
    exists s' so' p', addR so' s' p' = v /\
      forall (k : list frameR) r, runR (fresh R 0 1 :: k) (ts ++ r) = runR (WantOperator s' so' p' :: k) r.

  Lemma grammar_effects :
    (forall ts v, g_atom aval ts v -> atom_effect ts v) /\
    (forall ts v, g_prod aval ts v -> prod_effect ts v) /\
    (forall ts v, g_sum aval ts v -> sum_effect ts v).
  Proof.
    apply g_mutind.
    - (* atom *) intros x s so p po k r. reflexivity.
    - (* ( sum ) *) intros ts v _ [s' [so' [p' [Hv Hrun]]]] s so p po k r.
      cbn [app run]. rewrite <- app_assoc. cbn [app]. rewrite Hrun. cbn [run]. rewrite Hv. reflexivity.
    - (* product = atom *) intros ts v _ HA s so k r. rewrite HA.
      replace (mulR OMul 1 v) with v by (simpl; ring). reflexivity.
    - (* product * atom *) intros ts us v w _ HP _ HA s so k r.
      rewrite <- app_assoc. cbn [app]. rewrite HP. cbn [run]. rewrite HA. reflexivity.
    - (* product / atom *) intros ts us v w _ HP _ HA s so k r.
      rewrite <- app_assoc. cbn [app]. rewrite HP. cbn [run]. rewrite HA. reflexivity.
    - (* sum = product *) intros ts v _ HP. exists 0, OAdd, v. split; [simpl; ring|].
      intros k r. unfold fresh. apply HP.
    - (* sum + product *) intros ts us v w _ [s' [so' [p' [Hv Hrun]]]] _ HP.
      exists v, OAdd, w. split; [reflexivity|]. intros k r.
      rewrite <- app_assoc. cbn [app]. rewrite Hrun. cbn [run]. rewrite Hv. apply HP.
    - (* sum - product *) intros ts us v w _ [s' [so' [p' [Hv Hrun]]]] _ HP.
      exists v, OSub, w. split; [reflexivity|]. intros k r.
      rewrite <- app_assoc. cbn [app]. rewrite Hrun. cbn [run]. rewrite Hv. apply HP.
  Qed.

  (* the reader computes the grammar's value *)
  Theorem reader_complete ts v : g_sum aval ts v -> readR aval ts = Some v.
  Proof.
    intros H. destruct (proj2 (proj2 grammar_effects) ts v H) as [s' [so' [p' [Hv Hrun]]]].
    unfold readR, read. rewrite <- (app_nil_r ts). rewrite Hrun. cbn [run]. rewrite Hv. reflexivity.
  Qed.

  (* hence the grammar is unambiguous in value *)
  Theorem grammar_unambiguous ts v v' : g_sum aval ts v -> g_sum aval ts v' -> v = v'.
  Proof.
    intros H H'. apply reader_complete in H. apply reader_complete in H'. congruence.
  Qed.

  (* the printed tokens of an expression are a product of the grammar, with the direct meaning *)
  Lemma prod_mul_prod ts v : g_prod aval ts v -> forall us w, g_prod aval us w -> g_prod aval (ts ++ TStar :: us) (v * w).
  Proof.
    intros Ht us w Hu. induction Hu as [us w Ha | us1 us2 w1 w2 Hp IH Ha | us1 us2 w1 w2 Hp IH Ha].
    - apply GP_mul; assumption.
    - replace (ts ++ TStar :: us1 ++ TStar :: us2) with ((ts ++ TStar :: us1) ++ TStar :: us2)
        by (rewrite <- app_assoc; reflexivity).
      replace (v * (w1 * w2)) with ((v * w1) * w2) by ring. apply GP_mul; assumption.
    - replace (ts ++ TStar :: us1 ++ TSlash :: us2) with ((ts ++ TStar :: us1) ++ TSlash :: us2)
        by (rewrite <- app_assoc; reflexivity).
      replace (v * (w1 / w2)) with ((v * w1) / w2) by (unfold Rdiv; ring). apply GP_div; assumption.
  Qed.

  Hypothesis aval_1 : aval "1"%string = 1.

  Theorem tokens_in_grammar e : g_prod aval (tokens e) (denoteR aval e).
  Proof.
    unfold denoteR.
    induction e as [x | a IHa b IHb | a IHa b IHb | a IHa | a IHa z IHz]; cbn [tokens denote].
    - apply GP_atom, GA_atom.
    - apply GP_atom.
      replace (TLP :: tokens a ++ TPlus :: tokens b ++ [TRP]) with (TLP :: (tokens a ++ TPlus :: tokens b) ++ [TRP])
        by (rewrite <- app_assoc; reflexivity).
      apply GA_paren. apply GS_add; [apply GS_prod, IHa | apply IHb].
    - apply prod_mul_prod; assumption.
    - apply GP_atom.
      change (TLP :: TAtom "1" :: TMinus :: tokens a ++ [TRP]) with (TLP :: ([TAtom "1"%string] ++ TMinus :: tokens a) ++ [TRP]).
      apply GA_paren.
      set (d := denote R 1 Rplus Rminus Rmult Rdiv aval a) in *. rewrite <- aval_1.
      apply GS_sub; [apply GS_prod, GP_atom, GA_atom | apply IHa].
    - change (tokens a ++ TSlash :: TLP :: tokens z ++ [TRP]) with (tokens a ++ TSlash :: (TLP :: tokens z ++ [TRP])).
      apply GP_div; [apply IHa|]. apply GA_paren, GS_prod, IHz.
  Qed.
End Reader.
