(* Hand model of the rest of the findall machinery:
     problog/formula.py      LogicFormula.enumerate_branches, get_node_multiplicity
     problog/engine_builtin.py  _builtin_findall_base (collection of (term, node) results,
                                expansion into proofs, ordering by the max-node heuristic,
                                _select_sublist, target.add_and, dropping of FALSE nodes)
                                and _builtin_all (no expansion, empty list skipped).
   Graphs are PL.C09.BoolGraph graphs: node k (k >= 1) is the (k-1)-th element, a child
   is a Z (0 = TRUE, k = node k, -k = negation of node k); a key of the name table is an
   option Z (None = FALSE).  The source graph g is the private formula `findall_target`
   (keep_all=True, keep_duplicates=True: every deterministic fact is an atom node, every
   proof of an answer is kept).
   What is NOT modelled concretely: the node numbering of the *target* formula.
   `copy_node` + `target.add_and(b_renamed)` is the parameter `pn : branch -> key`
   (the target key of a proof), `target.add_and(n)` is the parameter `cn : list key -> key`;
   the theorems assume that these keys have the value of the conjunction (that is the
   builder property proved in C09/BuilderProofs.v and C11), the harness checks it on every
   recorded call.
   No proofs in this file. *)
From Coq Require Import ZArith NArith List Bool Arith.
From PL.C09 Require Import BoolGraph.
From PL.C19 Require Import ModelSelectSublist.
Import ListNotations.

Definition branch := list Z.

Definition zmem (x : Z) (l : list Z) : bool := existsb (Z.eqb x) l.

(* Python max() of a list; only called on non-empty lists (first element is the seed) *)
Definition zmaxl (l : list Z) : Z :=
  match l with [] => 0%Z | x :: r => fold_left Z.max r x end.

Fixpoint all_some {A} (l : list (option A)) : option (list A) :=
  match l with
  | [] => Some []
  | None :: _ => None
  | Some x :: r => match all_some r with None => None | Some xs => Some (x :: xs) end
  end.

(* itertools.product( * ls): lexicographic, last component varies fastest *)
Fixpoint product {A} (ls : list (list A)) : list (list A) :=
  match ls with
  | [] => [[]]
  | l :: r => flat_map (fun x => map (cons x) (product r)) l
  end.

(* one yielded pair of the conj case: (max(index, max(c_max)), chain( *c_br)) *)
Definition conj_branch (index : Z) (b : list (Z * branch)) : Z * branch :=
  (Z.max index (zmaxl (map fst b)), concat (map snd b)).

(* LogicFormula.enumerate_branches(index, anc).  None = an exception of the code
   (IndexError of get_node on a dangling child, ValueError of zip( * ()) on an empty conj)
   or fuel exhaustion.  The recursion depth is bounded by the number of nodes because
   `anc` holds the distinct nodes on the current path. *)
Fixpoint eb (g : graph) (fuel : nat) (anc : list Z) (index : Z) : option (list (Z * branch)) :=
  match fuel with
  | O => None
  | S f =>
    if zmem index anc then Some []
    else match index with
    | Z0 => Some [(0%Z, [0%Z])]
    | Zneg _ => Some [(index, [index])]
    | Zpos p =>
      match node_at g (Pos.to_nat p) with
      | None => None
      | Some (NAtom _) => Some [(index, [index])]
      | Some (NAnd cs) =>
        match cs with
        | [] => None
        | _ => match all_some (map (eb g f (anc ++ [index])) cs) with
               | None => None
               | Some ls => Some (map (conj_branch index) (product ls))
               end
        end
      | Some (NOr cs) =>
        match all_some (map (eb g f (anc ++ [index])) cs) with
        | None => None
        | Some ls => Some (concat ls)
        end
      end
    end
  end.

(* the call made by findall: a result node is a key (None = FALSE yields the empty branch) *)
Definition eb_key (g : graph) (fuel : nat) (k : key) : option (list (Z * branch)) :=
  match k with
  | None => Some [(0%Z, [])]
  | Some c => eb g fuel [] c
  end.

Definition default_fuel (g : graph) : nat := S (length g).

(* LogicFormula.get_node_multiplicity(index) (dead code in /repo: no caller).  None =
   exception (dangling child) or unbounded recursion (no cycle guard in the code). *)
Fixpoint mult (g : graph) (fuel : nat) (index : Z) : option nat :=
  match fuel with
  | O => None
  | S f =>
    match index with
    | Z0 => Some 1
    | Zneg p => match node_at g (Pos.to_nat p) with None => None | Some _ => Some 1 end
    | Zpos p =>
      match node_at g (Pos.to_nat p) with
      | None => None
      | Some (NAtom _) => Some 1
      | Some (NAnd cs) => option_map (fun ms => fold_left Nat.mul ms 1) (all_some (map (mult g f) cs))
      | Some (NOr cs) => option_map (fun ms => fold_left Nat.add ms 0) (all_some (map (mult g f) cs))
      end
    end
  end.

Definition mult_key (g : graph) (fuel : nat) (k : key) : option nat :=
  match k with None => Some 0 | Some c => mult g fuel c end.

(* ------------------------------------------------------------------ _builtin_findall_base *)
(* a proof of an answer: (mx, term, branch) *)
Definition proof (T : Type) : Type := (Z * T * branch)%type.
Definition p_mx {T} (p : proof T) : Z := fst (fst p).
Definition p_term {T} (p : proof T) : T := snd (fst p).
Definition p_branch {T} (p : proof T) : branch := snd p.

(* for res, n in results: for mx, b in enumerate_branches(n): new_results.append((mx, res[0], proof_node)) *)
Fixpoint all_proofs {T} (g : graph) (fuel : nat) (results : list (T * key)) : option (list (proof T)) :=
  match results with
  | [] => Some []
  | (t, k) :: r =>
    match eb_key g fuel k, all_proofs g fuel r with
    | Some bs, Some ps => Some (map (fun mb => (fst mb, t, snd mb)) bs ++ ps)
    | _, _ => None
    end
  end.

(* sorted(new_results, key=lambda s: s[0]): stable, ascending in mx *)
Fixpoint insert_mx {T} (x : proof T) (l : list (proof T)) : list (proof T) :=
  match l with
  | [] => [x]
  | y :: r => if (p_mx x <=? p_mx y)%Z then x :: y :: r else y :: insert_mx x r
  end.
Definition sort_mx {T} (l : list (proof T)) : list (proof T) := fold_right insert_mx [] l.

(* proof_node = target.add_and(b_renamed) if b_renamed else target.FALSE *)
Definition proof_key (pn : branch -> key) (b : branch) : key :=
  match b with [] => kFALSE | _ => pn b end.

Definition findall_lst {T} (pn : branch -> key) (ps : list (proof T)) : list (T * key) :=
  map (fun p => (p_term p, proof_key pn (p_branch p))) ps.

(* for l, n in _select_sublist(new_results): node = target.add_and(n); if node is not None: output.append *)
Definition findall_out {T} (cn : list key -> key) (lst : list (T * key)) : list (list T * key) :=
  map (fun e => (fst e, cn (snd e)))
      (filter (fun e => negb (is_false (cn (snd e)))) (select_sublist lst)).

Definition findall_model {T} (g : graph) (fuel : nat) (pn : branch -> key) (cn : list key -> key)
           (results : list (T * key)) : option (list (list T * key)) :=
  match all_proofs g fuel results with
  | None => None
  | Some ps => Some (findall_out cn (findall_lst pn (sort_mx ps)))
  end.

(* ------------------------------------------------------------------ _builtin_all / all_or_none *)
(* results come straight from the engine (ground in the target itself, no expansion);
   `if not l and not allow_none: continue` *)
Definition all_out {T} (allow_none : bool) (cn : list key -> key) (lst : list (T * key)) : list (list T * key) :=
  map (fun e => (fst e, cn (snd e)))
      (filter (fun e => (allow_none || negb (match fst e with [] => true | _ => false end))
                        && negb (is_false (cn (snd e))))
              (select_sublist lst)).

(* ------------------------------------------------------------------ semantics used by the theorems *)
(* value of a branch / of a proof under a valuation s of the source graph *)
Definition bval (s : nat -> bool) (b : branch) : bool := forallb (lit_val s) b.
(* what findall does with the empty branch: proof_node = FALSE *)
Definition pval (s : nat -> bool) (b : branch) : bool :=
  match b with [] => false | _ => bval s b end.

(* acyclicity witnessed by a rank function (children have smaller rank).  LogicFormula keys are
   NOT topologically ordered in general (add_disjunct updates older nodes), so this is weaker than
   BoolGraph.topo *)
Definition acyclic_by (lvl : nat -> nat) (g : graph) : Prop :=
  forall k nd c, node_at g k = Some nd -> In c (children nd) -> lvl (key_of c) < lvl k.

(* executable check used for the examples: children have smaller rank in the tabulated ranks *)
Definition acyclic_byb (ranks : list nat) (g : graph) : bool :=
  forallb (fun kn => forallb (fun c => nth (key_of c) ranks 0 <? nth (fst kn) ranks 0) (children (snd kn)))
          (combine (seq 1 (length g)) g).
