(* The GENERATED image of engine_builtin._select_sublist (GenSelectSublist.v, regenerated from
   /repo on every run) is extensionally the hand model ModelSelectSublist.select_sublist, so
   every theorem about the hand model is a theorem about the translated code. *)
From Coq Require Import ZArith NArith List Bool Lia.
From PL.C19 Require Import ModelSelectSublist SelectPrelude GenSelectSublist ProofsSelectSublist.
Import ListNotations.

(* ---------------------------------------------------------------- keys *)
Lemma key_eqb_true k : key_eqb k kTRUE_gen = is_true k.
Proof. destruct k as [[|p|p]|]; reflexivity. Qed.
Lemma key_eqb_false k : key_eqb k kFALSE_gen = is_false k.
Proof. destruct k as [[|p|p]|]; reflexivity. Qed.
Lemma negate_gen_ok k : negate_gen k = negate k.
Proof. destruct k as [[|p|p]|]; reflexivity. Qed.

(* ---------------------------------------------------------------- the bit test *)
Lemma bit_test n b : (0 <= b)%Z -> truthy_int (Z.land n (Z.shiftl 1 b)) = Z.testbit n b.
Proof.
  intros Hb. unfold truthy_int. rewrite Z.shiftl_1_l.
  destruct (Z.testbit n b) eqn:E.
  - apply negb_true_iff, Z.eqb_neq. intros H0.
    assert (Z.testbit (Z.land n (2 ^ b)) b = true)
      by (rewrite Z.land_spec, E, Z.pow2_bits_true by exact Hb; reflexivity).
    rewrite H0, Z.bits_0 in H. discriminate.
  - apply negb_false_iff, Z.eqb_eq. apply Z.bits_inj'. intros j Hj.
    rewrite Z.land_spec, Z.bits_0, Z.pow2_bits_eqb by exact Hb.
    destruct (Z.eqb_spec b j) as [->|]; [rewrite E; reflexivity|apply andb_false_r].
Qed.

Lemma testbit_ZN (m : N) (b : nat) : Z.testbit (Z.of_N m) (Z.of_nat b) = N.testbit m (N.of_nat b).
Proof. rewrite <- nat_N_Z. apply Z.testbit_of_N. Qed.

(* ---------------------------------------------------------------- the choice_bits loop *)
Definition zbits {T} (lst : list (T * key)) (x : nat) : list (option Z) :=
  map (option_map Z.of_nat) (choice_bits lst x).

Lemma choice_bits_length {T} (lst : list (T * key)) x : length (choice_bits lst x) = length lst.
Proof. revert x; induction lst as [|[t k] r IH]; intros x; cbn; [reflexivity|]. destruct (is_true k || is_false k); cbn; now rewrite IH. Qed.

Lemma set_nth_app {A} (pre : list A) a r v : set_nth (pre ++ a :: r) (length pre) v = pre ++ v :: r.
Proof. induction pre as [|p pre IH]; cbn; [reflexivity|now rewrite IH]. Qed.

Section Loop.
  Context {T : Type}.
  Variable step : list (option Z) * Z -> nat * (T * key) -> list (option Z) * Z.
  Hypothesis Hstep : forall cb x i e,
    step (cb, x) (i, e) = if is_true (snd e) || is_false (snd e) then (cb, x)
                          else (set_nth cb i (Some x), (x + 1)%Z).

  Lemma bits_loop (suffix : list (T * key)) : forall (pre : list (option Z)) (x : nat),
    fold_left step (combine (seq (length pre) (length suffix)) suffix)
              (pre ++ repeat None (length suffix), Z.of_nat x)
    = (pre ++ zbits suffix x, Z.of_nat (x + nbits suffix)).
  Proof.
    induction suffix as [|[t k] r IH]; intros pre x.
    - cbn. now rewrite Nat.add_0_r.
    - cbn [length seq combine fold_left repeat]. rewrite Hstep. cbn [snd]. unfold zbits. cbn [choice_bits nbits].
      destruct (is_true k || is_false k).
      + change (pre ++ None :: repeat None (length r)) with (pre ++ [None] ++ repeat None (length r)).
        rewrite app_assoc.
        replace (S (length pre)) with (length (pre ++ [None])) by (rewrite app_length; cbn; lia).
        rewrite IH. cbn [map option_map]. rewrite <- app_assoc. reflexivity.
      + rewrite set_nth_app.
        change (pre ++ Some (Z.of_nat x) :: repeat None (length r)) with (pre ++ [Some (Z.of_nat x)] ++ repeat None (length r)).
        rewrite app_assoc.
        replace (S (length pre)) with (length (pre ++ [Some (Z.of_nat x)])) by (rewrite app_length; cbn; lia).
        replace (Z.of_nat x + 1)%Z with (Z.of_nat (S x)) by lia.
        rewrite IH. cbn [map option_map]. rewrite <- app_assoc.
        replace (S x + nbits r) with (x + S (nbits r)) by lia. reflexivity.
  Qed.

  Lemma bits_loop0 (lst : list (T * key)) :
    fold_left step (indexed lst) (repeat None (length lst), 0%Z) = (zbits lst 0, Z.of_nat (nbits lst)).
  Proof. exact (bits_loop lst [] 0). Qed.
End Loop.

(* ---------------------------------------------------------------- comprehensions over range(0, len) *)
Lemma indexed_get {T} (lst : list (T * key)) : forall (pre cb : list (option Z)),
  length cb = length lst ->
  map (fun ie : nat * (T * key) => (snd ie, get_nth (pre ++ cb) (fst ie))) (combine (seq (length pre) (length lst)) lst)
  = combine lst cb.
Proof.
  induction lst as [|e r IH]; intros pre cb H; [reflexivity|].
  destruct cb as [|c cb]; [discriminate|]. cbn [length seq combine map fst snd]. f_equal.
  - unfold get_nth. rewrite app_nth2, Nat.sub_diag by lia. reflexivity.
  - change (pre ++ c :: cb) with (pre ++ [c] ++ cb). rewrite app_assoc.
    replace (S (length pre)) with (length (pre ++ [c])) by (rewrite app_length; cbn; lia).
    apply IH. cbn in H. lia.
Qed.

Lemma map_filter_comp {A B C} (g : A -> B) (P : B -> bool) (F : B -> C) (P' : A -> bool) (F' : A -> C) (l : list A) :
  (forall a, P' a = P (g a)) -> (forall a, F' a = F (g a)) ->
  map F' (filter P' l) = map F (filter P (map g l)).
Proof.
  intros HP HF. induction l as [|a l IH]; cbn; [reflexivity|]. rewrite HP.
  destruct (P (g a)); cbn; rewrite IH; [rewrite HF|]; reflexivity.
Qed.

Lemma combine_map_r {A B C} (h : B -> C) (l : list A) (m : list B) :
  combine l (map h m) = map (fun ab => (fst ab, h (snd ab))) (combine l m).
Proof. revert m; induction l as [|a l IH]; intros [|b m]; cbn; [reflexivity..|]. now rewrite IH. Qed.

(* a comprehension `[F(lst[i]) for i in range(0, ln) if P(lst[i], cb[i])]` is map/filter over the zip *)
Lemma comprehension {T C} (lst : list (T * key)) (P : T * key -> option Z -> bool) (F : T * key -> C)
      (P' : nat * (T * key) -> bool) (F' : nat * (T * key) -> C) :
  (forall i e, P' (i, e) = P e (get_nth (zbits lst 0) i)) -> (forall i e, F' (i, e) = F e) ->
  map F' (filter P' (indexed lst))
  = map (fun eo => F (fst eo)) (filter (fun eo => P (fst eo) (option_map Z.of_nat (snd eo))) (combine lst (choice_bits lst 0))).
Proof.
  intros HP HF.
  rewrite (map_filter_comp (fun ie : nat * (T * key) => (snd ie, get_nth (zbits lst 0) (fst ie)))
                           (fun p => P (fst p) (snd p)) (fun p => F (fst p)) P' F')
    by (intros [i e]; first [apply HP|apply HF]).
  unfold indexed.
  pose proof (indexed_get lst [] (zbits lst 0)) as Hig. cbn [app length] in Hig.
  rewrite Hig by (unfold zbits; rewrite map_length; apply choice_bits_length). clear Hig.
  unfold zbits. rewrite combine_map_r.
  symmetry. apply map_filter_comp; reflexivity.
Qed.

Lemma split_if {A B} (l : list (A * B)) :
  (if truthy_list l then split l else ([], [])) = (map fst l, map snd l).
Proof.
  destruct l as [|ab l]; [reflexivity|]. cbn [truthy_list].
  generalize (ab :: l). clear. intros l. induction l as [|[a b] l IH]; cbn; [reflexivity|]. now rewrite IH.
Qed.

(* ---------------------------------------------------------------- the countdown *)
Lemma rev_seq_down (m : nat) :
  map (fun k => (Z.of_nat m - 1 - Z.of_nat k)%Z) (seq 0 m) = map Z.of_nat (rev (seq 0 m)).
Proof.
  induction m as [|m IH]; [reflexivity|].
  rewrite seq_S at 2. rewrite rev_app_distr. cbn [rev app seq map plus].
  f_equal; [lia|]. rewrite <- IH, <- seq_shift, map_map. apply map_ext. intros k. lia.
Qed.

Lemma zdown_countdown (x : nat) :
  zdown (Z.shiftl 1 (Z.of_nat x) - 1) = map Z.of_N (countdown x).
Proof.
  unfold zdown, countdown. rewrite Z.shiftl_1_l.
  replace (2 ^ Z.of_nat x - 1 + 1)%Z with (Z.of_nat (Nat.pow 2 x)) by (rewrite Nat2Z.inj_pow; cbn; lia).
  rewrite Nat2Z.id, map_map.
  rewrite (map_ext (fun k => Z.of_N (N.of_nat k)) Z.of_nat) by (intros; apply nat_N_Z).
  rewrite <- rev_seq_down. apply map_ext. intros k. rewrite Nat2Z.inj_pow. cbn. lia.
Qed.

(* ---------------------------------------------------------------- the theorem *)
Theorem select_sublist_gen_is_model : forall (T : Type) (lst : list (T * key)),
  select_sublist_gen lst = select_sublist lst.
Proof.
  intros T lst. unfold select_sublist_gen, select_sublist.
  rewrite bits_loop0.
  2:{ intros cb x i e. cbn beta iota. rewrite key_eqb_true, key_eqb_false.
      destruct (is_true (snd e) || is_false (snd e)); reflexivity. }
  cbv beta iota zeta.
  rewrite zdown_countdown, map_map. apply map_ext. intros m.
  rewrite split_if. unfold entry.
  rewrite (comprehension lst
             (fun e ob => match ob with None => is_true (snd e) | Some b => Z.testbit (Z.of_N m) b end)
             (fun e => e)).
  2:{ intros i e. cbn beta iota. rewrite key_eqb_true.
      destruct (get_nth (zbits lst 0) i) as [b|] eqn:E; cbn beta iota; [|apply orb_false_r].
      apply bit_test.
      unfold get_nth, zbits in E.
      assert (In (Some b) (map (option_map Z.of_nat) (choice_bits lst 0)) \/ Some b = None) as [Hin|] by
          (rewrite <- E; destruct (nth_in_or_default i (map (option_map Z.of_nat) (choice_bits lst 0)) None); auto);
        [|discriminate].
      apply in_map_iff in Hin. destruct Hin as [[c|] [Hc _]]; [|discriminate]. injection Hc as <-. lia. }
  2:{ reflexivity. }
  rewrite (comprehension lst
             (fun e ob => match ob with None => is_false (snd e) | Some b => negb (Z.testbit (Z.of_N m) b) end)
             (fun e => negate (snd e))).
  2:{ intros i e. cbn beta iota. rewrite key_eqb_false.
      destruct (get_nth (zbits lst 0) i) as [b|] eqn:E; cbn beta iota; [|apply orb_false_r].
      cbn [orb]. f_equal. apply bit_test.
      unfold get_nth, zbits in E.
      assert (In (Some b) (map (option_map Z.of_nat) (choice_bits lst 0)) \/ Some b = None) as [Hin|] by
          (rewrite <- E; destruct (nth_in_or_default i (map (option_map Z.of_nat) (choice_bits lst 0)) None); auto);
        [|discriminate].
      apply in_map_iff in Hin. destruct Hin as [[c|] [Hc _]]; [|discriminate]. injection Hc as <-. lia. }
  2:{ intros i e. apply negate_gen_ok. }
  assert (Hs : forall eo : (T * key) * option nat,
             match option_map Z.of_nat (snd eo) with None => is_true (snd (fst eo)) | Some b => Z.testbit (Z.of_N m) b end
             = selected m eo).
  { intros [e [b|]]; cbn; [apply testbit_ZN|reflexivity]. }
  assert (Hu : forall eo : (T * key) * option nat,
             match option_map Z.of_nat (snd eo) with None => is_false (snd (fst eo)) | Some b => negb (Z.testbit (Z.of_N m) b) end
             = unselected m eo).
  { intros [e [b|]]; cbn; [f_equal; apply testbit_ZN|reflexivity]. }
  rewrite (filter_ext _ _ Hs), (filter_ext _ _ Hu).
  rewrite !map_map. cbn [map]. rewrite <- app_assoc. reflexivity.
Qed.

(* ---------------------------------------------------------------- transfer of the partition theorems *)
Definition entry_gen {T} (lst : list (T * key)) (i : nat) : list T * list key :=
  nth i (select_sublist_gen lst) ([], []).

Lemma gen_partition {T} (a : Z -> bool) (lst : list (T * key)) :
  (exists e, In e (select_sublist_gen lst) /\ holds a (snd e) = true) /\
  (forall e, In e (select_sublist_gen lst) -> holds a (snd e) = true ->
     fst e = map fst (filter (fun x => val a (snd x)) lst)) /\
  (forall i j, i < length (select_sublist_gen lst) -> j < length (select_sublist_gen lst) ->
     holds a (snd (entry_gen lst i)) = true -> holds a (snd (entry_gen lst j)) = true -> i = j).
Proof.
  unfold entry_gen. rewrite select_sublist_gen_is_model. unfold select_sublist. split; [|split].
  - destruct (partition_exists a lst) as [n [Hn Hh]]. exists (entry lst n). split; [|exact Hh].
    apply in_map, countdown_spec, Hn.
  - intros e He Hh. apply in_map_iff in He. destruct He as [n [<- _]]. now apply selected_sublist.
  - intros i j Hi Hj. rewrite map_length in Hi, Hj.
    rewrite (nth_indep _ _ (entry lst 0) ) by (rewrite map_length; exact Hi).
    rewrite (nth_indep _ ([], []) (entry lst 0)) by (rewrite map_length; exact Hj).
    rewrite !(map_nth (entry lst)). intros H1 H2.
    assert (Hb : forall k, k < length (countdown (nbits lst)) -> (nth k (countdown (nbits lst)) 0%N < 2 ^ N.of_nat (nbits lst))%N)
      by (intros k Hk; apply countdown_spec, nth_In, Hk).
    pose proof (partition_unique a lst _ _ (Hb i Hi) (Hb j Hj) H1 H2) as Heq.
    apply (proj1 (NoDup_nth (countdown (nbits lst)) 0%N) (countdown_nodup (nbits lst)) i j Hi Hj Heq).
Qed.
