From Coq Require Import ZArith NArith List Bool Lia Arith FinFun.
From PL.C19 Require Import ModelSelectSublist.
Import ListNotations.

Lemma val_negate a k : val a (negate k) = negb (val a k).
Proof.
  destruct k as [z|]; [|reflexivity]. destruct z as [|p|p]; cbn; try reflexivity;
    destruct (a (Z.pos p)); reflexivity.
Qed.

Definition zb {T} (lst : list (T * key)) (x : nat) := combine lst (choice_bits lst x).
Definition kof {T} (eo : (T * key) * option nat) : key := snd (fst eo).
Definition agree {T} (a : Z -> bool) (n : N) (eo : (T * key) * option nat) : bool :=
  Bool.eqb (selected n eo) (val a (kof eo)).
Definition nodes_of {T} (n : N) (z : list ((T * key) * option nat)) : list key :=
  map kof (filter (selected n) z) ++ map (fun e => negate (kof e)) (filter (unselected n) z) ++ [kTRUE].
(* an element without a decision bit is deterministically TRUE or FALSE *)
Definition wfe {T} (eo : (T * key) * option nat) : Prop :=
  match snd eo with None => is_true (kof eo) || is_false (kof eo) = true | Some _ => True end.

Lemma zb_cons {T} (t : T) k r x :
  zb ((t, k) :: r) x =
  if is_true k || is_false k then ((t, k), None) :: zb r x else ((t, k), Some x) :: zb r (S x).
Proof. unfold zb. cbn [choice_bits]. destruct (is_true k || is_false k); reflexivity. Qed.

Lemma zb_wf {T} (lst : list (T * key)) x : Forall wfe (zb lst x).
Proof.
  revert x. induction lst as [|[t k] r IH]; intros x; [constructor|].
  rewrite zb_cons. destruct (is_true k || is_false k) eqn:E; constructor; auto; exact I.
Qed.

Lemma entry_nodes {T} (lst : list (T * key)) n : snd (entry lst n) = nodes_of n (zb lst 0).
Proof. reflexivity. Qed.

Lemma holds_nodes {T} a n (z : list ((T * key) * option nat)) :
  Forall wfe z -> holds a (nodes_of n z) = forallb (agree a n) z.
Proof.
  unfold holds, nodes_of. intros Hwf.
  rewrite !forallb_app. cbn [forallb val kTRUE]. rewrite Z.eqb_refl, andb_true_r.
  induction Hwf as [|[[t k] ob] z Hw _ IH]; [reflexivity|].
  cbn [filter forallb]. rewrite <- IH. clear IH.
  set (X := forallb (val a) (map kof (filter (selected n) z))).
  set (Y := forallb (val a) (map (fun e => negate (kof e)) (filter (unselected n) z))).
  change (agree a n (t, k, ob)) with (Bool.eqb (selected n (t, k, ob)) (val a k)).
  change (selected n (t, k, ob)) with (match ob with None => is_true k | Some b => N.testbit n (N.of_nat b) end).
  change (unselected n (t, k, ob)) with (match ob with None => is_false k | Some b => negb (N.testbit n (N.of_nat b)) end).
  destruct ob as [b|].
  - destruct (N.testbit n (N.of_nat b)); cbn [negb map forallb Bool.eqb];
      change (kof (t, k, Some b)) with k; rewrite ?val_negate; fold X; fold Y; destruct (val a k), X, Y; reflexivity.
  - change (is_true k || is_false k = true) in Hw.
    destruct k as [[|p|p]|]; cbn in Hw; try discriminate; cbn [is_true is_false map forallb];
      change (kof (?e, ?kk, None)) with kk; fold X; fold Y; cbn [negate val kTRUE kFALSE Z.eqb Bool.eqb]; destruct X, Y; reflexivity.
Qed.

Lemma agree_terms {T} a n (lst : list (T * key)) x :
  forallb (agree a n) (zb lst x) = true ->
  map (fun e => fst (fst e)) (filter (selected n) (zb lst x)) = map fst (filter (fun e => val a (snd e)) lst).
Proof.
  revert x. induction lst as [|[t k] r IH]; intros x H; [reflexivity|].
  rewrite zb_cons in *.
  destruct (is_true k || is_false k); cbn [forallb filter] in *; apply andb_true_iff in H; destruct H as [H1 H2];
    unfold agree, kof in H1; cbn [fst snd] in *; apply eqb_prop in H1; rewrite H1;
    destruct (val a k); cbn [map fst]; rewrite (IH _ H2); reflexivity.
Qed.

(* every bit x .. x + nbits - 1 belongs to some element *)
Lemma bits_cover {T} (lst : list (T * key)) x b :
  x <= b < x + nbits lst -> exists e, In (e, Some b) (zb lst x).
Proof.
  revert x. induction lst as [|[t k] r IH]; intros x Hb; cbn [nbits] in Hb; [lia|].
  rewrite zb_cons. destruct (is_true k || is_false k).
  - destruct (IH x Hb) as [e He]. exists e. right. exact He.
  - destruct (Nat.eq_dec b x) as [->|Hne].
    + exists (t, k). left. reflexivity.
    + destruct (IH (S x)) as [e He]; [lia|]. exists e. right. exact He.
Qed.

Lemma high_bits_false n k b : (n < 2 ^ k)%N -> (k <= b)%N -> N.testbit n b = false.
Proof.
  intros Hn Hb. rewrite <- (N.mod_small n (2 ^ k)) by assumption.
  apply N.mod_pow2_bits_high. assumption.
Qed.

Lemma lt_pow2_of_bits n k : (forall b, (k <= b)%N -> N.testbit n b = false) -> (n < 2 ^ k)%N.
Proof.
  intros H. destruct (N.eq_dec n 0) as [->|Hn].
  - apply N.neq_0_lt_0, N.pow_nonzero. discriminate.
  - apply N.log2_lt_pow2; [lia|].
    destruct (N.lt_ge_cases (N.log2 n) k) as [Hl|Hl]; [assumption|].
    specialize (H _ Hl). rewrite N.bit_log2 in H by assumption. discriminate.
Qed.

Lemma agree_unique {T} a (lst : list (T * key)) n m :
  (n < 2 ^ N.of_nat (nbits lst))%N -> (m < 2 ^ N.of_nat (nbits lst))%N ->
  forallb (agree a n) (zb lst 0) = true -> forallb (agree a m) (zb lst 0) = true -> n = m.
Proof.
  intros Hn Hm An Am. apply N.bits_inj. intro b.
  destruct (N.lt_ge_cases b (N.of_nat (nbits lst))) as [Hb|Hb].
  - destruct (bits_cover lst 0 (N.to_nat b)) as [e He]; [lia|].
    rewrite forallb_forall in An, Am. specialize (An _ He). specialize (Am _ He).
    unfold agree, selected in An, Am. cbn [snd] in An, Am. rewrite N2Nat.id in An, Am.
    apply eqb_prop in An. apply eqb_prop in Am. congruence.
  - rewrite (high_bits_false n _ b Hn Hb), (high_bits_false m _ b Hm Hb). reflexivity.
Qed.

(* the index of the entry selected by an assignment *)
Fixpoint wit {T} (a : Z -> bool) (lst : list (T * key)) (x : nat) : N :=
  match lst with
  | [] => 0%N
  | (_, k) :: r => if is_true k || is_false k then wit a r x
                   else if val a k then N.setbit (wit a r (S x)) (N.of_nat x) else wit a r (S x)
  end.

Lemma wit_low {T} a (lst : list (T * key)) x b : b < x -> N.testbit (wit a lst x) (N.of_nat b) = false.
Proof.
  revert x. induction lst as [|[t k] r IH]; intros x Hb; cbn [wit]; [apply N.bits_0|].
  destruct (is_true k || is_false k); [auto|].
  destruct (val a k); [|apply IH; lia].
  rewrite N.setbit_neq by lia. apply IH; lia.
Qed.

Lemma wit_high {T} a (lst : list (T * key)) x b : x + nbits lst <= b -> N.testbit (wit a lst x) (N.of_nat b) = false.
Proof.
  revert x. induction lst as [|[t k] r IH]; intros x Hb; cbn [wit nbits] in *; [apply N.bits_0|].
  destruct (is_true k || is_false k); [auto|].
  destruct (val a k); [|apply IH; lia].
  rewrite N.setbit_neq by lia. apply IH; lia.
Qed.

Lemma agree_ext {T} a n m (lst : list (T * key)) x :
  (forall b, x <= b -> N.testbit n (N.of_nat b) = N.testbit m (N.of_nat b)) ->
  forallb (agree a n) (zb lst x) = forallb (agree a m) (zb lst x).
Proof.
  revert x. induction lst as [|[t k] r IH]; intros x H; [reflexivity|].
  rewrite zb_cons. destruct (is_true k || is_false k); cbn [forallb].
  - rewrite (IH x H). reflexivity.
  - rewrite (IH (S x)) by (intros; apply H; lia).
    unfold agree at 1 3, selected. cbn [snd]. rewrite (H x) by lia. reflexivity.
Qed.

Lemma wit_agree {T} a (lst : list (T * key)) x : forallb (agree a (wit a lst x)) (zb lst x) = true.
Proof.
  revert x. induction lst as [|[t k] r IH]; intros x; [reflexivity|].
  rewrite zb_cons. cbn [wit]. destruct (is_true k || is_false k) eqn:E; cbn [forallb].
  - rewrite IH, andb_true_r. unfold agree, selected, kof. cbn [fst snd].
    destruct k as [[|p|p]|]; cbn in E; try discriminate; reflexivity.
  - destruct (val a k) eqn:V.
    + rewrite (agree_ext a _ (wit a r (S x))), IH, andb_true_r.
      * unfold agree, selected, kof. cbn [fst snd]. rewrite N.setbit_eq, V. reflexivity.
      * intros b Hb. apply N.setbit_neq. lia.
    + rewrite IH, andb_true_r. unfold agree, selected, kof. cbn [fst snd].
      rewrite (wit_low a r (S x) x) by lia. rewrite V. reflexivity.
Qed.

Lemma wit_bound {T} a (lst : list (T * key)) : (wit a lst 0 < 2 ^ N.of_nat (nbits lst))%N.
Proof.
  apply lt_pow2_of_bits. intros b Hb. rewrite <- (N2Nat.id b). apply wit_high. lia.
Qed.

(* ---------- the statements used by Props.v ---------- *)
Lemma partition_exists {T} a (lst : list (T * key)) :
  exists n, (n < 2 ^ N.of_nat (nbits lst))%N /\ holds a (snd (entry lst n)) = true.
Proof.
  exists (wit a lst 0). split; [apply wit_bound|].
  rewrite entry_nodes, holds_nodes by apply zb_wf. apply wit_agree.
Qed.

Lemma partition_unique {T} a (lst : list (T * key)) n m :
  (n < 2 ^ N.of_nat (nbits lst))%N -> (m < 2 ^ N.of_nat (nbits lst))%N ->
  holds a (snd (entry lst n)) = true -> holds a (snd (entry lst m)) = true -> n = m.
Proof.
  intros Hn Hm. rewrite !entry_nodes, !holds_nodes by apply zb_wf. apply agree_unique; assumption.
Qed.

Lemma selected_sublist {T} a (lst : list (T * key)) n :
  holds a (snd (entry lst n)) = true ->
  fst (entry lst n) = map fst (filter (fun e => val a (snd e)) lst).
Proof.
  rewrite entry_nodes, holds_nodes by apply zb_wf. intros H. apply (agree_terms a n lst 0 H).
Qed.

(* the enumeration really is all n < 2^x, each exactly once *)
Lemma countdown_spec x n : In n (countdown x) <-> (n < 2 ^ N.of_nat x)%N.
Proof.
  unfold countdown. rewrite in_map_iff. split.
  - intros (i & <- & Hi). rewrite <- in_rev in Hi. apply in_seq in Hi.
    change 2%N with (N.of_nat 2). rewrite <- (Nat2N.inj_pow 2 x). lia.
  - intros H. exists (N.to_nat n). rewrite N2Nat.id. split; [reflexivity|].
    rewrite <- in_rev. apply in_seq. change 2%N with (N.of_nat 2) in H. rewrite <- (Nat2N.inj_pow 2 x) in H. lia.
Qed.

Lemma countdown_nodup x : NoDup (countdown x).
Proof.
  unfold countdown. apply Injective_map_NoDup; [intros i j; apply Nat2N.inj|].
  apply NoDup_rev, seq_NoDup.
Qed.
