(* Hand-written vocabulary used by the GENERATED image of engine_builtin._select_sublist
   (GenSelectSublist.v, written by gen/c19_select_sublist.py).  Each definition is the reading of
   one Python construct; no proofs in this file.
   Python ints are Z, node keys are ModelSelectSublist.key, Python lists AND tuples of values are
   Coq lists, a 2-tuple that is unpacked is a Coq pair. *)
From Coq Require Import ZArith List Bool.
From PL.C19 Require Import ModelSelectSublist.
Import ListNotations.

(* `a == b` on node keys (None == None, int == int) *)
Definition key_eqb (a b : key) : bool :=
  match a, b with
  | None, None => true
  | Some x, Some y => Z.eqb x y
  | _, _ => false
  end.

(* `-key` on a node key (on None Python raises TypeError: the code only negates ints) *)
Definition key_opp (k : key) : key := match k with Some z => Some (- z)%Z | None => None end.

(* `for i in range(0, len(l))` with `l[i]` in the body: the list of (i, l[i]) *)
Definition indexed {A} (l : list A) : list (nat * A) := combine (seq 0 (length l)) l.

(* `l[i] = v` (in-place update; Python raises IndexError out of range, here l is unchanged:
   the translator only emits it for an index ranging over a list of the same length) *)
Fixpoint set_nth {A} (l : list A) (i : nat) (v : A) : list A :=
  match l, i with
  | [], _ => []
  | _ :: r, O => v :: r
  | a :: r, S j => a :: set_nth r j v
  end.

(* `l[i]` on a list of Optional values (same remark about the range) *)
Definition get_nth {A} (l : list (option A)) (i : nat) : option A := nth i l None.

(* truth value of an int / of a list in a boolean context *)
Definition truthy_int (z : Z) : bool := negb (Z.eqb z 0).
Definition truthy_list {A} (l : list A) : bool := match l with [] => false | _ => true end.

(* `while n >= 0: BODY; n -= 1` (BODY does not assign n): the values n takes, in order *)
Definition zdown (n : Z) : list Z := map (fun k => (n - Z.of_nat k)%Z) (seq 0 (Z.to_nat (n + 1))).
