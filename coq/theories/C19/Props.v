(* C19 — findall/all in probabilistic programs follow the possible-world semantics.
   Combinatorial core: `_select_sublist` enumerates, for a list of (term, node)
   solutions, pairs (sublist, constraint nodes).  For EVERY truth assignment to
   the nodes exactly one enumerated pair has its constraints satisfied, and its
   sublist is exactly the list of solutions true under that assignment, in the
   original (Prolog) order with duplicates kept.  Only statements here. *)
From Coq Require Import ZArith NArith List Bool.
From PL.C19 Require Import ModelSelectSublist ProofsSelectSublist.
From PL.C19 Require Import SelectPrelude GenSelectSublist ProofsGen.
Import ListNotations.

Theorem C19_partition_exists : forall (T : Type) (a : Z -> bool) (lst : list (T * key)),
  exists n, (n < 2 ^ N.of_nat (nbits lst))%N /\ holds a (snd (entry lst n)) = true.
Proof. exact @partition_exists. Qed.
Print Assumptions C19_partition_exists.

Theorem C19_partition_unique : forall (T : Type) (a : Z -> bool) (lst : list (T * key)) n m,
  (n < 2 ^ N.of_nat (nbits lst))%N -> (m < 2 ^ N.of_nat (nbits lst))%N ->
  holds a (snd (entry lst n)) = true -> holds a (snd (entry lst m)) = true -> n = m.
Proof. exact @partition_unique. Qed.
Print Assumptions C19_partition_unique.

Theorem C19_selected_sublist : forall (T : Type) (a : Z -> bool) (lst : list (T * key)) n,
  holds a (snd (entry lst n)) = true ->
  fst (entry lst n) = map fst (filter (fun e => val a (snd e)) lst).
Proof. exact @selected_sublist. Qed.
Print Assumptions C19_selected_sublist.

(* the generator yields entry n for every n < 2^x exactly once *)
Theorem C19_enumeration_complete : forall (T : Type) (lst : list (T * key)),
  select_sublist lst = map (entry lst) (countdown (nbits lst)) /\
  (forall n, In n (countdown (nbits lst)) <-> (n < 2 ^ N.of_nat (nbits lst))%N) /\
  NoDup (countdown (nbits lst)).
Proof. intros T lst. exact (conj eq_refl (conj (countdown_spec (nbits lst)) (countdown_nodup (nbits lst)))). Qed.
Print Assumptions C19_enumeration_complete.

(* non-vacuity: two probabilistic solutions, one deterministic, one duplicate node *)
Example C19_example :
  select_sublist [(1%Z, Some 5%Z); (2%Z, kTRUE); (3%Z, Some (-7)%Z)] =
  [([1; 2; 3]%Z, [Some 5; kTRUE; Some (-7); kTRUE]%Z);
   ([2; 3]%Z, [kTRUE; Some (-7); Some (-5); kTRUE]%Z);
   ([1; 2]%Z, [Some 5; kTRUE; Some 7; kTRUE]%Z);
   ([2]%Z, [kTRUE; Some (-5); Some 7; kTRUE]%Z)].
Proof. vm_compute. reflexivity. Qed.

(* ------------------------------------------------------------------------------------
   Tie by translation: GenSelectSublist.v is regenerated on every run from
   problog/engine_builtin.py `_select_sublist` and problog/formula.py `BaseFormula.negate/TRUE/FALSE`
   by the fail-closed translator gen/c19_select_sublist.py (vocabulary: SelectPrelude.v).
   The translated code IS the hand model, on every list: *)
Theorem C19_generated_is_model : forall (T : Type) (lst : list (T * key)),
  select_sublist_gen lst = select_sublist lst.
Proof. exact select_sublist_gen_is_model. Qed.
Print Assumptions C19_generated_is_model.

Theorem C19_generated_negate_is_model : forall k : key, negate_gen k = negate k.
Proof. exact negate_gen_ok. Qed.
Print Assumptions C19_generated_negate_is_model.

(* ... hence the partition theorems hold of the translated generator itself: for every assignment
   some yielded pair has its constraints satisfied; every such pair carries exactly the true
   solutions in order; and no two positions of the yielded sequence are satisfied together *)
Theorem C19_generated_partition : forall (T : Type) (a : Z -> bool) (lst : list (T * key)),
  (exists e, In e (select_sublist_gen lst) /\ holds a (snd e) = true) /\
  (forall e, In e (select_sublist_gen lst) -> holds a (snd e) = true ->
     fst e = map fst (filter (fun x => val a (snd x)) lst)) /\
  (forall i j, i < length (select_sublist_gen lst) -> j < length (select_sublist_gen lst) ->
     holds a (snd (nth i (select_sublist_gen lst) ([], []))) = true ->
     holds a (snd (nth j (select_sublist_gen lst) ([], []))) = true -> i = j).
Proof. exact @gen_partition. Qed.
Print Assumptions C19_generated_partition.

Theorem C19_generated_enumeration : forall (T : Type) (lst : list (T * key)),
  select_sublist_gen lst = map (entry lst) (countdown (nbits lst)) /\
  length (select_sublist_gen lst) = 2 ^ nbits lst.
Proof.
  intros T lst. rewrite select_sublist_gen_is_model. split; [reflexivity|].
  unfold select_sublist, countdown. rewrite !map_length, rev_length, seq_length. reflexivity.
Qed.
Print Assumptions C19_generated_enumeration.

Example C19_generated_example :
  select_sublist_gen [(1%Z, Some 5%Z); (2%Z, kTRUE); (3%Z, Some (-7)%Z); (4%Z, kFALSE)] =
  [([1; 2; 3]%Z, [Some 5; kTRUE; Some (-7); kTRUE; kTRUE]%Z);
   ([2; 3]%Z, [kTRUE; Some (-7); Some (-5); kTRUE; kTRUE]%Z);
   ([1; 2]%Z, [Some 5; kTRUE; Some 7; kTRUE; kTRUE]%Z);
   ([2]%Z, [kTRUE; Some (-5); Some 7; kTRUE; kTRUE]%Z)].
Proof. vm_compute. reflexivity. Qed.

(* ====================================================================================
   Deepening: enumerate_branches / get_node_multiplicity / _builtin_findall_base / _builtin_all
   (models in ModelBranches.v).  g is the private formula `findall_target` of a findall call,
   s any supported valuation of g under the atom assignment a (on an acyclic graph: THE value
   of every node), lvl a rank function witnessing acyclicity. *)
From PL.C09 Require Import BoolGraph.
From PL.C19 Require Import ModelBranches ProofsBranches.
From Coq Require Import Permutation Sorted.

(* the disjunction of the enumerated branches is equivalent to the node, for every assignment *)
Theorem C19_branches_equiv : forall (g : graph) (lvl : nat -> nat) (a : N -> bool) (s : nat -> bool)
    (fuel : nat) (c : Z) (bs : list (Z * branch)),
  acyclic_by lvl g -> supported g a s -> eb g fuel [] c = Some bs ->
  existsb (fun mb => bval s (snd mb)) bs = lit_val s c.
Proof. intros g lvl a s fuel c bs Hac Hs. exact (eb_sound g lvl Hac a s Hs fuel [] c bs (fun x (H : In x []) => match H with end)). Qed.
Print Assumptions C19_branches_equiv.

(* no enumerated branch is empty, on ANY graph (the repaired cycle guard yields no branch at all):
   findall's `proof_node = FALSE` for an empty branch only fires for a FALSE result key *)
Theorem C19_branches_nonempty : forall (g : graph) (fuel : nat) (c : Z) (bs : list (Z * branch)),
  eb g fuel [] c = Some bs -> forall mb, In mb bs -> snd mb <> [].
Proof. intros g fuel c bs. exact (eb_nonempty_gen g fuel [] c bs). Qed.
Print Assumptions C19_branches_nonempty.

(* CYCLIC formulas.  Soundness of every branch under every supported valuation ... *)
Theorem C19_branches_sound_any_graph : forall (g : graph) (a : N -> bool) (s : nat -> bool)
    (fuel : nat) (c : Z) (bs : list (Z * branch)),
  supported g a s -> eb g fuel [] c = Some bs ->
  existsb (fun mb => bval s (snd mb)) bs = true -> lit_val s c = true.
Proof. intros g a s fuel c bs Hs. exact (eb_sound_gen g a s Hs fuel [] c bs). Qed.
Print Assumptions C19_branches_sound_any_graph.

(* ... and equivalence with the node in every model of the formula in the sense of BoolGraph.is_model
   (s = least fixpoint of its own reduct: the least model of a positive cyclic formula, a stable model
   in general): every true node has a proof that never revisits a node, the guard only cuts the others *)
Theorem C19_branches_equiv_cyclic : forall (g : graph) (a : N -> bool) (s : nat -> bool)
    (fuel : nat) (c : Z) (bs : list (Z * branch)),
  is_model g a s -> eb g fuel [] c = Some bs ->
  existsb (fun mb => bval s (snd mb)) bs = lit_val s c.
Proof. intros g a s fuel c bs Hm. exact (eb_equiv_model g a s Hm fuel c bs). Qed.
Print Assumptions C19_branches_equiv_cyclic.

(* the model does not run out of fuel / hit an exception on well-formed acyclic graphs *)
Theorem C19_branches_total : forall (g : graph) (lvl : nat -> nat) (fuel : nat) (c : Z),
  acyclic_by lvl g -> closed_graph g -> no_empty_and g ->
  key_of c <= length g -> lvl (key_of c) < fuel ->
  exists bs, eb g fuel [] c = Some bs.
Proof. intros g lvl fuel c Hac Hc Hn. exact (eb_total g lvl Hac Hc Hn fuel [] c (fun x (H : In x []) => match H with end)). Qed.
Print Assumptions C19_branches_total.

Theorem C19_branches_total_topo : forall (g : graph) (c : Z),
  topo g -> closed_graph g -> no_empty_and g -> key_of c <= length g ->
  exists bs, eb g (default_fuel g) [] c = Some bs.
Proof. exact eb_total_topo. Qed.
Print Assumptions C19_branches_total_topo.

(* get_node_multiplicity = number of enumerated branches = number of list elements one answer
   contributes to findall's solution list *)
Theorem C19_multiplicity_is_branch_count : forall (g : graph) (lvl : nat -> nat) (fuel fuel2 : nat) (c : Z)
    (bs : list (Z * branch)) (m : nat),
  acyclic_by lvl g -> eb g fuel [] c = Some bs -> mult g fuel2 c = Some m -> length bs = m.
Proof. intros g lvl fuel fuel2 c bs m Hac. exact (eb_length_mult g lvl Hac fuel [] c bs fuel2 m (fun x (H : In x []) => match H with end)). Qed.
Print Assumptions C19_multiplicity_is_branch_count.

(* THE ORDER THE MODEL FIXES: the proofs are stably sorted by mx (= the largest node id on the
   branch, the code's "order detection mechanism", marked fragile in the source).  Nothing
   here says that this is Prolog's solution order (known findings
   findall-result-order-not-clause-order, findall-duplicate-proofs-of-same-answer-merged). *)
Theorem C19_order_is_stable_sort_by_mx : forall (T : Type) (ps : list (proof T)),
  Permutation (sort_mx ps) ps /\ Sorted mx_le (sort_mx ps) /\
  (forall m, filter (fun p => (p_mx p =? m)%Z) (sort_mx ps) = filter (fun p => (p_mx p =? m)%Z) ps).
Proof. intros T ps. exact (conj (sort_mx_perm ps) (conj (sort_mx_sorted ps) (sort_mx_stable ps))). Qed.
Print Assumptions C19_order_is_stable_sort_by_mx.

(* findall/3.  Hypotheses on the target formula (valuation tv of its nodes): the key pn b that
   copy_node + add_and build for a proof b has the value of the conjunction of b, the key cn ks
   that add_and builds for a constraint list has the value of the conjunction (builder property,
   proved for the builder model in C09/BuilderProofs.v, C11; checked per call by the harness).
   Then: exactly one output list has a true node; that list is the list of the terms of the proofs
   that are true, in the order fixed above; a term occurs in it iff it is a solution whose node
   is true (it occurs once per true proof). *)
Theorem C19_findall_lists_partition : forall (T : Type) (tv : Z -> bool) (cn : list key -> key)
    (g : graph) (lvl : nat -> nat) (a : N -> bool) (s : nat -> bool) (pn : branch -> key)
    (fuel : nat) (results : list (T * key)) (ps : list (proof T)),
  acyclic_by lvl g -> supported g a s ->
  all_proofs g fuel results = Some ps ->
  (forall p, In p ps -> p_branch p <> [] -> val tv (pn (p_branch p)) = bval s (p_branch p)) ->
  cn_ok tv cn (findall_lst pn (sort_mx ps)) ->
  let sorted := sort_mx ps in
  let out := findall_out cn (findall_lst pn sorted) in
  findall_model g fuel pn cn results = Some out /\
  length (filter (fun e => val tv (snd e)) out) = 1 /\
  (forall l node, In (l, node) out -> val tv node = true ->
     l = map p_term (filter (fun p => pval s (p_branch p)) sorted)) /\
  (forall t, In t (map p_term (filter (fun p => pval s (p_branch p)) sorted)) <->
             exists k, In (t, k) results /\ key_val s k = true).
Proof.
  intros T tv cn g lvl a s pn fuel results ps Hac Hs Hps Hpn Hcn sorted out.
  split; [unfold findall_model; rewrite Hps; reflexivity|].
  exact (findall_lists_partition tv cn g s pn
           (fun fuel' c bs => eb_sound g lvl Hac a s Hs fuel' [] c bs (fun x (H : In x []) => match H with end))
           fuel results ps Hps Hpn Hcn).
Qed.
Print Assumptions C19_findall_lists_partition.

(* the same for CYCLIC findall targets (goals defined by recursion through a cycle): s is a model
   of g in the sense of BoolGraph.is_model; no acyclicity hypothesis *)
Theorem C19_findall_lists_partition_cyclic : forall (T : Type) (tv : Z -> bool) (cn : list key -> key)
    (g : graph) (a : N -> bool) (s : nat -> bool) (pn : branch -> key)
    (fuel : nat) (results : list (T * key)) (ps : list (proof T)),
  is_model g a s ->
  all_proofs g fuel results = Some ps ->
  (forall p, In p ps -> p_branch p <> [] -> val tv (pn (p_branch p)) = bval s (p_branch p)) ->
  cn_ok tv cn (findall_lst pn (sort_mx ps)) ->
  let sorted := sort_mx ps in
  let out := findall_out cn (findall_lst pn sorted) in
  findall_model g fuel pn cn results = Some out /\
  length (filter (fun e => val tv (snd e)) out) = 1 /\
  (forall l node, In (l, node) out -> val tv node = true ->
     l = map p_term (filter (fun p => pval s (p_branch p)) sorted)) /\
  (forall t, In t (map p_term (filter (fun p => pval s (p_branch p)) sorted)) <->
             exists k, In (t, k) results /\ key_val s k = true).
Proof.
  intros T tv cn g a s pn fuel results ps Hm Hps Hpn Hcn sorted out.
  split; [unfold findall_model; rewrite Hps; reflexivity|].
  exact (findall_lists_partition tv cn g s pn (eb_equiv_model g a s Hm) fuel results ps Hps Hpn Hcn).
Qed.
Print Assumptions C19_findall_lists_partition_cyclic.

(* all/3 (allow_none = false) and all_or_none/3 (allow_none = true): the results are used as they
   come (no expansion); the empty list is skipped unless allow_none, so that under an assignment
   with no true solution NO output of all/3 holds *)
Theorem C19_all_lists_partition : forall (T : Type) (tv : Z -> bool) (cn : list key -> key)
    (allow_none : bool) (lst : list (T * key)),
  cn_ok tv cn lst ->
  length (filter (fun e => val tv (snd e)) (all_out allow_none cn lst))
    = (if allow_none || existsb (fun x => val tv (snd x)) lst then 1 else 0) /\
  (forall l node, In (l, node) (all_out allow_none cn lst) -> val tv node = true ->
     l = map fst (filter (fun x => val tv (snd x)) lst)).
Proof. intros T tv cn allow_none lst. exact (all_out_spec tv cn allow_none lst). Qed.
Print Assumptions C19_all_lists_partition.

(* ------------------------------------------------------------------ non-vacuity *)
(* node 4 = (f0 /\ f1) \/ ~f0 : two proofs; the negative literal gets a NEGATIVE mx and sorts first *)
Definition ex_g : graph := [NAtom 0; NAtom 1; NAnd [1; 2]; NOr [3; -1]]%Z.
Example C19_branches_example :
  topob ex_g = true /\
  eb ex_g (default_fuel ex_g) [] 4 = Some [(3, [1; 2]); (-1, [-1])]%Z /\
  mult ex_g (default_fuel ex_g) 4 = Some 2.
Proof. vm_compute. repeat split. Qed.

(* LogicFormula keys need not be topologically ordered: acyclic_by covers that *)
Definition ex_g2 : graph := [NOr [2; 3]; NAtom 0; NAnd [2; 4]; NAtom 1]%Z.
Example C19_branches_example_nontopo :
  topob ex_g2 = false /\ acyclic_by (fun k => nth k [0; 3; 1; 2; 1] 0) ex_g2 /\
  eb ex_g2 (default_fuel ex_g2) [] 1 = Some [(2, [2]); (4, [2; 4])]%Z.
Proof. split; [reflexivity|]. split; [apply acyclic_byb_sound; reflexivity|reflexivity]. Qed.

(* a complete findall instance: results p(10) with node 4 and p(20) with node 2 (= f1);
   target formula: atoms 1 (f0), 2 (f1), node 3 = 1 /\ 2, nodes 4.. = the constraint conjunctions *)
Definition ex_results : list (Z * key) := [(10, Some 4); (20, Some 2)]%Z.
Definition ex_pn (b : branch) : key :=
  if list_eq_dec Z.eq_dec b [-1]%Z then Some (-1)%Z
  else if list_eq_dec Z.eq_dec b [2]%Z then Some 2%Z
  else if list_eq_dec Z.eq_dec b [1; 2]%Z then Some 3%Z else None.
Definition ex_lst : list (Z * key) := [(10, Some (-1)); (20, Some 2); (10, Some 3)]%Z.
Definition ex_keq (x y : key) : bool :=
  match x, y with None, None => true | Some u, Some v => Z.eqb u v | _, _ => false end.
Fixpoint ex_leq (x y : list key) : bool :=
  match x, y with [] , [] => true | u :: x', v :: y' => ex_keq u v && ex_leq x' y' | _, _ => false end.
Fixpoint ex_index (ks : list key) (l : list (list key)) (i : Z) : key :=
  match l with [] => None | x :: r => if ex_leq ks x then Some i else ex_index ks r (i + 1)%Z end.
Definition ex_cn (ks : list key) : key := ex_index ks (map snd (select_sublist ex_lst)) 4%Z.
Definition ex_tv0 (a0 a1 : bool) (z : Z) : bool :=
  if (z =? 1)%Z then a0 else if (z =? 2)%Z then a1 else a0 && a1.
Definition ex_tv (a0 a1 : bool) (z : Z) : bool :=
  if (z <=? 3)%Z then ex_tv0 a0 a1 z
  else holds (ex_tv0 a0 a1) (nth (Z.to_nat (z - 4)) (map snd (select_sublist ex_lst)) []).
Definition ex_a (a0 a1 : bool) (id : N) : bool := if (id =? 0)%N then a0 else a1.
Definition ex_s (a0 a1 : bool) : nat -> bool := vget (dag_val (ex_a a0 a1) ex_g).

Example C19_findall_example_hypotheses : forall a0 a1 : bool,
  acyclic_by (fun k => k) ex_g /\ supported ex_g (ex_a a0 a1) (ex_s a0 a1) /\
  all_proofs ex_g (default_fuel ex_g) ex_results = Some [(3, 10, [1; 2]); (-1, 10, [-1]); (2, 20, [2])]%Z /\
  findall_lst ex_pn (sort_mx [(3, 10, [1; 2]); (-1, 10, [-1]); (2, 20, [2])]%Z) = ex_lst /\
  (forall p, In p [(3, 10, [1; 2]); (-1, 10, [-1]); (2, 20, [2])]%Z -> p_branch p <> [] ->
     val (ex_tv a0 a1) (ex_pn (p_branch p)) = bval (ex_s a0 a1) (p_branch p)) /\
  cn_ok (ex_tv a0 a1) ex_cn ex_lst.
Proof.
  intros a0 a1.
  assert (Ht : topo ex_g) by (apply topob_sound; reflexivity).
  split; [apply topo_acyclic; exact Ht|].
  split; [apply dag_val_supported; exact Ht|].
  split; [reflexivity|]. split; [reflexivity|]. split.
  - intros p [<-|[<-|[<-|[]]]] _; destruct a0, a1; reflexivity.
  - intros e He.
    assert (F : forallb (fun e => Bool.eqb (val (ex_tv a0 a1) (ex_cn (snd e))) (holds (ex_tv a0 a1) (snd e)))
                        (select_sublist ex_lst) = true) by (destruct a0, a1; vm_compute; reflexivity).
    rewrite forallb_forall in F. apply eqb_prop. exact (F e He).
Qed.

(* ... and what the model then reports: 8 lists, exactly one true per assignment *)
Example C19_findall_example_result : forall a0 a1 : bool,
  option_map (fun out => (length out, map fst (filter (fun e => val (ex_tv a0 a1) (snd e)) out)))
             (findall_model ex_g (default_fuel ex_g) ex_pn ex_cn ex_results)
  = Some (8, [(if negb a0 then [10%Z] else []) ++ (if a1 then [20%Z] else []) ++ (if a0 && a1 then [10%Z] else [])]).
Proof. intros [|] [|]; vm_compute; reflexivity. Qed.

(* the cyclic findall_target of  r(X) :- e(a,X).  r(X) :- r(Y), e(Y,X).  (edges a-b, b-c, c-b, a-c):
   node 3 = r(b), node 4 = r(c).  The branch e(b,c),e(c,b) of the pre-fix code is gone; under the
   assignment {e(b,c), e(c,b)} the least model has r(b) false and no branch is true *)
Definition ex_cyc : graph :=
  [NAtom 0; NAtom 1; NOr [1; 8]; NOr [2; 6]; NAtom 2; NAnd [3; 5]; NAtom 3; NAnd [4; 7]]%Z.
Example C19_branches_example_cyclic :
  eb ex_cyc (default_fuel ex_cyc) [] 3 = Some [(1, [1]); (8, [2; 7])]%Z /\
  eb ex_cyc (default_fuel ex_cyc) [] 4 = Some [(2, [2]); (6, [1; 5])]%Z /\
  is_model ex_cyc (fun id => (id =? 2)%N || (id =? 3)%N) (vget (sem ex_cyc (fun id => (id =? 2)%N || (id =? 3)%N))) /\
  lit_val (vget (sem ex_cyc (fun id => (id =? 2)%N || (id =? 3)%N))) 3 = false.
Proof. split; [reflexivity|]. split; [reflexivity|]. split; [apply is_modelb_sound; vm_compute; reflexivity|reflexivity]. Qed.
