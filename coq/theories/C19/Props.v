(* C19 — findall/all in probabilistic programs follow the possible-world semantics.
   Combinatorial core: `_select_sublist` enumerates, for a list of (term, node)
   solutions, pairs (sublist, constraint nodes).  For EVERY truth assignment to
   the nodes exactly one enumerated pair has its constraints satisfied, and its
   sublist is exactly the list of solutions true under that assignment, in the
   original (Prolog) order with duplicates kept.  Only statements here. *)
From Coq Require Import ZArith NArith List Bool.
From PL.C19 Require Import ModelSelectSublist ProofsSelectSublist.
Import ListNotations.

Theorem C19_partition_exists : forall (T : Type) (a : Z -> bool) (lst : list (T * key)),
  exists n, (n < 2 ^ N.of_nat (nbits lst))%N /\ holds a (snd (entry lst n)) = true.
Proof. exact @partition_exists. Qed.
Print Assumptions C19_partition_exists.

Theorem C19_partition_unique : forall (T : Type) (a : Z -> bool) (lst : list (T * key)) n m,
  (n < 2 ^ N.of_nat (nbits lst))%N -> (m < 2 ^ N.of_nat (nbits lst))%N ->
  holds a (snd (entry lst n)) = true -> holds a (snd (entry lst m)) = true -> n = m.
Proof. exact @partition_unique. Qed.
Print Assumptions C19_partition_unique.

Theorem C19_selected_sublist : forall (T : Type) (a : Z -> bool) (lst : list (T * key)) n,
  holds a (snd (entry lst n)) = true ->
  fst (entry lst n) = map fst (filter (fun e => val a (snd e)) lst).
Proof. exact @selected_sublist. Qed.
Print Assumptions C19_selected_sublist.

(* the generator yields entry n for every n < 2^x exactly once *)
Theorem C19_enumeration_complete : forall (T : Type) (lst : list (T * key)),
  select_sublist lst = map (entry lst) (countdown (nbits lst)) /\
  (forall n, In n (countdown (nbits lst)) <-> (n < 2 ^ N.of_nat (nbits lst))%N) /\
  NoDup (countdown (nbits lst)).
Proof. intros T lst. exact (conj eq_refl (conj (countdown_spec (nbits lst)) (countdown_nodup (nbits lst)))). Qed.
Print Assumptions C19_enumeration_complete.

(* non-vacuity: two probabilistic solutions, one deterministic, one duplicate node *)
Example C19_example :
  select_sublist [(1%Z, Some 5%Z); (2%Z, kTRUE); (3%Z, Some (-7)%Z)] =
  [([1; 2; 3]%Z, [Some 5; kTRUE; Some (-7); kTRUE]%Z);
   ([2; 3]%Z, [kTRUE; Some (-7); Some (-5); kTRUE]%Z);
   ([1; 2]%Z, [Some 5; kTRUE; Some 7; kTRUE]%Z);
   ([2]%Z, [kTRUE; Some (-5); Some 7; kTRUE]%Z)].
Proof. vm_compute. reflexivity. Qed.
