(* C19, deepening: the target keys of findall/3 are no longer abstract.
   `C19_findall_lists_partition` (Props.v) has two hypotheses about the REAL target formula:
   pn (copy_node + add_and of a proof's branch) and cn (add_and of a constraint list).  Here they
   are discharged for a Gallina model of LogicFormula.copy_node (ModelCopyNode.v) written on top of
   the C09 model of the target builder (PL.C09.CyclesModel.t_add_atom / t_add_compound, tied to
   formula.py by the C09 check; lemmas t_add_atom_ok / t_add_compound_ok of C09/BuilderProofs.v).
   Only statements here; proofs in ProofsCopyNode.v. *)
From Coq Require Import ZArith NArith List Bool Arith.
From PL.C09 Require Import BoolGraph CyclesModel BuilderProofs.
From PL.C19 Require Import ModelSelectSublist ModelBranches ProofsBranches ModelCopyNode ProofsCopyNode.
Import ListNotations.

(* copy_node: the key it returns has, in the grown target DAG, the value the source literal has.
   Any source graph on which the (guard-less) recursion of the code ends, any supported valuation s
   of the source under the assignment a, deterministic facts (det) true under a; the target only
   grows (old keys keep their meaning: BuilderProofs.val_ext) and stays topologically ordered. *)
Theorem C19_copy_node_value : forall (det : N -> bool) (ai : atom_info) (g : graph) (a : N -> bool) (s : nat -> bool),
  supported g a s -> (forall id, det id = true -> a id = true) ->
  forall fuel t index t' k, topo (t_nodes t) -> copy_node det ai g fuel t index = Some (t', k) ->
    ext t t' /\ topo (t_nodes t') /\ key_valid t' k /\
    ModelSelectSublist.val (tgt_val a t') k = lit_val s index.
Proof.
  intros det ai g a s Hs Hd fuel t index t' k Ht H.
  rewrite sval_bval. exact (copy_node_ok det ai g a s Hs Hd fuel t index t' k Ht H).
Qed.
Print Assumptions C19_copy_node_value.

(* ... and on acyclic closed sources (no empty conj/disj) the model returns a result *)
Theorem C19_copy_node_total : forall (det : N -> bool) (ai : atom_info) (g : graph) (lvl : nat -> nat),
  acyclic_by lvl g -> closed_graph g -> no_empty_and g -> no_empty_or g ->
  forall fuel index t, key_of index <= length g -> lvl (key_of index) < fuel ->
  exists r, copy_node det ai g fuel t index = Some r.
Proof. exact copy_node_total. Qed.
Print Assumptions C19_copy_node_total.

(* proof_node = target.add_and([copy_node(target, c) for c in b]) if b else FALSE: the former `pn` hypothesis *)
Theorem C19_proof_node_value : forall (det : N -> bool) (ai : atom_info) (g : graph) (a : N -> bool) (s : nat -> bool),
  supported g a s -> (forall id, det id = true -> a id = true) ->
  forall fuel t b t' k, topo (t_nodes t) -> copy_branch det ai g fuel t b = Some (t', k) ->
    ext t t' /\ topo (t_nodes t') /\ key_valid t' k /\
    ModelSelectSublist.val (tgt_val a t') k = pval s b.
Proof.
  intros det ai g a s Hs Hd fuel t b t' k Ht H.
  rewrite sval_bval. exact (copy_branch_ok det ai g a s Hs Hd fuel t b t' k Ht H).
Qed.
Print Assumptions C19_proof_node_value.

(* node = target.add_and(n): the former `cn` hypothesis, for keys that exist in the target *)
Theorem C19_add_and_value : forall (a : N -> bool) t ks t' k,
  topo (t_nodes t) -> Forall (key_valid t) ks -> t_add_compound true t ks = Some (t', k) ->
  ext t t' /\ topo (t_nodes t') /\ key_valid t' k /\
  ModelSelectSublist.val (tgt_val a t') k = holds (tgt_val a t') ks.
Proof. exact add_and_holds. Qed.
Print Assumptions C19_add_and_value.

(* findall/3 with the target threaded through every copy_node / add_and call in the order of the
   code (findall_concrete).  NO hypothesis about target keys: the valuation of the target nodes is
   the one of the final target DAG tF itself.  Exactly one output list has a true node; it is the
   list of the true proofs in the model's order; a term is in it iff it is a solution whose node is
   true.  t0 = the target before the call (topologically ordered), it only grows. *)
Theorem C19_findall_lists_partition_concrete : forall (T : Type) (det : N -> bool) (ai : atom_info)
    (g : graph) (lvl : nat -> nat) (a : N -> bool) (s : nat -> bool) (fuel cfuel : nat) (t0 : tgt)
    (results : list (T * key)) (tF : tgt) (out : list (list T * key)),
  acyclic_by lvl g -> supported g a s -> (forall id, det id = true -> a id = true) ->
  topo (t_nodes t0) ->
  findall_concrete det ai g fuel cfuel t0 results = Some (tF, out) ->
  exists ps, all_proofs g fuel results = Some ps /\
  ext t0 tF /\ topo (t_nodes tF) /\
  length (filter (fun e => ModelSelectSublist.val (tgt_val a tF) (snd e)) out) = 1 /\
  (forall l node, In (l, node) out -> ModelSelectSublist.val (tgt_val a tF) node = true ->
     l = map p_term (filter (fun p => pval s (p_branch p)) (sort_mx ps))) /\
  (forall t, In t (map p_term (filter (fun p => pval s (p_branch p)) (sort_mx ps))) <->
             exists k, In (t, k) results /\ key_val s k = true).
Proof.
  intros T det ai g lvl a s fuel cfuel t0 results tF out Hac Hs Hd Ht H.
  exact (findall_concrete_partition det ai g a s Hs Hd
           (fun fuel' c bs => eb_sound g lvl Hac a s Hs fuel' [] c bs (fun x (Hx : In x []) => match Hx with end))
           fuel cfuel t0 results tF out Ht H).
Qed.
Print Assumptions C19_findall_lists_partition_concrete.

(* the same for cyclic findall targets: s a model (BoolGraph.is_model) of the private formula;
   copy_node is only ever applied to branch literals (atoms, negated nodes, TRUE) *)
Theorem C19_findall_lists_partition_concrete_cyclic : forall (T : Type) (det : N -> bool) (ai : atom_info)
    (g : graph) (a : N -> bool) (s : nat -> bool) (fuel cfuel : nat) (t0 : tgt)
    (results : list (T * key)) (tF : tgt) (out : list (list T * key)),
  is_model g a s -> (forall id, det id = true -> a id = true) ->
  topo (t_nodes t0) ->
  findall_concrete det ai g fuel cfuel t0 results = Some (tF, out) ->
  exists ps, all_proofs g fuel results = Some ps /\
  ext t0 tF /\ topo (t_nodes tF) /\
  length (filter (fun e => ModelSelectSublist.val (tgt_val a tF) (snd e)) out) = 1 /\
  (forall l node, In (l, node) out -> ModelSelectSublist.val (tgt_val a tF) node = true ->
     l = map p_term (filter (fun p => pval s (p_branch p)) (sort_mx ps))) /\
  (forall t, In t (map p_term (filter (fun p => pval s (p_branch p)) (sort_mx ps))) <->
             exists k, In (t, k) results /\ key_val s k = true).
Proof.
  intros T det ai g a s fuel cfuel t0 results tF out Hm Hd Ht H.
  exact (findall_concrete_partition det ai g a s (model_supported g a s Hm) Hd (eb_equiv_model g a s Hm)
           fuel cfuel t0 results tF out Ht H).
Qed.
Print Assumptions C19_findall_lists_partition_concrete_cyclic.

(* ------------------------------------------------------------------ non-vacuity *)
(* private formula: f0, f1, f0 /\ f1, (f0 /\ f1) \/ ~f0, and a deterministic fact (atom 7);
   results p(10) <- node 4, p(20) <- f1, p(30) <- the deterministic fact; the target already
   holds f1 as node 1 (reused by add_atom) *)
Definition exx_g : graph := [NAtom 0; NAtom 1; NAnd [1; 2]; NOr [3; -1]; NAtom 7]%Z.
Definition exx_results : list (Z * key) := [(10, Some 4); (20, Some 2); (30, Some 5)]%Z.
Definition exx_ai : atom_info := {| ai_group := []; ai_extra_id := [] |}.
Definition exx_t0 : tgt := {| t_nodes := [NAtom 1]; t_groups := [] |}.
Definition exx_det (id : N) : bool := (id =? 7)%N.
Definition exx_a (a0 a1 : bool) (id : N) : bool := if (id =? 0)%N then a0 else if (id =? 1)%N then a1 else true.

Example C19_findall_concrete_example :
  exists tF out,
    findall_concrete exx_det exx_ai exx_g (default_fuel exx_g) (default_fuel exx_g) exx_t0 exx_results = Some (tF, out) /\
    length (t_nodes tF) = 11 /\ length out = 8 /\
    (* the deterministic fact is copied as TRUE: no decision bit for p(30), it is in every list *)
    forallb (fun o => existsb (Z.eqb 30) (fst o)) out = true /\
    forall a0 a1 : bool,
      topo (t_nodes exx_t0) /\ acyclic_by (fun k => k) exx_g /\
      supported exx_g (exx_a a0 a1) (vget (dag_val (exx_a a0 a1) exx_g)) /\
      (forall id, exx_det id = true -> exx_a a0 a1 id = true) /\
      map fst (filter (fun e => ModelSelectSublist.val (tgt_val (exx_a a0 a1) tF) (snd e)) out)
        = [(if negb a0 then [10%Z] else []) ++ (if a1 then [20%Z] else []) ++ (if a0 && a1 then [10%Z] else []) ++ [30%Z]].
Proof.
  eexists. eexists. split; [vm_compute; reflexivity|]. split; [reflexivity|]. split; [reflexivity|].
  split; [vm_compute; reflexivity|]. intros a0 a1.
  assert (Ht : topo exx_g) by (apply topob_sound; reflexivity).
  split; [apply topob_sound; reflexivity|]. split; [apply topo_acyclic; exact Ht|].
  split; [apply dag_val_supported; exact Ht|]. split.
  - intros id Hid. unfold exx_det in Hid. apply N.eqb_eq in Hid. subst. reflexivity.
  - destruct a0, a1; vm_compute; reflexivity.
Qed.

(* copy_node of a negated compound node and of a deterministic atom, into a non-empty target *)
Example C19_copy_node_example :
  copy_node exx_det exx_ai exx_g 3 exx_t0 (-3)%Z
    = Some ({| t_nodes := [NAtom 1; NAtom 0; NAnd [2; 1]%Z]; t_groups := [] |}, Some (-3)%Z) /\
  copy_node exx_det exx_ai exx_g 3 exx_t0 5%Z = Some (exx_t0, kTRUE) /\
  copy_node exx_det exx_ai exx_g 1 exx_t0 (-3)%Z = None.
Proof. vm_compute. repeat split. Qed.
