(* Hand model of problog/engine_builtin.py `_select_sublist(lst, target)`.
   key = node identifier of a LogicFormula: None = FALSE, Some 0 = TRUE,
   Some k / Some (-k) = node k / its negation.  No proofs in this file. *)
From Coq Require Import ZArith NArith List Bool.
Import ListNotations.

Definition key := option Z.
Definition kTRUE : key := Some 0%Z.
Definition kFALSE : key := None.
Definition is_true (k : key) : bool := match k with Some 0%Z => true | _ => false end.
Definition is_false (k : key) : bool := match k with None => true | _ => false end.
(* LogicFormula.negate *)
Definition negate (k : key) : key :=
  match k with None => kTRUE | Some 0%Z => kFALSE | Some z => Some (- z)%Z end.

(* choice_bits: a decision bit for every element that is not deterministically TRUE/FALSE *)
Fixpoint choice_bits {T} (lst : list (T * key)) (x : nat) : list (option nat) :=
  match lst with
  | [] => []
  | (_, k) :: r => if is_true k || is_false k then None :: choice_bits r x
                   else Some x :: choice_bits r (S x)
  end.
Fixpoint nbits {T} (lst : list (T * key)) : nat :=
  match lst with
  | [] => O
  | (_, k) :: r => if is_true k || is_false k then nbits r else S (nbits r)
  end.

Definition selected {T} (n : N) (e : (T * key) * option nat) : bool :=
  match snd e with
  | None => is_true (snd (fst e))
  | Some b => N.testbit n (N.of_nat b)
  end.
Definition unselected {T} (n : N) (e : (T * key) * option nat) : bool :=
  match snd e with
  | None => is_false (snd (fst e))
  | Some b => negb (N.testbit n (N.of_nat b))
  end.

(* one yielded pair: (terms, nodes + sublist_no + (0,)) *)
Definition entry {T} (lst : list (T * key)) (n : N) : list T * list key :=
  let z := combine lst (choice_bits lst 0) in
  let sel := filter (selected n) z in
  (map (fun e => fst (fst e)) sel,
   map (fun e => snd (fst e)) sel ++ map (fun e => negate (snd (fst e))) (filter (unselected n) z) ++ [kTRUE]).

(* n runs from 2^x - 1 down to 0 *)
Definition countdown (x : nat) : list N := map N.of_nat (rev (seq 0 (Nat.pow 2 x))).
Definition select_sublist {T} (lst : list (T * key)) : list (list T * list key) :=
  map (entry lst) (countdown (nbits lst)).

(* truth value of a key under an assignment to the positive node ids *)
Definition val (a : Z -> bool) (k : key) : bool :=
  match k with
  | None => false
  | Some z => if (z =? 0)%Z then true else if (0 <? z)%Z then a z else negb (a (- z)%Z)
  end.
Definition holds (a : Z -> bool) (c : list key) : bool := forallb (val a) c.
