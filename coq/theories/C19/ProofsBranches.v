(* Proofs about ModelBranches.v: enumerate_branches is a DNF of the node, the number of
   branches is the multiplicity, the findall builtin partitions the assignments. *)
From Coq Require Import ZArith NArith List Bool Lia Arith Permutation Sorted.
From PL.C09 Require Import BoolGraph.
From PL.C19 Require Import ModelSelectSublist ProofsSelectSublist ModelBranches.
Import ListNotations.

(* ------------------------------------------------------------------ list helpers *)
Lemma all_some_Forall2 {A B} (f : A -> option B) cs ls :
  all_some (map f cs) = Some ls -> Forall2 (fun c l => f c = Some l) cs ls.
Proof.
  revert ls. induction cs as [|c cs IH]; intros ls H; cbn in H.
  - inversion H. constructor.
  - destruct (f c) eqn:E; [|discriminate].
    destruct (all_some (map f cs)) eqn:E2; [|discriminate].
    inversion H; subst. constructor; auto.
Qed.

Lemma all_some_total {A B} (f : A -> option B) cs :
  (forall c, In c cs -> exists l, f c = Some l) -> exists ls, all_some (map f cs) = Some ls.
Proof.
  induction cs as [|c cs IH]; intros H; cbn.
  - eexists; reflexivity.
  - destruct (H c (or_introl eq_refl)) as [l ->].
    destruct IH as [ls ->]. { intros; apply H; right; assumption. }
    eexists; reflexivity.
Qed.

Lemma existsb_concat {A} (P : A -> bool) ls : existsb P (concat ls) = existsb (existsb P) ls.
Proof. induction ls as [|l ls IH]; cbn; [reflexivity|]. rewrite existsb_app, IH. reflexivity. Qed.

Lemma existsb_flat_map {A B} (P : B -> bool) (f : A -> list B) l :
  existsb P (flat_map f l) = existsb (fun x => existsb P (f x)) l.
Proof. induction l as [|x l IH]; cbn; [reflexivity|]. rewrite existsb_app, IH. reflexivity. Qed.

Lemma existsb_map {A B} (P : B -> bool) (f : A -> B) l : existsb P (map f l) = existsb (fun x => P (f x)) l.
Proof. induction l as [|x l IH]; cbn; [reflexivity|]. rewrite IH. reflexivity. Qed.

Lemma existsb_and_r {A} (P : A -> bool) (c : bool) l : existsb (fun x => P x && c) l = existsb P l && c.
Proof. induction l as [|x l IH]; cbn; [reflexivity|]. rewrite IH. destruct (P x), c, (existsb P l); reflexivity. Qed.

Lemma existsb_and_l {A} (P : A -> bool) (c : bool) l : existsb (fun x => c && P x) l = c && existsb P l.
Proof. induction l as [|x l IH]; cbn; [destruct c; reflexivity|]. rewrite IH. destruct (P x), c, (existsb P l); reflexivity. Qed.

Lemma existsb_ext_in {A} (P Q : A -> bool) l : (forall x, In x l -> P x = Q x) -> existsb P l = existsb Q l.
Proof.
  induction l as [|x l IH]; intros H; cbn; [reflexivity|].
  rewrite (H x (or_introl eq_refl)), IH; [reflexivity|]. intros; apply H; right; assumption.
Qed.

Lemma bval_app s b1 b2 : bval s (b1 ++ b2) = bval s b1 && bval s b2.
Proof. apply forallb_app. Qed.

(* the disjunction over the product of the children's branch lists is the conjunction of
   the children's disjunctions *)
Lemma product_sem s (ls : list (list (Z * branch))) :
  existsb (fun b => bval s (concat (map snd b))) (product ls)
  = forallb (existsb (fun mb => bval s (snd mb))) ls.
Proof.
  induction ls as [|l r IH]; cbn [product forallb]; [reflexivity|].
  rewrite existsb_flat_map.
  rewrite (existsb_ext_in _ (fun x => bval s (snd x) && existsb (fun b => bval s (concat (map snd b))) (product r))).
  - rewrite existsb_and_r, IH. reflexivity.
  - intros x _. rewrite existsb_map. cbn [map concat].
    rewrite (existsb_ext_in _ (fun b => bval s (snd x) && bval s (concat (map snd b)))).
    + apply existsb_and_l.
    + intros b _. apply bval_app.
Qed.

Lemma product_cons_In {A} (l : list A) r b :
  In b (product (l :: r)) -> exists x b', b = x :: b' /\ In x l /\ In b' (product r).
Proof.
  cbn [product]. rewrite in_flat_map. intros (x & Hx & Hb).
  apply in_map_iff in Hb. destruct Hb as (b' & <- & Hb'). eauto.
Qed.

Lemma fold_left_mul_acc l acc : fold_left Nat.mul l acc = acc * fold_left Nat.mul l 1.
Proof.
  revert acc. induction l as [|x l IH]; intros acc; cbn [fold_left]; [lia|].
  rewrite IH, (IH (1 * x)). lia.
Qed.

Lemma fold_left_add_acc l acc : fold_left Nat.add l acc = acc + fold_left Nat.add l 0.
Proof.
  revert acc. induction l as [|x l IH]; intros acc; cbn [fold_left]; [lia|].
  rewrite IH, (IH (0 + x)). lia.
Qed.

Lemma length_flat_map_const {A B} (f : A -> list B) l n :
  (forall x, length (f x) = n) -> length (flat_map f l) = length l * n.
Proof. intros H. induction l as [|x l IH]; cbn; [reflexivity|]. rewrite app_length, H, IH. lia. Qed.

Lemma length_product {A} (ls : list (list A)) :
  length (product ls) = fold_left Nat.mul (map (@length A) ls) 1.
Proof.
  induction ls as [|l r IH]; cbn [product map fold_left]; [reflexivity|].
  rewrite (length_flat_map_const _ _ (length (product r))) by (intros; apply map_length).
  rewrite fold_left_mul_acc, IH. lia.
Qed.

Lemma length_concat_sum {A} (ls : list (list A)) :
  length (concat ls) = fold_left Nat.add (map (@length A) ls) 0.
Proof.
  induction ls as [|l r IH]; cbn [concat map fold_left]; [reflexivity|].
  rewrite app_length, fold_left_add_acc, IH. lia.
Qed.

(* ------------------------------------------------------------------ enumerate_branches *)
Section Branches.
Variables (g : graph) (lvl : nat -> nat).
Hypothesis Hac : acyclic_by lvl g.

Definition above (anc : list Z) (index : Z) : Prop :=
  forall x, In x anc -> lvl (key_of index) < lvl (key_of x).

Lemma guard_silent anc index : above anc index -> zmem index anc = false.
Proof.
  intros H. destruct (zmem index anc) eqn:E; [|reflexivity].
  apply existsb_exists in E. destruct E as (x & Hx & Ex). apply Z.eqb_eq in Ex. subst x.
  specialize (H _ Hx). lia.
Qed.

Lemma above_child anc p nd c :
  above anc (Zpos p) -> node_at g (Pos.to_nat p) = Some nd -> In c (children nd) ->
  above (anc ++ [Zpos p]) c.
Proof.
  intros H N Hc x Hx. pose proof (Hac _ _ _ N Hc) as L.
  apply in_app_or in Hx. destruct Hx as [Hx|[<-|[]]].
  - specialize (H _ Hx). rewrite key_of_pos in H. lia.
  - rewrite key_of_pos. exact L.
Qed.

(* shape of one unfolding, to keep the case analysis in one place *)
Lemma eb_unfold f anc index :
  eb g (S f) anc index =
  if zmem index anc then Some []
  else match index with
       | Z0 => Some [(0%Z, [0%Z])]
       | Zneg _ => Some [(index, [index])]
       | Zpos p =>
         match node_at g (Pos.to_nat p) with
         | None => None
         | Some (NAtom _) => Some [(index, [index])]
         | Some (NAnd cs) =>
           match cs with
           | [] => None
           | _ => match all_some (map (eb g f (anc ++ [index])) cs) with
                  | None => None
                  | Some ls => Some (map (conj_branch index) (product ls))
                  end
           end
         | Some (NOr cs) =>
           match all_some (map (eb g f (anc ++ [index])) cs) with
           | None => None
           | Some ls => Some (concat ls)
           end
         end
       end.
Proof. reflexivity. Qed.

Section Sound.
Variables (a : N -> bool) (s : nat -> bool).
Hypothesis Hs : supported g a s.

Lemma s_node p nd : node_at g (Pos.to_nat p) = Some nd -> s (Pos.to_nat p) = eval_node a (lit_val s) nd.
Proof. intros N. rewrite (Hs (Pos.to_nat p)), N. reflexivity. Qed.

Lemma Forall2_forallb cs (ls : list (list (Z * branch))) :
  Forall2 (fun c l => existsb (fun mb => bval s (snd mb)) l = lit_val s c) cs ls ->
  forallb (existsb (fun mb => bval s (snd mb))) ls = forallb (lit_val s) cs.
Proof. induction 1 as [|c l cs ls H _ IH]; cbn; [reflexivity|]. rewrite H, IH. reflexivity. Qed.

Lemma Forall2_existsb cs (ls : list (list (Z * branch))) :
  Forall2 (fun c l => existsb (fun mb => bval s (snd mb)) l = lit_val s c) cs ls ->
  existsb (existsb (fun mb => bval s (snd mb))) ls = existsb (lit_val s) cs.
Proof. induction 1 as [|c l cs ls H _ IH]; cbn; [reflexivity|]. rewrite H, IH. reflexivity. Qed.

(* the disjunction of the enumerated branches is equivalent to the node *)
Lemma eb_sound : forall fuel anc index bs,
  above anc index -> eb g fuel anc index = Some bs ->
  existsb (fun mb => bval s (snd mb)) bs = lit_val s index.
Proof.
  induction fuel as [|f IH]; intros anc index bs Hab H; [discriminate|].
  rewrite eb_unfold, (guard_silent _ _ Hab) in H.
  destruct index as [|p|p].
  - inversion H; subst. reflexivity.
  - destruct (node_at g (Pos.to_nat p)) as [nd|] eqn:N; [|discriminate].
    cbn [lit_val]. rewrite (s_node _ _ N).
    assert (CH : forall cs ls, children nd = cs ->
                 all_some (map (eb g f (anc ++ [Z.pos p])) cs) = Some ls ->
                 Forall2 (fun c l => existsb (fun mb => bval s (snd mb)) l = lit_val s c) cs ls).
    { intros cs ls Ecs Hls. apply all_some_Forall2 in Hls.
      assert (forall c, In c cs -> above (anc ++ [Z.pos p]) c) as Hcs.
      { intros c Hc. apply (above_child anc p nd c Hab N). rewrite Ecs. exact Hc. }
      clear Ecs. induction Hls as [|c l cs ls Hc _ IHl]; constructor.
      - apply (IH _ _ _ (Hcs c (or_introl eq_refl)) Hc).
      - apply IHl. intros; apply Hcs; right; assumption. }
    destruct nd as [id|cs|cs].
    + inversion H; subst. cbn. rewrite andb_true_r, orb_false_r. rewrite (s_node _ _ N). reflexivity.
    + destruct cs as [|c0 cs0]; [discriminate|]. set (cs := c0 :: cs0) in *.
      destruct (all_some (map (eb g f (anc ++ [Z.pos p])) cs)) as [ls|] eqn:Els; [|discriminate].
      inversion H; subst bs. rewrite existsb_map. cbn [conj_branch snd eval_node].
      rewrite product_sem. apply Forall2_forallb. apply CH; [reflexivity|assumption].
    + destruct (all_some (map (eb g f (anc ++ [Z.pos p])) cs)) as [ls|] eqn:Els; [|discriminate].
      inversion H; subst bs. rewrite existsb_concat. cbn [eval_node].
      apply Forall2_existsb. apply CH; [reflexivity|assumption].
  - inversion H; subst. cbn [existsb bval forallb snd]. rewrite andb_true_r, orb_false_r. reflexivity.
Qed.
End Sound.

(* on an acyclic graph no branch is empty (the empty branch only comes from the cycle guard
   and from the FALSE key) *)
Lemma eb_nonempty : forall fuel anc index bs,
  above anc index -> eb g fuel anc index = Some bs -> forall mb, In mb bs -> snd mb <> [].
Proof.
  induction fuel as [|f IH]; intros anc index bs Hab H; [discriminate|].
  rewrite eb_unfold, (guard_silent _ _ Hab) in H.
  destruct index as [|p|p].
  - inversion H; subst. intros mb [<-|[]]. discriminate.
  - destruct (node_at g (Pos.to_nat p)) as [nd|] eqn:N; [|discriminate].
    assert (CH : forall cs ls, children nd = cs ->
                 all_some (map (eb g f (anc ++ [Z.pos p])) cs) = Some ls ->
                 Forall (fun l => forall mb, In mb l -> snd mb <> []) ls).
    { intros cs ls Ecs Hls. apply all_some_Forall2 in Hls.
      assert (forall c, In c cs -> above (anc ++ [Z.pos p]) c) as Hcs.
      { intros c Hc. apply (above_child anc p nd c Hab N). rewrite Ecs. exact Hc. }
      clear Ecs. induction Hls as [|c l cs ls Hc _ IHl]; constructor.
      - apply (IH _ _ _ (Hcs c (or_introl eq_refl)) Hc).
      - apply IHl. intros; apply Hcs; right; assumption. }
    destruct nd as [id|cs|cs].
    + inversion H; subst. intros mb [<-|[]]. discriminate.
    + destruct cs as [|c0 cs0]; [discriminate|]. set (cs := c0 :: cs0) in *.
      destruct (all_some (map (eb g f (anc ++ [Z.pos p])) cs)) as [ls|] eqn:Els; [|discriminate].
      inversion H; subst bs. intros mb Hmb. apply in_map_iff in Hmb. destruct Hmb as (b & <- & Hb).
      specialize (CH cs ls eq_refl Els).
      destruct ls as [|l r]. { apply all_some_Forall2 in Els. inversion Els. }
      apply product_cons_In in Hb. destruct Hb as (x & b' & -> & Hx & _).
      inversion CH as [|? ? Hl _]; subst. specialize (Hl x Hx).
      cbn [conj_branch snd map concat]. intros E. apply app_eq_nil in E. destruct E as [E _]. exact (Hl E).
    + destruct (all_some (map (eb g f (anc ++ [Z.pos p])) cs)) as [ls|] eqn:Els; [|discriminate].
      inversion H; subst bs. intros mb Hmb. apply in_concat in Hmb. destruct Hmb as (l & Hl & Hmb).
      specialize (CH cs ls eq_refl Els). rewrite Forall_forall in CH. exact (CH l Hl mb Hmb).
  - inversion H; subst. intros mb [<-|[]]. discriminate.
Qed.

(* number of branches = get_node_multiplicity *)
Lemma eb_length_mult : forall fuel anc index bs fuel2 m,
  above anc index -> eb g fuel anc index = Some bs -> mult g fuel2 index = Some m -> length bs = m.
Proof.
  induction fuel as [|f IH]; intros anc index bs fuel2 m Hab H M; [discriminate|].
  destruct fuel2 as [|f2]; [discriminate|].
  rewrite eb_unfold, (guard_silent _ _ Hab) in H. cbn [mult] in M.
  destruct index as [|p|p].
  - inversion H; inversion M; subst. reflexivity.
  - destruct (node_at g (Pos.to_nat p)) as [nd|] eqn:N; [|discriminate].
    assert (CH : forall cs ls ms, children nd = cs ->
                 all_some (map (eb g f (anc ++ [Z.pos p])) cs) = Some ls ->
                 all_some (map (mult g f2) cs) = Some ms -> map (@length _) ls = ms).
    { intros cs ls ms Ecs Hls Hms. apply all_some_Forall2 in Hls. apply all_some_Forall2 in Hms.
      assert (forall c, In c cs -> above (anc ++ [Z.pos p]) c) as Hcs.
      { intros c Hc. apply (above_child anc p nd c Hab N). rewrite Ecs. exact Hc. }
      clear Ecs. revert ms Hms. induction Hls as [|c l cs ls Hc _ IHl]; intros ms Hms; inversion Hms; subst; [reflexivity|].
      cbn [map]. f_equal.
      - match goal with HM : mult g f2 c = Some _ |- _ =>
          exact (IH (anc ++ [Z.pos p]) c l f2 _ (Hcs c (or_introl eq_refl)) Hc HM) end.
      - apply IHl; [|assumption]. intros; apply Hcs; right; assumption. }
    destruct nd as [id|cs|cs].
    + inversion H; inversion M; subst. reflexivity.
    + destruct cs as [|c0 cs0]; [discriminate|]. set (cs := c0 :: cs0) in *.
      destruct (all_some (map (eb g f (anc ++ [Z.pos p])) cs)) as [ls|] eqn:Els; [|discriminate].
      destruct (all_some (map (mult g f2) cs)) as [ms|] eqn:Ems; [|discriminate].
      inversion H; inversion M; subst. rewrite map_length, length_product.
      rewrite (CH cs ls ms eq_refl Els Ems). reflexivity.
    + destruct (all_some (map (eb g f (anc ++ [Z.pos p])) cs)) as [ls|] eqn:Els; [|discriminate].
      destruct (all_some (map (mult g f2) cs)) as [ms|] eqn:Ems; [|discriminate].
      inversion H; inversion M; subst. rewrite length_concat_sum.
      rewrite (CH cs ls ms eq_refl Els Ems). reflexivity.
  - destruct (node_at g (Pos.to_nat p)); [|discriminate]. inversion H; inversion M; subst. reflexivity.
Qed.

(* totality: on a closed acyclic graph without empty conjunctions enough fuel always suffices *)
Definition no_empty_and (g0 : graph) : Prop := ~ In (NAnd []) g0.

Lemma eb_total : closed_graph g -> no_empty_and g -> forall fuel anc index,
  above anc index -> key_of index <= length g -> lvl (key_of index) < fuel ->
  exists bs, eb g fuel anc index = Some bs.
Proof.
  intros Hcl Hne. induction fuel as [|f IH]; intros anc index Hab Hk Hf; [lia|].
  rewrite eb_unfold, (guard_silent _ _ Hab).
  destruct index as [|p|p]; [eexists; reflexivity| |eexists; reflexivity].
  rewrite key_of_pos in *.
  destruct (node_at g (Pos.to_nat p)) as [nd|] eqn:N.
  2:{ apply node_at_None in N. lia. }
  assert (CH : exists ls, all_some (map (eb g f (anc ++ [Z.pos p])) (children nd)) = Some ls).
  { apply all_some_total. intros c Hc. apply IH.
    - apply (above_child anc p nd c Hab N Hc).
    - apply node_at_Some in N. destruct N as [_ N]. apply (Hcl _ _ N Hc).
    - pose proof (Hac _ _ _ N Hc). lia. }
  destruct nd as [id|cs|cs]; cbn [children] in CH.
  - eexists; reflexivity.
  - destruct cs as [|c0 cs0].
    + exfalso. apply Hne. apply node_at_Some in N. apply N.
    + destruct CH as [ls ->]. eexists; reflexivity.
  - destruct CH as [ls ->]. eexists; reflexivity.
Qed.

(* ------------------------------------------------------------------ cyclic formulas
   (the repaired guard yields NO branch for a recursive call on the current path) *)
Lemma in_Forall2_l {A B} (R : A -> B -> Prop) l1 l2 x :
  Forall2 R l1 l2 -> In x l1 -> exists y, In y l2 /\ R x y.
Proof.
  induction 1 as [|a b l1 l2 Hab _ IH]; intros Hin; [destruct Hin|].
  destruct Hin as [<-|Hin]; [exists b; split; [left; reflexivity|assumption]|].
  destruct (IH Hin) as (y & Hy & Hr). exists y. split; [right; assumption|assumption].
Qed.

(* no branch is empty, on any graph *)
Lemma eb_nonempty_gen : forall fuel anc index bs,
  eb g fuel anc index = Some bs -> forall mb, In mb bs -> snd mb <> [].
Proof.
  induction fuel as [|f IH]; intros anc index bs H; [discriminate|].
  rewrite eb_unfold in H. destruct (zmem index anc). { inversion H; subst. intros mb []. }
  destruct index as [|p|p].
  - inversion H; subst. intros mb [<-|[]]. discriminate.
  - destruct (node_at g (Pos.to_nat p)) as [nd|] eqn:N; [|discriminate].
    destruct nd as [id|cs|cs].
    + inversion H; subst. intros mb [<-|[]]. discriminate.
    + destruct cs as [|c0 cs0]; [discriminate|]. set (cs := c0 :: cs0) in *.
      destruct (all_some (map (eb g f (anc ++ [Z.pos p])) cs)) as [ls|] eqn:Els; [|discriminate].
      inversion H; subst bs. intros mb Hmb. apply in_map_iff in Hmb. destruct Hmb as (b & <- & Hb).
      apply all_some_Forall2 in Els.
      destruct ls as [|l r]; [inversion Els|].
      apply product_cons_In in Hb. destruct Hb as (x & b' & -> & Hx & _).
      inversion Els as [|? ? ? ? Hc0 _]; subst.
      pose proof (IH _ _ _ Hc0 x Hx) as Hl.
      cbn [conj_branch snd map concat]. intros E. apply app_eq_nil in E. destruct E as [E _]. exact (Hl E).
    + destruct (all_some (map (eb g f (anc ++ [Z.pos p])) cs)) as [ls|] eqn:Els; [|discriminate].
      inversion H; subst bs. intros mb Hmb. apply in_concat in Hmb. destruct Hmb as (l & Hl & Hmb).
      apply all_some_Forall2 in Els.
      assert (exists c, eb g f (anc ++ [Z.pos p]) c = Some l) as [c Hc].
      { clear - Els Hl. induction Els as [|c l' cs' ls' Hc _ IHl]; [destruct Hl|].
        destruct Hl as [<-|Hl]; [eauto|auto]. }
      exact (IH _ _ _ Hc mb Hmb).
  - inversion H; subst. intros mb [<-|[]]. discriminate.
Qed.

Section Cyclic.
Variables (a : N -> bool) (s : nat -> bool).

(* soundness: a true branch makes the node true, under every supported valuation, on every graph *)
Lemma eb_sound_gen : supported g a s -> forall fuel anc index bs,
  eb g fuel anc index = Some bs ->
  existsb (fun mb => bval s (snd mb)) bs = true -> lit_val s index = true.
Proof.
  intros Hs. induction fuel as [|f IH]; intros anc index bs H Hb; [discriminate|].
  rewrite eb_unfold in H. destruct (zmem index anc). { inversion H; subst. discriminate. }
  destruct index as [|p|p].
  - reflexivity.
  - destruct (node_at g (Pos.to_nat p)) as [nd|] eqn:N; [|discriminate].
    cbn [lit_val]. rewrite (s_node a s Hs _ _ N).
    destruct nd as [id|cs|cs].
    + inversion H; subst. cbn in Hb. rewrite andb_true_r, orb_false_r in Hb.
      rewrite (s_node a s Hs _ _ N) in Hb. exact Hb.
    + destruct cs as [|c0 cs0]; [discriminate|]. set (cs := c0 :: cs0) in *.
      destruct (all_some (map (eb g f (anc ++ [Z.pos p])) cs)) as [ls|] eqn:Els; [|discriminate].
      inversion H; subst bs. rewrite existsb_map in Hb. cbn [conj_branch snd] in Hb.
      rewrite product_sem in Hb. cbn [eval_node]. apply all_some_Forall2 in Els.
      clear H N. induction Els as [|c l cs' ls' Hc _ IHl]; [reflexivity|].
      cbn [forallb] in *. apply andb_true_iff in Hb. destruct Hb as [H1 H2].
      rewrite (IH _ _ _ Hc H1), (IHl H2). reflexivity.
    + destruct (all_some (map (eb g f (anc ++ [Z.pos p])) cs)) as [ls|] eqn:Els; [|discriminate].
      inversion H; subst bs. rewrite existsb_concat in Hb. cbn [eval_node]. apply all_some_Forall2 in Els.
      clear H N. induction Els as [|c l cs' ls' Hc _ IHl]; [discriminate|].
      cbn [existsb] in *. apply orb_true_iff in Hb. destruct Hb as [H1|H2].
      * rewrite (IH _ _ _ Hc H1). reflexivity.
      * rewrite (IHl H2). apply orb_true_r.
  - inversion H; subst. cbn in Hb. rewrite andb_true_r, orb_false_r in Hb. exact Hb.
Qed.

(* completeness w.r.t. the least model of the reduct: a node that becomes true at Kleene stage n
   has a proof that never revisits a node (its sub-proofs become true strictly earlier), and the
   guard only cuts proofs that revisit a node *)
Hypothesis Hm : is_model g a s.

Lemma stage_le_model n k : fiter g a s noblk n k = true -> s k = true.
Proof.
  intros H. rewrite (Hm k). destruct (Nat.le_gt_cases n (length g)) as [L|L].
  - exact (fiter_mono_le g a s noblk n (length g) L k H).
  - rewrite <- (lfpf_stable_more g a s noblk n k) by lia. exact H.
Qed.

Definition anc_ok (n : nat) (anc : list Z) : Prop :=
  forall x, In x anc -> (0 < x)%Z /\ fiter g a s noblk n (key_of x) = false.

Lemma anc_ok_down n anc : anc_ok (S n) anc -> anc_ok n anc.
Proof.
  intros H x Hx. destruct (H x Hx) as [P F]. split; [exact P|].
  destruct (fiter g a s noblk n (key_of x)) eqn:E; [|reflexivity].
  apply (fiter_chain g a s noblk n) in E. congruence.
Qed.

Lemma eb_complete_nonpos n fuel anc index bs :
  anc_ok n anc -> (index <= 0)%Z -> eb g fuel anc index = Some bs ->
  rlit_val s (fiter g a s noblk n) index = true ->
  existsb (fun mb => bval s (snd mb)) bs = true.
Proof.
  intros Ha Hi H Hv. destruct fuel as [|f]; [discriminate|]. rewrite eb_unfold in H.
  assert (zmem index anc = false) as G.
  { destruct (zmem index anc) eqn:E; [|reflexivity]. apply existsb_exists in E.
    destruct E as (x & Hx & Ex). apply Z.eqb_eq in Ex. subst x. destruct (Ha _ Hx). lia. }
  rewrite G in H. destruct index as [|p|p]; [|lia|].
  - inversion H; subst. reflexivity.
  - inversion H; subst. cbn in *. rewrite Hv. reflexivity.
Qed.

Lemma eb_complete_n : forall n fuel anc index bs,
  anc_ok n anc -> eb g fuel anc index = Some bs ->
  rlit_val s (fiter g a s noblk n) index = true ->
  existsb (fun mb => bval s (snd mb)) bs = true.
Proof.
  induction n as [|n IHn]; intros fuel anc index bs Ha H Hv.
  - destruct index as [|p|p].
    + apply (eb_complete_nonpos 0 fuel anc 0%Z bs Ha); [lia|assumption|assumption].
    + discriminate.
    + apply (eb_complete_nonpos 0 fuel anc (Z.neg p) bs Ha); [lia|assumption|assumption].
  - destruct index as [|p|p].
    + apply (eb_complete_nonpos (S n) fuel anc 0%Z bs Ha); [lia|assumption|assumption].
    + cbn [rlit_val] in Hv.
      destruct (fiter g a s noblk n (Pos.to_nat p)) eqn:Ep.
      { apply (IHn fuel anc (Z.pos p) bs (anc_ok_down _ _ Ha) H). exact Ep. }
      destruct fuel as [|f]; [discriminate|]. rewrite eb_unfold in H.
      assert (zmem (Z.pos p) anc = false) as G.
      { destruct (zmem (Z.pos p) anc) eqn:E; [|reflexivity]. apply existsb_exists in E.
        destruct E as (x & Hx & Ex). apply Z.eqb_eq in Ex. subst x. destruct (Ha _ Hx) as [_ F].
        rewrite key_of_pos in F. congruence. }
      rewrite G in H.
      assert (Ha' : anc_ok n (anc ++ [Z.pos p])).
      { intros x Hx. apply in_app_or in Hx. destruct Hx as [Hx|[<-|[]]].
        - exact (anc_ok_down _ _ Ha x Hx).
        - split; [lia|]. rewrite key_of_pos. exact Ep. }
      pose proof Hv as Hv'. cbn [fiter] in Hv'. unfold fstep in Hv'.
      destruct (node_at g (Pos.to_nat p)) as [nd|] eqn:N; [|discriminate].
      cbn [noblk] in Hv'.
      destruct nd as [id|cs|cs].
      * inversion H; subst. cbn. rewrite (stage_le_model (S n) _ Hv). reflexivity.
      * destruct cs as [|c0 cs0]; [discriminate|]. set (cs := c0 :: cs0) in *.
        destruct (all_some (map (eb g f (anc ++ [Z.pos p])) cs)) as [ls|] eqn:Els; [|discriminate].
        inversion H; subst bs. rewrite existsb_map. cbn [conj_branch snd]. rewrite product_sem.
        cbn [eval_node] in Hv'. apply all_some_Forall2 in Els.
        clear H N G. induction Els as [|c l cs' ls' Hc _ IHl]; [reflexivity|].
        cbn [forallb] in *. apply andb_true_iff in Hv'. destruct Hv' as [H1 H2].
        rewrite (IHn _ _ _ _ Ha' Hc H1), (IHl H2). reflexivity.
      * destruct (all_some (map (eb g f (anc ++ [Z.pos p])) cs)) as [ls|] eqn:Els; [|discriminate].
        inversion H; subst bs. rewrite existsb_concat.
        cbn [eval_node] in Hv'. apply all_some_Forall2 in Els.
        clear H N G. induction Els as [|c l cs' ls' Hc _ IHl]; [discriminate|].
        cbn [existsb] in *. apply orb_true_iff in Hv'. destruct Hv' as [H1|H2].
        -- rewrite (IHn _ _ _ _ Ha' Hc H1). reflexivity.
        -- rewrite (IHl H2). apply orb_true_r.
    + apply (eb_complete_nonpos (S n) fuel anc (Z.neg p) bs Ha); [lia|assumption|assumption].
Qed.

(* on EVERY graph (cyclic included): the disjunction of the branches is the value of the node in
   the (stable / least) model *)
Lemma eb_equiv_model fuel c bs :
  eb g fuel [] c = Some bs -> existsb (fun mb => bval s (snd mb)) bs = lit_val s c.
Proof.
  intros H. destruct (lit_val s c) eqn:V.
  - apply (eb_complete_n (length g) fuel [] c bs); [intros x []|exact H|].
    destruct c as [|p|p]; cbn in *; [reflexivity| |exact V].
    rewrite <- V. symmetry. apply (Hm (Pos.to_nat p)).
  - destruct (existsb (fun mb => bval s (snd mb)) bs) eqn:E; [|reflexivity].
    rewrite (eb_sound_gen (model_supported g a s Hm) fuel [] c bs H E) in V. discriminate.
Qed.
End Cyclic.
End Branches.

(* ------------------------------------------------------------------ the sort by mx *)
Lemma insert_mx_perm {T} (x : proof T) l : Permutation (insert_mx x l) (x :: l).
Proof.
  induction l as [|y r IH]; cbn [insert_mx]; [reflexivity|].
  destruct (p_mx x <=? p_mx y)%Z; [reflexivity|].
  rewrite IH. apply perm_swap.
Qed.

Lemma sort_mx_perm {T} (l : list (proof T)) : Permutation (sort_mx l) l.
Proof.
  induction l as [|x l IH]; cbn [sort_mx fold_right]; [reflexivity|].
  rewrite insert_mx_perm. constructor. exact IH.
Qed.

Definition mx_le {T} (x y : proof T) : Prop := (p_mx x <= p_mx y)%Z.

Lemma insert_mx_sorted {T} (x : proof T) l : Sorted mx_le l -> Sorted mx_le (insert_mx x l).
Proof.
  induction 1 as [|y r Hs IH Hh]; cbn [insert_mx]; [repeat constructor|].
  destruct (p_mx x <=? p_mx y)%Z eqn:E.
  - constructor; [constructor; assumption|]. constructor. unfold mx_le. lia.
  - constructor; [exact IH|].
    destruct r as [|z r']; cbn [insert_mx].
    + constructor. unfold mx_le. lia.
    + destruct (p_mx x <=? p_mx z)%Z; constructor; unfold mx_le; [lia|].
      inversion Hh; assumption.
Qed.

Lemma sort_mx_sorted {T} (l : list (proof T)) : Sorted mx_le (sort_mx l).
Proof.
  induction l as [|x l IH]; cbn [sort_mx fold_right]; [constructor|].
  apply insert_mx_sorted. exact IH.
Qed.

(* stability: the proofs with one and the same mx keep their relative order *)
Lemma insert_mx_stable {T} (x : proof T) l m :
  filter (fun p => (p_mx p =? m)%Z) (insert_mx x l) = filter (fun p => (p_mx p =? m)%Z) (x :: l).
Proof.
  induction l as [|y r IH]; cbn [insert_mx]; [reflexivity|].
  destruct (p_mx x <=? p_mx y)%Z eqn:E; [reflexivity|].
  cbn [filter] in *. rewrite IH.
  destruct (p_mx x =? m)%Z eqn:Ex, (p_mx y =? m)%Z eqn:Ey; try reflexivity. lia.
Qed.

Lemma sort_mx_stable {T} (l : list (proof T)) m :
  filter (fun p => (p_mx p =? m)%Z) (sort_mx l) = filter (fun p => (p_mx p =? m)%Z) l.
Proof.
  induction l as [|x l IH]; cbn [sort_mx fold_right]; [reflexivity|].
  rewrite insert_mx_stable. cbn [filter]. fold (sort_mx l). rewrite IH. reflexivity.
Qed.

(* ------------------------------------------------------------------ counting the satisfied entry *)
Lemma count_unique {A} (P Q : A -> bool) (l : list A) x :
  NoDup l -> In x l -> P x = true -> (forall y, In y l -> P y = true -> y = x) ->
  length (filter (fun y => Q y && P y) l) = if Q x then 1 else 0.
Proof.
  induction 1 as [|z l Hz Hnd IH]; intros Hin Px Hu; [destruct Hin|].
  cbn [filter]. destruct Hin as [->|Hin].
  - rewrite Px, andb_true_r.
    assert (filter (fun y => Q y && P y) l = []) as ->.
    { clear IH. induction l as [|w l IHl]; [reflexivity|]. cbn [filter].
      destruct (P w) eqn:Pw.
      - exfalso. apply Hz. left. apply Hu; [right; left; reflexivity|assumption].
      - rewrite andb_false_r. apply IHl.
        + intros H. apply Hz. right. assumption.
        + inversion Hnd; assumption.
        + intros y Hy. apply Hu. destruct Hy as [->|Hy]; [left; reflexivity|right; right; assumption]. }
    destruct (Q x); reflexivity.
  - assert (P z = false) as ->.
    { destruct (P z) eqn:Pz; [|reflexivity]. exfalso. apply Hz.
      rewrite (Hu z (or_introl eq_refl) Pz). assumption. }
    rewrite andb_false_r. apply IH; auto. intros y Hy. apply Hu. right. assumption.
Qed.

Lemma filter_map_swap {A B} (P : B -> bool) (f : A -> B) l :
  filter P (map f l) = map f (filter (fun x => P (f x)) l).
Proof. induction l as [|x l IH]; cbn; [reflexivity|]. destruct (P (f x)); cbn; rewrite IH; reflexivity. Qed.

Lemma filter_filter {A} (P Q : A -> bool) l : filter P (filter Q l) = filter (fun x => Q x && P x) l.
Proof. induction l as [|x l IH]; cbn; [reflexivity|]. destruct (Q x); cbn; [destruct (P x)|]; rewrite IH; reflexivity. Qed.

Lemma val_not_false (tv : Z -> bool) k : val tv k = true -> negb (is_false k) = true.
Proof. destruct k; [reflexivity|discriminate]. Qed.

(* the entries of _select_sublist that pass an extra test Q and whose constraint holds *)
Lemma select_count {T} (tv : Z -> bool) (lst : list (T * key)) (Q : list T * list key -> bool) :
  exists n, (n < 2 ^ N.of_nat (nbits lst))%N /\ holds tv (snd (entry lst n)) = true /\
    length (filter (fun e => Q e && holds tv (snd e)) (select_sublist lst)) = if Q (entry lst n) then 1 else 0.
Proof.
  destruct (partition_exists tv lst) as (n & Hn & Hh). exists n. split; [assumption|]. split; [assumption|].
  unfold select_sublist. rewrite filter_map_swap, map_length.
  apply (count_unique (fun m => holds tv (snd (entry lst m))) (fun m => Q (entry lst m))).
  - apply countdown_nodup.
  - apply countdown_spec. assumption.
  - assumption.
  - intros m Hm Hhm. apply countdown_spec in Hm. apply (partition_unique tv lst m n Hm Hn Hhm Hh).
Qed.

Lemma select_holds_list {T} (tv : Z -> bool) (lst : list (T * key)) e :
  In e (select_sublist lst) -> holds tv (snd e) = true ->
  fst e = map fst (filter (fun x => val tv (snd x)) lst).
Proof.
  unfold select_sublist. rewrite in_map_iff. intros (n & <- & _) H. apply selected_sublist. exact H.
Qed.

(* ------------------------------------------------------------------ findall/3 *)
Section Findall.
Context {T : Type}.
Variables (tv : Z -> bool) (cn : list key -> key).
(* target.add_and(n) has the value of the conjunction of n (builder property), for the
   constraint lists that _select_sublist yields on lst *)
Definition cn_ok (lst : list (T * key)) : Prop :=
  forall e, In e (select_sublist lst) -> val tv (cn (snd e)) = holds tv (snd e).

Lemma out_filter (Q : list T * list key -> bool) (lst : list (T * key)) : cn_ok lst ->
  filter (fun e => val tv (snd e))
         (map (fun e => (fst e, cn (snd e)))
              (filter (fun e => Q e && negb (is_false (cn (snd e)))) (select_sublist lst)))
  = map (fun e => (fst e, cn (snd e)))
        (filter (fun e => Q e && holds tv (snd e)) (select_sublist lst)).
Proof.
  intros Hcn. rewrite filter_map_swap. cbn [snd]. rewrite filter_filter. f_equal.
  apply filter_ext_in. intros e He. rewrite (Hcn e He).
  destruct (holds tv (snd e)) eqn:H.
  - rewrite <- (Hcn e He) in H. rewrite (val_not_false _ _ H). destruct (Q e); reflexivity.
  - rewrite !andb_false_r. reflexivity.
Qed.

Lemma findall_out_spec (lst : list (T * key)) : cn_ok lst ->
  length (filter (fun e => val tv (snd e)) (findall_out cn lst)) = 1 /\
  (forall l node, In (l, node) (findall_out cn lst) -> val tv node = true ->
     l = map fst (filter (fun x => val tv (snd x)) lst)).
Proof.
  intros Hcn. split.
  - unfold findall_out.
    pose proof (out_filter (fun _ => true) lst Hcn) as E. cbn [andb] in E. rewrite E, map_length.
    destruct (select_count tv lst (fun _ => true)) as (n & _ & _ & C). exact C.
  - unfold findall_out. intros l node Hin Hv. apply in_map_iff in Hin.
    destruct Hin as (e & E & He). inversion E; subst. apply filter_In in He. destruct He as [He _].
    apply (select_holds_list tv lst e He). rewrite <- (Hcn e He). exact Hv.
Qed.

Lemma all_out_spec (allow_none : bool) (lst : list (T * key)) : cn_ok lst ->
  length (filter (fun e => val tv (snd e)) (all_out allow_none cn lst))
    = (if allow_none || existsb (fun x => val tv (snd x)) lst then 1 else 0) /\
  (forall l node, In (l, node) (all_out allow_none cn lst) -> val tv node = true ->
     l = map fst (filter (fun x => val tv (snd x)) lst)).
Proof.
  intros Hcn. split.
  - unfold all_out.
    rewrite (out_filter (fun e => allow_none || negb (match fst e with [] => true | _ => false end)) lst Hcn), map_length.
    destruct (select_count tv lst (fun e => allow_none || negb (match fst e with [] => true | _ => false end)))
      as (n & _ & Hh & C).
    rewrite C. rewrite (selected_sublist tv lst n Hh).
    replace (negb match map fst (filter (fun e => val tv (snd e)) lst) with [] => true | _ :: _ => false end)
      with (existsb (fun x => val tv (snd x)) lst); [reflexivity|].
    clear. induction lst as [|x r IH]; cbn; [reflexivity|]. destruct (val tv (snd x)); cbn; [reflexivity|exact IH].
  - unfold all_out. intros l node Hin Hv. apply in_map_iff in Hin.
    destruct Hin as (e & E & He). inversion E; subst. apply filter_In in He. destruct He as [He _].
    apply (select_holds_list tv lst e He). rewrite <- (Hcn e He). exact Hv.
Qed.

Variables (g : graph) (s : nat -> bool) (pn : branch -> key).
(* the branches of every node are a DNF of the node under s: holds for acyclic g and supported s
   (eb_sound) and for any g and a (stable / least) model s (eb_equiv_model) *)
Hypothesis Hdnf : forall fuel c bs,
  eb g fuel [] c = Some bs -> existsb (fun mb => bval s (snd mb)) bs = lit_val s c.

Lemma eb_key_sound fuel k bs :
  eb_key g fuel k = Some bs -> existsb (fun mb => pval s (snd mb)) bs = key_val s k.
Proof.
  destruct k as [c|]; cbn [eb_key key_val]; intros H.
  - rewrite <- (Hdnf fuel c bs H).
    apply existsb_ext_in. intros mb Hmb.
    pose proof (eb_nonempty_gen g fuel [] c bs H mb Hmb) as Hne.
    unfold pval. destruct (snd mb); [congruence|reflexivity].
  - inversion H; subst. reflexivity.
Qed.

Lemma all_proofs_In fuel (results : list (T * key)) ps :
  all_proofs g fuel results = Some ps ->
  forall p, In p ps <-> exists t k bs mb, In (t, k) results /\ eb_key g fuel k = Some bs /\ In mb bs /\
                                    p = (fst mb, t, snd mb).
Proof.
  revert ps. induction results as [|[t k] r IH]; intros ps H p; cbn [all_proofs] in H.
  - inversion H; subst. split; [intros []|]. intros (t & k & bs & mb & [] & _).
  - destruct (eb_key g fuel k) as [bs|] eqn:E; [|discriminate].
    destruct (all_proofs g fuel r) as [ps'|] eqn:E2; [|discriminate].
    inversion H; subst. rewrite in_app_iff, in_map_iff, (IH ps' eq_refl p). split.
    + intros [(mb & <- & Hmb)|(t' & k' & bs' & mb & Hin & Hb & Hmb & ->)].
      * exists t, k, bs, mb. repeat split; auto. left; reflexivity.
      * exists t', k', bs', mb. repeat split; auto. right; assumption.
    + intros (t' & k' & bs' & mb & [Heq|Hin] & Hb & Hmb & ->).
      * inversion Heq; subst. rewrite E in Hb. inversion Hb; subst. left. exists mb. split; auto.
      * right. exists t', k', bs', mb. repeat split; auto.
Qed.

(* the main composition *)
Theorem findall_lists_partition fuel (results : list (T * key)) ps :
  all_proofs g fuel results = Some ps ->
  (forall p, In p ps -> p_branch p <> [] -> val tv (pn (p_branch p)) = bval s (p_branch p)) ->
  cn_ok (findall_lst pn (sort_mx ps)) ->
  let sorted := sort_mx ps in
  let out := findall_out cn (findall_lst pn sorted) in
  length (filter (fun e => val tv (snd e)) out) = 1 /\
  (forall l node, In (l, node) out -> val tv node = true ->
     l = map p_term (filter (fun p => pval s (p_branch p)) sorted)) /\
  (forall t, In t (map p_term (filter (fun p => pval s (p_branch p)) sorted)) <->
             exists k, In (t, k) results /\ key_val s k = true).
Proof.
  intros Hps Hpn Hcn sorted out.
  destruct (findall_out_spec (findall_lst pn sorted) Hcn) as [C L].
  split; [exact C|]. split.
  - intros l node Hin Hv. rewrite (L l node Hin Hv). unfold findall_lst.
    rewrite filter_map_swap, map_map. cbn [fst snd]. f_equal.
    apply filter_ext_in. intros p Hp.
    assert (Hp' : In p ps) by (apply (Permutation_in _ (sort_mx_perm ps)); exact Hp).
    unfold proof_key, pval. destruct (p_branch p) eqn:B; [reflexivity|].
    rewrite <- B. apply Hpn; [assumption|]. rewrite B. discriminate.
  - intros t. rewrite in_map_iff. split.
    + intros (p & <- & Hp). apply filter_In in Hp. destruct Hp as [Hp Hv].
      apply (Permutation_in _ (sort_mx_perm ps)) in Hp.
      apply (all_proofs_In fuel results ps Hps) in Hp.
      destruct Hp as (t & k & bs & mb & Hin & Hb & Hmb & ->).
      exists k. split; [exact Hin|]. rewrite <- (eb_key_sound fuel k bs Hb).
      apply existsb_exists. exists mb. split; assumption.
    + intros (k & Hin & Hv).
      assert (exists bs, eb_key g fuel k = Some bs) as [bs Hb].
      { clear - Hps Hin. revert ps Hps. induction results as [|[t' k'] r IH]; intros ps Hps; [destruct Hin|].
        cbn [all_proofs] in Hps. destruct (eb_key g fuel k') as [bs|] eqn:E; [|discriminate].
        destruct (all_proofs g fuel r) as [ps'|] eqn:E2; [|discriminate].
        destruct Hin as [Heq|Hin]; [inversion Heq; subst; eauto|]. apply (IH Hin ps' eq_refl). }
      rewrite <- (eb_key_sound fuel k bs Hb) in Hv. apply existsb_exists in Hv.
      destruct Hv as (mb & Hmb & Hv).
      exists (fst mb, t, snd mb). split; [reflexivity|]. apply filter_In. split; [|exact Hv].
      apply (Permutation_in _ (Permutation_sym (sort_mx_perm ps))).
      apply (all_proofs_In fuel results ps Hps). exists t, k, bs, mb. auto.
Qed.
End Findall.

(* ------------------------------------------------------------------ acyclicity witnesses *)
Lemma topo_acyclic g : topo g -> acyclic_by (fun k => k) g.
Proof. intros H k nd c N Hc. exact (H k nd c N Hc). Qed.

Lemma acyclic_byb_sound ranks g : acyclic_byb ranks g = true -> acyclic_by (fun k => nth k ranks 0) g.
Proof.
  intros H k nd c E Hc. unfold acyclic_byb in H. rewrite forallb_forall in H.
  destruct k as [|i]; simpl in E; [discriminate|].
  assert (G : forall st, In (st + i, nd) (combine (seq st (length g)) g)).
  { clear H. revert i E. induction g as [|x g IH]; intros i E st; [destruct i; discriminate|].
    destruct i; simpl in *. { inversion E; subst. left. f_equal. lia. }
    right. specialize (IH i E (S st)).
    replace (S st + i) with (st + S i) in IH by lia. exact IH. }
  assert (H0 := G 1). change (1 + i) with (S i) in H0.
  apply H in H0. cbn [fst snd] in H0. rewrite forallb_forall in H0. apply H0 in Hc.
  apply Nat.ltb_lt in Hc. exact Hc.
Qed.

Lemma eb_total_topo g c : topo g -> closed_graph g -> no_empty_and g -> key_of c <= length g ->
  exists bs, eb g (default_fuel g) [] c = Some bs.
Proof.
  intros Ht Hc Hn Hk. apply (eb_total g (fun k => k) (topo_acyclic g Ht) Hc Hn).
  - intros x [].
  - exact Hk.
  - unfold default_fuel. lia.
Qed.
