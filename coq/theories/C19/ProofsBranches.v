(* Proofs about ModelBranches.v: enumerate_branches is a DNF of the node, the number of
   branches is the multiplicity, the findall builtin partitions the assignments. *)
From Coq Require Import ZArith NArith List Bool Lia Arith Permutation Sorted.
From PL.C09 Require Import BoolGraph.
From PL.C19 Require Import ModelSelectSublist ProofsSelectSublist ModelBranches.
Import ListNotations.

(* ------------------------------------------------------------------ list helpers *)
Lemma all_some_Forall2 {A B} (f : A -> option B) cs ls :
  all_some (map f cs) = Some ls -> Forall2 (fun c l => f c = Some l) cs ls.
Proof.
  revert ls. induction cs as [|c cs IH]; intros ls H; cbn in H.
  - inversion H. constructor.
  - destruct (f c) eqn:E; [|discriminate].
    destruct (all_some (map f cs)) eqn:E2; [|discriminate].
    inversion H; subst. constructor; auto.
Qed.

Lemma all_some_total {A B} (f : A -> option B) cs :
  (forall c, In c cs -> exists l, f c = Some l) -> exists ls, all_some (map f cs) = Some ls.
Proof.
  induction cs as [|c cs IH]; intros H; cbn.
  - eexists; reflexivity.
  - destruct (H c (or_introl eq_refl)) as [l ->].
    destruct IH as [ls ->]. { intros; apply H; right; assumption. }
    eexists; reflexivity.
Qed.

Lemma existsb_concat {A} (P : A -> bool) ls : existsb P (concat ls) = existsb (existsb P) ls.
Proof. induction ls as [|l ls IH]; cbn; [reflexivity|]. rewrite existsb_app, IH. reflexivity. Qed.

Lemma existsb_flat_map {A B} (P : B -> bool) (f : A -> list B) l :
  existsb P (flat_map f l) = existsb (fun x => existsb P (f x)) l.
Proof. induction l as [|x l IH]; cbn; [reflexivity|]. rewrite existsb_app, IH. reflexivity. Qed.

Lemma existsb_map {A B} (P : B -> bool) (f : A -> B) l : existsb P (map f l) = existsb (fun x => P (f x)) l.
Proof. induction l as [|x l IH]; cbn; [reflexivity|]. rewrite IH. reflexivity. Qed.

Lemma existsb_and_r {A} (P : A -> bool) (c : bool) l : existsb (fun x => P x && c) l = existsb P l && c.
Proof. induction l as [|x l IH]; cbn; [reflexivity|]. rewrite IH. destruct (P x), c, (existsb P l); reflexivity. Qed.

Lemma existsb_and_l {A} (P : A -> bool) (c : bool) l : existsb (fun x => c && P x) l = c && existsb P l.
Proof. induction l as [|x l IH]; cbn; [destruct c; reflexivity|]. rewrite IH. destruct (P x), c, (existsb P l); reflexivity. Qed.

Lemma existsb_ext_in {A} (P Q : A -> bool) l : (forall x, In x l -> P x = Q x) -> existsb P l = existsb Q l.
Proof.
  induction l as [|x l IH]; intros H; cbn; [reflexivity|].
  rewrite (H x (or_introl eq_refl)), IH; [reflexivity|]. intros; apply H; right; assumption.
Qed.

Lemma bval_app s b1 b2 : bval s (b1 ++ b2) = bval s b1 && bval s b2.
Proof. apply forallb_app. Qed.

(* the disjunction over the product of the children's branch lists is the conjunction of
   the children's disjunctions *)
Lemma product_sem s (ls : list (list (Z * branch))) :
  existsb (fun b => bval s (concat (map snd b))) (product ls)
  = forallb (existsb (fun mb => bval s (snd mb))) ls.
Proof.
  induction ls as [|l r IH]; cbn [product forallb]; [reflexivity|].
  rewrite existsb_flat_map.
  rewrite (existsb_ext_in _ (fun x => bval s (snd x) && existsb (fun b => bval s (concat (map snd b))) (product r))).
  - rewrite existsb_and_r, IH. reflexivity.
  - intros x _. rewrite existsb_map. cbn [map concat].
    rewrite (existsb_ext_in _ (fun b => bval s (snd x) && bval s (concat (map snd b)))).
    + apply existsb_and_l.
    + intros b _. apply bval_app.
Qed.

Lemma product_cons_In {A} (l : list A) r b :
  In b (product (l :: r)) -> exists x b', b = x :: b' /\ In x l /\ In b' (product r).
Proof.
  cbn [product]. rewrite in_flat_map. intros (x & Hx & Hb).
  apply in_map_iff in Hb. destruct Hb as (b' & <- & Hb'). eauto.
Qed.

Lemma fold_left_mul_acc l acc : fold_left Nat.mul l acc = acc * fold_left Nat.mul l 1.
Proof.
  revert acc. induction l as [|x l IH]; intros acc; cbn [fold_left]; [lia|].
  rewrite IH, (IH (1 * x)). lia.
Qed.

Lemma fold_left_add_acc l acc : fold_left Nat.add l acc = acc + fold_left Nat.add l 0.
Proof.
  revert acc. induction l as [|x l IH]; intros acc; cbn [fold_left]; [lia|].
  rewrite IH, (IH (0 + x)). lia.
Qed.

Lemma length_flat_map_const {A B} (f : A -> list B) l n :
  (forall x, length (f x) = n) -> length (flat_map f l) = length l * n.
Proof. intros H. induction l as [|x l IH]; cbn; [reflexivity|]. rewrite app_length, H, IH. lia. Qed.

Lemma length_product {A} (ls : list (list A)) :
  length (product ls) = fold_left Nat.mul (map (@length A) ls) 1.
Proof.
  induction ls as [|l r IH]; cbn [product map fold_left]; [reflexivity|].
  rewrite (length_flat_map_const _ _ (length (product r))) by (intros; apply map_length).
  rewrite fold_left_mul_acc, IH. lia.
Qed.

Lemma length_concat_sum {A} (ls : list (list A)) :
  length (concat ls) = fold_left Nat.add (map (@length A) ls) 0.
Proof.
  induction ls as [|l r IH]; cbn [concat map fold_left]; [reflexivity|].
  rewrite app_length, fold_left_add_acc, IH. lia.
Qed.

(* ------------------------------------------------------------------ enumerate_branches *)
Section Branches.
Variables (g : graph) (lvl : nat -> nat).
Hypothesis Hac : acyclic_by lvl g.

Definition above (anc : list Z) (index : Z) : Prop :=
  forall x, In x anc -> lvl (key_of index) < lvl (key_of x).

Lemma guard_silent anc index : above anc index -> zmem index anc = false.
Proof.
  intros H. destruct (zmem index anc) eqn:E; [|reflexivity].
  apply existsb_exists in E. destruct E as (x & Hx & Ex). apply Z.eqb_eq in Ex. subst x.
  specialize (H _ Hx). lia.
Qed.

Lemma above_child anc p nd c :
  above anc (Zpos p) -> node_at g (Pos.to_nat p) = Some nd -> In c (children nd) ->
  above (anc ++ [Zpos p]) c.
Proof.
  intros H N Hc x Hx. pose proof (Hac _ _ _ N Hc) as L.
  apply in_app_or in Hx. destruct Hx as [Hx|[<-|[]]].
  - specialize (H _ Hx). rewrite key_of_pos in H. lia.
  - rewrite key_of_pos. exact L.
Qed.

(* shape of one unfolding, to keep the case analysis in one place *)
Lemma eb_unfold f anc index :
  eb g (S f) anc index =
  if zmem index anc then Some [(0%Z, [])]
  else match index with
       | Z0 => Some [(0%Z, [0%Z])]
       | Zneg _ => Some [(index, [index])]
       | Zpos p =>
         match node_at g (Pos.to_nat p) with
         | None => None
         | Some (NAtom _) => Some [(index, [index])]
         | Some (NAnd cs) =>
           match cs with
           | [] => None
           | _ => match all_some (map (eb g f (anc ++ [index])) cs) with
                  | None => None
                  | Some ls => Some (map (conj_branch index) (product ls))
                  end
           end
         | Some (NOr cs) =>
           match all_some (map (eb g f (anc ++ [index])) cs) with
           | None => None
           | Some ls => Some (concat ls)
           end
         end
       end.
Proof. reflexivity. Qed.

Section Sound.
Variables (a : N -> bool) (s : nat -> bool).
Hypothesis Hs : supported g a s.

Lemma s_node p nd : node_at g (Pos.to_nat p) = Some nd -> s (Pos.to_nat p) = eval_node a (lit_val s) nd.
Proof. intros N. rewrite (Hs (Pos.to_nat p)), N. reflexivity. Qed.

Lemma Forall2_forallb cs (ls : list (list (Z * branch))) :
  Forall2 (fun c l => existsb (fun mb => bval s (snd mb)) l = lit_val s c) cs ls ->
  forallb (existsb (fun mb => bval s (snd mb))) ls = forallb (lit_val s) cs.
Proof. induction 1 as [|c l cs ls H _ IH]; cbn; [reflexivity|]. rewrite H, IH. reflexivity. Qed.

Lemma Forall2_existsb cs (ls : list (list (Z * branch))) :
  Forall2 (fun c l => existsb (fun mb => bval s (snd mb)) l = lit_val s c) cs ls ->
  existsb (existsb (fun mb => bval s (snd mb))) ls = existsb (lit_val s) cs.
Proof. induction 1 as [|c l cs ls H _ IH]; cbn; [reflexivity|]. rewrite H, IH. reflexivity. Qed.

(* the disjunction of the enumerated branches is equivalent to the node *)
Lemma eb_sound : forall fuel anc index bs,
  above anc index -> eb g fuel anc index = Some bs ->
  existsb (fun mb => bval s (snd mb)) bs = lit_val s index.
Proof.
  induction fuel as [|f IH]; intros anc index bs Hab H; [discriminate|].
  rewrite eb_unfold, (guard_silent _ _ Hab) in H.
  destruct index as [|p|p].
  - inversion H; subst. reflexivity.
  - destruct (node_at g (Pos.to_nat p)) as [nd|] eqn:N; [|discriminate].
    cbn [lit_val]. rewrite (s_node _ _ N).
    assert (CH : forall cs ls, children nd = cs ->
                 all_some (map (eb g f (anc ++ [Z.pos p])) cs) = Some ls ->
                 Forall2 (fun c l => existsb (fun mb => bval s (snd mb)) l = lit_val s c) cs ls).
    { intros cs ls Ecs Hls. apply all_some_Forall2 in Hls.
      assert (forall c, In c cs -> above (anc ++ [Z.pos p]) c) as Hcs.
      { intros c Hc. apply (above_child anc p nd c Hab N). rewrite Ecs. exact Hc. }
      clear Ecs. induction Hls as [|c l cs ls Hc _ IHl]; constructor.
      - apply (IH _ _ _ (Hcs c (or_introl eq_refl)) Hc).
      - apply IHl. intros; apply Hcs; right; assumption. }
    destruct nd as [id|cs|cs].
    + inversion H; subst. cbn. rewrite andb_true_r, orb_false_r. rewrite (s_node _ _ N). reflexivity.
    + destruct cs as [|c0 cs0]; [discriminate|]. set (cs := c0 :: cs0) in *.
      destruct (all_some (map (eb g f (anc ++ [Z.pos p])) cs)) as [ls|] eqn:Els; [|discriminate].
      inversion H; subst bs. rewrite existsb_map. cbn [conj_branch snd eval_node].
      rewrite product_sem. apply Forall2_forallb. apply CH; [reflexivity|assumption].
    + destruct (all_some (map (eb g f (anc ++ [Z.pos p])) cs)) as [ls|] eqn:Els; [|discriminate].
      inversion H; subst bs. rewrite existsb_concat. cbn [eval_node].
      apply Forall2_existsb. apply CH; [reflexivity|assumption].
  - inversion H; subst. cbn [existsb bval forallb snd]. rewrite andb_true_r, orb_false_r. reflexivity.
Qed.
End Sound.

(* on an acyclic graph no branch is empty (the empty branch only comes from the cycle guard
   and from the FALSE key) *)
Lemma eb_nonempty : forall fuel anc index bs,
  above anc index -> eb g fuel anc index = Some bs -> forall mb, In mb bs -> snd mb <> [].
Proof.
  induction fuel as [|f IH]; intros anc index bs Hab H; [discriminate|].
  rewrite eb_unfold, (guard_silent _ _ Hab) in H.
  destruct index as [|p|p].
  - inversion H; subst. intros mb [<-|[]]. discriminate.
  - destruct (node_at g (Pos.to_nat p)) as [nd|] eqn:N; [|discriminate].
    assert (CH : forall cs ls, children nd = cs ->
                 all_some (map (eb g f (anc ++ [Z.pos p])) cs) = Some ls ->
                 Forall (fun l => forall mb, In mb l -> snd mb <> []) ls).
    { intros cs ls Ecs Hls. apply all_some_Forall2 in Hls.
      assert (forall c, In c cs -> above (anc ++ [Z.pos p]) c) as Hcs.
      { intros c Hc. apply (above_child anc p nd c Hab N). rewrite Ecs. exact Hc. }
      clear Ecs. induction Hls as [|c l cs ls Hc _ IHl]; constructor.
      - apply (IH _ _ _ (Hcs c (or_introl eq_refl)) Hc).
      - apply IHl. intros; apply Hcs; right; assumption. }
    destruct nd as [id|cs|cs].
    + inversion H; subst. intros mb [<-|[]]. discriminate.
    + destruct cs as [|c0 cs0]; [discriminate|]. set (cs := c0 :: cs0) in *.
      destruct (all_some (map (eb g f (anc ++ [Z.pos p])) cs)) as [ls|] eqn:Els; [|discriminate].
      inversion H; subst bs. intros mb Hmb. apply in_map_iff in Hmb. destruct Hmb as (b & <- & Hb).
      specialize (CH cs ls eq_refl Els).
      destruct ls as [|l r]. { apply all_some_Forall2 in Els. inversion Els. }
      apply product_cons_In in Hb. destruct Hb as (x & b' & -> & Hx & _).
      inversion CH as [|? ? Hl _]; subst. specialize (Hl x Hx).
      cbn [conj_branch snd map concat]. intros E. apply app_eq_nil in E. destruct E as [E _]. exact (Hl E).
    + destruct (all_some (map (eb g f (anc ++ [Z.pos p])) cs)) as [ls|] eqn:Els; [|discriminate].
      inversion H; subst bs. intros mb Hmb. apply in_concat in Hmb. destruct Hmb as (l & Hl & Hmb).
      specialize (CH cs ls eq_refl Els). rewrite Forall_forall in CH. exact (CH l Hl mb Hmb).
  - inversion H; subst. intros mb [<-|[]]. discriminate.
Qed.

(* number of branches = get_node_multiplicity *)
Lemma eb_length_mult : forall fuel anc index bs fuel2 m,
  above anc index -> eb g fuel anc index = Some bs -> mult g fuel2 index = Some m -> length bs = m.
Proof.
  induction fuel as [|f IH]; intros anc index bs fuel2 m Hab H M; [discriminate|].
  destruct fuel2 as [|f2]; [discriminate|].
  rewrite eb_unfold, (guard_silent _ _ Hab) in H. cbn [mult] in M.
  destruct index as [|p|p].
  - inversion H; inversion M; subst. reflexivity.
  - destruct (node_at g (Pos.to_nat p)) as [nd|] eqn:N; [|discriminate].
    assert (CH : forall cs ls ms, children nd = cs ->
                 all_some (map (eb g f (anc ++ [Z.pos p])) cs) = Some ls ->
                 all_some (map (mult g f2) cs) = Some ms -> map (@length _) ls = ms).
    { intros cs ls ms Ecs Hls Hms. apply all_some_Forall2 in Hls. apply all_some_Forall2 in Hms.
      assert (forall c, In c cs -> above (anc ++ [Z.pos p]) c) as Hcs.
      { intros c Hc. apply (above_child anc p nd c Hab N). rewrite Ecs. exact Hc. }
      clear Ecs. revert ms Hms. induction Hls as [|c l cs ls Hc _ IHl]; intros ms Hms; inversion Hms; subst; [reflexivity|].
      cbn [map]. f_equal.
      - eapply IH; eauto. apply Hcs. left; reflexivity.
      - apply IHl; [|assumption]. intros; apply Hcs; right; assumption. }
    destruct nd as [id|cs|cs].
    + inversion H; inversion M; subst. reflexivity.
    + destruct cs as [|c0 cs0]; [discriminate|]. set (cs := c0 :: cs0) in *.
      destruct (all_some (map (eb g f (anc ++ [Z.pos p])) cs)) as [ls|] eqn:Els; [|discriminate].
      destruct (all_some (map (mult g f2) cs)) as [ms|] eqn:Ems; [|discriminate].
      inversion H; inversion M; subst. rewrite map_length, length_product.
      rewrite (CH cs ls ms eq_refl Els Ems). reflexivity.
    + destruct (all_some (map (eb g f (anc ++ [Z.pos p])) cs)) as [ls|] eqn:Els; [|discriminate].
      destruct (all_some (map (mult g f2) cs)) as [ms|] eqn:Ems; [|discriminate].
      inversion H; inversion M; subst. rewrite length_concat_sum.
      rewrite (CH cs ls ms eq_refl Els Ems). reflexivity.
  - destruct (node_at g (Pos.to_nat p)); [|discriminate]. inversion H; inversion M; subst. reflexivity.
Qed.

(* totality: on a closed acyclic graph without empty conjunctions enough fuel always suffices *)
Definition no_empty_and (g0 : graph) : Prop := ~ In (NAnd []) g0.

Lemma eb_total : closed_graph g -> no_empty_and g -> forall fuel anc index,
  above anc index -> key_of index <= length g -> lvl (key_of index) < fuel ->
  exists bs, eb g fuel anc index = Some bs.
Proof.
  intros Hcl Hne. induction fuel as [|f IH]; intros anc index Hab Hk Hf; [lia|].
  rewrite eb_unfold, (guard_silent _ _ Hab).
  destruct index as [|p|p]; [eexists; reflexivity| |eexists; reflexivity].
  rewrite key_of_pos in *.
  destruct (node_at g (Pos.to_nat p)) as [nd|] eqn:N.
  2:{ apply node_at_None in N. lia. }
  assert (CH : exists ls, all_some (map (eb g f (anc ++ [Z.pos p])) (children nd)) = Some ls).
  { apply all_some_total. intros c Hc. apply IH.
    - apply (above_child anc p nd c Hab N Hc).
    - apply node_at_Some in N. destruct N as [_ N]. apply (Hcl _ _ N Hc).
    - pose proof (Hac _ _ _ N Hc). lia. }
  destruct nd as [id|cs|cs]; cbn [children] in CH.
  - eexists; reflexivity.
  - destruct cs as [|c0 cs0].
    + exfalso. apply Hne. apply node_at_Some in N. apply N.
    + destruct CH as [ls ->]. eexists; reflexivity.
  - destruct CH as [ls ->]. eexists; reflexivity.
Qed.
End Branches.
