(* Proofs about ModelCopyNode.v: the key copy_node returns has, in the grown target DAG, the value
   of the source literal; add_and of keys has the value of the conjunction; composition with the
   findall model of ModelBranches.v (no abstract target keys left). *)
From Coq Require Import ZArith NArith List Bool Lia Arith Permutation.
From PL.C09 Require Import BoolGraph CyclesModel BuilderProofs.
From PL.C19 Require Import ModelSelectSublist ModelBranches ProofsSelectSublist ProofsBranches ModelCopyNode.
Import ListNotations.

Notation bval_t := BuilderProofs.val.
Notation sval := ModelSelectSublist.val.

(* ------------------------------------------------------------------ the two readings of a key's value *)
Lemma sval_bval a t k : sval (tgt_val a t) k = bval_t a t k.
Proof. destruct k as [[|p|p]|]; reflexivity. Qed.

Lemma holds_bval a t ks : holds (tgt_val a t) ks = forallb (bval_t a t) ks.
Proof. unfold holds. induction ks as [|k r IH]; cbn [forallb]; [reflexivity|]. rewrite sval_bval, IH. reflexivity. Qed.

Lemma bval_negate a t k : bval_t a t (negate k) = negb (bval_t a t k).
Proof. destruct k as [[|p|p]|]; cbn; try reflexivity. rewrite negb_involutive. reflexivity. Qed.

Lemma key_valid_negate t k : key_valid t k -> key_valid t (negate k).
Proof. destruct k as [[|p|p]|]; cbn; intros H; try exact H; try exact I; lia. Qed.

Lemma key_valid_true t : key_valid t kTRUE.
Proof. cbn. lia. Qed.

Lemma forallb_of_map {A B} (f : A -> bool) (h : B -> bool) l l' :
  map f l = map h l' -> forallb f l = forallb h l'.
Proof.
  revert l'. induction l as [|x r IH]; intros [|y r'] E; try discriminate; [reflexivity|].
  cbn in E. inversion E as [[E1 E2]]. cbn [forallb]. rewrite E1, (IH r' E2). reflexivity.
Qed.
Lemma existsb_of_map {A B} (f : A -> bool) (h : B -> bool) l l' :
  map f l = map h l' -> existsb f l = existsb h l'.
Proof.
  revert l'. induction l as [|x r IH]; intros [|y r'] E; try discriminate; [reflexivity|].
  cbn in E. inversion E as [[E1 E2]]. cbn [existsb]. rewrite E1, (IH r' E2). reflexivity.
Qed.

Lemma forallb_bval_ext a t t' ks : ext t t' -> Forall (key_valid t) ks ->
  forallb (bval_t a t') ks = forallb (bval_t a t) ks.
Proof.
  intros E F. induction F as [|k r Hk _ IH]; [reflexivity|]. cbn [forallb].
  rewrite (val_ext a t t' k E Hk), IH. reflexivity.
Qed.

Lemma Forall_key_valid_ext t t' ks : ext t t' -> Forall (key_valid t) ks -> Forall (key_valid t') ks.
Proof. intros E F. eapply Forall_impl; [|exact F]. intros k. apply key_valid_ext. exact E. Qed.

(* ------------------------------------------------------------------ copy_node *)
Section CopyOK.
Variables (det : N -> bool) (ai : atom_info) (g : graph) (a : N -> bool) (s : nat -> bool).
Hypothesis Hsup : supported g a s.
(* a deterministic fact of the private formula is true under the assignment *)
Hypothesis Hdet : forall id, det id = true -> a id = true.

Definition cp_ok (cp : tgt -> Z -> option (tgt * key)) : Prop :=
  forall t c t' k, topo (t_nodes t) -> cp t c = Some (t', k) ->
    ext t t' /\ topo (t_nodes t') /\ key_valid t' k /\ bval_t a t' k = lit_val s c.

Lemma copy_list_ok cp : cp_ok cp -> forall cs t t' ks, topo (t_nodes t) ->
  copy_list cp t cs = Some (t', ks) ->
  ext t t' /\ topo (t_nodes t') /\ Forall (key_valid t') ks /\ map (bval_t a t') ks = map (lit_val s) cs.
Proof.
  intros Hcp. induction cs as [|c r IH]; intros t t' ks Ht H; cbn [copy_list] in H.
  - inversion H; subst. split; [apply ext_refl|]. split; [exact Ht|]. split; [constructor|reflexivity].
  - destruct (cp t c) as [[t1 k]|] eqn:E1; [|discriminate].
    destruct (copy_list cp t1 r) as [[t2 ks']|] eqn:E2; [|discriminate].
    inversion H; subst. destruct (Hcp t c t1 k Ht E1) as (X1 & T1 & V1 & B1).
    destruct (IH t1 t' ks' T1 E2) as (X2 & T2 & V2 & B2).
    split; [exact (ext_trans _ _ _ X1 X2)|]. split; [exact T2|]. split.
    + constructor; [exact (key_valid_ext _ _ _ X2 V1)|exact V2].
    + cbn [map]. rewrite (val_ext a t1 t' k X2 V1), B1, B2. reflexivity.
Qed.

Definition sgn (index : Z) (r : tgt * key) : tgt * key :=
  match index with Zneg _ => (fst r, negate (snd r)) | _ => r end.

Lemma copy_node_unfold f t index :
  copy_node det ai g (S f) t index =
  match index with
  | Z0 => Some (t, kTRUE)
  | _ =>
    match node_at g (key_of index) with
    | None => None
    | Some (NAtom id) => Some (sgn index (if det id then (t, kTRUE) else t_add_atom ai t id))
    | Some (NAnd cs) =>
      match copy_list (copy_node det ai g f) t cs with
      | None => None
      | Some (t1, ks) => option_map (sgn index) (t_add_compound true t1 ks)
      end
    | Some (NOr cs) =>
      match copy_list (copy_node det ai g f) t cs with
      | None => None
      | Some (t1, ks) => option_map (sgn index) (t_add_compound false t1 ks)
      end
    end
  end.
Proof. destruct index; reflexivity. Qed.

Lemma sgn_ok index t0 t' at_ r :
  index <> 0%Z -> ext t0 t' -> topo (t_nodes t') -> key_valid t' at_ ->
  bval_t a t' at_ = s (key_of index) -> sgn index (t', at_) = r ->
  ext t0 (fst r) /\ topo (t_nodes (fst r)) /\ key_valid (fst r) (snd r) /\ bval_t a (fst r) (snd r) = lit_val s index.
Proof.
  intros Hnz X T V B <-. destruct index as [|p|p]; [congruence| |]; cbn [sgn fst snd].
  - repeat split; try assumption.
  - repeat split; try assumption; [apply key_valid_negate; exact V|].
    rewrite bval_negate, B. reflexivity.
Qed.

Theorem copy_node_ok : forall fuel, cp_ok (copy_node det ai g fuel).
Proof.
  induction fuel as [|f IH]; intros t index t' k Ht H; [discriminate|].
  rewrite copy_node_unfold in H.
  destruct (Z.eq_dec index 0) as [->|Hnz].
  { inversion H; subst. split; [apply ext_refl|]. split; [exact Ht|]. split; [apply key_valid_true|reflexivity]. }
  assert (H' : match node_at g (key_of index) with
               | None => None
               | Some (NAtom id) => Some (sgn index (if det id then (t, kTRUE) else t_add_atom ai t id))
               | Some (NAnd cs) =>
                 match copy_list (copy_node det ai g f) t cs with
                 | None => None
                 | Some (t1, ks) => option_map (sgn index) (t_add_compound true t1 ks)
                 end
               | Some (NOr cs) =>
                 match copy_list (copy_node det ai g f) t cs with
                 | None => None
                 | Some (t1, ks) => option_map (sgn index) (t_add_compound false t1 ks)
                 end
               end = Some (t', k)) by (destruct index; [congruence|exact H|exact H]).
  clear H. pose proof (Hsup (key_of index)) as Hs.
  destruct (node_at g (key_of index)) as [[id|cs|cs]|] eqn:En; [| | |discriminate].
  - (* atom *)
    cbn [eval_node] in Hs. inversion H' as [H1]; clear H'.
    destruct (det id) eqn:D.
    + change t' with (fst (t', k)). change k with (snd (t', k)) at 2 3.
      apply (sgn_ok index t t kTRUE (t', k) Hnz (ext_refl t) Ht (key_valid_true t)); [|exact H1].
      rewrite Hs, (Hdet id D). reflexivity.
    + destruct (t_add_atom ai t id) as [t1 k1] eqn:EA.
      destruct (t_add_atom_ok a ai t id t1 k1 Ht EA) as (X & T & V & B).
      change t' with (fst (t', k)). change k with (snd (t', k)) at 2 3.
      apply (sgn_ok index t t1 k1 (t', k) Hnz X T V); [|exact H1]. rewrite Hs. exact B.
  - (* conj *)
    cbn [eval_node] in Hs.
    destruct (copy_list (copy_node det ai g f) t cs) as [[t1 ks]|] eqn:EL; [|discriminate].
    destruct (copy_list_ok _ IH cs t t1 ks Ht EL) as (X1 & T1 & V1 & B1).
    destruct (t_add_compound true t1 ks) as [[t2 k2]|] eqn:EC; [|discriminate].
    destruct (t_add_compound_ok a true t1 ks t2 k2 T1 V1 EC) as (X2 & T2 & V2 & B2).
    cbn [option_map] in H'. inversion H' as [H1]; clear H'.
    change t' with (fst (t', k)). change k with (snd (t', k)) at 2 3.
    apply (sgn_ok index t t2 k2 (t', k) Hnz (ext_trans _ _ _ X1 X2) T2 V2); [|exact H1].
    rewrite B2, Hs. apply forallb_of_map. exact B1.
  - (* disj *)
    cbn [eval_node] in Hs.
    destruct (copy_list (copy_node det ai g f) t cs) as [[t1 ks]|] eqn:EL; [|discriminate].
    destruct (copy_list_ok _ IH cs t t1 ks Ht EL) as (X1 & T1 & V1 & B1).
    destruct (t_add_compound false t1 ks) as [[t2 k2]|] eqn:EC; [|discriminate].
    destruct (t_add_compound_ok a false t1 ks t2 k2 T1 V1 EC) as (X2 & T2 & V2 & B2).
    cbn [option_map] in H'. inversion H' as [H1]; clear H'.
    change t' with (fst (t', k)). change k with (snd (t', k)) at 2 3.
    apply (sgn_ok index t t2 k2 (t', k) Hnz (ext_trans _ _ _ X1 X2) T2 V2); [|exact H1].
    rewrite B2, Hs. apply existsb_of_map. exact B1.
Qed.

(* copy of a branch + add_and: the `pn` hypothesis of C19_findall_lists_partition *)
Theorem copy_branch_ok fuel t b t' k : topo (t_nodes t) ->
  copy_branch det ai g fuel t b = Some (t', k) ->
  ext t t' /\ topo (t_nodes t') /\ key_valid t' k /\ bval_t a t' k = pval s b.
Proof.
  intros Ht H. unfold copy_branch in H. destruct b as [|c r].
  - inversion H; subst. split; [apply ext_refl|]. split; [exact Ht|]. split; [exact I|reflexivity].
  - destruct (copy_list (copy_node det ai g fuel) t (c :: r)) as [[t1 ks]|] eqn:EL; [|discriminate].
    destruct (copy_list_ok _ (copy_node_ok fuel) (c :: r) t t1 ks Ht EL) as (X1 & T1 & V1 & B1).
    destruct (t_add_compound_ok a true t1 ks t' k T1 V1 H) as (X2 & T2 & V2 & B2).
    split; [exact (ext_trans _ _ _ X1 X2)|]. split; [exact T2|]. split; [exact V2|].
    rewrite B2. unfold pval, bval. apply forallb_of_map. exact B1.
Qed.

Definition kp_ok {T} (t : tgt) (kp : proof (T * key)) : Prop :=
  key_valid t (snd (p_term kp)) /\ bval_t a t (snd (p_term kp)) = pval s (p_branch kp).

Lemma copy_proofs_ok {T} fuel : forall (ps : list (proof T)) t t' kps, topo (t_nodes t) ->
  copy_proofs det ai g fuel t ps = Some (t', kps) ->
  ext t t' /\ topo (t_nodes t') /\ map forget kps = ps /\ Forall (kp_ok t') kps.
Proof.
  induction ps as [|p r IH]; intros t t' kps Ht H; cbn [copy_proofs] in H.
  - inversion H; subst. split; [apply ext_refl|]. split; [exact Ht|]. split; [reflexivity|constructor].
  - destruct (copy_branch det ai g fuel t (p_branch p)) as [[t1 k]|] eqn:E1; [|discriminate].
    destruct (copy_proofs det ai g fuel t1 r) as [[t2 kps']|] eqn:E2; [|discriminate].
    inversion H; subst. destruct (copy_branch_ok fuel t (p_branch p) t1 k Ht E1) as (X1 & T1 & V1 & B1).
    destruct (IH t1 t' kps' T1 E2) as (X2 & T2 & F2 & K2).
    split; [exact (ext_trans _ _ _ X1 X2)|]. split; [exact T2|]. split.
    + cbn [map]. rewrite F2. f_equal. destruct p as [[mx tm] b]. reflexivity.
    + constructor; [|exact K2]. split; cbn.
      * exact (key_valid_ext _ _ _ X2 V1).
      * rewrite (val_ext a t1 t' k X2 V1). exact B1.
Qed.
End CopyOK.

(* ------------------------------------------------------------------ add_and of the constraint lists *)
Section AddAnds.
Context {T : Type}.
Variable a : N -> bool.

(* the `cn` hypothesis for ONE call *)
Theorem add_and_holds t ks t' k : topo (t_nodes t) -> Forall (key_valid t) ks ->
  t_add_compound true t ks = Some (t', k) ->
  ext t t' /\ topo (t_nodes t') /\ key_valid t' k /\
  sval (tgt_val a t') k = holds (tgt_val a t') ks.
Proof.
  intros Ht V H. destruct (t_add_compound_ok a true t ks t' k Ht V H) as (X & T' & V' & B).
  split; [exact X|]. split; [exact T'|]. split; [exact V'|].
  rewrite sval_bval, holds_bval, (forallb_bval_ext a t t' ks X V). exact B.
Qed.

Lemma add_ands_ok : forall (es : list (list T * list key)) t t' out, topo (t_nodes t) ->
  (forall e, In e es -> Forall (key_valid t) (snd e)) ->
  add_ands t es = Some (t', out) ->
  ext t t' /\ topo (t_nodes t') /\
  length (filter (fun o => sval (tgt_val a t') (snd o)) out)
    = length (filter (fun e => holds (tgt_val a t') (snd e)) es) /\
  (forall l node, In (l, node) out -> sval (tgt_val a t') node = true ->
     exists e, In e es /\ fst e = l /\ holds (tgt_val a t') (snd e) = true).
Proof.
  induction es as [|e r IH]; intros t t' out Ht Hv H; cbn [add_ands] in H.
  - inversion H; subst. split; [apply ext_refl|]. split; [exact Ht|]. split; [reflexivity|]. intros l node [].
  - destruct (t_add_compound true t (snd e)) as [[t1 node]|] eqn:E1; [|discriminate].
    destruct (add_ands t1 r) as [[t2 out']|] eqn:E2; [|discriminate].
    inversion H; subst; clear H.
    assert (Ve : Forall (key_valid t) (snd e)) by (apply Hv; left; reflexivity).
    destruct (t_add_compound_ok a true t (snd e) t1 node Ht Ve E1) as (X1 & T1 & V1 & B1).
    destruct (IH t1 t' out' T1) as (X2 & T2 & C2 & L2); [|exact E2|].
    { intros e' He'. apply (Forall_key_valid_ext t t1 _ X1). apply Hv. right. exact He'. }
    assert (Hn : sval (tgt_val a t') node = holds (tgt_val a t') (snd e)).
    { rewrite sval_bval, holds_bval, (val_ext a t1 t' node X2 V1), B1.
      symmetry. apply forallb_bval_ext; [exact (ext_trans _ _ _ X1 X2)|exact Ve]. }
    split; [exact (ext_trans _ _ _ X1 X2)|]. split; [exact T2|]. split.
    + cbn [filter]. rewrite <- Hn. destruct node as [z|]; cbn [is_false].
      * cbn [filter snd]. destruct (sval (tgt_val a t') (Some z)); cbn [length]; rewrite C2; reflexivity.
      * cbn [sval]. exact C2.
    + intros l nd Hin Hval. destruct node as [z|]; cbn [is_false] in Hin.
      * destruct Hin as [Heq|Hin].
        { inversion Heq; subst. exists e. split; [left; reflexivity|]. split; [reflexivity|]. rewrite <- Hn. exact Hval. }
        destruct (L2 l nd Hin Hval) as (e' & He' & F' & H'). exists e'. split; [right; exact He'|]. split; assumption.
      * destruct (L2 l nd Hin Hval) as (e' & He' & F' & H'). exists e'. split; [right; exact He'|]. split; assumption.
Qed.
End AddAnds.

(* ------------------------------------------------------------------ keys of the constraint lists *)
Lemma entry_keys {T} (lst : list (T * key)) n k :
  In k (snd (entry lst n)) -> k = kTRUE \/ exists x, In x lst /\ (k = snd x \/ k = negate (snd x)).
Proof.
  unfold entry. cbn [snd]. rewrite !in_app_iff, !in_map_iff.
  intros [(x & <- & Hx)|[(x & <- & Hx)|[<-|[]]]].
  - right. apply filter_In in Hx. destruct Hx as [Hx _]. destruct x as [x0 b]. apply in_combine_l in Hx.
    exists x0. split; [exact Hx|left; reflexivity].
  - right. apply filter_In in Hx. destruct Hx as [Hx _]. destruct x as [x0 b]. apply in_combine_l in Hx.
    exists x0. split; [exact Hx|right; reflexivity].
  - left. reflexivity.
Qed.

Lemma select_keys_valid {T} (lst : list (T * key)) t :
  (forall x, In x lst -> key_valid t (snd x)) ->
  forall e, In e (select_sublist lst) -> Forall (key_valid t) (snd e).
Proof.
  intros Hl e He. unfold select_sublist in He. apply in_map_iff in He. destruct He as (n & <- & _).
  apply Forall_forall. intros k Hk. destruct (entry_keys lst n k Hk) as [->|(x & Hx & [->| ->])].
  - apply key_valid_true.
  - apply Hl. exact Hx.
  - apply key_valid_negate. apply Hl. exact Hx.
Qed.

(* ------------------------------------------------------------------ sorting commutes with forgetting the key *)
Lemma insert_mx_map {T U} (f : proof T -> proof U) (Hf : forall p, p_mx (f p) = p_mx p) x l :
  insert_mx (f x) (map f l) = map f (insert_mx x l).
Proof.
  induction l as [|y r IH]; [reflexivity|]. cbn [map insert_mx]. rewrite !Hf.
  destruct (p_mx x <=? p_mx y)%Z; [reflexivity|]. cbn [map]. rewrite IH. reflexivity.
Qed.
Lemma sort_mx_map {T U} (f : proof T -> proof U) (Hf : forall p, p_mx (f p) = p_mx p) l :
  sort_mx (map f l) = map f (sort_mx l).
Proof.
  unfold sort_mx. induction l as [|x r IH]; [reflexivity|]. cbn [map fold_right].
  rewrite IH. apply insert_mx_map. exact Hf.
Qed.

(* ------------------------------------------------------------------ the composition *)
Section Concrete.
Context {T : Type}.
Variables (det : N -> bool) (ai : atom_info) (g : graph) (a : N -> bool) (s : nat -> bool).
Hypothesis Hsup : supported g a s.
Hypothesis Hdet : forall id, det id = true -> a id = true.
Hypothesis Hdnf : forall fuel c bs,
  eb g fuel [] c = Some bs -> existsb (fun mb => bval s (snd mb)) bs = lit_val s c.

Theorem findall_concrete_partition fuel cfuel t0 (results : list (T * key)) tF out :
  topo (t_nodes t0) ->
  findall_concrete det ai g fuel cfuel t0 results = Some (tF, out) ->
  exists ps, all_proofs g fuel results = Some ps /\
  ext t0 tF /\ topo (t_nodes tF) /\
  length (filter (fun e => sval (tgt_val a tF) (snd e)) out) = 1 /\
  (forall l node, In (l, node) out -> sval (tgt_val a tF) node = true ->
     l = map p_term (filter (fun p => pval s (p_branch p)) (sort_mx ps))) /\
  (forall t, In t (map p_term (filter (fun p => pval s (p_branch p)) (sort_mx ps))) <->
             exists k, In (t, k) results /\ key_val s k = true).
Proof.
  intros Ht H. unfold findall_concrete in H.
  destruct (all_proofs g fuel results) as [ps|] eqn:Eps; [|discriminate].
  destruct (copy_proofs det ai g cfuel t0 ps) as [[t1 kps]|] eqn:Ecp; [|discriminate].
  exists ps. split; [reflexivity|].
  destruct (copy_proofs_ok det ai g a s Hsup Hdet cfuel ps t0 t1 kps Ht Ecp) as (X1 & T1 & F1 & K1).
  set (lst := keyed_lst kps) in *.
  assert (Hsorted : forall kp, In kp (sort_mx kps) -> kp_ok a s t1 kp).
  { intros kp Hin. apply (Permutation_in _ (sort_mx_perm kps)) in Hin.
    rewrite Forall_forall in K1. apply K1. exact Hin. }
  assert (Hl : forall x, In x lst -> key_valid t1 (snd x)).
  { intros x Hx. unfold lst, keyed_lst in Hx. apply in_map_iff in Hx. destruct Hx as (kp & <- & Hkp).
    apply (Hsorted kp Hkp). }
  destruct (add_ands_ok a (select_sublist lst) t1 tF out T1 (select_keys_valid lst t1 Hl) H) as (X2 & T2 & C2 & L2).
  split; [exact (ext_trans _ _ _ X1 X2)|]. split; [exact T2|]. split; [|split].
  - rewrite C2. destruct (select_count (tgt_val a tF) lst (fun _ => true)) as (n & _ & _ & C). exact C.
  - intros l node Hin Hv. destruct (L2 l node Hin Hv) as (e & He & <- & Hh).
    rewrite (select_holds_list (tgt_val a tF) lst e He Hh).
    unfold lst, keyed_lst. rewrite <- F1.
    rewrite (sort_mx_map forget (fun p => eq_refl) kps).
    rewrite !filter_map_swap, !map_map. cbn [fst snd].
    assert (E : filter (fun x => sval (tgt_val a tF) (snd (p_term x))) (sort_mx kps)
                = filter (fun x => pval s (p_branch (forget x))) (sort_mx kps)).
    { apply filter_ext_in. intros kp Hkp. destruct (Hsorted kp Hkp) as [V B].
      rewrite sval_bval, (val_ext a t1 tF _ X2 V). exact B. }
    rewrite E. reflexivity.
  - pose (tv0 := fun _ : Z => true).
    pose (pn0 := fun b : branch => if bval s b then kTRUE else kFALSE).
    pose (cn0 := fun ks : list key => if holds tv0 ks then kTRUE else kFALSE).
    assert (P : forall p : proof T, In p ps -> p_branch p <> [] -> sval tv0 (pn0 (p_branch p)) = bval s (p_branch p)).
    { intros p _ _. unfold pn0. destruct (bval s (p_branch p)); reflexivity. }
    assert (Cn : cn_ok tv0 cn0 (findall_lst pn0 (sort_mx ps))).
    { intros e _. unfold cn0. destruct (holds tv0 (snd e)); reflexivity. }
    exact (proj2 (proj2 (findall_lists_partition tv0 cn0 g s pn0 Hdnf fuel results ps Eps P Cn))).
Qed.
End Concrete.

(* ------------------------------------------------------------------ totality on acyclic closed sources *)
Lemma t_add_compound_some isand t content : content <> [] -> exists r, t_add_compound isand t content = Some r.
Proof.
  intros Hne. unfold t_add_compound. destruct content as [|k0 c0]; [congruence|].
  destruct (existsb _ (k0 :: c0)); [eauto|].
  destruct (dedupe _ []) as [|x [|y l]]; [eauto| |].
  - destruct (has_opposites [x]); eauto.
  - destruct (has_opposites (x :: y :: l)); [eauto|].
    destruct (find_node _ _ 1); [eauto|]. unfold push_node. eauto.
Qed.

Lemma copy_list_total cp cs :
  (forall c, In c cs -> forall t, exists r, cp t c = Some r) ->
  forall t, exists t1 ks, copy_list cp t cs = Some (t1, ks) /\ length ks = length cs.
Proof.
  induction cs as [|c r IH]; intros Hc t; cbn [copy_list].
  - exists t, []. split; reflexivity.
  - destruct (Hc c (or_introl eq_refl) t) as [[t1 k] E1]. rewrite E1.
    destruct (IH (fun c' H' => Hc c' (or_intror H')) t1) as (t2 & ks & E2 & L). rewrite E2.
    exists t2, (k :: ks). split; [reflexivity|]. cbn. rewrite L. reflexivity.
Qed.

Definition no_empty_or (g0 : graph) : Prop := ~ In (NOr []) g0.

Theorem copy_node_total det ai g lvl : acyclic_by lvl g -> closed_graph g -> no_empty_and g -> no_empty_or g ->
  forall fuel index t, key_of index <= length g -> lvl (key_of index) < fuel ->
  exists r, copy_node det ai g fuel t index = Some r.
Proof.
  intros Hac Hcl Hna Hno. induction fuel as [|f IH]; intros index t Hr Hl; [lia|].
  rewrite copy_node_unfold. destruct (Z.eq_dec index 0) as [->|Hnz]; [eauto|].
  assert (Hk : 1 <= key_of index) by (unfold key_of; lia).
  destruct (node_at g (key_of index)) as [nd|] eqn:En.
  2:{ exfalso. unfold node_at in En. destruct (key_of index) as [|i]; [lia|]. apply nth_error_None in En. lia. }
  assert (Hin : In nd g).
  { unfold node_at in En. destruct (key_of index) as [|i]; [lia|]. eapply nth_error_In; exact En. }
  assert (Hch : forall c, In c (children nd) -> forall t', exists r, copy_node det ai g f t' c = Some r).
  { intros c Hc t'. apply IH; [exact (Hcl nd c Hin Hc)|]. pose proof (Hac _ _ c En Hc). lia. }
  assert (G : exists r,
    match nd with
    | NAtom id => Some (sgn index (if det id then (t, kTRUE) else t_add_atom ai t id))
    | NAnd cs => match copy_list (copy_node det ai g f) t cs with
                 | None => None
                 | Some (t1, ks) => option_map (sgn index) (t_add_compound true t1 ks)
                 end
    | NOr cs => match copy_list (copy_node det ai g f) t cs with
                | None => None
                | Some (t1, ks) => option_map (sgn index) (t_add_compound false t1 ks)
                end
    end = Some r).
  { destruct nd as [id|cs|cs]; [eauto| |]; cbn [children] in Hch.
    - destruct (copy_list_total _ cs Hch t) as (t1 & ks & E & L). rewrite E.
      destruct (t_add_compound_some true t1 ks) as [r Er].
      { intros ->. destruct cs; [apply Hna; exact Hin|discriminate]. }
      rewrite Er. cbn. eauto.
    - destruct (copy_list_total _ cs Hch t) as (t1 & ks & E & L). rewrite E.
      destruct (t_add_compound_some false t1 ks) as [r Er].
      { intros ->. destruct cs; [apply Hno; exact Hin|discriminate]. }
      rewrite Er. cbn. eauto. }
  destruct index; [congruence|exact G|exact G].
Qed.
