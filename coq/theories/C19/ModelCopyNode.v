(* Hand model of LogicFormula.copy_node (problog/formula.py) and of the part of
   _builtin_findall_base (problog/engine_builtin.py) that writes into the REAL target formula,
   on top of the target builder of PL.C09.CyclesModel (t_add_atom, t_add_compound: read-only):

     def copy_node(self, target, index):
         if self.is_true(index): return target.TRUE          (index == 0)
         elif self.is_false(index): return target.FALSE       (index is None: not a child / branch literal)
         else:
             node = self.get_node(abs(index)); sign = 1 if index > 0 else -1
             atom: at = target.add_atom( *node)
             conj: at = target.add_and([self.copy_node(target, c) for c in node.children])
             disj: at = target.add_or ([self.copy_node(target, c) for c in node.children])
             return target.negate(at) if sign < 0 else at

   findall sets target.keep_all = False around the copies, so `add_atom(identifier, None, ...)`
   (a deterministic fact, kept as an atom node in the private findall_target because that one has
   keep_all=True) returns target.TRUE: `det id` says that the source atom `id` has probability None.
   No cycle guard in the code: on a cyclic source the recursion does not end (fuel -> None).
   The target is threaded through all calls exactly in the order of the code:
     for res, n in results: for mx, b in enumerate_branches(n):
         b_renamed = [copy_node(target, c) for c in b]
         proof_node = target.add_and(b_renamed) if b_renamed else target.FALSE
         new_results.append((mx, res[0], proof_node))
     new_results = [(b, c) for a, b, c in sorted(new_results, key=lambda s: s[0])]
     for l, n in _select_sublist(new_results, target):
         node = target.add_and(n);  if node is not None: output.append((l, node))
   No proofs in this file. *)
From Coq Require Import ZArith NArith List Bool Arith.
From PL.C09 Require Import BoolGraph CyclesModel.
From PL.C19 Require Import ModelSelectSublist ModelBranches.
Import ListNotations.

(* [f(target, c) for c in cs] with the target threaded left to right *)
Fixpoint copy_list (cp : tgt -> Z -> option (tgt * key)) (t : tgt) (cs : list Z) : option (tgt * list key) :=
  match cs with
  | [] => Some (t, [])
  | c :: r =>
    match cp t c with
    | None => None
    | Some (t1, k) =>
      match copy_list cp t1 r with
      | None => None
      | Some (t2, ks) => Some (t2, k :: ks)
      end
    end
  end.

Section Copy.
Variables (det : N -> bool) (ai : atom_info) (g : graph).

(* None = IndexError of get_node on a dangling index, the `assert content` of an empty
   conj/disj, or fuel exhaustion (unbounded recursion of the code on a cyclic source) *)
Fixpoint copy_node (fuel : nat) (t : tgt) (index : Z) : option (tgt * key) :=
  match fuel with
  | O => None
  | S f =>
    match index with
    | Z0 => Some (t, kTRUE)
    | _ =>
      let sign (r : tgt * key) : tgt * key :=
        match index with Zneg _ => (fst r, negate (snd r)) | _ => r end in
      match node_at g (key_of index) with
      | None => None
      | Some (NAtom id) =>
        Some (sign (if det id then (t, kTRUE) else t_add_atom ai t id))
      | Some (NAnd cs) =>
        match copy_list (copy_node f) t cs with
        | None => None
        | Some (t1, ks) => option_map sign (t_add_compound true t1 ks)
        end
      | Some (NOr cs) =>
        match copy_list (copy_node f) t cs with
        | None => None
        | Some (t1, ks) => option_map sign (t_add_compound false t1 ks)
        end
      end
    end
  end.

(* b_renamed = [copy_node(target, c) for c in b]; proof_node = add_and(b_renamed) if b_renamed else FALSE *)
Definition copy_branch (fuel : nat) (t : tgt) (b : branch) : option (tgt * key) :=
  match b with
  | [] => Some (t, kFALSE)
  | _ =>
    match copy_list (copy_node fuel) t b with
    | None => None
    | Some (t1, ks) => t_add_compound true t1 ks
    end
  end.

(* the double loop; a copied proof carries (term, proof_node) where the abstract model had the term *)
Fixpoint copy_proofs {T} (fuel : nat) (t : tgt) (ps : list (proof T)) : option (tgt * list (proof (T * key))) :=
  match ps with
  | [] => Some (t, [])
  | p :: r =>
    match copy_branch fuel t (p_branch p) with
    | None => None
    | Some (t1, k) =>
      match copy_proofs fuel t1 r with
      | None => None
      | Some (t2, kps) => Some (t2, (p_mx p, (p_term p, k), p_branch p) :: kps)
      end
    end
  end.
End Copy.

(* for l, n in _select_sublist(...): node = target.add_and(n); kept unless node is None *)
Fixpoint add_ands {T} (t : tgt) (es : list (list T * list key)) : option (tgt * list (list T * key)) :=
  match es with
  | [] => Some (t, [])
  | e :: r =>
    match t_add_compound true t (snd e) with
    | None => None
    | Some (t1, node) =>
      match add_ands t1 r with
      | None => None
      | Some (t2, out) => Some (t2, if is_false node then out else (fst e, node) :: out)
      end
    end
  end.

(* the list handed to _select_sublist: sorted by mx (stable), then (term, proof_node) *)
Definition keyed_lst {T} (kps : list (proof (T * key))) : list (T * key) := map p_term (sort_mx kps).

(* _builtin_findall_base from `results` (engine.call on the private formula g) to `output`,
   together with the grown target *)
Definition findall_concrete {T} (det : N -> bool) (ai : atom_info) (g : graph) (fuel cfuel : nat)
           (t0 : tgt) (results : list (T * key)) : option (tgt * list (list T * key)) :=
  match all_proofs g fuel results with
  | None => None
  | Some ps =>
    match copy_proofs det ai g cfuel t0 ps with
    | None => None
    | Some (t1, kps) => add_ands t1 (select_sublist (keyed_lst kps))
    end
  end.

(* valuation of the target's node ids (the `tv` of Props.v) read off the built target DAG *)
Definition tgt_val (a : N -> bool) (t : tgt) : Z -> bool := fun z => vget (dag_val a (t_nodes t)) (Z.to_nat z).

(* a copied proof without its target key = the proof of ModelBranches.all_proofs *)
Definition forget {T} (kp : proof (T * key)) : proof T := (p_mx kp, fst (p_term kp), p_branch kp).
