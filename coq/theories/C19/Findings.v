(* Defect of LogicFormula.enumerate_branches on CYCLIC formulas (not imported by Props.v).
   The cycle guard `if index in anc: yield 0, []` yields the EMPTY branch; inside a
   conjunction the empty branch is neutral (chain( *c_br)), i.e. the recursive call is
   treated as TRUE.  The enumerated branches then contain a "proof" that goes around the
   cycle without ever leaving it.
   Witness = the findall_target of
       0.5::e(a,b). 0.5::e(b,c). 0.5::e(c,b). 0.5::e(a,c).
       r(X) :- e(a,X).   r(X) :- r(Y), e(Y,X).   q(L) :- findall(X, r(X), L).
   as dumped from /repo: node 3 = r(b) = e(a,b) \/ (r(c) /\ e(c,b)), node 4 = r(c) = e(a,c) \/ (r(b) /\ e(b,c)).
   Real output: enumerate_branches(3) = [(1,[1]), (8,[2,7]), (8,[5,7])]: the last branch
   e(b,c) /\ e(c,b) does not prove r(b) (least model: false when e(a,b), e(a,c) are false).
   On the real code: P(q([])) = 0.1875 instead of 0.25. *)
From Coq Require Import ZArith NArith List Bool.
From PL.C09 Require Import BoolGraph.
From PL.C19 Require Import ModelSelectSublist ModelBranches.
Import ListNotations.

Definition cyc_g : graph :=
  [NAtom 0; NAtom 1; NOr [1; 8]; NOr [2; 6]; NAtom 2; NAnd [3; 5]; NAtom 3; NAnd [4; 7]]%Z.
(* e(b,c) and e(c,b) true, e(a,b) and e(a,c) false *)
Definition cyc_a (id : N) : bool := (id =? 2)%N || (id =? 3)%N.

Theorem C19_cycle_guard_refuted :
  exists (g : graph) (a : N -> bool) (s : nat -> bool) (c : Z) (bs : list (Z * branch)),
    is_model g a s /\ eb g (default_fuel g) [] c = Some bs /\
    existsb (fun mb => bval s (snd mb)) bs = true /\ lit_val s c = false.
Proof.
  exists cyc_g, cyc_a, (vget (sem cyc_g cyc_a)), 3%Z, [(1, [1]); (8, [2; 7]); (8, [5; 7])]%Z.
  split; [apply is_modelb_sound; vm_compute; reflexivity|].
  split; [vm_compute; reflexivity|]. split; vm_compute; reflexivity.
Qed.
Print Assumptions C19_cycle_guard_refuted.

(* get_node_multiplicity has no cycle guard at all: unbounded recursion (RecursionError in /repo) *)
Example C19_multiplicity_cyclic_diverges : forall fuel, mult cyc_g fuel 3 = None.
Proof.
  assert (H : forall f, mult cyc_g f 3 = None /\ mult cyc_g f 4 = None /\ mult cyc_g f 6 = None /\ mult cyc_g f 8 = None).
  { induction f as [|f (I3 & I4 & I6 & I8)]; [repeat split|].
    repeat split.
    - change (mult cyc_g (S f) 3) with
        (option_map (fun ms => fold_left Nat.add ms 0) (all_some (map (mult cyc_g f) [1; 8]%Z))).
      cbn [map]. rewrite I8. cbn [all_some]. destruct (mult cyc_g f 1); reflexivity.
    - change (mult cyc_g (S f) 4) with
        (option_map (fun ms => fold_left Nat.add ms 0) (all_some (map (mult cyc_g f) [2; 6]%Z))).
      cbn [map]. rewrite I6. cbn [all_some]. destruct (mult cyc_g f 2); reflexivity.
    - change (mult cyc_g (S f) 6) with
        (option_map (fun ms => fold_left Nat.mul ms 1) (all_some (map (mult cyc_g f) [3; 5]%Z))).
      cbn [map]. rewrite I3. reflexivity.
    - change (mult cyc_g (S f) 8) with
        (option_map (fun ms => fold_left Nat.mul ms 1) (all_some (map (mult cyc_g f) [4; 7]%Z))).
      cbn [map]. rewrite I4. reflexivity. }
  intros fuel. apply H.
Qed.
