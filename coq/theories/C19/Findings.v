(* Findings of C19 (not imported by Props.v).
   FIXED in /repo (ecf01bc, fixes/C19-enumerate-branches-cycle-guard.patch): the cycle guard of
   LogicFormula.enumerate_branches yielded the EMPTY branch (`yield 0, []`), which is neutral inside a
   conjunction, so a recursive call cut by the guard counted as TRUE; on the formula below the code
   enumerated the branch e(b,c),e(c,b) as a proof of r(b) (P(q([])) = 0.1875 instead of 0.25).
   The model now mirrors the repaired code (no branch); the former witness `C19_cycle_guard_refuted`
   is replaced by Props.v: C19_branches_equiv_cyclic / C19_branches_example_cyclic, and the harness
   judges the witness program on every run (class findall-cyclic-goal-branch-ignores-recursive-call).
   Still open (dead code, no caller in /repo): get_node_multiplicity has no cycle guard.
   Witness formula = the findall_target of
       0.5::e(a,b). 0.5::e(b,c). 0.5::e(c,b). 0.5::e(a,c).
       r(X) :- e(a,X).   r(X) :- r(Y), e(Y,X).   q(L) :- findall(X, r(X), L).
   node 3 = r(b) = e(a,b) \/ (r(c) /\ e(c,b)), node 4 = r(c) = e(a,c) \/ (r(b) /\ e(b,c)). *)
From Coq Require Import ZArith NArith List Bool.
From PL.C09 Require Import BoolGraph.
From PL.C19 Require Import ModelSelectSublist ModelBranches.
Import ListNotations.

Definition cyc_g : graph :=
  [NAtom 0; NAtom 1; NOr [1; 8]; NOr [2; 6]; NAtom 2; NAnd [3; 5]; NAtom 3; NAnd [4; 7]]%Z.

(* get_node_multiplicity has no cycle guard at all: unbounded recursion (RecursionError in /repo) *)
Example C19_multiplicity_cyclic_diverges : forall fuel, mult cyc_g fuel 3 = None.
Proof.
  assert (H : forall f, mult cyc_g f 3 = None /\ mult cyc_g f 4 = None /\ mult cyc_g f 6 = None /\ mult cyc_g f 8 = None).
  { induction f as [|f (I3 & I4 & I6 & I8)]; [repeat split|].
    repeat split.
    - change (mult cyc_g (S f) 3) with
        (option_map (fun ms => fold_left Nat.add ms 0) (all_some (map (mult cyc_g f) [1; 8]%Z))).
      cbn [map]. rewrite I8. cbn [all_some]. destruct (mult cyc_g f 1); reflexivity.
    - change (mult cyc_g (S f) 4) with
        (option_map (fun ms => fold_left Nat.add ms 0) (all_some (map (mult cyc_g f) [2; 6]%Z))).
      cbn [map]. rewrite I6. cbn [all_some]. destruct (mult cyc_g f 2); reflexivity.
    - change (mult cyc_g (S f) 6) with
        (option_map (fun ms => fold_left Nat.mul ms 1) (all_some (map (mult cyc_g f) [3; 5]%Z))).
      cbn [map]. rewrite I3. reflexivity.
    - change (mult cyc_g (S f) 8) with
        (option_map (fun ms => fold_left Nat.mul ms 1) (all_some (map (mult cyc_g f) [4; 7]%Z))).
      cbn [map]. rewrite I4. reflexivity. }
  intros fuel. apply H.
Qed.
