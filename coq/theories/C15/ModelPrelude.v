(* C15 -- hand-written Gallina meaning of the Python/ProbLog primitives that the
   translated functions of engine_builtin.py call (gen/c15_structcmp.py emits
   calls to these and to nothing else).  No proofs in this file.

   Conventions
   - a value of type [term] that is not a [Term] object is an unbound engine
     variable, i.e. a Python int ([TVar v]); [Var] objects and [None] do not
     occur among the arguments of a builtin in the grounding engine.
   - Python ints are [Z]; a Python float is the [Z] k with value k * 2^-1074
     ([float(i)] of an int i is exact only for |i| < 2^53: the theorems carry
     that bound explicitly, see [ints_bounded]).
   - str values are [text] (code points).  [repr] of a float (needed only when
     a float reaches [str(x.functor)]) is not defined in Coq: it is the section
     variable [fr] of the generated file; theorems hold for every [fr]. *)
From Coq Require Import ZArith NArith List Bool Decimal.
From PL.C15 Require Import ModelStd.
Import ListNotations.

(* what [x.functor] can be *)
Inductive pyfun : Type :=
| FStr (s : text)
| FInt (z : Z)
| FFlt (k : Z).

(* logic.is_variable(term): term is None or type(term) == int or term.is_var() *)
Definition is_variable (t : term) : bool := match t with TVar _ => true | _ => false end.
(* Term.is_var() is False, Var.is_var() is True (never reached for an engine int:
   `or` short-circuits) *)
Definition meth_is_var (t : term) : bool := match t with TVar _ => true | _ => false end.
Definition isinstance_Var (t : term) : bool := false.
Definition isinstance_Term (t : term) : bool := match t with TVar _ => false | _ => true end.
(* Term.is_constant() is False; Constant.is_constant() is True *)
Definition meth_is_constant (t : term) : bool :=
  match t with TInt _ | TFlt _ | TStr _ => true | _ => false end.
(* Constant.is_float / is_integer / is_string : type(self.value) == float/int/str *)
Definition meth_is_float (t : term) : bool := match t with TFlt _ => true | _ => false end.
Definition meth_is_integer (t : term) : bool := match t with TInt _ => true | _ => false end.
Definition meth_is_string (t : term) : bool := match t with TStr _ => true | _ => false end.

Definition arity (t : term) : Z :=
  match t with TFun _ xs => Z.of_nat (length xs) | _ => 0%Z end.
Definition functor (t : term) : pyfun :=
  match t with
  | TFun f _ => FStr f
  | TStr s => FStr s
  | TInt z => FInt z
  | TFlt k => FFlt k
  | TVar v => FInt v
  end.
Definition args (t : term) : list term :=
  match t with TFun _ xs => xs | _ => [] end.

(* `if isinstance(x, Term): x = x.functor` : afterwards x is the functor of a
   Term, or still the engine int *)
Definition var_key (t : term) : pyfun :=
  if isinstance_Term t then functor t else match t with TVar v => FInt v | _ => functor t end.

(* IndexError is not modelled: the translated code guards every index by an
   arity test; the default is an atom with empty name *)
Definition py_error_term : term := TFun [] [].
Definition py_index (l : list term) (i : Z) : term :=
  if Z.ltb i 0 then py_error_term else nth (Z.to_nat i) l py_error_term.
Definition py_tuple_nth (l : list text) (i : Z) : text :=
  let n := Z.of_nat (length l) in
  if Z.ltb i 0 then (if Z.leb (- n) i then nth (Z.to_nat (n + i)) l [] else [])
  else nth (Z.to_nat i) l [].

(* float(t): Constant -> float(value); Term("'-'", x) -> compute_value -> -x.
   Value scaled by 2^1074. *)
Definition minus_quoted : text := [39; 45; 39]%N.
Fixpoint py_float (t : term) : Z :=
  match t with
  | TInt z => (z * fscale)%Z
  | TFlt k => k
  | TFun f [x] => if text_eqb f minus_quoted then (- py_float x)%Z else 0%Z
  | _ => 0%Z
  end.

(* str(int) *)
Fixpoint uint_codes (u : Decimal.uint) : text :=
  match u with
  | Nil => []
  | D0 u => 48%N :: uint_codes u | D1 u => 49%N :: uint_codes u
  | D2 u => 50%N :: uint_codes u | D3 u => 51%N :: uint_codes u
  | D4 u => 52%N :: uint_codes u | D5 u => 53%N :: uint_codes u
  | D6 u => 54%N :: uint_codes u | D7 u => 55%N :: uint_codes u
  | D8 u => 56%N :: uint_codes u | D9 u => 57%N :: uint_codes u
  end.
Definition py_str_Z (z : Z) : text :=
  match Z.to_int z with
  | Decimal.Pos u => uint_codes u
  | Decimal.Neg u => 45%N :: uint_codes u
  end.

Section Repr.
  Variable fr : Z -> text.      (* repr of the double k * 2^-1074 *)
  Definition py_str_functor (f : pyfun) : text :=
    match f with FStr s => s | FInt z => py_str_Z z | FFlt k => fr k end.
  (* str(t): Constant.__str__ is str(self.functor); Term.__str__ (full term
     printing) is not modelled and yields the empty text *)
  Definition py_str_term (t : term) : text :=
    match t with
    | TStr s => s
    | TInt z => py_str_Z z
    | TFlt k => fr k
    | TVar v => py_str_Z v
    | TFun _ _ => []
    end.
End Repr.

(* comparisons; a TypeError (str vs number) is not modelled and yields false *)
Definition py_lt_S (s t : text) : bool := is_Lt (text_cmp s t).
Definition py_gt_S (s t : text) : bool := is_Gt (text_cmp s t).
Definition pyfun_num (f : pyfun) : option Z :=
  match f with FInt z => Some (z * fscale)%Z | FFlt k => Some k | FStr _ => None end.
Definition py_lt_F (f g : pyfun) : bool :=
  match f, g with
  | FStr s, FStr t => py_lt_S s t
  | FInt x, FInt y => Z.ltb x y
  | _, _ => match pyfun_num f, pyfun_num g with Some x, Some y => Z.ltb x y | _, _ => false end
  end.
Definition py_gt_F (f g : pyfun) : bool := py_lt_F g f.
Definition pyfun_eqb (f g : pyfun) : bool :=
  match f, g with
  | FStr s, FStr t => text_eqb s t
  | FInt x, FInt y => Z.eqb x y
  | _, _ => match pyfun_num f, pyfun_num g with Some x, Some y => Z.eqb x y | _, _ => false end
  end.
Definition py_in_F (f : pyfun) (l : list text) : bool :=
  existsb (fun s => pyfun_eqb f (FStr s)) l.

(* check_mode: index of the first accepted mode all of whose tests pass *)
Fixpoint first_mode (i : Z) (modes : list (list bool)) : option Z :=
  match modes with
  | [] => None                       (* CallModeError *)
  | m :: r => if forallb (fun b => b) m then Some i else first_mode (i + 1)%Z r
  end.

(* sorted(xs, key=K): a stable sort that only uses K.__lt__; CPython's
   list.sort is trusted to be one (DESIGN 6.3).  Modelled as left-to-right
   stable insertion. *)
Section Sorted.
  Variable lt : term -> term -> bool.
  Fixpoint py_insert (x : term) (sorted : list term) : list term :=
    match sorted with
    | [] => [x]
    | y :: r => if lt x y then x :: sorted else y :: py_insert x r
    end.
  Definition py_sorted (l : list term) : list term :=
    fold_left (fun acc x => py_insert x acc) l [].
End Sorted.

(* set(xs): iteration yields each Term.__eq__-class once, in an order that
   depends on hashes; [is_py_set xs s] says s is such an iteration order. *)
Definition is_py_set (xs s : list term) : Prop :=
  NoDup s /\ forall x, In x s <-> In x xs.
(* one such order, for evaluation *)
Fixpoint py_set_list (l : list term) : list term :=
  match l with
  | [] => []
  | x :: r => if existsb (term_eqb x) r then py_set_list r else x :: py_set_list r
  end.

Fixpoint term_depth (t : term) : nat :=
  match t with
  | TFun _ xs => S (fold_right (fun x m => Nat.max (term_depth x) m) O xs)
  | _ => O
  end.
(* result of a translated recursive function that ran out of fuel; never a
   comparison result *)
Definition fuel_exhausted : Z := 2%Z.
