(* C15 -- the standard order of terms is a total order; sort_u is the unique
   strictly ascending duplicate-free list with the same elements. *)
From Coq Require Import ZArith NArith PeanoNat List Bool Lia Sorted Permutation.
From PL.C15 Require Import ModelStd.
Import ListNotations.

(* ------------------------------------------------------------------ *)
(* nested induction principle                                          *)
Section TermInd.
  Variable P : term -> Prop.
  Hypothesis HVar : forall v, P (TVar v).
  Hypothesis HInt : forall z, P (TInt z).
  Hypothesis HFlt : forall k, P (TFlt k).
  Hypothesis HStr : forall s, P (TStr s).
  Hypothesis HFun : forall f xs, Forall P xs -> P (TFun f xs).
  Fixpoint term_ind' (t : term) : P t :=
    match t with
    | TVar v => HVar v
    | TInt z => HInt z
    | TFlt k => HFlt k
    | TStr s => HStr s
    | TFun f xs =>
        HFun f xs ((fix go (l : list term) : Forall P l :=
                      match l with
                      | [] => Forall_nil P
                      | x :: l' => Forall_cons x (term_ind' x) (go l')
                      end) xs)
    end.
End TermInd.

(* ------------------------------------------------------------------ *)
(* lex                                                                 *)
Lemma lex_Eq c d : lex c d = Eq <-> c = Eq /\ d = Eq.
Proof. destruct c; cbn; intuition discriminate. Qed.
Lemma lex_Lt c d : lex c d = Lt <-> c = Lt \/ (c = Eq /\ d = Lt).
Proof. destruct c; cbn; intuition discriminate. Qed.
Lemma lex_opp c d : lex (CompOpp c) (CompOpp d) = CompOpp (lex c d).
Proof. destruct c; reflexivity. Qed.

(* ------------------------------------------------------------------ *)
(* list_cmp, generic                                                   *)
Section ListCmpFacts.
  Context {A : Type}.
  Variable cmp : A -> A -> comparison.

  Lemma list_cmp_refl xs :
    Forall (fun x => cmp x x = Eq) xs -> list_cmp cmp xs xs = Eq.
  Proof. induction 1; cbn; auto. rewrite H. exact IHForall. Qed.

  Lemma list_cmp_eq xs :
    Forall (fun x => forall y, cmp x y = Eq -> x = y) xs ->
    forall ys, list_cmp cmp xs ys = Eq -> xs = ys.
  Proof.
    induction 1 as [|x xs Hx _ IH]; intros [|y ys] E; cbn in E; try discriminate; auto.
    apply lex_Eq in E. destruct E as [E1 E2].
    f_equal; auto.
  Qed.

  Lemma list_cmp_opp xs :
    Forall (fun x => forall y, cmp y x = CompOpp (cmp x y)) xs ->
    forall ys, list_cmp cmp ys xs = CompOpp (list_cmp cmp xs ys).
  Proof.
    induction 1 as [|x xs Hx _ IH]; intros [|y ys]; cbn; auto.
    rewrite Hx, IH. apply lex_opp.
  Qed.

  Lemma list_cmp_trans :
    (forall x y, cmp x y = Eq -> x = y) ->
    forall xs,
    Forall (fun x => forall y z, cmp x y = Lt -> cmp y z = Lt -> cmp x z = Lt) xs ->
    forall ys zs, list_cmp cmp xs ys = Lt -> list_cmp cmp ys zs = Lt ->
                  list_cmp cmp xs zs = Lt.
  Proof.
    intros Heq xs F. induction F as [|x xs Hx _ IH]; intros [|y ys] [|z zs] H1 H2;
      cbn in *; try discriminate; auto.
    apply lex_Lt in H1. apply lex_Lt in H2. apply lex_Lt.
    destruct H1 as [H1|[H1 H1']], H2 as [H2|[H2 H2']].
    - left. eauto.
    - apply Heq in H2. subst z. left. exact H1.
    - apply Heq in H1. subst y. left. exact H2.
    - apply Heq in H1. subst y. right. split; [exact H2|]. eauto.
  Qed.
End ListCmpFacts.

(* ------------------------------------------------------------------ *)
(* text                                                                *)
Lemma text_cmp_refl s : text_cmp s s = Eq.
Proof. apply list_cmp_refl. apply Forall_forall. intros. apply N.compare_refl. Qed.
Lemma text_cmp_eq s t : text_cmp s t = Eq -> s = t.
Proof.
  apply list_cmp_eq. apply Forall_forall. intros x _ y. apply N.compare_eq.
Qed.
Lemma text_cmp_opp s t : text_cmp t s = CompOpp (text_cmp s t).
Proof.
  apply list_cmp_opp. apply Forall_forall. intros x _ y. apply N.compare_antisym.
Qed.
Lemma text_cmp_trans s t u : text_cmp s t = Lt -> text_cmp t u = Lt -> text_cmp s u = Lt.
Proof.
  apply list_cmp_trans.
  - intros x y. apply N.compare_eq.
  - apply Forall_forall. intros x _ y z. rewrite !N.compare_lt_iff. apply N.lt_trans.
Qed.

(* ------------------------------------------------------------------ *)
(* numbers                                                             *)
Lemma fscale_pos : (0 < fscale)%Z.
Proof. unfold fscale. rewrite Z.shiftl_mul_pow2 by lia. apply Z.mul_pos_pos; [lia|]. apply Z.pow_pos_nonneg; lia. Qed.
Lemma fscale_pow : fscale = (2 ^ 1074)%Z.
Proof. unfold fscale. rewrite Z.shiftl_mul_pow2 by lia. apply Z.mul_1_l. Qed.
Lemma int_bound_pow : int_bound = (2 ^ 53)%Z.
Proof. reflexivity. Qed.

Definition isnum (t : term) : Prop :=
  match t with TInt _ | TFlt _ => True | _ => False end.

Lemma num_cmp_refl a : num_cmp a a = Eq.
Proof. unfold num_cmp. rewrite !Z.compare_refl. reflexivity. Qed.
Lemma num_cmp_opp a b : num_cmp b a = CompOpp (num_cmp a b).
Proof.
  unfold num_cmp.
  rewrite (Z.compare_antisym (num_val a)), (Z.compare_antisym (num_tag a)).
  apply lex_opp.
Qed.
Lemma num_cmp_eq a b : isnum a -> isnum b -> num_cmp a b = Eq -> a = b.
Proof.
  unfold num_cmp. intros Ha Hb H. apply lex_Eq in H. destruct H as [H1 H2].
  apply Z.compare_eq in H1. apply Z.compare_eq in H2.
  pose proof fscale_pos as P.
  destruct a, b; cbn in *; try contradiction; try discriminate; try lia.
  - f_equal. apply Z.mul_reg_r in H1; lia.
  - f_equal. exact H1.
Qed.
Lemma num_cmp_trans a b c : num_cmp a b = Lt -> num_cmp b c = Lt -> num_cmp a c = Lt.
Proof.
  unfold num_cmp. rewrite !lex_Lt, !Z.compare_lt_iff, !Z.compare_eq_iff. lia.
Qed.

(* ------------------------------------------------------------------ *)
(* the order on terms                                                  *)
Section StdFacts.
  Variable sa : bool.
  Notation cmp := (std_cmp_gen sa).

  Definition same_class (a b : term) : comparison :=
    match a, b with
    | TVar x, TVar y => Z.compare x y
    | TStr s, TStr t => text_cmp s t
    | TFun f xs, TFun g ys =>
        lex (Nat.compare (length xs) (length ys))
            (lex (text_cmp f g) (list_cmp cmp xs ys))
    | _, _ => num_cmp a b
    end.

  Lemma cmp_unfold a b :
    cmp a b = match Nat.compare (rank sa a) (rank sa b) with
              | Eq => same_class a b
              | c => c
              end.
  Proof. destruct a; reflexivity. Qed.

  Inductive same_kind : term -> term -> Prop :=
  | SKvar x y : same_kind (TVar x) (TVar y)
  | SKstr s t : same_kind (TStr s) (TStr t)
  | SKfun f xs g ys : same_kind (TFun f xs) (TFun g ys)
  | SKnum a b : isnum a -> isnum b -> same_kind a b.

  Lemma same_rank a b : rank sa a = rank sa b -> same_kind a b.
  Proof.
    destruct a as [x|x|x|s|f [|x xs]], b as [y|y|y|t|g [|y ys]], sa; cbn;
      intros H; try discriminate; constructor; cbn; auto.
  Qed.

  Lemma same_class_num a b : isnum a -> isnum b -> same_class a b = num_cmp a b.
  Proof. destruct a, b; cbn; intros; try contradiction; reflexivity. Qed.

  Lemma cmp_lt_rank a b : (rank sa a < rank sa b)%nat -> cmp a b = Lt.
  Proof. intros H. rewrite cmp_unfold. apply Nat.compare_lt_iff in H. rewrite H. reflexivity. Qed.

  Lemma cmp_Lt_rank_le a b : cmp a b = Lt -> (rank sa a <= rank sa b)%nat.
  Proof.
    rewrite cmp_unfold. destruct (Nat.compare_spec (rank sa a) (rank sa b)); intros; try lia.
    discriminate.
  Qed.

  Theorem cmp_refl : forall a, cmp a a = Eq.
  Proof.
    induction a using term_ind'; rewrite cmp_unfold, Nat.compare_refl; cbn.
    - apply Z.compare_refl.
    - apply num_cmp_refl.
    - apply num_cmp_refl.
    - apply text_cmp_refl.
    - rewrite Nat.compare_refl, text_cmp_refl. cbn. apply list_cmp_refl. exact H.
  Qed.

  Ltac kill_isnum :=
    try match goal with H : isnum ?t |- _ => solve [cbn in H; contradiction] end.

  Theorem cmp_eq : forall a b, cmp a b = Eq -> a = b.
  Proof.
    induction a using term_ind'; intros b E; rewrite cmp_unfold in E;
      (match type of E with context[Nat.compare ?x ?y] =>
         destruct (Nat.compare_spec x y) as [R|R|R] end); try discriminate;
      apply same_rank in R; inversion R; subst; kill_isnum.
    - cbn in E. apply Z.compare_eq in E. congruence.
    - rewrite same_class_num in E by assumption. apply num_cmp_eq in E; assumption.
    - rewrite same_class_num in E by assumption. apply num_cmp_eq in E; assumption.
    - cbn in E. apply text_cmp_eq in E. congruence.
    - cbn in E. apply lex_Eq in E. destruct E as [_ E]. apply lex_Eq in E. destruct E as [E1 E2].
      apply text_cmp_eq in E1. subst g. f_equal.
      eapply list_cmp_eq; [|exact E2]. exact H.
  Qed.

  Theorem cmp_opp : forall a b, cmp b a = CompOpp (cmp a b).
  Proof.
    induction a using term_ind'; intros b;
      (match goal with |- cmp b ?a = _ => rewrite (cmp_unfold b a), (cmp_unfold a b);
         rewrite (Nat.compare_antisym (rank sa a) (rank sa b));
         destruct (Nat.compare_spec (rank sa a) (rank sa b)) as [R|R|R] end);
      cbn [CompOpp]; try reflexivity;
      apply same_rank in R; inversion R; subst; kill_isnum.
    - cbn. apply Z.compare_antisym.
    - rewrite !same_class_num by assumption. apply num_cmp_opp.
    - rewrite !same_class_num by assumption. apply num_cmp_opp.
    - cbn. apply text_cmp_opp.
    - cbn. rewrite (Nat.compare_antisym (length xs)), (text_cmp_opp f), (list_cmp_opp _ xs H).
      rewrite !lex_opp. reflexivity.
  Qed.

  Theorem cmp_trans : forall a b c, cmp a b = Lt -> cmp b c = Lt -> cmp a c = Lt.
  Proof.
    induction a using term_ind'; intros b c H1 H2;
      pose proof (cmp_Lt_rank_le _ _ H1) as R1; pose proof (cmp_Lt_rank_le _ _ H2) as R2;
      (destruct (Nat.eq_dec (rank sa b) (rank sa c)) as [Rbc|Rbc];
       [|apply cmp_lt_rank; lia]);
      (match goal with |- cmp ?a c = Lt =>
         destruct (Nat.eq_dec (rank sa a) (rank sa b)) as [Rab|Rab]; [|apply cmp_lt_rank; lia] end);
      rewrite cmp_unfold in H1, H2 |- *;
      rewrite Rab, Nat.compare_refl in H1; rewrite Rbc, Nat.compare_refl in H2;
      rewrite Rab, Rbc, Nat.compare_refl;
      pose proof (same_rank _ _ Rab) as K1; pose proof (same_rank _ _ Rbc) as K2;
      inversion K1; subst; kill_isnum; inversion K2; subst; kill_isnum.
    - cbn in *. rewrite Z.compare_lt_iff in *. lia.
    - rewrite same_class_num in * by assumption. eapply num_cmp_trans; eassumption.
    - rewrite same_class_num in * by assumption. eapply num_cmp_trans; eassumption.
    - cbn in *. eapply text_cmp_trans; eassumption.
    - cbn in H1, H2 |- *. clear K1 K2 Rab Rbc R1 R2. rename ys0 into zs. rename g0 into h.
      rewrite lex_Lt in H1, H2 |- *. rewrite !Nat.compare_lt_iff, !Nat.compare_eq_iff in *.
      destruct H1 as [H1|[L1 H1]], H2 as [H2|[L2 H2]]; try (left; lia).
      right. split; [lia|].
      rewrite lex_Lt in H1, H2 |- *.
      destruct H1 as [H1|[N1 H1]], H2 as [H2|[N2 H2]].
      + left. eapply text_cmp_trans; eassumption.
      + apply text_cmp_eq in N2. subst. left. exact H1.
      + apply text_cmp_eq in N1. subst. left. exact H2.
      + apply text_cmp_eq in N1. apply text_cmp_eq in N2. subst. right.
        split; [apply text_cmp_refl|].
        eapply list_cmp_trans; [exact cmp_eq|exact H|exact H1|exact H2].
  Qed.

  Corollary cmp_total : forall a b, cmp a b = Lt \/ a = b \/ cmp b a = Lt.
  Proof.
    intros a b. destruct (cmp a b) eqn:E.
    - right. left. apply cmp_eq. exact E.
    - left. reflexivity.
    - right. right. rewrite cmp_opp, E. reflexivity.
  Qed.

  Lemma cmp_Gt_Lt a b : cmp a b = Gt <-> cmp b a = Lt.
  Proof. rewrite (cmp_opp a b). destruct (cmp a b); cbn; intuition discriminate. Qed.

  Lemma cmp_irrefl a : cmp a a <> Lt.
  Proof. rewrite cmp_refl. discriminate. Qed.
End StdFacts.

(* ------------------------------------------------------------------ *)
(* sort_u: for any comparator that is a total order                     *)
Section SortFacts.
  Variable cmp : term -> term -> comparison.
  Hypothesis Hrefl : forall a, cmp a a = Eq.
  Hypothesis Heq : forall a b, cmp a b = Eq -> a = b.
  Hypothesis Hopp : forall a b, cmp b a = CompOpp (cmp a b).
  Hypothesis Htrans : forall a b c, cmp a b = Lt -> cmp b c = Lt -> cmp a c = Lt.

  Definition ltR (a b : term) : Prop := cmp a b = Lt.

  Lemma ltR_irrefl a : ~ ltR a a.
  Proof. unfold ltR. rewrite Hrefl. discriminate. Qed.

  Lemma Gt_ltR a b : cmp a b = Gt -> ltR b a.
  Proof. unfold ltR. intros H. rewrite (Hopp a b), H. reflexivity. Qed.

  Lemma insert_u_In x l y : In y (insert_u cmp x l) <-> y = x \/ In y l.
  Proof.
    induction l as [|z l IH]; cbn.
    - intuition.
    - destruct (cmp x z) eqn:E; cbn.
      + apply Heq in E. subst z. intuition.
      + intuition.
      + rewrite IH. intuition.
  Qed.

  Lemma insert_u_sorted x l :
    StronglySorted ltR l -> StronglySorted ltR (insert_u cmp x l).
  Proof.
    induction 1 as [|z l S IH F]; cbn.
    - constructor; constructor.
    - destruct (cmp x z) eqn:E.
      + constructor; assumption.
      + constructor; [constructor; assumption|].
        constructor; [exact E|].
        eapply Forall_impl; [|exact F]. intros w Hw. eapply Htrans; eassumption.
      + constructor; [exact IH|].
        apply Forall_forall. intros w Hw. apply insert_u_In in Hw. destruct Hw as [->|Hw].
        * apply Gt_ltR. exact E.
        * rewrite Forall_forall in F. auto.
  Qed.

  Theorem sort_u_sorted l : StronglySorted ltR (sort_u cmp l).
  Proof. induction l; cbn; [constructor|apply insert_u_sorted; assumption]. Qed.

  Theorem sort_u_In l x : In x (sort_u cmp l) <-> In x l.
  Proof.
    induction l as [|y l IH]; cbn; [tauto|].
    rewrite insert_u_In, IH. intuition.
  Qed.

  Lemma sorted_NoDup l : StronglySorted ltR l -> NoDup l.
  Proof.
    induction 1 as [|z l S IH F]; constructor; auto.
    intros Hin. rewrite Forall_forall in F. apply (ltR_irrefl z). auto.
  Qed.

  Theorem sort_u_NoDup l : NoDup (sort_u cmp l).
  Proof. apply sorted_NoDup, sort_u_sorted. Qed.

  Theorem sorted_unique l1 :
    StronglySorted ltR l1 -> forall l2, StronglySorted ltR l2 ->
    (forall x, In x l1 <-> In x l2) -> l1 = l2.
  Proof.
    induction 1 as [|a l1 S1 IH F1]; intros l2 S2 Hin.
    - destruct l2 as [|b l2]; [reflexivity|]. exfalso. apply (Hin b). left. reflexivity.
    - destruct S2 as [|b l2 S2 F2].
      + exfalso. apply (Hin a). left. reflexivity.
      + rewrite Forall_forall in F1, F2.
        assert (a = b) as <-.
        { destruct (proj1 (Hin a) (or_introl eq_refl)) as [E|Ha]; [auto|].
          destruct (proj2 (Hin b) (or_introl eq_refl)) as [E|Hb]; [auto|].
          exfalso. apply (ltR_irrefl a). eapply Htrans; [apply F1|apply F2]; assumption. }
        f_equal. apply IH; [exact S2|].
        intros x. split; intros Hx.
        * destruct (proj1 (Hin x) (or_intror Hx)) as [E|Hx']; [|exact Hx'].
          subst x. exfalso. apply (ltR_irrefl a). auto.
        * destruct (proj2 (Hin x) (or_intror Hx)) as [E|Hx']; [|exact Hx'].
          subst x. exfalso. apply (ltR_irrefl a). auto.
  Qed.

  (* sort_u is THE strictly ascending list with the elements of l *)
  Corollary sort_u_unique l r :
    StronglySorted ltR r -> (forall x, In x r <-> In x l) -> r = sort_u cmp l.
  Proof.
    intros S H. apply sorted_unique; [exact S|apply sort_u_sorted|].
    intros x. rewrite H, sort_u_In. tauto.
  Qed.

  Corollary sort_u_perm_invariant l l' :
    (forall x, In x l <-> In x l') -> sort_u cmp l = sort_u cmp l'.
  Proof.
    intros H. apply sort_u_unique; [apply sort_u_sorted|].
    intros x. rewrite sort_u_In. specialize (H x). tauto.
  Qed.
End SortFacts.
