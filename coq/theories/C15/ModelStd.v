(* C15 -- spec-level definitions: terms, the standard order of terms, sort/2.
   No proofs in this file (it is evaluated by the harness as the judge's
   Coq-side reference and must keep running when a proof breaks).

   Reference (DESIGN 6.4; SWI-Prolog manual 4.6.1 "Standard Order of Terms"):
     Var < Number < Atom < String < Compound
     - variables by address (here: by their engine index),
     - numbers by value; mixed int/float compared by value; if equal, Float < Int,
     - atoms and strings by text (code points),
     - compound terms by arity, then name, then arguments left to right.
   ProbLog documents Var < Number < String < Atom < Compound (engine_builtin.py,
   comment in struct_cmp).  The property text does not mention strings, and
   DESIGN 6.4 records the string-vs-atom position without making it an
   obligation; the order is therefore parametrised by [sa] ("strings before
   atoms"): [sa = false] is SWI-7, [sa = true] is ProbLog's documented order.
   Both are proved to be total orders. *)
From Coq Require Import ZArith NArith List Bool.
Import ListNotations.

Definition text := list N.          (* code points *)

(* Terms as the engine hands them to a builtin:
     TVar v      an unbound engine variable (a Python int)
     TInt z      Constant(int)
     TFlt k      Constant(float) with the finite double  k * 2^-1074  (every
                 finite binary64 value is an integer multiple of 2^-1074, so
                 this representation is canonical and exact)
     TStr s      Constant(str): s is the raw text, including the double quotes
     TFun f xs   Term(f, *xs): f is the raw functor text as stored by ProbLog
                 (quoted atoms keep their single quotes, operators are stored
                 quoted: "'-'"); an atom is TFun f []. *)
Inductive term : Type :=
| TVar (v : Z)
| TInt (z : Z)
| TFlt (k : Z)
| TStr (s : text)
| TFun (f : text) (args : list term).

(* 2^1074, written as a shift so that evaluating it is 1074 constructor steps *)
Definition fscale : Z := Z.shiftl 1 1074.
Arguments fscale : simpl never.

Definition lex (c d : comparison) : comparison :=
  match c with Eq => d | _ => c end.

Section ListCmp.
  Context {A : Type}.
  Variable cmp : A -> A -> comparison.
  (* lexicographic; a proper prefix is smaller *)
  Fixpoint list_cmp (xs ys : list A) : comparison :=
    match xs, ys with
    | [], [] => Eq
    | [], _ :: _ => Lt
    | _ :: _, [] => Gt
    | x :: xs', y :: ys' => lex (cmp x y) (list_cmp xs' ys')
    end.
End ListCmp.

Definition text_cmp : text -> text -> comparison := list_cmp N.compare.

(* The atom denoted by a raw functor text: one pair of enclosing single quotes
   is removed (no escape processing: the parser of ProbLog accepts neither ''
   nor \' inside quoted atoms). *)
Definition quote : N := 39%N.
Fixpoint drop_last_quote (s : text) : option text :=
  match s with
  | [] => None
  | [c] => if N.eqb c quote then Some [] else None
  | c :: s' => match drop_last_quote s' with Some r => Some (c :: r) | None => None end
  end.
Definition atom_text (f : text) : text :=
  match f with
  | c :: s => if N.eqb c quote then match drop_last_quote s with Some r => r | None => f end else f
  | [] => f
  end.

Definition num_val (t : term) : Z :=
  match t with TInt z => z * fscale | TFlt k => k | _ => 0 end%Z.
Definition num_tag (t : term) : Z :=
  match t with TFlt _ => 0 | _ => 1 end%Z.
Definition num_cmp (a b : term) : comparison :=
  lex (Z.compare (num_val a) (num_val b)) (Z.compare (num_tag a) (num_tag b)).

Definition rank (sa : bool) (t : term) : nat :=
  match t with
  | TVar _ => 0
  | TInt _ | TFlt _ => 1
  | TStr _ => if sa then 2 else 3
  | TFun _ [] => if sa then 3 else 2
  | TFun _ (_ :: _) => 4
  end.

Section Std.
  Variable sa : bool.
  Fixpoint std_cmp_gen (a b : term) {struct a} : comparison :=
    match Nat.compare (rank sa a) (rank sa b) with
    | Eq =>
      match a, b with
      | TVar x, TVar y => Z.compare x y
      | TStr s, TStr t => text_cmp s t
      | TFun f xs, TFun g ys =>
          lex (Nat.compare (length xs) (length ys))
              (lex (text_cmp f g) (list_cmp std_cmp_gen xs ys))
      | _, _ => num_cmp a b
      end
    | c => c
    end.
End Std.

(* The order above compares functor names as given.  ProbLog stores the raw
   spelling; [denote] maps a raw term to the term it denotes (every functor
   replaced by its atom text).  The property is about denoted terms:
   'abc' and abc are the same atom. *)
Fixpoint denote (t : term) : term :=
  match t with
  | TFun f xs => TFun (atom_text f) (map denote xs)
  | _ => t
  end.

(* SWI-Prolog 7 order, and ProbLog's documented order *)
Definition std_cmp : term -> term -> comparison := std_cmp_gen false.
Definition plg_cmp : term -> term -> comparison := std_cmp_gen true.

Definition cmpZ (c : comparison) : Z :=
  match c with Lt => (-1)%Z | Eq => 0%Z | Gt => 1%Z end.

Definition order_token (c : comparison) : text :=
  match c with Lt => [39; 60; 39] | Eq => [39; 61; 39] | Gt => [39; 62; 39] end%N.

Definition is_Lt (c : comparison) : bool := match c with Lt => true | _ => false end.
Definition is_Eq (c : comparison) : bool := match c with Eq => true | _ => false end.
Definition is_Gt (c : comparison) : bool := match c with Gt => true | _ => false end.

(* sort/2: strictly ascending, duplicate-free *)
Section Sort.
  Variable cmp : term -> term -> comparison.
  Fixpoint insert_u (x : term) (l : list term) : list term :=
    match l with
    | [] => [x]
    | y :: l' => match cmp x y with
                 | Lt => x :: l
                 | Eq => l
                 | Gt => y :: insert_u x l'
                 end
    end.
  Definition sort_u (l : list term) : list term := fold_right insert_u [] l.
End Sort.
Definition std_sort := sort_u std_cmp.
Definition plg_sort := sort_u plg_cmp.

(* structural equality (= Term.__eq__ on terms of this shape) *)
Fixpoint text_eqb (s t : text) : bool :=
  match s, t with
  | [], [] => true
  | x :: s', y :: t' => N.eqb x y && text_eqb s' t'
  | _, _ => false
  end.
Fixpoint term_eqb (a b : term) {struct a} : bool :=
  match a, b with
  | TVar x, TVar y => Z.eqb x y
  | TInt x, TInt y => Z.eqb x y
  | TFlt x, TFlt y => Z.eqb x y
  | TStr s, TStr t => text_eqb s t
  | TFun f xs, TFun g ys =>
      text_eqb f g &&
      (fix go (xs ys : list term) : bool :=
         match xs, ys with
         | [], [] => true
         | x :: xs', y :: ys' => term_eqb x y && go xs' ys'
         | _, _ => false
         end) xs ys
  | _, _ => false
  end.
Fixpoint list_eqb (l m : list term) : bool :=
  match l, m with
  | [], [] => true
  | x :: l', y :: m' => term_eqb x y && list_eqb l' m'
  | _, _ => false
  end.

(* domains *)
Definition unquoted (f : text) : bool :=
  match f with c :: _ => negb (N.eqb c quote) | [] => true end.
Definition int_bound : Z := Z.shiftl 1 53.
Fixpoint names_unquoted (t : term) : bool :=
  match t with
  | TFun f xs => unquoted f && forallb names_unquoted xs
  | _ => true
  end.
Fixpoint ints_bounded (t : term) : bool :=
  match t with
  | TInt z => Z.ltb (Z.abs z) int_bound
  | TFun _ xs => forallb ints_bounded xs
  | _ => true
  end.
Fixpoint no_strings (t : term) : bool :=
  match t with
  | TStr _ => false
  | TFun _ xs => forallb no_strings xs
  | _ => true
  end.
Fixpoint ground (t : term) : bool :=
  match t with
  | TVar _ => false
  | TFun _ xs => forallb ground xs
  | _ => true
  end.
(* the domain of the full-strength theorems: functor names stored unquoted,
   integers exactly representable as doubles *)
Definition dom (t : term) : bool := names_unquoted t && ints_bounded t.
(* the narrow domain on which the pinned source is correct: additionally all
   numbers are integers 0..9 (one decimal digit) *)
Fixpoint digits_only (t : term) : bool :=
  match t with
  | TInt z => Z.leb 0 z && Z.leb z 9
  | TFlt _ => false
  | TFun _ xs => forallb digits_only xs
  | _ => true
  end.
Definition dom_digits (t : term) : bool := names_unquoted t && digits_only t.
