(* C15 -- Term comparison and sort/2 follow the standard order of terms.
   Only statements, closed by `exact`.

   Part 1 (spec): the standard order is a total order and sort_u is the unique
   strictly ascending duplicate-free list -- about ModelStd only.
   Part 2 (code): the model generated from problog/engine_builtin.py
   (GenStructCmp.v, regenerated on every run) against that order, on the domain
   [dom]: functor names stored unquoted (the remaining known findings: quoted
   atoms and the compound '-'(N), witnesses in Findings.v), integers |z| < 2^53
   (comparison goes through float()), any finite float, strings, variables
   (engine ints).  History: before fix 24d7f1d (`return res` in the number branch
   of struct_cmp) the code theorems only held for one-digit integers; the
   witnesses 10 vs 9 and sort([10,9,2,1]) are kept in corpus/C15.
   [fr] is Python's repr of a float, left abstract. *)
From Coq Require Import ZArith NArith List Bool Sorted.
From PL.C15 Require Import ModelStd ModelPrelude GenStructCmp ProofsStd ProofsSort ProofsGen ProofsFixed.
Import ListNotations.

(* ---------------------------------------------------------------- spec *)
(* [sa] = false: SWI-Prolog 7 order (Var < Number < Atom < String < Compound);
   [sa] = true: the order ProbLog documents (String before Atom). *)
Theorem C15_order_refl : forall sa a, std_cmp_gen sa a a = Eq.
Proof. exact cmp_refl. Qed.
Print Assumptions C15_order_refl.

Theorem C15_order_antisym : forall sa a b, std_cmp_gen sa a b = Eq -> a = b.
Proof. exact cmp_eq. Qed.
Print Assumptions C15_order_antisym.

Theorem C15_order_opp : forall sa a b, std_cmp_gen sa b a = CompOpp (std_cmp_gen sa a b).
Proof. exact cmp_opp. Qed.
Print Assumptions C15_order_opp.

Theorem C15_order_trans : forall sa a b c,
  std_cmp_gen sa a b = Lt -> std_cmp_gen sa b c = Lt -> std_cmp_gen sa a c = Lt.
Proof. exact cmp_trans. Qed.
Print Assumptions C15_order_trans.

Theorem C15_order_total : forall sa a b,
  std_cmp_gen sa a b = Lt \/ a = b \/ std_cmp_gen sa b a = Lt.
Proof. exact cmp_total. Qed.
Print Assumptions C15_order_total.

(* without strings the two orders coincide (the property text has no strings) *)
Theorem C15_order_nostr : forall a b,
  no_strings a = true -> no_strings b = true -> plg_cmp a b = std_cmp a b.
Proof. exact plg_std_nostr. Qed.
Print Assumptions C15_order_nostr.

Theorem C15_sort_ascending : forall sa l,
  StronglySorted (fun a b => std_cmp_gen sa a b = Lt) (sort_u (std_cmp_gen sa) l).
Proof.
  exact (fun sa => sort_u_sorted (std_cmp_gen sa) (cmp_eq sa) (cmp_opp sa) (cmp_trans sa)).
Qed.
Print Assumptions C15_sort_ascending.

Theorem C15_sort_same_elements : forall sa l x, In x (sort_u (std_cmp_gen sa) l) <-> In x l.
Proof. exact (fun sa => sort_u_In (std_cmp_gen sa) (cmp_eq sa)). Qed.
Print Assumptions C15_sort_same_elements.

Theorem C15_sort_duplicate_free : forall sa l, NoDup (sort_u (std_cmp_gen sa) l).
Proof.
  exact (fun sa => sort_u_NoDup (std_cmp_gen sa) (cmp_refl sa) (cmp_eq sa) (cmp_opp sa) (cmp_trans sa)).
Qed.
Print Assumptions C15_sort_duplicate_free.

Theorem C15_sort_unique : forall sa l r,
  StronglySorted (fun a b => std_cmp_gen sa a b = Lt) r -> (forall x, In x r <-> In x l) ->
  r = sort_u (std_cmp_gen sa) l.
Proof.
  exact (fun sa => sort_u_unique (std_cmp_gen sa) (cmp_refl sa) (cmp_eq sa) (cmp_opp sa) (cmp_trans sa)).
Qed.
Print Assumptions C15_sort_unique.

(* ---------------------------------------------------------------- code *)
Theorem C15_cmp_is_std : forall fr a b,
  dom a = true -> dom b = true ->
  struct_cmp fr a b = cmpZ (plg_cmp (denote a) (denote b)).
Proof. exact struct_cmp_dom_denote. Qed.
Print Assumptions C15_cmp_is_std.

(* the SWI-Prolog order when no strings are involved *)
Theorem C15_cmp_is_swi : forall fr a b,
  dom a = true -> dom b = true -> no_strings a = true -> no_strings b = true ->
  struct_cmp fr a b = cmpZ (std_cmp (denote a) (denote b)).
Proof. exact struct_cmp_dom_swi. Qed.
Print Assumptions C15_cmp_is_swi.

(* @<, @=<, @>, @>= *)
Theorem C15_ops : forall fr a b,
  dom a = true -> dom b = true ->
  _builtin_struct_lt fr a b = is_Lt (plg_cmp a b) /\
  _builtin_struct_le fr a b = negb (is_Gt (plg_cmp a b)) /\
  _builtin_struct_gt fr a b = is_Gt (plg_cmp a b) /\
  _builtin_struct_ge fr a b = negb (is_Lt (plg_cmp a b)).
Proof. exact ops_dom. Qed.
Print Assumptions C15_ops.

(* ==, \== (Term.__eq__ is hand-modelled as structural equality): every term *)
Theorem C15_same : forall a b,
  _builtin_same a b = is_Eq (plg_cmp a b) /\ _builtin_notsame a b = negb (is_Eq (plg_cmp a b)).
Proof. exact (fun a b => conj (same_spec a b) (notsame_spec a b)). Qed.
Print Assumptions C15_same.

(* compare/3: the order atom that is returned (order unbound) / accepted (order given) *)
Theorem C15_compare3 : forall fr a b,
  dom a = true -> dom b = true ->
  _builtin_compare_answer fr a b = TFun (order_token (plg_cmp a b)) [] /\
  forall tok, _builtin_compare_check fr (TFun tok []) a b = text_eqb (order_token (plg_cmp a b)) tok.
Proof. exact compare3_dom. Qed.
Print Assumptions C15_compare3.

Theorem C15_compare3_modes : forall a b,
  (forall v, _builtin_compare_mode (TVar v) a b = Some 1%Z) /\
  (forall c, _builtin_compare_mode (TFun (order_token c) []) a b = Some 0%Z).
Proof. exact compare3_modes. Qed.
Print Assumptions C15_compare3_modes.

(* sort/2: sorted(set(elements), key=StructSort) for every iteration order of the set *)
Theorem C15_sort : forall fr xs s,
  Forall (fun x => dom x = true) xs -> is_py_set xs s ->
  _builtin_sort_sorted fr s = plg_sort xs.
Proof. exact sort_dom. Qed.
Print Assumptions C15_sort.

(* non-vacuity: multi-digit and negative integers, floats, strings *)
Example C15_ex_dom :
  dom (TFun [102] [TInt (-30); TFlt 5; TFun [97] []; TStr [34; 120; 34]; TInt 9007199254740991])%N = true.
Proof. reflexivity. Qed.
Example C15_ex_cmp : forall fr, struct_cmp fr (TInt 10) (TInt 9) = 1%Z.
Proof. intros fr. vm_compute. reflexivity. Qed.
Example C15_ex_sort : forall fr,
  _builtin_sort_sorted fr [TInt 10; TInt 9; TInt 2; TInt 1] = [TInt 1; TInt 2; TInt 9; TInt 10].
Proof. intros fr. vm_compute. reflexivity. Qed.
