(* C15 -- facts about the generated model (GenStructCmp.v) that hold for the
   source before and after fix 24d7f1d (fixes/C15-struct-cmp-number-fallthrough.patch). *)
From Coq Require Import ZArith NArith PeanoNat List Bool Lia Sorted.
From PL.C15 Require Import ModelStd ModelPrelude GenStructCmp ProofsStd ProofsSort.
Import ListNotations.

Arguments py_float : simpl never.
Arguments py_str_Z : simpl never.
Arguments text_cmp : simpl never.

(* ---------------- the order on two TFun terms, without ranks *)
Lemma std_cmp_fun sa f xs g ys :
  std_cmp_gen sa (TFun f xs) (TFun g ys) =
  lex (Nat.compare (length xs) (length ys))
      (lex (text_cmp f g) (list_cmp (std_cmp_gen sa) xs ys)).
Proof. rewrite cmp_unfold. destruct xs, ys, sa; reflexivity. Qed.

(* ---------------- the translated `compare` *)
Lemma compare_Z x y : compare Z.ltb Z.gtb x y = cmpZ (Z.compare x y).
Proof.
  unfold compare. rewrite Z.gtb_ltb.
  destruct (Z.compare_spec x y) as [E|E|E].
  - subst. rewrite Z.ltb_irrefl. reflexivity.
  - apply Z.ltb_lt in E as E'. rewrite E'. reflexivity.
  - assert (Z.ltb x y = false) as -> by (apply Z.ltb_ge; lia).
    apply Z.ltb_lt in E. rewrite E. reflexivity.
Qed.
Lemma compare_S s t : compare py_lt_S py_gt_S s t = cmpZ (text_cmp s t).
Proof. unfold compare, py_lt_S, py_gt_S. destruct (text_cmp s t); reflexivity. Qed.
Lemma compare_F_int x y : compare py_lt_F py_gt_F (FInt x) (FInt y) = cmpZ (Z.compare x y).
Proof. unfold py_gt_F. cbn [py_lt_F]. rewrite <- compare_Z. unfold compare. rewrite Z.gtb_ltb. reflexivity. Qed.

Lemma cmpZ_eq0 c : Z.eqb (cmpZ c) 0 = is_Eq c.
Proof. destruct c; reflexivity. Qed.
Lemma cmpZ_lt0 c : Z.ltb (cmpZ c) 0 = is_Lt c.
Proof. destruct c; reflexivity. Qed.
Lemma cmpZ_gt0 c : Z.gtb (cmpZ c) 0 = is_Gt c.
Proof. destruct c; reflexivity. Qed.
Lemma cmpZ_le0 c : Z.leb (cmpZ c) 0 = negb (is_Gt c).
Proof. destruct c; reflexivity. Qed.
Lemma cmpZ_ge0 c : Z.geb (cmpZ c) 0 = negb (is_Lt c).
Proof. destruct c; reflexivity. Qed.

(* ---------------- the translated type tests, per constructor *)
Lemma unquoted_not_minus f : unquoted f = true -> text_eqb f minus_quoted = false.
Proof.
  destruct f as [|c f]; [reflexivity|]. cbn. intros H.
  apply negb_true_iff in H. unfold quote in H. rewrite H. reflexivity.
Qed.

Lemma is_var_var v : _is_var (TVar v) = true. Proof. reflexivity. Qed.
Lemma is_var_int z : _is_var (TInt z) = false. Proof. reflexivity. Qed.
Lemma is_var_flt k : _is_var (TFlt k) = false. Proof. reflexivity. Qed.
Lemma is_var_str s : _is_var (TStr s) = false. Proof. reflexivity. Qed.
Lemma is_var_fun f xs : _is_var (TFun f xs) = false. Proof. reflexivity. Qed.

Lemma is_number_int z : _is_number (TInt z) = true. Proof. reflexivity. Qed.
Lemma is_number_flt k : _is_number (TFlt k) = true. Proof. reflexivity. Qed.
Lemma is_number_str s : _is_number (TStr s) = false. Proof. reflexivity. Qed.
Lemma is_float_int z : _is_float (TInt z) = false. Proof. reflexivity. Qed.
Lemma is_float_flt k : _is_float (TFlt k) = true. Proof. reflexivity. Qed.
Lemma is_integer_int z : _is_integer (TInt z) = true. Proof. reflexivity. Qed.
Lemma is_integer_flt k : _is_integer (TFlt k) = false. Proof. reflexivity. Qed.
Lemma is_string_int z : _is_string (TInt z) = false. Proof. reflexivity. Qed.
Lemma is_string_flt k : _is_string (TFlt k) = false. Proof. reflexivity. Qed.
Lemma is_string_str s : _is_string (TStr s) = true. Proof. reflexivity. Qed.
Lemma is_string_fun f xs : _is_string (TFun f xs) = false. Proof. reflexivity. Qed.

Lemma is_number_fun f xs : unquoted f = true -> _is_number (TFun f xs) = false.
Proof.
  intros H. unfold _is_number, _is_float, _is_integer, _is_float_neg, _is_integer_neg,
    _is_float_pos, _is_integer_pos.
  cbn [_is_constant _is_var is_variable meth_is_var isinstance_Var meth_is_constant orb andb negb functor pyfun_eqb].
  change [39%N; 45%N; 39%N] with minus_quoted. rewrite (unquoted_not_minus f H). rewrite !andb_false_r. reflexivity.
Qed.

#[export] Hint Rewrite is_var_var is_var_int is_var_flt is_var_str is_var_fun
  is_number_int is_number_flt is_number_str is_float_int is_float_flt is_integer_int is_integer_flt
  is_string_int is_string_flt is_string_str is_string_fun : c15gen.
#[export] Hint Rewrite is_number_fun using assumption : c15gen.
#[export] Hint Rewrite compare_Z compare_S compare_F_int cmpZ_eq0 : c15gen.

(* ---------------- struct_cmp against the order, narrow domain (holds with and without the fix) *)
Lemma digits_text x y : (0 <= x <= 9)%Z -> (0 <= y <= 9)%Z ->
  text_cmp (py_str_Z x) (py_str_Z y) = Z.compare x y.
Proof.
  intros Hx Hy.
  assert (Ex : (x = 0 \/ x = 1 \/ x = 2 \/ x = 3 \/ x = 4 \/ x = 5 \/ x = 6 \/ x = 7 \/ x = 8 \/ x = 9)%Z) by lia.
  assert (Ey : (y = 0 \/ y = 1 \/ y = 2 \/ y = 3 \/ y = 4 \/ y = 5 \/ y = 6 \/ y = 7 \/ y = 8 \/ y = 9)%Z) by lia.
  repeat (destruct Ex as [Ex|Ex]); subst x; repeat (destruct Ey as [Ey|Ey]); subst y; reflexivity.
Qed.

Lemma cmp_int_int sa x y : std_cmp_gen sa (TInt x) (TInt y) = Z.compare x y.
Proof.
  cbn. unfold num_cmp. cbn [num_val num_tag]. rewrite <- Zmult_compare_compat_r by (pose proof fscale_pos; lia).
  destruct (x ?= y)%Z; reflexivity.
Qed.

Lemma dom_digits_fun f xs : dom_digits (TFun f xs) = true ->
  unquoted f = true /\ Forall (fun x => dom_digits x = true) xs.
Proof.
  unfold dom_digits. cbn [names_unquoted digits_only]. rewrite !andb_true_iff, !forallb_forall.
  intros [[U N] D]. split; [exact U|]. apply Forall_forall. intros x Hx.
  apply andb_true_iff. auto.
Qed.


Lemma depth_fun_lt f xs n : (term_depth (TFun f xs) < S n)%nat -> Forall (fun x => (term_depth x < n)%nat) xs.
Proof.
  cbn [term_depth]. intros H. apply Nat.succ_lt_mono in H.
  induction xs as [|x xs IH]; constructor; cbn [fold_right] in H; [lia|apply IH; lia].
Qed.

Lemma rank_lt_Lt sa a b : (rank sa a < rank sa b)%nat -> cmpZ (std_cmp_gen sa a b) = (-1)%Z.
Proof. intros H. rewrite cmp_lt_rank by exact H. reflexivity. Qed.
Lemma rank_gt_Gt sa a b : (rank sa b < rank sa a)%nat -> cmpZ (std_cmp_gen sa a b) = 1%Z.
Proof. intros H. rewrite (cmp_opp sa b a), cmp_lt_rank by exact H. reflexivity. Qed.

Ltac rank_tac :=
  unfold plg_cmp;
  first [ rewrite rank_lt_Lt; [reflexivity|] | rewrite rank_gt_Gt; [reflexivity|] ];
  repeat match goal with |- context[rank _ (TFun _ ?l)] => is_var l; destruct l end; cbn; lia.

Lemma struct_cmp_fuel_digits fr : forall n a b,
  (term_depth a < n)%nat -> dom_digits a = true -> dom_digits b = true ->
  struct_cmp_fuel fr n a b = cmpZ (plg_cmp a b).
Proof.
  induction n as [|n IH]; intros a b Hd Ha Hb; [lia|].
  destruct a as [x|x|x|s|f xs], b as [y|y|y|t|g ys]; try discriminate Ha; try discriminate Hb;
  try (apply dom_digits_fun in Ha; destruct Ha as [Ua Fa]);
  try (apply dom_digits_fun in Hb; destruct Hb as [Ub Fb]);
  cbn [struct_cmp_fuel];
  autorewrite with c15gen; cbn beta iota;
  try (unfold plg_cmp; cbn; reflexivity); try rank_tac.
  - (* var, var *) cbn [var_key isinstance_Term functor]. rewrite compare_F_int. reflexivity.
  - (* int, int *)
    unfold plg_cmp. rewrite cmp_int_int.
    change (py_float (TInt x)) with (x * fscale)%Z. change (py_float (TInt y)) with (y * fscale)%Z.
    rewrite <- Zmult_compare_compat_r by (pose proof fscale_pos; lia).
    unfold dom_digits in Ha, Hb. cbn in Ha, Hb.
    cbn [arity functor py_str_functor args].
    rewrite ?digits_text by lia.
    destruct (x ?= y)%Z; reflexivity.
  - (* fun, fun *)
    unfold plg_cmp. rewrite std_cmp_fun.
    cbn [arity functor py_str_functor args].
    rewrite Nat2Z.inj_compare.
    apply depth_fun_lt in Hd.
    destruct (Nat.compare_spec (length xs) (length ys)) as [L|L|L]; cbn; try reflexivity.
    destruct (text_cmp f g); cbn; try reflexivity.
    clear Ua Ub f g. revert ys Fb L.
    induction xs as [|x xs IHxs]; intros [|y ys] Fb L; try discriminate L; cbn [list_cmp]; [reflexivity|].
    inversion Hd; subst. inversion Fa; subst. inversion Fb; subst.
    rewrite IH by assumption. rewrite cmpZ_eq0.
    fold plg_cmp. destruct (plg_cmp x y); cbn; try reflexivity.
    apply IHxs; auto.
Qed.

Lemma struct_cmp_digits fr a b :
  dom_digits a = true -> dom_digits b = true -> struct_cmp fr a b = cmpZ (plg_cmp a b).
Proof. intros Ha Hb. unfold struct_cmp. apply struct_cmp_fuel_digits; auto. Qed.

(* ---------------- denote is the identity on unquoted names *)
Lemma atom_text_unquoted f : unquoted f = true -> atom_text f = f.
Proof.
  destruct f as [|c f]; [reflexivity|]. cbn. intros H. apply negb_true_iff in H. rewrite H. reflexivity.
Qed.
Lemma denote_unquoted : forall t, names_unquoted t = true -> denote t = t.
Proof.
  induction t using term_ind'; cbn; intros U; try reflexivity.
  apply andb_true_iff in U. destruct U as [U1 U2]. rewrite atom_text_unquoted by exact U1. f_equal.
  rewrite forallb_forall in U2. induction H as [|x xs Hx _ IHxs]; [reflexivity|]. cbn. f_equal.
  - apply Hx. apply U2. left. reflexivity.
  - apply IHxs. intros y Hy. apply U2. right. exact Hy.
Qed.

(* ---------------- without strings ProbLog's documented order is the SWI order *)
Lemma rank_compare_nostr a b : no_strings a = true -> no_strings b = true ->
  Nat.compare (rank true a) (rank true b) = Nat.compare (rank false a) (rank false b).
Proof.
  destruct a as [x|x|x|s|f [|x xs]], b as [y|y|y|t|g [|y ys]]; cbn [no_strings]; intros; try discriminate; reflexivity.
Qed.
Lemma plg_std_nostr : forall a b, no_strings a = true -> no_strings b = true -> plg_cmp a b = std_cmp a b.
Proof.
  unfold plg_cmp, std_cmp.
  induction a using term_ind'; intros b Na Nb; rewrite !cmp_unfold, rank_compare_nostr by assumption;
    destruct (Nat.compare _ _); try reflexivity; destruct b; try reflexivity; try discriminate Na.
  cbn [same_class]. f_equal. f_equal.
  cbn [no_strings] in Na, Nb. rewrite forallb_forall in Na, Nb.
  revert args Nb. induction H as [|x xs Hx _ IHxs]; intros [|y ys] Nb; try reflexivity.
  cbn [list_cmp]. rewrite Hx.
  - f_equal. apply IHxs.
    + intros z Hz. apply Na. right. exact Hz.
    + intros z Hz. apply Nb. right. exact Hz.
  - apply Na. left. reflexivity.
  - apply Nb. left. reflexivity.
Qed.

(* ---------------- consequences for the builtins, for any domain on which
   struct_cmp is the order *)
Section Consequences.
  Variable fr : Z -> text.
  Variable D : term -> bool.
  Hypothesis HD : forall a b, D a = true -> D b = true -> struct_cmp fr a b = cmpZ (plg_cmp a b).

  Lemma lt_spec a b : D a = true -> D b = true -> _builtin_struct_lt fr a b = is_Lt (plg_cmp a b).
  Proof. intros. unfold _builtin_struct_lt. rewrite HD by assumption. apply cmpZ_lt0. Qed.
  Lemma le_spec a b : D a = true -> D b = true -> _builtin_struct_le fr a b = negb (is_Gt (plg_cmp a b)).
  Proof. intros. unfold _builtin_struct_le. rewrite HD by assumption. apply cmpZ_le0. Qed.
  Lemma gt_spec a b : D a = true -> D b = true -> _builtin_struct_gt fr a b = is_Gt (plg_cmp a b).
  Proof. intros. unfold _builtin_struct_gt. rewrite HD by assumption. apply cmpZ_gt0. Qed.
  Lemma ge_spec a b : D a = true -> D b = true -> _builtin_struct_ge fr a b = negb (is_Lt (plg_cmp a b)).
  Proof. intros. unfold _builtin_struct_ge. rewrite HD by assumption. apply cmpZ_ge0. Qed.

  Lemma token_spec a b : D a = true -> D b = true ->
    _builtin_compare_token fr a b = order_token (plg_cmp a b).
  Proof.
    intros. unfold _builtin_compare_token. rewrite HD by assumption.
    destruct (plg_cmp a b); reflexivity.
  Qed.
  Lemma check_spec tok a b : D a = true -> D b = true ->
    _builtin_compare_check fr (TFun tok []) a b = text_eqb (order_token (plg_cmp a b)) tok.
  Proof. intros. unfold _builtin_compare_check. rewrite token_spec by assumption. reflexivity. Qed.
  Lemma answer_spec a b : D a = true -> D b = true ->
    _builtin_compare_answer fr a b = TFun (order_token (plg_cmp a b)) [].
  Proof. intros. unfold _builtin_compare_answer. rewrite token_spec by assumption. reflexivity. Qed.

  Lemma sort_spec xs s : Forall (fun x => D x = true) xs -> is_py_set xs s ->
    _builtin_sort_sorted fr s = plg_sort xs.
  Proof.
    intros F S. unfold _builtin_sort_sorted, plg_sort.
    apply (py_sorted_set plg_cmp (cmp_refl true) (cmp_eq true) (cmp_opp true) (cmp_trans true)); [|exact S].
    rewrite Forall_forall in F. intros x y Hx Hy.
    unfold StructSort__lt__. rewrite HD by auto. apply cmpZ_lt0.
  Qed.
End Consequences.

Lemma same_spec a b : _builtin_same a b = is_Eq (plg_cmp a b).
Proof.
  unfold _builtin_same. destruct (plg_cmp a b) eqn:E.
  - apply cmp_eq in E. subst. apply term_eqb_eq. reflexivity.
  - destruct (term_eqb a b) eqn:T; [|reflexivity]. apply term_eqb_eq in T. subst.
    unfold plg_cmp in E. rewrite cmp_refl in E. discriminate.
  - destruct (term_eqb a b) eqn:T; [|reflexivity]. apply term_eqb_eq in T. subst.
    unfold plg_cmp in E. rewrite cmp_refl in E. discriminate.
Qed.
Lemma notsame_spec a b : _builtin_notsame a b = negb (is_Eq (plg_cmp a b)).
Proof. unfold _builtin_notsame. rewrite <- same_spec. reflexivity. Qed.

Lemma mode_given tok a b :
  In tok [order_token Lt; order_token Eq; order_token Gt] -> _builtin_compare_mode (TFun tok []) a b = Some 0%Z.
Proof. cbn. intros [<-|[<-|[<-|[]]]]; reflexivity. Qed.
Lemma mode_unbound v a b : _builtin_compare_mode (TVar v) a b = Some 1%Z.
Proof. reflexivity. Qed.

(* ---------------- packaged for Props.v *)
Lemma dom_digits_unquoted a : dom_digits a = true -> names_unquoted a = true.
Proof. unfold dom_digits. intros H. apply andb_true_iff in H. tauto. Qed.

Lemma struct_cmp_digits_denote fr a b :
  dom_digits a = true -> dom_digits b = true ->
  struct_cmp fr a b = cmpZ (plg_cmp (denote a) (denote b)).
Proof.
  intros Ha Hb. rewrite !denote_unquoted by (apply dom_digits_unquoted; assumption).
  apply struct_cmp_digits; assumption.
Qed.
Lemma no_strings_denote : forall t, no_strings (denote t) = no_strings t.
Proof.
  induction t using term_ind'; cbn; try reflexivity.
  induction H as [|x xs Hx _ IHxs]; [reflexivity|]. cbn. rewrite Hx, IHxs. reflexivity.
Qed.
Lemma struct_cmp_digits_swi fr a b :
  dom_digits a = true -> dom_digits b = true -> no_strings a = true -> no_strings b = true ->
  struct_cmp fr a b = cmpZ (std_cmp (denote a) (denote b)).
Proof.
  intros Ha Hb Na Nb. rewrite struct_cmp_digits_denote by assumption.
  rewrite plg_std_nostr by (rewrite no_strings_denote; assumption). reflexivity.
Qed.
Lemma ops_digits fr a b :
  dom_digits a = true -> dom_digits b = true ->
  _builtin_struct_lt fr a b = is_Lt (plg_cmp a b) /\
  _builtin_struct_le fr a b = negb (is_Gt (plg_cmp a b)) /\
  _builtin_struct_gt fr a b = is_Gt (plg_cmp a b) /\
  _builtin_struct_ge fr a b = negb (is_Lt (plg_cmp a b)).
Proof.
  intros Ha Hb. pose proof (struct_cmp_digits fr) as HD.
  repeat split; [eapply lt_spec|eapply le_spec|eapply gt_spec|eapply ge_spec]; eauto.
Qed.
Lemma compare3_digits fr a b :
  dom_digits a = true -> dom_digits b = true ->
  _builtin_compare_answer fr a b = TFun (order_token (plg_cmp a b)) [] /\
  forall tok, _builtin_compare_check fr (TFun tok []) a b = text_eqb (order_token (plg_cmp a b)) tok.
Proof.
  intros Ha Hb. pose proof (struct_cmp_digits fr) as HD. split.
  - eapply answer_spec; eauto.
  - intros tok. eapply check_spec; eauto.
Qed.
Lemma compare3_modes a b :
  (forall v, _builtin_compare_mode (TVar v) a b = Some 1%Z) /\
  (forall c, _builtin_compare_mode (TFun (order_token c) []) a b = Some 0%Z).
Proof. split; [reflexivity|]. intros []; reflexivity. Qed.
Lemma sort_digits fr xs s :
  Forall (fun x => dom_digits x = true) xs -> is_py_set xs s ->
  _builtin_sort_sorted fr s = plg_sort xs.
Proof. apply sort_spec. apply struct_cmp_digits. Qed.
