(* C15 -- facts about the generated model (GenStructCmp.v) that hold for the
   pinned source and for the source with fixes/C15-struct-cmp-number-fallthrough.patch. *)
From Coq Require Import ZArith NArith PeanoNat List Bool Lia Sorted.
From PL.C15 Require Import ModelStd ModelPrelude GenStructCmp ProofsStd ProofsSort.
Import ListNotations.

Arguments py_float : simpl never.
Arguments py_str_Z : simpl never.
Arguments text_cmp : simpl never.

(* ---------------- the order on two TFun terms, without ranks *)
Lemma std_cmp_fun sa f xs g ys :
  std_cmp_gen sa (TFun f xs) (TFun g ys) =
  lex (Nat.compare (length xs) (length ys))
      (lex (text_cmp f g) (list_cmp (std_cmp_gen sa) xs ys)).
Proof. rewrite cmp_unfold. destruct xs, ys, sa; reflexivity. Qed.

(* ---------------- the translated `compare` *)
Lemma compare_Z x y : compare Z.ltb Z.gtb x y = cmpZ (Z.compare x y).
Proof.
  unfold compare. rewrite Z.gtb_ltb.
  destruct (Z.compare_spec x y) as [E|E|E].
  - subst. rewrite Z.ltb_irrefl. reflexivity.
  - apply Z.ltb_lt in E as E'. rewrite E'. reflexivity.
  - assert (Z.ltb x y = false) as -> by (apply Z.ltb_ge; lia).
    apply Z.ltb_lt in E. rewrite E. reflexivity.
Qed.
Lemma compare_S s t : compare py_lt_S py_gt_S s t = cmpZ (text_cmp s t).
Proof. unfold compare, py_lt_S, py_gt_S. destruct (text_cmp s t); reflexivity. Qed.
Lemma compare_F_int x y : compare py_lt_F py_gt_F (FInt x) (FInt y) = cmpZ (Z.compare x y).
Proof. unfold py_gt_F. cbn [py_lt_F]. rewrite <- compare_Z. unfold compare. rewrite Z.gtb_ltb. reflexivity. Qed.

Lemma cmpZ_eq0 c : Z.eqb (cmpZ c) 0 = is_Eq c.
Proof. destruct c; reflexivity. Qed.
Lemma cmpZ_lt0 c : Z.ltb (cmpZ c) 0 = is_Lt c.
Proof. destruct c; reflexivity. Qed.
Lemma cmpZ_gt0 c : Z.gtb (cmpZ c) 0 = is_Gt c.
Proof. destruct c; reflexivity. Qed.
Lemma cmpZ_le0 c : Z.leb (cmpZ c) 0 = negb (is_Gt c).
Proof. destruct c; reflexivity. Qed.
Lemma cmpZ_ge0 c : Z.geb (cmpZ c) 0 = negb (is_Lt c).
Proof. destruct c; reflexivity. Qed.

(* ---------------- the translated type tests, per constructor *)
Lemma unquoted_not_minus f : unquoted f = true -> text_eqb f minus_quoted = false.
Proof.
  destruct f as [|c f]; [reflexivity|]. cbn. intros H.
  apply negb_true_iff in H. unfold quote in H. rewrite H. reflexivity.
Qed.

Lemma is_var_var v : _is_var (TVar v) = true. Proof. reflexivity. Qed.
Lemma is_var_int z : _is_var (TInt z) = false. Proof. reflexivity. Qed.
Lemma is_var_flt k : _is_var (TFlt k) = false. Proof. reflexivity. Qed.
Lemma is_var_str s : _is_var (TStr s) = false. Proof. reflexivity. Qed.
Lemma is_var_fun f xs : _is_var (TFun f xs) = false. Proof. reflexivity. Qed.

Lemma is_number_int z : _is_number (TInt z) = true. Proof. reflexivity. Qed.
Lemma is_number_flt k : _is_number (TFlt k) = true. Proof. reflexivity. Qed.
Lemma is_number_str s : _is_number (TStr s) = false. Proof. reflexivity. Qed.
Lemma is_float_int z : _is_float (TInt z) = false. Proof. reflexivity. Qed.
Lemma is_float_flt k : _is_float (TFlt k) = true. Proof. reflexivity. Qed.
Lemma is_integer_int z : _is_integer (TInt z) = true. Proof. reflexivity. Qed.
Lemma is_integer_flt k : _is_integer (TFlt k) = false. Proof. reflexivity. Qed.
Lemma is_string_int z : _is_string (TInt z) = false. Proof. reflexivity. Qed.
Lemma is_string_flt k : _is_string (TFlt k) = false. Proof. reflexivity. Qed.
Lemma is_string_str s : _is_string (TStr s) = true. Proof. reflexivity. Qed.
Lemma is_string_fun f xs : _is_string (TFun f xs) = false. Proof. reflexivity. Qed.

Lemma is_number_fun f xs : unquoted f = true -> _is_number (TFun f xs) = false.
Proof.
  intros H. unfold _is_number, _is_float, _is_integer, _is_float_neg, _is_integer_neg,
    _is_float_pos, _is_integer_pos.
  cbn [_is_constant _is_var is_variable meth_is_var isinstance_Var meth_is_constant orb andb negb functor pyfun_eqb].
  Show.
Qed.

#[export] Hint Rewrite is_var_var is_var_int is_var_flt is_var_str is_var_fun
  is_number_int is_number_flt is_number_str is_float_int is_float_flt is_integer_int is_integer_flt
  is_string_int is_string_flt is_string_str is_string_fun : c15gen.
#[export] Hint Rewrite is_number_fun using assumption : c15gen.
#[export] Hint Rewrite compare_Z compare_S compare_F_int cmpZ_eq0 : c15gen.
