(* C15 -- Python's sorted(set(xs), key=K) (model in ModelPrelude) against
   sort_u, for any comparator that is a total order; term_eqb is Leibniz
   equality. *)
From Coq Require Import ZArith NArith PeanoNat List Bool Lia Sorted Permutation.
From PL.C15 Require Import ModelStd ModelPrelude ProofsStd.
Import ListNotations.

Lemma text_eqb_eq s t : text_eqb s t = true <-> s = t.
Proof.
  revert t. induction s as [|x s IH]; intros [|y t]; cbn; split; intros H; try discriminate; auto.
  - apply andb_true_iff in H. destruct H as [H1 H2]. apply N.eqb_eq in H1. apply IH in H2. congruence.
  - inversion H; subst. apply andb_true_iff. split; [apply N.eqb_refl|apply IH; reflexivity].
Qed.

Lemma term_eqb_eq : forall a b, term_eqb a b = true <-> a = b.
Proof.
  induction a using term_ind'; intros [w|w|w|t|g ys]; cbn; split; intros E; try discriminate;
    try (apply Z.eqb_eq in E; congruence);
    try (inversion E; subst; apply Z.eqb_refl).
  - apply text_eqb_eq in E. congruence.
  - inversion E; subst. apply text_eqb_eq. reflexivity.
  - apply andb_true_iff in E. destruct E as [E1 E2]. apply text_eqb_eq in E1. subst g. f_equal.
    revert ys E2. induction H as [|x xs Hx _ IH]; intros [|y ys] E2; try discriminate; auto.
    apply andb_true_iff in E2. destruct E2 as [E2 E3]. f_equal; [apply Hx; exact E2|apply IH; exact E3].
  - inversion E; subst. apply andb_true_iff. split; [apply text_eqb_eq; reflexivity|].
    clear E. induction H as [|x xs Hx _ IH]; auto.
    apply andb_true_iff. split; [apply Hx; reflexivity|exact IH].
Qed.

Section PySorted.
  Variable cmp : term -> term -> comparison.
  Hypothesis Hrefl : forall a, cmp a a = Eq.
  Hypothesis Heq : forall a b, cmp a b = Eq -> a = b.
  Hypothesis Hopp : forall a b, cmp b a = CompOpp (cmp a b).
  Hypothesis Htrans : forall a b c, cmp a b = Lt -> cmp b c = Lt -> cmp a c = Lt.

  Let lt' (x y : term) : bool := is_Lt (cmp x y).
  Notation ltR := (ltR cmp).

  Lemma py_insert_In lt x l y : In y (py_insert lt x l) <-> y = x \/ In y l.
  Proof.
    induction l as [|z l IH]; cbn; [intuition|].
    destruct (lt x z); cbn; [intuition|]. rewrite IH. intuition.
  Qed.

  Lemma py_insert_sorted x l :
    StronglySorted ltR l -> ~ In x l -> StronglySorted ltR (py_insert lt' x l).
  Proof.
    induction 1 as [|z l S IH F]; intros Hn; cbn.
    - constructor; constructor.
    - unfold lt' at 1. destruct (cmp x z) eqn:E; cbn.
      + exfalso. apply Hn. left. symmetry. apply Heq. exact E.
      + constructor; [constructor; assumption|]. constructor; [exact E|].
        eapply Forall_impl; [|exact F]. intros w Hw. eapply Htrans; eassumption.
      + constructor; [apply IH; intros Hx; apply Hn; right; exact Hx|].
        apply Forall_forall. intros w Hw. apply py_insert_In in Hw. destruct Hw as [->|Hw].
        * unfold ProofsStd.ltR. rewrite (Hopp x z), E. reflexivity.
        * rewrite Forall_forall in F. auto.
  Qed.

  Lemma fold_insert_spec s : forall acc,
    StronglySorted ltR acc -> NoDup s -> (forall x, In x s -> ~ In x acc) ->
    let r := fold_left (fun acc x => py_insert lt' x acc) s acc in
    StronglySorted ltR r /\ forall x, In x r <-> In x s \/ In x acc.
  Proof.
    induction s as [|y s IH]; intros acc S N D; cbn.
    - split; [exact S|]. intuition.
    - inversion N as [|? ? Hy N']; subst.
      destruct (IH (py_insert lt' y acc)) as [S' I'].
      + apply py_insert_sorted; [exact S|]. apply D. left. reflexivity.
      + exact N'.
      + intros x Hx Hin. apply py_insert_In in Hin. destruct Hin as [->|Hin].
        * contradiction.
        * apply (D x); [right; exact Hx|exact Hin].
      + split; [exact S'|]. intros x. rewrite I', py_insert_In. intuition.
  Qed.

  Lemma py_sorted_is_sort_u s :
    NoDup s -> py_sorted lt' s = sort_u cmp s.
  Proof.
    intros N. unfold py_sorted.
    destruct (fold_insert_spec s [] (SSorted_nil _) N (fun _ _ H => H)) as [S I].
    apply (sort_u_unique cmp Hrefl Heq Hopp Htrans); [exact S|].
    intros x. rewrite I. cbn. tauto.
  Qed.

  Lemma py_sorted_ext lt1 lt2 s :
    (forall x y, In x s -> In y s -> lt1 x y = lt2 x y) ->
    py_sorted lt1 s = py_sorted lt2 s.
  Proof.
    intros H. unfold py_sorted.
    assert (G : forall l acc, (forall x, In x l -> In x s) -> (forall x, In x acc -> In x s) ->
                fold_left (fun acc x => py_insert lt1 x acc) l acc =
                fold_left (fun acc x => py_insert lt2 x acc) l acc).
    { induction l as [|y l IH]; intros acc Hl Ha; cbn; [reflexivity|].
      assert (E : py_insert lt1 y acc = py_insert lt2 y acc).
      { clear IH. induction acc as [|z acc IHa]; cbn; [reflexivity|].
        rewrite (H y z) by (first [apply Hl; left; reflexivity|apply Ha; left; reflexivity]).
        destruct (lt2 y z); [reflexivity|]. f_equal. apply IHa. intros x Hx. apply Ha. right. exact Hx. }
      rewrite E. apply IH.
      - intros x Hx. apply Hl. right. exact Hx.
      - intros x Hx. apply py_insert_In in Hx. destruct Hx as [->|Hx]; [apply Hl; left; reflexivity|apply Ha; exact Hx]. }
    apply G; [auto|intros x []].
  Qed.

  (* sorted(set(xs), key=K) where K.__lt__ agrees with the order on the elements *)
  Theorem py_sorted_set lt xs s :
    (forall x y, In x xs -> In y xs -> lt x y = is_Lt (cmp x y)) ->
    is_py_set xs s ->
    py_sorted lt s = sort_u cmp xs.
  Proof.
    intros H [N I].
    rewrite (py_sorted_ext lt lt' s).
    - rewrite py_sorted_is_sort_u by exact N.
      apply (sort_u_perm_invariant cmp Hrefl Heq Hopp Htrans). exact I.
    - intros x y Hx Hy. apply H; apply I; assumption.
  Qed.
End PySorted.

Lemma py_set_list_is_set xs : is_py_set xs (py_set_list xs).
Proof.
  assert (M : forall x r, existsb (term_eqb x) r = true <-> In x r).
  { intros x r. rewrite existsb_exists. split.
    - intros [y [Hy E]]. apply term_eqb_eq in E. subst. exact Hy.
    - intros Hx. exists x. split; [exact Hx|apply term_eqb_eq; reflexivity]. }
  split.
  - induction xs as [|x r IH]; cbn; [constructor|].
    destruct (existsb (term_eqb x) r) eqn:E; [exact IH|].
    constructor; [|exact IH].
    assert (K : forall y l, In y (py_set_list l) -> In y l).
    { intros y l. induction l as [|z l IHl]; cbn; [auto|].
      destruct (existsb (term_eqb z) l); cbn; intuition. }
    intros Hin. apply K in Hin. apply M in Hin. congruence.
  - intros y. induction xs as [|x r IH]; cbn; [tauto|].
    destruct (existsb (term_eqb x) r) eqn:E; cbn; rewrite IH; [|tauto].
    apply M in E. split; [auto|]. intros [<-|H]; auto.
Qed.
