(* C15 -- refutation witnesses (vm_compute on the generated model) of the KNOWN
   findings: functor names are compared with their quotes, and a compound
   '-'(N) built at run time is taken for a number.  Outside the cone of
   Props.v; when this file stops compiling the findings are gone (recorded in
   the evidence, never a violation). *)
From Coq Require Import ZArith NArith List Bool.
From PL.C15 Require Import ModelStd ModelPrelude GenStructCmp.
Import ListNotations.

Definition q_zzz : term := TFun [39; 122; 122; 122; 39]%N [].   (* 'zzz' *)
Definition a_abc : term := TFun [97; 98; 99]%N [].               (* abc *)

(* 'zzz' @< abc, although zzz comes after abc *)
Theorem C15_quoted_atoms_refuted :
  forall fr, struct_cmp fr q_zzz a_abc = (-1)%Z /\ plg_cmp (denote q_zzz) (denote a_abc) = Gt.
Proof. intros fr. split; vm_compute; reflexivity. Qed.

(* 'a' and a denote the same atom but compare as different *)
Theorem C15_quoted_same_atom_refuted :
  forall fr, struct_cmp fr (TFun [39; 97; 39]%N []) (TFun [97]%N []) = (-1)%Z /\
             plg_cmp (denote (TFun [39; 97; 39]%N [])) (denote (TFun [97]%N [])) = Eq.
Proof. intros fr. split; vm_compute; reflexivity. Qed.

(* X = 3, Y = -X builds the compound '-'(3) (functor stored as "'-'"):
   struct_cmp treats it as the number -3, i.e. smaller than the atom a *)
Theorem C15_minus_compound_refuted :
  forall fr, let t := TFun [39; 45; 39]%N [TInt 3] in
             struct_cmp fr t (TFun [97]%N []) = (-1)%Z /\ plg_cmp (denote t) (denote (TFun [97]%N [])) = Gt.
Proof. intros fr. split; vm_compute; reflexivity. Qed.
