(* C15 -- refutation witnesses for the PINNED source (generated model of
   struct_cmp): two unequal numbers fall through to text comparison of their
   decimal spelling.  Outside the cone of Props.v.  When this file stops
   compiling the defect is gone (recorded in the evidence, never a violation). *)
From Coq Require Import ZArith NArith List Bool.
From PL.C15 Require Import ModelStd ModelPrelude GenStructCmp.
Import ListNotations.

(* PropsFixed.C15_cmp_is_std is false: 10 vs 9 (both in [dom]) *)
Theorem C15_cmp_is_std_refuted :
  exists a b, dom a = true /\ dom b = true /\
              forall fr, struct_cmp fr a b <> cmpZ (plg_cmp (denote a) (denote b)).
Proof.
  exists (TInt 10), (TInt 9). split; [reflexivity|]. split; [reflexivity|].
  intros fr. vm_compute. discriminate.
Qed.

(* PropsFixed.C15_sort is false: sort([10,9,2,1]) = [1,10,2,9] *)
Theorem C15_sort_refuted :
  exists xs, Forall (fun x => dom x = true) xs /\ is_py_set xs xs /\
             forall fr, _builtin_sort_sorted fr xs = [TInt 1; TInt 10; TInt 2; TInt 9] /\
                        _builtin_sort_sorted fr xs <> plg_sort xs.
Proof.
  exists [TInt 10; TInt 9; TInt 2; TInt 1]. split; [repeat constructor|]. split.
  - split; [|tauto]. repeat constructor; cbn; intuition discriminate.
  - intros fr. split; [vm_compute; reflexivity|vm_compute; discriminate].
Qed.

(* a negative multi-digit pair, and an int against a float *)
Theorem C15_cmp_more_refuted :
  (forall fr, struct_cmp fr (TInt (-3)) (TInt (-20)) = 1%Z) /\   (* right only by luck of '-3' > '-20' *)
  (forall fr, struct_cmp fr (TInt (-20)) (TInt (-100)) = 1%Z) /\
  (forall fr, struct_cmp fr (TInt 100) (TInt 20) = (-1)%Z /\ plg_cmp (TInt 100) (TInt 20) = Gt).
Proof. repeat split; intros; vm_compute; reflexivity. Qed.
