(* C15 -- struct_cmp is the standard order on the full domain [dom].  Holds for the
   source since fix 24d7f1d (fixes/C15-struct-cmp-number-fallthrough.patch); before
   it, two unequal numbers fell through to text comparison (witnesses in corpus/C15). *)
From Coq Require Import ZArith NArith PeanoNat List Bool Lia Sorted.
From PL.C15 Require Import ModelStd ModelPrelude GenStructCmp ProofsStd ProofsSort ProofsGen.
Import ListNotations.

Lemma dom_fun f xs : dom (TFun f xs) = true ->
  unquoted f = true /\ Forall (fun x => dom x = true) xs.
Proof.
  unfold dom. cbn [names_unquoted ints_bounded]. rewrite !andb_true_iff, !forallb_forall.
  intros [[U N] D]. split; [exact U|]. apply Forall_forall. intros x Hx.
  apply andb_true_iff. auto.
Qed.

Ltac num_tac :=
  unfold plg_cmp; cbn [std_cmp_gen rank Nat.compare]; unfold num_cmp; cbn [num_val num_tag];
  repeat match goal with |- context[py_float (TInt ?x)] => change (py_float (TInt x)) with (x * fscale)%Z end;
  repeat match goal with |- context[py_float (TFlt ?x)] => change (py_float (TFlt x)) with x end;
  match goal with |- context[(?u ?= ?v)%Z] => destruct (u ?= v)%Z end; reflexivity.

Lemma struct_cmp_fuel_dom fr : forall n a b,
  (term_depth a < n)%nat -> dom a = true -> dom b = true ->
  struct_cmp_fuel fr n a b = cmpZ (plg_cmp a b).
Proof.
  induction n as [|n IH]; intros a b Hd Ha Hb; [lia|].
  destruct a as [x|x|x|s|f xs], b as [y|y|y|t|g ys];
  try (apply dom_fun in Ha; destruct Ha as [Ua Fa]);
  try (apply dom_fun in Hb; destruct Hb as [Ub Fb]);
  cbn [struct_cmp_fuel];
  autorewrite with c15gen; cbn beta iota;
  try (unfold plg_cmp; cbn; reflexivity); try rank_tac; try num_tac.
  - (* var, var *) cbn [var_key isinstance_Term functor]. rewrite compare_F_int. reflexivity.
  - (* fun, fun *)
    unfold plg_cmp. rewrite std_cmp_fun.
    cbn [arity functor py_str_functor args].
    rewrite Nat2Z.inj_compare.
    apply depth_fun_lt in Hd.
    destruct (Nat.compare_spec (length xs) (length ys)) as [L|L|L]; cbn; try reflexivity.
    destruct (text_cmp f g); cbn; try reflexivity.
    clear Ua Ub f g. revert ys Fb L.
    induction xs as [|x xs IHxs]; intros [|y ys] Fb L; try discriminate L; cbn [list_cmp]; [reflexivity|].
    inversion Hd; subst. inversion Fa; subst. inversion Fb; subst.
    rewrite IH by assumption. rewrite cmpZ_eq0.
    fold plg_cmp. destruct (plg_cmp x y); cbn; try reflexivity.
    apply IHxs; auto.
Qed.

Lemma struct_cmp_dom fr a b :
  dom a = true -> dom b = true -> struct_cmp fr a b = cmpZ (plg_cmp a b).
Proof. intros Ha Hb. unfold struct_cmp. apply struct_cmp_fuel_dom; auto. Qed.

(* ---------------- packaged for PropsFixed.v *)
Lemma dom_unquoted a : dom a = true -> names_unquoted a = true.
Proof. unfold dom. intros H. apply andb_true_iff in H. tauto. Qed.

Lemma struct_cmp_dom_denote fr a b :
  dom a = true -> dom b = true ->
  struct_cmp fr a b = cmpZ (plg_cmp (denote a) (denote b)).
Proof.
  intros Ha Hb. rewrite !denote_unquoted by (apply dom_unquoted; assumption).
  apply struct_cmp_dom; assumption.
Qed.
Lemma struct_cmp_dom_swi fr a b :
  dom a = true -> dom b = true -> no_strings a = true -> no_strings b = true ->
  struct_cmp fr a b = cmpZ (std_cmp (denote a) (denote b)).
Proof.
  intros Ha Hb Na Nb. rewrite struct_cmp_dom_denote by assumption.
  rewrite plg_std_nostr by (rewrite no_strings_denote; assumption). reflexivity.
Qed.
Lemma ops_dom fr a b :
  dom a = true -> dom b = true ->
  _builtin_struct_lt fr a b = is_Lt (plg_cmp a b) /\
  _builtin_struct_le fr a b = negb (is_Gt (plg_cmp a b)) /\
  _builtin_struct_gt fr a b = is_Gt (plg_cmp a b) /\
  _builtin_struct_ge fr a b = negb (is_Lt (plg_cmp a b)).
Proof.
  intros Ha Hb. pose proof (struct_cmp_dom fr) as HD.
  repeat split; [eapply lt_spec|eapply le_spec|eapply gt_spec|eapply ge_spec]; eauto.
Qed.
Lemma compare3_dom fr a b :
  dom a = true -> dom b = true ->
  _builtin_compare_answer fr a b = TFun (order_token (plg_cmp a b)) [] /\
  forall tok, _builtin_compare_check fr (TFun tok []) a b = text_eqb (order_token (plg_cmp a b)) tok.
Proof.
  intros Ha Hb. pose proof (struct_cmp_dom fr) as HD. split.
  - eapply answer_spec; eauto.
  - intros tok. eapply check_spec; eauto.
Qed.
Lemma sort_dom fr xs s :
  Forall (fun x => dom x = true) xs -> is_py_set xs s ->
  _builtin_sort_sorted fr s = plg_sort xs.
Proof. apply sort_spec. apply struct_cmp_dom. Qed.
