(* C18 — executable model of the Python object layer of problog/logic.py:
   what `a == b` and `hash(a)` compute on Term objects (Term.__eq__/__hash__ and
   the overrides in Var, Constant, AnnotatedDisjunction; Clause/And/Or/Not/AggTerm
   inherit Term's), the part of `str()` needed by Constant.__eq__/Var.__eq__, and
   what engine_unify.unify_value does on ground terms.

   NO proofs in this file.  The model is tied to /repo by harness/props/C18.py. *)
From Coq Require Import ZArith String Ascii List Bool DecimalString.
Import ListNotations.
Open Scope string_scope.

(* ---------------------------------------------------------------- data *)
(* Python classes of problog.logic that are Term or direct subclasses.  *)
Inductive cls := CTerm | CAgg | CVar | CConst | CClause | COr | CAnd | CNot.

(* A functor / constant value: python str, int, or float.  A float is
   represented by its repr() text (finite, not nan, not -0.0: on those repr is
   injective and `==` on floats is equality of the texts).                 *)
Inductive pyval := VStr (s : string) | VInt (z : Z) | VFloat (r : string).

(* Anything that can be an element of Term.args. *)
Inductive pyterm :=
| PNone                                   (* None : anonymous variable      *)
| PInt (z : Z)                            (* python int: variable slot      *)
| PNode (c : cls) (f : pyval) (args : list pyterm)
| PAD (heads : list pyterm) (body : pyterm).  (* AnnotatedDisjunction: args = (list, body) *)

(* The tuple handed to hash(), as a tree; elements that are Term objects are
   replaced by the key *they* hand to hash().                              *)
Inductive hkey :=
| HKstr (s : string) | HKint (z : Z) | HKfloat (r : string) | HKnone
| HKtuple (l : list hkey).

(* ---------------------------------------------------------------- equality of python values *)
Definition cls_eqb (a b : cls) : bool :=
  match a, b with
  | CTerm, CTerm | CAgg, CAgg | CVar, CVar | CConst, CConst
  | CClause, CClause | COr, COr | CAnd, CAnd | CNot, CNot => true
  | _, _ => false
  end.

(* type(f1) == type(f2) and f1 == f2 *)
Definition pyval_eqb (a b : pyval) : bool :=
  match a, b with
  | VStr s, VStr t => String.eqb s t
  | VInt x, VInt y => Z.eqb x y
  | VFloat r, VFloat s => String.eqb r s
  | _, _ => false
  end.

Definition is_vstr (v : pyval) : bool := match v with VStr _ => true | _ => false end.
Definition is_nil {A} (l : list A) : bool := match l with [] => true | _ => false end.

(* ---------------------------------------------------------------- Term.__eq__ queue walk *)
(* One pass of the deque loop: every pair of corresponding nodes must pass the
   node test; the two deques stay the same length because arities were compared
   before extending, so the BFS order is irrelevant for the result.  The
   `id(t1) == id(t2)` short-cut is dropped (it only skips a test that succeeds
   on the constructor domain).  A pair of AnnotatedDisjunction objects inside
   the walk makes the real code raise AttributeError (list has no functor): the
   model says false and the well-formedness predicate excludes nested ADs.  *)
Fixpoint walk (a b : pyterm) {struct a} : bool :=
  match a, b with
  | PNone, PNone => true
  | PInt x, PInt y => Z.eqb x y
  | PNode c1 f1 l1, PNode c2 f2 l2 =>
      cls_eqb c1 c2 &&
      (if cls_eqb c1 CConst then pyval_eqb f1 f2
       else (cls_eqb c1 CNot || pyval_eqb f1 f2) &&
            ((fix wl (l1 l2 : list pyterm) {struct l1} : bool :=
                match l1, l2 with
                | [], [] => true
                | x :: r1, y :: r2 => walk x y && wl r1 r2
                | _, _ => false
                end) l1 l2))
  | _, _ => false
  end.

(* ---------------------------------------------------------------- dispatch of `a == b` *)
Definition strcls (t : pyterm) : bool :=
  match t with PNode CVar _ _ | PNode CConst _ _ => true | _ => false end.
Definition exact_term (t : pyterm) : bool :=
  match t with PNode CTerm _ _ => true | _ => false end.
Definition is_ad (t : pyterm) : bool := match t with PAD _ _ => true | _ => false end.

(* a == b for two Term objects, neither an AnnotatedDisjunction, given
   sa = str(a) and sb = str(b).  Python tries the right operand's __eq__ first
   when its class is a proper subclass of the left operand's class: here
   exactly "a is a plain Term, b is not".  Var.__eq__ and Constant.__eq__
   compare the two strings; everything else is Term.__eq__.                  *)
Definition eq_nonad_s (sa sb : string) (a b : pyterm) : bool :=
  let swap := exact_term a && negb (exact_term b) in
  let x := if swap then b else a in
  let y := if swap then a else b in
  if strcls x then String.eqb (if swap then sb else sa) (if swap then sa else sb) else walk x y.

Section WithStr.
  (* R t = str(t).  Every theorem is stated for an arbitrary R that is right
     on Constant and Var nodes; repr_m below is the concrete printer.        *)
  Variable R : pyterm -> string.

  Definition eq_nonad (a b : pyterm) : bool := eq_nonad_s (R a) (R b) a b.

  (* == between elements of AD.heads / AD.body (Term objects or None) *)
  Definition eq_elem (a b : pyterm) : bool :=
    match a, b with
    | PNone, PNone => true
    | PInt x, PInt y => Z.eqb x y
    | PNode _ _ _, PNode _ _ _ => eq_nonad a b
    | _, _ => false
    end.

  Fixpoint list_eqb (l1 l2 : list pyterm) : bool :=
    match l1, l2 with
    | [], [] => true
    | x :: r1, y :: r2 => eq_elem x y && list_eqb r1 r2
    | _, _ => false
    end.

  (* a == b for two Term objects, given sa = str(a), sb = str(b) *)
  Definition eq_m_s (sa sb : string) (a b : pyterm) : bool :=
    match a, b with
    | PAD h1 b1, PAD h2 b2 => list_eqb h1 h2 && eq_elem b1 b2
    | PAD _ _, _ => false                      (* AD.__eq__: type(self) != type(other) *)
    | PNode _ _ _, PAD _ _ =>
        if exact_term a then false             (* reflected AD.__eq__ *)
        else if strcls a then String.eqb sa sb
        else false                             (* Term.__eq__: type mismatch *)
    | PNode _ _ _, PNode _ _ _ => eq_nonad_s sa sb a b
    | _, _ => false                            (* not Term objects: outside the domain *)
    end.

  Definition eq_m (a b : pyterm) : bool := eq_m_s (R a) (R b) a b.
End WithStr.

(* ---------------------------------------------------------------- repaired Var/Constant equality *)
(* fixes/C18-constant-var-eq.patch: when the other operand is a Term,
     Var.__eq__      = isinstance(other, Var) and self.name == other.name
     Constant.__eq__ = isinstance(other, Constant) and type(self.functor) == type(other.functor)
                       and self.functor == other.functor
   which is exactly what the walk computes on a Var / Constant node, so every
   `==` of the family is the walk (with the reflected-operand swap), and
   AnnotatedDisjunction.__eq__ compares heads and body element-wise.         *)
Definition eq_nonad_t (a b : pyterm) : bool :=
  if exact_term a && negb (exact_term b) then walk b a else walk a b.

Definition eq_elem_t (a b : pyterm) : bool :=
  match a, b with
  | PNone, PNone => true
  | PInt x, PInt y => Z.eqb x y
  | PNode _ _ _, PNode _ _ _ => eq_nonad_t a b
  | _, _ => false
  end.

Fixpoint list_eqb_t (l1 l2 : list pyterm) : bool :=
  match l1, l2 with
  | [], [] => true
  | x :: r1, y :: r2 => eq_elem_t x y && list_eqb_t r1 r2
  | _, _ => false
  end.

Definition eq_typed (a b : pyterm) : bool :=
  match a, b with
  | PAD h1 b1, PAD h2 b2 => list_eqb_t h1 h2 && eq_elem_t b1 b2
  | PNode _ _ _, PNode _ _ _ => eq_nonad_t a b
  | _, _ => false      (* AD against anything else: type mismatch in every __eq__ involved *)
  end.

(* `a == b` for the tree under test: ta = true when the repaired bodies are
   present (generated flag GenCfg.typed_atoms), sa sb = str(a), str(b)       *)
Definition eq_cfg_s (ta : bool) (R : pyterm -> string) (sa sb : string) (a b : pyterm) : bool :=
  if ta then eq_typed a b else eq_m_s R sa sb a b.
Definition eq_cfg (ta : bool) (R : pyterm -> string) (a b : pyterm) : bool :=
  eq_cfg_s ta R (R a) (R b) a b.

(* ---------------------------------------------------------------- str() *)
Definition dec (z : Z) : string := NilZero.string_of_int (Z.to_int z).

Definition str_val (v : pyval) : string :=
  match v with VStr s => s | VInt z => dec z | VFloat r => r end.

Fixpoint join (sep : string) (l : list string) : string :=
  match l with
  | [] => ""
  | [x] => x
  | x :: r => x ++ sep ++ join sep r
  end.

(* term2str / the int and None cases of Term.__repr__ *)
Definition str_slot (z : Z) : string :=
  if (z <? 0)%Z then "X" ++ dec (- z) else "A" ++ dec (z + 1).

Definition is_functor (t : pyterm) (name : string) (n : nat) : bool :=
  match t with
  | PNode _ (VStr s) l => String.eqb s name && Nat.eqb (length l) n
  | _ => false
  end.
Definition is_cls (t : pyterm) (c : cls) : bool :=
  match t with PNode c' _ _ => cls_eqb c c' | _ => false end.

Definition paren_if (b : bool) (s : string) : string := if b then "(" ++ s ++ ")" else s.

(* Term.__repr__ for terms without probability annotation and without operator
   spec (op_spec is None: everything not built by the parser's operator rules).
   `inner` is the generic loop of Term.__repr__ (used for every nested position,
   whatever the class), the top-level overrides of And/Or/Not/Clause are in
   repr_m.  The `while tail...` loops of the real code re-examine the same
   object, so the recursion is on explicit fuel (2*size+2 suffices; exhaustion
   prints "?" and would be caught by the tie).  No theorem depends on this
   function beyond its value on Constant and Var nodes.                       *)
Fixpoint size (t : pyterm) : nat :=
  match t with
  | PNone | PInt _ => 1
  | PNode _ _ l => S (list_sum (map size l))
  | PAD hs b => S (list_sum (map size hs) + size b)
  end.

Definition fis (f : pyval) (name : string) : bool :=
  match f with VStr s => String.eqb s name | _ => false end.

Section Printer.
  (* ta: Var/Constant.__eq__ repaired (the list printer calls `tail == Term("[]")`) *)
  Variable ta : bool.

Fixpoint inner (n : nat) (t : pyterm) {struct n} : string :=
  match n with
  | O => "?"
  | S n =>
    match t with
    | PNone => "_"
    | PInt z => str_slot z
    | PAD _ _ => "?AD?"                                  (* excluded by wf *)
    | PNode c f l =>
        let generic :=
          match l with
          | [] => str_val f
          | _ => str_val f ++ "(" ++ join "," (map (inner n) l) ++ ")"
          end in
        match l with
        | [x; y] =>
            if cls_eqb c CAnd then
              "(" ++ paren_if (is_cls x COr) (inner n x) ++ and_tail n y ++ ")"
            else if cls_eqb c COr then inner n x ++ or_tail n y
            else if fis f "." then "[" ++ inner n x ++ list_tail n y ++ "]"
            else generic
        | _ => generic
        end
    end
  end
with and_tail (n : nat) (t : pyterm) {struct n} : string :=
  match n with
  | O => "?"
  | S n =>
    let dflt := ", " ++ paren_if (is_cls t COr) (inner n t) in
    match t with
    | PNode _ f [x; y] =>
        if fis f "," then ", " ++ paren_if (is_cls x COr) (inner n x) ++ and_tail n y else dflt
    | _ => dflt
    end
  end
with or_tail (n : nat) (t : pyterm) {struct n} : string :=
  match n with
  | O => "?"
  | S n =>
    let dflt := "; " ++ inner n t in
    match t with
    | PNode _ f [x; y] => if fis f ";" then "; " ++ inner n x ++ or_tail n y else dflt
    | _ => dflt
    end
  end
with list_tail (n : nat) (t : pyterm) {struct n} : string :=
  match n with
  | O => "?"
  | S n =>
    let dflt := " | " ++ inner n t in
    match t with
    | PNode _ f [x; y] => if fis f "." then ", " ++ inner n x ++ list_tail n y else dflt
    | PNode c f [] =>
        (* `tail == Term("[]")`: walk for a plain Term, str comparison for Var/Constant
           (type mismatch once their __eq__ is repaired: ta), type mismatch for the other classes *)
        if (cls_eqb c CTerm || (negb ta && (cls_eqb c CConst || cls_eqb c CVar))) && String.eqb (str_val f) "[]"
        then "" else dflt
    | _ => dflt
    end
  end.

Definition inner_top (t : pyterm) : string := inner (2 * size t + 2) t.

(* str(t) for a Term object t (top level): the __repr__ overrides of And, Or,
   Not and Clause call str() on their children (so a child that is itself an
   And/Or/Not/Clause prints through its own override); everything else is the
   generic loop.  AnnotatedDisjunction.__repr__ prints its heads with their
   probabilities and is not modelled (ADs are outside the repr fragment).    *)
Fixpoint repr_m (t : pyterm) {struct t} : string :=
  (* And/Or print their operands with term2str (None -> "_", int -> A1/X1),
     Not and Clause with plain str() (None -> "None", int -> decimal) *)
  let t2s x := match x with PNone | PInt _ => inner_top x | _ => repr_m x end in
  let pys x := match x with PNone => "None" | PInt z => dec z | _ => repr_m x end in
  match t with
  | PNode c f [x] =>
      if cls_eqb c CNot then
        let s := paren_if (is_cls x CAnd || is_cls x COr) (pys x) in
        if fis f "not" then "not " ++ s else str_val f ++ s
      else inner_top t
  | PNode c f [x; y] =>
      if cls_eqb c CAnd then
        paren_if (is_cls x COr) (t2s x) ++ ", " ++ paren_if (is_cls y COr) (t2s y)
      else if cls_eqb c COr then t2s x ++ "; " ++ t2s y
      else if cls_eqb c CClause then
        match x with
        | PNode _ g _ => if fis g "_directive" then ":- " ++ pys y else pys x ++ " :- " ++ pys y
        | _ => pys x ++ " :- " ++ pys y
        end
      else inner_top t
  | _ => inner_top t
  end.
End Printer.

(* ---------------------------------------------------------------- hashing *)
Definition key_val (v : pyval) : hkey :=
  match v with VStr s => HKstr s | VInt z => HKint z | VFloat r => HKfloat r end.

(* Term._list_length: follows args[1] while `not is_variable(current) and
   current.functor == "." and current.arity == 2`.  Var and Constant objects
   have arity 0 by construction.                                             *)
Definition list_cell (c : cls) (f : pyval) : bool :=
  negb (cls_eqb c CVar) && negb (cls_eqb c CConst) && fis f ".".
Fixpoint listlen (t : pyterm) : nat :=
  match t with
  | PNode c f [_; tl] => if list_cell c f then S (listlen tl) else 0
  | _ => 0
  end.

(* get_arg_len for an element of args that is not a python list *)
Definition arglen (t : pyterm) : nat :=
  match t with PNone | PInt _ => 1 | _ => listlen t end.

(* `for arg in args[1:10]: if total + len <= 10: add else break` *)
Fixpoint select (total : nat) (n : nat) (l : list (nat * hkey)) : list hkey :=
  match n, l with
  | S n', (len, k) :: r =>
      if Nat.leb (total + len) 10 then k :: select (total + len) n' r else []
  | _, _ => []
  end.

Definition hashed (l : list (nat * hkey)) : list hkey :=
  match l with
  | [] => []
  | (len0, k0) :: r => k0 :: (if Nat.ltb len0 10 then select len0 9 r else [])
  end.

Section WithCfg.
  (* nh = true: class Not defines `__hash__` returning hash(("\\+", self.child))
     (fixes/C18-not-hash.patch applied); nh = false: Not inherits Term.__hash__
     (pinned tree).  The value for the tree under test is generated by
     harness/props/C18.py into GenCfg.v from the AST of class Not.            *)
  Variable nh : bool.

  Fixpoint hk (t : pyterm) {struct t} : hkey :=
    match t with
    | PNone => HKnone
    | PInt z => HKint z
    | PNode c f l =>
        let generic :=
          HKtuple (key_val f :: HKint (Z.of_nat (length l)) :: HKint (Z.of_nat (listlen t))
                   :: hashed (map (fun x => (arglen x, hk x)) l)) in
        match c with
        | CVar | CConst => key_val f
        | CNot => if nh then
                    match l with
                    | [x] => HKtuple [HKstr "\+"; hk x]
                    | _ => generic
                    end
                  else generic
        | _ => generic
        end
    | PAD hs b =>
        (* args = (heads, body): the list is spliced in, its get_arg_len is len(heads) *)
        HKtuple (HKstr ":-" :: HKint 2 :: HKint 0 ::
                 (map hk hs ++
                  (if Nat.ltb (length hs) 10 && Nat.leb (length hs + arglen b) 10 then [hk b] else [])))
    end.
End WithCfg.

(* structural equality of hash keys (used by the correspondence only) *)
Fixpoint hkey_eqb (a b : hkey) {struct a} : bool :=
  match a, b with
  | HKstr s, HKstr t => String.eqb s t
  | HKint x, HKint y => Z.eqb x y
  | HKfloat r, HKfloat s => String.eqb r s
  | HKnone, HKnone => true
  | HKtuple l1, HKtuple l2 =>
      (fix go (l1 l2 : list hkey) {struct l1} : bool :=
         match l1, l2 with
         | [], [] => true
         | x :: r1, y :: r2 => hkey_eqb x y && go r1 r2
         | _, _ => false
         end) l1 l2
  | _, _ => false
  end.

(* ---------------------------------------------------------------- unification on ground terms *)
(* str.strip("'") *)
Definition is_quote (c : ascii) : bool := Ascii.eqb c "'"%char.
Fixpoint lstrip (s : string) : string :=
  match s with
  | String c r => if is_quote c then lstrip r else s
  | EmptyString => EmptyString
  end.
(* rstrip by structural recursion: returns the stripped string; a suffix of
   quotes is dropped when everything after it is quotes too *)
Fixpoint rstrip (s : string) : string :=
  match s with
  | EmptyString => EmptyString
  | String c r =>
      match rstrip r with
      | EmptyString => if is_quote c then EmptyString else String c EmptyString
      | r' => String c r'
      end
  end.
Definition strip_quotes (s : string) : string := rstrip (lstrip s).

(* Term.signature = "%s/%s" % (str(functor).strip("'"), arity); two signatures
   are the same string iff stripped functor and arity agree (the arity is the
   text after the last "/") *)
Definition sig_eqb (f1 : pyval) (n1 : nat) (f2 : pyval) (n2 : nat) : bool :=
  String.eqb (strip_quotes (str_val f1)) (strip_quotes (str_val f2)) && Nat.eqb n1 n2.

(* unify_value(a, b, {}) succeeds, for ground a b (no None/int/Var inside):
   same signature, arguments pairwise *)
Fixpoint unify_ident (a b : pyterm) {struct a} : bool :=
  match a, b with
  | PNode _ f1 l1, PNode _ f2 l2 =>
      sig_eqb f1 (length l1) f2 (length l2) &&
      ((fix ul (l1 l2 : list pyterm) {struct l1} : bool :=
          match l1, l2 with
          | x :: r1, y :: r2 => unify_ident x y && ul r1 r2
          | _, _ => true                                (* zip *)
          end) l1 l2)
  | _, _ => false
  end.

Fixpoint ground (t : pyterm) : bool :=
  match t with
  | PNone | PInt _ | PAD _ _ => false
  | PNode c _ l => negb (cls_eqb c CVar) && forallb ground l
  end.

(* ---------------------------------------------------------------- constructor domain *)
(* What the public constructors build (and what the hand model is claimed for):
   Var(name), Constant(v), Term/AggTerm(str functor, args...), Clause(h, b),
   Or(a, b), And(a, b), Not(functor, child); AnnotatedDisjunction only at top
   level, its heads and body are Term objects that are not Var/Constant
   (body may be None).                                                       *)
Fixpoint wf_arg (t : pyterm) : bool :=
  match t with
  | PNone | PInt _ => true
  | PAD _ _ => false
  | PNode c f l =>
      match c with
      | CVar => is_vstr f && is_nil l
      | CConst => is_nil l
      | CTerm | CAgg => is_vstr f
      | CClause => pyval_eqb f (VStr ":-") && Nat.eqb (length l) 2
      | COr => pyval_eqb f (VStr ";") && Nat.eqb (length l) 2
      | CAnd => pyval_eqb f (VStr ",") && Nat.eqb (length l) 2
      | CNot => is_vstr f && Nat.eqb (length l) 1
      end && forallb wf_arg l
  end.

Definition plain_node (t : pyterm) : bool :=
  match t with PNode _ _ _ => negb (strcls t) | _ => false end.

Definition wf (t : pyterm) : bool :=
  match t with
  | PNode _ _ _ => wf_arg t
  | PAD hs b =>
      forallb (fun h => wf_arg h && plain_node h) hs &&
      match b with PNone => true | _ => wf_arg b && plain_node b end
  | _ => false
  end.

(* ---------------------------------------------------------------- guards (exclude exactly the finding classes) *)
(* corresponding Not nodes carry the same functor *)
Fixpoint nfa (a b : pyterm) {struct a} : bool :=
  match a, b with
  | PNode c1 f1 l1, PNode c2 f2 l2 =>
      (negb (cls_eqb c1 CNot && cls_eqb c2 CNot) || pyval_eqb f1 f2) &&
      ((fix nl (l1 l2 : list pyterm) {struct l1} : bool :=
          match l1, l2 with
          | x :: r1, y :: r2 => nfa x y && nl r1 r2
          | _, _ => true
          end) l1 l2)
  | _, _ => true
  end.

Fixpoint nfa_list (l1 l2 : list pyterm) : bool :=
  match l1, l2 with
  | x :: r1, y :: r2 => nfa x y && nfa_list r1 r2
  | _, _ => true
  end.

Definition nfa_top (a b : pyterm) : bool :=
  match a, b with
  | PAD h1 b1, PAD h2 b2 => nfa_list h1 h2 && nfa b1 b2
  | _, _ => nfa a b
  end.

(* the python type of the value a Var / Constant hands to hash() *)
Definition atom_type (t : pyterm) : nat :=
  match t with
  | PNode CConst (VInt _) _ => 1
  | PNode CConst (VFloat _) _ => 2
  | _ => 0
  end.

(* symmetry: not (Var/Constant against an instance of another subclass of Term) *)
Definition subcls_nonstr (t : pyterm) : bool :=
  match t with
  | PNode CTerm _ _ => false
  | PNode _ _ _ => negb (strcls t)
  | PAD _ _ => true
  | _ => false
  end.
Definition sym_guard (a b : pyterm) : bool :=
  negb ((strcls a && subcls_nonstr b) || (strcls b && subcls_nonstr a)).

(* transitivity: Var/Constant objects are not mixed with other classes *)
Definition trans_guard (a b c : pyterm) : bool :=
  Bool.eqb (strcls a) (strcls b) && Bool.eqb (strcls b) (strcls c).

(* hashing: no Var/Constant against another class; two Var/Constant hold values
   of the same python type; Not functors agree unless Not.__hash__ ignores them *)
Definition hash_guard (nh : bool) (a b : pyterm) : bool :=
  Bool.eqb (strcls a) (strcls b) &&
  (if strcls a then Nat.eqb (atom_type a) (atom_type b) else (nh || nfa_top a b)).

(* unification: additionally no functor has a quote at either end and the two
   terms carry the same class (and constant value type) at corresponding nodes *)
Definition noquote_val (v : pyval) : bool := String.eqb (strip_quotes (str_val v)) (str_val v).
Fixpoint noquotes (t : pyterm) : bool :=
  match t with
  | PNode _ f l => noquote_val f && forallb noquotes l
  | _ => true
  end.
Definition val_type (v : pyval) : nat := match v with VStr _ => 0 | VInt _ => 1 | VFloat _ => 2 end.
Fixpoint shape_agree (a b : pyterm) {struct a} : bool :=
  match a, b with
  | PNode c1 f1 l1, PNode c2 f2 l2 =>
      cls_eqb c1 c2 && Nat.eqb (val_type f1) (val_type f2) &&
      ((fix sl (l1 l2 : list pyterm) {struct l1} : bool :=
          match l1, l2 with
          | x :: r1, y :: r2 => shape_agree x y && sl r1 r2
          | _, _ => true
          end) l1 l2)
  | _, _ => true
  end.
Definition unify_guard (a b : pyterm) : bool :=
  Bool.eqb (strcls a) (strcls b) && nfa a b && shape_agree a b && noquotes a && noquotes b.
