(* C18 — Term equality is an equivalence consistent with hashing.
   Only property statements, closed by `exact`.  Model: ModelTermEq.v (hand
   model of problog/logic.py, tied to /repo by harness/props/C18.py);
   GenCfg.v is regenerated from the source on every run.

   `R` is str(): Constant.__eq__ and Var.__eq__ compare the printed forms of
   both operands.  Every theorem holds for an arbitrary printer R (the hash and
   unification theorems need R to be right on Constant and Var objects only:
   R_atoms), in particular for the modelled printer repr_m (C18_repr_atoms).

   The guards exclude exactly the classes of pairs on which the pinned code
   violates the property (witnesses in Findings.v):
     sym_guard    a Var/Constant against an instance of another proper subclass
                  of Term (Not, And, Or, Clause, AggTerm, AnnotatedDisjunction)
     trans_guard  Var/Constant objects mixed with objects of other classes
     hash_guard   the same mix; two Var/Constant objects whose values have
                  different python types; Not nodes with different functors
                  (dropped when GenCfg.not_hash_ignores_functor = true)
     unify_guard  the same, plus functors with a quote at either end, plus
                  different classes / constant value types at corresponding nodes *)
From Coq Require Import ZArith String List Bool.
From PL.C18 Require Import ModelTermEq ProofsWalk ProofsEq GenCfg.
Import ListNotations.
Open Scope string_scope.

(* `==` of the tree under test: GenCfg.typed_atoms says whether Var.__eq__ /
   Constant.__eq__ are the pinned string comparisons (false) or the repaired
   typed comparisons of fixes/C18-constant-var-eq.patch (true: every guard that
   only concerns Var/Constant disappears); GenCfg.not_hash_ignores_functor says
   whether Not.__hash__ is repaired.                                          *)
Definition eq_cur := eq_cfg typed_atoms.

Theorem C18_refl : forall R a, wf a = true -> eq_cur R a a = true.
Proof. exact (eq_cfg_refl typed_atoms). Qed.
Print Assumptions C18_refl.

Theorem C18_sym : forall R a b,
  wf a = true -> wf b = true -> typed_atoms || sym_guard a b = true -> eq_cur R a b = eq_cur R b a.
Proof. exact (eq_cfg_sym typed_atoms). Qed.
Print Assumptions C18_sym.

Theorem C18_trans : forall R a b c,
  wf a = true -> wf b = true -> wf c = true -> typed_atoms || trans_guard a b c = true ->
  eq_cur R a b = true -> eq_cur R b c = true -> eq_cur R a c = true.
Proof. exact (eq_cfg_trans typed_atoms). Qed.
Print Assumptions C18_trans.

(* equal objects hand equal keys to hash() (hence have equal hashes: python's
   hash of a tuple / str / int / float is a function of the value) *)
Theorem C18_hash : forall R a b,
  R_atoms R -> wf a = true -> wf b = true ->
  hash_guard_cfg typed_atoms not_hash_ignores_functor a b = true ->
  eq_cur R a b = true -> hk not_hash_ignores_functor a = hk not_hash_ignores_functor b.
Proof. exact (eq_cfg_hash typed_atoms not_hash_ignores_functor). Qed.
Print Assumptions C18_hash.

(* two ground terms compare equal exactly when unify_value treats them as identical *)
Theorem C18_ground_eq_iff_unify : forall R a b,
  R_atoms R -> wf_arg a = true -> wf_arg b = true -> ground a = true -> ground b = true ->
  unify_guard_cfg typed_atoms a b = true -> eq_cur R a b = unify_ident a b.
Proof. exact (eq_cfg_unify typed_atoms). Qed.
Print Assumptions C18_ground_eq_iff_unify.

(* the same five statements for every combination of the two repairs *)
Theorem C18_all_cfg : forall ta nh R,
  (forall a, wf a = true -> eq_cfg ta R a a = true) /\
  (forall a b, wf a = true -> wf b = true -> ta || sym_guard a b = true -> eq_cfg ta R a b = eq_cfg ta R b a) /\
  (forall a b c, wf a = true -> wf b = true -> wf c = true -> ta || trans_guard a b c = true ->
                 eq_cfg ta R a b = true -> eq_cfg ta R b c = true -> eq_cfg ta R a c = true) /\
  (R_atoms R -> forall a b, wf a = true -> wf b = true -> hash_guard_cfg ta nh a b = true ->
                 eq_cfg ta R a b = true -> hk nh a = hk nh b) /\
  (R_atoms R -> forall a b, wf_arg a = true -> wf_arg b = true -> ground a = true -> ground b = true ->
                 unify_guard_cfg ta a b = true -> eq_cfg ta R a b = unify_ident a b).
Proof.
  exact (fun ta nh R =>
    conj (eq_cfg_refl ta R) (conj (eq_cfg_sym ta R) (conj (eq_cfg_trans ta R)
      (conj (fun HR a b => eq_cfg_hash ta nh R a b HR)
            (fun HR a b => eq_cfg_unify ta R a b HR))))).
Qed.
Print Assumptions C18_all_cfg.

(* with both repairs == is an unguarded equivalence and equal => same hash key *)
Theorem C18_repaired_unguarded :
  (forall a, wf a = true -> eq_typed a a = true) /\
  (forall a b, eq_typed a b = eq_typed b a) /\
  (forall a b c, eq_typed a b = true -> eq_typed b c = true -> eq_typed a c = true) /\
  (forall a b, wf a = true -> wf b = true -> eq_typed a b = true -> hk true a = hk true b).
Proof.
  exact (conj eq_typed_refl (conj eq_typed_sym (conj eq_typed_trans
           (fun a b Wa Wb => eq_typed_hash true a b Wa Wb eq_refl)))).
Qed.
Print Assumptions C18_repaired_unguarded.

(* == restricted to objects that are not Var/Constant is the queue walk, which
   is an equivalence without any guard *)
Theorem C18_walk_equivalence :
  (forall a, wf_arg a = true -> walk a a = true) /\
  (forall a b, walk a b = walk b a) /\
  (forall a b c, walk a b = true -> walk b c = true -> walk a c = true).
Proof. exact (conj walk_refl (conj walk_sym walk_trans)). Qed.
Print Assumptions C18_walk_equivalence.

Theorem C18_repr_atoms : forall ta, R_atoms (repr_m ta).
Proof. exact repr_m_atoms. Qed.
Print Assumptions C18_repr_atoms.

(* ---------------------------------------------------------------- non-vacuity *)
Definition a_ := PNode CTerm (VStr "a") [].
Definition b_ := PNode CTerm (VStr "b") [].
Definition f_ (l : list pyterm) := PNode CTerm (VStr "f") l.
Definition lst (l : list pyterm) :=
  fold_right (fun x t => PNode CTerm (VStr ".") [x; t]) (PNode CTerm (VStr "[]") []) l.
Definition cl_ := PNode CClause (VStr ":-")
                    [f_ [PNode CVar (VStr "X") []; PNode CConst (VInt 3) []];
                     PNode CAnd (VStr ",") [PNode CNot (VStr "\+") [a_]; PNode COr (VStr ";") [b_; lst [a_; b_]]]].
Definition ad_ := PAD [f_ [a_]; f_ [b_]] (PNode CAnd (VStr ",") [a_; b_]).

Example C18_ex_wf : wf cl_ = true /\ wf ad_ = true /\ wf (PNode CConst (VFloat "0.5") []) = true.
Proof. vm_compute. auto. Qed.
Example C18_ex_guards :
  sym_guard cl_ (f_ [a_]) = true /\ trans_guard cl_ ad_ (f_ [a_]) = true /\
  hash_guard false cl_ cl_ = true /\ hash_guard false ad_ ad_ = true /\
  hash_guard false (PNode CConst (VInt 3) []) (PNode CConst (VInt 4) []) = true /\
  hash_guard false (PNode CVar (VStr "X") []) (PNode CConst (VStr "X") []) = true.
Proof. vm_compute. repeat split. Qed.
Example C18_ex_eq :
  eq_m (repr_m false) cl_ cl_ = true /\ eq_m (repr_m false) ad_ ad_ = true /\ eq_m (repr_m false) cl_ ad_ = false /\
  eq_m (repr_m false) (PNode CVar (VStr "X") []) (PNode CConst (VStr "X") []) = true /\
  hk false (PNode CVar (VStr "X") []) = hk false (PNode CConst (VStr "X") []).
Proof. vm_compute. repeat split. Qed.
Example C18_ex_repr :
  repr_m false cl_ = "f(X,3) :- \+a, (b; [a, b])" /\
  repr_m false (f_ [PNode CNot (VStr "\+") [a_]; PInt (-2); PNone; PInt 0]) = "f(\+(a),X2,_,A1)".
Proof. vm_compute. split; reflexivity. Qed.
Example C18_ex_unify :
  let s := f_ [a_; lst [PNode CConst (VInt 1) []; b_]] in
  ground s = true /\ unify_guard s s = true /\ unify_ident s s = true /\
  unify_guard s (f_ [a_; lst [PNode CConst (VInt 2) []; b_]]) = true /\
  unify_ident s (f_ [a_; lst [PNode CConst (VInt 2) []; b_]]) = false.
Proof. vm_compute. repeat split. Qed.
