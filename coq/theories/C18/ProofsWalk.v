(* C18 — lemmas about the queue walk of Term.__eq__ and about hash keys. *)
From Coq Require Import ZArith String Ascii List Bool Lia DecimalString DecimalZ DecimalPos Decimal.
From PL.C18 Require Import ModelTermEq.
Import ListNotations.
Open Scope string_scope.

(* ---------------------------------------------------------------- induction principle for the nested type *)
Section PytermInd.
  Variable P : pyterm -> Prop.
  Hypothesis HNone : P PNone.
  Hypothesis HInt : forall z, P (PInt z).
  Hypothesis HNode : forall c f l, Forall P l -> P (PNode c f l).
  Hypothesis HAD : forall hs b, Forall P hs -> P b -> P (PAD hs b).

  Fixpoint pyterm_ind' (t : pyterm) : P t :=
    match t with
    | PNone => HNone
    | PInt z => HInt z
    | PNode c f l =>
        HNode c f l ((fix go (l : list pyterm) : Forall P l :=
                        match l with
                        | [] => Forall_nil P
                        | x :: r => Forall_cons x (pyterm_ind' x) (go r)
                        end) l)
    | PAD hs b =>
        HAD hs b ((fix go (l : list pyterm) : Forall P l :=
                     match l with
                     | [] => Forall_nil P
                     | x :: r => Forall_cons x (pyterm_ind' x) (go r)
                     end) hs) (pyterm_ind' b)
    end.
End PytermInd.

(* ---------------------------------------------------------------- basic equalities *)
Lemma cls_eqb_refl c : cls_eqb c c = true.
Proof. destruct c; reflexivity. Qed.

Lemma cls_eqb_eq c d : cls_eqb c d = true -> c = d.
Proof. destruct c, d; simpl; congruence. Qed.

Lemma cls_eqb_sym c d : cls_eqb c d = cls_eqb d c.
Proof. destruct c, d; reflexivity. Qed.

Lemma pyval_eqb_refl v : pyval_eqb v v = true.
Proof. destruct v; simpl; auto using String.eqb_refl, Z.eqb_refl. Qed.

Lemma pyval_eqb_eq v w : pyval_eqb v w = true -> v = w.
Proof.
  destruct v, w; simpl; try congruence; intro H.
  - apply String.eqb_eq in H; congruence.
  - apply Z.eqb_eq in H; congruence.
  - apply String.eqb_eq in H; congruence.
Qed.

Lemma pyval_eqb_sym v w : pyval_eqb v w = pyval_eqb w v.
Proof.
  destruct v, w; simpl; auto using String.eqb_sym, Z.eqb_sym.
Qed.

(* ---------------------------------------------------------------- the list walk as a standalone function *)
Fixpoint walk_list (l1 l2 : list pyterm) : bool :=
  match l1, l2 with
  | [], [] => true
  | x :: r1, y :: r2 => walk x y && walk_list r1 r2
  | _, _ => false
  end.

Lemma walk_node c1 f1 l1 c2 f2 l2 :
  walk (PNode c1 f1 l1) (PNode c2 f2 l2) =
  cls_eqb c1 c2 &&
  (if cls_eqb c1 CConst then pyval_eqb f1 f2
   else (cls_eqb c1 CNot || pyval_eqb f1 f2) && walk_list l1 l2).
Proof.
  reflexivity.
Qed.

Lemma walk_list_length l1 l2 : walk_list l1 l2 = true -> length l1 = length l2.
Proof.
  revert l2; induction l1 as [|x r IH]; intros [|y r2]; simpl; try congruence.
  intro H. apply andb_true_iff in H as [_ H]. f_equal; auto.
Qed.

(* ---------------------------------------------------------------- reflexive / symmetric / transitive *)
Lemma walk_refl : forall a, wf_arg a = true -> walk a a = true.
Proof.
  induction a as [| z | c f l IH | hs b _ _] using pyterm_ind'; simpl wf_arg; intro W.
  - reflexivity.
  - simpl. apply Z.eqb_refl.
  - rewrite walk_node, cls_eqb_refl, pyval_eqb_refl, orb_true_r. simpl.
    apply andb_true_iff in W as [_ W].
    assert (HL : walk_list l l = true).
    { induction l as [|x r IHr]; simpl; auto.
      simpl in W. apply andb_true_iff in W as [Wx Wr].
      inversion IH; subst. rewrite H1 by assumption. simpl. auto. }
    rewrite HL. destruct (cls_eqb c CConst); reflexivity.
  - discriminate.
Qed.

Lemma walk_sym : forall a b, walk a b = walk b a.
Proof.
  induction a as [| z | c f l IH | hs b0 _ _] using pyterm_ind'; intros [| z2 | c2 f2 l2 | hs2 b2];
    try reflexivity.
  - simpl. apply Z.eqb_sym.
  - rewrite !walk_node. rewrite (cls_eqb_sym c c2).
    destruct (cls_eqb c2 c) eqn:E; simpl; auto.
    apply cls_eqb_eq in E; subst c2.
    rewrite (pyval_eqb_sym f f2).
    assert (HL : walk_list l l2 = walk_list l2 l).
    { revert l2. induction l as [|x r IHr]; intros [|y r2]; simpl; auto.
      inversion IH; subst. rewrite H1, IHr by assumption. reflexivity. }
    rewrite HL. reflexivity.
Qed.

Lemma walk_trans : forall a b c, walk a b = true -> walk b c = true -> walk a c = true.
Proof.
  induction a as [| z | c f l IH | hs b0 _ _] using pyterm_ind';
    intros [| z2 | c2 f2 l2 | hs2 b2] [| z3 | c3 f3 l3 | hs3 b3]; simpl walk; try congruence.
  - rewrite !Z.eqb_eq. congruence.
  - change (walk (PNode c f l) (PNode c2 f2 l2) = true -> walk (PNode c2 f2 l2) (PNode c3 f3 l3) = true ->
            walk (PNode c f l) (PNode c3 f3 l3) = true).
    rewrite !walk_node. intros H1 H2.
    apply andb_true_iff in H1 as [E1 H1]. apply andb_true_iff in H2 as [E2 H2].
    apply cls_eqb_eq in E1; subst c2. apply cls_eqb_eq in E2; subst c3.
    rewrite cls_eqb_refl. simpl.
    destruct (cls_eqb c CConst).
    + apply pyval_eqb_eq in H1; subst. assumption.
    + apply andb_true_iff in H1 as [F1 L1]. apply andb_true_iff in H2 as [F2 L2].
      apply andb_true_iff; split.
      * destruct (cls_eqb c CNot); simpl in *; auto.
        apply pyval_eqb_eq in F1; subst. assumption.
      * clear F1 F2. revert l2 l3 L1 L2.
        induction l as [|x r IHr]; intros [|y r2] [|w r3]; simpl; try congruence.
        intros A B. apply andb_true_iff in A as [A1 A2]. apply andb_true_iff in B as [B1 B2].
        inversion IH; subst.
        rewrite (H1 y w A1 B1). simpl. eapply IHr; eauto.
Qed.


(* ---------------------------------------------------------------- walk-equal terms: same list length, same hash key *)
Lemma nfa_node c1 f1 l1 c2 f2 l2 :
  nfa (PNode c1 f1 l1) (PNode c2 f2 l2) =
  (negb (cls_eqb c1 CNot && cls_eqb c2 CNot) || pyval_eqb f1 f2) && nfa_list l1 l2.
Proof. reflexivity. Qed.

Lemma wf_arg_node c f l : wf_arg (PNode c f l) = true -> forallb wf_arg l = true.
Proof. simpl. intro H. apply andb_true_iff in H as [_ H]. exact H. Qed.

Lemma wf_not_arity f l : wf_arg (PNode CNot f l) = true -> exists x, l = [x].
Proof.
  simpl. intro H. apply andb_true_iff in H as [H _]. apply andb_true_iff in H as [_ H].
  destruct l as [|x [|y r]]; simpl in H; try discriminate. eauto.
Qed.

Lemma listlen_node c f l :
  listlen (PNode c f l) =
  match l with [_; tl] => if list_cell c f then S (listlen tl) else 0 | _ => 0 end.
Proof. reflexivity. Qed.

Lemma walk_listlen : forall a b,
  wf_arg a = true -> wf_arg b = true -> walk a b = true -> listlen a = listlen b.
Proof.
  induction a as [| z | c f l IH | hs b0 _ _] using pyterm_ind';
    intros [| z2 | c2 f2 l2 | hs2 b2] Wa Wb; try (simpl; congruence); try reflexivity.
  rewrite walk_node. intro H. apply andb_true_iff in H as [E H].
  apply cls_eqb_eq in E; subst c2.
  rewrite !listlen_node.
  destruct (cls_eqb c CConst) eqn:EC.
  - apply cls_eqb_eq in EC; subst c. unfold list_cell. simpl.
    destruct l as [|? [|? [|? ?]]]; destruct l2 as [|? [|? [|? ?]]]; reflexivity.
  - apply andb_true_iff in H as [F L].
    destruct (cls_eqb c CNot) eqn:EN.
    + apply cls_eqb_eq in EN; subst c.
      destruct (wf_not_arity _ _ Wa) as [x ->]. destruct (wf_not_arity _ _ Wb) as [y ->]. reflexivity.
    + simpl in F. apply pyval_eqb_eq in F; subst f2.
      pose proof (wf_arg_node _ _ _ Wa) as Wl. pose proof (wf_arg_node _ _ _ Wb) as Wl2.
      pose proof (walk_list_length _ _ L) as LEN.
      destruct l as [|x1 [|x2 [|x3 r]]]; destruct l2 as [|y1 [|y2 [|y3 r2]]]; simpl in LEN; try discriminate;
        try reflexivity.
      simpl in L.
      apply andb_true_iff in L as [_ L]. apply andb_true_iff in L as [L2 _].
      inversion IH as [|? ? _ IH2]; subst. inversion IH2 as [|? ? IHx2 _]; subst.
      simpl in Wl, Wl2.
      apply andb_true_iff in Wl as [_ Wl]. apply andb_true_iff in Wl as [Wx2 _].
      apply andb_true_iff in Wl2 as [_ Wl2]. apply andb_true_iff in Wl2 as [Wy2 _].
      rewrite (IHx2 _ Wx2 Wy2 L2). reflexivity.
Qed.

Lemma walk_arglen a b :
  wf_arg a = true -> wf_arg b = true -> walk a b = true -> arglen a = arglen b.
Proof.
  intros Wa Wb H. destruct a, b; simpl in H; try discriminate; try reflexivity.
  unfold arglen. apply walk_listlen; assumption.
Qed.

Lemma walk_hk nh : forall a b,
  wf_arg a = true -> wf_arg b = true -> nh || nfa a b = true -> walk a b = true ->
  hk nh a = hk nh b.
Proof.
  induction a as [| z | c f l IH | hs b0 _ _] using pyterm_ind';
    intros [| z2 | c2 f2 l2 | hs2 b2] Wa Wb G; try (simpl; congruence); try reflexivity.
  - simpl. rewrite Z.eqb_eq. congruence.
  - intro H. pose proof (walk_listlen _ _ Wa Wb H) as LL.
    rewrite walk_node in H. apply andb_true_iff in H as [E H].
    apply cls_eqb_eq in E; subst c2.
    pose proof (wf_arg_node _ _ _ Wa) as Wl. pose proof (wf_arg_node _ _ _ Wb) as Wl2.
    rewrite nfa_node, andb_diag in G.
    (* argument-wise facts *)
    assert (ARGS : cls_eqb c CConst = false -> walk_list l l2 = true ->
                   map (fun x => (arglen x, hk nh x)) l = map (fun x => (arglen x, hk nh x)) l2).
    { intros _ L.
      assert (G' : nh || nfa_list l l2 = true).
      { destruct nh; simpl in *; auto. apply andb_true_iff in G as [_ G]. exact G. }
      clear G Wa Wb LL H. revert l2 L Wl2 G'.
      induction l as [|x r IHr]; intros [|y r2]; simpl; try congruence.
      intros L Wl2 G'. apply andb_true_iff in L as [Lx Lr].
      simpl in Wl. apply andb_true_iff in Wl as [Wx Wr]. apply andb_true_iff in Wl2 as [Wy Wr2].
      inversion IH as [|? ? IHx IHrest]; subst.
      assert (Gx : nh || nfa x y = true).
      { destruct nh; simpl in *; auto. apply andb_true_iff in G' as [G' _]. exact G'. }
      assert (Gr : nh || nfa_list r r2 = true).
      { destruct nh; simpl in *; auto. apply andb_true_iff in G' as [_ G']. exact G'. }
      rewrite (IHx y Wx Wy Gx Lx), (walk_arglen x y Wx Wy Lx).
      f_equal. apply IHr; assumption. }
    destruct (cls_eqb c CConst) eqn:EC.
    + apply cls_eqb_eq in EC; subst c. apply pyval_eqb_eq in H; subst f2. reflexivity.
    + apply andb_true_iff in H as [F L]. specialize (ARGS eq_refl L).
      pose proof (walk_list_length _ _ L) as LEN.
      destruct (cls_eqb c CNot) eqn:EN.
      * apply cls_eqb_eq in EN; subst c.
        destruct (wf_not_arity _ _ Wa) as [x ->]. destruct (wf_not_arity _ _ Wb) as [y ->].
        simpl in ARGS. injection ARGS as A1 A2.
        destruct nh.
        -- simpl. rewrite A2. reflexivity.
        -- simpl in G. apply andb_true_iff in G as [G _]. apply pyval_eqb_eq in G; subst f2.
           simpl. rewrite A1, A2. reflexivity.
      * simpl in F. apply pyval_eqb_eq in F; subst f2.
        assert (GEN : HKtuple (key_val f :: HKint (Z.of_nat (length l)) :: HKint (Z.of_nat (listlen (PNode c f l)))
                               :: hashed (map (fun x => (arglen x, hk nh x)) l)) =
                      HKtuple (key_val f :: HKint (Z.of_nat (length l2)) :: HKint (Z.of_nat (listlen (PNode c f l2)))
                               :: hashed (map (fun x => (arglen x, hk nh x)) l2))).
        { rewrite ARGS, LEN, LL. reflexivity. }
        destruct c; try discriminate; try reflexivity; exact GEN.
Qed.
