(* C18 — lemmas about `==` (eq_m), hash keys and ground unification. *)
From Coq Require Import ZArith String Ascii List Bool Lia DecimalString DecimalZ DecimalPos Decimal.
From PL.C18 Require Import ModelTermEq ProofsWalk.
Import ListNotations.
Open Scope string_scope.

(* ---------------------------------------------------------------- str() of python ints is injective *)
Lemma to_int_not_nil z : Z.to_int z <> Pos Nil /\ Z.to_int z <> Neg Nil.
Proof.
  destruct z; simpl; split; try discriminate; intro H; injection H as H;
    exact (Unsigned.to_uint_nonnil _ H).
Qed.

Lemma dec_inj z1 z2 : dec z1 = dec z2 -> z1 = z2.
Proof.
  unfold dec. intro H. apply (f_equal NilZero.int_of_string) in H.
  destruct (to_int_not_nil z1) as [A1 A2]. destruct (to_int_not_nil z2) as [B1 B2].
  rewrite !NilZero.isi in H by assumption. injection H as H.
  apply (f_equal Z.of_int) in H. now rewrite !of_to in H.
Qed.

Lemma pyval_str f1 f2 :
  val_type f1 = val_type f2 -> pyval_eqb f1 f2 = String.eqb (str_val f1) (str_val f2).
Proof.
  destruct f1, f2; simpl; try discriminate; intros _; try reflexivity.
  destruct (Z.eqb z z0) eqn:E.
  - apply Z.eqb_eq in E; subst. now rewrite String.eqb_refl.
  - symmetry. apply String.eqb_neq. intro H. apply dec_inj in H. subst.
    rewrite Z.eqb_refl in E. discriminate.
Qed.

(* ---------------------------------------------------------------- list versions of the walk lemmas *)
Lemma walk_list_refl l : forallb wf_arg l = true -> walk_list l l = true.
Proof.
  induction l as [|x r IH]; simpl; auto. intro H. apply andb_true_iff in H as [Hx Hr].
  rewrite walk_refl, IH; auto.
Qed.

Lemma walk_list_sym l1 l2 : walk_list l1 l2 = walk_list l2 l1.
Proof.
  revert l2; induction l1 as [|x r IH]; intros [|y r2]; simpl; auto.
  now rewrite walk_sym, IH.
Qed.

Lemma walk_list_trans l1 l2 l3 :
  walk_list l1 l2 = true -> walk_list l2 l3 = true -> walk_list l1 l3 = true.
Proof.
  revert l2 l3; induction l1 as [|x r IH]; intros [|y r2] [|z r3]; simpl; try congruence.
  intros A B. apply andb_true_iff in A as [A1 A2]. apply andb_true_iff in B as [B1 B2].
  rewrite (walk_trans _ _ _ A1 B1). simpl. eauto.
Qed.

(* ---------------------------------------------------------------- == on the non-string classes is the walk *)
Definition elem_ok (t : pyterm) : bool :=
  match t with PNone => true | _ => wf_arg t && plain_node t end.

Section WithR.
  Variable R : pyterm -> string.

  Lemma eq_nonad_plain a b :
    strcls a = false -> strcls b = false -> eq_nonad R a b = walk a b.
  Proof.
    intros Sa Sb. unfold eq_nonad, eq_nonad_s.
    destruct (exact_term a && negb (exact_term b)).
    - rewrite Sb. apply walk_sym.
    - rewrite Sa. reflexivity.
  Qed.

  Lemma eq_elem_plain a b : elem_ok a = true -> elem_ok b = true -> eq_elem R a b = walk a b.
  Proof.
    destruct a as [| z | c f l | hs b0], b as [| z2 | c2 f2 l2 | hs2 b2]; intros A B;
      try reflexivity; try (simpl in A; discriminate); try (simpl in B; discriminate).
    unfold elem_ok in A, B.
    apply andb_true_iff in A as [_ A]. apply andb_true_iff in B as [_ B].
    unfold plain_node in A, B. apply negb_true_iff in A. apply negb_true_iff in B.
    unfold eq_elem. apply eq_nonad_plain; assumption.
  Qed.

  Lemma list_eqb_plain l1 l2 :
    forallb elem_ok l1 = true -> forallb elem_ok l2 = true -> list_eqb R l1 l2 = walk_list l1 l2.
  Proof.
    revert l2; induction l1 as [|x r IH]; intros [|y r2]; simpl; auto.
    intros A B. apply andb_true_iff in A as [A1 A2]. apply andb_true_iff in B as [B1 B2].
    rewrite eq_elem_plain, IH; auto.
  Qed.

  (* well-formed ADs: heads / body are elem_ok *)
  Lemma wf_ad hs b : wf (PAD hs b) = true -> forallb elem_ok hs = true /\ elem_ok b = true.
  Proof.
    unfold wf. intro H. apply andb_true_iff in H as [H1 H2]. split.
    - clear H2. induction hs as [|x r IH]; simpl in *; auto.
      apply andb_true_iff in H1 as [Hx Hr]. rewrite IH by assumption.
      destruct x; simpl in *; auto; try discriminate. rewrite Hx. reflexivity.
    - destruct b; auto.
  Qed.

  Lemma elem_ok_wf t : elem_ok t = true -> wf_arg t = true.
  Proof. destruct t; simpl; auto; intro H; apply andb_true_iff in H as [H _]; exact H. Qed.

  Lemma forallb_elem_ok_wf l : forallb elem_ok l = true -> forallb wf_arg l = true.
  Proof.
    induction l as [|x r IH]; simpl; auto. intro H. apply andb_true_iff in H as [Hx Hr].
    rewrite elem_ok_wf, IH; auto.
  Qed.

  Lemma eq_m_ad hs1 b1 hs2 b2 :
    wf (PAD hs1 b1) = true -> wf (PAD hs2 b2) = true ->
    eq_m R (PAD hs1 b1) (PAD hs2 b2) = walk_list hs1 hs2 && walk b1 b2.
  Proof.
    intros W1 W2. destruct (wf_ad _ _ W1) as [H1 B1]. destruct (wf_ad _ _ W2) as [H2 B2].
    unfold eq_m, eq_m_s. rewrite list_eqb_plain, eq_elem_plain; auto.
  Qed.

  Lemma strcls_ad h b : strcls (PAD h b) = false.
  Proof. reflexivity. Qed.

  Lemma eq_m_node_ad c f l h b :
    strcls (PNode c f l) = false -> eq_m R (PNode c f l) (PAD h b) = false.
  Proof.
    intro S. unfold eq_m, eq_m_s. destruct (exact_term (PNode c f l)); auto. rewrite S. reflexivity.
  Qed.

  Lemma eq_m_ad_node c f l h b : eq_m R (PAD h b) (PNode c f l) = false.
  Proof. reflexivity. Qed.

  (* ---------------------------------------------------------------- reflexive *)
  Lemma eq_m_refl a : wf a = true -> eq_m R a a = true.
  Proof.
    destruct a as [| z | c f l | hs b]; intro W; try discriminate.
    - unfold eq_m, eq_m_s, eq_nonad_s. rewrite andb_negb_r.
      destruct (strcls (PNode c f l)).
      + apply String.eqb_refl.
      + apply walk_refl. exact W.
    - rewrite eq_m_ad by assumption. destruct (wf_ad _ _ W) as [H B].
      rewrite walk_list_refl by (apply forallb_elem_ok_wf; assumption).
      rewrite walk_refl by (apply elem_ok_wf; assumption). reflexivity.
  Qed.

  (* ---------------------------------------------------------------- symmetric *)
  Lemma eq_m_sym a b :
    wf a = true -> wf b = true -> sym_guard a b = true -> eq_m R a b = eq_m R b a.
  Proof.
    destruct a as [| z | c f l | hs b0], b as [| z2 | c2 f2 l2 | hs2 b2]; intros Wa Wb G;
      try discriminate.
    - (* node, node *)
      unfold eq_m, eq_m_s, eq_nonad_s.
      clear Wa Wb. unfold sym_guard in G.
      destruct c, c2; cbn [strcls exact_term subcls_nonstr andb orb negb] in *; try discriminate;
        try apply String.eqb_sym; try apply walk_sym; reflexivity.
    - (* node, AD *)
      clear Wa Wb. unfold eq_m, eq_m_s, sym_guard in *.
      destruct c; cbn [strcls exact_term subcls_nonstr andb orb negb] in *; try discriminate; reflexivity.
    - (* AD, node *)
      clear Wa Wb. unfold eq_m, eq_m_s, sym_guard in *.
      destruct c2; cbn [strcls exact_term subcls_nonstr andb orb negb] in *; try discriminate; reflexivity.
    - rewrite !eq_m_ad by assumption. now rewrite walk_list_sym, walk_sym.
  Qed.

  (* ---------------------------------------------------------------- transitive *)
  Lemma eq_m_trans a b c :
    wf a = true -> wf b = true -> wf c = true -> trans_guard a b c = true ->
    eq_m R a b = true -> eq_m R b c = true -> eq_m R a c = true.
  Proof.
    intros Wa Wb Wc G. unfold trans_guard in G. apply andb_true_iff in G as [G1 G2].
    apply eqb_prop in G1. apply eqb_prop in G2.
    destruct a as [| z | c1 f1 l1 | hs1 b1]; try discriminate;
      destruct b as [| z2 | c2 f2 l2 | hs2 b2]; try discriminate;
      destruct c as [| z3 | c3 f3 l3 | hs3 b3]; try discriminate.
    1: { (* three nodes *)
      destruct (strcls (PNode c1 f1 l1)) eqn:S1.
      + (* all string-compared *)
        assert (X1 : exact_term (PNode c1 f1 l1) = false) by (destruct c1; simpl in *; congruence).
        assert (X2 : exact_term (PNode c2 f2 l2) = false) by (destruct c2; simpl in *; congruence).
        unfold eq_m, eq_m_s, eq_nonad_s. rewrite X1, X2. simpl andb. cbv iota. rewrite S1, <- G1.
        rewrite !String.eqb_eq. congruence.
      + change (eq_m R (PNode c1 f1 l1) (PNode c2 f2 l2)) with (eq_nonad R (PNode c1 f1 l1) (PNode c2 f2 l2)).
        change (eq_m R (PNode c2 f2 l2) (PNode c3 f3 l3)) with (eq_nonad R (PNode c2 f2 l2) (PNode c3 f3 l3)).
        change (eq_m R (PNode c1 f1 l1) (PNode c3 f3 l3)) with (eq_nonad R (PNode c1 f1 l1) (PNode c3 f3 l3)).
        rewrite !eq_nonad_plain by congruence. apply walk_trans. }
    all: rewrite ?strcls_ad in *.
    all: try (rewrite (eq_m_ad_node c2 f2 l2); discriminate).
    all: try (rewrite (eq_m_ad_node c3 f3 l3); intros _ H; discriminate H).
    all: try (rewrite (eq_m_node_ad c1 f1 l1 hs2 b2) by congruence; discriminate).
    all: try (rewrite (eq_m_node_ad c2 f2 l2 hs3 b3) by congruence; intros _ H; discriminate H).
    rewrite !eq_m_ad by assumption. intros A B.
      apply andb_true_iff in A as [A1 A2]. apply andb_true_iff in B as [B1 B2].
      rewrite (walk_list_trans _ _ _ A1 B1), (walk_trans _ _ _ A2 B2). reflexivity.
  Qed.
End WithR.

(* ---------------------------------------------------------------- equal => same hash key *)
Definition R_atoms (R : pyterm -> string) : Prop :=
  (forall v, R (PNode CConst v []) = str_val v) /\ (forall v, R (PNode CVar v []) = str_val v).

Lemma walk_list_hk nh l1 l2 :
  forallb wf_arg l1 = true -> forallb wf_arg l2 = true -> nh || nfa_list l1 l2 = true ->
  walk_list l1 l2 = true -> map (hk nh) l1 = map (hk nh) l2.
Proof.
  revert l2; induction l1 as [|x r IH]; intros [|y r2]; simpl; try congruence.
  intros W1 W2 G L.
  apply andb_true_iff in W1 as [Wx Wr]. apply andb_true_iff in W2 as [Wy Wr2].
  apply andb_true_iff in L as [Lx Lr].
  assert (Gx : nh || nfa x y = true).
  { destruct nh; simpl in *; auto. apply andb_true_iff in G as [G _]. exact G. }
  assert (Gr : nh || nfa_list r r2 = true).
  { destruct nh; simpl in *; auto. apply andb_true_iff in G as [_ G]. exact G. }
  rewrite (walk_hk nh x y Wx Wy Gx Lx). f_equal. apply IH; assumption.
Qed.

Lemma eq_m_hash R nh a b :
  R_atoms R -> wf a = true -> wf b = true -> hash_guard nh a b = true ->
  eq_m R a b = true -> hk nh a = hk nh b.
Proof.
  intros [RC RV] Wa Wb G. unfold hash_guard in G. apply andb_true_iff in G as [G1 G2].
  apply eqb_prop in G1.
  destruct a as [| z | c1 f1 l1 | hs1 b1]; try discriminate;
    destruct b as [| z2 | c2 f2 l2 | hs2 b2]; try discriminate.
  - destruct (strcls (PNode c1 f1 l1)) eqn:S1.
    + (* two Var/Constant objects holding values of the same python type *)
      apply Nat.eqb_eq in G2.
      assert (X1 : exact_term (PNode c1 f1 l1) = false) by (destruct c1; simpl in *; congruence).
      unfold eq_m, eq_m_s, eq_nonad_s. rewrite X1. simpl andb. cbv iota. rewrite S1.
      rewrite String.eqb_eq.
      assert (L1 : l1 = []).
      { destruct c1; simpl in S1; try discriminate; simpl in Wa;
          apply andb_true_iff in Wa as [Wa _]; try (apply andb_true_iff in Wa as [_ Wa]);
          destruct l1; simpl in *; congruence. }
      assert (L2 : l2 = []).
      { symmetry in G1. destruct c2; simpl in G1; try discriminate; simpl in Wb;
          apply andb_true_iff in Wb as [Wb _]; try (apply andb_true_iff in Wb as [_ Wb]);
          destruct l2; simpl in *; congruence. }
      subst l1 l2.
      assert (K : forall c f, strcls (PNode c f []) = true -> R (PNode c f []) = str_val f /\
                              hk nh (PNode c f []) = key_val f).
      { intros c f S. destruct c; simpl in S; try discriminate; split; auto. }
      destruct (K c1 f1 S1) as [E1 E1']. symmetry in G1. destruct (K c2 f2 G1) as [E2 E2'].
      rewrite E1, E2, E1', E2'. intro H.
      assert (V1 : c1 = CVar -> is_vstr f1 = true).
      { intros ->. simpl in Wa. apply andb_true_iff in Wa as [Wa _]. apply andb_true_iff in Wa as [Wa _]. exact Wa. }
      assert (V2 : c2 = CVar -> is_vstr f2 = true).
      { intros ->. simpl in Wb. apply andb_true_iff in Wb as [Wb _]. apply andb_true_iff in Wb as [Wb _]. exact Wb. }
      destruct c1; simpl in S1; try discriminate; destruct c2; simpl in G1; try discriminate;
        destruct f1, f2; simpl in *; try discriminate;
        try (specialize (V1 eq_refl)); try (specialize (V2 eq_refl)); try discriminate;
        try congruence; try (apply dec_inj in H; congruence).
    + (* neither is a Var/Constant: the walk *)
      change (eq_m R (PNode c1 f1 l1) (PNode c2 f2 l2)) with (eq_nonad R (PNode c1 f1 l1) (PNode c2 f2 l2)).
      rewrite eq_nonad_plain by congruence. intro H.
      apply walk_hk; auto.
  - (* node, AD *)
    rewrite strcls_ad in G1. rewrite (eq_m_node_ad R) by assumption. discriminate.
  - rewrite eq_m_ad by assumption. intro H. apply andb_true_iff in H as [H1 H2].
    destruct (wf_ad _ _ Wa) as [A1 A2]. destruct (wf_ad _ _ Wb) as [B1 B2].
    simpl in G2.
    assert (Gh : nh || nfa_list hs1 hs2 = true).
    { destruct nh; simpl in *; auto. apply andb_true_iff in G2 as [G2 _]. exact G2. }
    assert (Gb : nh || nfa b1 b2 = true).
    { destruct nh; simpl in *; auto. apply andb_true_iff in G2 as [_ G2]. exact G2. }
    pose proof (walk_list_hk nh hs1 hs2 (forallb_elem_ok_wf _ A1) (forallb_elem_ok_wf _ B1) Gh H1) as MH.
    pose proof (walk_hk nh b1 b2 (elem_ok_wf _ A2) (elem_ok_wf _ B2) Gb H2) as MB.
    pose proof (walk_arglen b1 b2 (elem_ok_wf _ A2) (elem_ok_wf _ B2) H2) as AB.
    pose proof (walk_list_length _ _ H1) as LEN.
    simpl. rewrite MH, MB, AB, LEN. reflexivity.
Qed.

(* ---------------------------------------------------------------- ground terms: == vs unification *)
Fixpoint unify_list (l1 l2 : list pyterm) : bool :=
  match l1, l2 with
  | x :: r1, y :: r2 => unify_ident x y && unify_list r1 r2
  | _, _ => true
  end.
Fixpoint shape_list (l1 l2 : list pyterm) : bool :=
  match l1, l2 with
  | x :: r1, y :: r2 => shape_agree x y && shape_list r1 r2
  | _, _ => true
  end.

Lemma unify_node c1 f1 l1 c2 f2 l2 :
  unify_ident (PNode c1 f1 l1) (PNode c2 f2 l2) =
  sig_eqb f1 (length l1) f2 (length l2) && unify_list l1 l2.
Proof. reflexivity. Qed.

Lemma shape_node c1 f1 l1 c2 f2 l2 :
  shape_agree (PNode c1 f1 l1) (PNode c2 f2 l2) =
  cls_eqb c1 c2 && Nat.eqb (val_type f1) (val_type f2) && shape_list l1 l2.
Proof. reflexivity. Qed.

Lemma wf_const_args f l : wf_arg (PNode CConst f l) = true -> l = [].
Proof. simpl. intro H. apply andb_true_iff in H as [H _]. destruct l; simpl in *; congruence. Qed.

Lemma walk_unify : forall a b,
  wf_arg a = true -> wf_arg b = true -> nfa a b = true -> shape_agree a b = true ->
  noquotes a = true -> noquotes b = true -> ground a = true -> ground b = true ->
  walk a b = unify_ident a b.
Proof.
  induction a as [| z | c f l IH | hs b0 _ _] using pyterm_ind';
    intros [| z2 | c2 f2 l2 | hs2 b2] Wa Wb N S Qa Qb Ga Gb; try discriminate.
  rewrite walk_node, unify_node. rewrite nfa_node in N. rewrite shape_node in S.
  apply andb_true_iff in S as [S SL]. apply andb_true_iff in S as [SC SV].
  apply cls_eqb_eq in SC; subst c2. apply Nat.eqb_eq in SV.
  apply andb_true_iff in N as [NF NL].
  simpl in Qa, Qb. apply andb_true_iff in Qa as [Qf Ql]. apply andb_true_iff in Qb as [Qf2 Ql2].
  simpl in Ga, Gb. apply andb_true_iff in Ga as [_ Gl]. apply andb_true_iff in Gb as [_ Gl2].
  unfold noquote_val in Qf, Qf2. apply String.eqb_eq in Qf. apply String.eqb_eq in Qf2.
  unfold sig_eqb. rewrite Qf, Qf2, <- (pyval_str f f2 SV). rewrite cls_eqb_refl. simpl andb at 1.
  pose proof (wf_arg_node _ _ _ Wa) as Wl. pose proof (wf_arg_node _ _ _ Wb) as Wl2.
  destruct (cls_eqb c CConst) eqn:EC.
  - apply cls_eqb_eq in EC; subst c.
    rewrite (wf_const_args _ _ Wa), (wf_const_args _ _ Wb). simpl. now rewrite !andb_true_r.
  - (* argument lists *)
    assert (LST : walk_list l l2 = Nat.eqb (length l) (length l2) && unify_list l l2).
    { clear Wa Wb NF Qf Qf2 EC. revert l2 Wl2 NL SL Ql2 Gl2.
      induction l as [|x r IHr]; intros [|y r2]; simpl; auto.
      intros Wl2 NL SL Ql2 Gl2.
      simpl in Wl, Ql, Gl.
      apply andb_true_iff in Wl as [Wx Wr]. apply andb_true_iff in Wl2 as [Wy Wr2].
      apply andb_true_iff in NL as [Nx Nr]. apply andb_true_iff in SL as [Sx Sr].
      apply andb_true_iff in Ql as [Qx Qr]. apply andb_true_iff in Ql2 as [Qy Qr2].
      apply andb_true_iff in Gl as [Gx Gr]. apply andb_true_iff in Gl2 as [Gy Gr2].
      inversion IH as [|? ? IHx IHrest]; subst.
      rewrite (IHx y Wx Wy Nx Sx Qx Qy Gx Gy).
      rewrite (IHr IHrest Qr Gr Wr r2 Wr2 Nr Sr Qr2 Gr2).
      destruct (unify_ident x y); simpl; auto.
      now rewrite andb_false_r. }
    rewrite LST.
    destruct (cls_eqb c CNot) eqn:EN.
    + simpl in NF. rewrite NF. simpl. reflexivity.
    + simpl. now rewrite andb_assoc.
Qed.

(* top level: two ground Term objects *)
Lemma eq_m_unify R a b :
  R_atoms R -> wf_arg a = true -> wf_arg b = true -> ground a = true -> ground b = true ->
  unify_guard a b = true -> eq_m R a b = unify_ident a b.
Proof.
  intros [RC RV] Wa Wb Ga Gb G. unfold unify_guard in G.
  apply andb_true_iff in G as [G Qb]. apply andb_true_iff in G as [G Qa].
  apply andb_true_iff in G as [G S]. apply andb_true_iff in G as [G1 N].
  apply eqb_prop in G1.
  destruct a as [| z | c1 f1 l1 | hs1 b1]; try discriminate;
    destruct b as [| z2 | c2 f2 l2 | hs2 b2]; try discriminate.
  destruct (strcls (PNode c1 f1 l1)) eqn:S1.
  - (* two Constants (a ground Var does not exist) *)
    symmetry in G1.
    destruct c1; simpl in S1; try discriminate; simpl in Ga; try discriminate.
    destruct c2; simpl in G1; try discriminate; simpl in Gb; try discriminate.
    rewrite (wf_const_args _ _ Wa), (wf_const_args _ _ Wb) in *.
    unfold eq_m, eq_m_s, eq_nonad_s. simpl. rewrite !RC.
    simpl in Qa, Qb. rewrite !andb_true_r in Qa, Qb.
    unfold noquote_val in Qa, Qb. apply String.eqb_eq in Qa. apply String.eqb_eq in Qb.
    unfold sig_eqb. rewrite Qa, Qb. simpl. now rewrite !andb_true_r.
  - change (eq_m R (PNode c1 f1 l1) (PNode c2 f2 l2)) with (eq_nonad R (PNode c1 f1 l1) (PNode c2 f2 l2)).
    rewrite eq_nonad_plain by congruence.
    apply walk_unify; assumption.
Qed.

(* ---------------------------------------------------------------- the concrete printer is right on Constant / Var nodes *)
Lemma repr_m_atoms ta : R_atoms (repr_m ta).
Proof. split; intro v; reflexivity. Qed.

(* ---------------------------------------------------------------- the repaired Var/Constant equality: everything is the walk *)
Lemma eq_nonad_t_walk a b : eq_nonad_t a b = walk a b.
Proof. unfold eq_nonad_t. destruct (exact_term a && negb (exact_term b)); auto using walk_sym. Qed.

Lemma eq_elem_t_walk a b : eq_elem_t a b = walk a b.
Proof.
  destruct a as [| z | c f l | hs b0], b as [| z2 | c2 f2 l2 | hs2 b2]; try reflexivity.
  unfold eq_elem_t. apply eq_nonad_t_walk.
Qed.

Lemma list_eqb_t_walk l1 l2 : list_eqb_t l1 l2 = walk_list l1 l2.
Proof.
  revert l2; induction l1 as [|x r IH]; intros [|y r2]; simpl; auto.
  now rewrite eq_elem_t_walk, IH.
Qed.

Lemma eq_typed_node c1 f1 l1 c2 f2 l2 :
  eq_typed (PNode c1 f1 l1) (PNode c2 f2 l2) = walk (PNode c1 f1 l1) (PNode c2 f2 l2).
Proof. unfold eq_typed. apply eq_nonad_t_walk. Qed.

Lemma eq_typed_ad h1 b1 h2 b2 :
  eq_typed (PAD h1 b1) (PAD h2 b2) = walk_list h1 h2 && walk b1 b2.
Proof. unfold eq_typed. now rewrite list_eqb_t_walk, eq_elem_t_walk. Qed.

Lemma wf_ad_args hs b : wf (PAD hs b) = true -> forallb wf_arg hs = true /\ wf_arg b = true.
Proof.
  intro W. destruct (wf_ad _ _ W) as [H B]. split.
  - apply forallb_elem_ok_wf; assumption.
  - apply elem_ok_wf; assumption.
Qed.

Lemma eq_typed_refl a : wf a = true -> eq_typed a a = true.
Proof.
  destruct a as [| z | c f l | hs b]; intro W; try discriminate.
  - rewrite eq_typed_node. apply walk_refl. exact W.
  - rewrite eq_typed_ad. destruct (wf_ad_args _ _ W) as [H B].
    now rewrite walk_list_refl, walk_refl.
Qed.

Lemma eq_typed_sym a b : eq_typed a b = eq_typed b a.
Proof.
  destruct a as [| z | c f l | hs b0], b as [| z2 | c2 f2 l2 | hs2 b2]; try reflexivity.
  - rewrite !eq_typed_node. apply walk_sym.
  - rewrite !eq_typed_ad. now rewrite walk_list_sym, walk_sym.
Qed.

Lemma eq_typed_trans a b c : eq_typed a b = true -> eq_typed b c = true -> eq_typed a c = true.
Proof.
  destruct a as [| z | c1 f1 l1 | hs1 b1]; try discriminate;
    destruct b as [| z2 | c2 f2 l2 | hs2 b2]; try discriminate;
    destruct c as [| z3 | c3 f3 l3 | hs3 b3]; try discriminate.
  - rewrite !eq_typed_node. apply walk_trans.
  - rewrite !eq_typed_ad. intros A B.
    apply andb_true_iff in A as [A1 A2]. apply andb_true_iff in B as [B1 B2].
    now rewrite (walk_list_trans _ _ _ A1 B1), (walk_trans _ _ _ A2 B2).
Qed.

Lemma eq_typed_hash nh a b :
  wf a = true -> wf b = true -> nh || nfa_top a b = true ->
  eq_typed a b = true -> hk nh a = hk nh b.
Proof.
  intros Wa Wb G.
  destruct a as [| z | c1 f1 l1 | hs1 b1]; try discriminate;
    destruct b as [| z2 | c2 f2 l2 | hs2 b2]; try discriminate.
  - rewrite eq_typed_node. apply walk_hk; assumption.
  - rewrite eq_typed_ad. intro H. apply andb_true_iff in H as [H1 H2].
    destruct (wf_ad_args _ _ Wa) as [A1 A2]. destruct (wf_ad_args _ _ Wb) as [B1 B2].
    assert (Gh : nh || nfa_list hs1 hs2 = true).
    { destruct nh; simpl in *; auto. apply andb_true_iff in G as [G _]. exact G. }
    assert (Gb : nh || nfa b1 b2 = true).
    { destruct nh; simpl in *; auto. apply andb_true_iff in G as [_ G]. exact G. }
    pose proof (walk_list_hk nh hs1 hs2 A1 B1 Gh H1) as MH.
    pose proof (walk_hk nh b1 b2 A2 B2 Gb H2) as MB.
    pose proof (walk_arglen b1 b2 A2 B2 H2) as AB.
    pose proof (walk_list_length _ _ H1) as LEN.
    simpl. rewrite MH, MB, AB, LEN. reflexivity.
Qed.

Lemma eq_typed_unify a b :
  wf_arg a = true -> wf_arg b = true -> ground a = true -> ground b = true ->
  nfa a b && shape_agree a b && noquotes a && noquotes b = true ->
  eq_typed a b = unify_ident a b.
Proof.
  intros Wa Wb Ga Gb G.
  apply andb_true_iff in G as [G Qb]. apply andb_true_iff in G as [G Qa].
  apply andb_true_iff in G as [N S].
  destruct a as [| z | c1 f1 l1 | hs1 b1]; try discriminate;
    destruct b as [| z2 | c2 f2 l2 | hs2 b2]; try discriminate.
  rewrite eq_typed_node. apply walk_unify; assumption.
Qed.

(* ---------------------------------------------------------------- both variants at once *)
Lemma eq_cfg_refl ta R a : wf a = true -> eq_cfg ta R a a = true.
Proof. destruct ta; [apply eq_typed_refl | apply eq_m_refl]. Qed.

Lemma eq_cfg_sym ta R a b :
  wf a = true -> wf b = true -> ta || sym_guard a b = true -> eq_cfg ta R a b = eq_cfg ta R b a.
Proof. destruct ta; intros Wa Wb G; [apply eq_typed_sym | apply eq_m_sym; assumption]. Qed.

Lemma eq_cfg_trans ta R a b c :
  wf a = true -> wf b = true -> wf c = true -> ta || trans_guard a b c = true ->
  eq_cfg ta R a b = true -> eq_cfg ta R b c = true -> eq_cfg ta R a c = true.
Proof. destruct ta; intros Wa Wb Wc G; [apply eq_typed_trans | apply eq_m_trans; assumption]. Qed.

Definition hash_guard_cfg (ta nh : bool) (a b : pyterm) : bool :=
  if ta then nh || nfa_top a b else hash_guard nh a b.

Lemma eq_cfg_hash ta nh R a b :
  R_atoms R -> wf a = true -> wf b = true -> hash_guard_cfg ta nh a b = true ->
  eq_cfg ta R a b = true -> hk nh a = hk nh b.
Proof.
  destruct ta; intros HR Wa Wb G; [apply eq_typed_hash | apply eq_m_hash]; assumption.
Qed.

Definition unify_guard_cfg (ta : bool) (a b : pyterm) : bool :=
  if ta then nfa a b && shape_agree a b && noquotes a && noquotes b else unify_guard a b.

Lemma eq_cfg_unify ta R a b :
  R_atoms R -> wf_arg a = true -> wf_arg b = true -> ground a = true -> ground b = true ->
  unify_guard_cfg ta a b = true -> eq_cfg ta R a b = unify_ident a b.
Proof.
  destruct ta; intros HR Wa Wb Ga Gb G; [apply eq_typed_unify | apply eq_m_unify]; assumption.
Qed.
