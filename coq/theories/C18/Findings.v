(* C18 — refutation witnesses for the code AS PINNED (Not inherits Term.__hash__:
   nh = false).  Outside the cone of Props.v.  Each witness is also executed
   against the real implementation by harness/props/C18.py (run_witnesses). *)
From Coq Require Import ZArith String List Bool.
From PL.C18 Require Import ModelTermEq.
Import ListNotations.
Open Scope string_scope.

Definition a_ := PNode CTerm (VStr "a") [].
Definition f_ (l : list pyterm) := PNode CTerm (VStr "f") l.
Definition K (v : pyval) := PNode CConst v [].

(* \+a == not a, but the functor is part of the hash key *)
Theorem C18_not_functor_hash_refuted :
  exists s t, wf s = true /\ wf t = true /\ eq_m (repr_m false) s t = true /\ hk false s <> hk false t.
Proof.
  exists (PNode CNot (VStr "\+") [a_]), (PNode CNot (VStr "not") [a_]).
  vm_compute. repeat split; discriminate.
Qed.
(* ... and the repaired Not.__hash__ removes this witness *)
Theorem C18_not_functor_hash_repaired :
  let s := PNode CNot (VStr "\+") [a_] in let t := PNode CNot (VStr "not") [a_] in
  hk true s = hk true t /\ hk true (f_ [s]) = hk true (f_ [t]).
Proof. vm_compute. split; reflexivity. Qed.

(* Constant('a') == Term('a') (string comparison), hash('a') vs hash(('a',0,0)) *)
Theorem C18_constant_vs_term_hash_refuted :
  exists s t, wf s = true /\ wf t = true /\ eq_m (repr_m false) s t = true /\ eq_m (repr_m false) t s = true /\
              hk false s <> hk false t.
Proof. exists (K (VStr "a")), a_. vm_compute. repeat split; discriminate. Qed.

(* Var('X') == Term('X') *)
Theorem C18_var_vs_term_hash_refuted :
  exists s t, wf s = true /\ wf t = true /\ eq_m (repr_m false) s t = true /\ hk false s <> hk false t.
Proof. exists (PNode CVar (VStr "X") []), (PNode CTerm (VStr "X") []). vm_compute. repeat split; discriminate. Qed.

(* Constant(1) == Constant('1') *)
Theorem C18_constant_value_type_hash_refuted :
  exists s t, wf s = true /\ wf t = true /\ eq_m (repr_m false) s t = true /\ hk false s <> hk false t.
Proof. exists (K (VInt 1)), (K (VStr "1")). vm_compute. repeat split; discriminate. Qed.

(* Constant('\+a') == Not('\+', a) but not the other way round *)
Theorem C18_symmetry_refuted :
  exists s t, wf s = true /\ wf t = true /\ eq_m (repr_m false) s t = true /\ eq_m (repr_m false) t s = false.
Proof. exists (K (VStr "\+a")), (PNode CNot (VStr "\+") [a_]). vm_compute. repeat split. Qed.

(* f(1) == Constant('f(1)') == f('1') but f(1) != f('1') *)
Theorem C18_transitivity_refuted :
  exists s t u, wf s = true /\ wf t = true /\ wf u = true /\
                eq_m (repr_m false) s t = true /\ eq_m (repr_m false) t u = true /\ eq_m (repr_m false) s u = false.
Proof.
  exists (f_ [K (VInt 1)]), (K (VStr "f(1)")), (f_ [K (VStr "1")]). vm_compute. repeat split.
Qed.

(* 'a' = a unifies (signature strips quotes) but 'a' == a is false *)
Theorem C18_quoted_atom_eq_vs_unify_refuted :
  exists s t, wf s = true /\ wf t = true /\ ground s = true /\ ground t = true /\
              unify_ident s t = true /\ eq_m (repr_m false) s t = false.
Proof. exists (PNode CTerm (VStr "'a'") []), a_. vm_compute. repeat split. Qed.

(* \+a == not a but they do not unify *)
Theorem C18_not_functor_eq_vs_unify_refuted :
  exists s t, wf s = true /\ wf t = true /\ ground s = true /\ ground t = true /\
              eq_m (repr_m false) s t = true /\ unify_ident s t = false.
Proof.
  exists (PNode CNot (VStr "\+") [a_]), (PNode CNot (VStr "not") [a_]). vm_compute. repeat split.
Qed.

(* f(Constant('a')) unifies with f(Term('a')) but they are not equal *)
Theorem C18_class_tag_eq_vs_unify_refuted :
  exists s t, wf s = true /\ wf t = true /\ ground s = true /\ ground t = true /\
              unify_ident s t = true /\ eq_m (repr_m false) s t = false.
Proof. exists (f_ [K (VStr "a")]), (f_ [a_]). vm_compute. repeat split. Qed.

(* Constant('f(a)') == f(a) but they do not unify *)
Theorem C18_constant_str_eq_vs_unify_refuted :
  exists s t, wf s = true /\ wf t = true /\ ground s = true /\ ground t = true /\
              eq_m (repr_m false) s t = true /\ unify_ident s t = false.
Proof. exists (K (VStr "f(a)")), (f_ [a_]). vm_compute. repeat split. Qed.
