(* Witnesses of deviations of sample.py from the stated distribution; outside the cone of Props.v. *)
From Coq Require Import QArith NArith List Bool.
From PL.C22 Require Import ModelSampler ProofsSampler.
Import ListNotations.
Open Scope Q_scope.
(* add_atom never draws for a head once the remaining mass of its group is below 1e-8:
   0.999999995::a; 0.000000005::b.  gives P(b) = 0 instead of 5e-9 (a numerical guard of the code;
   the categorical theorem excludes heads with 0 < p < 1e-8) *)
Theorem C22_categorical_without_cutoff_guard_refuted :
  exists g heads h, In h heads /\ Qsum (map snd heads) <= 1 /\ (forall x, In x heads -> 0 <= snd x) /\
    ~ mass (adrun g heads init 1) (chosenb (fst h)) == snd h.
Proof. exact cutoff_head_unreachable. Qed.
