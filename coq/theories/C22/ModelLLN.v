(* Repetition of the sampler: n independent samples, empirical frequency, estimate.
   problog/tasks/sample.py: sample() yields accepted samples one after the other, every attempt
   starts from a fresh SampledFormula and fresh draws (independent, identically distributed);
   estimate() returns, per query, (number of samples in which it is true) / (number of samples).

   Finite distributions are the `list (A * Q)` of ModelSampler (`mass`, leaves of `sdist`).
   No proofs in this file. *)
From Coq Require Import QArith Qround NArith ZArith List Bool.
From PL.C22 Require Import ModelSampler.
Import ListNotations.
Open Scope Q_scope.

(* expectation of a Q-valued function under a finite distribution *)
Fixpoint expect {A} (d : list (A * Q)) (g : A -> Q) : Q :=
  match d with
  | [] => 0
  | (a, w) :: t => w * g a + expect t g
  end.

(* indicator of an event *)
Definition ind {A} (f : A -> bool) (a : A) : Q := if f a then 1 else 0.

(* n-fold independent product: all sequences of n outcomes, weight = product of the weights *)
Fixpoint prodn {A} (d : list (A * Q)) (n : nat) : list (list A * Q) :=
  match n with
  | O => [([], 1)]
  | S n' => flat_map (fun aw => map (fun lw => (fst aw :: fst lw, snd aw * snd lw)) (prodn d n')) d
  end.

Definition Qnat (n : nat) : Q := inject_Z (Z.of_nat n).

(* number of samples in which the event holds; estimate() divides it by the number of samples *)
Fixpoint count {A} (f : A -> bool) (l : list A) : nat :=
  match l with
  | [] => O
  | a :: t => ((if f a then 1 else 0) + count f t)%nat
  end.
Definition freq {A} (f : A -> bool) (l : list A) : Q := Qnat (count f l) / Qnat (length l).

(* sample mean of a Q-valued observable *)
Fixpoint qsum {A} (g : A -> Q) (l : list A) : Q :=
  match l with
  | [] => 0
  | a :: t => g a + qsum g t
  end.
Definition smean {A} (g : A -> Q) (l : list A) : Q := qsum g l / Qnat (length l).

(* |x - p| >= eps *)
Definition devb (x p eps : Q) : bool := Qle_bool eps (Qabs' (x - p)).
(* the set of sample sequences whose frequency of f deviates from p by at least eps *)
Definition freq_dev {A} (f : A -> bool) (p eps : Q) (l : list A) : bool := devb (freq f l) p eps.
Definition mean_dev {A} (g : A -> Q) (mu eps : Q) (l : list A) : bool := devb (smean g l) mu eps.

(* coordinate-wise events: sample i lies in the i-th event *)
Fixpoint allb {A} (fs : list (A -> bool)) (l : list A) : bool :=
  match fs, l with
  | [], [] => true
  | f :: fs', a :: l' => f a && allb fs' l'
  | _, _ => false
  end.

(* the distribution of an accepted sample: d conditioned on the evidence e
   (C22_rejection_conditional: this is what the rejection loop produces) *)
Definition cond {A} (d : list (A * Q)) (e : A -> bool) : list (A * Q) :=
  map (fun aw => (fst aw, snd aw / mass d e)) (filter (fun aw => e (fst aw)) d).

(* the sub-distribution of "the first accepted sample within m attempts" (unnormalised):
   outcome a with e a is produced with probability w_a * (1 + r + ... + r^(m-1)), r = P(not e) *)
Definition accm {A} (d : list (A * Q)) (e : A -> bool) (m : nat) : list (A * Q) :=
  map (fun aw => (fst aw, snd aw * geo (mass d (fun a => negb (e a))) m)) (filter (fun aw => e (fst aw)) d).

Fixpoint Qpown (c : Q) (n : nat) : Q := match n with O => 1 | S n' => c * Qpown c n' end.

(* explicit sample size: for n >= lln_N eps delta the Chebyshev bound 1/(4 n eps^2) is below delta *)
Definition lln_N (eps delta : Q) : nat := Z.to_nat (Qfloor (1 / (4 * eps * eps * delta)) + 1).
