(* Hand model of problog/tasks/sample.py : SampledFormula.add_atom (lines 196-264),
   compute_probability (266-270) and the rejection loop of sample()/estimate().

   One call of add_atom is a *decision*: either it returns without touching the
   random number generator, or it compares ONE uniform draw u in [0,1) with a
   threshold.  The same `decide` function is interpreted
     - deterministically (`step`, `run`, `srun`: the draws come from a script; this is
       what the harness compares with the real sampler under a scripted random.random),
     - as a finite distribution (`sdist`: the draw splits [0,1) into the interval that
       hits, of length clamp01 q, and the rest).
   Continuous distributions (sample_value) are out of scope.
   No proofs in this file: it must keep running when a proof breaks. *)
From Coq Require Import QArith Qminmax NArith List Bool.
Import ListNotations.
Open Scope Q_scope.

(* `r < 1e-8` in add_atom *)
Definition eps : Q := 1 # 100000000.

(* self.groups[origin]: a float r (remaining mass) or None (a head was chosen) *)
Inductive gst := GOpen (r : Q) | GClosed.

Record state := mkSt {
  s_facts : list (N * bool);    (* self.facts : identifier -> TRUE (0) / FALSE (None) *)
  s_groups : list (N * gst);    (* self.groups : origin -> r / None                    *)
  s_prob : Q                    (* self.probability                                    *)
}.
Definition init : state := mkSt [] [] 1.

(* add_atom(identifier, probability, group): identifiers and origins are interned to N by
   the harness; probability None = deterministic fact *)
Record call := mkCall { c_id : N; c_grp : option N; c_p : option Q }.

Fixpoint lookup {A} (k : N) (l : list (N * A)) : option A :=
  match l with
  | [] => None
  | (k', v) :: t => if N.eqb k k' then Some v else lookup k t
  end.

Fixpoint remove_key {A} (k : N) (l : list (N * A)) : list (N * A) :=
  match l with
  | [] => []
  | (k', v) :: t => if N.eqb k k' then remove_key k t else (k', v) :: remove_key k t
  end.

Definition upd {A} (k : N) (v : A) (l : list (N * A)) : list (N * A) := (k, v) :: remove_key k l.

(* `if origin in self.groups: r = self.groups[origin] else: r = 1.0` *)
Definition cur_grp (g : N) (gs : list (N * gst)) : gst :=
  match lookup g gs with Some x => x | None => GOpen 1 end.

Inductive decision :=
| DConst (v : bool) (st' : state)                   (* no draw *)
| DDraw (strict : bool) (q : Q) (hit miss : state). (* value := u < q (strict) or u <= q *)

Definition decide (st : state) (c : call) : decision :=
  match c_p c with
  | None => DConst true st                                  (* probability is None: return 0 *)
  | Some p =>
    match lookup (c_id c) (s_facts st) with
    | Some v => DConst v st                                 (* memo: return self.facts[identifier] *)
    | None =>
      match c_grp c with
      | None =>                                             (* simple fact: value = random() < prob *)
        DDraw true p
          (mkSt ((c_id c, true) :: s_facts st) (s_groups st) (s_prob st * p))
          (mkSt ((c_id c, false) :: s_facts st) (s_groups st) (s_prob st * (1 - p)))
      | Some g =>
        match cur_grp g (s_groups st) with
        | GClosed =>                                        (* r is None: value = False, groups untouched *)
          DConst false (mkSt ((c_id c, false) :: s_facts st) (s_groups st) (s_prob st))
        | GOpen r =>
          if negb (Qle_bool eps r)                          (* r < 1e-8: value = False, groups[origin] = r - p *)
          then DConst false (mkSt ((c_id c, false) :: s_facts st) (upd g (GOpen (r - p)) (s_groups st)) (s_prob st))
          else                                              (* value = random() <= p / r *)
            DDraw false (p / r)
              (mkSt ((c_id c, true) :: s_facts st) (upd g GClosed (s_groups st)) (s_prob st * p))
              (mkSt ((c_id c, false) :: s_facts st) (upd g (GOpen (r - p)) (s_groups st)) (s_prob st))
        end
      end
    end
  end.

Definition Qlt_bool (a b : Q) : bool := negb (Qle_bool b a).
Definition hitb (strict : bool) (q u : Q) : bool := if strict then Qlt_bool u q else Qle_bool u q.

(* ---- deterministic interpretation: draws from a script ------------------------------ *)
Definition step (st : state) (c : call) (us : list Q) : option (bool * state * list Q) :=
  match decide st c with
  | DConst v st' => Some (v, st', us)
  | DDraw strict q h m =>
    match us with
    | [] => None                                            (* script exhausted *)
    | u :: us' => let v := hitb strict q u in Some (v, if v then h else m, us')
    end
  end.

(* results of every call (in call order), final state, unused draws *)
Fixpoint run (st : state) (cs : list call) (us : list Q) : option (list bool * state * list Q) :=
  match cs with
  | [] => Some ([], st, us)
  | c :: cs' =>
    match step st c us with
    | None => None
    | Some (v, st', us') =>
      match run st' cs' us' with
      | None => None
      | Some (vs, st'', us'') => Some (v :: vs, st'', us'')
      end
    end
  end.

Definition gval (x : gst) : Q := match x with GOpen r => r | GClosed => 1 end.
Fixpoint gprod (gs : list (N * gst)) : Q :=
  match gs with [] => 1 | (_, x) :: t => gval x * gprod t end.

(* compute_probability(): multiply in the remaining mass of every group without a chosen head;
   this is the number printed by --with-probability *)
Definition printed (st : state) : Q := s_prob st * gprod (s_groups st).

(* ---- adaptive encounter strategies ---------------------------------------------------
   Which atom the engine asks next may depend on the values returned so far. *)
Inductive strat := Stop | Ask (c : call) (k : bool -> strat).

Fixpoint of_list (cs : list call) : strat :=
  match cs with [] => Stop | c :: t => Ask c (fun _ => of_list t) end.

Fixpoint srun (s : strat) (st : state) (us : list Q) : option (state * list Q) :=
  match s with
  | Stop => Some (st, us)
  | Ask c k =>
    match step st c us with
    | None => None
    | Some (v, st', us') => srun (k v) st' us'
    end
  end.

(* ---- distribution interpretation -------------------------------------------------------
   {u in [0,1) | u < q} and {u in [0,1) | u <= q} are intervals starting at 0 of length
   clamp01 q (Proofs: hit_interval / miss_interval). *)
Definition clamp01 (q : Q) : Q := Qmax 0 (Qmin 1 q).

Fixpoint sdist (s : strat) (st : state) (w : Q) : list (state * Q) :=
  match s with
  | Stop => [(st, w)]
  | Ask c k =>
    match decide st c with
    | DConst v st' => sdist (k v) st' w
    | DDraw _ q h m => sdist (k true) h (w * clamp01 q) ++ sdist (k false) m (w * (1 - clamp01 q))
    end
  end.

(* finite (sub-)distributions *)
Fixpoint mass {A} (d : list (A * Q)) (f : A -> bool) : Q :=
  match d with
  | [] => 0
  | (a, w) :: t => (if f a then w else 0) + mass t f
  end.

Definition chosenb (id : N) (st : state) : bool :=
  match lookup id (s_facts st) with Some true => true | _ => false end.
Definition valb (id : N) (v : bool) (st : state) : bool :=
  match lookup id (s_facts st) with Some b => Bool.eqb b v | None => false end.

Fixpoint Qsum (l : list Q) : Q := match l with [] => 0 | x :: t => x + Qsum t end.
Fixpoint Qprod (l : list Q) : Q := match l with [] => 1 | x :: t => x * Qprod t end.

Definition ad_calls (g : N) (heads : list (N * Q)) : list call :=
  map (fun h => mkCall (fst h) (Some g) (Some (snd h))) heads.
Definition fact_calls (fs : list (N * Q)) : list call :=
  map (fun h => mkCall (fst h) None (Some (snd h))) fs.

(* ---- rejection loop of sample()/estimate(): draw, keep when the evidence holds, else retry.
   first_acc d e q n = probability that within n attempts a sample is accepted and the
   first accepted one satisfies q *)
Fixpoint first_acc {A} (d : list (A * Q)) (e q : A -> bool) (n : nat) : Q :=
  match n with
  | O => 0
  | S n' => mass d (fun a => e a && q a) + mass d (fun a => negb (e a)) * first_acc d e q n'
  end.

(* ---- comparison helpers used by the harness (model vs. observed run) -------------------- *)
Definition Qabs' (x : Q) : Q := if Qle_bool 0 x then x else - x.
Definition close (a b tol : Q) : bool := Qle_bool (Qabs' (a - b)) tol.

Fixpoint bools_eqb (a b : list bool) : bool :=
  match a, b with
  | [], [] => true
  | x :: a', y :: b' => Bool.eqb x y && bools_eqb a' b'
  | _, _ => false
  end.

(* observed group state: Some r = float, None = python None *)
Definition gst_close (x : gst) (o : option Q) : bool :=
  match x, o with
  | GOpen r, Some r' => close r r' (1 # 1000000000)
  | GClosed, None => true
  | _, _ => false
  end.
Fixpoint groups_close (gs : list (N * gst)) (obs : list (N * option Q)) : bool :=
  match obs with
  | [] => true
  | (g, o) :: t =>
    match lookup g gs with
    | Some x => gst_close x o && groups_close gs t
    | None => false
    end
  end.

(* the whole observation of one sampling attempt: per-call results, number of draws used,
   self.probability before and after compute_probability, self.groups *)
Definition check_run (cs : list call) (us : list Q) (obs_results : list bool)
           (obs_prob obs_printed : Q) (obs_groups : list (N * option Q)) : bool :=
  match run init cs us with
  | None => false
  | Some (vs, st, rest) =>
    bools_eqb vs obs_results
    && match rest with [] => true | _ => false end
    && close (s_prob st) obs_prob (1 # 1000000000)
    && close (printed st) obs_printed (1 # 1000000000)
    && Nat.eqb (length (s_groups st)) (length obs_groups)
    && groups_close (s_groups st) obs_groups
  end.

(* deterministic run of a strategy that also accumulates the length of the interval each
   draw fell into: the volume of the box of scripts that take the same path *)
Fixpoint spath (s : strat) (st : state) (us : list Q) (w : Q) : option (state * Q * list Q) :=
  match s with
  | Stop => Some (st, w, us)
  | Ask c k =>
    match decide st c with
    | DConst v st' => spath (k v) st' us w
    | DDraw strict q h m =>
      match us with
      | [] => None
      | u :: us' =>
        if hitb strict q u then spath (k true) h us' (w * clamp01 q)
        else spath (k false) m us' (w * (1 - clamp01 q))
      end
    end
  end.

(* local side conditions of one call (implied by a well-formed program, see Proofs) *)
Definition call_ok (st : state) (c : call) : Prop :=
  match c_p c with
  | None => True
  | Some p =>
    match lookup (c_id c) (s_facts st) with
    | Some _ => True
    | None =>
      match c_grp c with
      | None => 0 <= p <= 1
      | Some g =>
        match cur_grp g (s_groups st) with
        | GClosed => True
        | GOpen r => if Qle_bool eps r then 0 <= p <= r else p == 0
        end
      end
    end
  end.

Fixpoint ok (s : strat) (st : state) : Prop :=
  match s with
  | Stop => True
  | Ask c k =>
    call_ok st c /\
    match decide st c with
    | DConst v st' => ok (k v) st'
    | DDraw _ _ h m => ok (k true) h /\ ok (k false) m
    end
  end.

Definition keys {A} (l : list (N * A)) : list N := map fst l.
Definition gnodup (st : state) : Prop := NoDup (keys (s_groups st)).

Definition adrun (g : N) (hs : list (N * Q)) (st : state) (w : Q) : list (state * Q) :=
  sdist (of_list (ad_calls g hs)) st w.
(* no head of hs was chosen *)
Definition noneb (hs : list (N * Q)) (st : state) : bool :=
  forallb (fun h => negb (chosenb (fst h) st)) hs.
(* number of heads of hs that were chosen *)
Definition nchosen (hs : list (N * Q)) (st : state) : nat :=
  length (filter (fun h => chosenb (fst h) st) hs).

(* call c occurs somewhere in strategy s *)
Fixpoint asked (c : call) (s : strat) : Prop :=
  match s with Stop => False | Ask c' k => c = c' \/ asked c (k true) \/ asked c (k false) end.

Definition factrun (fs : list (N * Q)) (st : state) (w : Q) : list (state * Q) :=
  sdist (of_list (fact_calls fs)) st w.
(* the memo assigns exactly the values a to the facts fs *)
Fixpoint assignb (fs : list (N * Q)) (a : list bool) (st : state) : bool :=
  match fs, a with
  | [], [] => true
  | (i, _) :: fs', v :: a' => valb i v st && assignb fs' a' st
  | _, _ => false
  end.
Fixpoint aweight (fs : list (N * Q)) (a : list bool) : Q :=
  match fs, a with
  | [], [] => 1
  | (_, p) :: fs', v :: a' => (if v then p else 1 - p) * aweight fs' a'
  | _, _ => 0
  end.

Fixpoint geo (x : Q) (n : nat) : Q := match n with O => 0 | S n' => 1 + x * geo x n' end.
