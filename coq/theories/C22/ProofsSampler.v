(* Lemmas about the sampler model (ModelSampler.v). *)
From Coq Require Import QArith Qminmax NArith List Bool Lia Lqa Permutation Setoid Morphisms.
From PL.C22 Require Import ModelSampler.
Import ListNotations.
Open Scope Q_scope.

(* ------------------------------------------------------------------ Q helpers *)
Lemma Qle_bool_false : forall a b, Qle_bool a b = false -> b < a.
Proof.
  intros a b H. destruct (Qlt_le_dec b a) as [L|L]; auto.
  apply Qle_bool_iff in L. congruence.
Qed.

Lemma clamp01_cases : forall q,
  (q <= 0 /\ clamp01 q == 0) \/ (0 <= q <= 1 /\ clamp01 q == q) \/ (1 <= q /\ clamp01 q == 1).
Proof.
  intros q. unfold clamp01.
  destruct (Q.min_spec 1 q) as [[A B]|[A B]];
  destruct (Q.max_spec 0 (Qmin 1 q)) as [[C D]|[C D]];
  set (m := Qmin 1 q) in *; set (M := Qmax 0 m) in *; clearbody M; clearbody m.
  - right; right. split; lra.
  - exfalso. lra.
  - right; left. split; lra.
  - left. split; lra.
Qed.

Lemma clamp01_id : forall q, 0 <= q <= 1 -> clamp01 q == q.
Proof. intros q H. destruct (clamp01_cases q) as [[A B]|[[A B]|[A B]]]; lra. Qed.

Lemma clamp01_bounds : forall q, 0 <= clamp01 q <= 1.
Proof. intros q. destruct (clamp01_cases q) as [[A B]|[[A B]|[A B]]]; lra. Qed.

Lemma clamp01_ge : forall q, q <= 1 -> q <= clamp01 q.
Proof. intros q H. destruct (clamp01_cases q) as [[A B]|[[A B]|[A B]]]; lra. Qed.

(* The draw u in [0,1) takes the `hit` branch exactly on an interval starting at 0 whose
   length is clamp01 q (the closed/open end point has measure zero). *)
Lemma hit_interval : forall strict q u, 0 <= u < 1 -> hitb strict q u = true -> u <= clamp01 q.
Proof.
  intros strict q u [U0 U1] H. unfold hitb, Qlt_bool in H.
  assert (u <= q) as L.
  { destruct strict.
    - apply negb_true_iff in H. apply Qle_bool_false in H. lra.
    - apply Qle_bool_iff in H. exact H. }
  destruct (clamp01_cases q) as [[A B]|[[A B]|[A B]]]; lra.
Qed.

Lemma miss_interval : forall strict q u, 0 <= u < 1 -> hitb strict q u = false -> clamp01 q <= u.
Proof.
  intros strict q u [U0 U1] H. unfold hitb, Qlt_bool in H.
  assert (q <= u) as L.
  { destruct strict.
    - apply negb_false_iff in H. apply Qle_bool_iff in H. exact H.
    - apply Qle_bool_false in H. lra. }
  destruct (clamp01_cases q) as [[A B]|[[A B]|[A B]]]; lra.
Qed.

Lemma below_hits : forall strict q u, 0 <= u < 1 -> u < clamp01 q -> hitb strict q u = true.
Proof.
  intros strict q u U H. destruct (hitb strict q u) eqn:E; auto.
  pose proof (miss_interval _ _ _ U E). lra.
Qed.

Lemma above_misses : forall strict q u, 0 <= u < 1 -> clamp01 q < u -> hitb strict q u = false.
Proof.
  intros strict q u U H. destruct (hitb strict q u) eqn:E; auto.
  pose proof (hit_interval _ _ _ U E). lra.
Qed.

(* ------------------------------------------------------------------ mass *)
Lemma mass_app : forall A (d1 d2 : list (A * Q)) f, mass (d1 ++ d2) f == mass d1 f + mass d2 f.
Proof. induction d1 as [|[a w] t IH]; intros; simpl. lra. rewrite IH. lra. Qed.

Lemma mass_ext : forall A (d : list (A * Q)) f g,
  (forall a w, In (a, w) d -> f a = g a) -> mass d f == mass d g.
Proof.
  induction d as [|[a w] t IH]; intros f g H; simpl. lra.
  rewrite (H a w (or_introl eq_refl)). rewrite (IH f g). lra.
  intros; eapply H; right; eauto.
Qed.

Lemma mass_false : forall A (d : list (A * Q)) f,
  (forall a w, In (a, w) d -> f a = false) -> mass d f == 0.
Proof.
  induction d as [|[a w] t IH]; intros f H; simpl. lra.
  rewrite (H a w (or_introl eq_refl)). rewrite IH. lra. intros; eapply H; right; eauto.
Qed.

(* ------------------------------------------------------------------ sdist: linear in w *)
Lemma sdist_linear : forall s st w f, mass (sdist s st w) f == w * mass (sdist s st 1) f.
Proof.
  induction s as [|c k IH]; intros st w f; simpl.
  - destruct (f st); lra.
  - destruct (decide st c) as [v st'|strict q h m].
    + apply IH.
    + rewrite !mass_app.
      rewrite (IH true h (w * clamp01 q)), (IH false m (w * (1 - clamp01 q))).
      rewrite (IH true h (1 * clamp01 q)), (IH false m (1 * (1 - clamp01 q))). ring.
Qed.

Lemma sdist_total : forall s st w, mass (sdist s st w) (fun _ => true) == w.
Proof.
  induction s as [|c k IH]; intros st w; simpl.
  - lra.
  - destruct (decide st c) as [v st'|strict q h m].
    + apply IH.
    + rewrite mass_app, !IH. ring.
Qed.

Lemma sdist_nonneg : forall s st w st' w', 0 <= w -> In (st', w') (sdist s st w) -> 0 <= w'.
Proof.
  induction s as [|c k IH]; intros st w st' w' W H; simpl in H.
  - destruct H as [H|[]]. inversion H; subst; auto.
  - destruct (decide st c) as [v st1|strict q h m].
    + eapply IH; eauto.
    + pose proof (clamp01_bounds q) as [B0 B1].
      apply in_app_or in H. destruct H as [H|H]; eapply IH; try exact H; nra.
Qed.

(* ------------------------------------------------------------------ memo *)
Lemma decide_memo : forall st c id b,
  lookup id (s_facts st) = Some b ->
  match decide st c with
  | DConst _ st' => lookup id (s_facts st') = Some b
  | DDraw _ _ h m => lookup id (s_facts h) = Some b /\ lookup id (s_facts m) = Some b
  end.
Proof.
  intros st c id b H. unfold decide.
  destruct (c_p c) as [p|]; auto.
  destruct (lookup (c_id c) (s_facts st)) eqn:E; auto.
  assert (N.eqb id (c_id c) = false) as NE.
  { destruct (N.eqb id (c_id c)) eqn:X; auto. apply N.eqb_eq in X. subst. congruence. }
  destruct (c_grp c) as [g|].
  - destruct (cur_grp g (s_groups st)) as [r|].
    + destruct (negb (Qle_bool eps r)); simpl; rewrite NE; auto.
    + simpl. rewrite NE. auto.
  - simpl. rewrite NE. auto.
Qed.

Lemma sdist_memo_stable : forall s st w id b st' w',
  lookup id (s_facts st) = Some b -> In (st', w') (sdist s st w) -> lookup id (s_facts st') = Some b.
Proof.
  induction s as [|c k IH]; intros st w id b st' w' L H; simpl in H.
  - destruct H as [H|[]]. inversion H; subst; auto.
  - pose proof (decide_memo st c id b L) as D.
    destruct (decide st c) as [v st1|strict q h m].
    + exact (IH v st1 w id b st' w' D H).
    + destruct D as [D1 D2]. apply in_app_or in H.
      destruct H as [H|H]; [exact (IH true h _ id b st' w' D1 H) | exact (IH false m _ id b st' w' D2 H)].
Qed.

(* a memoised atom is returned without a draw and without touching the state *)
Lemma memo_const : forall st c p v,
  c_p c = Some p -> lookup (c_id c) (s_facts st) = Some v -> decide st c = DConst v st.
Proof. intros st c p v P L. unfold decide. rewrite P, L. reflexivity. Qed.

(* after any probabilistic call the atom is memoised with the value that was returned *)
Lemma step_memoises : forall st c p us v st' us',
  c_p c = Some p -> step st c us = Some (v, st', us') -> lookup (c_id c) (s_facts st') = Some v.
Proof.
  intros st c p us v st' us' P H. unfold step, decide in H. rewrite P in H.
  destruct (lookup (c_id c) (s_facts st)) eqn:E.
  - inversion H; subst; auto.
  - destruct (c_grp c) as [g|].
    + destruct (cur_grp g (s_groups st)) as [r|].
      * destruct (negb (Qle_bool eps r)).
        -- inversion H; subst; simpl. rewrite N.eqb_refl. auto.
        -- destruct us as [|u us0]; try discriminate. cbv zeta in H.
           destruct (hitb false (p / r) u); inversion H; subst; simpl; rewrite N.eqb_refl; auto.
      * inversion H; subst; simpl. rewrite N.eqb_refl. auto.
    + destruct us as [|u us0]; try discriminate. cbv zeta in H.
      destruct (hitb true p u); inversion H; subst; simpl; rewrite N.eqb_refl; auto.
Qed.

(* ------------------------------------------------------------------ group table *)
Lemma lookup_remove_key_same : forall A g (l : list (N * A)), lookup g (remove_key g l) = None.
Proof.
  induction l as [|[k x] t IH]; simpl; auto.
  destruct (N.eqb g k) eqn:E; auto. simpl. rewrite E. auto.
Qed.

Lemma lookup_remove_key_other : forall A g g' (l : list (N * A)),
  g' <> g -> lookup g' (remove_key g l) = lookup g' l.
Proof.
  induction l as [|[k x] t IH]; intros NE; simpl; auto.
  destruct (N.eqb g k) eqn:E.
  - apply N.eqb_eq in E. subst k. destruct (N.eqb g' g) eqn:F; auto.
    apply N.eqb_eq in F. contradiction.
  - simpl. rewrite IH; auto.
Qed.

Lemma cur_grp_upd_same : forall g v l, cur_grp g (upd g v l) = v.
Proof. intros. unfold cur_grp, upd. simpl. rewrite N.eqb_refl. auto. Qed.

Lemma cur_grp_upd_other : forall g g' v l, g' <> g -> cur_grp g' (upd g v l) = cur_grp g' l.
Proof.
  intros. unfold cur_grp, upd. simpl.
  destruct (N.eqb g' g) eqn:F. apply N.eqb_eq in F; contradiction.
  rewrite lookup_remove_key_other; auto.
Qed.

Lemma remove_key_notin : forall A g (l : list (N * A)), ~ In g (keys l) -> remove_key g l = l.
Proof.
  induction l as [|[k x] t IH]; intros H; simpl; auto.
  destruct (N.eqb g k) eqn:E.
  - apply N.eqb_eq in E. subst. exfalso. apply H. left. auto.
  - rewrite IH; auto. intros X. apply H. right. auto.
Qed.

Lemma keys_remove_key : forall A g k (l : list (N * A)),
  In k (keys (remove_key g l)) -> In k (keys l) /\ k <> g.
Proof.
  induction l as [|[k' x] t IH]; simpl; intros H. contradiction.
  destruct (N.eqb g k') eqn:E.
  - destruct (IH H). split; auto.
  - simpl in H. destruct H as [H|H].
    + subst. split; auto. intros X. subst. rewrite N.eqb_refl in E. discriminate.
    + destruct (IH H). split; auto.
Qed.

Lemma nodup_remove_key : forall A g (l : list (N * A)), NoDup (keys l) -> NoDup (keys (remove_key g l)).
Proof.
  induction l as [|[k x] t IH]; simpl; intros H. constructor.
  inversion H; subst. destruct (N.eqb g k); auto.
  simpl. constructor; auto. intros X. apply keys_remove_key in X. tauto.
Qed.

Lemma nodup_upd : forall A g (v : A) l, NoDup (keys l) -> NoDup (keys (upd g v l)).
Proof.
  intros. unfold upd. simpl. constructor.
  - intros X. apply keys_remove_key in X. tauto.
  - apply nodup_remove_key; auto.
Qed.

Lemma gprod_split : forall g l, NoDup (keys l) -> gprod l == gval (cur_grp g l) * gprod (remove_key g l).
Proof.
  induction l as [|[k x] t IH]; intros H.
  - unfold cur_grp. simpl. lra.
  - inversion H; subst. unfold cur_grp. simpl.
    destruct (N.eqb g k) eqn:E.
    + apply N.eqb_eq in E. subst. rewrite remove_key_notin; auto. reflexivity.
    + simpl. rewrite (IH H3). unfold cur_grp. ring.
Qed.

(* ------------------------------------------------------------------ printed probability *)
Lemma div_unit : forall p r, 0 < r -> 0 <= p <= r -> 0 <= p / r <= 1.
Proof.
  intros p r R [P0 P1]. split.
  - apply Qle_shift_div_l; auto. lra.
  - apply Qle_shift_div_r; auto. lra.
Qed.

Lemma eps_pos : 0 < eps.
Proof. reflexivity. Qed.

Lemma decide_printed : forall st c, gnodup st -> call_ok st c ->
  match decide st c with
  | DConst _ st' => gnodup st' /\ printed st' == printed st
  | DDraw _ q h m => gnodup h /\ gnodup m /\
                     printed h == printed st * clamp01 q /\ printed m == printed st * (1 - clamp01 q)
  end.
Proof.
  intros st c ND OK. unfold decide, call_ok in *.
  destruct (c_p c) as [p|]; [|split; [auto|reflexivity]].
  destruct (lookup (c_id c) (s_facts st)); [split; [auto|reflexivity]|].
  destruct (c_grp c) as [g|].
  - destruct (cur_grp g (s_groups st)) as [r|] eqn:CG.
    + destruct (Qle_bool eps r) eqn:LE; simpl negb; cbv iota.
      * apply Qle_bool_iff in LE. pose proof eps_pos as EP.
        assert (0 < r) as R by lra.
        pose proof (div_unit p r R OK) as DU.
        pose proof (clamp01_id _ DU) as CL.
        unfold gnodup in *. cbn [s_groups s_facts s_prob].
        split; [apply nodup_upd; auto|]. split; [apply nodup_upd; auto|].
        unfold printed. cbn [s_groups s_facts s_prob]. rewrite CL.
        rewrite (gprod_split g (s_groups st) ND). rewrite CG. unfold upd. cbn [gprod gval].
        split; field; lra.
      * unfold gnodup in *. cbn [s_groups s_facts s_prob]. split; [apply nodup_upd; auto|].
        unfold printed. cbn [s_groups s_facts s_prob]. rewrite (gprod_split g (s_groups st) ND). rewrite CG. unfold upd. cbn [gprod gval].
        rewrite OK. ring.
    + split; [auto|reflexivity].
  - pose proof (clamp01_id _ OK) as CL. unfold gnodup in *. cbn [s_groups s_facts s_prob].
    split; auto. split; auto. unfold printed. cbn [s_groups s_facts s_prob]. rewrite CL. split; ring.
Qed.

Lemma printed_weight : forall s st w, gnodup st -> ok s st -> w == printed st ->
  forall st' w', In (st', w') (sdist s st w) -> w' == printed st'.
Proof.
  induction s as [|c k IH]; intros st w ND OK W st' w' H; simpl in H.
  - destruct H as [H|[]]. inversion H; subst; auto.
  - simpl in OK. destruct OK as [CO OK].
    pose proof (decide_printed st c ND CO) as D.
    destruct (decide st c) as [v st1|strict q h m].
    + destruct D as [D1 D2]. apply (IH v st1 w D1 OK); auto. rewrite D2. auto.
    + destruct D as [D1 [D2 [D3 D4]]]. destruct OK as [OK1 OK2].
      apply in_app_or in H. destruct H as [H|H].
      * apply (IH true h (w * clamp01 q) D1 OK1); auto. rewrite D3, W. reflexivity.
      * apply (IH false m (w * (1 - clamp01 q)) D2 OK2); auto. rewrite D4, W. reflexivity.
Qed.

(* the scripted (deterministic) run ends in a leaf of the distribution, with the volume of
   its box of scripts as weight; its state is the one `srun` computes *)
Lemma spath_leaf : forall s st us w st' w' us',
  spath s st us w = Some (st', w', us') -> In (st', w') (sdist s st w) /\ srun s st us = Some (st', us').
Proof.
  induction s as [|c k IH]; intros st us w st' w' us' H; simpl in *.
  - inversion H; subst. split; auto.
  - unfold step. destruct (decide st c) as [v st1|strict q h m].
    + apply IH; auto.
    + destruct us as [|u us0]; try discriminate. cbv zeta.
      destruct (hitb strict q u).
      * destruct (IH _ _ _ _ _ _ _ H). split; auto. apply in_or_app; auto.
      * destruct (IH _ _ _ _ _ _ _ H). split; auto. apply in_or_app; auto.
Qed.

Lemma srun_spath : forall s st us w st' us',
  srun s st us = Some (st', us') -> exists w', spath s st us w = Some (st', w', us').
Proof.
  induction s as [|c k IH]; intros st us w st' us' H; simpl in *.
  - inversion H; subst. eauto.
  - unfold step in H. destruct (decide st c) as [v st1|strict q h m].
    + apply IH; auto.
    + destruct us as [|u us0]; try discriminate. cbv zeta in H.
      destruct (hitb strict q u); apply IH; auto.
Qed.

(* ------------------------------------------------------------------ one AD group *)
Lemma event_const : forall s st w f b,
  (forall st' w', In (st', w') (sdist s st w) -> f st' = b) ->
  mass (sdist s st w) f == if b then w else 0.
Proof.
  intros s st w f b H. destruct b.
  - rewrite (mass_ext _ _ f (fun _ => true)); auto. apply sdist_total.
  - apply mass_false; auto.
Qed.

Lemma Qsum_nonneg : forall l, (forall x, In x l -> 0 <= x) -> 0 <= Qsum l.
Proof.
  induction l as [|a t IH]; intros H; simpl. lra.
  assert (0 <= a) by (apply H; left; auto).
  assert (0 <= Qsum t) by (apply IH; intros; apply H; right; auto). lra.
Qed.

Lemma Qsum_in_le : forall (hs : list (N * Q)) h,
  (forall h, In h hs -> 0 <= snd h) -> In h hs -> snd h <= Qsum (map snd hs).
Proof.
  induction hs as [|a t IH]; intros h NN H. contradiction.
  simpl. assert (0 <= Qsum (map snd t)) as S.
  { apply Qsum_nonneg. intros x X. apply in_map_iff in X. destruct X as [y [Y1 Y2]]. subst.
    apply NN. right. auto. }
  assert (0 <= snd a) by (apply NN; left; auto).
  destruct H as [H|H].
  - subst. lra.
  - assert (snd h <= Qsum (map snd t)). { apply IH; auto. intros; apply NN; right; auto. } lra.
Qed.

Lemma adrun_cons : forall g i p tl st w,
  adrun g ((i, p) :: tl) st w =
  match decide st (mkCall i (Some g) (Some p)) with
  | DConst v st' => adrun g tl st' w
  | DDraw _ q h m => adrun g tl h (w * clamp01 q) ++ adrun g tl m (w * (1 - clamp01 q))
  end.
Proof. reflexivity. Qed.

Definition st_false i g r p st :=
  mkSt ((i, false) :: s_facts st) (upd g (GOpen (r - p)) (s_groups st)) (s_prob st).
Definition st_true i g p st :=
  mkSt ((i, true) :: s_facts st) (upd g GClosed (s_groups st)) (s_prob st * p).

Lemma decide_ad_open : forall st i g p r,
  lookup i (s_facts st) = None -> cur_grp g (s_groups st) = GOpen r ->
  decide st (mkCall i (Some g) (Some p)) =
  if negb (Qle_bool eps r) then DConst false (st_false i g r p st)
  else DDraw false (p / r) (st_true i g p st) (st_false i g r p st).
Proof. intros st i g p r E CG. unfold decide. cbn [c_p c_id c_grp]. rewrite E, CG. reflexivity. Qed.

Lemma decide_ad_closed : forall st i g p,
  lookup i (s_facts st) = None -> cur_grp g (s_groups st) = GClosed ->
  decide st (mkCall i (Some g) (Some p)) =
  DConst false (mkSt ((i, false) :: s_facts st) (s_groups st) (s_prob st)).
Proof. intros st i g p E CG. unfold decide. cbn [c_p c_id c_grp]. rewrite E, CG. reflexivity. Qed.

Lemma decide_ad_memo : forall st i g p v,
  lookup i (s_facts st) = Some v -> decide st (mkCall i (Some g) (Some p)) = DConst v st.
Proof. intros st i g p v E. unfold decide. cbn [c_p c_id c_grp]. rewrite E. reflexivity. Qed.

(* once a head was chosen, the remaining heads of the group are all false, without a draw *)
Lemma closed_leaves : forall g hs st w st' w' id,
  cur_grp g (s_groups st) = GClosed -> In (st', w') (adrun g hs st w) -> chosenb id st' = chosenb id st.
Proof.
  induction hs as [|[i p] tl IH]; intros st w st' w' id CG H.
  - destruct H as [H|[]]. inversion H; subst; auto.
  - rewrite adrun_cons in H. destruct (lookup i (s_facts st)) eqn:E.
    + rewrite (decide_ad_memo _ _ _ _ _ E) in H. eapply IH; eauto.
    + rewrite (decide_ad_closed _ _ _ _ E CG) in H.
      apply IH with (id := id) in H; auto. rewrite H. unfold chosenb. cbn [s_facts lookup].
      destruct (N.eqb id i) eqn:X; auto. apply N.eqb_eq in X. subst. rewrite E. auto.
Qed.

(* atoms that are not asked keep their memo entry *)
Lemma other_leaves : forall s st w st' w' id,
  (forall c, asked c s -> c_id c <> id) ->
  In (st', w') (sdist s st w) -> lookup id (s_facts st') = lookup id (s_facts st).
Proof.
  induction s as [|c k IH]; intros st w st' w' id NA H.
  - destruct H as [H|[]]. inversion H; subst; auto.
  - assert (c_id c <> id) as NE by (apply NA; simpl; left; auto).
    assert (forall b st1, (st1 = st \/ exists v, s_facts st1 = (c_id c, v) :: s_facts st) ->
             forall w1, In (st', w') (sdist (k b) st1 w1) -> lookup id (s_facts st') = lookup id (s_facts st)) as STEP.
    { intros b st1 S w1 H1. rewrite (IH b st1 w1 st' w' id); auto.
      - destruct S as [S|[v S]]. subst; auto. rewrite S. simpl.
        destruct (N.eqb id (c_id c)) eqn:X; auto. apply N.eqb_eq in X. congruence.
      - intros c0 A. apply NA. simpl. right. destruct b; auto. }
    simpl in H. unfold decide in H.
    destruct (c_p c) as [p|]; [|eapply STEP; eauto].
    destruct (lookup (c_id c) (s_facts st)); [eapply STEP; eauto|].
    destruct (c_grp c) as [g|].
    + destruct (cur_grp g (s_groups st)) as [r|].
      * destruct (negb (Qle_bool eps r)).
        -- eapply STEP; [|exact H]. right. eexists. reflexivity.
        -- apply in_app_or in H. destruct H as [H|H]; (eapply STEP; [|exact H]); right; eexists; reflexivity.
      * eapply STEP; [|exact H]. right. eexists. reflexivity.
    + apply in_app_or in H. destruct H as [H|H]; (eapply STEP; [|exact H]); right; eexists; reflexivity.
Qed.

Lemma asked_of_list : forall c cs, asked c (of_list cs) -> In c cs.
Proof. induction cs as [|a t IH]; simpl; intros H. contradiction. destruct H as [H|[H|H]]; auto. Qed.

Lemma adrun_other : forall g hs st w st' w' id,
  ~ In id (map fst hs) -> In (st', w') (adrun g hs st w) -> lookup id (s_facts st') = lookup id (s_facts st).
Proof.
  intros g hs st w st' w' id NI H. unfold adrun in H. eapply other_leaves; [|exact H].
  intros c A. apply asked_of_list in A. unfold ad_calls in A. apply in_map_iff in A.
  destruct A as [h [A1 A2]]. subst c. cbn [c_id]. intros X. apply NI. apply in_map_iff. exists h. auto.
Qed.

Lemma step_combine : forall M w r p c Y,
  0 < r -> 0 <= p <= r -> c == p / r -> 0 <= Y <= r - p ->
  M * (r - p) == w * (1 - c) * Y -> (r - p == 0 -> M == 0) -> M * r == w * Y.
Proof.
  intros M w r p c Y R P C HY IH Z.
  destruct (Qeq_dec (r - p) 0) as [E|E].
  - rewrite (Z E). assert (Y == 0) as Y0 by lra. rewrite Y0. ring.
  - assert (M == w * Y / r) as HM.
    { apply (Qmult_inj_r _ _ (r - p)); auto. rewrite IH, C. field. lra. }
    rewrite HM. field. lra.
Qed.

Lemma open_run : forall g hs r st w,
  cur_grp g (s_groups st) = GOpen r ->
  NoDup (map fst hs) -> (forall h, In h hs -> lookup (fst h) (s_facts st) = None) ->
  (forall h, In h hs -> 0 <= snd h) -> (forall h, In h hs -> snd h == 0 \/ eps <= snd h) ->
  Qsum (map snd hs) <= r ->
  (forall h, In h hs -> mass (adrun g hs st w) (chosenb (fst h)) * r == w * snd h)
  /\ mass (adrun g hs st w) (noneb hs) * r == w * (r - Qsum (map snd hs)).
Proof.
  induction hs as [|[i p] tl IH]; intros r st w CG ND FR NN GU SUM.
  - split. intros h []. simpl. ring.
  - inversion ND as [|x l NI ND']; subst. cbn [map fst snd Qsum] in *.
    assert (lookup i (s_facts st) = None) as E by (apply (FR (i, p)); left; auto).
    assert (0 <= p) as P0 by (apply (NN (i, p)); left; auto).
    assert (forall h, In h tl -> 0 <= snd h) as NN' by (intros; apply NN; right; auto).
    assert (forall h, In h tl -> snd h == 0 \/ eps <= snd h) as GU' by (intros; apply GU; right; auto).
    assert (0 <= Qsum (map snd tl)) as S0.
    { apply Qsum_nonneg. intros x X. apply in_map_iff in X. destruct X as [y [Y1 Y2]]. subst. auto. }
    set (sf := st_false i g r p st).
    assert (cur_grp g (s_groups sf) = GOpen (r - p)) as CGf by (apply cur_grp_upd_same).
    assert (forall h, In h tl -> lookup (fst h) (s_facts sf) = None) as FRf.
    { intros h H. unfold sf, st_false. cbn [s_facts lookup].
      destruct (N.eqb (fst h) i) eqn:X.
      - apply N.eqb_eq in X. exfalso. apply NI. rewrite <- X. apply in_map. auto.
      - apply FR. right. auto. }
    assert (Qsum (map snd tl) <= r - p) as SUMf by lra.
    (* the tail run from the `false` state: head i stays false *)
    assert (forall w1 st' w', In (st', w') (adrun g tl sf w1) -> chosenb i st' = false) as IF.
    { intros w1 st' w' H. unfold chosenb. rewrite (adrun_other _ _ _ _ _ _ _ NI H).
      unfold sf, st_false. cbn [s_facts lookup]. rewrite N.eqb_refl. auto. }
    rewrite adrun_cons, (decide_ad_open _ _ _ _ _ E CG).
    destruct (Qle_bool eps r) eqn:LE; cbn [negb].
    + (* a draw *)
      apply Qle_bool_iff in LE. pose proof eps_pos as EP. assert (0 < r) as R by lra.
      assert (0 <= p <= r) as PR by lra.
      pose proof (clamp01_id _ (div_unit p r R PR)) as CL.
      set (c := clamp01 (p / r)) in *.
      set (sh := st_true i g p st).
      assert (cur_grp g (s_groups sh) = GClosed) as CGh by (apply cur_grp_upd_same).
      destruct (IH (r - p) sf (w * (1 - c)) CGf ND' FRf NN' GU' SUMf) as [IH1 IH2].
      assert (forall f, r - p == 0 -> mass (adrun g tl sf (w * (1 - c))) f == 0) as ZERO.
      { intros f Z. unfold adrun. rewrite sdist_linear.
        assert (c == 1) as C1. { rewrite CL. field_simplify_eq; lra. }
        rewrite C1. ring. }
      split.
      * intros h [H|H].
        -- subst h. cbn [fst snd]. rewrite mass_app.
           unfold adrun at 1. rewrite (event_const _ _ _ _ true).
           2:{ intros st' w' H. fold (adrun g tl sh (w * c)) in H.
               rewrite (closed_leaves _ _ _ _ _ _ i CGh H).
               unfold chosenb, sh, st_true. cbn [s_facts lookup]. rewrite N.eqb_refl. auto. }
           unfold adrun. rewrite (event_const _ _ _ _ false).
           2:{ intros st' w' H. eapply IF. exact H. }
           rewrite CL. field. lra.
        -- rewrite mass_app.
           unfold adrun at 1. rewrite (event_const _ _ _ _ false).
           2:{ intros st' w' H'. fold (adrun g tl sh (w * c)) in H'.
               rewrite (closed_leaves _ _ _ _ _ _ (fst h) CGh H').
               unfold chosenb, sh, st_true. cbn [s_facts lookup].
               destruct (N.eqb (fst h) i) eqn:X.
               - apply N.eqb_eq in X. exfalso. apply NI. rewrite <- X. apply in_map. auto.
               - rewrite (FR h); auto. right; auto. }
           rewrite Qplus_0_l.
           apply (step_combine _ w r p c (snd h) R PR CL);
             [ split; auto; pose proof (Qsum_in_le tl h NN' H); lra
             | exact (IH1 h H) | intros Z; apply ZERO; auto ].
      * rewrite mass_app.
        unfold adrun at 1. rewrite (event_const _ _ _ _ false).
        2:{ intros st' w' H'. fold (adrun g tl sh (w * c)) in H'.
            unfold noneb. cbn [forallb fst].
            rewrite (closed_leaves _ _ _ _ _ _ i CGh H').
            unfold chosenb, sh, st_true. cbn [s_facts lookup]. rewrite N.eqb_refl. auto. }
        rewrite Qplus_0_l.
        rewrite (mass_ext _ _ (noneb ((i, p) :: tl)) (noneb tl)).
        2:{ intros st' w' H'. unfold noneb. cbn [forallb fst]. rewrite (IF _ _ _ H'). auto. }
        setoid_replace (w * (r - (p + Qsum (map snd tl)))) with (w * ((r - p) - Qsum (map snd tl))) by ring.
        apply (step_combine _ w r p c _ R PR CL);
          [ lra | exact IH2 | intros Z; apply ZERO; auto ].
    + (* remaining mass below the cut-off: no draw, the head is false *)
      apply Qle_bool_false in LE.
      assert (p == 0) as PZ.
      { destruct (GU (i, p) (or_introl eq_refl)) as [Z|Z]; auto. cbn [snd] in Z. lra. }
      destruct (IH (r - p) sf w CGf ND' FRf NN' GU' SUMf) as [IH1 IH2].
      fold sf. split.
      * intros h [H|H].
        -- subst h. cbn [fst snd]. unfold adrun. rewrite (event_const _ _ _ _ false).
           2:{ intros st' w' H. eapply IF. exact H. }
           rewrite PZ. ring.
        -- pose proof (IH1 h H) as X. rewrite PZ in X. rewrite <- X. ring.
      * rewrite (mass_ext _ _ (noneb ((i, p) :: tl)) (noneb tl)).
        2:{ intros st' w' H'. unfold noneb. cbn [forallb fst]. rewrite (IF _ _ _ H'). auto. }
        rewrite PZ in IH2. rewrite PZ.
        setoid_replace (w * (r - (0 + Qsum (map snd tl)))) with (w * (r - 0 - Qsum (map snd tl))) by ring.
        rewrite <- IH2. ring.
Qed.

Lemma Qsum_perm : forall l l', Permutation l l' -> Qsum l == Qsum l'.
Proof. induction 1; simpl; lra. Qed.

Lemma forallb_perm : forall A (f : A -> bool) l l', Permutation l l' -> forallb f l = forallb f l'.
Proof.
  induction 1; simpl; auto.
  - rewrite IHPermutation. auto.
  - destruct (f x), (f y); auto.
  - congruence.
Qed.

Lemma filter_length_perm : forall A (f : A -> bool) l l',
  Permutation l l' -> length (filter f l) = length (filter f l').
Proof.
  induction 1; simpl; auto.
  - destruct (f x); simpl; auto.
  - destruct (f x), (f y); simpl; auto.
  - congruence.
Qed.

Lemma nchosen_cons : forall i p tl st,
  nchosen ((i, p) :: tl) st = ((if chosenb i st then 1 else 0) + nchosen tl st)%nat.
Proof. intros. unfold nchosen. simpl. destruct (chosenb i st); auto. Qed.

Lemma nchosen_zero : forall hs st, (forall h, In h hs -> chosenb (fst h) st = false) -> nchosen hs st = O.
Proof.
  induction hs as [|[i p] tl IH]; intros st H; auto.
  assert (chosenb i st = false) as X by (apply (H (i, p)); left; auto).
  rewrite nchosen_cons, X, IH; auto. intros; apply H; right; auto.
Qed.

Lemma open_atmost : forall g hs r st w,
  cur_grp g (s_groups st) = GOpen r ->
  NoDup (map fst hs) -> (forall h, In h hs -> lookup (fst h) (s_facts st) = None) ->
  forall st' w', In (st', w') (adrun g hs st w) -> (nchosen hs st' <= 1)%nat.
Proof.
  induction hs as [|[i p] tl IH]; intros r st w CG ND FR st' w' H.
  - unfold nchosen. simpl. lia.
  - inversion ND as [|x l NI ND']; subst. cbn [map fst] in *.
    assert (lookup i (s_facts st) = None) as E by (apply (FR (i, p)); left; auto).
    set (sf := st_false i g r p st).
    assert (cur_grp g (s_groups sf) = GOpen (r - p)) as CGf by (apply cur_grp_upd_same).
    assert (forall h, In h tl -> lookup (fst h) (s_facts sf) = None) as FRf.
    { intros h H0. unfold sf, st_false. cbn [s_facts lookup].
      destruct (N.eqb (fst h) i) eqn:X.
      - apply N.eqb_eq in X. exfalso. apply NI. rewrite <- X. apply in_map. auto.
      - apply FR. right. auto. }
    assert (forall w1, In (st', w') (adrun g tl sf w1) -> (nchosen ((i, p) :: tl) st' <= 1)%nat) as MISS.
    { intros w1 H1. rewrite nchosen_cons.
      assert (chosenb i st' = false) as X.
      { unfold chosenb. rewrite (adrun_other _ _ _ _ _ _ _ NI H1).
        unfold sf, st_false. cbn [s_facts lookup]. rewrite N.eqb_refl. auto. }
      rewrite X. simpl. eapply (IH (r - p) sf w1); eauto. }
    rewrite adrun_cons, (decide_ad_open _ _ _ _ _ E CG) in H.
    destruct (negb (Qle_bool eps r)).
    + eapply MISS; eauto.
    + apply in_app_or in H. destruct H as [H|H]; [|eapply MISS; eauto].
      set (sh := st_true i g p st) in *.
      assert (cur_grp g (s_groups sh) = GClosed) as CGh by (apply cur_grp_upd_same).
      rewrite nchosen_cons. rewrite (nchosen_zero tl st').
      * destruct (chosenb i st'); lia.
      * intros h H0. rewrite (closed_leaves _ _ _ _ _ _ (fst h) CGh H).
        unfold chosenb, sh, st_true. cbn [s_facts lookup].
        destruct (N.eqb (fst h) i) eqn:X.
        -- apply N.eqb_eq in X. exfalso. apply NI. rewrite <- X. apply in_map. auto.
        -- rewrite (FR h); auto. right; auto.
Qed.

Theorem ad_categorical : forall g heads order,
  NoDup (map fst heads) -> (forall h, In h heads -> 0 <= snd h) ->
  (forall h, In h heads -> snd h == 0 \/ eps <= snd h) ->
  Qsum (map snd heads) <= 1 -> Permutation order heads ->
  (forall h, In h heads -> mass (adrun g order init 1) (chosenb (fst h)) == snd h)
  /\ mass (adrun g order init 1) (noneb heads) == 1 - Qsum (map snd heads)
  /\ (forall st' w', In (st', w') (adrun g order init 1) -> (nchosen heads st' <= 1)%nat).
Proof.
  intros g heads order ND NN GU SUM PERM.
  assert (NoDup (map fst order)) as ND'.
  { eapply Permutation_NoDup; [|exact ND]. apply Permutation_map. apply Permutation_sym. auto. }
  assert (forall h, In h order -> In h heads) as IN by (intros; eapply Permutation_in; eauto).
  assert (Qsum (map snd order) == Qsum (map snd heads)) as SE.
  { apply Qsum_perm. apply Permutation_map. auto. }
  assert (cur_grp g (s_groups init) = GOpen 1) as CG by reflexivity.
  destruct (open_run g order 1 init 1 CG ND') as [A B]; auto.
  - rewrite SE. auto.
  - split; [|split].
    + intros h H. assert (In h order) as H' by (eapply Permutation_in; [apply Permutation_sym; eauto|auto]).
      pose proof (A h H') as X. lra.
    + rewrite (mass_ext _ _ (noneb heads) (noneb order)).
      2:{ intros. unfold noneb. apply forallb_perm. apply Permutation_sym. auto. }
      lra.
    + intros st' w' H. unfold nchosen. rewrite (filter_length_perm _ _ heads order).
      2:{ apply Permutation_sym. auto. }
      eapply (open_atmost g order 1 init 1); eauto.
Qed.

(* ------------------------------------------------------------------ independent facts *)
Lemma factrun_cons : forall i p tl st w,
  lookup i (s_facts st) = None ->
  factrun ((i, p) :: tl) st w =
  factrun tl (mkSt ((i, true) :: s_facts st) (s_groups st) (s_prob st * p)) (w * clamp01 p) ++
  factrun tl (mkSt ((i, false) :: s_facts st) (s_groups st) (s_prob st * (1 - p))) (w * (1 - clamp01 p)).
Proof.
  intros. unfold factrun. cbn [fact_calls map of_list sdist fst snd].
  unfold decide. cbn [c_p c_id c_grp]. rewrite H. reflexivity.
Qed.

Lemma facts_independent : forall fs a st w,
  NoDup (map fst fs) -> (forall h, In h fs -> lookup (fst h) (s_facts st) = None) ->
  (forall h, In h fs -> 0 <= snd h <= 1) ->
  mass (factrun fs st w) (assignb fs a) == w * aweight fs a.
Proof.
  induction fs as [|[i p] tl IH]; intros a st w ND FR PR.
  - destruct a; simpl; ring.
  - inversion ND as [|x l NI ND']; subst. cbn [map fst] in *.
    assert (lookup i (s_facts st) = None) as E by (apply (FR (i, p)); left; auto).
    destruct a as [|v a'].
    + rewrite mass_false. simpl; ring. intros; reflexivity.
    + rewrite (factrun_cons _ _ _ _ _ E).
      assert (0 <= p <= 1) as P by (apply (PR (i, p)); left; auto).
      pose proof (clamp01_id _ P) as CL. rewrite mass_app.
      assert (forall b q w1 st' w', In (st', w') (factrun tl (mkSt ((i, b) :: s_facts st) (s_groups st) q) w1) ->
                assignb ((i, p) :: tl) (v :: a') st' = Bool.eqb b v && assignb tl a' st') as EV.
      { intros b q w1 st' w' H. cbn [assignb]. unfold valb.
        assert (lookup i (s_facts (mkSt ((i, b) :: s_facts st) (s_groups st) q)) = Some b) as L
          by (cbn [s_facts lookup]; rewrite N.eqb_refl; reflexivity).
        unfold factrun in H. rewrite (sdist_memo_stable _ _ _ i b _ _ L H). reflexivity. }
      assert (forall b q, forall h, In h tl -> lookup (fst h) (s_facts (mkSt ((i, b) :: s_facts st) (s_groups st) q)) = None) as FR'.
      { intros b q h H. cbn [s_facts lookup]. destruct (N.eqb (fst h) i) eqn:X.
        - apply N.eqb_eq in X. exfalso. apply NI. rewrite <- X. apply in_map. auto.
        - apply FR. right. auto. }
      assert (forall h, In h tl -> 0 <= snd h <= 1) as PR' by (intros; apply PR; right; auto).
      destruct v; cbn [aweight].
      * rewrite (mass_ext _ _ _ (assignb tl a')).
        2:{ intros st' w' H. rewrite (EV _ _ _ _ _ H). reflexivity. }
        rewrite IH; auto.
        rewrite mass_false. rewrite CL. ring.
        intros st' w' H. rewrite (EV _ _ _ _ _ H). reflexivity.
      * rewrite (mass_false _ (factrun tl _ (w * clamp01 p))).
        2:{ intros st' w' H. rewrite (EV _ _ _ _ _ H). reflexivity. }
        rewrite (mass_ext _ _ _ (assignb tl a')).
        2:{ intros st' w' H. rewrite (EV _ _ _ _ _ H). reflexivity. }
        rewrite IH; auto. rewrite CL. ring.
Qed.

(* ------------------------------------------------------------------ rejection *)
Lemma first_acc_geo : forall A (d : list (A * Q)) e q n,
  first_acc d e q n == mass d (fun a => e a && q a) * geo (mass d (fun a => negb (e a))) n.
Proof. induction n; simpl. ring. rewrite IHn. ring. Qed.

Lemma rejection_conditional : forall A (d : list (A * Q)) e q n,
  first_acc d e q n * mass d e == mass d (fun a => e a && q a) * first_acc d e (fun _ => true) n.
Proof.
  intros. rewrite !first_acc_geo.
  rewrite (mass_ext _ d (fun a => e a && true) e). ring.
  intros. apply andb_true_r.
Qed.

Lemma mass_nonneg : forall A (d : list (A * Q)) f, (forall a w, In (a, w) d -> 0 <= w) -> 0 <= mass d f.
Proof.
  induction d as [|[a w] t IH]; intros f H; simpl. lra.
  assert (0 <= w) by (eapply H; left; eauto).
  assert (0 <= mass t f) by (apply IH; intros; eapply H; right; eauto).
  destruct (f a); lra.
Qed.

Lemma geo_ge1 : forall x n, 0 <= x -> 1 <= geo x (S n).
Proof.
  intros x n X. induction n. simpl. lra.
  change (geo x (S (S n))) with (1 + x * geo x (S n)). nra.
Qed.

Lemma accept_positive : forall A (d : list (A * Q)) e n,
  (forall a w, In (a, w) d -> 0 <= w) -> 0 < mass d e -> 0 < first_acc d e (fun _ => true) (S n).
Proof.
  intros A d e n NN P. rewrite first_acc_geo.
  rewrite (mass_ext _ d (fun a => e a && true) e) by (intros; apply andb_true_r).
  pose proof (geo_ge1 (mass d (fun a => negb (e a))) n (mass_nonneg _ d _ NN)). nra.
Qed.

Lemma rejection_conditional_div : forall A (d : list (A * Q)) e q n,
  (forall a w, In (a, w) d -> 0 <= w) -> 0 < mass d e ->
  first_acc d e q (S n) / first_acc d e (fun _ => true) (S n) == mass d (fun a => e a && q a) / mass d e.
Proof.
  intros A d e q n NN P.
  pose proof (accept_positive A d e n NN P) as AP.
  pose proof (rejection_conditional A d e q (S n)) as R.
  apply (Qmult_inj_r _ _ (first_acc d e (fun _ => true) (S n) * mass d e)).
  - intros Z. nra.
  - field_simplify_eq; [|split; lra]. rewrite R. ring.
Qed.

(* ------------------------------------------------------------------ statements used by Props.v *)
Lemma draw_splits_unit_interval : forall strict q u, 0 <= u < 1 ->
  (hitb strict q u = true -> u <= clamp01 q) /\ (hitb strict q u = false -> clamp01 q <= u) /\
  (u < clamp01 q -> hitb strict q u = true) /\ (clamp01 q < u -> hitb strict q u = false).
Proof.
  intros strict q u U. repeat split.
  - apply hit_interval; auto. - apply miss_interval; auto.
  - apply below_hits; auto. - apply above_misses; auto.
Qed.

Lemma total_mass_init : forall s, mass (sdist s init 1) (fun _ => true) == 1.
Proof. intros. apply sdist_total. Qed.

Lemma facts_independent_init : forall fs a,
  NoDup (map fst fs) -> (forall h, In h fs -> 0 <= snd h <= 1) ->
  mass (factrun fs init 1) (assignb fs a) == aweight fs a.
Proof. intros fs a ND PR. rewrite (facts_independent fs a init 1 ND); auto. ring. Qed.

Lemma fact_drawn_once : forall st c p us v st' us',
  c_p c = Some p -> step st c us = Some (v, st', us') ->
  lookup (c_id c) (s_facts st') = Some v /\ forall us2, step st' c us2 = Some (v, st', us2).
Proof.
  intros st c p us v st' us' P H. pose proof (step_memoises _ _ _ _ _ _ _ P H) as L.
  split; auto. intros us2. unfold step. rewrite (memo_const st' c p v P L). reflexivity.
Qed.

Lemma printed_weight_init : forall s st' w',
  ok s init -> In (st', w') (sdist s init 1) -> w' == printed st'.
Proof.
  intros s st' w' OK H. apply (printed_weight s init 1); auto.
  - constructor.
  - reflexivity.
Qed.

(* the cut-off `r < 1e-8` makes a head with 0 < p < 1e-8 unreachable once the mass before it is used up *)
Lemma cutoff_head_unreachable :
  exists g heads h, In h heads /\ Qsum (map snd heads) <= 1 /\ (forall x, In x heads -> 0 <= snd x) /\
    ~ mass (adrun g heads init 1) (chosenb (fst h)) == snd h.
Proof.
  exists 1%N, [(1%N, 999999995 # 1000000000); (2%N, 5 # 1000000000)], (2%N, 5 # 1000000000).
  split; [right; left; reflexivity|]. split; [vm_compute; discriminate|].
  split.
  - intros x [X|[X|[]]]; subst; vm_compute; discriminate.
  - vm_compute. discriminate.
Qed.
