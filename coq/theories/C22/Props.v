(* C22 — Sampling draws from the program's distribution (problog/tasks/sample.py).
   Only statements, closed by `exact`.  Model: ModelSampler.v (one `decide` function,
   interpreted with a script of draws = what the harness compares with the real sampler,
   and as a finite distribution = each draw u in [0,1) splits the unit interval).

   "As the number of samples grows the frequencies converge": proved as a WEAK law of large
   numbers for the model (last part of this file, ModelLLN.v / ProofsLLN.v): n independent
   samples = n-fold product of the one-sample distribution, Chebyshev bound 1/(4 n eps^2) on
   the probability that the estimate deviates by >= eps, explicit N for every delta.
   NOT formalised: almost-sure convergence (strong law; needs a measure on infinite sample
   sequences) and the exponential (Hoeffding) bound that the harness's frequency test uses.
   That the real sampler's attempts are independent (fresh SampledFormula, fresh draws of the
   PRNG) is the modelling assumption of the product. *)
From Coq Require Import QArith Qminmax NArith List Bool Permutation.
From PL.C22 Require Import ModelSampler ProofsSampler ProofsWellFormed ModelLLN ProofsLLN.
Import ListNotations.
Open Scope Q_scope.

(* Bridge between the script semantics and the distribution semantics: for a draw u in [0,1)
   the `hit` branch (u < q for facts, u <= q for AD heads) is taken exactly on an interval
   that starts at 0 and has length clamp01 q, the `miss` branch on the rest.
   (Lebesgue measure of an interval = its length is the one measure-theoretic fact used.) *)
Theorem C22_draw_splits_unit_interval : forall strict q u, 0 <= u < 1 ->
  (hitb strict q u = true -> u <= clamp01 q) /\ (hitb strict q u = false -> clamp01 q <= u) /\
  (u < clamp01 q -> hitb strict q u = true) /\ (clamp01 q < u -> hitb strict q u = false).
Proof. exact draw_splits_unit_interval. Qed.
Print Assumptions C22_draw_splits_unit_interval.

(* a scripted run (what the harness executes against the real sampler) ends in a leaf of the
   distribution; the leaf's weight is the volume of the box of scripts taking the same path *)
Theorem C22_script_run_is_leaf : forall s st us w st' w' us',
  spath s st us w = Some (st', w', us') -> In (st', w') (sdist s st w) /\ srun s st us = Some (st', us').
Proof. exact spath_leaf. Qed.
Print Assumptions C22_script_run_is_leaf.

(* the leaves of every (adaptive) encounter strategy carry total mass 1 *)
Theorem C22_total_mass : forall s, mass (sdist s init 1) (fun _ => true) == 1.
Proof. exact total_mass_init. Qed.
Print Assumptions C22_total_mass.

(* Sequential AD sampling is categorical, for EVERY encounter order of the heads:
   P(head chosen) = its probability, P(no head) = 1 - sum, never two heads.
   Guard: the code's cut-off `r < 1e-8` (a head with 0 < p < 1e-8 can be unreachable, see
   Findings.v); excluded explicitly. *)
Theorem C22_ad_categorical : forall g heads order,
  NoDup (map fst heads) -> (forall h, In h heads -> 0 <= snd h) ->
  (forall h, In h heads -> snd h == 0 \/ eps <= snd h) ->
  Qsum (map snd heads) <= 1 -> Permutation order heads ->
  (forall h, In h heads -> mass (adrun g order init 1) (chosenb (fst h)) == snd h)
  /\ mass (adrun g order init 1) (noneb heads) == 1 - Qsum (map snd heads)
  /\ (forall st' w', In (st', w') (adrun g order init 1) -> (nchosen heads st' <= 1)%nat).
Proof. exact ad_categorical. Qed.
Print Assumptions C22_ad_categorical.

(* Facts are drawn independently: the probability of every joint assignment is the product *)
Theorem C22_facts_independent : forall fs a,
  NoDup (map fst fs) -> (forall h, In h fs -> 0 <= snd h <= 1) ->
  mass (factrun fs init 1) (assignb fs a) == aweight fs a.
Proof. exact facts_independent_init. Qed.
Print Assumptions C22_facts_independent.

(* ... and once: a sampled atom is memoised; asking again returns the stored value, consumes
   no draw and leaves the state (incl. self.probability) unchanged *)
Theorem C22_fact_drawn_once : forall st c p us v st' us',
  c_p c = Some p -> step st c us = Some (v, st', us') ->
  lookup (c_id c) (s_facts st') = Some v /\ forall us2, step st' c us2 = Some (v, st', us2).
Proof. exact fact_drawn_once. Qed.
Print Assumptions C22_fact_drawn_once.

(* The printed probability (self.probability after compute_probability) of every sample equals
   the probability with which the sampler produces that sample, for every adaptive encounter
   strategy.
   FULL STATEMENT (not proved, hence `_partial`):
     forall (T : list call) s, NoDup (map c_id T) -> (every fact of T has 0<=p<=1, every AD head has p=0 or p>=1e-8,
       every group of T has sum p <= 1) -> (every call of s is in T or deterministic) ->
     forall st' w', In (st', w') (sdist s init 1) -> w' == printed st'.
   PROVED: the same conclusion under the side condition `ok s init`, which states the consequences of
   well-formedness at the states the strategy reaches: 0<=p<=1 for a new fact, 0<=p<=r for a new AD head met
   with remaining mass r>=1e-8, p=0 below the cut-off.  The invariant "remaining mass r of an open
   group = 1 - sum of its memoised heads", which derives `ok` from the well-formedness of T, is proved in
   ProofsWellFormed.v: the full statement is C22_printed_probability below (this one is kept). *)
Theorem C22_printed_probability_partial : forall s st' w',
  ok s init -> In (st', w') (sdist s init 1) -> w' == printed st'.
Proof. exact printed_weight_init. Qed.
Print Assumptions C22_printed_probability_partial.

(* `ok` is satisfiable by a real run: fact, then two heads of one AD, then the fact again *)
Example C22_ok_example :
  ok (of_list [mkCall 5 None (Some (1#2)); mkCall 1 (Some 9%N) (Some (1#4)); mkCall 2 (Some 9%N) (Some (3#4));
               mkCall 5 None (Some (1#2))]) init.
Proof. vm_compute. intuition discriminate. Qed.

(* ---- well-formed input implies the side condition (ProofsWellFormed.v) -----------------------
   The sampler's input is a table T of add_atom calls.  wf_table T (boolean, computable):
   every identifier once (=> every atom in at most one group, always the same probability),
   facts 0<=p<=1, AD heads 0<=p and (p=0 or p>=1e-8: the cut-off guard of C22_ad_categorical),
   the heads of every group sum to <= 1.  A strategy is admissible when every call it can ever
   make is a row of T or deterministic (probability None). *)
Theorem C22_wellformed_ok : forall T s, wf_table T = true -> admissible T s -> ok s init.
Proof. exact wf_ok. Qed.
Print Assumptions C22_wellformed_ok.

(* every state reachable from `init` by decide-steps on allowed calls (any strategy, any draws)
   satisfies the local side condition of every allowed call, and `ok` of every admissible continuation *)
Theorem C22_reachable_ok : forall T st, wf_table T = true -> reach T st ->
  (forall c, allowed T c -> call_ok st c) /\ (forall s, admissible T s -> ok s st).
Proof. exact reach_ok. Qed.
Print Assumptions C22_reachable_ok.

(* `reach` covers what actually happens: the final state of every scripted run and every leaf of the
   distribution of an admissible strategy is reachable *)
Theorem C22_runs_are_reachable : forall T s,
  admissible T s ->
  (forall us st' us', srun s init us = Some (st', us') -> reach T st') /\
  (forall st' w', In (st', w') (sdist s init 1) -> reach T st').
Proof. exact runs_are_reachable. Qed.
Print Assumptions C22_runs_are_reachable.

(* the invariant behind it: the remaining mass of an open group is 1 - (memoised heads of the group),
   and stays within [0,1] *)
Theorem C22_remaining_mass : forall T st g r, wf_table T = true -> reach T st ->
  cur_grp g (s_groups st) = GOpen r -> r == 1 - msum T g (s_facts st) /\ 0 <= r <= 1.
Proof. exact remaining_mass. Qed.
Print Assumptions C22_remaining_mass.

(* FULL STATEMENT of the printed-probability property, no run-time side condition:
   for a well-formed table and every adaptive strategy over it, every sample's printed probability
   is the probability with which the sampler produces it *)
Theorem C22_printed_probability : forall T s st' w',
  wf_table T = true -> admissible T s -> In (st', w') (sdist s init 1) -> w' == printed st'.
Proof. exact printed_probability. Qed.
Print Assumptions C22_printed_probability.

(* the same for a scripted run (what the harness replays against the real sampler): the volume of the
   box of scripts that take the same path is the printed probability of the state `srun` ends in *)
Theorem C22_printed_probability_script : forall T s us st' w' us',
  wf_table T = true -> admissible T s -> spath s init us 1 = Some (st', w', us') ->
  srun s init us = Some (st', us') /\ w' == printed st'.
Proof. exact printed_probability_script. Qed.
Print Assumptions C22_printed_probability_script.

(* non-vacuity: a well-formed table (one fact, an AD with sum 1, an AD with sum 2/3 and a zero head) and a
   genuinely adaptive strategy (the order in which heads are met depends on the fact's value; a
   deterministic atom and a repeated atom are asked too); 15 leaves (8 of positive weight, total 1; the
   others are the measure-zero sides of draws with threshold 0 or 1), every weight = printed *)
Definition ex_T : list call :=
  [mkCall 5 None (Some (1#2));
   mkCall 1 (Some 9%N) (Some (1#4)); mkCall 2 (Some 9%N) (Some (3#4));
   mkCall 3 (Some 8%N) (Some (1#3)); mkCall 4 (Some 8%N) (Some (1#3)); mkCall 6 (Some 8%N) (Some 0)].
Definition ex_s : strat :=
  Ask (mkCall 5 None (Some (1#2))) (fun b =>
    if b then of_list [mkCall 1 (Some 9%N) (Some (1#4)); mkCall 7 None None; mkCall 2 (Some 9%N) (Some (3#4))]
    else of_list [mkCall 2 (Some 9%N) (Some (3#4)); mkCall 3 (Some 8%N) (Some (1#3)); mkCall 5 None (Some (1#2));
                  mkCall 6 (Some 8%N) (Some 0); mkCall 4 (Some 8%N) (Some (1#3)); mkCall 1 (Some 9%N) (Some (1#4))]).

Example C22_ex_wellformed : wf_table ex_T = true /\ admissible ex_T ex_s.
Proof.
  split. vm_compute. reflexivity.
  intros c A. unfold allowed, ex_T. simpl in A.
  repeat match goal with H : _ \/ _ |- _ => destruct H | H : False |- _ => destruct H end;
    subst; simpl; tauto.
Qed.

Example C22_ex_printed :
  map (fun l => (Qred (snd l), Qeq_bool (snd l) (printed (fst l)))) (sdist ex_s init 1)
  = [(1#8, true); (3#8, true); (0, true); (1#8, true); (0, true); (1#8, true); (1#8, true); (1#24, true);
     (0, true); (0, true); (0, true); (1#24, true); (0, true); (1#24, true); (0, true)].
Proof. vm_compute. reflexivity. Qed.

(* Rejection: within any number of attempts, the first accepted sample is distributed as the
   sample distribution conditioned on the evidence *)
Theorem C22_rejection_conditional : forall (d : list (state * Q)) e q n,
  (forall a w, In (a, w) d -> 0 <= w) -> 0 < mass d e ->
  first_acc d e q (S n) / first_acc d e (fun _ => true) (S n) == mass d (fun a => e a && q a) / mass d e.
Proof. exact (rejection_conditional_div state). Qed.
Print Assumptions C22_rejection_conditional.

(* non-vacuity *)
Example C22_ex_categorical :
  let heads := [(1%N, 1#5); (2%N, 3#10); (3%N, 1#2)] in
  map (fun h => Qred (mass (adrun 7%N [(3%N, 1#2); (1%N, 1#5); (2%N, 3#10)] init 1) (chosenb (fst h)))) heads
  = [1#5; 3#10; 1#2].
Proof. vm_compute. reflexivity. Qed.

Example C22_ex_run :
  check_run [mkCall 1 (Some 9%N) (Some (1#4)); mkCall 5 None (Some (1#2)); mkCall 2 (Some 9%N) (Some (1#4));
             mkCall 1 (Some 9%N) (Some (1#4)); mkCall 3 (Some 9%N) (Some (1#2))]
            [1#2; 1#2; 1#3] [false; false; true; false; false] (1#8) (1#8) [(9%N, None)] = true.
Proof. vm_compute. reflexivity. Qed.

(* ================================================================================================
   Weak law of large numbers for the estimate (ModelLLN.v, ProofsLLN.v).
   Finite distribution = list (A * Q) as above (e.g. the leaves `sdist s init 1`); `prodn d n` = all
   sequences of n outcomes, weight = product of the weights (n independent samples);
   `freq f l` = (number of samples of l in f) / (length l) = what estimate() returns for a query;
   `freq_dev f p eps l` = (eps <= |freq f l - p|).  Everything over Q, no axioms, no limits. *)

(* prodn is the independent product: it is a distribution over sequences of length n, and the
   probability of a coordinate-wise event (sample i in f_i) is the product of the P(f_i) *)
Theorem C22_product_distribution : forall A (d : list (A * Q)) n,
  (forall a w, In (a, w) d -> 0 <= w) -> mass d (fun _ => true) == 1 ->
  (forall l w, In (l, w) (prodn d n) -> length l = n /\ 0 <= w) /\ mass (prodn d n) (fun _ => true) == 1.
Proof. exact product_distribution. Qed.
Print Assumptions C22_product_distribution.

Theorem C22_product_independent : forall A (d : list (A * Q)) (fs : list (A -> bool)),
  mass (prodn d (length fs)) (allb fs) == Qprod (map (mass d) fs).
Proof. exact (@prodn_independent). Qed.
Print Assumptions C22_product_independent.

(* expectation and variance of the frequency of an event among n independent samples *)
Theorem C22_frequency_moments : forall A (d : list (A * Q)) (f : A -> bool) n,
  (forall a w, In (a, w) d -> 0 <= w) -> mass d (fun _ => true) == 1 -> (0 < n)%nat ->
  expect (prodn d n) (freq f) == mass d f /\
  expect (prodn d n) (fun l => (freq f l - mass d f) * (freq f l - mass d f)) == mass d f * (1 - mass d f) / Qnat n.
Proof. exact frequency_moments. Qed.
Print Assumptions C22_frequency_moments.

(* the same for the sample mean of any Q-valued observable with mean mu and variance v *)
Theorem C22_mean_moments : forall A (d : list (A * Q)) (g : A -> Q) mu v n,
  mass d (fun _ => true) == 1 -> expect d g == mu -> expect d (fun a => (g a - mu) * (g a - mu)) == v -> (0 < n)%nat ->
  expect (prodn d n) (smean g) == mu /\
  expect (prodn d n) (fun l => (smean g l - mu) * (smean g l - mu)) == v / Qnat n.
Proof. exact mean_moments. Qed.
Print Assumptions C22_mean_moments.

(* Chebyshev: the set of n-sample sequences whose frequency deviates from P(f) by at least eps has
   product probability <= P(f)(1-P(f)) / (n eps^2) <= 1 / (4 n eps^2) *)
Theorem C22_chebyshev : forall A (d : list (A * Q)) (f : A -> bool) n eps,
  (forall a w, In (a, w) d -> 0 <= w) -> mass d (fun _ => true) == 1 -> (0 < n)%nat -> 0 < eps ->
  mass (prodn d n) (freq_dev f (mass d f) eps) <= mass d f * (1 - mass d f) / (Qnat n * eps * eps) /\
  mass d f * (1 - mass d f) / (Qnat n * eps * eps) <= 1 / (4 * Qnat n * eps * eps).
Proof. exact chebyshev. Qed.
Print Assumptions C22_chebyshev.

Theorem C22_chebyshev_mean : forall A (d : list (A * Q)) (g : A -> Q) mu v n eps,
  (forall a w, In (a, w) d -> 0 <= w) -> mass d (fun _ => true) == 1 ->
  expect d g == mu -> expect d (fun a => (g a - mu) * (g a - mu)) == v -> (0 < n)%nat -> 0 < eps ->
  mass (prodn d n) (mean_dev g mu eps) <= v / (Qnat n * eps * eps).
Proof. exact mean_chebyshev. Qed.
Print Assumptions C22_chebyshev_mean.

(* Weak law of large numbers: the deviation probability tends to 0 — for every eps, delta > 0 there is
   an N (explicitly lln_N eps delta = floor(1 / (4 eps^2 delta)) + 1) from which on it is below delta *)
Theorem C22_weak_lln : forall A (d : list (A * Q)) (f : A -> bool) eps delta,
  (forall a w, In (a, w) d -> 0 <= w) -> mass d (fun _ => true) == 1 -> 0 < eps -> 0 < delta ->
  exists N, forall n, (N <= n)%nat -> mass (prodn d n) (freq_dev f (mass d f) eps) < delta.
Proof. exact weak_lln. Qed.
Print Assumptions C22_weak_lln.

Theorem C22_weak_lln_explicit_N : forall A (d : list (A * Q)) (f : A -> bool) eps delta,
  (forall a w, In (a, w) d -> 0 <= w) -> mass d (fun _ => true) == 1 -> 0 < eps -> 0 < delta ->
  forall n, (lln_N eps delta <= n)%nat -> mass (prodn d n) (freq_dev f (mass d f) eps) < delta.
Proof. exact weak_lln_explicit. Qed.
Print Assumptions C22_weak_lln_explicit_N.

(* The distribution of an accepted sample: `cond d e` (keep the outcomes with evidence, divide by P(e)).
   It is a distribution on the outcomes satisfying e, P_cond(q) = P(e /\ q) / P(e), and it IS what the
   rejection loop produces, for every bound m+1 on the number of attempts (C22_rejection_conditional) *)
Theorem C22_accepted_sample_distribution : forall A (d : list (A * Q)) (e : A -> bool),
  (forall a w, In (a, w) d -> 0 <= w) -> 0 < mass d e ->
  (forall a w, In (a, w) (cond d e) -> 0 <= w /\ e a = true) /\
  mass (cond d e) (fun _ => true) == 1 /\
  (forall q, mass (cond d e) q == mass d (fun a => e a && q a) / mass d e) /\
  (forall q m, first_acc d e q (S m) / first_acc d e (fun _ => true) (S m) == mass (cond d e) q).
Proof. exact accepted_distribution. Qed.
Print Assumptions C22_accepted_sample_distribution.

(* n samples, each obtained by the rejection loop with at most m+1 attempts (`accm d e (S m)` = the
   sub-distribution of the first accepted sample within m+1 attempts, C22_accm_is_first_accepted):
   all n are accepted with probability (1 - P(not e)^(m+1))^n > 0, and conditional on that the n-sample
   sequence is distributed exactly as the n-fold product of `cond d e`, for every m *)
Theorem C22_accm_is_first_accepted : forall A (d : list (A * Q)) e q m, mass (accm d e m) q == first_acc d e q m.
Proof. exact (@accm_mass). Qed.
Print Assumptions C22_accm_is_first_accepted.

Theorem C22_bounded_attempts_product : forall A (d : list (A * Q)) e m n (F : list A -> bool),
  (forall a w, In (a, w) d -> 0 <= w) -> 0 < mass d e ->
  mass (prodn (accm d e (S m)) n) (fun _ => true) == Qpown (first_acc d e (fun _ => true) (S m)) n /\
  0 < mass (prodn (accm d e (S m)) n) (fun _ => true) /\
  mass (prodn (accm d e (S m)) n) F / mass (prodn (accm d e (S m)) n) (fun _ => true)
  == mass (prodn (cond d e) n) F.
Proof. exact bounded_attempts_product. Qed.
Print Assumptions C22_bounded_attempts_product.

(* The estimate converges (in probability): for EVERY adaptive encounter strategy s of the modelled
   sampler, evidence e with P(e) > 0 and query q, the frequency of q among n accepted samples deviates
   from the conditional probability P(q | e) = P(e /\ q) / P(e) by eps or more with probability at most
   1 / (4 n eps^2); hence below any delta > 0 from n = lln_N eps delta on. *)
Theorem C22_estimate_converges : forall s (e q : state -> bool) n eps,
  0 < mass (sdist s init 1) e -> (0 < n)%nat -> 0 < eps ->
  mass (prodn (cond (sdist s init 1) e) n)
       (freq_dev q (mass (sdist s init 1) (fun a => e a && q a) / mass (sdist s init 1) e) eps)
  <= 1 / (4 * Qnat n * eps * eps).
Proof. exact estimate_converges. Qed.
Print Assumptions C22_estimate_converges.

Theorem C22_estimate_converges_delta : forall s (e q : state -> bool) eps delta,
  0 < mass (sdist s init 1) e -> 0 < eps -> 0 < delta ->
  forall n, (lln_N eps delta <= n)%nat ->
  mass (prodn (cond (sdist s init 1) e) n)
       (freq_dev q (mass (sdist s init 1) (fun a => e a && q a) / mass (sdist s init 1) e) eps) < delta.
Proof. exact estimate_converges_delta. Qed.
Print Assumptions C22_estimate_converges_delta.

(* sample() without evidence: frequency of q among n samples vs. P(q) *)
Theorem C22_sample_frequency_converges : forall s (q : state -> bool) n eps, (0 < n)%nat -> 0 < eps ->
  mass (prodn (sdist s init 1) n) (freq_dev q (mass (sdist s init 1) q) eps) <= 1 / (4 * Qnat n * eps * eps).
Proof. exact sample_frequency_converges. Qed.
Print Assumptions C22_sample_frequency_converges.

(* The bound a statistical test may use: with n samples and tolerance eps the test "|frequency - p| < eps"
   raises a false alarm with probability at most delta whenever 1 <= 4 n eps^2 delta, i.e. eps >= 1/(2 sqrt(n delta)).
   (The harness uses the sharper Hoeffding bound 2 exp(-2 n eps^2), which is NOT formalised here; Chebyshev
   at delta = 1e-9 would need n >= 2.5e8 / eps^2 samples.) *)
Theorem C22_test_bound : forall A (d : list (A * Q)) (f : A -> bool) n eps delta,
  (forall a w, In (a, w) d -> 0 <= w) -> mass d (fun _ => true) == 1 -> (0 < n)%nat -> 0 < eps ->
  1 <= 4 * Qnat n * eps * eps * delta ->
  mass (prodn d n) (freq_dev f (mass d f) eps) <= delta.
Proof. exact test_bound. Qed.
Print Assumptions C22_test_bound.

(* ---- non-vacuity ------------------------------------------------------------------------------ *)
(* a three-outcome distribution, event {0} with P = 1/2, n = 3, eps = 1/2: the 27 sequences have total
   mass 1; E freq = 1/2, Var freq = 1/12; P(|freq - 1/2| >= 1/2) = 1/4 <= 1/3 = p(1-p)/(n eps^2) = 1/(4 n eps^2) *)
Definition ex_d3 : list (N * Q) := [(0%N, 1#2); (1%N, 1#3); (2%N, 1#6)].
Example C22_ex_lln_small :
  let f := N.eqb 0 in
  (length (prodn ex_d3 3),
   Qred (mass (prodn ex_d3 3) (fun _ => true)),
   Qred (expect (prodn ex_d3 3) (freq f)),
   Qred (expect (prodn ex_d3 3) (fun l => (freq f l - (1#2)) * (freq f l - (1#2)))),
   Qred (mass (prodn ex_d3 3) (freq_dev f (1#2) (1#2))),
   Qred ((1#2) * (1 - (1#2)) / (Qnat 3 * (1#2) * (1#2))),
   Qred (mass (prodn ex_d3 2) (freq_dev f (1#2) (1#4))),
   Qred (mass (prodn ex_d3 1) (freq_dev f (1#2) (1#4))))
  = (27%nat, 1, 1#2, 1#12, 1#4, 1#3, 1#2, 1).
Proof. vm_compute. reflexivity. Qed.

(* the modelled sampler: fact 5 (1/2), AD {1: 1/4, 2: 3/4}; evidence "5 or head 1", query "head 1":
   P(e) = 5/8, P(q | e) = 2/5; two and three accepted samples *)
Definition ex_lln_s : strat :=
  of_list [mkCall 5 None (Some (1#2)); mkCall 1 (Some 9%N) (Some (1#4)); mkCall 2 (Some 9%N) (Some (3#4))].
Definition ex_lln_e (st : state) : bool := chosenb 5 st || chosenb 1 st.
Definition ex_lln_q (st : state) : bool := chosenb 1 st.
Example C22_ex_estimate :
  let d := sdist ex_lln_s init 1 in
  (Qred (mass d ex_lln_e),
   Qred (mass d (fun a => ex_lln_e a && ex_lln_q a) / mass d ex_lln_e),
   Qred (mass (cond d ex_lln_e) ex_lln_q),
   Qred (mass (prodn (cond d ex_lln_e) 2) (fun _ => true)),
   Qred (mass (prodn (cond d ex_lln_e) 2) (freq_dev ex_lln_q (2#5) (1#2))),
   Qred (1 / (4 * Qnat 2 * (1#2) * (1#2))),
   Qred (mass (prodn (cond d ex_lln_e) 3) (freq_dev ex_lln_q (2#5) (1#2))),
   Qred (1 / (4 * Qnat 3 * (1#2) * (1#2))),
   Qred (mass (prodn (accm d ex_lln_e 2) 2) (freq_dev ex_lln_q (2#5) (1#2))
         / mass (prodn (accm d ex_lln_e 2) 2) (fun _ => true)))
  = (5#8, 2#5, 2#5, 1, 4#25, 1#2, 8#125, 1#3, 4#25).
Proof. vm_compute. reflexivity. Qed.

(* the explicit N: eps = 1/10, delta = 1/20 -> 1/(4 eps^2 delta) = 500, N = 501 *)
Example C22_ex_lln_N : lln_N (1#10) (1#20) = 501%nat.
Proof. vm_compute. reflexivity. Qed.
