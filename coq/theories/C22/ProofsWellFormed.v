(* Well-formed sampler input  ==>  the run-time side condition `ok` of
   C22_printed_probability_partial, for every adaptive strategy and every draw script.

   The sampler's input is a table T of add_atom calls (identifier, group, probability), as the
   engine issues them: a probabilistic fact is (id, None, Some p), a head of an annotated
   disjunction is (id, Some origin, Some p).  `wf_table` is the boolean well-formedness:
     - every identifier occurs once (so every atom is in at most one group and is always asked
       with the same probability),
     - facts have 0 <= p <= 1, AD heads have 0 <= p and (p = 0 or p >= 1e-8: the cut-off guard
       of C22_ad_categorical),
     - the heads of every group sum to <= 1.
   Invariant of the reachable states: the remaining mass r of an open group equals
   1 - (sum of the probabilities of its memoised heads). *)
From Coq Require Import QArith Qminmax NArith List Bool Lia Lqa Setoid Morphisms.
From PL.C22 Require Import ModelSampler ProofsSampler.
Import ListNotations.
Open Scope Q_scope.

(* ------------------------------------------------------------------ definitions *)
Definition grp_eqb (a : option N) (g : N) : bool :=
  match a with Some g' => N.eqb g' g | None => false end.

Definition pval (c : call) : Q := match c_p c with Some p => p | None => 0 end.

(* declared mass of group g *)
Fixpoint gsum (T : list call) (g : N) : Q :=
  match T with
  | [] => 0
  | c :: t => (if grp_eqb (c_grp c) g then pval c else 0) + gsum t g
  end.

Definition call_wfb (c : call) : bool :=
  match c_p c with
  | None => true
  | Some p =>
    match c_grp c with
    | None => Qle_bool 0 p && Qle_bool p 1
    | Some _ => Qle_bool 0 p && (Qeq_bool p 0 || Qle_bool eps p)
    end
  end.

Fixpoint nodupb (l : list N) : bool :=
  match l with
  | [] => true
  | x :: t => negb (existsb (N.eqb x) t) && nodupb t
  end.

Definition sums_okb (T : list call) : bool :=
  forallb (fun c => match c_grp c with Some g => Qle_bool (gsum T g) 1 | None => true end) T.

Definition wf_table (T : list call) : bool :=
  nodupb (map c_id T) && forallb call_wfb T && sums_okb T.

(* the strategy only asks atoms of the table, or deterministic atoms (probability None) *)
Definition allowed (T : list call) (c : call) : Prop := In c T \/ c_p c = None.
Definition admissible (T : list call) (s : strat) : Prop := forall c, asked c s -> allowed T c.

Definition memob (id : N) (F : list (N * bool)) : bool :=
  match lookup id F with Some _ => true | None => false end.

(* mass of the memoised heads of group g *)
Fixpoint msum (T : list call) (g : N) (F : list (N * bool)) : Q :=
  match T with
  | [] => 0
  | c :: t => (if grp_eqb (c_grp c) g && memob (c_id c) F then pval c else 0) + msum t g F
  end.

Definition inv (T : list call) (st : state) : Prop :=
  forall g r, cur_grp g (s_groups st) = GOpen r -> r == 1 - msum T g (s_facts st).

(* states reachable from `init` by decide-steps on allowed calls, whatever the draws are *)
Inductive reach (T : list call) : state -> Prop :=
| R_init : reach T init
| R_const : forall st c v st', reach T st -> allowed T c -> decide st c = DConst v st' -> reach T st'
| R_hit : forall st c b q h m, reach T st -> allowed T c -> decide st c = DDraw b q h m -> reach T h
| R_miss : forall st c b q h m, reach T st -> allowed T c -> decide st c = DDraw b q h m -> reach T m.

(* ------------------------------------------------------------------ boolean -> Prop *)
Lemma nodupb_NoDup : forall l, nodupb l = true -> NoDup l.
Proof.
  induction l as [|x t IH]; simpl; intros H. constructor.
  apply andb_true_iff in H. destruct H as [A B]. constructor; auto.
  intros I. apply negb_true_iff in A.
  assert (existsb (N.eqb x) t = true) as E.
  { apply existsb_exists. exists x. split; auto. apply N.eqb_refl. }
  congruence.
Qed.

Record wfP (T : list call) : Prop := mkWf {
  wf_nodup : NoDup (map c_id T);
  wf_fact : forall c p, In c T -> c_p c = Some p -> c_grp c = None -> 0 <= p <= 1;
  wf_head : forall c p g, In c T -> c_p c = Some p -> c_grp c = Some g -> 0 <= p /\ (p == 0 \/ eps <= p);
  wf_sum : forall c g, In c T -> c_grp c = Some g -> gsum T g <= 1
}.

Lemma wf_table_wfP : forall T, wf_table T = true -> wfP T.
Proof.
  intros T H. unfold wf_table in H.
  apply andb_true_iff in H. destruct H as [H S]. apply andb_true_iff in H. destruct H as [ND CW].
  rewrite forallb_forall in CW. unfold sums_okb in S. rewrite forallb_forall in S.
  constructor.
  - apply nodupb_NoDup; auto.
  - intros c p I P G. specialize (CW c I). unfold call_wfb in CW. rewrite P, G in CW.
    apply andb_true_iff in CW. destruct CW as [A B].
    apply Qle_bool_iff in A. apply Qle_bool_iff in B. split; auto.
  - intros c p g I P G. specialize (CW c I). unfold call_wfb in CW. rewrite P, G in CW.
    apply andb_true_iff in CW. destruct CW as [A B]. apply Qle_bool_iff in A. split; auto.
    apply orb_true_iff in B. destruct B as [B|B].
    + left. apply Qeq_bool_iff in B. auto.
    + right. apply Qle_bool_iff in B. auto.
  - intros c g I G. specialize (S c I). cbv beta in S. rewrite G in S. apply Qle_bool_iff in S. auto.
Qed.

Lemma pval_nonneg : forall T c, wfP T -> In c T -> 0 <= pval c.
Proof.
  intros T c W I. unfold pval. destruct (c_p c) as [p|] eqn:P; [|lra].
  destruct (c_grp c) as [g|] eqn:G.
  - destruct (wf_head T W c p g I P G). auto.
  - destruct (wf_fact T W c p I P G). auto.
Qed.

(* ------------------------------------------------------------------ msum *)
Lemma memob_cons_other : forall i j v F, i <> j -> memob i ((j, v) :: F) = memob i F.
Proof.
  intros. unfold memob. simpl. destruct (N.eqb i j) eqn:E; auto.
  apply N.eqb_eq in E. contradiction.
Qed.

Lemma memob_cons_same : forall i v F, memob i ((i, v) :: F) = true.
Proof. intros. unfold memob. simpl. rewrite N.eqb_refl. auto. Qed.

Lemma msum_notin : forall T g i v F, ~ In i (map c_id T) -> msum T g ((i, v) :: F) == msum T g F.
Proof.
  induction T as [|a t IH]; intros g i v F NI; simpl. reflexivity.
  rewrite memob_cons_other.
  - rewrite IH. reflexivity. intros X. apply NI. right. auto.
  - intros X. apply NI. left. auto.
Qed.

(* memoising an atom of the table adds its probability to its own group only *)
Lemma msum_add : forall T g c v F,
  NoDup (map c_id T) -> In c T -> lookup (c_id c) F = None ->
  msum T g ((c_id c, v) :: F) == msum T g F + (if grp_eqb (c_grp c) g then pval c else 0).
Proof.
  induction T as [|a t IH]; intros g c v F ND I L. contradiction.
  inversion ND as [|x l NI ND']; subst. cbn [msum].
  destruct I as [E|I].
  - subst a. rewrite memob_cons_same. unfold memob at 1. rewrite L.
    rewrite (msum_notin t g (c_id c) v F NI).
    rewrite andb_true_r, andb_false_r. lra.
  - assert (c_id a <> c_id c) as NE.
    { intros X. apply NI. rewrite X. apply in_map. auto. }
    rewrite (memob_cons_other _ _ _ _ NE). rewrite (IH g c v F ND' I L). lra.
Qed.

Lemma msum_le_gsum : forall T T0 g F, wfP T0 -> (forall c, In c T -> In c T0) -> msum T g F <= gsum T g.
Proof.
  induction T as [|a t IH]; intros T0 g F W SUB; simpl. lra.
  assert (0 <= pval a) as P by (apply (pval_nonneg T0); auto; apply SUB; left; auto).
  assert (msum t g F <= gsum t g) as X by (apply (IH T0); auto; intros; apply SUB; right; auto).
  destruct (grp_eqb (c_grp a) g); destruct (memob (c_id a) F); simpl; lra.
Qed.

(* an un-memoised head still fits into what its group has left *)
Lemma head_fits : forall T c g F,
  wfP T -> In c T -> c_grp c = Some g -> lookup (c_id c) F = None ->
  msum T g F + pval c <= 1.
Proof.
  intros T c g F W I G L.
  pose proof (msum_add T g c true F (wf_nodup T W) I L) as A.
  rewrite G in A. cbn [grp_eqb] in A. rewrite N.eqb_refl in A.
  pose proof (msum_le_gsum T T g ((c_id c, true) :: F) W (fun _ x => x)) as B.
  pose proof (wf_sum T W c g I G) as C. lra.
Qed.

(* ------------------------------------------------------------------ the invariant gives call_ok *)
Lemma inv_call_ok : forall T st c, wfP T -> inv T st -> allowed T c -> call_ok st c.
Proof.
  intros T st c W INV [I|D]; unfold call_ok.
  2:{ rewrite D. exact Logic.I. }
  destruct (c_p c) as [p|] eqn:P; [|exact Logic.I].
  destruct (lookup (c_id c) (s_facts st)) eqn:L; [exact Logic.I|].
  destruct (c_grp c) as [g|] eqn:G.
  - destruct (cur_grp g (s_groups st)) as [r|] eqn:CG; [|exact Logic.I].
    pose proof (INV g r CG) as R.
    pose proof (head_fits T c g (s_facts st) W I G L) as HF.
    unfold pval in HF. rewrite P in HF.
    destruct (wf_head T W c p g I P G) as [P0 GU].
    destruct (Qle_bool eps r) eqn:LE.
    + split; lra.
    + apply Qle_bool_false in LE. destruct GU as [Z|Z]; auto. lra.
  - exact (wf_fact T W c p I P G).
Qed.

(* ------------------------------------------------------------------ the invariant is preserved *)
Lemma inv_memo_other_group : forall T st c v gs' pr,
  wfP T -> inv T st -> In c T -> lookup (c_id c) (s_facts st) = None ->
  (forall g r, cur_grp g gs' = GOpen r -> grp_eqb (c_grp c) g = false /\ cur_grp g (s_groups st) = GOpen r) ->
  inv T (mkSt ((c_id c, v) :: s_facts st) gs' pr).
Proof.
  intros T st c v gs' pr W INV I L H g r CG. cbn [s_groups s_facts] in *.
  destruct (H g r CG) as [NE CG0].
  rewrite (msum_add T g c v (s_facts st) (wf_nodup T W) I L). rewrite NE.
  rewrite (INV g r CG0). lra.
Qed.

Lemma inv_decide : forall T st c, wfP T -> inv T st -> allowed T c ->
  match decide st c with
  | DConst _ st' => inv T st'
  | DDraw _ _ h m => inv T h /\ inv T m
  end.
Proof.
  intros T st c W INV AL. unfold decide.
  destruct (c_p c) as [p|] eqn:P; auto.
  destruct (lookup (c_id c) (s_facts st)) eqn:L; auto.
  destruct AL as [I|D]; [|congruence].
  assert (pval c = p) as PV by (unfold pval; rewrite P; auto).
  destruct (c_grp c) as [g0|] eqn:G.
  - assert (forall x g r, g <> g0 -> cur_grp g (upd g0 x (s_groups st)) = GOpen r ->
              grp_eqb (Some g0) g = false /\ cur_grp g (s_groups st) = GOpen r) as OTHER.
    { intros x g r NE CG. rewrite cur_grp_upd_other in CG; auto. split; auto.
      cbn [grp_eqb]. destruct (N.eqb g0 g) eqn:E; auto. apply N.eqb_eq in E. congruence. }
    destruct (cur_grp g0 (s_groups st)) as [r0|] eqn:CG0.
    + (* open group: hit state closes it, miss / cut-off state has r0 - p *)
      assert (inv T (mkSt ((c_id c, false) :: s_facts st) (upd g0 (GOpen (r0 - p)) (s_groups st)) (s_prob st))) as MISS.
      { intros g r CG. cbn [s_groups s_facts] in *.
        destruct (N.eq_dec g g0) as [E|NE].
        - subst g. rewrite cur_grp_upd_same in CG. inversion CG; subst r.
          rewrite (msum_add T g0 c false (s_facts st) (wf_nodup T W) I L).
          rewrite G. cbn [grp_eqb]. rewrite N.eqb_refl. rewrite PV. rewrite (INV g0 r0 CG0). lra.
        - destruct (OTHER _ g r NE CG) as [A B].
          rewrite (msum_add T g c false (s_facts st) (wf_nodup T W) I L). rewrite G, A.
          rewrite (INV g r B). lra. }
      assert (forall pr, inv T (mkSt ((c_id c, true) :: s_facts st) (upd g0 GClosed (s_groups st)) pr)) as HIT.
      { intros pr. apply inv_memo_other_group; auto. intros g r CG. rewrite G.
        destruct (N.eq_dec g g0) as [E|NE].
        - subst g. rewrite cur_grp_upd_same in CG. discriminate.
        - apply (OTHER GClosed); auto. }
      destruct (negb (Qle_bool eps r0)); auto.
    + (* closed group: memoised false, groups untouched *)
      apply inv_memo_other_group; auto. intros g r CG. rewrite G. split; auto.
      cbn [grp_eqb]. destruct (N.eqb g0 g) eqn:E; auto. apply N.eqb_eq in E. subst. congruence.
  - split; apply inv_memo_other_group; auto; intros g r CG; rewrite G; split; auto.
Qed.

Lemma inv_init : forall T, inv T init.
Proof.
  intros T g r CG. unfold cur_grp in CG. simpl in CG. inversion CG; subst.
  assert (msum T g [] == 0) as Z.
  { induction T as [|a t IH]; simpl. reflexivity. rewrite andb_false_r. lra. }
  cbn [s_facts init]. rewrite Z. lra.
Qed.

(* ------------------------------------------------------------------ ok for every strategy *)
Lemma inv_ok : forall T s st, wfP T -> inv T st -> admissible T s -> ok s st.
Proof.
  intros T. induction s as [|c k IH]; intros st W INV AD; simpl; auto.
  assert (allowed T c) as AL by (apply AD; simpl; auto).
  assert (forall b, admissible T (k b)) as ADk.
  { intros b c0 A. apply AD. simpl. right. destruct b; auto. }
  split. { eapply inv_call_ok; eauto. }
  pose proof (inv_decide T st c W INV AL) as D.
  destruct (decide st c) as [v st'|b q h m].
  - apply IH; auto.
  - destruct D. split; apply IH; auto.
Qed.

Lemma wf_ok : forall T s, wf_table T = true -> admissible T s -> ok s init.
Proof. intros T s W AD. apply (inv_ok T); auto. apply wf_table_wfP; auto. apply inv_init. Qed.

(* every reachable state satisfies the invariant, hence the side condition of every allowed call *)
Lemma reach_inv : forall T st, wfP T -> reach T st -> inv T st.
Proof.
  intros T st W R. induction R as [|st c v st' R IH AL D|st c b q h m R IH AL D|st c b q h m R IH AL D].
  - apply inv_init.
  - pose proof (inv_decide T st c W IH AL) as X. rewrite D in X. auto.
  - pose proof (inv_decide T st c W IH AL) as X. rewrite D in X. tauto.
  - pose proof (inv_decide T st c W IH AL) as X. rewrite D in X. tauto.
Qed.

Lemma reach_ok : forall T st, wf_table T = true -> reach T st ->
  (forall c, allowed T c -> call_ok st c) /\ (forall s, admissible T s -> ok s st).
Proof.
  intros T st W R. apply wf_table_wfP in W. pose proof (reach_inv T st W R) as INV. split.
  - intros c AL. eapply inv_call_ok; eauto.
  - intros s AD. eapply inv_ok; eauto.
Qed.

(* a scripted run of an admissible strategy only visits reachable states *)
Lemma srun_reach : forall T s st us st' us',
  admissible T s -> reach T st -> srun s st us = Some (st', us') -> reach T st'.
Proof.
  intros T. induction s as [|c k IH]; intros st us st' us' AD R H; simpl in H.
  - inversion H; subst; auto.
  - assert (allowed T c) as AL by (apply AD; simpl; auto).
    assert (forall b, admissible T (k b)) as ADk.
    { intros b c0 A. apply AD. simpl. right. destruct b; auto. }
    unfold step in H. destruct (decide st c) as [v st1|b q h m] eqn:D.
    + eapply IH; [apply ADk| |exact H]. eapply R_const; eauto.
    + destruct us as [|u us0]; try discriminate. cbv zeta in H.
      destruct (hitb b q u).
      * eapply IH; [apply ADk| |exact H]. eapply R_hit; eauto.
      * eapply IH; [apply ADk| |exact H]. eapply R_miss; eauto.
Qed.

(* and so does every leaf of the distribution *)
Lemma sdist_reach : forall T s st w st' w',
  admissible T s -> reach T st -> In (st', w') (sdist s st w) -> reach T st'.
Proof.
  intros T. induction s as [|c k IH]; intros st w st' w' AD R H; simpl in H.
  - destruct H as [H|[]]. inversion H; subst; auto.
  - assert (allowed T c) as AL by (apply AD; simpl; auto).
    assert (forall b, admissible T (k b)) as ADk.
    { intros b c0 A. apply AD. simpl. right. destruct b; auto. }
    destruct (decide st c) as [v st1|b q h m] eqn:D.
    + eapply IH; [apply ADk| |exact H]. eapply R_const; eauto.
    + apply in_app_or in H. destruct H as [H|H].
      * eapply IH; [apply ADk| |exact H]. eapply R_hit; eauto.
      * eapply IH; [apply ADk| |exact H]. eapply R_miss; eauto.
Qed.

(* ------------------------------------------------------------------ statements used by Props.v *)
Theorem printed_probability : forall T s st' w',
  wf_table T = true -> admissible T s -> In (st', w') (sdist s init 1) -> w' == printed st'.
Proof. intros T s st' w' W AD H. apply (printed_weight_init s); auto. eapply wf_ok; eauto. Qed.

Theorem printed_probability_script : forall T s us st' w' us',
  wf_table T = true -> admissible T s -> spath s init us 1 = Some (st', w', us') ->
  srun s init us = Some (st', us') /\ w' == printed st'.
Proof.
  intros T s us st' w' us' W AD H. destruct (spath_leaf _ _ _ _ _ _ _ H) as [A B]. split; auto.
  eapply printed_probability; eauto.
Qed.

(* in a reachable state the remaining mass of every open group is in [0,1] *)
Lemma msum_nonneg : forall T T0 g F, wfP T0 -> (forall c, In c T -> In c T0) -> 0 <= msum T g F.
Proof.
  induction T as [|a t IH]; intros T0 g F W SUB; simpl. lra.
  assert (0 <= pval a) by (apply (pval_nonneg T0); auto; apply SUB; left; auto).
  assert (0 <= msum t g F) by (apply (IH T0); auto; intros; apply SUB; right; auto).
  destruct (grp_eqb (c_grp a) g && memob (c_id a) F); lra.
Qed.

Lemma msum_pos_head : forall T g F, 0 < msum T g F -> exists c, In c T /\ c_grp c = Some g.
Proof.
  induction T as [|a t IH]; simpl; intros g F P. lra.
  destruct (grp_eqb (c_grp a) g) eqn:E.
  - exists a. split; auto. unfold grp_eqb in E. destruct (c_grp a); try discriminate.
    apply N.eqb_eq in E. subst. auto.
  - simpl in P. destruct (IH g F) as [c [I G]]. lra. exists c. auto.
Qed.

Lemma reach_mass_range : forall T st g r, wf_table T = true -> reach T st ->
  cur_grp g (s_groups st) = GOpen r -> 0 <= r <= 1.
Proof.
  intros T st g r W R CG. apply wf_table_wfP in W. pose proof (reach_inv T st W R g r CG) as X.
  pose proof (msum_nonneg T T g (s_facts st) W (fun _ x => x)) as M0.
  split; [|lra].
  destruct (Qlt_le_dec 0 (msum T g (s_facts st))) as [P|Z]; [|lra].
  destruct (msum_pos_head T g (s_facts st) P) as [c [I G]].
  pose proof (msum_le_gsum T T g (s_facts st) W (fun _ x => x)).
  pose proof (wf_sum T W c g I G). lra.
Qed.

Lemma runs_are_reachable : forall T s,
  admissible T s ->
  (forall us st' us', srun s init us = Some (st', us') -> reach T st') /\
  (forall st' w', In (st', w') (sdist s init 1) -> reach T st').
Proof.
  intros T s AD. split.
  - intros us st' us'. apply srun_reach; auto. constructor.
  - intros st' w'. apply sdist_reach; auto. constructor.
Qed.

Lemma remaining_mass : forall T st g r, wf_table T = true -> reach T st ->
  cur_grp g (s_groups st) = GOpen r -> r == 1 - msum T g (s_facts st) /\ 0 <= r <= 1.
Proof.
  intros T st g r W R CG. split.
  - exact (reach_inv T st (wf_table_wfP T W) R g r CG).
  - exact (reach_mass_range T st g r W R CG).
Qed.
