(* Weak law of large numbers for the sampler's estimate, over Q, no axioms.
   Finite distributions: list (A * Q); n independent samples: prodn. *)
From Coq Require Import QArith Qround Qminmax NArith ZArith List Bool Lia Lqa Setoid Morphisms.
From PL.C22 Require Import ModelSampler ProofsSampler ModelLLN.
Import ListNotations.
Open Scope Q_scope.

(* ------------------------------------------------------------------ expectation *)
Section Expect.
Context {A : Type}.
Implicit Types (d : list (A * Q)) (g h : A -> Q) (f : A -> bool).

Lemma expect_app : forall d1 d2 g, expect (d1 ++ d2) g == expect d1 g + expect d2 g.
Proof. induction d1 as [|[a w] t IH]; intros; simpl. ring. rewrite IH. ring. Qed.

Lemma expect_ext : forall d g h, (forall a w, In (a, w) d -> g a == h a) -> expect d g == expect d h.
Proof.
  induction d as [|[a w] t IH]; intros g h H; simpl. reflexivity.
  rewrite (H a w (or_introl eq_refl)), (IH g h). reflexivity.
  intros; eapply H; right; eauto.
Qed.

(* linearity, in the one shape used below *)
Lemma expect_lin : forall d g h c0 c1 c2,
  expect d (fun a => c0 + c1 * g a + c2 * h a)
  == c0 * expect d (fun _ => 1) + c1 * expect d g + c2 * expect d h.
Proof. induction d as [|[a w] t IH]; intros; simpl. ring. rewrite IH. ring. Qed.

Lemma expect_scal : forall d g c, expect d (fun a => c * g a) == c * expect d g.
Proof. induction d as [|[a w] t IH]; intros; simpl. ring. rewrite IH. ring. Qed.

Lemma expect_const : forall d c, expect d (fun _ => c) == c * expect d (fun _ => 1).
Proof. induction d as [|[a w] t IH]; intros; simpl. ring. rewrite IH. ring. Qed.

Lemma mass_expect : forall d f, mass d f == expect d (ind f).
Proof. induction d as [|[a w] t IH]; intros; simpl. reflexivity. rewrite IH. unfold ind. destruct (f a); ring. Qed.

Lemma total_expect : forall d, mass d (fun _ => true) == expect d (fun _ => 1).
Proof. intros. rewrite mass_expect. apply expect_ext. intros. reflexivity. Qed.

Lemma expect_nonneg : forall d g,
  (forall a w, In (a, w) d -> 0 <= w) -> (forall a w, In (a, w) d -> 0 <= g a) -> 0 <= expect d g.
Proof.
  induction d as [|[a w] t IH]; intros g W G; simpl. lra.
  assert (0 <= w) by (eapply W; left; eauto).
  assert (0 <= g a) by (eapply G; left; eauto).
  assert (0 <= expect t g) by (apply IH; intros; [eapply W|eapply G]; right; eauto).
  nra.
Qed.

(* Markov's inequality for a finite distribution *)
Lemma markov : forall d g (ev : A -> bool) c,
  (forall a w, In (a, w) d -> 0 <= w) -> (forall a w, In (a, w) d -> 0 <= g a) ->
  (forall a w, In (a, w) d -> ev a = true -> c <= g a) ->
  c * mass d ev <= expect d g.
Proof.
  induction d as [|[a w] t IH]; intros g ev c W G E; simpl. lra.
  assert (0 <= w) as W0 by (eapply W; left; eauto).
  assert (0 <= g a) as G0 by (eapply G; left; eauto).
  assert (c * mass t ev <= expect t g) as I.
  { apply IH; intros; [eapply W|eapply G|eapply E]; try right; eauto. }
  destruct (ev a) eqn:EV.
  - assert (c <= g a) by (eapply E; [left; eauto|auto]). nra.
  - nra.
Qed.

Lemma mass_le_total : forall d f, (forall a w, In (a, w) d -> 0 <= w) -> mass d f <= mass d (fun _ => true).
Proof.
  induction d as [|[a w] t IH]; intros f W; simpl. lra.
  assert (0 <= w) by (eapply W; left; eauto).
  assert (mass t f <= mass t (fun _ => true)) by (apply IH; intros; eapply W; right; eauto).
  destruct (f a); lra.
Qed.
End Expect.

(* ------------------------------------------------------------------ Qnat *)
Lemma sq_nonneg : forall x : Q, 0 <= x * x.
Proof. intros. nra. Qed.

Lemma sq_scale : forall k e x, 0 <= k -> 0 < e -> (e <= x \/ e <= - x) -> k * e * (k * e) <= k * x * (k * x).
Proof.
  intros k e x K E H.
  assert (e * e <= x * x) as A by (destruct H; nra).
  assert (0 <= k * k) as B by nra.
  assert (k * e * (k * e) == (k * k) * (e * e)) as -> by ring.
  assert (k * x * (k * x) == (k * k) * (x * x)) as -> by ring.
  set (a := k * k) in *. set (b := e * e) in *. set (c := x * x) in *. nra.
Qed.

Lemma cheb_final : forall N e m v, 0 < N -> 0 < e -> N * e * (N * e) * m <= N * v -> m * (N * e * e) <= v.
Proof.
  intros N e m v HN HE H.
  assert (N * (m * (N * e * e)) <= N * v) by lra.
  set (y := m * (N * e * e)) in *. nra.
Qed.

Lemma quarter : forall p : Q, 4 * (p * (1 - p)) <= 1.
Proof. intros p. pose proof (sq_nonneg (2 * p - 1)). nra. Qed.

Lemma Qnat_S : forall n, Qnat (S n) == Qnat n + 1.
Proof. intros. unfold Qnat. rewrite Nat2Z.inj_succ, <- Z.add_1_r, inject_Z_plus. reflexivity. Qed.

Lemma Qnat_nonneg : forall n, 0 <= Qnat n.
Proof. intros. unfold Qnat. change 0 with (inject_Z 0). rewrite <- Zle_Qle. lia. Qed.

Lemma Qnat_pos : forall n, (0 < n)%nat -> 0 < Qnat n.
Proof. intros. unfold Qnat. change 0 with (inject_Z 0). rewrite <- Zlt_Qlt. lia. Qed.

Lemma Qnat_le : forall n m, (n <= m)%nat -> Qnat n <= Qnat m.
Proof. intros. unfold Qnat. rewrite <- Zle_Qle. lia. Qed.

(* ------------------------------------------------------------------ the n-fold product *)
Section Prodn.
Context {A : Type}.
Implicit Types (d : list (A * Q)).

Lemma expect_map_cons : forall (D : list (list A * Q)) a w (G : list A -> Q),
  expect (map (fun lw => (a :: fst lw, w * snd lw)) D) G == w * expect D (fun l => G (a :: l)).
Proof. induction D as [|[l v] t IH]; intros; simpl. ring. rewrite IH. ring. Qed.

(* Fubini: integrate the first sample last *)
Lemma expect_prodn_S : forall d n (G : list A -> Q),
  expect (prodn d (S n)) G == expect d (fun a => expect (prodn d n) (fun l => G (a :: l))).
Proof.
  intros d n G. simpl. generalize (prodn d n) as D. intros D.
  induction d as [|[a w] t IH]; simpl. reflexivity.
  rewrite expect_app, expect_map_cons, IH. reflexivity.
Qed.

Lemma prodn_in_S : forall d n l v, In (l, v) (prodn d (S n)) ->
  exists a w l' v', In (a, w) d /\ In (l', v') (prodn d n) /\ l = a :: l' /\ v = w * v'.
Proof.
  intros d n l v H. simpl in H. apply in_flat_map in H. destruct H as [[a w] [I H]].
  apply in_map_iff in H. destruct H as [[l' v'] [E I']]. simpl in E. inversion E; subst.
  exists a, w, l', v'. auto.
Qed.

Lemma prodn_nonneg : forall d n, (forall a w, In (a, w) d -> 0 <= w) ->
  forall l v, In (l, v) (prodn d n) -> 0 <= v.
Proof.
  intros d n W. induction n; intros l v H.
  - simpl in H. destruct H as [H|[]]. inversion H; subst. lra.
  - apply prodn_in_S in H. destruct H as (a & w & l' & v' & I & I' & -> & ->).
    pose proof (W _ _ I). pose proof (IHn _ _ I'). nra.
Qed.

Lemma prodn_length : forall d n l v, In (l, v) (prodn d n) -> length l = n.
Proof.
  intros d n. induction n; intros l v H.
  - simpl in H. destruct H as [H|[]]. inversion H; subst. reflexivity.
  - apply prodn_in_S in H. destruct H as (a & w & l' & v' & I & I' & -> & ->).
    simpl. f_equal. eapply IHn; eauto.
Qed.

Lemma prodn_total_expect : forall d n, expect d (fun _ => 1) == 1 -> expect (prodn d n) (fun _ => 1) == 1.
Proof.
  intros d n T. induction n.
  - simpl. ring.
  - rewrite expect_prodn_S. rewrite (expect_ext d _ (fun _ => 1)). exact T.
    intros. exact IHn.
Qed.

Lemma prodn_total : forall d n, mass d (fun _ => true) == 1 -> mass (prodn d n) (fun _ => true) == 1.
Proof. intros d n T. rewrite total_expect in T. rewrite total_expect. apply prodn_total_expect. exact T. Qed.

(* independence: the probability of a coordinate-wise event is the product *)
Lemma ind_allb_cons : forall (f : A -> bool) fs a l, ind (allb (f :: fs)) (a :: l) == ind f a * ind (allb fs) l.
Proof. intros. unfold ind. simpl. destruct (f a), (allb fs l); simpl; ring. Qed.

Lemma prodn_independent : forall d (fs : list (A -> bool)),
  mass (prodn d (length fs)) (allb fs) == Qprod (map (mass d) fs).
Proof.
  intros d fs. induction fs as [|f fs IH].
  - simpl. ring.
  - rewrite mass_expect. change (length (f :: fs)) with (S (length fs)). rewrite expect_prodn_S.
    rewrite (expect_ext d _ (fun a => Qprod (map (mass d) fs) * ind f a)).
    + rewrite expect_scal, <- mass_expect. simpl. ring.
    + intros a w _.
      rewrite (expect_ext _ _ (fun l => ind f a * ind (allb fs) l)) by (intros; apply ind_allb_cons).
      rewrite expect_scal, <- mass_expect, IH. ring.
Qed.

(* ---- moments of the sum of a centred observable --------------------------------- *)
Section Moments.
Variable d : list (A * Q).
Variable X : A -> Q.
Variable v : Q.
Hypothesis T1 : expect d (fun _ => 1) == 1.
Hypothesis X0 : expect d X == 0.
Hypothesis X2 : expect d (fun a => X a * X a) == v.

Lemma sum_mean0 : forall n, expect (prodn d n) (qsum X) == 0.
Proof.
  induction n.
  - simpl. ring.
  - rewrite expect_prodn_S.
    rewrite (expect_ext d _ X). exact X0.
    intros a w _. simpl.
    rewrite (expect_ext _ _ (fun l => X a + 1 * qsum X l + 0 * 0)) by (intros; ring).
    rewrite expect_lin, IHn, (prodn_total_expect d n T1). ring.
Qed.

Lemma sum_second_moment : forall n, expect (prodn d n) (fun l => qsum X l * qsum X l) == Qnat n * v.
Proof.
  induction n.
  - simpl. unfold Qnat. simpl. ring.
  - rewrite expect_prodn_S.
    rewrite (expect_ext d _ (fun a => Qnat n * v + 1 * (X a * X a) + 0 * 0)).
    + rewrite expect_lin, T1, X2, Qnat_S. ring.
    + intros a w _. simpl.
      rewrite (expect_ext _ _ (fun l => X a * X a + (2 * X a) * qsum X l + 1 * (qsum X l * qsum X l)))
        by (intros; ring).
      rewrite expect_lin, IHn, (sum_mean0 n), (prodn_total_expect d n T1). ring.
Qed.
End Moments.

(* ---- sample mean of an observable g with mean mu and variance v ------------------ *)
Lemma qsum_centre : forall (g : A -> Q) mu l, qsum (fun a => g a - mu) l == qsum g l - Qnat (length l) * mu.
Proof.
  intros g mu. induction l as [|a t IH].
  - simpl. unfold Qnat. simpl. ring.
  - change (length (a :: t)) with (S (length t)). simpl qsum. rewrite IH, Qnat_S. ring.
Qed.

Lemma smean_centre : forall (g : A -> Q) mu l, (0 < length l)%nat ->
  qsum (fun a => g a - mu) l == Qnat (length l) * (smean g l - mu).
Proof.
  intros g mu l L. rewrite qsum_centre. unfold smean.
  pose proof (Qnat_pos _ L). field. lra.
Qed.

Section Mean.
Variable d : list (A * Q).
Variable g : A -> Q.
Variables mu v : Q.
Hypothesis W : forall a w, In (a, w) d -> 0 <= w.
Hypothesis T : mass d (fun _ => true) == 1.
Hypothesis M : expect d g == mu.
Hypothesis V : expect d (fun a => (g a - mu) * (g a - mu)) == v.

Let T1 : expect d (fun _ => 1) == 1.
Proof. rewrite <- total_expect. exact T. Qed.

Let X0 : expect d (fun a => g a - mu) == 0.
Proof.
  rewrite (expect_ext d _ (fun a => - mu + 1 * g a + 0 * 0)) by (intros; ring).
  rewrite expect_lin, T1, M. ring.
Qed.

Lemma smean_expectation : forall n, (0 < n)%nat -> expect (prodn d n) (smean g) == mu.
Proof.
  intros n N. pose proof (Qnat_pos n N) as P.
  rewrite (expect_ext _ _ (fun l => mu + / Qnat n * qsum (fun a => g a - mu) l + 0 * 0)).
  - rewrite expect_lin, (sum_mean0 d _ T1 X0 n), (prodn_total_expect d n T1). ring.
  - intros l w I. pose proof (prodn_length _ _ _ _ I) as L.
    rewrite smean_centre by lia. rewrite L. field. lra.
Qed.

Lemma smean_variance : forall n, (0 < n)%nat ->
  expect (prodn d n) (fun l => (smean g l - mu) * (smean g l - mu)) == v / Qnat n.
Proof.
  intros n N. pose proof (Qnat_pos n N) as P.
  rewrite (expect_ext _ _ (fun l => (/ Qnat n * / Qnat n) *
     (qsum (fun a => g a - mu) l * qsum (fun a => g a - mu) l))).
  - rewrite expect_scal, (sum_second_moment d _ v T1 X0 V n). field. lra.
  - intros l w I. pose proof (prodn_length _ _ _ _ I) as L.
    rewrite smean_centre by lia. rewrite L. field. lra.
Qed.

Lemma variance_nonneg : 0 <= v.
Proof. rewrite <- V. apply expect_nonneg; auto. intros. apply sq_nonneg. Qed.

(* Chebyshev for the sample mean *)
Lemma smean_chebyshev : forall n eps, (0 < n)%nat -> 0 < eps ->
  mass (prodn d n) (mean_dev g mu eps) <= v / (Qnat n * eps * eps).
Proof.
  intros n eps N E. pose proof (Qnat_pos n N) as P.
  assert (0 < eps * eps) as E2 by nra.
  assert (0 < Qnat n * eps * eps) as D by nra.
  apply Qle_shift_div_l; auto.
  pose proof (markov (prodn d n) (fun l => qsum (fun a => g a - mu) l * qsum (fun a => g a - mu) l)
                (mean_dev g mu eps) ((Qnat n * eps) * (Qnat n * eps))) as MK.
  rewrite (sum_second_moment d _ v T1 X0 V n) in MK.
  set (m := mass (prodn d n) (mean_dev g mu eps)) in *.
  assert (Qnat n * eps * (Qnat n * eps) * m <= Qnat n * v) as MK'.
  { apply MK.
    - apply prodn_nonneg; auto.
    - intros. apply sq_nonneg.
    - intros l w I EV. pose proof (prodn_length _ _ _ _ I) as L.
      rewrite smean_centre by lia. rewrite L.
      unfold mean_dev, devb in EV. apply Qle_bool_iff in EV.
      set (x := smean g l - mu) in *. clearbody x.
      unfold Qabs' in EV. destruct (Qle_bool 0 x) eqn:S0.
      + apply sq_scale; auto. lra.
      + apply sq_scale; auto. lra. }
  apply cheb_final; auto.
Qed.
End Mean.

(* ---- frequencies: g = indicator of an event -------------------------------------- *)
Lemma count_qsum : forall (f : A -> bool) l, Qnat (count f l) == qsum (ind f) l.
Proof.
  intros f. induction l as [|a t IH].
  - reflexivity.
  - simpl count. simpl qsum. rewrite <- IH. unfold ind. destruct (f a).
    + change (1 + count f t)%nat with (S (count f t)). rewrite Qnat_S. ring.
    + simpl. ring.
Qed.

Lemma freq_smean : forall (f : A -> bool) l, freq f l == smean (ind f) l.
Proof. intros. unfold freq, smean. rewrite count_qsum. reflexivity. Qed.

Lemma freq_dev_mean_dev : forall (f : A -> bool) p eps l, freq_dev f p eps l = mean_dev (ind f) p eps l.
Proof.
  intros. unfold freq_dev, mean_dev, devb.
  assert (Qabs' (freq f l - p) == Qabs' (smean (ind f) l - p)) as E.
  { pose proof (freq_smean f l) as F. unfold Qabs'.
    destruct (Qle_bool 0 (freq f l - p)) eqn:E1; destruct (Qle_bool 0 (smean (ind f) l - p)) eqn:E2;
      try apply Qle_bool_iff in E1; try apply Qle_bool_iff in E2;
      try apply Qle_bool_false in E1; try apply Qle_bool_false in E2; lra. }
  destruct (Qle_bool eps (Qabs' (freq f l - p))) eqn:E1; destruct (Qle_bool eps (Qabs' (smean (ind f) l - p))) eqn:E2;
    auto; try apply Qle_bool_iff in E1; try apply Qle_bool_iff in E2;
      try apply Qle_bool_false in E1; try apply Qle_bool_false in E2; lra.
Qed.

Section Freq.
Variable d : list (A * Q).
Variable f : A -> bool.
Hypothesis W : forall a w, In (a, w) d -> 0 <= w.
Hypothesis T : mass d (fun _ => true) == 1.

Let p := mass d f.

Lemma ind_mean : expect d (ind f) == p.
Proof. unfold p. rewrite mass_expect. reflexivity. Qed.

Lemma ind_variance : expect d (fun a => (ind f a - p) * (ind f a - p)) == p * (1 - p).
Proof.
  rewrite (expect_ext d _ (fun a => p * p + (1 - 2 * p) * ind f a + 0 * 0)).
  - rewrite expect_lin, ind_mean, <- total_expect, T. ring.
  - intros a w _. unfold ind. destruct (f a); ring.
Qed.

Lemma p_bounds : 0 <= p <= 1.
Proof.
  unfold p. split. apply mass_nonneg; auto. rewrite <- T. apply mass_le_total; auto.
Qed.

Lemma freq_expectation : forall n, (0 < n)%nat -> expect (prodn d n) (freq f) == p.
Proof.
  intros n N. rewrite (expect_ext _ _ (smean (ind f))) by (intros; apply freq_smean).
  apply (smean_expectation d (ind f) p T ind_mean n N).
Qed.

Lemma freq_variance : forall n, (0 < n)%nat ->
  expect (prodn d n) (fun l => (freq f l - p) * (freq f l - p)) == p * (1 - p) / Qnat n.
Proof.
  intros n N.
  rewrite (expect_ext _ _ (fun l => (smean (ind f) l - p) * (smean (ind f) l - p)))
    by (intros; rewrite freq_smean; reflexivity).
  apply (smean_variance d (ind f) p (p * (1 - p)) T ind_mean ind_variance n N).
Qed.

Lemma quarter_bound : forall n eps, (0 < n)%nat -> 0 < eps ->
  p * (1 - p) / (Qnat n * eps * eps) <= 1 / (4 * Qnat n * eps * eps).
Proof.
  intros n eps N E. pose proof (Qnat_pos n N) as P.
  assert (0 < eps * eps) as E2 by nra.
  assert (0 < Qnat n * eps * eps) as D by nra.
  assert (0 < 4 * Qnat n * eps * eps) as D4 by nra.
  apply Qle_shift_div_l; auto.
  assert (p * (1 - p) / (Qnat n * eps * eps) * (4 * Qnat n * eps * eps) == 4 * (p * (1 - p))) as ->
    by (field; lra).
  apply quarter.
Qed.

Lemma freq_chebyshev : forall n eps, (0 < n)%nat -> 0 < eps ->
  mass (prodn d n) (freq_dev f p eps) <= p * (1 - p) / (Qnat n * eps * eps).
Proof.
  intros n eps N E.
  rewrite (mass_ext _ _ _ (mean_dev (ind f) p eps)) by (intros; apply freq_dev_mean_dev).
  apply (smean_chebyshev d (ind f) p (p * (1 - p)) W T ind_mean ind_variance n eps N E).
Qed.

Lemma freq_chebyshev_quarter : forall n eps, (0 < n)%nat -> 0 < eps ->
  mass (prodn d n) (freq_dev f p eps) <= 1 / (4 * Qnat n * eps * eps).
Proof.
  intros n eps N E. eapply Qle_trans. apply freq_chebyshev; auto. apply quarter_bound; auto.
Qed.
End Freq.
End Prodn.

(* ------------------------------------------------------------------ the explicit N *)
Lemma lln_N_spec : forall eps delta n, 0 < eps -> 0 < delta -> (lln_N eps delta <= n)%nat ->
  (0 < n)%nat /\ 1 / (4 * Qnat n * eps * eps) < delta.
Proof.
  intros eps delta n E D L. unfold lln_N in L.
  set (k := 4 * eps * eps * delta) in *.
  assert (0 < eps * eps) as E2 by nra.
  assert (0 < k) as K.
  { unfold k. assert (4 * eps * eps * delta == 4 * ((eps * eps) * delta)) as -> by ring.
    set (b := eps * eps) in *. nra. }
  pose proof (Qlt_floor (1 / k)) as F.
  assert (0 < 1 / k) as Q0 by (apply Qlt_shift_div_l; lra).
  assert (1 / k < Qnat n) as G.
  { eapply Qlt_le_trans. exact F. unfold Qnat. rewrite <- Zle_Qle. lia. }
  assert (1 / k * k == 1) as I by (field; lra).
  assert (0 < Qnat n) as P by (eapply Qlt_trans; eauto).
  split.
  - destruct n. 2: lia. exfalso. apply (Qlt_irrefl 0). exact P.
  - assert (1 < Qnat n * k) as G2.
    { rewrite <- I. set (y := 1 / k) in *. nra. }
    apply Qlt_shift_div_r.
    + assert (4 * Qnat n * eps * eps == 4 * (Qnat n * (eps * eps))) as -> by ring.
      set (b := eps * eps) in *. nra.
    + unfold k in G2. lra.
Qed.

(* ------------------------------------------------------------------ conditioning *)
Section Cond.
Context {A : Type}.
Implicit Types (d : list (A * Q)) (e q : A -> bool).

Lemma mass_scaled_filter : forall d e q (sc : Q),
  mass (map (fun aw => (fst aw, snd aw * sc)) (filter (fun aw => e (fst aw)) d)) q
  == mass d (fun a => e a && q a) * sc.
Proof.
  induction d as [|[a w] t IH]; intros e q sc; simpl. ring.
  destruct (e a); simpl.
  - rewrite IH. destruct (q a); ring.
  - rewrite IH. ring.
Qed.

Lemma in_scaled_filter : forall d e (sc : Q) a w,
  In (a, w) (map (fun aw => (fst aw, snd aw * sc)) (filter (fun aw => e (fst aw)) d)) ->
  exists w0, In (a, w0) d /\ w = w0 * sc /\ e a = true.
Proof.
  intros d e sc a w H. apply in_map_iff in H. destruct H as [[a0 w0] [E I]].
  apply filter_In in I. destruct I as [I EA]. simpl in *. inversion E; subst. eauto.
Qed.

Lemma cond_mass : forall d e q, mass (cond d e) q == mass d (fun a => e a && q a) / mass d e.
Proof. intros. unfold cond, Qdiv. apply mass_scaled_filter. Qed.

Lemma cond_nonneg : forall d e, (forall a w, In (a, w) d -> 0 <= w) -> 0 < mass d e ->
  forall a w, In (a, w) (cond d e) -> 0 <= w.
Proof.
  intros d e W P a w H. unfold cond, Qdiv in H. apply in_scaled_filter in H.
  destruct H as (w0 & I & -> & _). pose proof (W _ _ I).
  assert (0 < / mass d e) by (apply Qinv_lt_0_compat; auto). nra.
Qed.

Lemma cond_total : forall d e, 0 < mass d e -> mass (cond d e) (fun _ => true) == 1.
Proof.
  intros d e P. rewrite cond_mass.
  rewrite (mass_ext _ d (fun a => e a && true) e) by (intros; apply andb_true_r).
  field. lra.
Qed.

Lemma cond_support : forall d e a w, In (a, w) (cond d e) -> e a = true.
Proof. intros d e a w H. unfold cond, Qdiv in H. apply in_scaled_filter in H. destruct H as (? & ? & ? & ?); auto. Qed.

(* the rejection loop produces cond d e, whatever the bound on the number of attempts *)
Lemma cond_is_rejection : forall d e q m, (forall a w, In (a, w) d -> 0 <= w) -> 0 < mass d e ->
  first_acc d e q (S m) / first_acc d e (fun _ => true) (S m) == mass (cond d e) q.
Proof. intros. rewrite cond_mass. apply rejection_conditional_div; auto. Qed.

(* ... and, un-normalised: accm d e m is the sub-distribution of the first accepted sample *)
Lemma accm_mass : forall d e q m, mass (accm d e m) q == first_acc d e q m.
Proof. intros. unfold accm. rewrite mass_scaled_filter, first_acc_geo. reflexivity. Qed.
End Cond.

(* scaling every weight of d by c scales the n-fold product by c^n *)
Definition scaled {B : Type} (d d' : list (B * Q)) (c : Q) : Prop :=
  Forall2 (fun x y => fst x = fst y /\ snd y == c * snd x) d d'.

Lemma scaled_app : forall B (d1 d1' d2 d2' : list (B * Q)) c,
  scaled d1 d1' c -> scaled d2 d2' c -> scaled (d1 ++ d2) (d1' ++ d2') c.
Proof. intros. apply Forall2_app; auto. Qed.

Lemma scaled_mass : forall B (d d' : list (B * Q)) c (f : B -> bool), scaled d d' c -> mass d' f == c * mass d f.
Proof.
  intros B d d' c f H. induction H as [|[a w] [a' w'] t t' [E1 E2] H IH]; simpl in *. ring.
  subst a'. rewrite IH. destruct (f a); try rewrite E2; ring.
Qed.

Lemma scaled_map_cons : forall A (D D' : list (list A * Q)) c a w w' k,
  scaled D D' c -> w' == k * w ->
  scaled (map (fun lw => (a :: fst lw, w * snd lw)) D) (map (fun lw => (a :: fst lw, w' * snd lw)) D') (k * c).
Proof.
  intros A D D' c a w w' k H E. induction H as [|[l v] [l' v'] t t' [E1 E2] H IH]; simpl in *.
  constructor. constructor; auto. simpl. split. congruence. rewrite E2, E. ring.
Qed.

Lemma scaled_weaken : forall B (x y : list (B * Q)) c c', c == c' -> scaled x y c -> scaled x y c'.
Proof.
  intros B x y c c' EQ S0. unfold scaled in *. induction S0 as [|a b t t' [E1 E2] S0 IH]; constructor; auto.
  split; auto. rewrite E2, EQ. reflexivity.
Qed.

Lemma scaled_prodn : forall A (d d' : list (A * Q)) c n, scaled d d' c -> scaled (prodn d n) (prodn d' n) (Qpown c n).
Proof.
  intros A d d' c n H. induction n.
  - simpl. constructor; [|constructor]. simpl. split; auto. ring.
  - simpl Qpown. simpl prodn. revert IHn. generalize (prodn d' n). generalize (prodn d n). intros D D' HD.
    induction H as [|[a w] [a' w'] t t' [E1 E2] H IH]; simpl in *. constructor.
    subst a'. apply scaled_app; auto. apply scaled_map_cons; auto.
Qed.

Lemma Qpown_pos : forall c n, 0 < c -> 0 < Qpown c n.
Proof. intros c n C. induction n; simpl. lra. nra. Qed.

Lemma accm_scaled : forall A (d : list (A * Q)) e m, 0 < mass d e ->
  scaled (cond d e) (accm d e m) (first_acc d e (fun _ => true) m).
Proof.
  intros A d e m P. unfold cond, accm.
  assert (first_acc d e (fun _ => true) m == mass d e * geo (mass d (fun a => negb (e a))) m) as F.
  { rewrite first_acc_geo. rewrite (mass_ext _ d (fun a => e a && true) e) by (intros; apply andb_true_r). reflexivity. }
  induction (filter (fun aw => e (fst aw)) d) as [|[a w] t IH]; simpl. constructor.
  constructor; auto. simpl. split; auto. rewrite F. field. lra.
Qed.

(* n samples, each accepted within m attempts: conditional on that event the sample sequence is
   distributed as the n-fold product of cond d e *)
Lemma bounded_attempts_product : forall A (d : list (A * Q)) e m n (F : list A -> bool),
  (forall a w, In (a, w) d -> 0 <= w) -> 0 < mass d e ->
  mass (prodn (accm d e (S m)) n) (fun _ => true) == Qpown (first_acc d e (fun _ => true) (S m)) n /\
  0 < mass (prodn (accm d e (S m)) n) (fun _ => true) /\
  mass (prodn (accm d e (S m)) n) F / mass (prodn (accm d e (S m)) n) (fun _ => true)
  == mass (prodn (cond d e) n) F.
Proof.
  intros A d e m n F W P.
  pose proof (scaled_prodn _ _ _ _ n (accm_scaled A d e (S m) P)) as SC.
  rewrite !(scaled_mass _ _ _ _ _ SC).
  pose proof (accept_positive A d e m W P) as AP.
  assert (0 < Qpown (first_acc d e (fun _ => true) (S m)) n) as PP by (apply Qpown_pos; auto).
  rewrite (prodn_total (cond d e) n (cond_total d e P)).
  split; [|split].
  - ring.
  - lra.
  - field. lra.
Qed.

(* ------------------------------------------------------------------ statements used by Props.v *)
Lemma devb_compat : forall x x' p p' eps, x == x' -> p == p' -> devb x p eps = devb x' p' eps.
Proof.
  intros x x' p p' eps EX EP. unfold devb.
  assert (Qabs' (x - p) == Qabs' (x' - p')) as E.
  { unfold Qabs'.
    destruct (Qle_bool 0 (x - p)) eqn:E1; destruct (Qle_bool 0 (x' - p')) eqn:E2;
      try apply Qle_bool_iff in E1; try apply Qle_bool_iff in E2;
      try apply Qle_bool_false in E1; try apply Qle_bool_false in E2; lra. }
  destruct (Qle_bool eps (Qabs' (x - p))) eqn:E1; destruct (Qle_bool eps (Qabs' (x' - p'))) eqn:E2;
    auto; try apply Qle_bool_iff in E1; try apply Qle_bool_iff in E2;
      try apply Qle_bool_false in E1; try apply Qle_bool_false in E2; lra.
Qed.

Lemma product_distribution : forall A (d : list (A * Q)) n,
  (forall a w, In (a, w) d -> 0 <= w) -> mass d (fun _ => true) == 1 ->
  (forall l w, In (l, w) (prodn d n) -> length l = n /\ 0 <= w) /\ mass (prodn d n) (fun _ => true) == 1.
Proof.
  intros A d n W T. split.
  - intros l w I. split. eapply prodn_length; eauto. eapply prodn_nonneg; eauto.
  - apply prodn_total; auto.
Qed.

Lemma frequency_moments : forall A (d : list (A * Q)) (f : A -> bool) n,
  (forall a w, In (a, w) d -> 0 <= w) -> mass d (fun _ => true) == 1 -> (0 < n)%nat ->
  expect (prodn d n) (freq f) == mass d f /\
  expect (prodn d n) (fun l => (freq f l - mass d f) * (freq f l - mass d f)) == mass d f * (1 - mass d f) / Qnat n.
Proof.
  intros A d f n W T N. split.
  - apply (freq_expectation d f T n N).
  - apply (freq_variance d f T n N).
Qed.

Lemma mean_moments : forall A (d : list (A * Q)) (g : A -> Q) mu v n,
  mass d (fun _ => true) == 1 -> expect d g == mu -> expect d (fun a => (g a - mu) * (g a - mu)) == v -> (0 < n)%nat ->
  expect (prodn d n) (smean g) == mu /\
  expect (prodn d n) (fun l => (smean g l - mu) * (smean g l - mu)) == v / Qnat n.
Proof.
  intros A d g mu v n T M V N. split.
  - apply (smean_expectation d g mu T M n N).
  - apply (smean_variance d g mu v T M V n N).
Qed.

Lemma mean_chebyshev : forall A (d : list (A * Q)) (g : A -> Q) mu v n eps,
  (forall a w, In (a, w) d -> 0 <= w) -> mass d (fun _ => true) == 1 ->
  expect d g == mu -> expect d (fun a => (g a - mu) * (g a - mu)) == v -> (0 < n)%nat -> 0 < eps ->
  mass (prodn d n) (mean_dev g mu eps) <= v / (Qnat n * eps * eps).
Proof. intros A d g mu v n eps W T M V N E. apply (smean_chebyshev d g mu v W T M V n eps N E). Qed.

Lemma chebyshev : forall A (d : list (A * Q)) (f : A -> bool) n eps,
  (forall a w, In (a, w) d -> 0 <= w) -> mass d (fun _ => true) == 1 -> (0 < n)%nat -> 0 < eps ->
  mass (prodn d n) (freq_dev f (mass d f) eps) <= mass d f * (1 - mass d f) / (Qnat n * eps * eps) /\
  mass d f * (1 - mass d f) / (Qnat n * eps * eps) <= 1 / (4 * Qnat n * eps * eps).
Proof.
  intros A d f n eps W T N E. split.
  - apply (freq_chebyshev d f W T n eps N E).
  - apply (quarter_bound d f n eps N E).
Qed.

Lemma weak_lln_explicit : forall A (d : list (A * Q)) (f : A -> bool) eps delta,
  (forall a w, In (a, w) d -> 0 <= w) -> mass d (fun _ => true) == 1 -> 0 < eps -> 0 < delta ->
  forall n, (lln_N eps delta <= n)%nat -> mass (prodn d n) (freq_dev f (mass d f) eps) < delta.
Proof.
  intros A d f eps delta W T E D n L.
  destruct (lln_N_spec eps delta n E D L) as [N B].
  eapply Qle_lt_trans. apply (freq_chebyshev_quarter d f W T n eps N E). exact B.
Qed.

Lemma weak_lln : forall A (d : list (A * Q)) (f : A -> bool) eps delta,
  (forall a w, In (a, w) d -> 0 <= w) -> mass d (fun _ => true) == 1 -> 0 < eps -> 0 < delta ->
  exists N, forall n, (N <= n)%nat -> mass (prodn d n) (freq_dev f (mass d f) eps) < delta.
Proof. intros. exists (lln_N eps delta). apply weak_lln_explicit; auto. Qed.

(* what a statistical test may use: tolerance eps, n samples, false-alarm probability at most delta *)
Lemma test_bound : forall A (d : list (A * Q)) (f : A -> bool) n eps delta,
  (forall a w, In (a, w) d -> 0 <= w) -> mass d (fun _ => true) == 1 -> (0 < n)%nat -> 0 < eps ->
  1 <= 4 * Qnat n * eps * eps * delta ->
  mass (prodn d n) (freq_dev f (mass d f) eps) <= delta.
Proof.
  intros A d f n eps delta W T N E B.
  eapply Qle_trans. apply (freq_chebyshev_quarter d f W T n eps N E).
  pose proof (Qnat_pos n N) as P.
  assert (0 < eps * eps) as E2 by nra.
  apply Qle_shift_div_r.
  - assert (4 * Qnat n * eps * eps == 4 * (Qnat n * (eps * eps))) as -> by ring.
    set (b := eps * eps) in *. nra.
  - lra.
Qed.

Lemma accepted_distribution : forall A (d : list (A * Q)) (e : A -> bool),
  (forall a w, In (a, w) d -> 0 <= w) -> 0 < mass d e ->
  (forall a w, In (a, w) (cond d e) -> 0 <= w /\ e a = true) /\
  mass (cond d e) (fun _ => true) == 1 /\
  (forall q, mass (cond d e) q == mass d (fun a => e a && q a) / mass d e) /\
  (forall q m, first_acc d e q (S m) / first_acc d e (fun _ => true) (S m) == mass (cond d e) q).
Proof.
  intros A d e W P. repeat split.
  - eapply cond_nonneg; eauto.
  - eapply cond_support; eauto.
  - apply cond_total; auto.
  - intros. apply cond_mass.
  - intros. apply cond_is_rejection; auto.
Qed.

Lemma freq_dev_compat : forall A (f : A -> bool) p p' eps l, p == p' -> freq_dev f p eps l = freq_dev f p' eps l.
Proof. intros. unfold freq_dev. apply devb_compat; auto. reflexivity. Qed.

(* n accepted samples of a finite sample distribution d under evidence e *)
Lemma estimate_converges_gen : forall A (d : list (A * Q)) (e q : A -> bool) n eps,
  (forall a w, In (a, w) d -> 0 <= w) -> 0 < mass d e -> (0 < n)%nat -> 0 < eps ->
  mass (prodn (cond d e) n) (freq_dev q (mass d (fun a => e a && q a) / mass d e) eps) <= 1 / (4 * Qnat n * eps * eps).
Proof.
  intros A d e q n eps W P N E.
  rewrite (mass_ext _ _ _ (freq_dev q (mass (cond d e) q) eps)).
  - apply (freq_chebyshev_quarter (cond d e) q (cond_nonneg d e W P) (cond_total d e P) n eps N E).
  - intros. apply freq_dev_compat. symmetry. apply cond_mass.
Qed.

Lemma estimate_converges : forall s (e q : state -> bool) n eps,
  0 < mass (sdist s init 1) e -> (0 < n)%nat -> 0 < eps ->
  mass (prodn (cond (sdist s init 1) e) n)
       (freq_dev q (mass (sdist s init 1) (fun a => e a && q a) / mass (sdist s init 1) e) eps)
  <= 1 / (4 * Qnat n * eps * eps).
Proof.
  intros s e q n eps P N E. apply estimate_converges_gen; auto.
  intros a w I. eapply sdist_nonneg; [|exact I]. lra.
Qed.

Lemma estimate_converges_delta : forall s (e q : state -> bool) eps delta,
  0 < mass (sdist s init 1) e -> 0 < eps -> 0 < delta ->
  forall n, (lln_N eps delta <= n)%nat ->
  mass (prodn (cond (sdist s init 1) e) n)
       (freq_dev q (mass (sdist s init 1) (fun a => e a && q a) / mass (sdist s init 1) e) eps) < delta.
Proof.
  intros s e q eps delta P E D n L.
  destruct (lln_N_spec eps delta n E D L) as [N B].
  eapply Qle_lt_trans. apply estimate_converges; auto. exact B.
Qed.

(* sample() without evidence *)
Lemma sample_frequency_converges : forall s (q : state -> bool) n eps, (0 < n)%nat -> 0 < eps ->
  mass (prodn (sdist s init 1) n) (freq_dev q (mass (sdist s init 1) q) eps) <= 1 / (4 * Qnat n * eps * eps).
Proof.
  intros s q n eps N E. apply freq_chebyshev_quarter; auto.
  - intros a w I. eapply sdist_nonneg; [|exact I]. lra.
  - apply sdist_total.
Qed.
