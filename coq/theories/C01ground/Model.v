(* C01ground/Model.v -- a per-instance VALIDATOR for the stage  program -> LogicFormula  (the
   tabled grounding engine), which C01pipe leaves open.  Executable definitions only, no proofs.

   Inputs
     P      : Program.program    the first-order program (Sem's syntax); its ground instantiation
                                 [Program.ground P] is computed HERE, by Sem's own function
     F      : fdump              the dumped LogicFormula: and-or graph with signed children
                                 (C09.BoolGraph; atom nodes carry the identifier of the probabilistic
                                 choice they stand for) and the probability of every identifier
     cm     : cmap               for every ground AD instance of [g_clauses (ground P)], in that order:
                                 the identifiers of its heads (one per head) and the identifier the
                                 target builder gives its extra "none" atom.  A probabilistic fact is
                                 the one-head case.  Choices that do not occur in F get fresh
                                 identifiers (they are not atoms of the graph).
     qn     : names of queries   (ground atom, key of F)          key = None: FALSE, Some 0: TRUE
     en     : names of evidence  (ground atom, observed value, key of the atom in F)
     SK, lv : certificates       a child-closed key set containing the roots (C01pipe.cone_ok) and
                                 a table of stratification levels (C09.Strat.stratb)

   The validator enumerates EVERY total choice of the ground program exactly as Sem.wsum does
   (one head or none per ground AD instance), carries along the atom assignment the choice
   induces on F's identifiers exactly as C01pipe's world_sum does (Sums.sel: one-hot on the block),
   and in every world compares the truth of every named atom in Sem's well-founded model of the
   world's normal program with the value of the named key in the stable model of F's graph. *)
From Coq Require Import ZArith NArith List Bool Arith QArith Qcanon.
From PL.Sem Require Program Sem.
From PL.C09 Require Import BoolGraph Strat CyclesModel.
From PL.C01pipe Require Import Sums PipeModel.
Import ListNotations.

Definition gatom : Type := Program.gatom.
Definition gclause : Type := Program.clause gatom.
Definition nrule : Type := Sem.nrule gatom.
Definition geqb : gatom -> gatom -> bool := Program.gatom_eqb.

Record fdump : Type := { fd_graph : graph; fd_wt : list (N * Q) }.
Definition cmap : Type := list (list N * N).

Fixpoint wlook (t : list (N * Q)) (id : N) : Q :=
  match t with
  | [] => 0%Q
  | (k, v) :: r => if N.eqb id k then v else wlook r id
  end.

(* the weighted and-or program of C01pipe that the dump denotes.  Every choice is a group (a fact is
   a one-member group: the target builder of break_cycles adds no extra atom for it and its weights
   are (p, 1-p), exactly as for wp_facts) *)
Definition wprog_of (F : fdump) (cm : cmap) : wprog :=
  {| wp_graph := fd_graph F;
     wp_wt := fun id => Q2Qc (wlook (fd_wt F) id);
     wp_facts := [];
     wp_groups := cm |}.

(* ------------------------------------------------------------------ keys *)
(* negation of a key of the name table *)
Definition kneg (k : key) : key :=
  match k with
  | None => Some 0%Z
  | Some Z0 => None
  | Some z => Some (- z)%Z
  end.

Definition ekey (x : gatom * bool * key) : key := if snd (fst x) then snd x else kneg (snd x).
Definition ekeys (en : list (gatom * bool * key)) : list key := map ekey en.
Definition qkeys (qn : list (gatom * key)) : list key := map snd qn.
Definition all_names (qn : list (gatom * key)) (en : list (gatom * bool * key)) : list (gatom * key) :=
  qn ++ map (fun x => (fst (fst x), snd x)) en.

(* ------------------------------------------------------------------ enumeration of the worlds *)
Section Worlds.
Variable chk : list nrule -> (N -> bool) -> bool.

(* same recursion as Sem.wsum (program side: the world's normal program acc) and as
   Sums.bsum (formula side: the atom assignment a) *)
Fixpoint vworlds (cs : list gclause) (cm : cmap) (acc : list nrule) (a : N -> bool) : bool :=
  match cs with
  | [] => chk acc a
  | Program.Rule h b :: cs' => vworlds cs' cm ((h, b) :: acc) a
  | Program.AD hs b :: cs' =>
    match cm with
    | [] => false
    | (ids, _) :: cm' =>
      forallb (fun pi : (Q * gatom) * N =>
                 vworlds cs' cm' ((snd (fst pi), b) :: acc) (sel N.eqb a ids (Some (snd pi))))
              (combine hs ids)
      && vworlds cs' cm' acc (sel N.eqb a ids None)
    end
  end.
End Worlds.

(* the choice map has one entry per ground AD instance, one identifier per head, and the weight of
   every identifier is the probability the program gives that head *)
Fixpoint shapeb (wt : list (N * Q)) (cs : list gclause) (cm : cmap) : bool :=
  match cs with
  | [] => match cm with [] => true | _ => false end
  | Program.Rule _ _ :: cs' => shapeb wt cs' cm
  | Program.AD hs _ :: cs' =>
    match cm with
    | [] => false
    | (ids, _) :: cm' =>
      (length hs =? length ids) &&
      forallb (fun pi : (Q * gatom) * N => Qeq_bool (wlook wt (snd pi)) (fst (fst pi))) (combine hs ids) &&
      shapeb wt cs' cm'
    end
  end.

(* one world: Sem's well-founded model of the world's normal program exists, the candidate model of
   F's graph under the induced assignment IS a (stable) model, and they agree on every name *)
Definition leaf_ok (g : graph) (U : list gatom) (names : list (gatom * key))
           (acc : list nrule) (a : N -> bool) : bool :=
  match Sem.wfm gatom geqb acc U with
  | None => false
  | Some m =>
    let s := sem g a in
    is_modelb g a s &&
    forallb (fun nk : gatom * key => Bool.eqb (Sem.mem gatom geqb (fst nk) (fst m)) (key_val (vget s) (snd nk))) names
  end.

(* ------------------------------------------------------------------ side conditions of C01pipe's theorem *)
Definition wfxb (cm : cmap) : bool :=
  let mids := flat_map fst cm in
  nodupb mids && nodupb (map snd cm) &&
  forallb (fun g : list N * N => negb (existsb (N.eqb (snd g)) mids)) cm.

(* copy of C01pipe.Cone.cone_okb (that file contains proofs); Proofs.v shows they coincide *)
Definition coneb (P : wprog) (roots : list key) (SK : list nat) : bool :=
  let F := wp_graph P in
  let mids := flat_map fst (blocks P) in
  let inSK k := existsb (Nat.eqb k) SK in
  forallb (fun r : key => match r with Some c => Z.eqb c 0 || inSK (Z.abs_nat c) | None => true end) roots &&
  forallb (fun k => match node_at F k with
                    | Some (NAtom id) => existsb (N.eqb id) mids
                    | Some nd => forallb (fun c => Z.eqb c 0 || inSK (key_of c)) (children nd)
                    | None => true
                    end) SK.

Fixpoint evid_eqb (x y : list (gatom * bool)) : bool :=
  match x, y with
  | [], [] => true
  | (a, v) :: x', (b, w) :: y' => geqb a b && Bool.eqb v w && evid_eqb x' y'
  | _, _ => false
  end.

(* ------------------------------------------------------------------ the validator *)
Definition validate_ground (P : Program.program) (F : fdump) (cm : cmap)
           (qn : list (gatom * key)) (en : list (gatom * bool * key))
           (SK : list nat) (lv : list nat) : bool :=
  let G := Program.ground P in
  let cs := Program.g_clauses G in
  let U := Sem.universe gatom geqb cs in
  let W := wprog_of F cm in
  (* the evidence names are exactly the program's evidence *)
  evid_eqb (map fst en) (Program.g_evid G) &&
  (* choice map: shape and WEIGHTS *)
  shapeb (fd_wt F) cs cm &&
  wfxb cm &&
  (* side conditions of C01_pipeline_correct_real_layout *)
  coneb W (qkeys qn ++ ekeys en) SK &&
  stratb (fd_graph F) lv &&
  (* Sem.prob is defined (no fuel exhaustion, no positive-weight world with an undefined atom):
     literally the two tests of Sem.prob_gen *)
  Qeq_bool (Sem.wsum gatom (Sem.ind_fuel gatom geqb U) cs []) 0 &&
  Qeq_bool (Sem.wsum gatom (Sem.ind_undef gatom geqb U (fun _ => true)) cs []) 0 &&
  (* every world *)
  vworlds (leaf_ok (fd_graph F) U (all_names qn en)) cs cm [] a0.

(* ------------------------------------------------------------------ statements' vocabulary *)
(* explicit list of the worlds: (normal program of the total choice, induced atom assignment) *)
Fixpoint gworlds (cs : list gclause) (cm : cmap) (acc : list nrule) (a : N -> bool)
  : list (list nrule * (N -> bool)) :=
  match cs with
  | [] => [(acc, a)]
  | Program.Rule h b :: cs' => gworlds cs' cm ((h, b) :: acc) a
  | Program.AD hs b :: cs' =>
    match cm with
    | [] => []
    | (ids, _) :: cm' =>
      flat_map (fun pi : (Q * gatom) * N =>
                  gworlds cs' cm' ((snd (fst pi), b) :: acc) (sel N.eqb a ids (Some (snd pi))))
               (combine hs ids)
      ++ gworlds cs' cm' acc (sel N.eqb a ids None)
    end
  end.

(* Sem's answer as a pipeline result *)
Definition sem_result (P : Program.program) (q : gatom) : presult :=
  match Sem.prob P q with
  | Sem.Ok p => POk (Q2Qc p)
  | _ => PInconsistent
  end.
Definition sem_defined (P : Program.program) (q : gatom) : Prop :=
  match Sem.prob P q with
  | Sem.Ok _ | Sem.Inconsistent => True
  | _ => False
  end.
