(* C01ground -- closing the stage  program -> LogicFormula  (the tabled grounding engine) of C01,
   PER INSTANCE, with a verified validator.  Only statements here, every proof is `exact <lemma>`;
   definitions in Model.v (executable, no proofs), proofs in Proofs.v.

   C01pipe proves the pipeline FROM the and-or program onwards equal to the possible-world
   probability `world_prob` of that and-or program.  What was tied by final numbers only is that the
   and-or program the engine builds denotes the SOURCE program.  `validate_ground` checks this for one
   dumped LogicFormula by enumerating every total choice of Sem's ground instantiation of the program
   (no pruning) and comparing, world by world, Sem's well-founded model with the stable model of the
   formula's graph on every query / evidence name; it also checks that the weights of the formula's
   atoms are the program's probabilities.  The theorems below say what acceptance implies, for inputs
   of ANY size (the enumeration is the validator's algorithm, not a bound on the claim). *)
From Coq Require Import ZArith NArith List Bool Arith QArith Qcanon.
From PL.Sem Require Program Sem.
From PL.C09 Require Import BoolGraph Strat CyclesModel.
From PL.C01pipe Require Import Sums PipeModel Cone.
From PL.C01ground Require Import Model Proofs.
Import ListNotations.

(* ================================================================== (2) SOUNDNESS OF THE VALIDATOR *)
(* If the validator accepts then in EVERY world w = (normal program of a total choice of the ground
   instantiation of P, atom assignment that choice induces on F's identifiers): Sem's well-founded
   model of the world exists, and every model s of F's graph under that assignment (there is exactly
   one: the graph is stratified) gives every named key the truth value of the named atom:
       value_F world k = holds_P world n      for all (n, k) in the names of queries and evidence. *)
Theorem C01ground_validator_sound : forall P F cm qn en SK lv,
    validate_ground P F cm qn en SK lv = true ->
    let cs := Program.g_clauses (Program.ground P) in
    let U := Sem.universe gatom geqb cs in
    forall w, In w (gworlds cs cm [] a0) ->
    exists m, Sem.wfm gatom geqb (fst w) U = Some m /\
      forall s, is_model (fd_graph F) (snd w) s ->
      forall nk, In nk (all_names qn en) -> key_val s (snd nk) = Sem.mem gatom geqb (fst nk) (fst m).
Proof. exact validate_sound. Qed.
Print Assumptions C01ground_validator_sound.

(* the worlds the validator enumerates are exactly the worlds of Sem's definition (Sem.worlds: the
   explicit list of (weight, normal program) that Sem.wsum sums over), in the same order *)
Theorem C01ground_worlds_are_Sem_worlds : forall wt cs cm acc a p,
    shapeb wt cs cm = true ->
    map fst (gworlds cs cm acc a) = map snd (Sem.worlds gatom cs acc p).
Proof. exact gworlds_worlds. Qed.
Print Assumptions C01ground_worlds_are_Sem_worlds.

(* the side conditions of C01_pipeline_correct_real_layout are part of the verdict: identifiers distinct,
   a child-closed cone of the roots whose atoms are choices, stratification; and the choice map has the
   shape of the ground program with the program's probabilities as weights *)
Theorem C01ground_side_conditions : forall P F cm qn en SK lv,
    validate_ground P F cm qn en SK lv = true ->
    wf_src_x (wprog_of F cm) /\ cone_ok (wprog_of F cm) (qkeys qn ++ ekeys en) SK /\ stratified (fd_graph F) /\
    shapeb (fd_wt F) (Program.g_clauses (Program.ground P)) cm = true /\
    map fst en = Program.g_evid (Program.ground P).
Proof. exact validate_side_conditions. Qed.
Print Assumptions C01ground_side_conditions.

(* ================================================================== the two sums are one sum *)
(* Sem.wsum (exact Q, over the ground AD instances) and C01pipe's block sum (Qc, over atom
   assignments) coincide whenever the integrands coincide on every world (leaves) *)
Theorem C01ground_sum_alignment : forall wt (Fq : list nrule -> Q) (Kc : (N -> bool) -> Qc) cs cm acc a,
    shapeb wt cs cm = true ->
    leaves (fun acc' a' => Q2Qc (Fq acc') = Kc a') cs cm acc a ->
    Q2Qc (Sem.wsum gatom Fq cs acc) = bsum N.eqb (wtf wt) (map fst cm) Kc a.
Proof. exact wsum_bsum. Qed.
Print Assumptions C01ground_sum_alignment.

(* C01pipe's SPECIFICATION is Sem's: for an accepted formula the possible-world probability of the
   and-or program (world_prob, any model function M) is Sem.prob of the source program *)
Theorem C01ground_world_prob_is_Sem : forall P F cm qn en SK lv (M : (N -> bool) -> nat -> bool),
    validate_ground P F cm qn en SK lv = true ->
    (forall a, is_model (fd_graph F) a (M a)) ->
    forall nk, In nk qn ->
    world_prob (wprog_of F cm) M (snd nk) (ekeys en) = sem_result P (fst nk) /\ sem_defined P (fst nk).
Proof. exact validate_world_prob. Qed.
Print Assumptions C01ground_world_prob_is_Sem.

(* ================================================================== (2') THE END-TO-END COROLLARY *)
(* validator accepts  ==>  the pipeline model of C01pipe (break_cycles incl. memo -> translated Clark
   completion + AD clauses -> weights -> WMC -> ratio), run on the DUMPED formula for all query keys at
   once with the evidence keys, returns for every query exactly Sem.prob of the SOURCE program:
   POk p when Sem.prob P q = Ok p, PInconsistent when Sem.prob P q = Inconsistent; Sem.prob is never
   NotTwoValued / OutOfFuel (sem_defined).  Remaining hypothesis: the cycle-breaking model returns a
   result (C09's model returns None for the code's assertion failures).  Everything else -- weights =
   program probabilities, stratification, well-formedness, cone -- is checked by the validator. *)
Theorem C01ground_pipeline_is_Sem : forall tc um P F cm qn en SK lv D kqs kes,
    validate_ground P F cm qn en SK lv = true ->
    break_cycles_m tc um (fd_graph F) (ai_of (wprog_of F cm)) (qkeys qn) (ekeys en) = Some (D, kqs, kes) ->
    pipeline_all tc um (wprog_of F cm) (qkeys qn) (ekeys en) = Some (map (fun nk => sem_result P (fst nk)) qn) /\
    forall nk, In nk qn -> sem_defined P (fst nk).
Proof. exact validate_pipeline. Qed.
Print Assumptions C01ground_pipeline_is_Sem.

(* ================================================================== non-vacuity *)
(*  0.3::a; 0.5::b.  0.6::c.  p :- a.  p :- q, c.  q :- p.  q :- b.  r :- \+q, c.
    query(p). query(q). evidence(r,false).
    (an AD, a positive cycle p -> q,c -> q -> p, stratified negation, evidence on a derived atom).
    predicates a b c p q r = 1..6.  exF is the LogicFormula the REAL engine builds for this text
    (harness dump): 1 = choice a, 2 = p = or(1,7), 3 = choice b, 4 = the AD's extra atom (unreferenced),
    5 = q = or(2,3), 6 = fact c, 7 = and(5,6), 8 = r = and(-5,6). *)
Definition gat (p : N) : Program.atom := (p, []).
Definition exP : Program.program :=
  [ Program.SClause (Program.AD [(3 # 10, gat 1); (1 # 2, gat 2)] []);
    Program.SClause (Program.AD [(3 # 5, gat 3)] []);
    Program.SClause (Program.Rule (gat 4) [Program.Pos (gat 1)]);
    Program.SClause (Program.Rule (gat 4) [Program.Pos (gat 5); Program.Pos (gat 3)]);
    Program.SClause (Program.Rule (gat 5) [Program.Pos (gat 4)]);
    Program.SClause (Program.Rule (gat 5) [Program.Pos (gat 2)]);
    Program.SClause (Program.Rule (gat 6) [Program.Neg (gat 5); Program.Pos (gat 3)]);
    Program.SQuery (gat 4); Program.SQuery (gat 5); Program.SEvid (gat 6) false ].
Definition exF : fdump :=
  {| fd_graph := [NAtom 1; NOr [1; 7]%Z; NAtom 3; NAtom 4; NOr [2; 3]%Z; NAtom 6; NAnd [5; 6]%Z; NAnd [-5; 6]%Z];
     fd_wt := [(1%N, 3 # 10); (3%N, 1 # 2); (6%N, 3 # 5)] |}.
Definition excm : cmap := [([1%N; 3%N], 4%N); ([6%N], 9%N)].
Definition exqn : list (gatom * key) := [((4%N, []), Some 2%Z); ((5%N, []), Some 5%Z)].
Definition exen : list (gatom * bool * key) := [((6%N, []), false, Some 8%Z)].
Definition exSK : list nat := [1; 2; 3; 5; 6; 7; 8]%nat.
Definition exlv : list nat := [0; 0; 0; 0; 0; 0; 0; 0; 1]%nat.

Example C01ground_example_accepted : validate_ground exP exF excm exqn exen exSK exlv = true.
Proof. vm_compute. reflexivity. Qed.

(* 6 worlds (3 alternatives of the AD x 2 of the fact) *)
Example C01ground_example_worlds :
  length (gworlds (Program.g_clauses (Program.ground exP)) excm [] a0) = 6%nat.
Proof. vm_compute. reflexivity. Qed.

(* both sides of the corollary, computed: P(p | \+r) = 15/22, P(q | \+r) = 10/11
   (pq shows the canonical fraction of a result; the canonicity proofs inside Qc values are not compared) *)
Definition pq (r : presult) : option Q := match r with POk p => Some (this p) | PInconsistent => None end.
Example C01ground_example_sem :
  map (fun nk : gatom * key => pq (sem_result exP (fst nk))) exqn = [Some (15 # 22); Some (10 # 11)].
Proof. vm_compute. reflexivity. Qed.
Example C01ground_example_pipeline :
  option_map (map pq) (pipeline_all false true (wprog_of exF excm) (qkeys exqn) (ekeys exen))
  = Some [Some (15 # 22); Some (10 # 11)].
Proof. vm_compute. reflexivity. Qed.

(* the corollary instantiated (its hypotheses hold) *)
Example C01ground_example_instance :
  pipeline_all false true (wprog_of exF excm) (qkeys exqn) (ekeys exen)
  = Some (map (fun nk : gatom * key => sem_result exP (fst nk)) exqn).
Proof.
  destruct (break_cycles_m false true (fd_graph exF) (ai_of (wprog_of exF excm)) (qkeys exqn) (ekeys exen))
    as [[[D kqs] kes]|] eqn:E; [|vm_compute in E; discriminate].
  exact (proj1 (C01ground_pipeline_is_Sem false true exP exF excm exqn exen exSK exlv D kqs kes
                 C01ground_example_accepted E)).
Qed.

(* the validator REJECTS wrong formulas: (i) q's disjunction loses the child b; (ii) the cycle is cut
   (p := a only); (iii) the weight of the atom of b is not the program's probability; (iv) the atoms of
   a and b are exchanged in the choice map *)
Example C01ground_example_rejected :
  validate_ground exP {| fd_graph := [NAtom 1; NOr [1; 7]%Z; NAtom 3; NAtom 4; NOr [2]%Z; NAtom 6; NAnd [5; 6]%Z; NAnd [-5; 6]%Z];
                         fd_wt := fd_wt exF |} excm exqn exen exSK exlv = false /\
  validate_ground exP {| fd_graph := [NAtom 1; NOr [1]%Z; NAtom 3; NAtom 4; NOr [2; 3]%Z; NAtom 6; NAnd [5; 6]%Z; NAnd [-5; 6]%Z];
                         fd_wt := fd_wt exF |} excm exqn exen exSK exlv = false /\
  validate_ground exP {| fd_graph := fd_graph exF; fd_wt := [(1%N, 3 # 10); (3%N, 2 # 5); (6%N, 3 # 5)] |}
                  excm exqn exen exSK exlv = false /\
  validate_ground exP exF [([3%N; 1%N], 4%N); ([6%N], 9%N)] exqn exen exSK exlv = false.
Proof. vm_compute. repeat split; reflexivity. Qed.

(* inconsistent evidence on both sides: evidence(c,false) added as a second evidence makes r false ... here:
   evidence r = true and c = false is contradictory (r needs c) *)
Definition exP2 : Program.program :=
  firstn 9%nat exP ++ [Program.SEvid (gat 6) true; Program.SEvid (gat 3) false].
Definition exen2 : list (gatom * bool * key) := [((6%N, []), true, Some 8%Z); ((3%N, []), false, Some 6%Z)].
Example C01ground_example_inconsistent :
  validate_ground exP2 exF excm exqn exen2 exSK exlv = true /\
  Sem.prob exP2 (4%N, []) = Sem.Inconsistent /\
  pipeline_all false true (wprog_of exF excm) (qkeys exqn) (ekeys exen2) = Some [PInconsistent; PInconsistent].
Proof. vm_compute. repeat split; reflexivity. Qed.
