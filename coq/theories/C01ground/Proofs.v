(* C01ground/Proofs.v -- soundness of the grounding validator and its composition with
   C01pipe's end-to-end theorem and Sem's definition of prob. *)
From Coq Require Import ZArith NArith List Bool Arith Lia QArith Qcanon Permutation.
From PL.Sem Require Program Sem SemBasics.
From PL.C09 Require Import BoolGraph Strat CyclesModel.
From PL.C01pipe Require Import Sums PipeModel PipeProofs Cone.
From PL.C01ground Require Import Model.
Import ListNotations.

(* ================================================================== Q -> Qc is a homomorphism *)
Lemma Q2Qc_comp : forall a b : Q, a == b -> Q2Qc a = Q2Qc b.
Proof. intros a b H. apply Q2Qc_eq_iff. exact H. Qed.

Lemma Q2Qc_Qred : forall a : Q, Q2Qc (Qred a) = Q2Qc a.
Proof. intros a. apply Q2Qc_comp. apply Qred_correct. Qed.

Lemma Q2Qc_plus : forall a b : Q, Q2Qc (a + b) = (Q2Qc a + Q2Qc b)%Qc.
Proof. intros a b. unfold Qcplus. apply Q2Qc_comp. simpl. rewrite !Qred_correct. reflexivity. Qed.

Lemma Q2Qc_mult : forall a b : Q, Q2Qc (a * b) = (Q2Qc a * Q2Qc b)%Qc.
Proof. intros a b. unfold Qcmult. apply Q2Qc_comp. simpl. rewrite !Qred_correct. reflexivity. Qed.

Lemma Q2Qc_opp : forall a : Q, Q2Qc (- a) = (- Q2Qc a)%Qc.
Proof. intros a. unfold Qcopp. apply Q2Qc_comp. simpl. rewrite !Qred_correct. reflexivity. Qed.

Lemma Q2Qc_minus : forall a b : Q, Q2Qc (a - b) = (Q2Qc a - Q2Qc b)%Qc.
Proof. intros a b. unfold Qcminus, Qminus. rewrite Q2Qc_plus, Q2Qc_opp. reflexivity. Qed.

Lemma Q2Qc_inv : forall a : Q, Q2Qc (/ a) = (/ Q2Qc a)%Qc.
Proof. intros a. unfold Qcinv. apply Q2Qc_comp. simpl. rewrite !Qred_correct. reflexivity. Qed.

Lemma Q2Qc_div : forall a b : Q, Q2Qc (a / b) = (Q2Qc a / Q2Qc b)%Qc.
Proof. intros a b. unfold Qcdiv, Qdiv. rewrite Q2Qc_mult, Q2Qc_inv. reflexivity. Qed.

Lemma Q2Qc_zero_iff : forall a : Q, Qc_eq_bool (Q2Qc a) 0%Qc = Qeq_bool a 0.
Proof.
  intros a. destruct (Qeq_bool a 0) eqn:E.
  - apply Qeq_bool_iff in E. unfold Qc_eq_bool. destruct (Qc_eq_dec (Q2Qc a) 0%Qc) as [|N]; auto.
    exfalso. apply N. apply Q2Qc_comp. exact E.
  - destruct (Qc_eq_bool (Q2Qc a) 0%Qc) eqn:E2; auto.
    apply Qc_eq_bool_correct in E2. apply Q2Qc_eq_iff in E2.
    apply Qeq_bool_iff in E2. congruence.
Qed.

(* ================================================================== the two sums are the same sum *)
(* the leaves of the common recursion of Sem.wsum / Sums.bsum / Model.vworlds *)
Fixpoint leaves (R : list nrule -> (N -> bool) -> Prop) (cs : list gclause) (cm : cmap)
         (acc : list nrule) (a : N -> bool) : Prop :=
  match cs with
  | [] => R acc a
  | Program.Rule h b :: cs' => leaves R cs' cm ((h, b) :: acc) a
  | Program.AD hs b :: cs' =>
    match cm with
    | [] => False
    | (ids, _) :: cm' =>
      Forall (fun pi : (Q * gatom) * N =>
                leaves R cs' cm' ((snd (fst pi), b) :: acc) (sel N.eqb a ids (Some (snd pi))))
             (combine hs ids)
      /\ leaves R cs' cm' acc (sel N.eqb a ids None)
    end
  end.

Lemma vworlds_leaves : forall chk cs cm acc a,
    vworlds chk cs cm acc a = true -> leaves (fun acc' a' => chk acc' a' = true) cs cm acc a.
Proof.
  intros chk. induction cs as [|c cs IH]; intros cm acc a H; simpl in *; auto.
  destruct c as [h b|hs b]; auto.
  destruct cm as [|[ids x] cm']; [discriminate|].
  apply andb_true_iff in H. destruct H as [H1 H2]. split; auto.
  rewrite forallb_forall in H1. apply Forall_forall. intros pi Hpi. apply IH. apply H1. exact Hpi.
Qed.

Lemma leaves_impl : forall (R R' : list nrule -> (N -> bool) -> Prop),
    (forall acc a, R acc a -> R' acc a) ->
    forall cs cm acc a, leaves R cs cm acc a -> leaves R' cs cm acc a.
Proof.
  intros R R' HR. induction cs as [|c cs IH]; intros cm acc a H; simpl in *; auto.
  destruct c as [h b|hs b]; auto.
  destruct cm as [|[ids x] cm']; auto.
  destruct H as [H1 H2]. split; auto.
  eapply Forall_impl; [|exact H1]. intros pi Hpi. apply IH. exact Hpi.
Qed.

(* leaves = membership in the explicit list of worlds *)
Lemma leaves_gworlds : forall R cs cm acc a,
    leaves R cs cm acc a -> forall w, In w (gworlds cs cm acc a) -> R (fst w) (snd w).
Proof.
  intros R. induction cs as [|c cs IH]; intros cm acc a H w Hw; simpl in *.
  - destruct Hw as [<-|[]]. exact H.
  - destruct c as [h b|hs b]; [eapply IH; eauto|].
    destruct cm as [|[ids x] cm']; [destruct Hw|].
    destruct H as [H1 H2]. apply in_app_or in Hw. destruct Hw as [Hw|Hw].
    + apply in_flat_map in Hw. destruct Hw as [pi [Hpi Hw]].
      rewrite Forall_forall in H1. eapply IH; [apply H1; exact Hpi|exact Hw].
    + eapply IH; eauto.
Qed.

Definition wtf (wt : list (N * Q)) : N -> Qc := fun id => Q2Qc (wlook wt id).

Lemma ad_fold : forall (wt : N -> Qc) (hs : list (Q * gatom)) (ids : list N) (k : gatom -> Q) (K : N -> Qc) (base : Q),
    length hs = length ids ->
    (forall pi, In pi (combine hs ids) ->
                wt (snd pi) = Q2Qc (fst (fst pi)) /\ Q2Qc (k (snd (fst pi))) = K (snd pi)) ->
    Q2Qc (fold_right (fun (ph : Q * gatom) s => (fst ph * k (snd ph) + s)%Q) base hs)
    = (qsum (map (fun x => wt x * K x) ids) + Q2Qc base)%Qc.
Proof.
  intros wt. induction hs as [|ph hs IH]; intros ids k K base L H; destruct ids as [|id ids]; try discriminate; simpl.
  - ring.
  - rewrite Q2Qc_plus, Q2Qc_mult. rewrite (IH ids k K base); [|simpl in L; lia|intros pi Hpi; apply H; right; exact Hpi].
    destruct (H (ph, id)) as [E1 E2]; [left; reflexivity|]. simpl in E1, E2. rewrite E1, E2. ring.
Qed.

Lemma sum_p_wtsum : forall (wt : N -> Qc) (hs : list (Q * gatom)) (ids : list N),
    length hs = length ids ->
    (forall pi, In pi (combine hs ids) -> wt (snd pi) = Q2Qc (fst (fst pi))) ->
    Q2Qc (Program.sum_p hs) = wtsum wt ids.
Proof.
  intros wt. unfold wtsum, Program.sum_p.
  induction hs as [|ph hs IH]; intros ids L H; destruct ids as [|id ids]; try discriminate; simpl.
  - reflexivity.
  - rewrite Q2Qc_plus. rewrite (IH ids); [|simpl in L; lia|intros pi Hpi; apply H; right; exact Hpi].
    assert (E := H (ph, id) (or_introl eq_refl)). simpl in E. rewrite E. reflexivity.
Qed.

Lemma shapeb_AD : forall wt hs b cs ids x cm,
    shapeb wt (Program.AD hs b :: cs) ((ids, x) :: cm) = true ->
    length hs = length ids /\
    (forall pi, In pi (combine hs ids) -> wtf wt (snd pi) = Q2Qc (fst (fst pi))) /\
    shapeb wt cs cm = true.
Proof.
  intros wt hs b cs ids x cm H. simpl in H.
  apply andb_true_iff in H. destruct H as [H H3]. apply andb_true_iff in H. destruct H as [H1 H2].
  split; [apply Nat.eqb_eq; exact H1|]. split; [|exact H3].
  intros pi Hpi. rewrite forallb_forall in H2. apply H2 in Hpi. apply Qeq_bool_iff in Hpi.
  unfold wtf. apply Q2Qc_comp. exact Hpi.
Qed.

(* THE ALIGNMENT: Sem's sum over total choices (in Q) and C01pipe's block sum over atom
   assignments (in Qc) coincide whenever the integrands coincide on every world *)
Lemma wsum_bsum : forall wt (Fq : list nrule -> Q) (Kc : (N -> bool) -> Qc) cs cm acc a,
    shapeb wt cs cm = true ->
    leaves (fun acc' a' => Q2Qc (Fq acc') = Kc a') cs cm acc a ->
    Q2Qc (Sem.wsum gatom Fq cs acc) = bsum N.eqb (wtf wt) (map fst cm) Kc a.
Proof.
  intros wt Fq Kc. induction cs as [|c cs IH]; intros cm acc a SH LV.
  - destruct cm; [|discriminate]. simpl in *. exact LV.
  - destruct c as [h b|hs b].
    + simpl in *. apply IH; auto.
    + destruct cm as [|[ids x] cm']; [discriminate|].
      destruct (shapeb_AD _ _ _ _ _ _ _ SH) as [L [W SH']].
      simpl in LV. destruct LV as [LV1 LV2]. rewrite Forall_forall in LV1.
      cbn [Sem.wsum map fst bsum]. unfold Sem.ad_sum. rewrite Q2Qc_Qred.
      unfold bsum1.
      rewrite (ad_fold (wtf wt) hs ids (fun h => Sem.wsum gatom Fq cs ((h, b) :: acc))
                       (fun id => bsum N.eqb (wtf wt) (map fst cm') Kc (sel N.eqb a ids (Some id)))); [|exact L|].
      * rewrite Q2Qc_mult, Q2Qc_minus. rewrite (sum_p_wtsum (wtf wt) hs ids L W).
        rewrite (IH cm' acc (sel N.eqb a ids None) SH' LV2). reflexivity.
      * intros pi Hpi. split; [apply W; exact Hpi|]. apply IH; auto.
Qed.

(* ================================================================== one world *)
Lemma key_val_ext : forall (v w : nat -> bool) k, (forall j, v j = w j) -> key_val v k = key_val w k.
Proof. intros v w [c|] H; simpl; auto. destruct c; simpl; auto. now rewrite H. Qed.

Lemma key_val_kneg : forall v k, key_val v (kneg k) = negb (key_val v k).
Proof.
  intros v [c|]; simpl; auto. destruct c as [|p|p]; simpl; auto.
  now rewrite negb_involutive.
Qed.

Lemma leaf_ok_spec : forall g U names acc a,
    leaf_ok g U names acc a = true ->
    exists m, Sem.wfm gatom geqb acc U = Some m /\
              is_model g a (vget (sem g a)) /\
              forall nk, In nk names ->
                         Sem.mem gatom geqb (fst nk) (fst m) = key_val (vget (sem g a)) (snd nk).
Proof.
  intros g U names acc a H. unfold leaf_ok in H.
  destruct (Sem.wfm gatom geqb acc U) as [m|]; [|discriminate].
  apply andb_true_iff in H. destruct H as [H1 H2].
  exists m. split; auto. split; [apply is_modelb_sound; exact H1|].
  intros nk Hnk. rewrite forallb_forall in H2. apply H2 in Hnk. apply eqb_prop in Hnk. exact Hnk.
Qed.

(* SOUNDNESS OF THE ENUMERATION (no size bound): in every world, every named key of F has, in the
   stable model of F's graph under the assignment the world induces, the truth value the named atom
   has in Sem's well-founded model of the world's normal program *)
Lemma vworlds_sound : forall g U names cs cm acc0 a0',
    stratified g ->
    vworlds (leaf_ok g U names) cs cm acc0 a0' = true ->
    forall w, In w (gworlds cs cm acc0 a0') ->
    exists m, Sem.wfm gatom geqb (fst w) U = Some m /\
      forall s, is_model g (snd w) s ->
      forall nk, In nk names -> key_val s (snd nk) = Sem.mem gatom geqb (fst nk) (fst m).
Proof.
  intros g U names cs cm acc0 a0' ST H w Hw.
  apply vworlds_leaves in H.
  assert (L := leaves_gworlds _ _ _ _ _ H w Hw). simpl in L.
  destruct (leaf_ok_spec _ _ _ _ _ L) as [m [E [IM V]]].
  exists m. split; auto. intros s Hs nk Hnk.
  rewrite (V nk Hnk). apply key_val_ext. intros j.
  apply (stratified_model_unique g (snd w)); auto.
Qed.

Lemma ev_holds : forall (s : nat -> bool) (T : list gatom) (en : list (gatom * bool * key)),
    (forall x, In x en -> Sem.mem gatom geqb (fst (fst x)) T = key_val s (snd x)) ->
    forallb (key_val s) (ekeys en) = Sem.holds gatom geqb T (map fst en).
Proof.
  intros s T. induction en as [|x en IH]; intros H; simpl; auto.
  rewrite IH by (intros y Hy; apply H; right; exact Hy). f_equal.
  assert (E := H x (or_introl eq_refl)). destruct x as [[n v] k]. simpl in *.
  unfold ekey. simpl. destruct v.
  - rewrite E. destruct (key_val s k); reflexivity.
  - rewrite key_val_kneg, E. destruct (key_val s k); reflexivity.
Qed.

Lemma b2q_Q2Qc : forall b, Q2Qc (Sem.b2q b) = Sums.b2q b.
Proof. intros [|]; reflexivity. Qed.

Lemma leaf_indicators : forall g U qn en (M : (N -> bool) -> nat -> bool) acc a,
    stratified g -> (forall a, is_model g a (M a)) ->
    leaf_ok g U (all_names qn en) acc a = true ->
    Q2Qc (Sem.ind_true gatom geqb U (fun T => Sem.holds gatom geqb T (map fst en)) acc)
    = Sums.b2q (PipeModel.holds (M a) (ekeys en)) /\
    forall nk, In nk qn ->
    Q2Qc (Sem.ind_true gatom geqb U (fun T => Sem.mem gatom geqb (fst nk) T && Sem.holds gatom geqb T (map fst en)) acc)
    = Sums.b2q (PipeModel.holds (M a) (snd nk :: ekeys en)).
Proof.
  intros g U qn en M acc a ST HM L.
  destruct (leaf_ok_spec _ _ _ _ _ L) as [m [E [IM V]]].
  assert (EQ : forall j, M a j = vget (sem g a) j).
  { intros j. apply (stratified_model_unique g a); auto. }
  assert (EV : forallb (key_val (M a)) (ekeys en) = Sem.holds gatom geqb (fst m) (map fst en)).
  { apply ev_holds. intros x Hx.
    assert (VX := V (fst (fst x), snd x)). simpl in VX. rewrite VX.
    - symmetry. apply key_val_ext. exact EQ.
    - unfold all_names. apply in_or_app. right. apply in_map_iff. exists x. split; auto. }
  unfold Sem.ind_true. rewrite E. rewrite !b2q_Q2Qc. unfold PipeModel.holds. split.
  - rewrite EV. reflexivity.
  - intros nk Hnk. simpl. rewrite EV.
    rewrite (V nk) by (unfold all_names; apply in_or_app; left; exact Hnk).
    rewrite (key_val_ext (M a) (vget (sem g a)) (snd nk) EQ). rewrite ?b2q_Q2Qc. reflexivity.
Qed.

(* ================================================================== checkers *)
Lemma evid_eqb_eq : forall x y, evid_eqb x y = true -> x = y.
Proof.
  induction x as [|[a v] x IH]; intros [|[b w] y] H; simpl in H; try discriminate; auto.
  apply andb_true_iff in H. destruct H as [H H3]. apply andb_true_iff in H. destruct H as [H1 H2].
  apply (proj1 (SemBasics.gatom_eqb_spec a b)) in H1. apply eqb_prop in H2. subst. f_equal. apply IH. exact H3.
Qed.

Lemma blocks_wprog_of : forall F cm, blocks (wprog_of F cm) = cm.
Proof. intros. unfold blocks. simpl. apply app_nil_r. Qed.

Lemma wfxb_sound : forall F cm, wfxb cm = true -> wf_src_x (wprog_of F cm).
Proof.
  intros F cm H. unfold wfxb in H.
  apply andb_true_iff in H. destruct H as [H H3]. apply andb_true_iff in H. destruct H as [H1 H2].
  constructor; rewrite ?blocks_wprog_of; simpl.
  - apply nodupb_sound; auto.
  - apply nodupb_sound; auto.
  - intros g Hg I. rewrite forallb_forall in H3. apply H3 in Hg.
    apply negb_true_iff in Hg. apply existsb_Neqb_In in I. congruence.
Qed.

Lemma coneb_sound : forall P roots SK, coneb P roots SK = true -> cone_ok P roots SK.
Proof. intros P roots SK H. apply cone_okb_sound. exact H. Qed.

(* ================================================================== composition *)
Record accepted (P : Program.program) (F : fdump) (cm : cmap)
       (qn : list (gatom * key)) (en : list (gatom * bool * key)) (SK : list nat) : Prop := {
  acc_evid : map fst en = Program.g_evid (Program.ground P);
  acc_shape : shapeb (fd_wt F) (Program.g_clauses (Program.ground P)) cm = true;
  acc_wf : wf_src_x (wprog_of F cm);
  acc_cone : cone_ok (wprog_of F cm) (qkeys qn ++ ekeys en) SK;
  acc_strat : stratified (fd_graph F);
  acc_fuel : Qeq_bool (Sem.wsum gatom (Sem.ind_fuel gatom geqb (Sem.universe gatom geqb (Program.g_clauses (Program.ground P))))
                                 (Program.g_clauses (Program.ground P)) []) 0 = true;
  acc_undef : Qeq_bool (Sem.wsum gatom (Sem.ind_undef gatom geqb (Sem.universe gatom geqb (Program.g_clauses (Program.ground P))) (fun _ => true))
                                  (Program.g_clauses (Program.ground P)) []) 0 = true;
  acc_worlds : vworlds (leaf_ok (fd_graph F) (Sem.universe gatom geqb (Program.g_clauses (Program.ground P))) (all_names qn en))
                       (Program.g_clauses (Program.ground P)) cm [] a0 = true }.

Lemma validate_accepted : forall P F cm qn en SK lv,
    validate_ground P F cm qn en SK lv = true -> accepted P F cm qn en SK.
Proof.
  intros P F cm qn en SK lv H. unfold validate_ground in H.
  repeat (apply andb_true_iff in H; let X := fresh "C" in destruct H as [H X]).
  constructor; auto.
  - apply evid_eqb_eq; auto.
  - apply wfxb_sound; auto.
  - apply coneb_sound; auto.
  - eapply stratb_sound; eauto.
Qed.

Theorem validate_sound : forall P F cm qn en SK lv,
    validate_ground P F cm qn en SK lv = true ->
    let cs := Program.g_clauses (Program.ground P) in
    let U := Sem.universe gatom geqb cs in
    forall w, In w (gworlds cs cm [] a0) ->
    exists m, Sem.wfm gatom geqb (fst w) U = Some m /\
      forall s, is_model (fd_graph F) (snd w) s ->
      forall nk, In nk (all_names qn en) -> key_val s (snd nk) = Sem.mem gatom geqb (fst nk) (fst m).
Proof.
  intros P F cm qn en SK lv H cs U w Hw. apply validate_accepted in H. destruct H.
  eapply vworlds_sound; eauto.
Qed.

(* the worlds enumerated are Sem's worlds: same normal programs, in the same order *)
Lemma gworlds_worlds : forall wt cs cm acc a p,
    shapeb wt cs cm = true ->
    map fst (gworlds cs cm acc a) = map snd (Sem.worlds gatom cs acc p).
Proof.
  intros wt. induction cs as [|c cs IH]; intros cm acc a p SH.
  - reflexivity.
  - destruct c as [h b|hs b].
    + simpl in *. apply IH; auto.
    + destruct cm as [|[ids x] cm']; [discriminate|].
      destruct (shapeb_AD _ _ _ _ _ _ _ SH) as [L [_ SH']].
      cbn [gworlds Sem.worlds]. rewrite !map_app. f_equal; [|apply IH; auto].
      assert (HH : forall (A : N -> N -> bool) (hs : list (Q * gatom)) (ids : list N), length hs = length ids ->
                 map fst (flat_map (fun pi : (Q * gatom) * N => gworlds cs cm' ((snd (fst pi), b) :: acc) (A (snd pi))) (combine hs ids))
                 = map snd (flat_map (fun ph : Q * gatom => Sem.worlds gatom cs ((snd ph, b) :: acc) (p * fst ph)%Q) hs)).
      { intros A. induction hs0 as [|ph hs0 IHh]; intros [|id ids0] L0; try discriminate; auto.
        cbn [combine flat_map]. rewrite !map_app. f_equal.
        - cbn [fst snd]. apply IH; auto.
        - apply IHh. simpl in L0. lia. }
      apply (HH (fun id => sel N.eqb a ids (Some id)) hs ids L).
Qed.

Section Main.
Variables (tc um : bool) (P : Program.program) (F : fdump) (cm : cmap)
          (qn : list (gatom * key)) (en : list (gatom * bool * key)) (SK : list nat).
Hypothesis ACC : accepted P F cm qn en SK.
Let G := Program.ground P.
Let cs := Program.g_clauses G.
Let U := Sem.universe gatom geqb cs.
Let W := wprog_of F cm.

Lemma world_sum_wsum : forall (Fq : list nrule -> Q) (Kc : (N -> bool) -> Qc),
    leaves (fun acc a => Q2Qc (Fq acc) = Kc a) cs cm [] a0 ->
    world_sum W Kc = Q2Qc (Sem.wsum gatom Fq cs []).
Proof.
  intros Fq Kc LV. unfold world_sum. unfold W. rewrite blocks_wprog_of.
  symmetry. apply (wsum_bsum (fd_wt F)); auto. apply ACC.
Qed.

Lemma accepted_result : forall (M : (N -> bool) -> nat -> bool),
    (forall a, is_model (fd_graph F) a (M a)) ->
    forall nk, In nk qn ->
    world_prob W M (snd nk) (ekeys en) = sem_result P (fst nk) /\ sem_defined P (fst nk).
Proof.
  intros M HM nk Hnk. destruct ACC as [AE ASH AWF ACO AST AF AU AW].
  fold G in AE, ASH, AF, AU, AW. fold cs in ASH, AF, AU, AW. fold U in AF, AU, AW.
  apply vworlds_leaves in AW.
  assert (S1 : world_sum W (fun a => Sums.b2q (PipeModel.holds (M a) (ekeys en)))
               = Q2Qc (Sem.wsum gatom (Sem.ind_true gatom geqb U (fun T => Sem.holds gatom geqb T (map fst en))) cs [])).
  { apply world_sum_wsum. eapply leaves_impl; [|exact AW]. intros acc a L. cbv beta in L.
    apply (leaf_indicators (fd_graph F) U qn en M acc a AST HM L). }
  assert (S2 : world_sum W (fun a => Sums.b2q (PipeModel.holds (M a) (snd nk :: ekeys en)))
               = Q2Qc (Sem.wsum gatom (Sem.ind_true gatom geqb U
                        (fun T => Sem.mem gatom geqb (fst nk) T && Sem.holds gatom geqb T (map fst en))) cs [])).
  { apply world_sum_wsum. eapply leaves_impl; [|exact AW]. intros acc a L. cbv beta in L.
    apply (leaf_indicators (fd_graph F) U qn en M acc a AST HM L). exact Hnk. }
  unfold world_prob, sem_result, sem_defined, Sem.prob, Sem.gprob, Sem.prob_gen.
  fold G. fold cs. fold geqb. fold gatom. fold U. rewrite AF, AU. cbn [negb].
  rewrite <- AE. rewrite S1, S2. unfold normalize. rewrite Q2Qc_zero_iff.
  match goal with |- context [Qeq_bool ?x 0] => destruct (Qeq_bool x 0) end; cbv iota.
  - split; [reflexivity|exact I].
  - split; [|exact I]. f_equal. rewrite Q2Qc_Qred, Q2Qc_div. reflexivity.
Qed.

Theorem accepted_pipeline : forall D kqs kes,
    break_cycles_m tc um (fd_graph F) (ai_of W) (qkeys qn) (ekeys en) = Some (D, kqs, kes) ->
    pipeline_all tc um W (qkeys qn) (ekeys en) = Some (map (fun nk => sem_result P (fst nk)) qn) /\
    forall nk, In nk qn -> sem_defined P (fst nk).
Proof.
  intros D kqs kes BC.
  destruct (stratified_model_fun (fd_graph F) (acc_strat _ _ _ _ _ _ ACC)) as [M HM].
  split.
  - rewrite (pipeline_all_correct_cone tc um W (qkeys qn) (ekeys en) M SK D kqs kes); auto; try apply ACC.
    f_equal. unfold qkeys. rewrite map_map. apply map_ext_in. intros nk Hnk.
    apply (accepted_result M HM nk Hnk).
  - intros nk Hnk. apply (accepted_result M HM nk Hnk).
Qed.
End Main.

(* ================================================================== the corollaries, from the boolean verdict *)
Theorem validate_world_prob : forall P F cm qn en SK lv (M : (N -> bool) -> nat -> bool),
    validate_ground P F cm qn en SK lv = true ->
    (forall a, is_model (fd_graph F) a (M a)) ->
    forall nk, In nk qn ->
    world_prob (wprog_of F cm) M (snd nk) (ekeys en) = sem_result P (fst nk) /\ sem_defined P (fst nk).
Proof.
  intros P F cm qn en SK lv M H HM nk Hnk.
  apply (accepted_result P F cm qn en SK (validate_accepted _ _ _ _ _ _ _ H) M HM nk Hnk).
Qed.

Theorem validate_pipeline : forall tc um P F cm qn en SK lv D kqs kes,
    validate_ground P F cm qn en SK lv = true ->
    break_cycles_m tc um (fd_graph F) (ai_of (wprog_of F cm)) (qkeys qn) (ekeys en) = Some (D, kqs, kes) ->
    pipeline_all tc um (wprog_of F cm) (qkeys qn) (ekeys en) = Some (map (fun nk => sem_result P (fst nk)) qn) /\
    forall nk, In nk qn -> sem_defined P (fst nk).
Proof.
  intros tc um P F cm qn en SK lv D kqs kes H BC.
  apply (accepted_pipeline tc um P F cm qn en SK (validate_accepted _ _ _ _ _ _ _ H) D kqs kes BC).
Qed.

Theorem validate_side_conditions : forall P F cm qn en SK lv,
    validate_ground P F cm qn en SK lv = true ->
    wf_src_x (wprog_of F cm) /\ cone_ok (wprog_of F cm) (qkeys qn ++ ekeys en) SK /\ stratified (fd_graph F) /\
    shapeb (fd_wt F) (Program.g_clauses (Program.ground P)) cm = true /\
    map fst en = Program.g_evid (Program.ground P).
Proof.
  intros P F cm qn en SK lv H. apply validate_accepted in H. destruct H. auto.
Qed.
