(* C32 — select_weighted / select_uniform define the documented distribution.
   Statements only.  `lib_select_clauses` is GENERATED from problog/library/lists.pl on every run;
   `select_weighted`, `select_uniform`, `sw` (ModelSelectW.v) mirror those clauses one to one and
   attach to every answer the conjunction of sw_p facts its derivation uses. *)
From Coq Require Import ZArith QArith List Bool NArith Sorted.
From PL.C32 Require Import ModelClauses GenLibLists ModelSelectW ProofsSelectW ProofsWorldSum.
Import ListNotations.
Open Scope Q_scope.

(* structural link: the clauses parsed from the current lists.pl are exactly the ones the process
   model was read from (an edited clause breaks this obligation) *)
Theorem C32_clauses_are_the_modelled_ones : lib_select_clauses = expected_select_clauses.
Proof. vm_compute. reflexivity. Qed.
Print Assumptions C32_clauses_are_the_modelled_ones.

(* for every list of positive weights of length >= 1 (no bound): the i-th answer is derived with
   probability w_i / sum(w)   (telescoping product of the per-position Bernoulli facts) *)
Theorem C32_weighted :
  forall id ws vs, length ws = length vs -> all_pos ws -> ws <> [] ->
    Forall2 Qeq (position_probs id ws vs) (map (fun w => w / sumQ ws) ws).
Proof. exact select_weighted_probs. Qed.
Print Assumptions C32_weighted.

(* the i-th answer returns the i-th value and the list minus position i, in the original order *)
Theorem C32_value_and_rest_in_order :
  forall id ws vs, length ws = length vs -> all_pos ws -> ws <> [] ->
    map outcome (select_weighted id ws vs)
    = map (fun i => (nth i vs 0%N, firstn i vs ++ skipn (S i) vs)) (seq 0 (length vs)).
Proof. exact select_weighted_outcomes. Qed.
Print Assumptions C32_value_and_rest_in_order.

Theorem C32_probabilities_sum_to_one :
  forall id ws vs, length ws = length vs -> all_pos ws -> ws <> [] ->
    sumQ (position_probs id ws vs) == 1.
Proof. exact position_probs_sum_to_one. Qed.
Print Assumptions C32_probabilities_sum_to_one.

(* in EVERY truth assignment of the probabilistic facts exactly one position is selected *)
Theorem C32_exactly_one_per_world :
  forall id ws vs w, length ws = length vs -> all_pos ws -> ws <> [] ->
    length (selected w (select_weighted id ws vs)) = 1%nat.
Proof. exact select_weighted_exactly_one. Qed.
Print Assumptions C32_exactly_one_per_world.

(* two calls with the same identifier (and arguments) read the same facts, hence make the same
   choice in every world *)
Theorem C32_same_id_same_choice :
  forall id ws vs w a1 a2, length ws = length vs -> all_pos ws -> ws <> [] ->
    In a1 (selected w (select_weighted id ws vs)) -> In a2 (selected w (select_weighted id ws vs)) -> a1 = a2.
Proof. exact same_id_same_choice. Qed.
Print Assumptions C32_same_id_same_choice.

(* the facts of one derivation are pairwise different ground atoms, even with equal elements and
   equal weights: their XT arguments have strictly decreasing lengths *)
Theorem C32_facts_distinct :
  forall id ws vs a, In a (select_weighted id ws vs) ->
    StronglySorted (fun l1 l2 => (length (k_xt (fst l2)) < length (k_xt (fst l1)))%nat) (a_expl a).
Proof. exact select_weighted_facts_distinct. Qed.
Print Assumptions C32_facts_distinct.

(* calls with different identifiers use disjoint sets of (independent) facts *)
Theorem C32_different_ids_disjoint_facts :
  forall id1 id2 ws1 vs1 ws2 vs2 a1 a2 l1 l2, id1 <> id2 ->
    In a1 (select_weighted id1 ws1 vs1) -> In l1 (a_expl a1) ->
    In a2 (select_weighted id2 ws2 vs2) -> In l2 (a_expl a2) ->
    key_eqb (fst l1) (fst l2) = false.
Proof. exact select_weighted_ids_disjoint. Qed.
Print Assumptions C32_different_ids_disjoint_facts.

(* select_uniform: every position has probability 1/n *)
Theorem C32_uniform :
  forall id vs, vs <> [] ->
    Forall (fun q => q == 1 / inject_Z (Z.of_nat (length vs)))
           (map (fun a => expl_prob (a_expl a)) (select_uniform id vs)).
Proof. exact select_uniform_probs. Qed.
Print Assumptions C32_uniform.

(* ---- the world semantics (distribution semantics over the independent sw_p facts) ----
   world_prob d = total weight of the truth assignments of the facts occurring in d that satisfy the DNF d.
   General statement: a DNF whose conjunctions are over pairwise DIFFERENT facts and are pairwise mutually
   exclusive (in every truth assignment at most one holds) has probability = sum of the products. *)
Theorem C32_exclusive_dnf_world_sum :
  forall d : list expl,
    (forall e, In e d -> StronglySorted (fun l1 l2 => key_eqb (fst l1) (fst l2) = false) e) ->
    (forall w, (length (filter (sat_expl w) d) <= 1)%nat) ->
    world_prob d == sumQ (map expl_prob d).
Proof. exact world_prob_exclusive. Qed.
Print Assumptions C32_exclusive_dnf_world_sum.

(* for the explanations the model attaches to the answers of ONE call, for every ground answer (v, r):
   the exact possible-world sum equals the sum of the products along the explanations
   (previously only evaluated per case by vm_compute) *)
Theorem C32_world_sum_is_product_sum :
  forall id ws vs v r, length ws = length vs -> all_pos ws -> ws <> [] ->
    world_prob (answer_dnf (select_weighted id ws vs) v r)
    == sumQ (map expl_prob (answer_dnf (select_weighted id ws vs) v r)).
Proof. exact select_weighted_world_sum. Qed.
Print Assumptions C32_world_sum_is_product_sum.

(* C32_weighted at the level of the world semantics: the probability that
   select_weighted(id, ws, vs, v, r) succeeds for the ground answer (v, r) is the sum of w_i / sum(w)
   over the positions i whose (value, rest) is (v, r) - one position when the elements differ *)
Theorem C32_weighted_world :
  forall id ws vs v r, length ws = length vs -> all_pos ws -> ws <> [] ->
    world_prob (answer_dnf (select_weighted id ws vs) v r) ==
    sumQ (map (fun i => nth i ws 0 / sumQ ws)
              (filter (fun i => N.eqb (nth i vs 0%N) v && listN_eqb (firstn i vs ++ skipn (S i) vs) r)
                      (seq 0 (length vs)))).
Proof. exact select_weighted_world_weighted. Qed.
Print Assumptions C32_weighted_world.

(* select_uniform at the level of the world semantics: (number of positions producing the answer) / n *)
Theorem C32_uniform_world :
  forall id vs v r, vs <> [] ->
    world_prob (answer_dnf (select_uniform id vs) v r) ==
    inject_Z (Z.of_nat (length (filter (fun i => N.eqb (nth i vs 0%N) v && listN_eqb (firstn i vs ++ skipn (S i) vs) r)
                                       (seq 0 (length vs)))))
    / inject_Z (Z.of_nat (length vs)).
Proof. exact select_uniform_world. Qed.
Print Assumptions C32_uniform_world.

(* Still evaluated per case only (vm_compute in the tie): the world sums of JOINT queries of two calls
   (and_dnf: same identifier / different identifiers). *)

(* non-vacuity *)
Example C32_example_hypotheses :
  length [1; 2; 3] = length [10; 11; 10]%N /\ all_pos [1; 2; 3] /\ [1; 2; 3] <> [].
Proof. split; [reflexivity|]. split; [repeat constructor | discriminate]. Qed.
Example C32_example_world_sum :
  Qred (world_prob (answer_dnf (select_weighted 7%N [1; 2; 3] [10; 11; 10]%N) 10%N [10; 11]%N)) = 1 # 2.
Proof. vm_compute. reflexivity. Qed.
(* two positions (0 and 1, equal elements) produce the same ground answer (10, [10; 11]): its world
   probability is (1 + 2) / 6, obtained from the general theorem (not by enumerating worlds) *)
Example C32_example_world_weighted :
  world_prob (answer_dnf (select_weighted 7%N [1; 2; 3] [10; 10; 11]%N) 10%N [10; 11]%N) == 1 # 2.
Proof.
  rewrite C32_weighted_world; [vm_compute; reflexivity | reflexivity | repeat constructor | discriminate].
Qed.
