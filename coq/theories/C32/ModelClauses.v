(* C32 — a minimal clause syntax in which gen/c32_liblists.py emits the library clauses. *)
From Coq Require Import ZArith List String.
Import ListNotations.

Inductive pterm :=
| V (n : nat)                      (* variable, numbered by first occurrence in its clause *)
| I (z : Z)                        (* integer constant *)
| A (f : string) (args : list pterm).  (* atom / compound; "," is conjunction, "\+" negation, "." list cell *)

Record clause := mkClause {
  c_prob : option pterm;           (* P::head *)
  c_head : pterm;
  c_body : option pterm;
}.
