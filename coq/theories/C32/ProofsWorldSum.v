(* C32 — the exact possible-world sum of the explanation DNF of one select_weighted call equals
   the sum of the products along its explanations.

   General part (any DNF over independent facts):
     - a conjunction of literals over pairwise DIFFERENT facts has world probability = product
       of its literal probabilities (expl_world_sum);
     - a DNF whose explanations are pairwise mutually exclusive (in every world at most one
       holds) has world probability = sum over its explanations (world_prob_exclusive).
   Specific part: the explanations the model attaches to the answers of one call satisfy both
   hypotheses (ProofsSelectW: sw_expl_sorted, sw_exactly_one). *)
From Coq Require Import ZArith QArith Qfield List Bool NArith Lia Sorted.
From PL.C32 Require Import ModelClauses ModelSelectW ProofsSelectW.
Import ListNotations.
Open Scope Q_scope.

(* ------------------------------------------------------------------ key_eqb is an equivalence *)
Lemma listQ_eqb_refl a : listQ_eqb a a = true.
Proof. induction a as [|x a IH]; cbn; auto. rewrite IH, andb_true_r. apply Qeq_bool_refl. Qed.
Lemma listQ_eqb_sym a : forall b, listQ_eqb a b = true -> listQ_eqb b a = true.
Proof.
  induction a as [|x a IH]; destruct b as [|y b]; cbn; auto. intros H.
  apply andb_true_iff in H. destruct H as [H1 H2]. rewrite (Qeq_bool_sym _ _ H1), (IH _ H2). reflexivity.
Qed.
Lemma listQ_eqb_trans a : forall b c, listQ_eqb a b = true -> listQ_eqb b c = true -> listQ_eqb a c = true.
Proof.
  induction a as [|x a IH]; destruct b as [|y b]; destruct c as [|z c]; cbn; auto; try discriminate. intros H H'.
  apply andb_true_iff in H. destruct H as [H1 H2]. apply andb_true_iff in H'. destruct H' as [H1' H2'].
  rewrite (Qeq_bool_trans _ _ _ H1 H1'), (IH _ _ H2 H2'). reflexivity.
Qed.
Lemma listN_eqb_eq a : forall b, listN_eqb a b = true <-> a = b.
Proof.
  induction a as [|x a IH]; destruct b as [|y b]; cbn; split; auto; try discriminate.
  - intros H. apply andb_true_iff in H. destruct H as [H1 H2]. apply N.eqb_eq in H1. apply IH in H2. congruence.
  - intros H. inversion H; subst. rewrite N.eqb_refl. cbn. apply IH. reflexivity.
Qed.

Lemma key_eqb_spec a b : key_eqb a b = true <->
  k_id a = k_id b /\ Qeq_bool (k_w1 a) (k_w1 b) = true /\ listQ_eqb (k_wt a) (k_wt b) = true /\
  k_x a = k_x b /\ k_xt a = k_xt b.
Proof.
  unfold key_eqb. rewrite !andb_true_iff, !N.eqb_eq, listN_eqb_eq. tauto.
Qed.
Lemma key_eqb_refl a : key_eqb a a = true.
Proof. apply key_eqb_spec. repeat split; auto. apply Qeq_bool_refl. apply listQ_eqb_refl. Qed.
Lemma key_eqb_sym a b : key_eqb a b = true -> key_eqb b a = true.
Proof.
  rewrite !key_eqb_spec. intros (H1 & H2 & H3 & H4 & H5). repeat split; auto.
  apply Qeq_bool_sym; auto. apply listQ_eqb_sym; auto.
Qed.
Lemma key_eqb_trans a b c : key_eqb a b = true -> key_eqb b c = true -> key_eqb a c = true.
Proof.
  rewrite !key_eqb_spec. intros (H1 & H2 & H3 & H4 & H5) (G1 & G2 & G3 & G4 & G5). repeat split; try congruence.
  eapply Qeq_bool_trans; eauto. eapply listQ_eqb_trans; eauto.
Qed.
Lemma key_eqb_w1 a b : key_eqb a b = true -> k_w1 a == k_w1 b.
Proof. rewrite key_eqb_spec. intros (_ & H & _). apply Qeq_bool_iff. exact H. Qed.
Lemma key_eqb_false_sym a b : key_eqb a b = false -> key_eqb b a = false.
Proof. intros H. destruct (key_eqb b a) eqn:E; auto. apply key_eqb_sym in E. congruence. Qed.

Lemma key_mem_In k ks : In k ks -> key_mem k ks = true.
Proof.
  induction ks as [|k' r IH]; cbn; [tauto|]. intros [-> | H].
  - rewrite key_eqb_refl. reflexivity.
  - rewrite IH by assumption. apply orb_true_r.
Qed.
Lemma key_mem_eqb k k' ks : key_eqb k k' = true -> key_mem k' ks = true -> key_mem k ks = true.
Proof.
  intros E. induction ks as [|x r IH]; cbn; auto. intros H. apply orb_true_iff in H. apply orb_true_iff.
  destruct H as [H | H]; [left | right; auto]. eapply key_eqb_trans; eauto.
Qed.
Lemma key_mem_dedup k ks : key_mem k ks = true -> key_mem k (dedup ks) = true.
Proof.
  induction ks as [|x r IH]; cbn; auto. intros H. apply orb_true_iff in H.
  destruct (key_mem x r) eqn:Ex.
  - destruct H as [H | H]; auto. apply IH. eapply key_mem_eqb; eauto.
  - cbn. apply orb_true_iff. destruct H as [H | H]; auto.
Qed.

Lemma filter_none_on {A} (f : A -> bool) l : (forall x, In x l -> f x = false) -> filter f l = [].
Proof.
  induction l as [|a l IH]; intros H; [reflexivity|]. cbn. rewrite H by (left; reflexivity).
  apply IH. intros x Hx. apply H. right. exact Hx.
Qed.

(* ------------------------------------------------------------------ weighted sums over worlds *)
Definition ind (b : bool) : Q := if b then 1 else 0.
Definition lsum (f : list (key * bool) -> Q) (L : list (list (key * bool) * Q)) : Q :=
  fold_right (fun wq acc => snd wq * f (fst wq) + acc) 0 L.

Lemma ind_andb a b : ind (a && b) == ind a * ind b.
Proof. destruct a, b; cbn; ring. Qed.

Lemma lsum_ext f g L : (forall w, f w == g w) -> lsum f L == lsum g L.
Proof. intros H. unfold lsum. induction L as [|wq L IH]; cbn [fold_right]; [reflexivity|]. rewrite IH, H. reflexivity. Qed.
Lemma lsum_plus f g L : lsum (fun w => f w + g w) L == lsum f L + lsum g L.
Proof. unfold lsum. induction L as [|wq L IH]; cbn [fold_right]; [ring|]. rewrite IH. ring. Qed.
Lemma lsum_scale c f L : lsum (fun w => c * f w) L == c * lsum f L.
Proof. unfold lsum. induction L as [|wq L IH]; cbn [fold_right]; [ring|]. rewrite IH. ring. Qed.
Lemma lsum_zero L : lsum (fun _ => 0) L == 0.
Proof. unfold lsum. induction L as [|wq L IH]; cbn [fold_right]; [reflexivity|]. rewrite IH. ring. Qed.

Lemma world_prob_lsum d : world_prob d == lsum (fun w => ind (sat_dnf w d)) (worlds (keys_of d)).
Proof.
  unfold world_prob, lsum. induction (worlds (keys_of d)) as [|wq L IH]; cbn [fold_right]; [reflexivity|].
  destruct (sat_dnf (fst wq) d); cbn [ind]; rewrite IH; ring.
Qed.

Lemma lsum_worlds_cons f k r :
  lsum f (worlds (k :: r)) ==
  lsum (fun w => k_w1 k * f ((k, true) :: w) + (1 - k_w1 k) * f ((k, false) :: w)) (worlds r).
Proof.
  cbn [worlds]. induction (worlds r) as [|wq L IH]; cbn [flat_map lsum fold_right app fst snd]; [reflexivity|].
  unfold lsum in IH. rewrite IH. ring.
Qed.

(* ------------------------------------------------------------------ one conjunction *)
(* pairwise different facts *)
Definition distinctK (e : expl) : Prop :=
  StronglySorted (fun l1 l2 => key_eqb (fst l1) (fst l2) = false) e.

Lemma Forall_filter {A} (P : A -> Prop) f l : Forall P l -> Forall P (filter f l).
Proof. rewrite !Forall_forall. intros H x Hx. apply filter_In in Hx. apply H, Hx. Qed.

Lemma distinctK_filter f e : distinctK e -> distinctK (filter f e).
Proof.
  unfold distinctK. induction 1 as [|l e Hs IH Hf]; cbn; [constructor|].
  destruct (f l); auto. constructor; auto. apply Forall_filter. exact Hf.
Qed.

Lemma expl_prob_cons l e : expl_prob (l :: e) = lit_prob l * expl_prob e.
Proof. reflexivity. Qed.

Lemma sat_expl_cons w l e : sat_expl w (l :: e) = Bool.eqb (lookup (fst l) w) (snd l) && sat_expl w e.
Proof. reflexivity. Qed.

(* the literals about fact k are separated from the others *)
Lemma sat_expl_world_cons k b W e :
  sat_expl ((k, b) :: W) e =
  forallb (fun l => Bool.eqb b (snd l)) (filter (fun l => key_eqb (fst l) k) e)
  && sat_expl W (filter (fun l => negb (key_eqb (fst l) k)) e).
Proof.
  induction e as [|l e IH]; [reflexivity|].
  rewrite sat_expl_cons, IH. cbn [lookup filter]. destruct (key_eqb (fst l) k); cbn [negb forallb].
  - rewrite andb_assoc. reflexivity.
  - rewrite sat_expl_cons. rewrite !andb_assoc. f_equal. apply andb_comm.
Qed.

Lemma filter_out_cons_orb k r (e : expl) :
  filter (fun l => negb (key_eqb (fst l) k || key_mem (fst l) r)) e
  = filter (fun l => negb (key_mem (fst l) r)) (filter (fun l => negb (key_eqb (fst l) k)) e).
Proof.
  induction e as [|l e IH]; [reflexivity|]. cbn [filter].
  destruct (key_eqb (fst l) k); cbn [negb orb filter]; rewrite IH; reflexivity.
Qed.
Lemma filter_out_cons k r (e : expl) :
  filter (fun l => negb (key_mem (fst l) (k :: r))) e
  = filter (fun l => negb (key_mem (fst l) r)) (filter (fun l => negb (key_eqb (fst l) k)) e).
Proof. exact (filter_out_cons_orb k r e). Qed.

Lemma expl_prob_in_cons_orb k r (e : expl) :
  expl_prob (filter (fun l => key_eqb (fst l) k || key_mem (fst l) r) e) ==
  expl_prob (filter (fun l => key_eqb (fst l) k) e)
  * expl_prob (filter (fun l => key_mem (fst l) r) (filter (fun l => negb (key_eqb (fst l) k)) e)).
Proof.
  induction e as [|l e IH]; [cbn; ring|]. cbn [filter].
  destruct (key_eqb (fst l) k); cbn [negb orb filter].
  - rewrite !expl_prob_cons, IH. ring.
  - destruct (key_mem (fst l) r); [rewrite !expl_prob_cons|]; rewrite IH; ring.
Qed.
Lemma expl_prob_in_cons k r (e : expl) :
  expl_prob (filter (fun l => key_mem (fst l) (k :: r)) e) ==
  expl_prob (filter (fun l => key_eqb (fst l) k) e)
  * expl_prob (filter (fun l => key_mem (fst l) r) (filter (fun l => negb (key_eqb (fst l) k)) e)).
Proof. exact (expl_prob_in_cons_orb k r e). Qed.

(* among pairwise different facts at most one is the fact k *)
Lemma distinct_filter_k k e : distinctK e ->
  filter (fun l => key_eqb (fst l) k) e = [] \/
  exists l0, filter (fun l => key_eqb (fst l) k) e = [l0] /\ key_eqb (fst l0) k = true.
Proof.
  unfold distinctK. induction 1 as [|l e Hs IH Hf]; [left; reflexivity|]. cbn [filter].
  destruct (key_eqb (fst l) k) eqn:E.
  - right. exists l. split; auto. f_equal.
    apply filter_none_on. intros l' Hl'. rewrite Forall_forall in Hf. specialize (Hf l' Hl').
    destruct (key_eqb (fst l') k) eqn:E'; auto.
    rewrite (key_eqb_trans _ _ _ E (key_eqb_sym _ _ E')) in Hf. discriminate.
  - exact IH.
Qed.

Lemma expl_k_weight k e : distinctK e ->
  expl_prob (filter (fun l => key_eqb (fst l) k) e) ==
  k_w1 k * ind (forallb (fun l => Bool.eqb true (snd l)) (filter (fun l => key_eqb (fst l) k) e))
  + (1 - k_w1 k) * ind (forallb (fun l => Bool.eqb false (snd l)) (filter (fun l => key_eqb (fst l) k) e)).
Proof.
  intros Hd. destruct (distinct_filter_k k e Hd) as [-> | (l0 & -> & E)].
  - cbn. ring.
  - cbn [forallb expl_prob fold_right]. unfold lit_prob. pose proof (key_eqb_w1 _ _ E) as Ew.
    destruct (snd l0); cbn [Bool.eqb andb ind]; rewrite Ew; ring.
Qed.

Lemma filter_all_false {A} (l : list A) : filter (fun _ => false) l = [].
Proof. induction l; auto. Qed.
Lemma filter_all_true {A} (l : list A) : filter (fun _ => true) l = l.
Proof. induction l as [|a l IH]; cbn; [|rewrite IH]; reflexivity. Qed.

(* the world sum of one conjunction over pairwise different facts: the product over the
   literals whose fact is enumerated, times the truth of the others in the remaining context w0 *)
Lemma expl_world_sum : forall ks e w0, distinctK e ->
  lsum (fun w => ind (sat_expl (w ++ w0) e)) (worlds ks) ==
  expl_prob (filter (fun l => key_mem (fst l) ks) e)
  * ind (sat_expl w0 (filter (fun l => negb (key_mem (fst l) ks)) e)).
Proof.
  induction ks as [|k r IH]; intros e w0 Hd.
  - cbn [worlds lsum fold_right fst snd app key_mem negb]. rewrite filter_all_false, filter_all_true. cbn. ring.
  - rewrite lsum_worlds_cons.
    rewrite (lsum_ext _ (fun w =>
       (k_w1 k * ind (forallb (fun l => Bool.eqb true (snd l)) (filter (fun l => key_eqb (fst l) k) e))
        + (1 - k_w1 k) * ind (forallb (fun l => Bool.eqb false (snd l)) (filter (fun l => key_eqb (fst l) k) e)))
       * ind (sat_expl (w ++ w0) (filter (fun l => negb (key_eqb (fst l) k)) e)))).
    2:{ intros w. cbn [app]. rewrite !sat_expl_world_cons, !ind_andb. ring. }
    rewrite lsum_scale. rewrite IH by (apply distinctK_filter; exact Hd).
    rewrite <- expl_k_weight by exact Hd.
    rewrite filter_out_cons, expl_prob_in_cons. ring.
Qed.

Definition keys_in (ks : list key) (e : expl) : Prop := forall l, In l e -> key_mem (fst l) ks = true.

Lemma filter_id_on {A} (f : A -> bool) l : (forall x, In x l -> f x = true) -> filter f l = l.
Proof.
  induction l as [|a l IH]; intros H; [reflexivity|]. cbn. rewrite H by (left; reflexivity).
  f_equal. apply IH. intros x Hx. apply H. right. exact Hx.
Qed.

(* P(conjunction) = product of the literal probabilities *)
Lemma expl_world_prob ks e : distinctK e -> keys_in ks e ->
  lsum (fun w => ind (sat_expl w e)) (worlds ks) == expl_prob e.
Proof.
  intros Hd Hk.
  rewrite (lsum_ext _ (fun w => ind (sat_expl (w ++ []) e))) by (intros w; rewrite app_nil_r; reflexivity).
  rewrite expl_world_sum by exact Hd.
  rewrite (filter_id_on (fun l => key_mem (fst l) ks)) by exact Hk.
  rewrite (filter_none_on (fun l => negb (key_mem (fst l) ks))).
  - cbn. ring.
  - intros l Hl. rewrite (Hk l Hl). reflexivity.
Qed.

(* ------------------------------------------------------------------ mutually exclusive disjuncts *)
Lemma exclusive_ind {A} (f : A -> bool) d : (length (filter f d) <= 1)%nat ->
  ind (existsb f d) == sumQ (map (fun e => ind (f e)) d).
Proof.
  induction d as [|e d IH]; intros H; [reflexivity|]. cbn [existsb map sumQ fold_right filter] in *.
  destruct (f e) eqn:E; cbn [orb ind].
  - cbn [length] in H. assert (Hn : filter f d = []) by (destruct (filter f d); [reflexivity | cbn in H; lia]).
    assert (Hz : sumQ (map (fun e => ind (f e)) d) == 0).
    { clear IH H. induction d as [|x d IHd]; [reflexivity|]. cbn [filter] in Hn.
      destruct (f x) eqn:Ex; [discriminate|]. cbn [map sumQ fold_right]. rewrite Ex. cbn [ind].
      unfold sumQ in IHd. rewrite (IHd Hn). ring. }
    unfold sumQ in Hz. rewrite Hz. ring.
  - rewrite IH by exact H. unfold sumQ. ring.
Qed.

Lemma lsum_sumQ {A} (g : A -> list (key * bool) -> Q) d L :
  lsum (fun w => sumQ (map (fun e => g e w) d)) L == sumQ (map (fun e => lsum (g e) L) d).
Proof.
  induction d as [|e d IH]; cbn [map sumQ fold_right].
  - apply lsum_zero.
  - rewrite lsum_plus. unfold sumQ in IH. rewrite IH. reflexivity.
Qed.

Lemma sumQ_map_ext {A} (f g : A -> Q) l : (forall x, In x l -> f x == g x) -> sumQ (map f l) == sumQ (map g l).
Proof.
  induction l as [|a l IH]; intros H; [reflexivity|]. unfold sumQ in *. cbn [map fold_right].
  rewrite H by (left; reflexivity). rewrite IH; [reflexivity|]. intros x Hx. apply H. right. exact Hx.
Qed.

(* P(disjunction of pairwise exclusive conjunctions over distinct facts) = sum of the products *)
Theorem world_prob_exclusive d :
  (forall e, In e d -> distinctK e) ->
  (forall w, (length (filter (sat_expl w) d) <= 1)%nat) ->
  world_prob d == sumQ (map expl_prob d).
Proof.
  intros Hd Hx. rewrite world_prob_lsum.
  rewrite (lsum_ext _ (fun w => sumQ (map (fun e => ind (sat_expl w e)) d))).
  2:{ intros w. unfold sat_dnf. apply exclusive_ind. apply Hx. }
  rewrite (lsum_sumQ (fun e w => ind (sat_expl w e))).
  apply sumQ_map_ext. intros e He. apply expl_world_prob; [apply Hd; exact He|].
  intros l Hl. unfold keys_of. apply key_mem_dedup, key_mem_In.
  apply in_flat_map. exists e. split; [exact He|]. apply in_map. exact Hl.
Qed.

(* ------------------------------------------------------------------ the answers of one call *)
Lemma StronglySorted_impl {A} (R S : A -> A -> Prop) l :
  (forall a b, R a b -> S a b) -> StronglySorted R l -> StronglySorted S l.
Proof.
  intros H. induction 1 as [|a l Hs IH Hf]; constructor; auto.
  rewrite Forall_forall in *. intros b Hb. apply H, Hf, Hb.
Qed.

Lemma sorted_len_distinct e :
  StronglySorted (fun l1 l2 => (key_len (fst l2) < key_len (fst l1))%nat) e -> distinctK e.
Proof.
  apply StronglySorted_impl. intros a b Hlt. destruct (key_eqb (fst a) (fst b)) eqn:E; auto.
  apply key_eqb_len in E. lia.
Qed.

Lemma filter_filter_length {A} (p q : A -> bool) l :
  (length (filter p (filter q l)) <= length (filter p l))%nat.
Proof.
  induction l as [|a l IH]; [cbn; lia|]. cbn [filter]. destruct (q a), (p a) eqn:E; cbn [filter length]; try rewrite E; cbn [length]; lia.
Qed.

Lemma answer_dnf_exclusive A v r w : (length (selected w A) <= 1)%nat ->
  (length (filter (sat_expl w) (answer_dnf A v r)) <= 1)%nat.
Proof.
  intros H. unfold answer_dnf. rewrite filter_map_length.
  eapply Nat.le_trans; [apply filter_filter_length | exact H].
Qed.

Lemma select_weighted_world_sum : forall id ws vs v r,
  length ws = length vs -> all_pos ws -> ws <> [] ->
  world_prob (answer_dnf (select_weighted id ws vs) v r)
  == sumQ (map expl_prob (answer_dnf (select_weighted id ws vs) v r)).
Proof.
  intros id ws vs v r Hl Hp Hne. apply world_prob_exclusive.
  - intros e He. unfold answer_dnf in He. apply in_map_iff in He. destruct He as (a & <- & Ha).
    apply filter_In in Ha. apply sorted_len_distinct. eapply select_weighted_facts_distinct. apply Ha.
  - intros w. apply answer_dnf_exclusive. rewrite select_weighted_exactly_one by assumption. lia.
Qed.

(* ------------------------------------------------------------------ in terms of the documented weights *)
Lemma zip_facts {A B I} (f : A -> B) (g : I -> B) (p : A -> Q) (h : I -> Q) : forall l li,
  map f l = map g li -> Forall2 Qeq (map p l) (map h li) ->
  Forall2 (fun a i => f a = g i /\ p a == h i) l li.
Proof.
  induction l as [|a l IH]; destruct li as [|i li]; cbn; intros H1 H2; try discriminate; constructor.
  - inversion H1. inversion H2; subst. split; auto.
  - inversion H1. inversion H2; subst. apply IH; auto.
Qed.

Lemma filter_sum_zip {A B I} (f : A -> B) (g : I -> B) (p : A -> Q) (h : I -> Q) (q : B -> bool) : forall l li,
  Forall2 (fun a i => f a = g i /\ p a == h i) l li ->
  sumQ (map p (filter (fun a => q (f a)) l)) == sumQ (map h (filter (fun i => q (g i)) li)).
Proof.
  induction 1 as [|a i l li [E1 E2] _ IH]; [reflexivity|]. cbn [filter]. rewrite E1.
  destruct (q (g i)); [|exact IH]. unfold sumQ in *. cbn [map fold_right]. rewrite E2, IH. reflexivity.
Qed.

Lemma map_by_index {A B} (f : A -> B) (d : A) l :
  map f l = map (fun i => f (nth i l d)) (seq 0 (length l)).
Proof.
  induction l as [|a l IH]; [reflexivity|]. cbn [length seq map nth]. f_equal.
  rewrite map_seq_shift. exact IH.
Qed.

(* the world-level reading of C32_weighted: the probability (distribution semantics) that the call
   returns the answer (v, r) is the sum of w_i / sum(w) over the positions i that produce it *)
Lemma select_weighted_world_weighted : forall id ws vs v r,
  length ws = length vs -> all_pos ws -> ws <> [] ->
  world_prob (answer_dnf (select_weighted id ws vs) v r) ==
  sumQ (map (fun i => nth i ws 0 / sumQ ws)
            (filter (fun i => N.eqb (nth i vs 0%N) v && listN_eqb (remove_nth i vs) r) (seq 0 (length vs)))).
Proof.
  intros id ws vs v r Hl Hp Hne. rewrite select_weighted_world_sum by assumption.
  unfold answer_dnf. rewrite map_map.
  pose proof (select_weighted_outcomes id ws vs Hl Hp Hne) as Ho.
  pose proof (select_weighted_probs id ws vs Hl Hp Hne) as Hq.
  unfold position_probs, documented in Hq.
  rewrite (map_by_index (fun w => w / sumQ ws) 0 ws), Hl in Hq.
  pose proof (zip_facts outcome _ (fun a => expl_prob (a_expl a)) _ _ _ Ho Hq) as Hz.
  apply (filter_sum_zip outcome (fun i => (nth i vs 0%N, remove_nth i vs)) (fun a => expl_prob (a_expl a))
           (fun i => nth i ws 0 / sumQ ws) (fun o => N.eqb (fst o) v && listN_eqb (snd o) r) _ _ Hz).
Qed.


(* ------------------------------------------------------------------ select_uniform at world level *)
Lemma nth_repeat_lt {A} (a d : A) : forall n i, (i < n)%nat -> nth i (repeat a n) d = a.
Proof. induction n as [|n IH]; intros i Hi; [lia|]. destruct i; cbn; [reflexivity|]. apply IH. lia. Qed.

Lemma sumQ_const {A} (c : Q) (l : list A) : sumQ (map (fun _ => c) l) == inject_Z (Z.of_nat (length l)) * c.
Proof.
  induction l as [|a l IH]; [cbn; ring|]. unfold sumQ in *. cbn [map fold_right length]. rewrite IH.
  rewrite Nat2Z.inj_succ. unfold Z.succ. rewrite inject_Z_plus. ring.
Qed.

Lemma select_uniform_world : forall id vs v r, vs <> [] ->
  world_prob (answer_dnf (select_uniform id vs) v r) ==
  inject_Z (Z.of_nat (length (filter (fun i => N.eqb (nth i vs 0%N) v && listN_eqb (remove_nth i vs) r)
                                     (seq 0 (length vs)))))
  / inject_Z (Z.of_nat (length vs)).
Proof.
  intros id vs v r Hne. unfold select_uniform. destruct vs as [|x vs']; [congruence|].
  set (n := length (x :: vs')). set (w := 1 / inject_Z (Z.of_nat n)).
  assert (Hn : 0 < inject_Z (Z.of_nat n)).
  { change 0 with (inject_Z 0). rewrite <- Zlt_Qlt. unfold n. cbn [length]. lia. }
  assert (Hnz : ~ inject_Z (Z.of_nat n) == 0). { intro E. rewrite E in Hn. discriminate. }
  assert (Hw : 0 < w). { unfold w. apply Qlt_shift_div_l; [exact Hn|]. rewrite Qmult_0_l. reflexivity. }
  assert (Hrne : repeat w n <> []) by (unfold n; cbn; discriminate).
  rewrite select_weighted_world_weighted; [| rewrite repeat_length; reflexivity | apply all_pos_repeat; exact Hw | exact Hrne].
  set (F := filter _ _).
  rewrite (sumQ_map_ext _ (fun _ => 1 / inject_Z (Z.of_nat n))).
  - rewrite sumQ_const. field. exact Hnz.
  - intros i Hi. unfold F in Hi. apply filter_In in Hi. destruct Hi as [Hi _]. apply in_seq in Hi.
    rewrite nth_repeat_lt by (fold n in Hi; lia). rewrite sumQ_repeat. unfold w. field. exact Hnz.
Qed.
