(* C32 — the stochastic process that the clauses of select_weighted/select_uniform
   (problog/library/lists.pl) encode, over exact rationals.  No proofs in this file.

   Reading of the clauses (expected_select_clauses below is their transcription; Props.v
   proves that the clauses parsed from the current lists.pl are exactly these):

     P::sw_p(ID,P,_,_,_).                         one independent probabilistic fact per ground
                                                   atom sw_p(ID,W1,WT,X,XT), true with probability W1
     sw(ID,PW,[W|WT],[X],X,[]).                    last element: selected with certainty
     sw(ID,PW,[W|WT],[X|XT],X,XT) :- XT\=[],       position selected iff its fact is true;
         W1 is W/PW, sw_p(ID,W1,WT,X,XT).          the fact's probability is W / remaining weight
     sw(ID,PW,[W|WT],[X|XT],Y,[X|RT]) :- XT\=[],   otherwise (fact false) go on with the tail,
         W1 is W/PW, not sw_p(ID,W1,WT,X,XT),      remaining weight PW-W, and keep X in the rest
         PW1 is PW-W, sw(ID,PW1,WT,XT,Y,RT).
     select_weighted(ID,Ws,Vs,V,R) :- sum_list(Ws,T), T>0, sw(ID,T,Ws,Vs,V,R).
     select_uniform(ID,Vs,V,R) :- length(Vs,L), L>0, W is 1/L, make_list(L,W,Ws),
                                  select_weighted(ID,Ws,Vs,V,R).

   `explanations` mirrors the three sw/6 clauses one to one: every answer (value, rest) comes with
   the conjunction of sw_p literals its derivation uses.  `world_prob` is the distribution semantics
   of such a DNF over independent facts (exact enumeration of the truth assignments of the facts
   that occur). *)
From Coq Require Import ZArith QArith List Bool NArith.
From Coq Require String.
From PL.C32 Require Import ModelClauses.
Import ListNotations.
Open Scope Q_scope.

(* ------------------------------------------------------------------ facts *)
Record key := mkKey { k_id : N; k_w1 : Q; k_wt : list Q; k_x : N; k_xt : list N }.

Fixpoint listQ_eqb (a b : list Q) : bool :=
  match a, b with
  | [], [] => true
  | x :: a', y :: b' => Qeq_bool x y && listQ_eqb a' b'
  | _, _ => false
  end.
Fixpoint listN_eqb (a b : list N) : bool :=
  match a, b with
  | [], [] => true
  | x :: a', y :: b' => N.eqb x y && listN_eqb a' b'
  | _, _ => false
  end.

(* two ground atoms sw_p(...) are the same fact *)
Definition key_eqb (a b : key) : bool :=
  N.eqb (k_id a) (k_id b) && Qeq_bool (k_w1 a) (k_w1 b) && listQ_eqb (k_wt a) (k_wt b)
  && N.eqb (k_x a) (k_x b) && listN_eqb (k_xt a) (k_xt b).

Definition literal := (key * bool)%type.          (* (fact, polarity) *)
Definition expl := list literal.                   (* a conjunction *)

(* ------------------------------------------------------------------ the clauses, as functions *)
Definition sumQ (ws : list Q) : Q := fold_right Qplus 0 ws.

Record answer := mkAnswer { a_value : N; a_rest : list N; a_expl : expl }.

(* sw(ID,PW,Ws,Vs,Value,Rest): all answers with their explanations, in clause order *)
Fixpoint sw (id : N) (pw : Q) (ws : list Q) (vs : list N) : list answer :=
  match ws, vs with
  | w :: wt, x :: xt =>
      match xt with
      | [] => [mkAnswer x [] []]
      | _ :: _ =>
          let k := mkKey id (w / pw) wt x xt in
          mkAnswer x xt [(k, true)]
          :: map (fun a => mkAnswer (a_value a) (x :: a_rest a) ((k, false) :: a_expl a))
                 (sw id (pw - w) wt xt)
      end
  | _, _ => []
  end.

Definition select_weighted (id : N) (ws : list Q) (vs : list N) : list answer :=
  if Qle_bool (sumQ ws) 0 then [] else sw id (sumQ ws) ws vs.

Definition select_uniform (id : N) (vs : list N) : list answer :=
  match vs with
  | [] => []
  | _ => let w := 1 / inject_Z (Z.of_nat (length vs)) in
         select_weighted id (repeat w (length vs)) vs
  end.

(* ------------------------------------------------------------------ probabilities *)
Definition lit_prob (l : literal) : Q := if snd l then k_w1 (fst l) else 1 - k_w1 (fst l).
Definition expl_prob (e : expl) : Q := fold_right (fun l acc => lit_prob l * acc) 1 e.

(* probability that position i is the selected one (product of its literals) *)
Definition position_probs (id : N) (ws : list Q) (vs : list N) : list Q :=
  map (fun a => expl_prob (a_expl a)) (select_weighted id ws vs).

(* the documented distribution *)
Definition documented (ws : list Q) : list Q := map (fun w => w / sumQ ws) ws.

(* list minus position i *)
Definition remove_nth {A} (i : nat) (l : list A) : list A := firstn i l ++ skipn (S i) l.

(* ------------------------------------------------------------------ distribution semantics of a DNF *)
Fixpoint key_mem (k : key) (ks : list key) : bool :=
  match ks with [] => false | k' :: r => key_eqb k k' || key_mem k r end.
Fixpoint dedup (ks : list key) : list key :=
  match ks with [] => [] | k :: r => if key_mem k r then dedup r else k :: dedup r end.

Definition keys_of (d : list expl) : list key := dedup (flat_map (map fst) d).

Fixpoint lookup (k : key) (w : list (key * bool)) : bool :=
  match w with [] => false | (k', b) :: r => if key_eqb k k' then b else lookup k r end.

Definition sat_expl (w : list (key * bool)) (e : expl) : bool :=
  forallb (fun l => Bool.eqb (lookup (fst l) w) (snd l)) e.
Definition sat_dnf (w : list (key * bool)) (d : list expl) : bool := existsb (sat_expl w) d.

(* all truth assignments of the facts ks, with their probabilities *)
Fixpoint worlds (ks : list key) : list (list (key * bool) * Q) :=
  match ks with
  | [] => [([], 1)]
  | k :: r =>
      flat_map (fun wq => [((k, true) :: fst wq, k_w1 k * snd wq); ((k, false) :: fst wq, (1 - k_w1 k) * snd wq)])
               (worlds r)
  end.

(* P(d) under the distribution semantics: total weight of the worlds satisfying d *)
Definition world_prob (d : list expl) : Q :=
  fold_right (fun wq acc => if sat_dnf (fst wq) d then snd wq + acc else acc) 0 (worlds (keys_of d)).

(* explanations of the query  select_weighted(id,ws,vs,v,r)  for a given ground (v,r) *)
Definition answer_dnf (answers : list answer) (v : N) (r : list N) : list expl :=
  map a_expl (filter (fun a => N.eqb (a_value a) v && listN_eqb (a_rest a) r) answers).

(* explanations of a conjunction of two ground queries *)
Definition and_dnf (d1 d2 : list expl) : list expl :=
  flat_map (fun e1 => map (fun e2 => e1 ++ e2) d2) d1.

(* ------------------------------------------------------------------ the clauses the model was read from *)
Import String. Open Scope string_scope.
Definition expected_select_clauses : list clause := [
  mkClause (None)
    (A "select_uniform" [V 0; V 1; V 2; V 3])
    (Some (A "," [A "length" [V 1; V 4]; A "," [A "'>'" [V 4; I (0)]; A "," [A "'is'" [V 5; A "'/'" [I (1); V 4]]; A "," [A "make_list" [V 4; V 5; V 6]; A "select_weighted" [V 0; V 6; V 1; V 2; V 3]]]]]));
  mkClause (None)
    (A "select_weighted" [V 0; V 1; V 2; V 3; V 4])
    (Some (A "," [A "sum_list" [V 1; V 5]; A "," [A "'>'" [V 5; I (0)]; A "sw" [V 0; V 5; V 1; V 2; V 3; V 4]]]));
  mkClause (None)
    (A "select_weighted" [V 0; V 1; V 2; V 3])
    (Some (A "," [A "unzip" [V 1; V 4; V 5]; A "select_weighted" [V 0; V 4; V 5; V 2; V 3]]));
  mkClause (Some (V 0))
    (A "sw_p" [V 1; V 0; V 2; V 3; V 4])
    (None);
  mkClause (None)
    (A "sw" [V 0; V 1; A "." [V 2; V 3]; A "." [V 4; A "[]" []]; V 4; A "[]" []])
    (None);
  mkClause (None)
    (A "sw" [V 0; V 1; A "." [V 2; V 3]; A "." [V 4; V 5]; V 4; V 5])
    (Some (A "," [A "'\='" [V 5; A "[]" []]; A "," [A "'is'" [V 6; A "'/'" [V 2; V 1]]; A "sw_p" [V 0; V 6; V 3; V 4; V 5]]]));
  mkClause (None)
    (A "sw" [V 0; V 1; A "." [V 2; V 3]; A "." [V 4; V 5]; V 6; A "." [V 4; V 7]])
    (Some (A "," [A "'\='" [V 5; A "[]" []]; A "," [A "'is'" [V 8; A "'/'" [V 2; V 1]]; A "," [A "\+" [A "sw_p" [V 0; V 8; V 3; V 4; V 5]]; A "," [A "'is'" [V 9; A "'-'" [V 1; V 2]]; A "sw" [V 0; V 9; V 3; V 5; V 6; V 7]]]]]));
  mkClause (None)
    (A "sum_list" [V 0; V 1])
    (Some (A "sum_list" [V 0; I (0); V 1]));
  mkClause (None)
    (A "sum_list" [A "[]" []; V 0; V 0])
    (None);
  mkClause (None)
    (A "sum_list" [A "." [V 0; V 1]; V 2; V 3])
    (Some (A "," [A "'is'" [V 4; A "'+'" [V 2; V 0]]; A "sum_list" [V 1; V 4; V 3]]));
  mkClause (None)
    (A "unzip" [A "[]" []; A "[]" []; A "[]" []])
    (None);
  mkClause (None)
    (A "unzip" [A "." [A "," [V 0; V 1]; V 2]; A "." [V 0; V 3]; A "." [V 1; V 4]])
    (Some (A "unzip" [V 2; V 3; V 4]));
  mkClause (None)
    (A "make_list" [I (0); V 0; A "[]" []])
    (None);
  mkClause (None)
    (A "make_list" [V 0; V 1; A "." [V 1; V 2]])
    (Some (A "," [A "'>'" [V 0; I (0)]; A "," [A "'is'" [V 3; A "'-'" [V 0; I (1)]]; A "make_list" [V 3; V 1; V 2]]]))
].
