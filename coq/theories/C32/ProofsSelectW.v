(* C32 — lemmas about the process model ModelSelectW.v *)
From Coq Require Import ZArith QArith Qfield List Bool NArith Lia Sorted.
From PL.C32 Require Import ModelClauses ModelSelectW.
Import ListNotations.
Open Scope Q_scope.

Definition probs_of (l : list answer) : list Q := map (fun a => expl_prob (a_expl a)) l.
Definition all_pos (ws : list Q) : Prop := Forall (fun w => 0 < w) ws.

Lemma sumQ_pos : forall ws, all_pos ws -> ws <> [] -> 0 < sumQ ws.
Proof.
  induction ws as [|w ws IH]; intros Hp Hne; [congruence|].
  inversion Hp as [|? ? Hw Hws]; subst. cbn [sumQ fold_right].
  destruct ws as [|w' ws'].
  - cbn. rewrite Qplus_0_r. exact Hw.
  - assert (0 < sumQ (w' :: ws')) as H by (apply IH; [assumption | discriminate]).
    unfold sumQ in H. apply Qlt_trans with (0 + fold_right Qplus 0 (w' :: ws')).
    + rewrite Qplus_0_l. exact H.
    + apply Qplus_lt_le_compat; [exact Hw | apply Qle_refl].
Qed.

Lemma probs_of_false : forall k l,
  probs_of (map (fun a => mkAnswer (a_value a) (k_x k :: a_rest a) ((k, false) :: a_expl a)) l)
  = map (fun q => (1 - k_w1 k) * q) (probs_of l).
Proof.
  intros k l. unfold probs_of. rewrite !map_map. apply map_ext. intros a. reflexivity.
Qed.

Lemma scale_tail : forall pw w (l ps : list Q), ~ pw - w == 0 -> ~ pw == 0 ->
  Forall2 Qeq ps (map (fun w0 => w0 / (pw - w)) l) ->
  Forall2 Qeq (map (fun q => (1 - w / pw) * q) ps) (map (fun w0 => w0 / pw) l).
Proof.
  intros pw w l. induction l as [|a l IHl]; intros ps Hnz Hnz2 H; inversion H as [|? ? ? ? E Hr]; subst; cbn [map]; constructor.
  - rewrite E. field. split; assumption.
  - apply IHl; assumption.
Qed.

(* telescoping product: position i is selected with probability w_i / pw *)
Lemma sw_telescope : forall ws vs id pw,
  length ws = length vs -> all_pos ws -> ws <> [] -> pw == sumQ ws ->
  Forall2 Qeq (probs_of (sw id pw ws vs)) (map (fun w => w / pw) ws).
Proof.
  induction ws as [|w wt IH]; intros vs id pw Hlen Hpos Hne Hpw; [congruence|].
  destruct vs as [|x xt]; [discriminate|].
  inversion Hpos as [|? ? Hw Hwt]; subst.
  cbn [sw]. destruct xt as [|y xt'].
  - destruct wt as [|? ?]; [|discriminate]. cbn [probs_of map a_expl expl_prob fold_right]. constructor; [|constructor].
    unfold sumQ in Hpw. cbn [fold_right] in Hpw.
    assert (Hnz : ~ w == 0). { intro E. rewrite E in Hw. discriminate. }
    assert (Hpw2 : pw == w) by (rewrite Hpw; ring).
    rewrite Hpw2. field. exact Hnz.
  - destruct wt as [|w' wt']; [discriminate|].
    assert (Hs : 0 < sumQ (w' :: wt')) by (apply sumQ_pos; [assumption | discriminate]).
    assert (Hpw' : pw - w == sumQ (w' :: wt')).
    { rewrite Hpw. cbn [sumQ fold_right]. unfold sumQ. ring. }
    assert (Hnz : ~ pw - w == 0). { rewrite Hpw'. intro E. rewrite E in Hs. discriminate. }
    assert (Hpwpos : 0 < pw).
    { rewrite Hpw. apply sumQ_pos; [assumption | discriminate]. }
    assert (Hnz2 : ~ pw == 0). { intro E. rewrite E in Hpwpos. discriminate. }
    cbn [probs_of map]. constructor.
    + cbn. field. exact Hnz2.
    + set (k := mkKey id (w / pw) (w' :: wt') x (y :: xt')).
      change x with (k_x k) at 1.
      fold (probs_of (map (fun a => mkAnswer (a_value a) (k_x k :: a_rest a) ((k, false) :: a_expl a))
                          (sw id (pw - w) (w' :: wt') (y :: xt')))).
      rewrite probs_of_false.
      specialize (IH (y :: xt') id (pw - w)).
      assert (HIH : Forall2 Qeq (probs_of (sw id (pw - w) (w' :: wt') (y :: xt')))
                                (map (fun w0 => w0 / (pw - w)) (w' :: wt'))).
      { apply IH; [cbn in *; lia | assumption | discriminate | exact Hpw']. }
      clear IH. cbn [k_w1 k]. change (w' / pw :: map (fun w0 => w0 / pw) wt') with (map (fun w0 => w0 / pw) (w' :: wt')).
      apply scale_tail; assumption.
Qed.

(* ------------------------------------------------------------------ select_weighted *)
Lemma sumQ_not_le0 : forall ws, all_pos ws -> ws <> [] -> Qle_bool (sumQ ws) 0 = false.
Proof.
  intros ws Hp Hne. pose proof (sumQ_pos ws Hp Hne) as H.
  destruct (Qle_bool (sumQ ws) 0) eqn:E; [|reflexivity].
  apply Qle_bool_iff in E. exfalso. apply (Qlt_not_le _ _ H E).
Qed.

Lemma select_weighted_probs : forall id ws vs,
  length ws = length vs -> all_pos ws -> ws <> [] ->
  Forall2 Qeq (position_probs id ws vs) (documented ws).
Proof.
  intros id ws vs Hl Hp Hne. unfold position_probs, documented, select_weighted.
  rewrite sumQ_not_le0 by assumption.
  apply (sw_telescope ws vs id (sumQ ws)); auto. reflexivity.
Qed.

Lemma sumQ_Forall2 : forall a b, Forall2 Qeq a b -> sumQ a == sumQ b.
Proof.
  intros a b H. induction H as [|x y a b E _ IH]; [reflexivity|].
  unfold sumQ in *. cbn [fold_right]. rewrite E, IH. reflexivity.
Qed.

Lemma sumQ_div : forall ws t, ~ t == 0 -> sumQ (map (fun w => w / t) ws) == sumQ ws / t.
Proof.
  intros ws t Ht. induction ws as [|w ws IH].
  - cbn. field. exact Ht.
  - unfold sumQ in *. cbn [map fold_right]. rewrite IH. field. exact Ht.
Qed.

Lemma documented_sums_to_one : forall ws, all_pos ws -> ws <> [] -> sumQ (documented ws) == 1.
Proof.
  intros ws Hp Hne. pose proof (sumQ_pos ws Hp Hne) as H.
  assert (Hnz : ~ sumQ ws == 0). { intro E. rewrite E in H. discriminate. }
  unfold documented. rewrite sumQ_div by exact Hnz. field. exact Hnz.
Qed.

Lemma position_probs_sum_to_one : forall id ws vs,
  length ws = length vs -> all_pos ws -> ws <> [] -> sumQ (position_probs id ws vs) == 1.
Proof.
  intros id ws vs Hl Hp Hne.
  rewrite (sumQ_Forall2 _ _ (select_weighted_probs id ws vs Hl Hp Hne)).
  apply documented_sums_to_one; assumption.
Qed.

(* ------------------------------------------------------------------ value and rest of each answer *)
Definition outcome (a : answer) : N * list N := (a_value a, a_rest a).

Lemma map_seq_shift : forall (A : Type) (f : nat -> A) n, map f (seq 1 n) = map (fun i => f (S i)) (seq 0 n).
Proof. intros A f n. rewrite <- seq_shift, map_map. reflexivity. Qed.

Lemma sw_outcomes : forall ws vs id pw, length ws = length vs ->
  map outcome (sw id pw ws vs) = map (fun i => (nth i vs 0%N, remove_nth i vs)) (seq 0 (length vs)).
Proof.
  induction ws as [|w wt IH]; intros vs id pw Hl; destruct vs as [|x xt]; try discriminate; [reflexivity|].
  cbn [sw]. destruct xt as [|y xt'].
  - reflexivity.
  - replace (seq 0 (length (x :: y :: xt'))) with (0%nat :: seq 1 (length (y :: xt'))) by reflexivity.
    cbn [map]. f_equal.
    rewrite map_seq_shift.
    assert (Hl' : length wt = length (y :: xt')) by (cbn in *; lia).
    specialize (IH (y :: xt') id (pw - w) Hl').
    transitivity (map (fun p : N * list N => (fst p, x :: snd p)) (map outcome (sw id (pw - w) wt (y :: xt')))).
    + rewrite !map_map. apply map_ext. intros a. reflexivity.
    + rewrite IH, map_map. apply map_ext. intros i. reflexivity.
Qed.

Lemma sw_length : forall ws vs id pw, length ws = length vs -> length (sw id pw ws vs) = length vs.
Proof.
  intros ws vs id pw Hl. rewrite <- (map_length outcome), sw_outcomes by assumption.
  rewrite map_length, seq_length. reflexivity.
Qed.

(* ------------------------------------------------------------------ the facts used *)
Definition key_len (k : key) : nat := length (k_xt k).

Lemma listN_eqb_length : forall a b, listN_eqb a b = true -> length a = length b.
Proof.
  induction a as [|x a IH]; destruct b as [|y b]; cbn; intros H; try discriminate; [reflexivity|].
  apply andb_true_iff in H. destruct H as [_ H]. f_equal. auto.
Qed.

Lemma key_eqb_len : forall a b, key_eqb a b = true -> key_len a = key_len b.
Proof.
  intros a b H. unfold key_eqb in H. apply andb_true_iff in H. destruct H as [_ H].
  apply listN_eqb_length. exact H.
Qed.

Lemma key_eqb_id : forall a b, key_eqb a b = true -> k_id a = k_id b.
Proof.
  intros a b H. unfold key_eqb in H. repeat (apply andb_true_iff in H; destruct H as [H _]).
  apply N.eqb_eq. exact H.
Qed.

(* every fact used by sw on vs has a tail strictly shorter than vs, and carries the identifier *)
Lemma sw_keys : forall ws vs id pw a l,
  In a (sw id pw ws vs) -> In l (a_expl a) -> (key_len (fst l) < length vs)%nat /\ k_id (fst l) = id.
Proof.
  induction ws as [|w wt IH]; intros vs id pw a l Ha Hl; [destruct Ha|].
  destruct vs as [|x xt]; [destruct Ha|]. cbn [sw] in Ha. destruct xt as [|y xt'].
  - destruct Ha as [<- | []]. destruct Hl.
  - destruct Ha as [<- | Ha].
    + destruct Hl as [<- | []]. cbn. split; [lia | reflexivity].
    + apply in_map_iff in Ha. destruct Ha as [a' [<- Ha']]. cbn [a_expl] in Hl.
      destruct Hl as [<- | Hl].
      * cbn. split; [lia | reflexivity].
      * destruct (IH (y :: xt') id (pw - w) a' l Ha' Hl) as [H1 H2]. split; [cbn in *; lia | exact H2].
Qed.

(* within one explanation the facts are pairwise different (their tails get shorter) *)
Lemma sw_expl_sorted : forall ws vs id pw a,
  In a (sw id pw ws vs) ->
  StronglySorted (fun l1 l2 => (key_len (fst l2) < key_len (fst l1))%nat) (a_expl a).
Proof.
  induction ws as [|w wt IH]; intros vs id pw a Ha; [destruct Ha|].
  destruct vs as [|x xt]; [destruct Ha|]. cbn [sw] in Ha. destruct xt as [|y xt'].
  - destruct Ha as [<- | []]. constructor.
  - destruct Ha as [<- | Ha].
    + cbn. repeat constructor.
    + apply in_map_iff in Ha. destruct Ha as [a' [<- Ha']]. cbn [a_expl].
      constructor; [eapply IH; eassumption|].
      apply Forall_forall. intros l Hl.
      destruct (sw_keys wt (y :: xt') id (pw - w) a' l Ha' Hl) as [H1 _]. cbn in *. lia.
Qed.

Lemma sw_different_ids_disjoint : forall ws1 vs1 ws2 vs2 id1 id2 pw1 pw2 a1 a2 l1 l2,
  id1 <> id2 ->
  In a1 (sw id1 pw1 ws1 vs1) -> In l1 (a_expl a1) ->
  In a2 (sw id2 pw2 ws2 vs2) -> In l2 (a_expl a2) ->
  key_eqb (fst l1) (fst l2) = false.
Proof.
  intros ws1 vs1 ws2 vs2 id1 id2 pw1 pw2 a1 a2 l1 l2 Hid H1 H1' H2 H2'.
  destruct (key_eqb (fst l1) (fst l2)) eqn:E; [|reflexivity].
  apply key_eqb_id in E.
  destruct (sw_keys _ _ _ _ _ _ H1 H1') as [_ E1]. destruct (sw_keys _ _ _ _ _ _ H2 H2') as [_ E2]. congruence.
Qed.

(* ------------------------------------------------------------------ exactly one position per world *)
Definition selected (w : list (key * bool)) (l : list answer) : list answer :=
  filter (fun a => sat_expl w (a_expl a)) l.

Lemma filter_map_length : forall (A B : Type) (p : B -> bool) (g : A -> B) l,
  length (filter p (map g l)) = length (filter (fun a => p (g a)) l).
Proof.
  intros A B p g l. induction l as [|a l IH]; [reflexivity|]. cbn [map filter].
  destruct (p (g a)); cbn [length]; rewrite IH; reflexivity.
Qed.

Lemma filter_none : forall (A : Type) (p : A -> bool) l, (forall a, p a = false) -> filter p l = [].
Proof. intros A p l H. induction l as [|a l IH]; [reflexivity|]. cbn. rewrite H. exact IH. Qed.

Lemma sw_exactly_one : forall ws vs id pw w,
  length ws = length vs -> ws <> [] -> length (selected w (sw id pw ws vs)) = 1%nat.
Proof.
  induction ws as [|x wt IH]; intros vs id pw w Hl Hne; [congruence|].
  destruct vs as [|v xt]; [discriminate|]. cbn [sw]. destruct xt as [|y xt'].
  - reflexivity.
  - set (k := mkKey id (x / pw) wt v (y :: xt')).
    unfold selected. cbn [filter]. 
    assert (Hfirst : sat_expl w (a_expl (mkAnswer v (y :: xt') [(k, true)])) = lookup k w).
    { cbn. destruct (lookup k w); reflexivity. }
    rewrite Hfirst.
    destruct (lookup k w) eqn:E.
    + cbn [length]. f_equal. rewrite filter_map_length.
      rewrite filter_none; [reflexivity|]. intros a.
      cbn [a_expl sat_expl forallb fst snd]. rewrite E. reflexivity.
    + destruct wt as [|w' wt']; [discriminate|].
      specialize (IH (y :: xt') id (pw - x) w). unfold selected in IH.
      rewrite <- IH; [|cbn in *; lia | discriminate].
      rewrite filter_map_length. f_equal. apply filter_ext. intros a.
      cbn [a_expl sat_expl forallb fst snd]. rewrite E. reflexivity.
Qed.

(* ------------------------------------------------------------------ uniform *)
Lemma sumQ_repeat : forall w n, sumQ (repeat w n) == inject_Z (Z.of_nat n) * w.
Proof.
  intros w n. induction n as [|n IH].
  - cbn. ring.
  - unfold sumQ in *. cbn [repeat fold_right]. rewrite IH. rewrite Nat2Z.inj_succ. unfold Z.succ.
    rewrite inject_Z_plus. ring.
Qed.

Lemma all_pos_repeat : forall w n, 0 < w -> all_pos (repeat w n).
Proof. intros w n H. induction n; cbn; constructor; assumption. Qed.

Lemma Forall2_Forall_eq : forall w ps ds,
  Forall2 Qeq ps ds -> Forall (fun q => q == w) ds -> Forall (fun q => q == w) ps.
Proof.
  intros w ps ds H. induction H as [|p d ps ds E _ IH]; intros Hd; [constructor|].
  apply Forall_cons_iff in Hd. destruct Hd as [Hd1 Hd2].
  constructor; [rewrite E; exact Hd1 | apply IH; exact Hd2].
Qed.

Lemma select_uniform_probs : forall id vs, vs <> [] ->
  Forall (fun q => q == 1 / inject_Z (Z.of_nat (length vs)))
         (map (fun a => expl_prob (a_expl a)) (select_uniform id vs)).
Proof.
  intros id vs Hne. unfold select_uniform. destruct vs as [|v vs']; [congruence|].
  set (n := length (v :: vs')). set (w := 1 / inject_Z (Z.of_nat n)).
  assert (Hn : 0 < inject_Z (Z.of_nat n)).
  { change 0 with (inject_Z 0). rewrite <- Zlt_Qlt. unfold n. cbn [length]. lia. }
  assert (Hnz : ~ inject_Z (Z.of_nat n) == 0). { intro E. rewrite E in Hn. discriminate. }
  assert (Hw : 0 < w). { unfold w. apply Qlt_shift_div_l; [exact Hn|]. rewrite Qmult_0_l. reflexivity. }
  assert (Hrne : repeat w n <> []) by (unfold n; cbn; discriminate).
  pose proof (select_weighted_probs id (repeat w n) (v :: vs')) as H.
  rewrite repeat_length in H. specialize (H eq_refl (all_pos_repeat w n Hw) Hrne).
  unfold position_probs in H. revert H. generalize (map (fun a => expl_prob (a_expl a)) (select_weighted id (repeat w n) (v :: vs'))).
  unfold documented. intros ps H.
  assert (Hd : Forall (fun q => q == w) (map (fun w0 => w0 / sumQ (repeat w n)) (repeat w n))).
  { apply Forall_forall. intros q Hq. apply in_map_iff in Hq. destruct Hq as [w0 [<- Hw0]].
    apply repeat_spec in Hw0. subst w0. rewrite sumQ_repeat. unfold w. field. exact Hnz. }
  eapply Forall2_Forall_eq; eassumption.
Qed.

(* ------------------------------------------------------------------ select_weighted wrappers *)
Lemma select_weighted_outcomes : forall id ws vs,
  length ws = length vs -> all_pos ws -> ws <> [] ->
  map outcome (select_weighted id ws vs) = map (fun i => (nth i vs 0%N, remove_nth i vs)) (seq 0 (length vs)).
Proof.
  intros id ws vs Hl Hp Hne. unfold select_weighted. rewrite sumQ_not_le0 by assumption.
  apply sw_outcomes. exact Hl.
Qed.

Lemma select_weighted_exactly_one : forall id ws vs w,
  length ws = length vs -> all_pos ws -> ws <> [] ->
  length (selected w (select_weighted id ws vs)) = 1%nat.
Proof.
  intros id ws vs w Hl Hp Hne. unfold select_weighted. rewrite sumQ_not_le0 by assumption.
  apply sw_exactly_one; assumption.
Qed.

Lemma same_id_same_choice : forall id ws vs w a1 a2,
  length ws = length vs -> all_pos ws -> ws <> [] ->
  In a1 (selected w (select_weighted id ws vs)) -> In a2 (selected w (select_weighted id ws vs)) -> a1 = a2.
Proof.
  intros id ws vs w a1 a2 Hl Hp Hne H1 H2.
  pose proof (select_weighted_exactly_one id ws vs w Hl Hp Hne) as H.
  destruct (selected w (select_weighted id ws vs)) as [|b [|c r]]; try discriminate.
  destruct H1 as [<- | []]. destruct H2 as [<- | []]. reflexivity.
Qed.

Lemma select_weighted_facts_distinct : forall id ws vs a,
  In a (select_weighted id ws vs) ->
  StronglySorted (fun l1 l2 => (key_len (fst l2) < key_len (fst l1))%nat) (a_expl a).
Proof.
  intros id ws vs a H. unfold select_weighted in H. destruct (Qle_bool (sumQ ws) 0); [destruct H|].
  eapply sw_expl_sorted. exact H.
Qed.

Lemma select_weighted_ids_disjoint : forall id1 id2 ws1 vs1 ws2 vs2 a1 a2 l1 l2,
  id1 <> id2 ->
  In a1 (select_weighted id1 ws1 vs1) -> In l1 (a_expl a1) ->
  In a2 (select_weighted id2 ws2 vs2) -> In l2 (a_expl a2) ->
  key_eqb (fst l1) (fst l2) = false.
Proof.
  intros id1 id2 ws1 vs1 ws2 vs2 a1 a2 l1 l2 Hid H1 H1' H2 H2'. unfold select_weighted in *.
  destruct (Qle_bool (sumQ ws1) 0); [destruct H1|]. destruct (Qle_bool (sumQ ws2) 0); [destruct H2|].
  eapply sw_different_ids_disjoint; eassumption.
Qed.
