(* C10 — instances of the commutative-semiring laws (non-vacuity of sr_laws):
   exact rationals (the Probability semiring), Booleans, naturals (model counting). *)
From Coq Require Import List Bool Arith ZArith QArith Qcanon Ring_theory Lia.
From PL.C10 Require Import ModelCircuit SpecDDNNF ModelOracle.

Lemma QcOps_laws : sr_laws QcOps.
Proof. constructor; simpl; intros; ring. Qed.

Definition BoolOps : sr_ops := {| car := bool; s0 := false; s1 := true; sadd := orb; smul := andb |}.
Lemma BoolOps_laws : sr_laws BoolOps.
Proof. constructor; simpl; intros; repeat match goal with b : bool |- _ => destruct b end; reflexivity. Qed.

Definition NatOps : sr_ops := {| car := nat; s0 := 0%nat; s1 := 1%nat; sadd := Nat.add; smul := Nat.mul |}.
Lemma NatOps_laws : sr_laws NatOps.
Proof. constructor; simpl; intros; lia. Qed.
