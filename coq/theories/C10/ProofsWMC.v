(* C10 — eval_is_wmc: on a decomposable, deterministic, smooth NNF, evaluation in ANY
   commutative semiring equals the weighted model count (sum over models of the product of
   literal weights).  Also: the absent-literal rule of _load_nnf. *)
From Coq Require Import List Bool Arith Lia Ring_theory Ring.
From PL.C10 Require Import ModelCircuit SpecDDNNF ProofsTree ProofsDag.
Import ListNotations.

(* ------------------------------------------------------------------ list facts *)
Lemma filter_none {X} (f : X -> bool) l : (forall x, In x l -> f x = false) -> filter f l = [].
Proof.
  induction l as [|x r IH]; simpl; intros H; [reflexivity|].
  rewrite (H x (or_introl eq_refl)). apply IH. intros y Hy. apply H. right. exact Hy.
Qed.
Lemma filter_all {X} (f : X -> bool) l : (forall x, In x l -> f x = true) -> filter f l = l.
Proof.
  induction l as [|x r IH]; simpl; intros H; [reflexivity|].
  rewrite (H x (or_introl eq_refl)). f_equal. apply IH. intros y Hy. apply H. right. exact Hy.
Qed.
Lemma filter_single U v : NoDup U -> In v U -> filter (fun x => Nat.eqb x v) U = [v].
Proof.
  induction 1 as [|u r Hu Hr IH]; simpl; intros Hin; [contradiction|].
  destruct (Nat.eqb u v) eqn:E.
  - apply Nat.eqb_eq in E. subst u. f_equal. apply filter_none. intros y Hy.
    apply Nat.eqb_neq. intro. subst. contradiction.
  - destruct Hin as [->|Hin]; [rewrite Nat.eqb_refl in E; discriminate|]. apply IH, Hin.
Qed.
Lemma memb_iff l1 l2 v : (In v l1 <-> In v l2) -> memb l1 v = memb l2 v.
Proof.
  intros H. destruct (memb l1 v) eqn:E1, (memb l2 v) eqn:E2; try reflexivity.
  - apply memb_spec, H, memb_spec in E1. congruence.
  - apply memb_spec, H, memb_spec in E2. congruence.
Qed.
Lemma memb_app l1 l2 v : memb (l1 ++ l2) v = memb l1 v || memb l2 v.
Proof. unfold memb. apply existsb_app. Qed.

Section WMCProofs.
  Variable S : sr_ops.
  Hypothesis laws : sr_laws S.
  Variable w : nat -> bool -> S.

  Notation "0" := (s0 S).
  Notation "1" := (s1 S).
  Infix "+" := (sadd S).
  Infix "*" := (smul S).
  Let laws' : semi_ring_theory (s0 S) (s1 S) (sadd S) (smul S) (@eq (car S)) := laws.
  Add Ring Sring : laws'.

  Notation wmc := (wmc S w).
  Notation eval := (eval S w).

  Lemma wmc_ext vs : forall phi psi a, (forall a, phi a = psi a) -> wmc vs phi a = wmc vs psi a.
  Proof.
    induction vs as [|v r IH]; intros phi psi a H; simpl.
    - rewrite H. reflexivity.
    - rewrite (IH phi psi _ H), (IH phi psi (upd a v false) H). reflexivity.
  Qed.

  Lemma wmc_false vs : forall a, wmc vs (fun _ => false) a = 0.
  Proof.
    induction vs as [|v r IH]; intros a; simpl; [reflexivity|]. rewrite !IH. ring.
  Qed.

  Lemma wmc_or_excl vs : forall phi psi a, (forall a, phi a = true -> psi a = true -> False) ->
    wmc vs (fun a => phi a || psi a) a = wmc vs phi a + wmc vs psi a.
  Proof.
    induction vs as [|v r IH]; intros phi psi a H; simpl.
    - destruct (phi a) eqn:E1, (psi a) eqn:E2; simpl; try ring. exfalso. eauto.
    - rewrite !(IH phi psi _ H). ring.
  Qed.

  Definition dep_only (p : nat -> bool) (phi : asg -> bool) : Prop :=
    forall a a', (forall v, p v = true -> a v = a' v) -> phi a = phi a'.

  Lemma wmc_indep p phi vs : dep_only p phi -> forall a a',
    (forall v, p v = true -> a v = a' v) -> wmc vs phi a = wmc vs phi a'.
  Proof.
    intros Hd. induction vs as [|u r IH]; intros a a' H; simpl.
    - rewrite (Hd a a' H). reflexivity.
    - rewrite (IH (upd a u true) (upd a' u true)), (IH (upd a u false) (upd a' u false)); [reflexivity| |];
        intros v Hv; unfold upd; destruct (Nat.eqb v u); auto.
  Qed.

  Lemma wmc_product p1 p2 phi1 phi2 :
    (forall v, p1 v = true -> p2 v = true -> False) -> dep_only p1 phi1 -> dep_only p2 phi2 ->
    forall U a, wmc (filter (fun v => p1 v || p2 v) U) (fun a => phi1 a && phi2 a) a
                = wmc (filter p1 U) phi1 a * wmc (filter p2 U) phi2 a.
  Proof.
    intros Hdis H1 H2. induction U as [|u r IH]; intros a.
    - simpl. destruct (phi1 a), (phi2 a); simpl; ring.
    - simpl filter. destruct (p1 u) eqn:E1, (p2 u) eqn:E2; simpl orb; cbv iota.
      + exfalso. eauto.
      + simpl. rewrite !IH.
        rewrite (wmc_indep p2 phi2 _ H2 (upd a u true) a), (wmc_indep p2 phi2 _ H2 (upd a u false) a).
        * ring.
        * intros v Hv. unfold upd. destruct (Nat.eqb v u) eqn:E; [apply Nat.eqb_eq in E; subst; congruence | reflexivity].
        * intros v Hv. unfold upd. destruct (Nat.eqb v u) eqn:E; [apply Nat.eqb_eq in E; subst; congruence | reflexivity].
      + simpl. rewrite !IH.
        rewrite (wmc_indep p1 phi1 _ H1 (upd a u true) a), (wmc_indep p1 phi1 _ H1 (upd a u false) a).
        * ring.
        * intros v Hv. unfold upd. destruct (Nat.eqb v u) eqn:E; [apply Nat.eqb_eq in E; subst; congruence | reflexivity].
        * intros v Hv. unfold upd. destruct (Nat.eqb v u) eqn:E; [apply Nat.eqb_eq in E; subst; congruence | reflexivity].
      + apply IH.
  Qed.

  Lemma dep_only_evalb t : dep_only (memb (tvars t)) (fun a => evalb a t).
  Proof. intros a a' H. apply evalb_dep. intros v Hv. apply H, memb_spec, Hv. Qed.

  (* ---------------------------------------------------------------- the sum over an OR *)
  Lemma or_case V : forall l,
    Forall (fun t => forall a, eval t = wmc V (fun a => evalb a t) a) l ->
    ForallOrdPairs exclusive l ->
    forall a, ssum (map eval l) = wmc V (fun a => existsb (evalb a) l) a.
  Proof.
    induction l as [|x r IH]; intros Hall Hex a.
    - simpl. symmetry. apply wmc_false.
    - inversion Hall as [|? ? Hx Hr]; subst. inversion Hex as [|? ? Hxr Hrr]; subst.
      simpl. rewrite (wmc_or_excl V (fun a => evalb a x) (fun a => existsb (evalb a) r)).
      + rewrite <- (Hx a), <- (IH Hr Hrr a). reflexivity.
      + intros a0 H1 H2. apply existsb_exists in H2. destruct H2 as [y [Hy Hyt]].
        rewrite Forall_forall in Hxr. exact (Hxr y Hy a0 H1 Hyt).
  Qed.

  (* ---------------------------------------------------------------- the product over an AND *)
  Lemma and_case U : forall l,
    Forall (fun t => forall a, eval t = wmc (filter (memb (tvars t)) U) (fun a => evalb a t) a) l ->
    ForallOrdPairs disjoint_vars l ->
    forall a, sprod (map eval l) = wmc (filter (memb (flat_map tvars l)) U) (fun a => forallb (evalb a) l) a.
  Proof.
    induction l as [|x r IH]; intros Hall Hdis a.
    - simpl. rewrite filter_none by reflexivity. reflexivity.
    - inversion Hall as [|? ? Hx Hr]; subst. inversion Hdis as [|? ? Hxr Hrr]; subst.
      simpl map. simpl sprod. simpl flat_map.
      rewrite (filter_ext _ (fun v => memb (tvars x) v || memb (flat_map tvars r) v)) by (intros v; apply memb_app).
      simpl forallb.
      rewrite (wmc_product (memb (tvars x)) (memb (flat_map tvars r))
                 (fun a => evalb a x) (fun a => forallb (evalb a) r)).
      + rewrite <- (Hx a), <- (IH Hr Hrr a). reflexivity.
      + intros v H1 H2. apply memb_spec in H1. apply memb_spec, in_flat_map in H2.
        destruct H2 as [y [Hy Hv]]. rewrite Forall_forall in Hxr. exact (Hxr y Hy v H1 Hv).
      + apply dep_only_evalb.
      + intros a1 a2 H. clear - H. induction r as [|y r IHr]; simpl; [reflexivity|]. f_equal.
        * apply evalb_dep. intros v Hv. apply H, memb_spec. simpl. apply in_or_app. left. exact Hv.
        * apply IHr. intros v Hv. apply H. apply memb_spec. apply memb_spec in Hv. simpl. apply in_or_app. right. exact Hv.
  Qed.

  (* ---------------------------------------------------------------- main theorem on trees *)
  Theorem eval_is_wmc_tree U : NoDup U -> forall t,
    incl (tvars t) U -> Decomposable t -> Deterministic t -> Smooth t ->
    forall a, eval t = wmc (filter (memb (tvars t)) U) (fun a => evalb a t) a.
  Proof.
    intros ND. induction t as [ | | v b | l IH | l IH] using nnf_ind'; intros Hincl Hdec Hdet Hsm a.
    - simpl. rewrite filter_none by reflexivity. reflexivity.
    - simpl. rewrite filter_none by reflexivity. reflexivity.
    - change (tvars (NLit v b)) with [v].
      rewrite (filter_ext _ (fun x => Nat.eqb x v)) by (intros x; unfold memb; simpl; apply orb_false_r).
      rewrite (filter_single U v ND) by (apply Hincl; left; reflexivity).
      cbn [ModelCircuit.wmc]. rewrite !evalb_lit. unfold upd. rewrite !Nat.eqb_refl. unfold eval. simpl. destruct b; simpl; ring.
    - inversion Hdec as [| | |? HdF HdP|]; subst. inversion Hdet as [| | |? HtF|]; subst. inversion Hsm as [| | |? HsF|]; subst.
      rewrite eval_and. rewrite tvars_and in *.
      rewrite (wmc_ext _ (fun a => evalb a (NAnd l)) (fun a => forallb (evalb a) l)) by (intros; apply evalb_and).
      apply and_case; [|exact HdP].
      rewrite Forall_forall in *. intros x Hx a0. apply IH; auto.
      intros v Hv. apply Hincl, in_flat_map. exists x. split; assumption.
    - inversion Hdec as [| | | |? HdF]; subst. inversion Hdet as [| | | |? HtF HtP]; subst. inversion Hsm as [| | | |? HsF HsS]; subst.
      rewrite eval_or. rewrite tvars_or in *.
      rewrite (wmc_ext _ (fun a => evalb a (NOr l)) (fun a => existsb (evalb a) l)) by (intros; apply evalb_or).
      apply or_case; [|exact HtP].
      rewrite Forall_forall in *. intros x Hx a0.
      rewrite (filter_ext (memb (flat_map tvars l)) (memb (tvars x))).
      + apply IH; auto. intros v Hv. apply Hincl, in_flat_map. exists x. split; assumption.
      + intros v. apply memb_iff. rewrite in_flat_map. split.
        * intros [y [Hy Hv]]. apply (HsS y x Hy Hx v). exact Hv.
        * intros Hv. exists x. split; assumption.
  Qed.

  (* ---------------------------------------------------------------- wmc is literally a sum over models *)
  Lemma ssum_app (l1 l2 : list S) : ssum (l1 ++ l2) = ssum l1 + ssum l2.
  Proof. induction l1 as [|x r IH]; simpl; [ring | rewrite IH; ring]. Qed.
  Lemma ssum_scale {X} c (f : X -> S) l : ssum (map (fun x => c * f x) l) = c * ssum (map f l).
  Proof. induction l as [|x r IH]; simpl; [ring | rewrite IH; ring]. Qed.

  Theorem wmc_is_sum vs : forall phi a, wmc vs phi a = wmc_sum S w vs phi a.
  Proof.
    unfold wmc_sum. induction vs as [|v r IH]; intros phi a.
    - simpl. destruct (phi a); ring.
    - simpl. rewrite map_app, !map_map, ssum_app. simpl.
      rewrite (IH phi (upd a v true)), (IH phi (upd a v false)).
      rewrite <- !ssum_scale. f_equal; f_equal; apply map_ext; intros bs;
        destruct (phi _); ring.
  Qed.

  (* ---------------------------------------------------------------- DAG level *)
  Theorem eval_is_wmc_dag U C : NoDup U -> incl (tvars (root_tree C)) U ->
    decomposable C -> deterministic C -> smooth C ->
    forall a, c_eval S w C = wmc (filter (memb (tvars (root_tree C))) U) (fun a => c_evalb a C) a.
  Proof.
    intros ND Hincl Hd Ht Hs a. rewrite c_eval_tree.
    rewrite (wmc_ext _ (fun a => c_evalb a C) (fun a => evalb a (root_tree C))) by (intros; apply c_evalb_tree).
    apply eval_is_wmc_tree; assumption.
  Qed.

  (* what SimpleDDNNFEvaluator relies on: an accepted circuit evaluates to the WMC of the CNF *)
  Theorem checked_eval_is_wmc_cnf n C f : check_ddnnf n C f = true ->
    c_eval S w C = wmc_cnf S w n f.
  Proof.
    intros H. destruct (check_ddnnf_sound n C f H) as [_ [Hd [Ht [Hs [Hcov [Hin Heq]]]]]].
    unfold wmc_cnf.
    rewrite (eval_is_wmc_dag (var_list n) C) with (a := asg0); auto.
    - rewrite filter_all.
      + apply wmc_ext. exact Heq.
      + intros v Hv. apply memb_spec, Hcov. unfold var_list in Hv. apply in_seq in Hv. lia.
    - apply seq_NoDup.
    - intros v Hv. unfold var_list. apply in_seq. specialize (Hin v Hv). lia.
  Qed.
End WMCProofs.

(* ------------------------------------------------------------------ absent literals (_load_nnf's None label) *)
Lemma occurs_false_forall v b l : existsb (occurs v b) l = false -> forall x, In x l -> occurs v b x = false.
Proof.
  intros H x Hx. destruct (occurs v b x) eqn:E; [|reflexivity].
  assert (existsb (occurs v b) l = true) by (apply existsb_exists; eauto). congruence.
Qed.

Theorem absent_literal_tree : forall v b t, Smooth t -> occurs v b t = false -> In v (tvars t) ->
  forall a, evalb a t = true -> a v = negb b.
Proof.
  intros v b. induction t as [ | | v' b' | l IH | l IH] using nnf_ind'; intros Hsm Hocc Hin a Hev.
  - destruct Hin.
  - discriminate.
  - destruct Hin as [->|[]]. unfold occurs in Hocc. simpl in Hocc. rewrite Nat.eqb_refl in Hocc. simpl in Hocc.
    rewrite evalb_lit in Hev. apply eqb_prop in Hev. rewrite Hev.
    destruct b', b; simpl in *; congruence.
  - inversion Hsm as [| | |? HsF|]; subst. rewrite occurs_and in Hocc. rewrite tvars_and in Hin.
    apply in_flat_map in Hin. destruct Hin as [x [Hx Hv]]. rewrite Forall_forall in *.
    rewrite evalb_and, forallb_forall in Hev.
    apply (IH x Hx); auto. apply (occurs_false_forall v b l Hocc x Hx).
  - inversion Hsm as [| | | |? HsF HsS]; subst. rewrite occurs_or in Hocc. rewrite tvars_or in Hin.
    apply in_flat_map in Hin. destruct Hin as [y [Hy Hv]]. rewrite Forall_forall in *.
    rewrite evalb_or in Hev. apply existsb_exists in Hev. destruct Hev as [x [Hx Hxt]].
    apply (IH x Hx); auto.
    + apply (occurs_false_forall v b l Hocc x Hx).
    + apply (HsS y x Hy Hx v). exact Hv.
Qed.

(* For an accepted circuit: a name whose CNF literal (v,b) does not occur in the circuit is false
   in every model of the CNF -- which is what the key None that _load_nnf gives it means. *)
Theorem absent_literal : forall n C f v b, check_ddnnf n C f = true -> 1 <= v <= n ->
  c_occurs v b C = false -> forall a, sat a f = true -> a v = negb b.
Proof.
  intros n C f v b H Hv Hocc a Hsat.
  destruct (check_ddnnf_sound n C f H) as [_ [_ [_ [Hs [Hcov [_ Heq]]]]]].
  rewrite c_occurs_tree in Hocc. rewrite <- Heq, c_evalb_tree in Hsat.
  exact (absent_literal_tree v b (root_tree C) Hs Hocc (Hcov v Hv) a Hsat).
Qed.

(* the explicit-sum form of the main theorem, DAG level *)
Theorem eval_is_wmc_sum_dag : forall (S : sr_ops), sr_laws S -> forall (w : nat -> bool -> S) U C,
  NoDup U -> incl (tvars (root_tree C)) U ->
  decomposable C -> deterministic C -> smooth C ->
  forall a, c_eval S w C =
            wmc_sum S w (filter (memb (tvars (root_tree C))) U) (fun a => c_evalb a C) a.
Proof.
  intros S laws w U C ND Hincl Hd Ht Hs a.
  rewrite <- (wmc_is_sum S laws w). apply eval_is_wmc_dag; assumption.
Qed.
