(* C10 — specification-level meaning of a key of the compiled formula (definitions only).
   A circuit is a node list whose root is the LAST node, so the sub-circuit rooted at node i is the
   prefix `firstn (S i) C`; a key denotes TRUE (0), FALSE (None), node i, or the negation of node i. *)
From Coq Require Import List Bool Arith.
From PL.C10 Require Import ModelCircuit.
Import ListNotations.

(* ------------------------------------------------------------------ specification-level meaning of a key *)
Definition node_evalb (a : asg) (C : circuit) (i : nat) : bool := c_evalb a (firstn (S i) C).
Definition ref_evalb (a : asg) (C : circuit) (r : ref) : bool :=
  match r with
  | RT => true
  | RF => false
  | RPos i => node_evalb a C i
  | RNeg i => negb (node_evalb a C i)
  end.
(* the CNF variable of a key must be a variable of the CNF *)
Definition ckey_in_range (n : nat) (k : ckey) : Prop :=
  match k with KLit v _ => 1 <= v <= n | _ => True end.

