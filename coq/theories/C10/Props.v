(* C10 — Compiled d-DNNF is a valid, equivalent circuit.
   Only statements; every proof is `exact <lemma>`. *)
From Coq Require Import List Bool Arith.
From PL.C10 Require Import ModelCircuit SpecDDNNF ProofsTree ProofsDag.
Import ListNotations.

(* Verified validator (no size bound): whenever the checker accepts a circuit C (in ProbLog's
   DDNNF node layout) for a CNF f over variables 1..n, C is a well-formed DAG that is decomposable,
   deterministic, smooth, mentions every variable 1..n, and has exactly the models of f -- for
   EVERY assignment, not only the enumerated ones. *)
Theorem C10_checker_sound : forall n C f, check_ddnnf n C f = true ->
  wf C /\ decomposable C /\ deterministic C /\ smooth C /\ covers n C /\ vars_in_range n C /\
  (forall a, c_evalb a C = sat a f).
Proof. exact check_ddnnf_sound. Qed.
Print Assumptions C10_checker_sound.

(* The DAG pass used by the checker and by the evaluator model computes, for every algebra,
   exactly the fold of the tree the DAG denotes (sharing does not change meaning). *)
Theorem C10_dag_is_tree : forall (A : Type) (g : alg A) C, root_val g C = fold g (root_tree C).
Proof. exact @root_val_fold. Qed.
Print Assumptions C10_dag_is_tree.

(* non-vacuity: the circuit dsharp + _load_nnf return for
   `0.3::a. 0.4::b. 0.5::c. q :- b, c. query(a). query(q).`   (CNF: 4 -2 -3 / -4 2 / -4 3) *)
Definition ex_circuit : circuit :=
  [Atom 4; Atom 3; Disj [RPos 1; RNeg 1]; Atom 2; Conj [RPos 2; RNeg 3]; Conj [RPos 3; RNeg 1];
   Disj [RPos 4; RPos 5]; Conj [RNeg 0; RPos 6]; Conj [RPos 0; RPos 3; RPos 1]; Disj [RPos 7; RPos 8];
   Atom 1; Disj [RPos 10; RNeg 10]; Conj [RPos 9; RPos 11]].
Definition ex_cnf : cnf := [[(4, true); (2, false); (3, false)]; [(4, false); (2, true)]; [(4, false); (3, true)]].
Example C10_checker_accepts_example : check_ddnnf 4 ex_circuit ex_cnf = true.
Proof. vm_compute. reflexivity. Qed.
(* ... and rejects a circuit whose OR is not deterministic / a circuit for another CNF *)
Example C10_checker_rejects_nondeterministic :
  check_ddnnf 2 [Atom 1; Atom 2; Disj [RPos 0; RPos 1]] [[(1, true); (2, true)]] = false.
Proof. vm_compute. reflexivity. Qed.
Example C10_checker_rejects_lost_sign : check_ddnnf 1 [Atom 1] [[(1, false)]] = false.
Proof. vm_compute. reflexivity. Qed.
