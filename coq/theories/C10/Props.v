(* C10 — Compiled d-DNNF is a valid, equivalent circuit.
   Only statements; every proof is `exact <lemma>`. *)
From Coq Require Import List Bool Arith ZArith QArith Qcanon.
From PL.C10 Require Import ModelCircuit SpecDDNNF SpecLabels ModelOracle ProofsTree ProofsDag ProofsWMC ProofsInstances ProofsLabels.
Import ListNotations.
Local Open Scope nat_scope.

(* Verified validator (no size bound): whenever the checker accepts a circuit C (in ProbLog's
   DDNNF node layout) for a CNF f over variables 1..n, C is a well-formed DAG that is decomposable,
   deterministic, smooth, mentions every variable 1..n, and has exactly the models of f -- for
   EVERY assignment, not only the enumerated ones. *)
Theorem C10_checker_sound : forall n C f, check_ddnnf n C f = true ->
  wf C /\ decomposable C /\ deterministic C /\ smooth C /\ covers n C /\ vars_in_range n C /\
  (forall a, c_evalb a C = sat a f).
Proof. exact check_ddnnf_sound. Qed.
Print Assumptions C10_checker_sound.

(* The DAG pass used by the checker and by the evaluator model computes, for every algebra,
   exactly the fold of the tree the DAG denotes (sharing does not change meaning). *)
Theorem C10_dag_is_tree : forall (A : Type) (g : alg A) C, root_val g C = fold g (root_tree C).
Proof. exact @root_val_fold. Qed.
Print Assumptions C10_dag_is_tree.

(* eval_is_wmc -- what SimpleDDNNFEvaluator relies on.  For EVERY commutative semiring S (abstract
   record + laws), every literal weighting w and every decomposable, deterministic, smooth circuit,
   one bottom-up pass (products at AND, sums at OR) equals the weighted model count: the sum, over all
   assignments bs to the circuit's variables (taken in the order of any duplicate-free list U that
   contains them), of [C true under bs] * product of the weights of the literals of bs.
   `wmc_sum` is that explicit sum (ModelCircuit.v); `a` gives the (irrelevant) values of other variables. *)
Theorem C10_eval_is_wmc : forall (S : sr_ops), sr_laws S -> forall (w : nat -> bool -> S) U C,
  NoDup U -> incl (tvars (root_tree C)) U ->
  decomposable C -> deterministic C -> smooth C ->
  forall a, c_eval S w C =
            wmc_sum S w (filter (memb (tvars (root_tree C))) U) (fun a => c_evalb a C) a.
Proof. exact eval_is_wmc_sum_dag. Qed.
Print Assumptions C10_eval_is_wmc.

(* same statement on tree-shaped circuits, Shannon-expansion form of the count *)
Theorem C10_eval_is_wmc_tree : forall (S : sr_ops), sr_laws S -> forall (w : nat -> bool -> S) U,
  NoDup U -> forall t, incl (tvars t) U -> Decomposable t -> Deterministic t -> Smooth t ->
  forall a, eval S w t = wmc S w (filter (memb (tvars t)) U) (fun a => evalb a t) a.
Proof. exact eval_is_wmc_tree. Qed.
Print Assumptions C10_eval_is_wmc_tree.

(* the recursive count IS the sum over models of the product of literal weights *)
Theorem C10_wmc_is_sum : forall (S : sr_ops), sr_laws S -> forall (w : nat -> bool -> S) vs phi a,
  wmc S w vs phi a = wmc_sum S w vs phi a.
Proof. exact wmc_is_sum. Qed.
Print Assumptions C10_wmc_is_sum.

(* checker + evaluation: an accepted circuit evaluates, in every commutative semiring and for
   every weighting, to the weighted model count of the CNF over all its variables 1..n *)
Theorem C10_checked_eval_is_wmc_cnf : forall (S : sr_ops), sr_laws S -> forall (w : nat -> bool -> S) n C f,
  check_ddnnf n C f = true -> c_eval S w C = wmc_cnf S w n f.
Proof. exact checked_eval_is_wmc_cnf. Qed.
Print Assumptions C10_checked_eval_is_wmc_cnf.

(* _load_nnf's rule for names whose literal has no `L` line: in a smooth circuit equivalent to the
   CNF that mentions the variable, a literal that does not occur is false in every model, so the
   key None (FALSE) the name receives denotes the same thing. *)
Theorem C10_absent_literal : forall n C f v b, check_ddnnf n C f = true -> 1 <= v <= n ->
  c_occurs v b C = false -> forall a, sat a f = true -> a v = negb b.
Proof. exact absent_literal. Qed.
Print Assumptions C10_absent_literal.

(* Soundness of `label_ok`, the model of _load_nnf's labelling rule, in ALL its cases (constant keys,
   the absent-literal rule AND names mapped to an atom node, positively or negatively): if the rule
   accepts the pair (CNF key k of a name, NNF key r of the same name) on a circuit the checker accepts
   for f, then on every model a of f the NNF key's value in the circuit equals the truth value of the
   labelled CNF literal -- queries and evidence denote the same thing before and after compilation.
   The NNF-side value is given twice: `ref_evalb` (SpecLabels.v: `c_evalb` of the sub-circuit rooted at
   the referenced node, negated for negative keys, true/false for the constant keys 0/None) and the
   value the evaluator's forward pass itself reads for that key (`ref_val` on `vals`; a negative key
   reads the second component of the node's (pos,neg) pair).  `ckey_in_range` (the labelled variable is
   one of the CNF's 1..n) is needed only by the absent-literal case. *)
Theorem C10_labels_sound : forall n C f k r,
  check_ddnnf n C f = true -> ckey_in_range n k -> label_ok C k r = true ->
  forall a, sat a f = true ->
    ref_evalb a C r = key_evalb a k /\
    ref_val (alg_bool a) (vals (alg_bool a) C) r = key_evalb a k.
Proof. exact labels_sound. Qed.
Print Assumptions C10_labels_sound.

(* `ref_evalb` is the meaning the forward pass gives to EVERY key it reads (children of a well-formed
   circuit as well as labels): positive keys always, negative keys whenever they point at an atom. *)
Theorem C10_key_meaning_is_pass : forall a C r, key_ref_ok C r ->
  ref_val (alg_bool a) (vals (alg_bool a) C) r = ref_evalb a C r.
Proof. exact ref_evalb_pass. Qed.
Print Assumptions C10_key_meaning_is_pass.

(* the laws are satisfiable: exact rationals (Probability), Booleans, naturals (model counting) *)
Theorem C10_semiring_instances : sr_laws QcOps /\ sr_laws BoolOps /\ sr_laws NatOps.
Proof. exact (conj QcOps_laws (conj BoolOps_laws NatOps_laws)). Qed.
Print Assumptions C10_semiring_instances.

(* non-vacuity: the circuit dsharp + _load_nnf return for
   `0.3::a. 0.4::b. 0.5::c. q :- b, c. query(a). query(q).`   (CNF: 4 -2 -3 / -4 2 / -4 3) *)
Definition ex_circuit : circuit :=
  [Atom 4; Atom 3; Disj [RPos 1; RNeg 1]; Atom 2; Conj [RPos 2; RNeg 3]; Conj [RPos 3; RNeg 1];
   Disj [RPos 4; RPos 5]; Conj [RNeg 0; RPos 6]; Conj [RPos 0; RPos 3; RPos 1]; Disj [RPos 7; RPos 8];
   Atom 1; Disj [RPos 10; RNeg 10]; Conj [RPos 9; RPos 11]].
Definition ex_cnf : cnf := [[(4, true); (2, false); (3, false)]; [(4, false); (2, true)]; [(4, false); (3, true)]].
Example C10_checker_accepts_example : check_ddnnf 4 ex_circuit ex_cnf = true.
Proof. vm_compute. reflexivity. Qed.
(* ... and rejects a circuit whose OR is not deterministic / a circuit for another CNF *)
Example C10_checker_rejects_nondeterministic :
  check_ddnnf 2 [Atom 1; Atom 2; Disj [RPos 0; RPos 1]] [[(1, true); (2, true)]] = false.
Proof. vm_compute. reflexivity. Qed.
Example C10_checker_rejects_lost_sign : check_ddnnf 1 [Atom 1] [[(1, false)]] = false.
Proof. vm_compute. reflexivity. Qed.
(* the example evaluates to its weighted model count: P(q) = 0.4*0.5 with q's negative weight zeroed *)
Example C10_example_eval :
  o_eval ex_circuit [(mkq 3%Z 10%positive, mkq 7%Z 10%positive); (mkq 4%Z 10%positive, mkq 6%Z 10%positive); (mkq 1%Z 2%positive, mkq 1%Z 2%positive); (mkq 1%Z 1%positive, mkq 0%Z 1%positive)] = mkq 1%Z 5%positive
  /\ o_wmc 4 ex_cnf [(mkq 3%Z 10%positive, mkq 7%Z 10%positive); (mkq 4%Z 10%positive, mkq 6%Z 10%positive); (mkq 1%Z 2%positive, mkq 1%Z 2%positive); (mkq 1%Z 1%positive, mkq 0%Z 1%positive)] = mkq 1%Z 5%positive.
Proof. split; apply Qcanon.Qc_is_canon; vm_compute; reflexivity. Qed.
(* non-vacuity of C10_labels_sound on the example: `a` is CNF variable 1 (atom node 10), `q` is CNF
   variable 4 (atom node 0); a negated query on b (variable 2, atom node 3) is the negative key;
   and the rule rejects a label that points at the wrong atom or carries the wrong sign *)
Example C10_labels_example :
  label_ok ex_circuit (KLit 1 true) (RPos 10) = true /\ label_ok ex_circuit (KLit 4 true) (RPos 0) = true /\
  label_ok ex_circuit (KLit 2 false) (RNeg 3) = true /\ label_ok ex_circuit KTrue RT = true /\
  label_ok ex_circuit (KLit 1 true) (RPos 0) = false /\ label_ok ex_circuit (KLit 2 false) (RPos 3) = false /\
  label_ok ex_circuit (KLit 2 true) RF = false.
Proof. vm_compute. repeat split. Qed.
