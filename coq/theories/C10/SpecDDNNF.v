(* C10 — specification-level definitions (Prop): decomposable / deterministic /
   smooth NNF, commutative-semiring laws, well-formed DAG.  Definitions only. *)
From Coq Require Import List Bool Arith Ring_theory.
From PL.C10 Require Import ModelCircuit.
Import ListNotations.

(* laws of a commutative semiring, in the shape the `ring` tactic understands *)
Definition sr_laws (S : sr_ops) : Prop :=
  semi_ring_theory (s0 S) (s1 S) (sadd S) (smul S) (@eq S).

Definition same_vars (x y : nnf) : Prop := forall v, In v (tvars x) <-> In v (tvars y).
Definition disjoint_vars (x y : nnf) : Prop := forall v, In v (tvars x) -> In v (tvars y) -> False.
Definition exclusive (x y : nnf) : Prop := forall a, evalb a x = true -> evalb a y = true -> False.

(* AND children pairwise share no variable *)
Inductive Decomposable : nnf -> Prop :=
| Dc_T : Decomposable NT
| Dc_F : Decomposable NF
| Dc_L v b : Decomposable (NLit v b)
| Dc_And l : Forall Decomposable l -> ForallOrdPairs disjoint_vars l -> Decomposable (NAnd l)
| Dc_Or l : Forall Decomposable l -> Decomposable (NOr l).

(* OR children pairwise have no common model *)
Inductive Deterministic : nnf -> Prop :=
| Dt_T : Deterministic NT
| Dt_F : Deterministic NF
| Dt_L v b : Deterministic (NLit v b)
| Dt_And l : Forall Deterministic l -> Deterministic (NAnd l)
| Dt_Or l : Forall Deterministic l -> ForallOrdPairs exclusive l -> Deterministic (NOr l).

(* OR children all mention the same variables *)
Inductive Smooth : nnf -> Prop :=
| Sm_T : Smooth NT
| Sm_F : Smooth NF
| Sm_L v b : Smooth (NLit v b)
| Sm_And l : Forall Smooth l -> Smooth (NAnd l)
| Sm_Or l : Forall Smooth l -> (forall x y, In x l -> In y l -> same_vars x y) -> Smooth (NOr l).

(* DAG level: the properties of a circuit are those of the tree it denotes *)
Definition decomposable (C : circuit) : Prop := Decomposable (root_tree C).
Definition deterministic (C : circuit) : Prop := Deterministic (root_tree C).
Definition smooth (C : circuit) : Prop := Smooth (root_tree C).
(* every variable 1..n is mentioned (needed so that the root's value is the WMC over ALL variables) *)
Definition covers (n : nat) (C : circuit) : Prop :=
  forall v, 1 <= v <= n -> In v (tvars (root_tree C)).

(* no other variable is mentioned *)
Definition vars_in_range (n : nat) (C : circuit) : Prop :=
  forall v, In v (tvars (root_tree C)) -> 1 <= v <= n.

(* well-formed DAG: node k only refers to earlier nodes, negative references only to atoms *)
Definition ref_ok (C : circuit) (k : nat) (r : ref) : Prop :=
  match r with
  | RT | RF => True
  | RPos i => i < k
  | RNeg i => i < k /\ exists v, nth_error C i = Some (Atom v)
  end.
Definition wf (C : circuit) : Prop :=
  forall k n, nth_error C k = Some n ->
    match n with
    | Atom _ => True
    | Conj ch | Disj ch => forall r, In r ch -> ref_ok C k r
    end.
