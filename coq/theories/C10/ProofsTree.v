(* C10 — lemmas about NNF trees: induction principle, unfolding lemmas for the
   fold instances, soundness of the structural and semantic passes of the checker. *)
From Coq Require Import List Bool Arith Lia.
From PL.C10 Require Import ModelCircuit SpecDDNNF.
Import ListNotations.

(* ------------------------------------------------------------------ induction on trees *)
Lemma nnf_ind' : forall (P : nnf -> Prop),
  P NT -> P NF -> (forall v b, P (NLit v b)) ->
  (forall l, Forall P l -> P (NAnd l)) ->
  (forall l, Forall P l -> P (NOr l)) -> forall t, P t.
Proof.
  intros P HT HF HL HA HO. fix IH 1. intros [ | | v b | l | l].
  - exact HT.
  - exact HF.
  - apply HL.
  - apply HA.
    exact ((fix go (l : list nnf) : Forall P l :=
              match l with [] => Forall_nil P | x :: r => Forall_cons x (IH x) (go r) end) l).
  - apply HO.
    exact ((fix go (l : list nnf) : Forall P l :=
              match l with [] => Forall_nil P | x :: r => Forall_cons x (IH x) (go r) end) l).
Qed.

(* ------------------------------------------------------------------ small list facts *)
Lemma forallb_idb_map {X} (f : X -> bool) l : forallb idb (map f l) = forallb f l.
Proof. induction l; simpl; unfold idb in *; congruence. Qed.
Lemma existsb_idb_map {X} (f : X -> bool) l : existsb idb (map f l) = existsb f l.
Proof. induction l; simpl; unfold idb in *; congruence. Qed.

Lemma memb_spec l v : memb l v = true <-> In v l.
Proof.
  unfold memb. rewrite existsb_exists. split.
  - intros [x [Hin He]]. apply Nat.eqb_eq in He. subst. exact Hin.
  - intros H. exists v. split; [exact H | apply Nat.eqb_refl].
Qed.
Lemma memb_false l v : memb l v = false <-> ~ In v l.
Proof. rewrite <- memb_spec. destruct (memb l v); split; congruence. Qed.
Lemma inclb_spec x y : inclb x y = true <-> incl x y.
Proof.
  unfold inclb, incl. rewrite forallb_forall. split; intros H v Hv.
  - apply memb_spec, H, Hv.
  - apply memb_spec, H, Hv.
Qed.
Lemma same_setb_spec x y : same_setb x y = true <-> (forall v, In v x <-> In v y).
Proof.
  unfold same_setb. rewrite andb_true_iff, !inclb_spec. unfold incl. split.
  - intros [H1 H2] v. split; auto.
  - intros H. split; intros v; apply H.
Qed.
Lemma disjointb_spec x y : disjointb x y = true <-> (forall v, In v x -> In v y -> False).
Proof.
  unfold disjointb. rewrite forallb_forall. split.
  - intros H v Hx Hy. specialize (H v Hx). apply negb_true_iff, memb_false in H. auto.
  - intros H v Hx. apply negb_true_iff, memb_false. intro Hy. eauto.
Qed.

Lemma pairwiseb_FOP {X Y} (r : Y -> Y -> bool) (R : X -> X -> Prop) (f : X -> Y) l :
  pairwiseb r (map f l) = true ->
  (forall x y, In x l -> In y l -> r (f x) (f y) = true -> R x y) ->
  ForallOrdPairs R l.
Proof.
  induction l as [|x t IH]; simpl; intros Hp HR.
  - constructor.
  - apply andb_true_iff in Hp. destruct Hp as [H1 H2]. constructor.
    + apply Forall_forall. intros y Hy. apply HR; auto.
      rewrite forallb_forall in H1. apply H1. apply in_map. exact Hy.
    + apply IH; auto.
Qed.

(* ------------------------------------------------------------------ unfolding lemmas *)
Lemma evalb_and a l : evalb a (NAnd l) = forallb (evalb a) l.
Proof. unfold evalb. simpl. apply forallb_idb_map. Qed.
Lemma evalb_or a l : evalb a (NOr l) = existsb (evalb a) l.
Proof. unfold evalb. simpl. apply existsb_idb_map. Qed.
Lemma evalb_lit a v b : evalb a (NLit v b) = Bool.eqb (a v) b.
Proof. reflexivity. Qed.
Lemma tvars_and l : tvars (NAnd l) = flat_map tvars l.
Proof. unfold tvars. simpl. symmetry. apply flat_map_concat_map. Qed.
Lemma tvars_or l : tvars (NOr l) = flat_map tvars l.
Proof. unfold tvars. simpl. symmetry. apply flat_map_concat_map. Qed.
Lemma occurs_and v b l : occurs v b (NAnd l) = existsb (occurs v b) l.
Proof. unfold occurs. simpl. apply existsb_idb_map. Qed.
Lemma occurs_or v b l : occurs v b (NOr l) = existsb (occurs v b) l.
Proof. unfold occurs. simpl. apply existsb_idb_map. Qed.
Lemma eval_and S w l : eval S w (NAnd l) = sprod (map (eval S w) l).
Proof. reflexivity. Qed.
Lemma eval_or S w l : eval S w (NOr l) = ssum (map (eval S w) l).
Proof. reflexivity. Qed.

(* evalb only looks at the variables of the tree *)
Lemma evalb_dep : forall t a a', (forall v, In v (tvars t) -> a v = a' v) -> evalb a t = evalb a' t.
Proof.
  induction t as [ | | v b | l IH | l IH] using nnf_ind'; intros a a' H; try reflexivity.
  - rewrite !evalb_lit. rewrite (H v); [reflexivity | left; reflexivity].
  - rewrite !evalb_and. rewrite tvars_and in H.
    induction IH as [|x r Hx Hr IHr]; simpl; [reflexivity|].
    simpl in H. f_equal.
    + apply Hx. intros v Hv. apply H. apply in_or_app. left. exact Hv.
    + apply IHr. intros v Hv. apply H. apply in_or_app. right. exact Hv.
  - rewrite !evalb_or. rewrite tvars_or in H.
    induction IH as [|x r Hx Hr IHr]; simpl; [reflexivity|].
    simpl in H. f_equal.
    + apply Hx. intros v Hv. apply H. apply in_or_app. left. exact Hv.
    + apply IHr. intros v Hv. apply H. apply in_or_app. right. exact Hv.
Qed.

(* ------------------------------------------------------------------ structural pass *)
Definition sfold (t : nnf) := fold alg_struct t.

Lemma sfold_and l :
  sfold (NAnd l) = (flat_map (fun t => fst (sfold t)) l,
                    forallb (fun t => snd (sfold t)) l && pairwiseb disjointb (map (fun t => fst (sfold t)) l)).
Proof.
  unfold sfold. simpl. rewrite !map_map. rewrite forallb_idb_map.
  rewrite <- flat_map_concat_map. reflexivity.
Qed.
Lemma sfold_or l :
  sfold (NOr l) = (match l with [] => [] | x :: _ => fst (sfold x) end,
                   forallb (fun t => snd (sfold t)) l &&
                   match l with [] => true | x :: t => forallb (fun y => same_setb (fst (sfold x)) (fst (sfold y))) t end).
Proof.
  unfold sfold. simpl. rewrite !map_map. rewrite forallb_idb_map.
  destruct l as [|x t]; simpl; [reflexivity|].
  f_equal. f_equal. induction t; simpl; [reflexivity|]. f_equal. assumption.
Qed.

Lemma struct_sound : forall t, snd (sfold t) = true ->
  Decomposable t /\ Smooth t /\ (forall v, In v (fst (sfold t)) <-> In v (tvars t)).
Proof.
  induction t as [ | | v b | l IH | l IH] using nnf_ind'; intros Hs.
  - split; [constructor | split; [constructor | simpl; tauto]].
  - split; [constructor | split; [constructor | simpl; tauto]].
  - split; [constructor | split; [constructor | simpl; tauto]].
  - rewrite sfold_and in *. simpl in Hs. apply andb_true_iff in Hs. destruct Hs as [Hall Hpw].
    rewrite forallb_forall in Hall. rewrite Forall_forall in IH.
    assert (Hc : forall x, In x l -> Decomposable x /\ Smooth x /\ (forall v, In v (fst (sfold x)) <-> In v (tvars x))).
    { intros x Hx. apply IH; auto. }
    split; [|split].
    + constructor.
      * apply Forall_forall. intros x Hx. apply Hc, Hx.
      * apply (pairwiseb_FOP disjointb disjoint_vars (fun t => fst (sfold t))); [exact Hpw|].
        intros x y Hx Hy Hd v Hvx Hvy. rewrite disjointb_spec in Hd.
        apply (Hd v); [apply (proj2 (proj2 (Hc x Hx))) | apply (proj2 (proj2 (Hc y Hy)))]; assumption.
    + constructor. apply Forall_forall. intros x Hx. apply Hc, Hx.
    + intros v. simpl. rewrite tvars_and, !in_flat_map. split; intros [x [Hx Hv]]; exists x; split; auto;
        apply (proj2 (proj2 (Hc x Hx))); assumption.
  - rewrite sfold_or in *. simpl in Hs. apply andb_true_iff in Hs. destruct Hs as [Hall Hsame].
    rewrite forallb_forall in Hall. rewrite Forall_forall in IH.
    assert (Hc : forall x, In x l -> Decomposable x /\ Smooth x /\ (forall v, In v (fst (sfold x)) <-> In v (tvars x))).
    { intros x Hx. apply IH; auto. }
    destruct l as [|x0 r].
    + split; [constructor; constructor | split; [constructor; [constructor | intros x y []] | simpl; tauto]].
    + assert (H0 : forall y, In y (x0 :: r) -> forall v, In v (tvars x0) <-> In v (tvars y)).
      { intros y [<-|Hy] v; [tauto|].
        rewrite forallb_forall in Hsame. specialize (Hsame y Hy). rewrite same_setb_spec in Hsame.
        rewrite <- (proj2 (proj2 (Hc x0 (or_introl eq_refl)))).
        rewrite <- (proj2 (proj2 (Hc y (or_intror Hy)))). apply Hsame. }
      split; [|split].
      * constructor. apply Forall_forall. intros x Hx. apply Hc, Hx.
      * constructor.
        -- apply Forall_forall. intros x Hx. apply Hc, Hx.
        -- intros x y Hx Hy v. rewrite <- (H0 x Hx v). apply H0, Hy.
      * intros v. simpl fst. rewrite (proj2 (proj2 (Hc x0 (or_introl eq_refl)))).
        rewrite tvars_or, in_flat_map. split.
        -- intros Hv. exists x0. split; [left; reflexivity | exact Hv].
        -- intros [y [Hy Hv]]. apply (H0 y Hy). exact Hv.
Qed.

(* ------------------------------------------------------------------ semantic pass *)
Definition mfold (a : asg) (t : nnf) := fold (alg_sem a) t.

Lemma mfold_fst : forall a t, fst (mfold a t) = evalb a t.
Proof.
  intros a. induction t as [ | | v b | l IH | l IH] using nnf_ind'; try reflexivity.
  - unfold mfold. simpl. rewrite evalb_and, map_map, forallb_idb_map.
    induction IH as [|x r Hx Hr IHr]; simpl; [reflexivity|]. unfold mfold in Hx. rewrite Hx, IHr. reflexivity.
  - unfold mfold. simpl. rewrite evalb_or, map_map, existsb_idb_map.
    induction IH as [|x r Hx Hr IHr]; simpl; [reflexivity|]. unfold mfold in Hx. rewrite Hx, IHr. reflexivity.
Qed.

Lemma mfold_and a l : snd (mfold a (NAnd l)) = forallb (fun t => snd (mfold a t)) l.
Proof. unfold mfold. simpl. rewrite map_map, forallb_idb_map. reflexivity. Qed.
Lemma mfold_or a l : snd (mfold a (NOr l)) =
  forallb (fun t => snd (mfold a t)) l && at_most_one (map (evalb a) l).
Proof.
  unfold mfold. simpl. rewrite !map_map, forallb_idb_map. f_equal. f_equal.
  apply map_ext. intros t. apply mfold_fst.
Qed.

Lemma mfold_dep : forall t a a', (forall v, In v (tvars t) -> a v = a' v) -> mfold a t = mfold a' t.
Proof.
  induction t as [ | | v b | l IH | l IH] using nnf_ind'; intros a a' H; try reflexivity.
  - unfold mfold. simpl. rewrite (H v); [reflexivity | left; reflexivity].
  - unfold mfold. simpl. rewrite tvars_and in H.
    assert (E : map (fold (alg_sem a)) l = map (fold (alg_sem a')) l).
    { induction IH as [|x r Hx Hr IHr]; simpl; [reflexivity|]. simpl in H. f_equal.
      - apply Hx. intros v Hv. apply H, in_or_app. left. exact Hv.
      - apply IHr. intros v Hv. apply H, in_or_app. right. exact Hv. }
    rewrite E. reflexivity.
  - unfold mfold. simpl. rewrite tvars_or in H.
    assert (E : map (fold (alg_sem a)) l = map (fold (alg_sem a')) l).
    { induction IH as [|x r Hx Hr IHr]; simpl; [reflexivity|]. simpl in H. f_equal.
      - apply Hx. intros v Hv. apply H, in_or_app. left. exact Hv.
      - apply IHr. intros v Hv. apply H, in_or_app. right. exact Hv. }
    rewrite E. reflexivity.
Qed.

Lemma count_true_zero l : count_true l = 0 -> forall b, In b l -> b = false.
Proof.
  induction l as [|x r IH]; simpl; intros H b []; subst.
  - destruct b; [discriminate | reflexivity].
  - apply IH; auto. destruct x; [discriminate | exact H].
Qed.

Lemma at_most_one_FOP (a : asg) l :
  at_most_one (map (evalb a) l) = true ->
  ForallOrdPairs (fun x y => evalb a x = true -> evalb a y = true -> False) l.
Proof.
  unfold at_most_one. induction l as [|x r IH]; simpl; intros H.
  - constructor.
  - apply Nat.leb_le in H. constructor.
    + apply Forall_forall. intros y Hy Hx Hyt. rewrite Hx in H. simpl in H.
      assert (Hz : count_true (map (evalb a) r) = 0) by lia.
      pose proof (count_true_zero _ Hz (evalb a y) (in_map _ _ _ Hy)). congruence.
    + apply IH. apply Nat.leb_le. destruct (evalb a x); simpl in H; lia.
Qed.

Lemma FOP_forall_swap {X} {I} (R : I -> X -> X -> Prop) (l : list X) :
  (forall i, ForallOrdPairs (R i) l) -> ForallOrdPairs (fun x y => forall i, R i x y) l.
Proof.
  induction l as [|x r IH]; intros H.
  - constructor.
  - constructor.
    + apply Forall_forall. intros y Hy i. specialize (H i). inversion H; subst.
      rewrite Forall_forall in H2. apply H2, Hy.
    + apply IH. intros i. specialize (H i). inversion H; subst. assumption.
Qed.

(* determinism from the per-assignment flag, for ALL assignments *)
Lemma det_sound : forall t, (forall a, snd (mfold a t) = true) -> Deterministic t.
Proof.
  induction t as [ | | v b | l IH | l IH] using nnf_ind'; intros H; try constructor.
  - rewrite Forall_forall in *. intros x Hx. apply IH; auto. intros a.
    specialize (H a). rewrite mfold_and, forallb_forall in H. apply H, Hx.
  - rewrite Forall_forall in *. intros x Hx. apply IH; auto. intros a.
    specialize (H a). rewrite mfold_or in H. apply andb_true_iff in H. destruct H as [H _].
    rewrite forallb_forall in H. apply H, Hx.
  - unfold exclusive.
    apply (FOP_forall_swap (fun a x y => evalb a x = true -> evalb a y = true -> False)).
    intros a. apply at_most_one_FOP. specialize (H a). rewrite mfold_or in H.
    apply andb_true_iff in H. apply H.
Qed.

(* ------------------------------------------------------------------ enumeration of assignments *)
Lemma all_bools_complete : forall n bs, length bs = n -> In bs (all_bools n).
Proof.
  induction n as [|n IH]; intros [|b bs] H; simpl in *; try discriminate.
  - left. reflexivity.
  - apply in_or_app. destruct b; [left | right]; apply in_map, IH; lia.
Qed.

Definition restrict (n : nat) (a : asg) : list bool := map (fun k => a (S k)) (seq 0 n).

Lemma restrict_agrees n a v : 1 <= v <= n -> asg_of (restrict n a) v = a v.
Proof.
  intros [H1 H2]. destruct v as [|k]; [lia|]. unfold asg_of, restrict.
  rewrite (nth_indep _ false (a (S 0))) by (rewrite map_length, seq_length; lia).
  change (a 1) with ((fun k => a (S k)) 0). rewrite map_nth. rewrite seq_nth by lia. reflexivity.
Qed.
Lemma restrict_in n a : In (restrict n a) (all_bools n).
Proof. apply all_bools_complete. unfold restrict. rewrite map_length, seq_length. reflexivity. Qed.

Lemma var_in_range_spec n v : var_in_range n v = true <-> 1 <= v <= n.
Proof. unfold var_in_range. rewrite andb_true_iff, !Nat.leb_le. tauto. Qed.

Lemma sat_dep n f a a' : cnf_in_range n f = true -> (forall v, 1 <= v <= n -> a v = a' v) -> sat a f = sat a' f.
Proof.
  unfold cnf_in_range, sat. intros Hr H. induction f as [|c f IH]; simpl in *; [reflexivity|].
  apply andb_true_iff in Hr. destruct Hr as [Hc Hf]. f_equal; [|apply IH, Hf].
  clear IH Hf. induction c as [|l c IHc]; simpl in *; [reflexivity|].
  apply andb_true_iff in Hc. destruct Hc as [Hl Hc]. f_equal; [|apply IHc, Hc].
  unfold lit_true. rewrite (H (fst l)); [reflexivity | apply var_in_range_spec, Hl].
Qed.
