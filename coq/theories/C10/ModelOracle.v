(* C10 — entry points of the extracted oracle (definitions only, no proofs):
   exact rational (Qc) instance of the semiring operations, weight tables, and
   small helpers the OCaml driver uses to read / print big integers. *)
From Coq Require Import List Bool Arith ZArith QArith Qcanon.
From PL.C10 Require Import ModelCircuit.
Import ListNotations.

Definition QcOps : sr_ops :=
  {| car := Qc; s0 := 0%Qc; s1 := 1%Qc; sadd := Qcplus; smul := Qcmult |}.

(* weights of variables 1..n as a list of (positive weight, negative weight) *)
Definition wlist := list (Qc * Qc).
Definition w_of (l : wlist) : nat -> bool -> Qc :=
  fun v b => let p := nth (pred v) l (1%Qc, 1%Qc) in if b then fst p else snd p.

Definition o_all (n : nat) (C : circuit) (f : cnf) : bool := check_ddnnf n C f.
Definition o_wf (C : circuit) : bool := wfb C.
Definition o_struct := check_struct.
Definition o_cover := check_cover.
Definition o_det := check_det.
Definition o_equiv := check_equiv.
Definition o_eval (C : circuit) (l : wlist) : Qc := c_eval QcOps (w_of l) C.
Definition o_wmc (n : nat) (f : cnf) (l : wlist) : Qc := wmc_cnf QcOps (w_of l) n f.
Definition o_label := label_ok.

(* number helpers for the driver *)
Definition mkq (n : Z) (d : positive) : Qc := Q2Qc (n # d).
Definition qc_num (q : Qc) : Z := Qnum (this q).
Definition qc_den (q : Qc) : positive := Qden (this q).
Definition zmul10add (z : Z) (d : Z) : Z := (z * 10 + d)%Z.
Definition zdivmod10 (z : Z) : Z * Z := Z.div_eucl z 10.
Definition zneg (z : Z) : Z := Z.opp z.
Definition zis0 (z : Z) : bool := Z.eqb z 0.
Definition zisneg (z : Z) : bool := Z.ltb z 0.
Definition ztopos (z : Z) : positive := Z.to_pos z.
Definition zofpos (p : positive) : Z := Zpos p.
Definition zdigit (k : nat) : Z := Z.of_nat k.
Definition zsmall (z : Z) : nat := Z.to_nat z.
