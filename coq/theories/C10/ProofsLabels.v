(* C10 — soundness of `label_ok` (the model of _load_nnf's labelling rule) for ALL cases:
   a name that the CNF maps to key k and the compiled formula maps to reference r denotes the same
   thing before and after compilation, on every model of the CNF.

   The NNF-side meaning of a reference is defined at the specification level through `c_evalb` of the
   sub-circuit rooted at the referenced node (a circuit is a list whose root is the LAST node, so the
   sub-circuit rooted at node i is the prefix `firstn (S i) C`):
       RT -> true | RF -> false | RPos i -> c_evalb a (firstn (S i) C) | RNeg i -> negb (the same)
   and it is proved equal to what the evaluator's own forward pass stores for that key
   (`ref_val` on `vals`, where a negative key reads the SECOND component of the pair). *)
From Coq Require Import List Bool Arith Lia.
From PL.C10 Require Import ModelCircuit SpecDDNNF SpecLabels ProofsTree ProofsDag ProofsWMC.
Import ListNotations.

Lemma nth_error_firstn_lt {X} : forall (l : list X) i m, i < m -> nth_error (firstn m l) i = nth_error l i.
Proof.
  induction l as [|x l IH]; intros i m H.
  - rewrite firstn_nil. reflexivity.
  - destruct m as [|m]; [lia|]. destruct i as [|i]; simpl; [reflexivity|]. apply IH. lia.
Qed.

(* ------------------------------------------------------------------ the forward pass, node by node *)
Section Pass.
  Context {A : Type} (g : alg A).

  Lemma vals_from_length : forall ns acc, length (vals_from g acc ns) = length acc + length ns.
  Proof.
    induction ns as [|n r IH]; intros acc; simpl; [lia|].
    rewrite IH, app_length. simpl. lia.
  Qed.

  Lemma vals_from_app : forall ns1 ns2 acc,
    vals_from g acc (ns1 ++ ns2) = vals_from g (vals_from g acc ns1) ns2.
  Proof. induction ns1 as [|n r IH]; intros ns2 acc; simpl; [reflexivity | apply IH]. Qed.

  (* the pass only appends *)
  Lemma vals_from_prefix : forall ns acc, exists ext, vals_from g acc ns = acc ++ ext.
  Proof.
    induction ns as [|n r IH]; intros acc; simpl.
    - exists []. rewrite app_nil_r. reflexivity.
    - destruct (IH (acc ++ [node_val g acc n])) as [ext E]. exists (node_val g acc n :: ext).
      rewrite E, <- app_assoc. reflexivity.
  Qed.

  Lemma vals_length C : length (vals g C) = length C.
  Proof. unfold vals. rewrite vals_from_length. reflexivity. Qed.

  (* entry i of the pass over C is the value of node i computed from the pass over the nodes before it *)
  Lemma vals_nth C i n d : nth_error C i = Some n ->
    nth i (vals g C) d = node_val g (vals g (firstn i C)) n.
  Proof.
    intros Hn.
    assert (Hi : i < length C) by (apply nth_error_Some; congruence).
    destruct (nth_error_split C i Hn) as [l1 [l2 [EC El]]].
    assert (Ef : firstn i C = l1).
    { rewrite EC, <- El. rewrite firstn_app, Nat.sub_diag, firstn_all. simpl. apply app_nil_r. }
    rewrite Ef. rewrite EC. unfold vals. rewrite vals_from_app. simpl.
    destruct (vals_from_prefix l2 (vals_from g [] l1 ++ [node_val g (vals_from g [] l1) n])) as [ext E].
    rewrite E, <- app_assoc. rewrite app_nth2; rewrite vals_from_length; simpl; [|lia].
    rewrite El, Nat.sub_diag. reflexivity.
  Qed.

  (* the root value of the prefix ending in node i is the first component of entry i *)
  Lemma prefix_root_val C i d : i < length C ->
    root_val g (firstn (S i) C) = fst (nth i (vals g C) d).
  Proof.
    intros Hi. destruct (nth_error C i) as [n|] eqn:Hn; [|apply nth_error_None in Hn; lia].
    unfold root_val, root_ref. rewrite firstn_length, Nat.min_l by lia. cbn [ref_val].
    assert (Hn' : nth_error (firstn (S i) C) i = Some n).
    { rewrite nth_error_firstn_lt by lia. exact Hn. }
    rewrite (vals_nth _ i n _ Hn'), (vals_nth C i n d Hn).
    rewrite firstn_firstn, Nat.min_l by lia. reflexivity.
  Qed.
End Pass.

(* ------------------------------------------------------------------ atoms *)
Lemma atom_var_Some C i v : atom_var C i = Some v -> nth_error C i = Some (Atom v).
Proof.
  unfold atom_var. destruct (nth_error C i) as [[v'| |]|]; try discriminate. intros E. congruence.
Qed.

Lemma atom_entry a C i v d : nth_error C i = Some (Atom v) ->
  nth i (vals (alg_bool a) C) d = (Bool.eqb (a v) true, Bool.eqb (a v) false).
Proof. intros H. rewrite (vals_nth _ C i _ d H). reflexivity. Qed.

Lemma node_evalb_atom a C i v : nth_error C i = Some (Atom v) -> node_evalb a C i = a v.
Proof.
  intros H. unfold node_evalb, c_evalb.
  rewrite (prefix_root_val _ C i (false, false)) by (apply nth_error_Some; congruence).
  rewrite (atom_entry a C i v _ H). cbn [fst]. destruct (a v); reflexivity.
Qed.

(* ------------------------------------------------------------------ the specification-level meaning is what the pass stores *)
(* for positive keys always; for negative keys when the referenced node is an atom (which `wf`
   guarantees for child references and `label_ok` for labels) *)
Definition key_ref_ok (C : circuit) (r : ref) : Prop :=
  match r with
  | RT | RF => True
  | RPos i => i < length C
  | RNeg i => exists v, nth_error C i = Some (Atom v)
  end.

Lemma ref_evalb_pass a C r : key_ref_ok C r ->
  ref_val (alg_bool a) (vals (alg_bool a) C) r = ref_evalb a C r.
Proof.
  destruct r as [ | | i | i]; cbn [key_ref_ok ref_val ref_evalb]; try reflexivity.
  - intros Hi. unfold node_evalb, c_evalb. symmetry. apply prefix_root_val. exact Hi.
  - intros [v Hv]. rewrite (node_evalb_atom a C i v Hv).
    change (fF (alg_bool a), fF (alg_bool a)) with (false, false).
    rewrite (atom_entry a C i v _ Hv). cbn [snd]. destruct (a v); reflexivity.
Qed.

Lemma label_ok_key_ref_ok C k r : label_ok C k r = true -> key_ref_ok C r.
Proof.
  destruct k as [ | | v b], r as [ | | i | i]; simpl; try discriminate; try (intros _; exact I).
  - intros H. apply andb_true_iff in H. destruct H as [_ H].
    destruct (atom_var C i) as [v'|] eqn:E; [|discriminate].
    apply atom_var_Some in E. apply nth_error_Some. congruence.
  - intros H. apply andb_true_iff in H. destruct H as [_ H].
    destruct (atom_var C i) as [v'|] eqn:E; [|discriminate].
    apply atom_var_Some in E. exists v'. exact E.
Qed.

(* ------------------------------------------------------------------ label soundness *)
(* The atom-mapped cases do not even need the checker: an atom node for variable v evaluates to
   `a v` under EVERY assignment. *)
Lemma label_atom_sound C v b i a :
  (label_ok C (KLit v b) (RPos i) = true -> ref_evalb a C (RPos i) = key_evalb a (KLit v b)) /\
  (label_ok C (KLit v b) (RNeg i) = true -> ref_evalb a C (RNeg i) = key_evalb a (KLit v b)).
Proof.
  split; intros H; simpl in H; apply andb_true_iff in H; destruct H as [Hb H];
    destruct (atom_var C i) as [v'|] eqn:E; try discriminate;
    apply Nat.eqb_eq in H; subst v'; apply atom_var_Some in E;
    cbn [ref_evalb key_evalb]; rewrite (node_evalb_atom a C i v E).
  - destruct b; [|discriminate]. destruct (a v); reflexivity.
  - destruct b; [discriminate|]. destruct (a v); reflexivity.
Qed.

Theorem labels_sound : forall n C f k r,
  check_ddnnf n C f = true -> ckey_in_range n k -> label_ok C k r = true ->
  forall a, sat a f = true ->
    ref_evalb a C r = key_evalb a k /\
    ref_val (alg_bool a) (vals (alg_bool a) C) r = key_evalb a k.
Proof.
  intros n C f k r Hchk Hrange Hlab a Hsat.
  assert (Hspec : ref_evalb a C r = key_evalb a k).
  { destruct k as [ | | v b], r as [ | | i | i]; try discriminate Hlab; try reflexivity.
    - (* absent literal: key None *)
      simpl in Hlab. apply negb_true_iff in Hlab.
      cbn [ref_evalb key_evalb].
      rewrite (absent_literal n C f v b Hchk Hrange Hlab a Hsat). destruct b; reflexivity.
    - apply (label_atom_sound C v b i a), Hlab.
    - apply (label_atom_sound C v b i a), Hlab. }
  split; [exact Hspec|].
  rewrite (ref_evalb_pass a C r (label_ok_key_ref_ok C k r Hlab)). exact Hspec.
Qed.

(* every child reference of a well-formed circuit also has its specification-level meaning in the pass
   (so `ref_evalb` is THE meaning of keys everywhere, not only for labels) *)
Lemma wf_child_ref_ok C k ch r :
  wf C -> (nth_error C k = Some (Conj ch) \/ nth_error C k = Some (Disj ch)) -> In r ch -> key_ref_ok C r.
Proof.
  intros Hwf Hk Hr.
  assert (Hlt : k < length C) by (apply nth_error_Some; destruct Hk as [E|E]; congruence).
  assert (Hok : ref_ok C k r).
  { destruct Hk as [E|E]; exact (Hwf k _ E r Hr). }
  destruct r as [ | | i | i]; simpl in *; auto; [lia | tauto].
Qed.
