(* C10 — DAG evaluation equals evaluation of the unfolded tree (for every algebra),
   well-formedness, and soundness of check_ddnnf. *)
From Coq Require Import List Bool Arith Lia.
From PL.C10 Require Import ModelCircuit SpecDDNNF ProofsTree.
Import ListNotations.

Section Generic.
  Context {A : Type} (g : alg A).
  Definition fp (p : nnf * nnf) : A * A := (fold g (fst p), fold g (snd p)).

  Lemma ref_val_fold acc r : ref_val g (map fp acc) r = fold g (ref_val alg_term acc r).
  Proof.
    destruct r as [ | | i | i]; simpl; try reflexivity.
    - change (fF g, fF g) with (fp (NF, NF)). rewrite map_nth. reflexivity.
    - change (fF g, fF g) with (fp (NF, NF)). rewrite map_nth. reflexivity.
  Qed.

  Lemma node_val_fold acc n : node_val g (map fp acc) n = fp (node_val alg_term acc n).
  Proof.
    destruct n as [v | ch | ch]; simpl; unfold fp; simpl.
    - reflexivity.
    - rewrite map_map. rewrite (map_ext _ _ (ref_val_fold acc)). reflexivity.
    - rewrite map_map. rewrite (map_ext _ _ (ref_val_fold acc)). reflexivity.
  Qed.

  Lemma vals_from_fold : forall ns acc,
    vals_from g (map fp acc) ns = map fp (vals_from alg_term acc ns).
  Proof.
    induction ns as [|n r IH]; intros acc; simpl; [reflexivity|].
    rewrite node_val_fold. rewrite <- IH. rewrite map_app. reflexivity.
  Qed.

  Lemma vals_fold C : vals g C = map fp (unfold C).
  Proof. unfold vals, unfold, vals. apply (vals_from_fold C []). Qed.

  (* THE link between the DAG pass and the tree semantics *)
  Lemma root_val_fold C : root_val g C = fold g (root_tree C).
  Proof.
    unfold root_val, root_tree, root_val. rewrite vals_fold. apply ref_val_fold.
  Qed.
End Generic.

Lemma c_evalb_tree a C : c_evalb a C = evalb a (root_tree C).
Proof. apply root_val_fold. Qed.
Lemma c_eval_tree S w C : c_eval S w C = eval S w (root_tree C).
Proof. apply root_val_fold. Qed.
Lemma c_occurs_tree v b C : c_occurs v b C = occurs v b (root_tree C).
Proof. apply root_val_fold. Qed.

(* ------------------------------------------------------------------ well-formedness *)
Lemma ref_okb_sound C k r : ref_okb C k r = true -> ref_ok C k r.
Proof.
  destruct r as [ | | i | i]; simpl; auto.
  - intros H. apply Nat.ltb_lt. exact H.
  - intros H. apply andb_true_iff in H. destruct H as [H1 H2]. split; [apply Nat.ltb_lt, H1|].
    unfold is_atom in H2. destruct (nth_error C i) as [[v| |]|]; try discriminate. exists v. reflexivity.
Qed.

Lemma nodes_okb_sound C : forall ns k0, nodes_okb C k0 ns = true ->
  forall j n, nth_error ns j = Some n -> node_okb C (k0 + j) n = true.
Proof.
  induction ns as [|m r IH]; intros k0 H j n Hn.
  - destruct j; discriminate.
  - simpl in H. apply andb_true_iff in H. destruct H as [H1 H2]. destruct j as [|j]; simpl in Hn.
    + injection Hn as <-. rewrite Nat.add_0_r. exact H1.
    + replace (k0 + S j) with (S k0 + j) by lia. eapply IH; eauto.
Qed.

Lemma wfb_sound C : wfb C = true -> wf C.
Proof.
  unfold wfb, wf. intros H k n Hn.
  pose proof (nodes_okb_sound C C 0 H k n Hn) as Hk. simpl in Hk.
  destruct n as [v | ch | ch]; auto; simpl in Hk; rewrite forallb_forall in Hk;
    intros r Hr; apply ref_okb_sound, Hk, Hr.
Qed.

(* ------------------------------------------------------------------ checker soundness *)
Theorem check_ddnnf_sound : forall n C f, check_ddnnf n C f = true ->
  wf C /\ decomposable C /\ deterministic C /\ smooth C /\ covers n C /\ vars_in_range n C /\
  (forall a, c_evalb a C = sat a f).
Proof.
  intros n C f H. unfold check_ddnnf in H.
  apply andb_true_iff in H. destruct H as [H Hsem].
  apply andb_true_iff in H. destruct H as [H Hstruct].
  apply andb_true_iff in H. destruct H as [Hwf Hcnf].
  apply andb_true_iff in Hstruct. destruct Hstruct as [Hstruct Hcov].
  apply andb_true_iff in Hstruct. destruct Hstruct as [Hok Hrange].
  rewrite (root_val_fold alg_struct) in Hok, Hrange, Hcov.
  destruct (struct_sound (root_tree C) Hok) as [Hdec [Hsm Hvars]].
  rewrite forallb_forall in Hrange, Hcov, Hsem.
  (* all variables of the tree are within 1..n *)
  assert (Hin : forall v, In v (tvars (root_tree C)) -> 1 <= v <= n).
  { intros v Hv. apply var_in_range_spec, Hrange, Hvars, Hv. }
  (* per-assignment facts transfer from the enumerated assignment to an arbitrary one *)
  assert (Hall : forall a, snd (mfold a (root_tree C)) = true /\ evalb a (root_tree C) = sat a f).
  { intros a. specialize (Hsem (restrict n a) (restrict_in n a)). cbv zeta in Hsem.
    rewrite (root_val_fold (alg_sem (asg_of (restrict n a)))) in Hsem.
    apply andb_true_iff in Hsem. destruct Hsem as [Hd He]. apply eqb_prop in He.
    fold (mfold (asg_of (restrict n a)) (root_tree C)) in Hd, He.
    assert (Hag : forall v, In v (tvars (root_tree C)) -> a v = asg_of (restrict n a) v).
    { intros v Hv. symmetry. apply restrict_agrees, Hin, Hv. }
    rewrite (mfold_dep _ a (asg_of (restrict n a)) Hag). split; [exact Hd|].
    rewrite (evalb_dep _ a (asg_of (restrict n a)) Hag). rewrite <- mfold_fst. rewrite He.
    apply sat_dep with (n := n); [exact Hcnf|]. intros v Hv. apply restrict_agrees, Hv. }
  split; [apply wfb_sound, Hwf|].
  split; [exact Hdec|].
  split; [apply det_sound; intros a; apply Hall|].
  split; [exact Hsm|].
  split; [|split].
  - intros v Hv. apply Hvars, memb_spec, Hcov. unfold var_list. apply in_seq. lia.
  - exact Hin.
  - intros a. rewrite c_evalb_tree. apply Hall.
Qed.
